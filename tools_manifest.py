#!/usr/bin/env python3
"""Regenerates MANIFEST.json from the props/ modules (one per claimed property)."""
import importlib, json, os, sys
sys.path.insert(0, os.path.dirname(os.path.abspath(__file__)))
HERE = os.path.dirname(os.path.abspath(__file__))
props = [json.loads(l) for l in open(os.path.join(HERE, "properties.jsonl"))]
na_reasons = json.load(open(os.path.join(HERE, "not_applicable.json"))) if os.path.exists(os.path.join(HERE, "not_applicable.json")) else {}
man = json.load(open(os.path.join(HERE, "MANIFEST.json")))
checks, na = [], []
for p in props:
    pid = p["id"]
    if os.path.exists(os.path.join(HERE, "props", pid + ".py")):
        m = importlib.import_module("props." + pid)
        mf = m.MANIFEST
        checks.append({
            "property_id": pid,
            "quick_cmd": "./check %s --tier quick" % pid,
            "thorough_cmd": "./check %s --tier thorough" % pid,
            "evidence_file": "/verif/evidence/%s.json" % pid,
            "replay_cmd_template": "./check %s --replay {path}" % pid,
            "engine": "coq",
            "level_claimed": {"category": getattr(m, "LEVEL", "proof"), "text": mf["text"], "design_ref": mf.get("design_ref", "DESIGN.md section 6 " + pid)},
            "level_note": mf["note"],
            "technique": mf["technique"],
        })
    else:
        na.append({"property_id": pid, "reason": na_reasons.get(pid, "no check built yet in the time available; the model for this property is planned in DESIGN.md section 6 but not claimed")})
man["checks"] = checks
man["not_applicable"] = na
man["engines"][0]["serves_properties"] = [c["property_id"] for c in checks]
man["engines"][1]["serves_properties"] = [c["property_id"] for c in checks]
json.dump(man, open(os.path.join(HERE, "MANIFEST.json"), "w"), indent=1)
print("claimed:", len(checks), "not_applicable:", len(na))
