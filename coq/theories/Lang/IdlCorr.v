(* Correspondence vocabulary for C41: one case = one IDL specification (as its syntax tree;
   the text given to the real compiler is printed from it) with the output of the REAL
   dust_dds_gen::compile_idl parsed back into Rust items.  The model and the property oracle
   are applied inside Coq. *)
From DustDDS Require Export Base.Machine Lang.IdlModel.
Open Scope string_scope.
Open Scope list_scope.

(* the generated case files import this module: print the index lists of bad_idx / bad_classes
   on one line (a list wrapped at "(" is not read back completely by the driver) *)
#[export] Set Printing Width 1000000.

Inductive C41_in : Type :=
| InSpec (l : list ppitem)
| InBroken (k : N).          (* a text the grammar must reject (missing `;`, empty enum, ..) *)

Inductive C41_out : Type :=
| OItems (l : list ritem)    (* OK + generated source, parsed *)
| OErr                       (* compile_idl returned Err *)
| OPanic                     (* the generator panicked *)
| OGarbage.                  (* OK but the text is not a list of Rust items *)

Record C41_case : Type := mkC41 { c_in : C41_in; c_out : C41_out }.

(* ---- structural equality of generated items (the derive list is compared by "derives
   DdsType", so that adding another derived trait is not a disagreement) *)
Definition rpath_eqb (a b : rpath) : bool :=
  Bool.eqb (p_lead a) (p_lead b) && list_eqb String.eqb (p_segs a) (p_segs b).
Fixpoint rty_eqb (a b : rty) : bool :=
  match a, b with
  | RPath p, RPath q => rpath_eqb p q
  | RVec x, RVec y => rty_eqb x y
  | ROpt x, ROpt y => rty_eqb x y
  | RArr x n, RArr y m => rty_eqb x y && (n =? m)
  | RRefStr, RRefStr => true
  | _, _ => false
  end.
Definition rarg_eqb (a b : rarg) : bool :=
  match a, b with
  | AKey, AKey | AOptional, AOptional | ADefault, ADefault => true
  | AId x, AId y | ACase x, ACase y | AExt x, AExt y | ABitBound x, ABitBound y | AOther x, AOther y => x =? y
  | AName x, AName y => list_eqb String.eqb x y
  | ABase x, ABase y | ASwitch x, ASwitch y => rpath_eqb x y
  | _, _ => false
  end.
Definition rattr_eqb (a b : rattr) : bool :=
  match a, b with
  | RDerive x, RDerive y => Bool.eqb (mem_str dds_type_trait x) (mem_str dds_type_trait y)
  | RDds x, RDds y => list_eqb rarg_eqb x y
  | RAttrOther x, RAttrOther y => x =? y
  | _, _ => false
  end.
Definition rfield_eqb (a b : rfield) : bool :=
  list_eqb rattr_eqb (f_attrs a) (f_attrs b) && Bool.eqb (f_pub a) (f_pub b)
  && (f_name a =? f_name b) && rty_eqb (f_ty a) (f_ty b).
Definition rvariant_eqb (a b : rvariant) : bool :=
  list_eqb rattr_eqb (v_attrs a) (v_attrs b) && (v_name a =? v_name b)
  && list_eqb String.eqb (v_disc a) (v_disc b) && opt_eqb (list_eqb rfield_eqb) (v_fields a) (v_fields b).
Fixpoint ritem_eqb (a b : ritem) : bool :=
  match a, b with
  | RMod n x, RMod m y =>
      (n =? m) && (fix go (l r : list ritem) : bool :=
                     match l, r with
                     | [], [] => true
                     | p :: l', q :: r' => ritem_eqb p q && go l' r'
                     | _, _ => false
                     end) x y
  | RStruct at1 n fs, RStruct at2 m gs => list_eqb rattr_eqb at1 at2 && (n =? m) && list_eqb rfield_eqb fs gs
  | REnum at1 n vs, REnum at2 m ws => list_eqb rattr_eqb at1 at2 && (n =? m) && list_eqb rvariant_eqb vs ws
  | RType n t, RType m u => (n =? m) && rty_eqb t u
  | RConst n t e, RConst m u f => (n =? m) && rty_eqb t u && (e =? f)
  | _, _ => false
  end.

Definition C41_model_ok (c : C41_case) : bool :=
  match c_in c with
  | InBroken _ => match c_out c with OErr => true | _ => false end
  | InSpec l =>
      match compile l, c_out c with
      | Ok a, OItems b => list_eqb ritem_eqb a b
      | Err _, OErr => true
      | Panic _, OPanic => true
      | _, _ => false
      end
  end.

(* The property, on the implementation's output: for a specification of the supported
   subset the compiler must answer with items whose structure is the declared one.  Outside
   the subset (and for broken text) any answer but unreadable output is accepted. *)
Definition C41_oracle_ok (c : C41_case) : bool :=
  match c_in c with
  | InBroken _ => match c_out c with OGarbage => false | _ => true end
  | InSpec l =>
      let defs := preprocess l in
      if supported defs then
        match c_out c with
        | OItems items => structure_preserved defs items
        | _ => false
        end
      else match c_out c with OGarbage => false | _ => true end
  end.

(* classes of recorded defects: 1 bounds dropped, (2 retired: fixed by 7270bfe), 3 array
   dimensions after the first dropped, (4 retired: fixed by 99bf327).  A failing case belongs to a
   class only if the structure is preserved once everything the classes PRESENT in its
   declaration can lose is forgotten. *)
Definition C41_known (c : C41_case) : N :=
  match c_in c, c_out c with
  | InSpec l, OItems items =>
      let defs := preprocess l in
      let k1 := known_bounds defs in
      let k3 := known_multi_dim defs in
      if supported defs && structure_preserved_upto k1 k3 false defs items then
        if k1 then 1%N else if k3 then 3%N else 0%N
      else 0%N
  | _, _ => 0%N
  end.

(* ------------------------------------------------------------------------------------
   Second tie: the generated code of a case is compiled against dust_dds in a scratch crate
   whose main prints the dynamic type description of every generated struct.  Case = the IDL
   tree, the generated items and the printed descriptions. *)
Record C41d_case : Type := mkC41d { d_in : list ppitem; d_items : list ritem; d_obs : list obs_struct }.

(* the reading of the derive macro assumed by [shape_of_items] ([view]: the arguments of all
   #[dust_dds] attributes, a later one overwriting) predicts the real descriptions *)
Definition C41d_model_ok (c : C41d_case) : bool :=
  list_agree ps_agrees (flat_map (derive_structs []) (d_items c)) (d_obs c).

(* the property on the real descriptions: names, extensibility, base, member order, keys,
   optional flags and explicit ids are the declared ones *)
Definition C41d_oracle_ok (c : C41d_case) : bool :=
  descriptions_agree false false (preprocess (d_in c)) (d_obs c).

(* no class is left on this tie (2: 7270bfe, 4: 99bf327, 5: 7ee9e78 were fixed in /repo) *)
Definition C41d_known (c : C41d_case) : N := 0%N.
