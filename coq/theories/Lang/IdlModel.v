(* C41 — model of the IDL compiler (dds_gen): preprocessor/mod.rs (the #define / #ifdef /
   #ifndef gating of whole definitions), the identifier rule of parser/idl_v4_grammar.pest
   (an identifier is never a reserved word, compared case-insensitively) and, rule by rule,
   generator/rust.rs (RustGenerator::generate) from an IDL syntax tree to the generated Rust
   items.  Definitions only.

   Both sides are trees: the Python side prints the IDL text from the tree, runs the REAL
   compiler on it and parses the generated Rust text back into [ritem] terms; pest parsing
   and rustc are outside the model.

   Second half: the language-neutral "declared structure" ([ev] streams) read off the IDL
   tree ([shape_of_defs]: what the IDL declares) and read off Rust items the way
   #[derive(DdsType)] reads them ([shape_of_items]: the arguments of all #[dust_dds(..)]
   attributes of an item, a later one overwriting, dds_derive/src/derive/attributes.rs).  The property is
   [shape_of_items (gen spec) = shape_of_defs spec]. *)
From Coq Require Export String Ascii.
From DustDDS Require Export Base.Machine.
Open Scope string_scope.
Open Scope list_scope.

(* ------------------------------------------------------------------ IDL syntax tree *)

Definition cexpr := string.            (* a const_expr, as its token text without blanks *)

Inductive prim : Type :=
| PBool | PChar | PWChar | POctet | PI8 | PU8 | PI16 | PU16 | PI32 | PU32 | PI64 | PU64 | PF32 | PF64.

Inductive tspec : Type :=
| TPrim (p : prim)
| TName (abs : bool) (path : list string)          (* [::]a::b::c *)
| TSeq (e : tspec) (b : option cexpr)               (* sequence<e[, b]> *)
| TStr (b : option cexpr)                           (* string[<b>] *)
| TWStr (b : option cexpr)                          (* wstring[<b>] *)
| TUnsup (k : N).                                   (* fixed<..>, map<..>, any, Object, ValueBase *)

Inductive declr : Type :=
| DSimple (n : string)
| DArray (n : string) (d0 : cexpr) (ds : list cexpr).   (* n[d0][ds..] *)

Record annot : Type := mkAnnot { an_name : string; an_arg : option cexpr }.   (* @name[(expr)] *)

Record member : Type := mkMember { m_annots : list annot; m_type : tspec; m_d0 : declr; m_ds : list declr }.
Record enumerator : Type := mkEnumr { e_annots : list annot; e_name : string }.
(* case l0: ls..: type declarator;   a label None is `default:` *)
Record ucase : Type := mkCase { uc_l0 : option cexpr; uc_ls : list (option cexpr); uc_type : tspec; uc_decl : declr }.

Inductive def : Type :=
| DModule (n : string) (body : list def)
| DStruct (annots : list annot) (n : string) (base : option (bool * list string)) (ms : list member)
| DEnum (annots : list annot) (n : string) (e0 : enumerator) (es : list enumerator)
| DUnion (n : string) (disc : tspec) (c0 : ucase) (cs : list ucase)
| DTypedef (t : tspec) (d0 : declr) (ds : list declr)
| DConst (t : tspec) (n : string) (e : cexpr)
| DFwd (is_union : bool) (n : string)               (* struct X; / union X; *)
| DUnsup (k : N).                                   (* native, exception, bitmask, bitset, valuetype, .. *)

(* preprocessor view of a file: definitions, `#define NAME`, `#ifdef/#ifndef NAME .. #endif` *)
Inductive ppitem : Type :=
| PDef (d : def)
| PDefine (n : string)
| PIf (neg : bool) (n : string) (body : list ppitem).

(* ------------------------------------------------------------- generated Rust items *)

Record rpath : Type := mkPath { p_lead : bool; p_segs : list string }.     (* [::]a::b *)

Inductive rty : Type :=
| RPath (p : rpath) | RVec (t : rty) | ROpt (t : rty) | RArr (t : rty) (n : cexpr) | RRefStr.

(* one argument inside #[dust_dds( .. )] *)
Inductive rarg : Type :=
| AKey | AOptional | ADefault
| AId (e : cexpr) | ACase (e : cexpr)
| AExt (s : string)                  (* extensibility = "s" *)
| AName (segs : list string)         (* name = "a::b::C" *)
| ABase (p : rpath)                  (* base_type = path *)
| ASwitch (p : rpath)                (* switch(path) *)
| ABitBound (e : cexpr)              (* bit_bound(e) *)
| AOther (s : string).

Inductive rattr : Type :=
| RDerive (traits : list string)
| RDds (args : list rarg)
| RAttrOther (s : string).

Record rfield : Type := mkField { f_attrs : list rattr; f_pub : bool; f_name : string; f_ty : rty }.
Record rvariant : Type :=
  mkVariant { v_attrs : list rattr; v_name : string; v_disc : list cexpr; v_fields : option (list rfield) }.

Inductive ritem : Type :=
| RMod (n : string) (items : list ritem)
| RStruct (attrs : list rattr) (n : string) (fs : list rfield)
| REnum (attrs : list rattr) (n : string) (vs : list rvariant)
| RType (n : string) (t : rty)
| RConst (n : string) (t : rty) (e : cexpr).

(* --------------------------------------------------- preprocessor (preprocessor/mod.rs) *)

Definition mem_str (s : string) (l : list string) : bool := existsb (String.eqb s) l.

(* generate_preprocessed_idl: define_directive inserts into define_list; an ifdef/ifndef body
   is processed (including its own defines) iff the name is (not) defined *)
Fixpoint pp_item (env : list string) (i : ppitem) : list string * list def :=
  match i with
  | PDef d => (env, [d])
  | PDefine n => (n :: env, [])
  | PIf neg n body =>
      if xorb neg (mem_str n env)
      then (fix go (env : list string) (l : list ppitem) : list string * list def :=
              match l with
              | [] => (env, [])
              | x :: r => let (e1, d1) := pp_item env x in
                          let (e2, d2) := go e1 r in (e2, d1 ++ d2)
              end) env body
      else (env, [])
  end.
Fixpoint pp_items (env : list string) (l : list ppitem) : list string * list def :=
  match l with
  | [] => (env, [])
  | x :: r => let (e1, d1) := pp_item env x in
              let (e2, d2) := pp_items e1 r in (e2, d1 ++ d2)
  end.
Definition preprocess (l : list ppitem) : list def := snd (pp_items [] l).

(* ------------------------------------- identifier rule of the grammar (reserved words) *)

Definition lower_ascii (c : ascii) : ascii :=
  let n := nat_of_ascii c in
  if (Nat.leb 65 n && Nat.leb n 90)%bool then ascii_of_nat (n + 32)%nat else c.
Fixpoint lower (s : string) : string :=
  match s with EmptyString => EmptyString | String c t => String (lower_ascii c) (lower t) end.

(* reserved_keyword, every alternative is ^"..." (case-insensitive) *)
Definition idl_keywords : list string :=
  ["truncatable"; "mirrorport"; "primarykey"; "typeprefix"; "valuebase"; "attribute"; "component";
   "connector"; "eventtype"; "exception"; "getraises"; "interface"; "publishes"; "setraises";
   "valuetype"; "abstract"; "bitfield"; "consumes"; "multiple"; "porttype"; "provides"; "readonly";
   "sequence"; "supports"; "typename"; "unsigned"; "bitmask"; "boolean"; "context"; "default";
   "factory"; "manages"; "private"; "typedef"; "wstring"; "object"; "bitset"; "custom"; "double";
   "finder"; "import"; "module"; "native"; "oneway"; "public"; "raises"; "string"; "struct";
   "switch"; "typeid"; "uint16"; "uint32"; "uint64"; "false"; "alias"; "const"; "emits"; "fixed";
   "float"; "inout"; "int16"; "int32"; "int64"; "local"; "octet"; "short"; "uint8"; "union";
   "wchar"; "true"; "case"; "char"; "enum"; "home"; "int8"; "long"; "port"; "uses"; "void"; "any";
   "map"; "out"; "in"].
Definition ident_ok (s : string) : bool := negb (mem_str (lower s) idl_keywords).

Definition decl_name (d : declr) : string := match d with DSimple n | DArray n _ _ => n end.

Fixpoint tspec_idents (t : tspec) : list string :=
  match t with
  | TName _ p => p
  | TSeq e _ => tspec_idents e
  | _ => []
  end.
Definition annots_idents (A : list annot) : list string := map an_name A.
Definition member_idents (m : member) : list string :=
  annots_idents (m_annots m) ++ tspec_idents (m_type m) ++ map decl_name (m_d0 m :: m_ds m).
Definition case_idents (c : ucase) : list string := tspec_idents (uc_type c) ++ [decl_name (uc_decl c)].

Fixpoint def_idents (d : def) : list string :=
  match d with
  | DModule n body => n :: flat_map def_idents body
  | DStruct A n base ms =>
      annots_idents A ++ n :: match base with Some (_, p) => p | None => [] end ++ flat_map member_idents ms
  | DEnum A n e0 es =>
      annots_idents A ++ n :: flat_map (fun e => annots_idents (e_annots e) ++ [e_name e]) (e0 :: es)
  | DUnion n disc c0 cs => n :: tspec_idents disc ++ flat_map case_idents (c0 :: cs)
  | DTypedef t d0 ds => tspec_idents t ++ map decl_name (d0 :: ds)
  | DConst t n _ => tspec_idents t ++ [n]
  | DFwd _ n => [n]
  | DUnsup _ => []
  end.

(* shape restrictions the grammar imposes and the tree type does not: scoped names and module
   bodies are non-empty; a switch type is an integer/char/boolean/octet type or a name; a
   const type is not a sequence *)
Fixpoint tspec_paths_ok (t : tspec) : bool :=
  match t with
  | TName _ [] => false
  | TSeq e _ => tspec_paths_ok e
  | _ => true
  end.
Definition switch_ok (t : tspec) : bool :=
  match t with
  | TPrim PF32 | TPrim PF64 => false
  | TPrim _ => true
  | TName _ (_ :: _) => true
  | _ => false
  end.
Definition const_type_ok (t : tspec) : bool :=
  match t with TSeq _ _ => false | TUnsup _ => true | _ => tspec_paths_ok t end.

Fixpoint def_grammar_ok (d : def) : bool :=
  match d with
  | DModule _ body => negb (match body with [] => true | _ => false end) && forallb def_grammar_ok body
  | DStruct _ _ base ms =>
      match base with Some (_, []) => false | _ => true end && forallb (fun m => tspec_paths_ok (m_type m)) ms
  | DEnum _ _ _ _ => true
  | DUnion _ disc c0 cs => switch_ok disc && forallb (fun c => tspec_paths_ok (uc_type c)) (c0 :: cs)
  | DTypedef t _ _ => tspec_paths_ok t
  | DConst t _ _ => const_type_ok t
  | DFwd _ _ => true
  | DUnsup _ => true
  end.

(* IdlParser::parse(Rule::specification, ..) succeeds (specification = SOI definition+ EOI) *)
Definition parse_ok (defs : list def) : bool :=
  negb (match defs with [] => true | _ => false end)
  && forallb def_grammar_ok defs
  && forallb ident_ok (flat_map def_idents defs).

(* -------------------------------------------------- RustGenerator (generator/rust.rs) *)

Definition prim_rust (p : prim) : string :=
  match p with
  | PBool => "bool" | PChar => "char" | PWChar => "char" | POctet => "u8"
  | PI8 => "i8" | PU8 => "u8" | PI16 => "i16" | PU16 => "u16" | PI32 => "i32" | PU32 => "u32"
  | PI64 => "i64" | PU64 => "u64" | PF32 => "f32" | PF64 => "f64"
  end.

(* scoped_name(): a leading `::` becomes one `super` per enclosing module, then the text as is *)
Definition scoped (mods : list string) (abs : bool) (path : list string) : rpath :=
  if abs then
    match mods with
    | [] => mkPath true path
    | _ => mkPath false (repeat "super" (length mods) ++ path)
    end
  else mkPath false path.

(* type_spec / simple_type_spec / base_type_spec / template_type_spec; None = panic
   (todo!() / unimplemented!()).  sequence_type, string_type, wide_string_type ignore the bound. *)
Fixpoint gen_ty (mods : list string) (t : tspec) : option rty :=
  match t with
  | TPrim p => Some (RPath (mkPath false [prim_rust p]))
  | TName abs path => Some (RPath (scoped mods abs path))
  | TSeq e _ => match gen_ty mods e with Some r => Some (RVec r) | None => None end
  | TStr _ => Some (RPath (mkPath false ["String"]))
  | TWStr _ => Some (RPath (mkPath false ["String"]))
  | TUnsup _ => None
  end.

(* "TODO: Only single array supported": the first fixed_array_size only *)
Definition wrap_arr (d : declr) (t : rty) : rty :=
  match d with DSimple _ => t | DArray _ d0 _ => RArr t d0 end.

(* member(): the annotations recognised on a member, in source order *)
Definition annot_arg (a : annot) : list rarg :=
  if an_name a =? "key" then [AKey]
  else if an_name a =? "id" then match an_arg a with Some e => [AId e] | None => [] end
  else if an_name a =? "optional" then [AOptional]
  else [].
Definition rec_args (A : list annot) : list rarg := flat_map annot_arg A.
Definition is_optional (A : list annot) : bool := existsb (fun a => an_name a =? "optional") A.

Definition one_attr (a : rarg) : rattr := RDds [a].

(* the attributes are collected once and written before EVERY declarator (fix 7270bfe: IDL member
   annotations apply to every declarator of the member); every declarator becomes a `pub` field;
   the Option<..> wrapper is applied to every declarator *)
Definition gen_member (mods : list string) (m : member) : option (list rfield) :=
  match gen_ty mods (m_type m) with
  | None => None
  | Some t =>
      let ty := fun d => if is_optional (m_annots m) then ROpt (wrap_arr d t) else wrap_arr d t in
      Some (map (fun d => mkField (map one_attr (rec_args (m_annots m))) true (decl_name d) (ty d))
                (m_d0 m :: m_ds m))
  end.

Fixpoint concat_opt {A} (l : list (option (list A))) : option (list A) :=
  match l with
  | [] => Some []
  | None :: _ => None
  | Some x :: r => match concat_opt r with Some y => Some (x ++ y) | None => None end
  end.

Definition std_traits : list string :=
  ["Debug"; "Clone"; "dust_dds::infrastructure::type_support::DdsType"].

Definition ext_arg (a : annot) : list rarg :=
  if an_name a =? "final" then [AExt "final"]
  else if an_name a =? "appendable" then [AExt "appendable"]
  else if an_name a =? "mutable" then [AExt "mutable"]
  else [].

(* hierarchical_type_name, emitted only inside a module *)
Definition name_attr (mods : list string) (n : string) : list rattr :=
  match mods with [] => [] | _ => [RDds [AName (mods ++ [n])]] end.

Definition gen_struct (mods : list string) (A : list annot) (n : string)
           (base : option (bool * list string)) (ms : list member) : option (list ritem) :=
  match concat_opt (map (gen_member mods) ms) with
  | None => None
  | Some fs =>
      Some [RStruct
              (RDerive std_traits :: map one_attr (flat_map ext_arg A) ++ name_attr mods n
               ++ match base with Some (abs, p) => [RDds [ABase (scoped mods abs p)]] | None => [] end)
              n
              (match base with
               | Some (abs, p) => [mkField [] true "parent" (RPath (scoped mods abs p))]
               | None => []
               end ++ fs)]
  end.

Definition bit_bound_arg (a : annot) : list cexpr :=
  if an_name a =? "bit_bound" then match an_arg a with Some e => [e] | None => [] end else [].
Definition value_arg (a : annot) : list cexpr :=
  if an_name a =? "value" then match an_arg a with Some e => [e] | None => [] end else [].

Definition gen_enumerator (e : enumerator) : rvariant :=
  mkVariant [] (e_name e) (flat_map value_arg (e_annots e)) None.

Definition gen_enum (mods : list string) (A : list annot) (n : string) (es : list enumerator) : list ritem :=
  [REnum (RDerive std_traits :: name_attr mods n
          ++ map (fun e => RDds [ABitBound e]) (flat_map bit_bound_arg A))
         n (map gen_enumerator es)].

Definition label_arg (l : option cexpr) : rarg := match l with Some e => ACase e | None => ADefault end.

(* switch_type_spec: a base type keyword or a scoped name (checked by [switch_ok]) *)
Definition switch_path (mods : list string) (t : tspec) : rpath :=
  match t with
  | TPrim p => mkPath false [prim_rust p]
  | TName abs path => scoped mods abs path
  | _ => mkPath false []
  end.

Definition gen_case (mods : list string) (c : ucase) : option rvariant :=
  match gen_ty mods (uc_type c) with
  | None => None
  | Some t =>
      Some (mkVariant [RDds (map label_arg (uc_l0 c :: uc_ls c))]
                      (match uc_l0 c with Some e => String.append "Case" e | None => "Default" end)
                      []
                      (Some [mkField [] false (decl_name (uc_decl c)) (wrap_arr (uc_decl c) t)]))
  end.

Fixpoint all_opt {A} (l : list (option A)) : option (list A) :=
  match l with
  | [] => Some []
  | None :: _ => None
  | Some x :: r => match all_opt r with Some y => Some (x :: y) | None => None end
  end.

Definition gen_union (mods : list string) (n : string) (disc : tspec) (cs : list ucase) : option (list ritem) :=
  match all_opt (map (gen_case mods) cs) with
  | None => None
  | Some vs =>
      Some [REnum [RDerive std_traits;
                   RDds (ASwitch (switch_path mods disc)
                         :: match mods with [] => [] | _ => [AName (mods ++ [n])] end)]
                  n vs]
  end.

Definition is_array (d : declr) : bool := match d with DArray _ _ _ => true | _ => false end.

(* type_declarator: any_declarator -> array_declarator is todo!() *)
Definition gen_typedef (mods : list string) (t : tspec) (ds : list declr) : option (list ritem) :=
  match gen_ty mods t with
  | None => None
  | Some r => if existsb is_array ds then None else Some (map (fun d => RType (decl_name d) r) ds)
  end.

(* const_type: string_type is written as &str, everything else as generate() *)
Definition gen_const_ty (mods : list string) (t : tspec) : option rty :=
  match t with
  | TStr _ => Some RRefStr
  | _ => gen_ty mods t
  end.

Fixpoint gen_def (mods : list string) (d : def) : option (list ritem) :=
  match d with
  | DModule n body =>
      match concat_opt (map (gen_def (mods ++ [n])) body) with
      | Some items => Some [RMod n items]
      | None => None
      end
  | DStruct A n base ms => gen_struct mods A n base ms
  | DEnum A n e0 es => Some (gen_enum mods A n (e0 :: es))
  | DUnion n disc c0 cs => gen_union mods n disc (c0 :: cs)
  | DTypedef t d0 ds => gen_typedef mods t (d0 :: ds)
  | DConst t n e =>
      match gen_const_ty mods t with Some r => Some [RConst n r e] | None => None end
  | DFwd _ _ => Some []
  | DUnsup _ => None
  end.
Definition gen_defs (mods : list string) (l : list def) : option (list ritem) :=
  concat_opt (map (gen_def mods) l).

(* compile_idl: Err = the parser rejects the preprocessed text, Panic = the generator hits an
   unsupported rule *)
Definition compile_defs (defs : list def) : res (list ritem) :=
  if parse_ok defs then
    match gen_defs [] defs with Some l => Ok l | None => Panic 0 end
  else Err 0.
Definition compile (l : list ppitem) : res (list ritem) := compile_defs (preprocess l).

(* ========================================================= declared structure (shapes) *)

Inductive kind : Type :=
| KBool | KChar | KI8 | KU8 | KI16 | KU16 | KI32 | KU32 | KI64 | KU64 | KF32 | KF64
| KStr (b : option cexpr)                 (* string / wstring, with its bound *)
| KSeq (e : kind) (b : option cexpr)
| KArr (e : kind) (dims : list cexpr)
| KOpt (e : kind)
| KRef (abs : bool) (path : list string)
| KBad.

Record mshape : Type :=
  mkMS { ms_name : string; ms_kind : kind; ms_key : bool; ms_id : option cexpr; ms_opt : bool }.
Record cshape : Type :=
  mkCS { cs_labels : list cexpr; cs_default : bool; cs_name : string; cs_kind : kind }.

(* a declaration list as an event stream (module nesting = EEnter .. ELeave) *)
Inductive ev : Type :=
| EEnter (n : string) | ELeave
| EStruct (n : string) (qn : list string) (ext : option string) (base : option kind) (ms : list mshape)
| EEnum (n : string) (qn : list string) (bb : option cexpr) (es : list (string * list cexpr))
| EUnion (n : string) (qn : list string) (disc : kind) (cs : list cshape)
| EAlias (n : string) (k : kind)
| EConst (n : string) (k : kind) (e : cexpr)
| EBad.

(* an unqualified name that is the Rust spelling of a built-in type denotes that type on both
   sides (the repository's own union test declares `switch(u8)`) *)
Definition leaf_kind (n : string) : kind :=
  if n =? "bool" then KBool else if n =? "char" then KChar
  else if n =? "i8" then KI8 else if n =? "u8" then KU8
  else if n =? "i16" then KI16 else if n =? "u16" then KU16
  else if n =? "i32" then KI32 else if n =? "u32" then KU32
  else if n =? "i64" then KI64 else if n =? "u64" then KU64
  else if n =? "f32" then KF32 else if n =? "f64" then KF64
  else if n =? "String" then KStr None
  else KRef false [n].

Definition prim_kind (p : prim) : kind :=
  match p with
  | PBool => KBool | PChar => KChar | PWChar => KChar | POctet => KU8
  | PI8 => KI8 | PU8 => KU8 | PI16 => KI16 | PU16 => KU16 | PI32 => KI32 | PU32 => KU32
  | PI64 => KI64 | PU64 => KU64 | PF32 => KF32 | PF64 => KF64
  end.

Definition name_kind (abs : bool) (path : list string) : kind :=
  match abs, path with
  | false, [n] => leaf_kind n
  | _, _ => KRef abs path
  end.

(* ---- what the IDL declares *)
Fixpoint kind_of_tspec (t : tspec) : kind :=
  match t with
  | TPrim p => prim_kind p
  | TName abs path => name_kind abs path
  | TSeq e b => KSeq (kind_of_tspec e) b
  | TStr b => KStr b
  | TWStr b => KStr b
  | TUnsup _ => KBad
  end.

Definition decl_kind (d : declr) (k : kind) : kind :=
  match d with DSimple _ => k | DArray _ d0 ds => KArr k (d0 :: ds) end.

Definition is_key_arg (a : rarg) : bool := match a with AKey => true | _ => false end.
Definition is_opt_arg (a : rarg) : bool := match a with AOptional => true | _ => false end.
Definition is_default_arg (a : rarg) : bool := match a with ADefault => true | _ => false end.
(* the derive macro visits every argument of every #[dust_dds(..)] attribute in order and assigns:
   a later `id = ..`, `extensibility = ..`, `name = ..`, `base_type = ..`, `switch(..)`,
   `bit_bound ..` overwrites an earlier one *)
Definition pick {A} (sel : rarg -> option A) (l : list rarg) : option A :=
  fold_left (fun acc a => match sel a with Some x => Some x | None => acc end) l None.
Definition find_id : list rarg -> option cexpr := pick (fun a => match a with AId e => Some e | _ => None end).
Definition find_ext : list rarg -> option string := pick (fun a => match a with AExt s => Some s | _ => None end).
Definition find_name : list rarg -> option (list string) :=
  pick (fun a => match a with AName s => Some s | _ => None end).
Definition find_base : list rarg -> option rpath := pick (fun a => match a with ABase p => Some p | _ => None end).
Definition find_switch : list rarg -> option rpath :=
  pick (fun a => match a with ASwitch p => Some p | _ => None end).
Definition find_bit_bound : list rarg -> option cexpr :=
  pick (fun a => match a with ABitBound e => Some e | _ => None end).
Definition case_labels (l : list rarg) : list cexpr :=
  flat_map (fun a => match a with ACase e => [e] | _ => [] end) l.

(* @key / @id(e) / @optional annotate the member declaration, i.e. every declarator of it *)
Definition member_shapes (m : member) : list mshape :=
  let A := rec_args (m_annots m) in
  let k := kind_of_tspec (m_type m) in
  map (fun d => mkMS (decl_name d)
                     (if existsb is_opt_arg A then KOpt (decl_kind d k) else decl_kind d k)
                     (existsb is_key_arg A) (find_id A) (existsb is_opt_arg A))
      (m_d0 m :: m_ds m).

Definition case_shape (c : ucase) : cshape :=
  let ls := uc_l0 c :: uc_ls c in
  mkCS (flat_map (fun l => match l with Some e => [e] | None => [] end) ls)
       (existsb (fun l => match l with None => true | _ => false end) ls)
       (decl_name (uc_decl c)) (decl_kind (uc_decl c) (kind_of_tspec (uc_type c))).

Definition hd_opt {A} (l : list A) : option A := match l with [] => None | x :: _ => Some x end.

Fixpoint shape_of_def (mods : list string) (d : def) : list ev :=
  match d with
  | DModule n body => EEnter n :: flat_map (shape_of_def (mods ++ [n])) body ++ [ELeave]
  | DStruct A n base ms =>
      [EStruct n (mods ++ [n]) (find_ext (flat_map ext_arg A))
               (match base with Some (abs, p) => Some (name_kind abs p) | None => None end)
               (flat_map member_shapes ms)]
  | DEnum A n e0 es =>
      [EEnum n (mods ++ [n]) (find_bit_bound (map ABitBound (flat_map bit_bound_arg A)))
             (map (fun e => (e_name e, flat_map value_arg (e_annots e))) (e0 :: es))]
  | DUnion n disc c0 cs => [EUnion n (mods ++ [n]) (kind_of_tspec disc) (map case_shape (c0 :: cs))]
  | DTypedef t d0 ds => map (fun d => EAlias (decl_name d) (decl_kind d (kind_of_tspec t))) (d0 :: ds)
  | DConst t n e => [EConst n (kind_of_tspec t) e]
  | DFwd _ _ => []
  | DUnsup _ => [EBad]
  end.
Definition shape_of_defs (mods : list string) (l : list def) : list ev := flat_map (shape_of_def mods) l.

(* ---- what the generated Rust declares, read the way #[derive(DdsType)] reads it *)

Definition is_super (s : string) : bool := s =? "super".

(* a path inside `depth` nested modules: `depth` leading `super` segments climb to the root *)
Definition path_kind (depth : nat) (p : rpath) : kind :=
  if p_lead p then (match depth with O => KRef true (p_segs p) | _ => KBad end)
  else match p_segs p with
       | [n] => leaf_kind n
       | segs =>
           match depth with
           | O => KRef false segs
           | _ => if forallb is_super (firstn depth segs) && Nat.leb depth (length segs)
                  then KRef true (skipn depth segs) else KRef false segs
           end
       end.

Fixpoint kind_of_rty (depth : nat) (t : rty) : kind :=
  match t with
  | RPath p => path_kind depth p
  | RVec e => KSeq (kind_of_rty depth e) None
  | ROpt e => KOpt (kind_of_rty depth e)
  | RArr e n => match kind_of_rty depth e with
                | KArr e' dims => KArr e' (n :: dims)
                | k => KArr k [n]
                end
  | RRefStr => KStr None
  end.

(* get_*_attributes (after fix 99bf327): `for a in .attrs.iter().filter(|a| a.path().is_ident("dust_dds"))`
   — the arguments of ALL #[dust_dds(..)] attributes of the item, in order *)
Fixpoint view (attrs : list rattr) : list rarg :=
  match attrs with
  | [] => []
  | RDds args :: r => args ++ view r
  | _ :: r => view r
  end.

Definition dds_type_trait : string := "dust_dds::infrastructure::type_support::DdsType".
Definition derives_dds (attrs : list rattr) : bool :=
  existsb (fun a => match a with RDerive ts => mem_str dds_type_trait ts | _ => false end) attrs.

Definition field_shape (depth : nat) (f : rfield) : mshape :=
  let v := view (f_attrs f) in
  mkMS (f_name f) (kind_of_rty depth (f_ty f)) (existsb is_key_arg v) (find_id v) (existsb is_opt_arg v).

Definition qname_of (v : list rarg) (n : string) : list string :=
  match find_name v with Some s => s | None => [n] end.

Fixpoint list_eqb {A} (f : A -> A -> bool) (l m : list A) : bool :=
  match l, m with
  | [], [] => true
  | x :: l', y :: m' => f x y && list_eqb f l' m'
  | _, _ => false
  end.
Definition opt_eqb {A} (f : A -> A -> bool) (a b : option A) : bool :=
  match a, b with
  | None, None => true
  | Some x, Some y => f x y
  | _, _ => false
  end.

Fixpoint kind_eqb (a b : kind) : bool :=
  match a, b with
  | KBool, KBool | KChar, KChar | KI8, KI8 | KU8, KU8 | KI16, KI16 | KU16, KU16 | KI32, KI32
  | KU32, KU32 | KI64, KI64 | KU64, KU64 | KF32, KF32 | KF64, KF64 | KBad, KBad => true
  | KStr x, KStr y => opt_eqb String.eqb x y
  | KSeq e x, KSeq f y => kind_eqb e f && opt_eqb String.eqb x y
  | KArr e x, KArr f y => kind_eqb e f && list_eqb String.eqb x y
  | KOpt e, KOpt f => kind_eqb e f
  | KRef a1 p1, KRef a2 p2 => Bool.eqb a1 a2 && list_eqb String.eqb p1 p2
  | _, _ => false
  end.

(* with a base type the derive expects the inherited part as a leading field `parent` *)
Definition struct_shape (depth : nat) (attrs : list rattr) (n : string) (fs : list rfield) : ev :=
  let v := view attrs in
  let base := match find_base v with Some p => Some (path_kind depth p) | None => None end in
  let fs' := match base, fs with
             | Some bk, f :: r =>
                 if (f_name f =? "parent") && kind_eqb (kind_of_rty depth (f_ty f)) bk
                    && match f_attrs f with [] => true | _ => false end
                 then r else fs
             | _, _ => fs
             end in
  EStruct n (qname_of v n) (find_ext v) base (map (field_shape depth) fs').

Definition variant_case (depth : nat) (va : rvariant) : option cshape :=
  match v_fields va with
  | Some [f] =>
      let v := view (v_attrs va) in
      Some (mkCS (case_labels v) (existsb is_default_arg v) (f_name f) (kind_of_rty depth (f_ty f)))
  | _ => None
  end.

Definition enum_shape (depth : nat) (attrs : list rattr) (n : string) (vs : list rvariant) : ev :=
  let v := view attrs in
  match find_switch v with
  | Some p =>
      match all_opt (map (variant_case depth) vs) with
      | Some cs => EUnion n (qname_of v n) (path_kind depth p) cs
      | None => EBad
      end
  | None =>
      if forallb (fun va => match v_fields va with None => true | _ => false end) vs
      then EEnum n (qname_of v n) (find_bit_bound v) (map (fun va => (v_name va, v_disc va)) vs)
      else EBad
  end.

Fixpoint shape_of_item (depth : nat) (it : ritem) : list ev :=
  match it with
  | RMod n items => EEnter n :: flat_map (shape_of_item (S depth)) items ++ [ELeave]
  | RStruct attrs n fs => if derives_dds attrs then [struct_shape depth attrs n fs] else [EBad]
  | REnum attrs n vs => if derives_dds attrs then [enum_shape depth attrs n vs] else [EBad]
  | RType n t => [EAlias n (kind_of_rty depth t)]
  | RConst n t e => [EConst n (kind_of_rty depth t) e]
  end.
Definition shape_of_items (depth : nat) (l : list ritem) : list ev := flat_map (shape_of_item depth) l.

(* ------------------------------------------------------------ the supported subset *)

(* identifiers that cannot be written in the generated Rust (strict / reserved keywords and
   the path keywords), plus names of the types the mapping itself uses *)
Definition rust_reserved : list string :=
  ["as"; "break"; "const"; "continue"; "crate"; "else"; "enum"; "extern"; "false"; "fn"; "for"; "if";
   "impl"; "in"; "let"; "loop"; "match"; "mod"; "move"; "mut"; "pub"; "ref"; "return"; "self"; "Self";
   "static"; "struct"; "super"; "trait"; "true"; "type"; "unsafe"; "use"; "where"; "while"; "async";
   "await"; "dyn"; "abstract"; "become"; "box"; "do"; "final"; "macro"; "override"; "priv"; "typeof";
   "unsized"; "virtual"; "yield"; "try"; "gen"].
Definition rust_ident_ok (s : string) : bool := negb (mem_str s rust_reserved).

Fixpoint tspec_supported (t : tspec) : bool :=
  match t with
  | TUnsup _ => false
  | TSeq e _ => tspec_supported e
  | _ => true
  end.

(* identifiers that end up as Rust identifiers / path segments *)
Definition member_rust_idents (m : member) : list string :=
  tspec_idents (m_type m) ++ map decl_name (m_d0 m :: m_ds m).

Fixpoint def_rust_idents (d : def) : list string :=
  match d with
  | DModule n body => n :: flat_map def_rust_idents body
  | DStruct _ n base ms =>
      n :: match base with Some (_, p) => p | None => [] end ++ flat_map member_rust_idents ms
  | DEnum _ n e0 es => n :: map e_name (e0 :: es)
  | DUnion n disc c0 cs => n :: tspec_idents disc ++ flat_map case_idents (c0 :: cs)
  | DTypedef t d0 ds => tspec_idents t ++ map decl_name (d0 :: ds)
  | DConst t n _ => tspec_idents t ++ [n]
  | DFwd _ n => [n]
  | DUnsup _ => []
  end.

Fixpoint def_supported (d : def) : bool :=
  match d with
  | DModule _ body => forallb def_supported body
  | DStruct _ _ _ ms => forallb (fun m => tspec_supported (m_type m)) ms
  | DEnum _ _ _ _ => true
  | DUnion _ _ c0 cs => forallb (fun c => tspec_supported (uc_type c)) (c0 :: cs)
  | DTypedef t d0 ds => tspec_supported t && negb (existsb is_array (d0 :: ds))
  | DConst t _ _ => tspec_supported t
  | DFwd _ _ => true
  | DUnsup _ => false
  end.

(* the supported subset: the text parses, no construct the generator answers with todo!(),
   and no identifier that is reserved in Rust *)
Definition supported (defs : list def) : bool :=
  parse_ok defs && forallb def_supported defs && forallb rust_ident_ok (flat_map def_rust_idents defs).

(* --------------------------------------------------------- classes of known defects *)

Definition opt_some {A} (o : option A) : bool := match o with Some _ => true | None => false end.

(* class 1 — a bounded string / wstring / sequence somewhere in a declaration *)
Fixpoint tspec_bounded (t : tspec) : bool :=
  match t with
  | TSeq e b => opt_some b || tspec_bounded e
  | TStr b => opt_some b
  | TWStr b => opt_some b
  | _ => false
  end.
(* class 3 — an array declarator with more than one dimension *)
Definition multi_dim (d : declr) : bool :=
  match d with DArray _ _ (_ :: _) => true | _ => false end.
(* (class 2 — annotations of a multi-declarator member reaching the first name only — was fixed in
   /repo by 7270bfe and is retired; the class numbers of the others are kept) *)
(* (class 4 — several #[dust_dds(..)] attributes on one item, of which the derive read the first only —
   was fixed in /repo by 99bf327 and is retired) *)

Fixpoint def_bounded (d : def) : bool :=
  match d with
  | DModule _ body => existsb def_bounded body
  | DStruct _ _ _ ms => existsb (fun m => tspec_bounded (m_type m)) ms
  | DUnion _ _ c0 cs => existsb (fun c => tspec_bounded (uc_type c)) (c0 :: cs)
  | DTypedef t _ _ => tspec_bounded t
  | DConst t _ _ => tspec_bounded t
  | _ => false
  end.
Fixpoint def_multi_dim (d : def) : bool :=
  match d with
  | DModule _ body => existsb def_multi_dim body
  | DStruct _ _ _ ms => existsb (fun m => existsb multi_dim (m_d0 m :: m_ds m)) ms
  | DUnion _ _ c0 cs => existsb (fun c => multi_dim (uc_decl c)) (c0 :: cs)
  | _ => false
  end.
Definition known_bounds (defs : list def) : bool := existsb def_bounded defs.
Definition known_multi_dim (defs : list def) : bool := existsb def_multi_dim defs.

(* -------------------------------------------- erasures used to attribute a failure *)

Fixpoint kind_erase (eb ed : bool) (k : kind) : kind :=
  match k with
  | KStr b => KStr (if eb then None else b)
  | KSeq e b => KSeq (kind_erase eb ed e) (if eb then None else b)
  | KArr e dims => KArr (kind_erase eb ed e) (if ed then firstn 1 dims else dims)
  | KOpt e => KOpt (kind_erase eb ed e)
  | _ => k
  end.

(* eb: forget bounds; ed: keep the first array dimension only; ea (no class needs it any more): forget what lives in
   attributes (key, id, optional flag, qualified name, extensibility, base, bit_bound) *)
Definition ms_erase (eb ed ea : bool) (m : mshape) : mshape :=
  mkMS (ms_name m) (kind_erase eb ed (ms_kind m))
       (if ea then false else ms_key m) (if ea then None else ms_id m) (if ea then false else ms_opt m).
Definition cs_erase (eb ed : bool) (c : cshape) : cshape :=
  mkCS (cs_labels c) (cs_default c) (cs_name c) (kind_erase eb ed (cs_kind c)).

Definition is_parent (m : mshape) : bool := ms_name m =? "parent".

Definition ev_erase (eb ed ea : bool) (e : ev) : ev :=
  match e with
  | EStruct n qn ext base ms =>
      (* forgetting the base also forgets the `parent` field that stands for it *)
      let ms1 := if ea then filter (fun m => negb (is_parent m)) ms else ms in
      EStruct n (if ea then [] else qn) (if ea then None else ext) (if ea then None else base)
              (map (ms_erase eb ed ea) ms1)
  | EEnum n qn bb es => EEnum n (if ea then [] else qn) (if ea then None else bb) es
  | EUnion n qn disc cs => EUnion n qn disc (map (cs_erase eb ed) cs)
  | EAlias n k => EAlias n (kind_erase eb ed k)
  | EConst n k x => EConst n (kind_erase eb ed k) x
  | _ => e
  end.

(* --------------------------------------------- boolean equality of declared structure *)


Definition mshape_eqb (a b : mshape) : bool :=
  (ms_name a =? ms_name b) && kind_eqb (ms_kind a) (ms_kind b) && Bool.eqb (ms_key a) (ms_key b)
  && opt_eqb String.eqb (ms_id a) (ms_id b) && Bool.eqb (ms_opt a) (ms_opt b).
Definition cshape_eqb (a b : cshape) : bool :=
  list_eqb String.eqb (cs_labels a) (cs_labels b) && Bool.eqb (cs_default a) (cs_default b)
  && (cs_name a =? cs_name b) && kind_eqb (cs_kind a) (cs_kind b).
Definition enumr_eqb (a b : string * list cexpr) : bool :=
  (fst a =? fst b) && list_eqb String.eqb (snd a) (snd b).

Definition ev_eqb (a b : ev) : bool :=
  match a, b with
  | EEnter n, EEnter m => n =? m
  | ELeave, ELeave => true
  | EStruct n qn ext base ms, EStruct n' qn' ext' base' ms' =>
      (n =? n') && list_eqb String.eqb qn qn' && opt_eqb String.eqb ext ext'
      && opt_eqb kind_eqb base base' && list_eqb mshape_eqb ms ms'
  | EEnum n qn bb es, EEnum n' qn' bb' es' =>
      (n =? n') && list_eqb String.eqb qn qn' && opt_eqb String.eqb bb bb' && list_eqb enumr_eqb es es'
  | EUnion n qn d cs, EUnion n' qn' d' cs' =>
      (n =? n') && list_eqb String.eqb qn qn' && kind_eqb d d' && list_eqb cshape_eqb cs cs'
  | EAlias n k, EAlias n' k' => (n =? n') && kind_eqb k k'
  | EConst n k e, EConst n' k' e' => (n =? n') && kind_eqb k k' && (e =? e')
  | EBad, EBad => true
  | _, _ => false
  end.
Definition evs_eqb : list ev -> list ev -> bool := list_eqb ev_eqb.

(* the property oracle: the structure read off the items equals the structure the IDL declares *)
Definition structure_preserved (defs : list def) (items : list ritem) : bool :=
  evs_eqb (shape_of_items 0 items) (shape_of_defs [] defs).
(* the same after forgetting what the classes of known defects lose *)
Definition structure_preserved_upto (eb ed ea : bool) (defs : list def) (items : list ritem) : bool :=
  evs_eqb (map (ev_erase eb ed ea) (shape_of_items 0 items))
          (map (ev_erase eb ed ea) (shape_of_defs [] defs)).

(* ----------------------------------------- projections of a declared structure *)
(* (each is what one clause of the property talks about) *)

(* names of everything declared, with the module nesting *)
Definition ev_name (e : ev) : string :=
  match e with
  | EEnter n => String.append "module " n | ELeave => "end"
  | EStruct n _ _ _ _ => String.append "struct " n | EEnum n _ _ _ => String.append "enum " n
  | EUnion n _ _ _ => String.append "union " n | EAlias n _ => String.append "typedef " n
  | EConst n _ _ => String.append "const " n | EBad => "?"
  end.
Definition names_of (l : list ev) : list string := map ev_name l.

Definition struct_proj {A} (f : list mshape -> A) (e : ev) : list (string * A) :=
  match e with EStruct n _ _ _ ms => [(n, f ms)] | _ => [] end.
(* member names in declaration order *)
Definition members_of (l : list ev) := flat_map (struct_proj (map ms_name)) l.
(* member kinds (type, array sizes, bounds, optional wrapper) *)
Definition member_kinds_of (l : list ev) := flat_map (struct_proj (map (fun m => (ms_name m, ms_kind m)))) l.
(* key members *)
Definition keys_of (l : list ev) := flat_map (struct_proj (fun ms => map ms_name (filter ms_key ms))) l.
(* member ids *)
Definition ids_of (l : list ev) := flat_map (struct_proj (map (fun m => (ms_name m, ms_id m)))) l.
(* optional members *)
Definition optionals_of (l : list ev) := flat_map (struct_proj (fun ms => map ms_name (filter ms_opt ms))) l.
(* extensibility, base type and qualified name of every struct *)
Definition struct_headers_of (l : list ev) : list (string * (list string * option string * option kind)) :=
  flat_map (fun e => match e with EStruct n qn ext base _ => [(n, (qn, ext, base))] | _ => [] end) l.
(* enumerators with their explicit values, bit bound *)
Definition enums_of (l : list ev) : list (string * (list string * option cexpr * list (string * list cexpr))) :=
  flat_map (fun e => match e with EEnum n qn bb es => [(n, (qn, bb, es))] | _ => [] end) l.
(* union discriminator, and per case: labels, default, member name and kind *)
Definition unions_of (l : list ev) : list (string * (list string * kind * list cshape)) :=
  flat_map (fun e => match e with EUnion n qn d cs => [(n, (qn, d, cs))] | _ => [] end) l.
Definition union_labels_of (l : list ev) : list (string * list (string * list cexpr * bool)) :=
  flat_map (fun e => match e with
                     | EUnion n _ _ cs => [(n, map (fun c => (cs_name c, cs_labels c, cs_default c)) cs)]
                     | _ => [] end) l.
(* aliases and constants *)
Definition aliases_of (l : list ev) : list (string * kind) :=
  flat_map (fun e => match e with EAlias n k => [(n, k)] | _ => [] end) l.
Definition consts_of (l : list ev) : list (string * kind * cexpr) :=
  flat_map (fun e => match e with EConst n k x => [(n, k, x)] | _ => [] end) l.
Definition enumerators_of (l : list ev) : list (string * list (string * list cexpr)) :=
  flat_map (fun e => match e with EEnum n _ _ es => [(n, es)] | _ => [] end) l.

(* ================== observed type descriptions (the compiled generated crate prints them) *)
(* One record per generated struct: what <T as TypeSupport>::get_type() reports. *)

Record obs_member : Type := mkOM { om_name : string; om_id : string; om_key : bool; om_opt : bool }.
Record obs_struct : Type :=
  mkOS { os_path : list string;      (* Rust path of the type inside the generated code *)
         os_name : list string;      (* descriptor name, split at "::" *)
         os_ext : string;            (* "final" | "appendable" | "mutable" *)
         os_base : bool;             (* descriptor has a base type *)
         os_members : list obs_member }.

Definition is_digit (c : ascii) : bool :=
  let n := nat_of_ascii c in (Nat.leb 48 n && Nat.leb n 57)%bool.
Fixpoint all_digits (s : string) : bool :=
  match s with EmptyString => true | String c t => is_digit c && all_digits t end.
Definition is_decimal (s : string) : bool :=
  match s with EmptyString => false | _ => all_digits s end.

(* an id given as a decimal literal must be the reported id; other expressions are not evaluated *)
Definition id_agrees (declared : option cexpr) (observed : string) : bool :=
  match declared with
  | Some e => if is_decimal e then e =? observed else true
  | None => true
  end.

(* ---- what the derive macro makes of the generated items (dds_derive: type_support.rs,
   attributes.rs): name = `name` argument or the identifier; extensibility defaults to final;
   key / optional / id from all #[dust_dds] attributes of the field; an explicit id is used
   for every extensibility (fix 7ee9e78; members without one keep index / next automatic id, which
   is not predicted) *)
Record pred_member : Type := mkPM { pm_name : string; pm_id : option cexpr; pm_key : bool; pm_opt : bool }.
Record pred_struct : Type :=
  mkPS { ps_path : list string; ps_name : list string; ps_ext : string; ps_base : bool; ps_members : list pred_member }.

Definition ext_or_final (e : option string) : string := match e with Some s => s | None => "final" end.

Definition derive_struct (mods : list string) (attrs : list rattr) (n : string) (fs : list rfield) : pred_struct :=
  let v := view attrs in
  let ext := ext_or_final (find_ext v) in
  mkPS (mods ++ [n]) (qname_of v n) ext (opt_some (find_base v))
       (map (fun f => let fv := view (f_attrs f) in
                      mkPM (f_name f) (find_id fv)
                           (existsb is_key_arg fv) (existsb is_opt_arg fv)) fs).

Fixpoint derive_structs (mods : list string) (it : ritem) : list pred_struct :=
  match it with
  | RMod n items => flat_map (derive_structs (mods ++ [n])) items
  | RStruct attrs n fs => [derive_struct mods attrs n fs]
  | _ => []
  end.

Definition pm_agrees (p : pred_member) (o : obs_member) : bool :=
  (pm_name p =? om_name o) && id_agrees (pm_id p) (om_id o)
  && Bool.eqb (pm_key p) (om_key o) && Bool.eqb (pm_opt p) (om_opt o).

Fixpoint list_agree {A B} (f : A -> B -> bool) (l : list A) (m : list B) : bool :=
  match l, m with
  | [], [] => true
  | x :: l', y :: m' => f x y && list_agree f l' m'
  | _, _ => false
  end.

Definition ps_agrees (p : pred_struct) (o : obs_struct) : bool :=
  list_eqb String.eqb (ps_path p) (os_path o) && list_eqb String.eqb (ps_name p) (os_name o)
  && (ps_ext p =? os_ext o) && Bool.eqb (ps_base p) (os_base o)
  && list_agree pm_agrees (ps_members p) (os_members o).

(* ---- the property on the observed descriptions: what the IDL declares about its structs.
   [ra]: do not look at what lives in attributes (class 4);
   [ri]: do not look at explicit ids of non-mutable structs (class 5) *)
Definition declared_member_agrees (ra ri : bool) (mutable : bool) (m : mshape) (o : obs_member) : bool :=
  (ms_name m =? om_name o)
  && (ra || (Bool.eqb (ms_key m) (om_key o) && Bool.eqb (ms_opt m) (om_opt o)
             && (if (negb mutable && ri)%bool then true else id_agrees (ms_id m) (om_id o)))).

Definition declared_struct_agrees (ra ri : bool) (mods : list string) (e : ev) (o : obs_struct) : bool :=
  match e with
  | EStruct n qn ext base ms =>
      let mutable := ext_or_final ext =? "mutable" in
      (n =? last (os_path o) "")
      && (ra || (list_eqb String.eqb qn (os_name o) && (ext_or_final ext =? os_ext o)
                 && Bool.eqb (opt_some base) (os_base o)))
      && list_agree (declared_member_agrees ra ri mutable)
           ms (match base, os_members o with
               | Some _, p :: r => if om_name p =? "parent" then r else os_members o
               | _, _ => os_members o
               end)
  | _ => false
  end.

Definition is_struct_ev (e : ev) : bool := match e with EStruct _ _ _ _ _ => true | _ => false end.

Definition descriptions_agree (ra ri : bool) (defs : list def) (obs : list obs_struct) : bool :=
  list_agree (declared_struct_agrees ra ri []) (filter is_struct_ev (shape_of_defs [] defs)) obs.

(* (class 5 — an explicit @id on a member of a struct that is not @mutable was ignored by the derive —
   was fixed in /repo by 7ee9e78 and is retired; [ri] above is always passed false) *)
