From DustDDS Require Import Base.Machine Lang.IdlModel.
Open Scope string_scope.
Open Scope list_scope.

Lemma fwd_generates_nothing : forall mods u n, gen_def mods (DFwd u n) = Some [].
Proof. reflexivity. Qed.
