(* C41 — proofs about the model of the IDL compiler (IdlModel.v). *)
From DustDDS Require Import Base.Machine Lang.IdlModel.
Open Scope string_scope.
Open Scope list_scope.

(* ------------------------------------------------------------ boolean equalities *)

Lemma list_eqb_eq {A} (f : A -> A -> bool) :
  (forall x y, f x y = true <-> x = y) -> forall l m, list_eqb f l m = true <-> l = m.
Proof.
  intros Hf. induction l as [|x l IH]; destruct m as [|y m]; cbn [list_eqb]; try (split; [discriminate|discriminate]).
  - split; reflexivity.
  - rewrite andb_true_iff, Hf, IH. split.
    + intros [-> ->]. reflexivity.
    + intros E. inversion E. auto.
Qed.

Lemma opt_eqb_eq {A} (f : A -> A -> bool) :
  (forall x y, f x y = true <-> x = y) -> forall a b, opt_eqb f a b = true <-> a = b.
Proof.
  intros Hf [x|] [y|]; cbn [opt_eqb]; try (split; [discriminate|discriminate]).
  - rewrite Hf. split; [intros ->; reflexivity | intros E; inversion E; reflexivity].
  - split; reflexivity.
Qed.

Lemma str_eqb_eq : forall x y : string, (x =? y) = true <-> x = y.
Proof. exact String.eqb_eq. Qed.

Lemma bool_eqb_eq : forall x y : bool, Bool.eqb x y = true <-> x = y.
Proof. intros x y. split; [apply eqb_prop | intros ->; apply eqb_reflx]. Qed.

Lemma kind_eqb_eq : forall a b, kind_eqb a b = true <-> a = b.
Proof.
  induction a as [| | | | | | | | | | | |x|e IH x|e IH x|e IH|a1 p1|]; destruct b; cbn [kind_eqb];
    try (split; [discriminate|discriminate]); try (split; reflexivity).
  - rewrite (opt_eqb_eq _ str_eqb_eq). split; [intros ->; reflexivity | intros E; inversion E; reflexivity].
  - rewrite andb_true_iff, IH, (opt_eqb_eq _ str_eqb_eq).
    split; [intros [-> ->]; reflexivity | intros E; inversion E; auto].
  - rewrite andb_true_iff, IH, (list_eqb_eq _ str_eqb_eq).
    split; [intros [-> ->]; reflexivity | intros E; inversion E; auto].
  - rewrite IH. split; [intros ->; reflexivity | intros E; inversion E; reflexivity].
  - rewrite andb_true_iff, bool_eqb_eq, (list_eqb_eq _ str_eqb_eq).
    split; [intros [-> ->]; reflexivity | intros E; inversion E; auto].
Qed.

Lemma kind_eqb_refl : forall k, kind_eqb k k = true.
Proof. intros k. apply kind_eqb_eq. reflexivity. Qed.

Lemma mshape_eqb_eq : forall a b, mshape_eqb a b = true <-> a = b.
Proof.
  intros [n1 k1 y1 i1 o1] [n2 k2 y2 i2 o2]. unfold mshape_eqb. cbn [ms_name ms_kind ms_key ms_id ms_opt].
  rewrite !andb_true_iff, str_eqb_eq, kind_eqb_eq, !bool_eqb_eq, (opt_eqb_eq _ str_eqb_eq).
  split.
  - intros [[[[-> ->] ->] ->] ->]. reflexivity.
  - intros E. inversion E. auto.
Qed.

Lemma cshape_eqb_eq : forall a b, cshape_eqb a b = true <-> a = b.
Proof.
  intros [l1 d1 n1 k1] [l2 d2 n2 k2]. unfold cshape_eqb. cbn [cs_labels cs_default cs_name cs_kind].
  rewrite !andb_true_iff, str_eqb_eq, kind_eqb_eq, bool_eqb_eq, (list_eqb_eq _ str_eqb_eq).
  split.
  - intros [[[-> ->] ->] ->]. reflexivity.
  - intros E. inversion E. auto.
Qed.

Lemma enumr_eqb_eq : forall a b, enumr_eqb a b = true <-> a = b.
Proof.
  intros [n1 v1] [n2 v2]. unfold enumr_eqb. cbn [fst snd].
  rewrite andb_true_iff, str_eqb_eq, (list_eqb_eq _ str_eqb_eq).
  split; [intros [-> ->]; reflexivity | intros E; inversion E; auto].
Qed.

Lemma ev_eqb_eq : forall a b, ev_eqb a b = true <-> a = b.
Proof.
  intros a b. destruct a, b; cbn [ev_eqb]; try (split; [discriminate|discriminate]); try (split; reflexivity).
  - rewrite str_eqb_eq. split; [intros ->; reflexivity | intros E; inversion E; reflexivity].
  - rewrite !andb_true_iff, str_eqb_eq, (list_eqb_eq _ str_eqb_eq), (opt_eqb_eq _ str_eqb_eq),
      (opt_eqb_eq _ kind_eqb_eq), (list_eqb_eq _ mshape_eqb_eq).
    split; [intros [[[[-> ->] ->] ->] ->]; reflexivity | intros E; inversion E; auto].
  - rewrite !andb_true_iff, str_eqb_eq, (list_eqb_eq _ str_eqb_eq), (opt_eqb_eq _ str_eqb_eq),
      (list_eqb_eq _ enumr_eqb_eq).
    split; [intros [[[-> ->] ->] ->]; reflexivity | intros E; inversion E; auto].
  - rewrite !andb_true_iff, str_eqb_eq, (list_eqb_eq _ str_eqb_eq), kind_eqb_eq, (list_eqb_eq _ cshape_eqb_eq).
    split; [intros [[[-> ->] ->] ->]; reflexivity | intros E; inversion E; auto].
  - rewrite !andb_true_iff, str_eqb_eq, kind_eqb_eq.
    split; [intros [-> ->]; reflexivity | intros E; inversion E; auto].
  - rewrite !andb_true_iff, !str_eqb_eq, kind_eqb_eq.
    split; [intros [[-> ->] ->]; reflexivity | intros E; inversion E; auto].
Qed.

Lemma evs_eqb_eq : forall a b, evs_eqb a b = true <-> a = b.
Proof. exact (list_eqb_eq _ ev_eqb_eq). Qed.

(* the oracle of the correspondence run means equality of the declared structures *)
Lemma structure_preserved_iff : forall defs items,
  structure_preserved defs items = true <-> shape_of_items 0 items = shape_of_defs [] defs.
Proof. intros. unfold structure_preserved. apply evs_eqb_eq. Qed.

Lemma structure_preserved_upto_iff : forall eb ed ea defs items,
  structure_preserved_upto eb ed ea defs items = true <->
  map (ev_erase eb ed ea) (shape_of_items 0 items) = map (ev_erase eb ed ea) (shape_of_defs [] defs).
Proof. intros. unfold structure_preserved_upto. apply evs_eqb_eq. Qed.

(* ------------------------------------------------------- erasing nothing is the identity *)

Lemma kind_erase_none : forall k, kind_erase false false k = k.
Proof. induction k; cbn [kind_erase]; congruence. Qed.

Lemma map_id_ext {A} (f : A -> A) : (forall x, f x = x) -> forall l, map f l = l.
Proof. intros H. induction l; cbn [map]; congruence. Qed.

Lemma ms_erase_none : forall m, ms_erase false false false m = m.
Proof. intros [n k y i o]. unfold ms_erase. cbn [ms_name ms_kind ms_key ms_id ms_opt]. rewrite kind_erase_none. reflexivity. Qed.

Lemma cs_erase_none : forall c, cs_erase false false c = c.
Proof. intros [l d n k]. unfold cs_erase. cbn [cs_labels cs_default cs_name cs_kind]. rewrite kind_erase_none. reflexivity. Qed.

Lemma ev_erase_none : forall e, ev_erase false false false e = e.
Proof.
  intros e. destruct e; cbn [ev_erase]; try reflexivity.
  - rewrite (map_id_ext _ ms_erase_none). reflexivity.
  - rewrite (map_id_ext _ cs_erase_none). reflexivity.
  - rewrite kind_erase_none. reflexivity.
  - rewrite kind_erase_none. reflexivity.
Qed.

Lemma evs_erase_none : forall l, map (ev_erase false false false) l = l.
Proof. exact (map_id_ext _ ev_erase_none). Qed.

(* ------------------------------------------------------------------ kinds of types *)

Lemma leaf_prim : forall p, leaf_kind (prim_rust p) = prim_kind p.
Proof. destruct p; reflexivity. Qed.

Lemma forallb_super_repeat : forall d, forallb is_super (repeat "super" d) = true.
Proof. induction d; cbn [repeat forallb]; [reflexivity|]. rewrite IHd. reflexivity. Qed.

Lemma firstn_repeat_app {A} (x : A) d l : firstn d (repeat x d ++ l) = repeat x d.
Proof. induction d; cbn [repeat firstn app]; [reflexivity | rewrite IHd; reflexivity]. Qed.

Lemma skipn_repeat_app {A} (x : A) d l : skipn d (repeat x d ++ l) = l.
Proof. induction d; cbn [repeat skipn app]; [reflexivity | exact IHd]. Qed.

Definition head_ok (path : list string) : bool :=
  match path with [] => false | h :: _ => negb (is_super h) end.

Lemma path_kind_super : forall d path,
  head_ok path = true ->
  path_kind (S d) (mkPath false (repeat "super" (S d) ++ path)) = KRef true path.
Proof.
  intros d path Hh. unfold path_kind. cbn [p_lead p_segs repeat app].
  destruct (repeat "super" d ++ path) as [|s1 r] eqn:E.
  - apply app_eq_nil in E. destruct E as [_ ->]. discriminate.
  - rewrite <- E. cbn [firstn forallb length]. rewrite firstn_repeat_app, forallb_super_repeat.
    cbn [is_super]. change (is_super "super") with true. cbn [andb].
    replace (Nat.leb (S d) (S (length (repeat "super" d ++ path)))) with true.
    + cbn [skipn]. rewrite skipn_repeat_app. reflexivity.
    + symmetry. apply Nat.leb_le. rewrite app_length, repeat_length. lia.
Qed.

(* the generated path of a scoped name denotes that scoped name again *)
Lemma scoped_kind : forall mods abs path,
  head_ok path = true -> path_kind (length mods) (scoped mods abs path) = name_kind abs path.
Proof.
  intros mods abs path Hh. unfold scoped. destruct abs.
  - destruct mods as [|m ms].
    + destruct path; reflexivity.
    + cbn [length]. rewrite path_kind_super by exact Hh. destruct path; reflexivity.
  - destruct path as [|h t]; [discriminate|]. cbn [head_ok] in Hh. apply negb_true_iff in Hh.
    unfold path_kind. cbn [p_lead p_segs]. destruct t as [|t1 t2].
    + reflexivity.
    + destruct (length mods) as [|d]; [reflexivity|].
      cbn [firstn forallb]. rewrite Hh. reflexivity.
Qed.

Fixpoint tspec_wf (t : tspec) : bool :=
  match t with
  | TName _ p => head_ok p
  | TSeq e _ => tspec_wf e
  | TUnsup _ => false
  | _ => true
  end.

Lemma gen_ty_total : forall mods t, tspec_wf t = true -> exists r, gen_ty mods t = Some r.
Proof.
  intros mods. induction t; cbn [tspec_wf gen_ty]; intros H; try (eexists; reflexivity); try discriminate.
  destruct (IHt H) as [r ->]. eexists. reflexivity.
Qed.

Lemma gen_ty_panics : forall mods t, tspec_supported t = false -> gen_ty mods t = None.
Proof.
  intros mods. induction t; cbn [tspec_supported gen_ty]; intros H; try discriminate; try reflexivity.
  rewrite (IHt H). reflexivity.
Qed.

(* a generated type is never an array (arrays come from declarators only) *)
Definition not_arr (k : kind) : Prop := match k with KArr _ _ => False | _ => True end.

Lemma leaf_not_arr : forall n, not_arr (leaf_kind n).
Proof.
  intros n. unfold leaf_kind.
  repeat match goal with |- not_arr (if ?c then _ else _) => destruct c; [exact I|] end. exact I.
Qed.

Lemma path_kind_not_arr : forall d p, not_arr (path_kind d p).
Proof.
  intros d [l segs]. unfold path_kind. cbn [p_lead p_segs]. destruct l.
  - destruct d; exact I.
  - destruct segs as [|s [|s2 r]].
    + destruct d; exact I.
    + apply leaf_not_arr.
    + destruct d; [exact I|]. match goal with |- not_arr (if ?c then _ else _) => destruct c; exact I end.
Qed.

Lemma gen_ty_not_arr : forall mods t r d, gen_ty mods t = Some r -> not_arr (kind_of_rty d r).
Proof.
  intros mods t r d. destruct t; cbn [gen_ty]; intros H; try (inversion H; subst; cbn [kind_of_rty]; first [apply path_kind_not_arr | exact I]); try discriminate.
  destruct (gen_ty mods t); [|discriminate]. inversion H. exact I.
Qed.

(* kinds agree up to the bounds (which the generator drops) *)
Lemma gen_ty_kind : forall eb ed mods t r,
  tspec_wf t = true -> (tspec_bounded t = true -> eb = true) ->
  gen_ty mods t = Some r ->
  kind_erase eb ed (kind_of_rty (length mods) r) = kind_erase eb ed (kind_of_tspec t).
Proof.
  intros eb ed mods. induction t; cbn [tspec_wf tspec_bounded gen_ty kind_of_tspec]; intros r Hwf Hb H; try discriminate.
  - inversion H. subst. cbn [kind_of_rty]. unfold path_kind. cbn [p_lead p_segs]. rewrite leaf_prim. reflexivity.
  - inversion H. subst. cbn [kind_of_rty]. rewrite scoped_kind by exact Hwf. reflexivity.
  - destruct (gen_ty mods t) as [r0|] eqn:E; [|discriminate]. inversion H. subst. cbn [kind_of_rty kind_erase].
    rewrite (IHt r0 Hwf) by (try reflexivity; intros Hb'; apply Hb; rewrite Hb'; apply orb_true_r).
    destruct eb; [reflexivity|]. destruct b; [|reflexivity].
    exfalso. assert (false = true) by (apply Hb; reflexivity). discriminate.
  - inversion H. subst. cbn [kind_of_rty kind_erase]. destruct eb; [reflexivity|]. destruct b; [|reflexivity].
    exfalso. assert (false = true) by (apply Hb; reflexivity). discriminate.
  - inversion H. subst. cbn [kind_of_rty kind_erase]. destruct eb; [reflexivity|]. destruct b; [|reflexivity].
    exfalso. assert (false = true) by (apply Hb; reflexivity). discriminate.
Qed.

(* ---------------------------------------------------------------------- members *)

Lemma view_app : forall a b, view (a ++ b) = view a ++ view b.
Proof.
  induction a as [|x a IH]; intros b; [reflexivity|].
  destruct x; cbn [app view]; rewrite IH; [reflexivity | rewrite app_assoc; reflexivity | reflexivity].
Qed.

Lemma view_one_attrs : forall l, view (map one_attr l) = l.
Proof. induction l as [|a l IH]; [reflexivity|]. cbn [map one_attr view app]. rewrite IH. reflexivity. Qed.

Lemma pick_acc {A} (sel : rarg -> option A) : forall l acc,
  fold_left (fun acc a => match sel a with Some x => Some x | None => acc end) l acc
  = match pick sel l with Some x => Some x | None => acc end.
Proof.
  unfold pick. induction l as [|a l IH]; intros acc; cbn [fold_left]; [reflexivity|].
  rewrite (IH (match sel a with Some x => Some x | None => acc end)),
          (IH (match sel a with Some x => Some x | None => None end)).
  match goal with |- context [fold_left ?f l None] => destruct (fold_left f l None) end; [reflexivity|].
  destruct (sel a); reflexivity.
Qed.

Lemma pick_app {A} (sel : rarg -> option A) : forall l1 l2,
  pick sel (l1 ++ l2) = match pick sel l2 with Some x => Some x | None => pick sel l1 end.
Proof. intros l1 l2. unfold pick at 1. rewrite fold_left_app. apply pick_acc. Qed.

Lemma pick_cons {A} (sel : rarg -> option A) : forall a l,
  pick sel (a :: l) = match pick sel l with Some x => Some x | None => sel a end.
Proof.
  intros a l. unfold pick at 1. cbn [fold_left]. rewrite pick_acc.
  destruct (pick sel l); [reflexivity|]. destruct (sel a); reflexivity.
Qed.

Lemma pick_none {A} (sel : rarg -> option A) : forall l,
  (forall a, In a l -> sel a = None) -> pick sel l = None.
Proof.
  induction l as [|a l IH]; intros H; [reflexivity|]. rewrite pick_cons, IH.
  - apply H. left. reflexivity.
  - intros b Hb. apply H. right. exact Hb.
Qed.

Lemma opt_flag_agrees : forall A, existsb is_opt_arg (rec_args A) = is_optional A.
Proof.
  unfold rec_args, is_optional. induction A as [|a A IH]; [reflexivity|].
  cbn [flat_map existsb]. rewrite existsb_app, IH. f_equal.
  unfold annot_arg. destruct (an_name a =? "key") eqn:K.
  - apply String.eqb_eq in K. rewrite K. reflexivity.
  - destruct (an_name a =? "id") eqn:I.
    + apply String.eqb_eq in I. rewrite I. destruct (an_arg a); reflexivity.
    + destruct (an_name a =? "optional"); reflexivity.
Qed.

Lemma kind_of_arr : forall d e n, not_arr (kind_of_rty d e) ->
  kind_of_rty d (RArr e n) = KArr (kind_of_rty d e) [n].
Proof. intros d e n H. cbn [kind_of_rty]. destruct (kind_of_rty d e); try reflexivity. destruct H. Qed.

Lemma decl_kind_ok : forall eb ed mods t r d,
  tspec_wf t = true -> (tspec_bounded t = true -> eb = true) -> (multi_dim d = true -> ed = true) ->
  gen_ty mods t = Some r ->
  kind_erase eb ed (kind_of_rty (length mods) (wrap_arr d r)) = kind_erase eb ed (decl_kind d (kind_of_tspec t)).
Proof.
  intros eb ed mods t r d Hwf Hb Hd H. destruct d as [n|n d0 ds]; cbn [wrap_arr decl_kind].
  - apply gen_ty_kind; assumption.
  - rewrite kind_of_arr by (eapply gen_ty_not_arr; exact H).
    cbn [kind_erase]. rewrite (gen_ty_kind eb ed mods t r Hwf Hb H). f_equal.
    destruct ds as [|d1 ds]; [destruct ed; reflexivity|].
    rewrite Hd by reflexivity. reflexivity.
Qed.

Lemma opt_kind_ok : forall eb ed mods t r d (o : bool),
  tspec_wf t = true -> (tspec_bounded t = true -> eb = true) -> (multi_dim d = true -> ed = true) ->
  gen_ty mods t = Some r ->
  kind_erase eb ed (kind_of_rty (length mods) (if o then ROpt (wrap_arr d r) else wrap_arr d r))
  = kind_erase eb ed (if o then KOpt (decl_kind d (kind_of_tspec t)) else decl_kind d (kind_of_tspec t)).
Proof.
  intros eb ed mods t r d o Hwf Hb Hd H. destruct o; [cbn [kind_of_rty kind_erase]; f_equal|];
    apply decl_kind_ok; assumption.
Qed.

Lemma imp_false : forall (b : bool), (b = true -> false = true) -> b = false.
Proof. intros [|] H; [symmetry; apply H; reflexivity | reflexivity]. Qed.

Lemma member_shape_ok : forall eb ed ea mods m fs,
  tspec_wf (m_type m) = true ->
  (tspec_bounded (m_type m) = true -> eb = true) ->
  (existsb multi_dim (m_d0 m :: m_ds m) = true -> ed = true) ->
  gen_member mods m = Some fs ->
  map (ms_erase eb ed ea) (map (field_shape (length mods)) fs) = map (ms_erase eb ed ea) (member_shapes m).
Proof.
  intros eb ed ea mods [A t d0 ds] fs. cbn [m_annots m_type m_d0 m_ds]. intros Hwf Hb Hd.
  unfold gen_member, member_shapes. cbn [m_annots m_type m_d0 m_ds].
  destruct (gen_ty mods t) as [r|] eqn:G; [|discriminate]. intros E. inversion E. subst fs. clear E.
  rewrite <- opt_flag_agrees.
  assert (Hds : forall d, In d (d0 :: ds) -> multi_dim d = true -> ed = true).
  { intros d Hin H. apply Hd. apply existsb_exists. exists d. auto. }
  (* every declarator carries the attributes of the member *)
  assert (Hone : forall d, In d (d0 :: ds) ->
    ms_erase eb ed ea (field_shape (length mods)
       (mkField (map one_attr (rec_args A)) true (decl_name d)
                (if existsb is_opt_arg (rec_args A) then ROpt (wrap_arr d r) else wrap_arr d r)))
    = ms_erase eb ed ea
        (mkMS (decl_name d)
              (if existsb is_opt_arg (rec_args A) then KOpt (decl_kind d (kind_of_tspec t)) else decl_kind d (kind_of_tspec t))
              (existsb is_key_arg (rec_args A)) (find_id (rec_args A)) (existsb is_opt_arg (rec_args A)))).
  { intros d Hin.
    unfold field_shape, ms_erase. cbn [f_attrs f_name f_ty ms_name ms_kind ms_key ms_id ms_opt].
    rewrite (opt_kind_ok eb ed mods t r d _ Hwf Hb (Hds d Hin) G).
    rewrite view_one_attrs. reflexivity. }
  cbn [map]. f_equal.
  - apply Hone. left. reflexivity.
  - rewrite !map_map. apply map_ext_in. intros d Hin. apply Hone. right. exact Hin.
Qed.

Lemma gen_member_total : forall mods m, tspec_wf (m_type m) = true -> exists fs, gen_member mods m = Some fs.
Proof.
  intros mods m H. unfold gen_member. destruct (gen_ty_total mods _ H) as [r ->]. eexists. reflexivity.
Qed.

(* concat_opt / all_opt *)
Lemma concat_opt_some {A B} (f : A -> option (list B)) : forall l,
  (forall x, In x l -> exists y, f x = Some y) -> exists ys, concat_opt (map f l) = Some ys.
Proof.
  induction l as [|x l IH]; intros H; cbn [map concat_opt]; [eexists; reflexivity|].
  destruct (H x (or_introl eq_refl)) as [y ->]. destruct IH as [ys ->]; [intros z Hz; apply H; right; exact Hz|].
  eexists. reflexivity.
Qed.

Lemma all_opt_some {A B} (f : A -> option B) : forall l,
  (forall x, In x l -> exists y, f x = Some y) -> exists ys, all_opt (map f l) = Some ys.
Proof.
  induction l as [|x l IH]; intros H; cbn [map all_opt]; [eexists; reflexivity|].
  destruct (H x (or_introl eq_refl)) as [y ->]. destruct IH as [ys ->]; [intros z Hz; apply H; right; exact Hz|].
  eexists. reflexivity.
Qed.

(* a list statement lifted through concat_opt: if every piece satisfies g (f-output) = h input *)
Lemma concat_opt_map {A B C} (f : A -> option (list B)) (g : list B -> list C) (h : A -> list C) :
  (forall x y, g (x ++ y) = g x ++ g y) -> g [] = [] ->
  forall l ys, (forall x y, In x l -> f x = Some y -> g y = h x) ->
  concat_opt (map f l) = Some ys -> g ys = flat_map h l.
Proof.
  intros Happ Hnil. induction l as [|x l IH]; intros ys H; cbn [map concat_opt flat_map].
  - intros E. inversion E. exact Hnil.
  - destruct (f x) as [y|] eqn:F; [|discriminate].
    destruct (concat_opt (map f l)) as [zs|] eqn:CO; [|discriminate].
    intros E. inversion E. subst ys. rewrite Happ. f_equal.
    + apply H; [left; reflexivity | exact F].
    + apply IH; [intros z w Hz; apply H; right; exact Hz | reflexivity].
Qed.

(* ------------------------------------------------------------- list plumbing *)

Lemma map_flat_map {A B C} (f : B -> C) (g : A -> list B) : forall l,
  map f (flat_map g l) = flat_map (fun x => map f (g x)) l.
Proof. induction l as [|x l IH]; cbn [flat_map map]; [reflexivity|]. rewrite map_app, IH. reflexivity. Qed.

Lemma flat_map_ext_in {A B} (f g : A -> list B) : forall l,
  (forall x, In x l -> f x = g x) -> flat_map f l = flat_map g l.
Proof.
  induction l as [|x l IH]; intros H; cbn [flat_map]; [reflexivity|].
  rewrite (H x (or_introl eq_refl)), IH; [reflexivity | intros y Hy; apply H; right; exact Hy].
Qed.

Lemma filter_map_comm {A} (p : A -> bool) (f : A -> A) :
  (forall x, p (f x) = p x) -> forall l, filter p (map f l) = map f (filter p l).
Proof.
  intros H. induction l as [|x l IH]; cbn [map filter]; [reflexivity|].
  rewrite H. destruct (p x); cbn [map]; rewrite IH; reflexivity.
Qed.

Lemma existsb_false_in {A} (p : A -> bool) : forall l x, existsb p l = false -> In x l -> p x = false.
Proof.
  intros l x H Hin. destruct (p x) eqn:E; [|reflexivity].
  assert (existsb p l = true) by (apply existsb_exists; exists x; auto). congruence.
Qed.

Lemma imp_existsb {A} (p : A -> bool) (b : bool) : forall l x,
  (existsb p l = true -> b = true) -> In x l -> p x = true -> b = true.
Proof. intros l x H Hin Hp. apply H. apply existsb_exists. exists x. auto. Qed.

(* ------------------------------------------------------------------- structs *)

Lemma derives_std : forall l, derives_dds (RDerive std_traits :: l) = true.
Proof. reflexivity. Qed.

Definition is_ext_arg (a : rarg) : Prop := match a with AExt _ => True | _ => False end.

Lemma ext_args_are_ext : forall A, Forall is_ext_arg (flat_map ext_arg A).
Proof.
  induction A as [|a A IH]; cbn [flat_map]; [constructor|]. apply Forall_app. split; [|exact IH].
  unfold ext_arg.
  destruct (an_name a =? "final"); [repeat constructor|].
  destruct (an_name a =? "appendable"); [repeat constructor|].
  destruct (an_name a =? "mutable"); repeat constructor.
Qed.

Lemma ms_erase_name : forall eb ed ea m, is_parent (ms_erase eb ed ea m) = is_parent m.
Proof. reflexivity. Qed.

Definition notparent (m : mshape) : bool := negb (is_parent m).

Lemma members_shape_ok : forall eb ed ea mods ms fs,
  forallb (fun m => tspec_wf (m_type m)) ms = true ->
  (existsb (fun m => tspec_bounded (m_type m)) ms = true -> eb = true) ->
  (existsb (fun m => existsb multi_dim (m_d0 m :: m_ds m)) ms = true -> ed = true) ->
  concat_opt (map (gen_member mods) ms) = Some fs ->
  map (ms_erase eb ed ea) (map (field_shape (length mods)) fs)
  = map (ms_erase eb ed ea) (flat_map member_shapes ms).
Proof.
  intros eb ed ea mods ms fs Hwf Hb Hd H.
  rewrite map_flat_map.
  apply (concat_opt_map (gen_member mods)
           (fun fs => map (ms_erase eb ed ea) (map (field_shape (length mods)) fs))
           (fun m => map (ms_erase eb ed ea) (member_shapes m))) with (l := ms).
  - intros x y. rewrite !map_app. reflexivity.
  - reflexivity.
  - intros m fm Hin G. rewrite forallb_forall in Hwf.
    apply member_shape_ok; try assumption.
    + apply Hwf. exact Hin.
    + intros E. eapply (imp_existsb _ eb ms m Hb Hin). exact E.
    + intros E. eapply (imp_existsb _ ed ms m Hd Hin). exact E.
  - exact H.
Qed.

Lemma view_derive : forall t l, view (RDerive t :: l) = view l.
Proof. reflexivity. Qed.

Lemma parent_eqb : ("parent" =? "parent") = true. Proof. reflexivity. Qed.

Lemma ext_only_no {A} (sel : rarg -> option A) : (forall s, sel (AExt s) = None) ->
  forall X, Forall is_ext_arg X -> pick sel X = None.
Proof.
  intros Hs X HE. apply pick_none. intros a Hin. rewrite Forall_forall in HE.
  specialize (HE a Hin). destruct a; try destruct HE. apply Hs.
Qed.

Lemma struct_ev_ok : forall eb ed ea mods A n base fs ms,
  match base with Some (_, p) => head_ok p | None => true end = true ->
  map (ms_erase eb ed ea) (map (field_shape (length mods)) fs)
  = map (ms_erase eb ed ea) (flat_map member_shapes ms) ->
  ev_erase eb ed ea
    (struct_shape (length mods)
       (RDerive std_traits :: map one_attr (flat_map ext_arg A) ++ name_attr mods n
        ++ match base with Some (abs, p) => [RDds [ABase (scoped mods abs p)]] | None => [] end)
       n
       (match base with
        | Some (abs, p) => [mkField [] true "parent" (RPath (scoped mods abs p))]
        | None => []
        end ++ fs))
  = ev_erase eb ed ea
      (EStruct n (mods ++ [n]) (find_ext (flat_map ext_arg A))
         (match base with Some (abs, p) => Some (name_kind abs p) | None => None end)
         (flat_map member_shapes ms)).
Proof.
  intros eb ed ea mods A n base fs ms Hbase HM.
  unfold struct_shape. cbv zeta. rewrite !view_derive, !view_app, view_one_attrs.
  pose proof (ext_args_are_ext A) as HE.
  pose proof (scoped_kind mods) as SK.
  unfold qname_of, find_ext, find_name, find_base.
  pose proof (ext_only_no (fun a => match a with AName s => Some s | _ => None end) (fun _ => eq_refl) _ HE) as XN.
  pose proof (ext_only_no (fun a => match a with ABase p => Some p | _ => None end) (fun _ => eq_refl) _ HE) as XB.
  destruct mods as [|m mods']; destruct base as [[abs p]|];
  cbn [name_attr view app length f_name f_ty f_attrs kind_of_rty] in *;
  rewrite !pick_app; cbn [pick fold_left]; rewrite ?XN, ?XB;
  try rewrite !(SK _ _ Hbase); try rewrite kind_eqb_refl; try rewrite parent_eqb; cbn [andb];
  (destruct (pick (fun a => match a with AExt s => Some s | _ => None end) (flat_map ext_arg A));
   destruct ea;
   [ cbn [ev_erase]; f_equal; fold notparent;
     rewrite <- !(filter_map_comm notparent (ms_erase eb ed true)) by reflexivity;
     cbn [map filter field_shape f_name ms_erase ms_name notparent is_parent negb];
     try rewrite parent_eqb; cbn [negb]; rewrite <- ?HM; reflexivity
   | cbn [ev_erase]; rewrite ?HM; reflexivity
   | cbn [ev_erase]; f_equal; fold notparent;
     rewrite <- !(filter_map_comm notparent (ms_erase eb ed true)) by reflexivity;
     cbn [map filter field_shape f_name ms_erase ms_name notparent is_parent negb];
     try rewrite parent_eqb; cbn [negb]; rewrite <- ?HM; reflexivity
   | cbn [ev_erase]; rewrite ?HM; reflexivity ]).
Qed.

Lemma struct_shape_ok : forall eb ed ea mods A n base ms items,
  match base with Some (_, p) => head_ok p | None => true end = true ->
  forallb (fun m => tspec_wf (m_type m)) ms = true ->
  (existsb (fun m => tspec_bounded (m_type m)) ms = true -> eb = true) ->
  (existsb (fun m => existsb multi_dim (m_d0 m :: m_ds m)) ms = true -> ed = true) ->
  gen_struct mods A n base ms = Some items ->
  map (ev_erase eb ed ea) (shape_of_items (length mods) items)
  = map (ev_erase eb ed ea) (shape_of_def mods (DStruct A n base ms)).
Proof.
  intros eb ed ea mods A n base ms items Hbase Hwf Hb Hd.
  unfold gen_struct. destruct (concat_opt (map (gen_member mods) ms)) as [fs|] eqn:CO; [|discriminate].
  intros E. inversion E. subst items. clear E.
  pose proof (members_shape_ok eb ed ea mods ms fs Hwf Hb Hd CO) as HM.
  unfold shape_of_items. cbn [flat_map shape_of_item shape_of_def app]. rewrite derives_std. cbn [app map].
  cbn [map]. f_equal. apply struct_ev_ok; assumption.
Qed.

(* --------------------------------------------------------------------- enums *)

Lemma enum_variants_plain : forall es,
  forallb (fun va => match v_fields va with None => true | _ => false end) (map gen_enumerator es) = true.
Proof. induction es; cbn [map forallb]; [reflexivity | exact IHes]. Qed.

Lemma view_bit_bounds : forall B, view (map (fun e => RDds [ABitBound e]) B) = map ABitBound B.
Proof. induction B as [|b B IH]; [reflexivity|]. cbn [map view app]. rewrite IH. reflexivity. Qed.

Lemma bit_bounds_no {A} (sel : rarg -> option A) : (forall e, sel (ABitBound e) = None) ->
  forall B, pick sel (map ABitBound B) = None.
Proof.
  intros Hs B. apply pick_none. intros a Hin. apply in_map_iff in Hin. destruct Hin as [e [<- _]]. apply Hs.
Qed.

Lemma enum_shape_ok : forall eb ed ea mods A n es,
  map (ev_erase eb ed ea) (shape_of_items (length mods) (gen_enum mods A n es))
  = map (ev_erase eb ed ea)
      [EEnum n (mods ++ [n]) (find_bit_bound (map ABitBound (flat_map bit_bound_arg A)))
             (map (fun e => (e_name e, flat_map value_arg (e_annots e))) es)].
Proof.
  intros eb ed ea mods A n es. unfold gen_enum, shape_of_items.
  cbn [flat_map shape_of_item app]. rewrite derives_std. cbn [app map]. f_equal.
  unfold enum_shape. cbv zeta. rewrite !view_derive, !view_app, view_bit_bounds. rewrite enum_variants_plain.
  unfold qname_of, find_switch, find_name, find_bit_bound. rewrite !pick_app.
  rewrite (bit_bounds_no (fun a => match a with ASwitch p => Some p | _ => None end) (fun _ => eq_refl)).
  rewrite (bit_bounds_no (fun a => match a with AName s => Some s | _ => None end) (fun _ => eq_refl)).
  destruct mods as [|m mods']; cbn [name_attr view app pick fold_left];
  (destruct (pick (fun a => match a with ABitBound e => Some e | _ => None end) (map ABitBound (flat_map bit_bound_arg A)));
   destruct ea; cbn [ev_erase]; rewrite ?map_map; reflexivity).
Qed.

(* -------------------------------------------------------------------- unions *)

Lemma case_labels_ok : forall ls,
  case_labels (map label_arg ls) = flat_map (fun l => match l with Some e => [e] | None => [] end) ls.
Proof.
  induction ls as [|[e|] ls IH]; cbn [map label_arg case_labels flat_map app]; [reflexivity| |].
  - unfold case_labels in *. cbn [flat_map app]. rewrite IH. reflexivity.
  - unfold case_labels in *. cbn [flat_map app]. exact IH.
Qed.

Lemma case_default_ok : forall ls,
  existsb is_default_arg (map label_arg ls) = existsb (fun l => match l with None => true | _ => false end) ls.
Proof.
  induction ls as [|[e|] ls IH]; cbn [map label_arg existsb is_default_arg]; [reflexivity| |].
  - exact IH.
  - reflexivity.
Qed.

Lemma case_shape_ok : forall eb ed mods c va,
  tspec_wf (uc_type c) = true ->
  (tspec_bounded (uc_type c) = true -> eb = true) ->
  (multi_dim (uc_decl c) = true -> ed = true) ->
  gen_case mods c = Some va ->
  exists cs, variant_case (length mods) va = Some cs /\ cs_erase eb ed cs = cs_erase eb ed (case_shape c).
Proof.
  intros eb ed mods [l0 ls t d] va. cbn [uc_type uc_decl]. intros Hwf Hb Hd. unfold gen_case.
  cbn [uc_l0 uc_ls uc_type uc_decl]. destruct (gen_ty mods t) as [r|] eqn:G; [|discriminate].
  intros E. inversion E. subst va. clear E. unfold variant_case. cbn [v_fields v_attrs view f_name f_ty].
  eexists. split; [reflexivity|]. unfold case_shape, cs_erase.
  cbn [uc_l0 uc_ls uc_type uc_decl cs_labels cs_default cs_name cs_kind].
  cbn [app]. rewrite !app_nil_r.
  change (label_arg l0 :: map label_arg ls) with (map label_arg (l0 :: ls)).
  rewrite case_labels_ok, case_default_ok. f_equal. apply decl_kind_ok; assumption.
Qed.

Lemma cases_shape_ok : forall eb ed mods cs vs,
  forallb (fun c => tspec_wf (uc_type c)) cs = true ->
  (existsb (fun c => tspec_bounded (uc_type c)) cs = true -> eb = true) ->
  (existsb (fun c => multi_dim (uc_decl c)) cs = true -> ed = true) ->
  all_opt (map (gen_case mods) cs) = Some vs ->
  exists cs', all_opt (map (variant_case (length mods)) vs) = Some cs'
              /\ map (cs_erase eb ed) cs' = map (cs_erase eb ed) (map case_shape cs).
Proof.
  intros eb ed mods. induction cs as [|c cs IH]; intros vs Hwf Hb Hd; cbn [map all_opt].
  - intros E. inversion E. exists []. split; reflexivity.
  - destruct (gen_case mods c) as [va|] eqn:G; [|discriminate].
    destruct (all_opt (map (gen_case mods) cs)) as [vs'|] eqn:AO; [|discriminate].
    intros E. inversion E. subst vs. clear E.
    cbn [forallb] in Hwf. apply andb_true_iff in Hwf. destruct Hwf as [Hw1 Hw2].
    destruct (case_shape_ok eb ed mods c va Hw1) as [cs1 [V1 E1]]; try exact G.
    + intros H. apply Hb. cbn [existsb]. rewrite H. reflexivity.
    + intros H. apply Hd. cbn [existsb]. rewrite H. reflexivity.
    + destruct (IH vs' Hw2) as [cs2 [V2 E2]]; try reflexivity.
      * intros H. apply Hb. cbn [existsb]. rewrite H. apply orb_true_r.
      * intros H. apply Hd. cbn [existsb]. rewrite H. apply orb_true_r.
      * exists (cs1 :: cs2). cbn [map all_opt]. rewrite V1, V2. split; [reflexivity|].
        cbn [map]. rewrite E1, E2. reflexivity.
Qed.

Definition disc_wf (t : tspec) : bool :=
  match t with TPrim _ => true | TName _ p => head_ok p | _ => false end.

Lemma switch_kind : forall mods disc,
  disc_wf disc = true -> path_kind (length mods) (switch_path mods disc) = kind_of_tspec disc.
Proof.
  intros mods disc H. destruct disc; try discriminate; cbn [switch_path kind_of_tspec].
  - unfold path_kind. cbn [p_lead p_segs]. apply leaf_prim.
  - apply scoped_kind. exact H.
Qed.

Lemma union_shape_ok : forall eb ed ea mods n disc cs items,
  disc_wf disc = true ->
  forallb (fun c => tspec_wf (uc_type c)) cs = true ->
  (existsb (fun c => tspec_bounded (uc_type c)) cs = true -> eb = true) ->
  (existsb (fun c => multi_dim (uc_decl c)) cs = true -> ed = true) ->
  gen_union mods n disc cs = Some items ->
  map (ev_erase eb ed ea) (shape_of_items (length mods) items)
  = map (ev_erase eb ed ea) [EUnion n (mods ++ [n]) (kind_of_tspec disc) (map case_shape cs)].
Proof.
  intros eb ed ea mods n disc cs items Hdisc Hwf Hb Hd. unfold gen_union.
  destruct (all_opt (map (gen_case mods) cs)) as [vs|] eqn:AO; [|discriminate].
  intros E. inversion E. subst items. clear E.
  destruct (cases_shape_ok eb ed mods cs vs Hwf Hb Hd AO) as [cs' [V EQ]].
  unfold shape_of_items. cbn [flat_map shape_of_item app]. rewrite derives_std. cbn [app map]. f_equal.
  unfold enum_shape. cbv zeta. rewrite view_derive.
  pose proof (switch_kind mods disc Hdisc) as SK.
  destruct mods as [|m mods']; cbn [view app find_switch qname_of find_name pick fold_left length] in *;
    rewrite V, SK; cbn [ev_erase]; rewrite EQ; reflexivity.
Qed.

(* ------------------------------------------------------- typedefs and constants *)

Lemma typedef_shape_ok : forall eb ed ea mods t ds items,
  tspec_wf t = true -> (tspec_bounded t = true -> eb = true) ->
  existsb is_array ds = false ->
  gen_typedef mods t ds = Some items ->
  map (ev_erase eb ed ea) (shape_of_items (length mods) items)
  = map (ev_erase eb ed ea) (map (fun d => EAlias (decl_name d) (decl_kind d (kind_of_tspec t))) ds).
Proof.
  intros eb ed ea mods t ds items Hwf Hb Harr. unfold gen_typedef.
  destruct (gen_ty mods t) as [r|] eqn:G; [|discriminate]. rewrite Harr.
  intros E. inversion E. subst items. clear E.
  pose proof (gen_ty_kind eb ed mods t r Hwf Hb G) as K.
  unfold shape_of_items. induction ds as [|d ds IH]; [reflexivity|].
  cbn [existsb] in Harr. apply orb_false_iff in Harr. destruct Harr as [Hd Hds].
  cbn [map flat_map shape_of_item app ev_erase]. rewrite (IH Hds). f_equal.
  destruct d; [|discriminate]. cbn [decl_name decl_kind]. rewrite K. reflexivity.
Qed.

Lemma const_shape_ok : forall eb ed ea mods t n e r,
  tspec_wf t = true -> (tspec_bounded t = true -> eb = true) ->
  gen_const_ty mods t = Some r ->
  map (ev_erase eb ed ea) (shape_of_items (length mods) [RConst n r e])
  = map (ev_erase eb ed ea) [EConst n (kind_of_tspec t) e].
Proof.
  intros eb ed ea mods t n e r Hwf Hb G. unfold shape_of_items. cbn [flat_map shape_of_item app map ev_erase].
  f_equal. f_equal. destruct t; cbn [gen_const_ty] in G;
    try (apply (gen_ty_kind eb ed mods _ r Hwf Hb G)).
  inversion G. subst r. cbn [kind_of_rty kind_of_tspec kind_erase].
  destruct eb; [reflexivity|]. destruct b; [|reflexivity].
  exfalso. assert (false = true) by (apply Hb; reflexivity). discriminate.
Qed.

(* ------------------------------------------------------ induction over definitions *)

Section DefInd.
  Variable P : def -> Prop.
  Hypothesis Hmod : forall n body, Forall P body -> P (DModule n body).
  Hypothesis Hstruct : forall A n b ms, P (DStruct A n b ms).
  Hypothesis Henum : forall A n e0 es, P (DEnum A n e0 es).
  Hypothesis Hunion : forall n disc c0 cs, P (DUnion n disc c0 cs).
  Hypothesis Htypedef : forall t d0 ds, P (DTypedef t d0 ds).
  Hypothesis Hconst : forall t n e, P (DConst t n e).
  Hypothesis Hfwd : forall u n, P (DFwd u n).
  Hypothesis Hunsup : forall k, P (DUnsup k).
  Fixpoint def_ind2 (d : def) : P d :=
    match d with
    | DModule n body =>
        Hmod n body ((fix go (l : list def) : Forall P l :=
                        match l with
                        | [] => Forall_nil P
                        | x :: r => Forall_cons x (def_ind2 x) (go r)
                        end) body)
    | DStruct A n b ms => Hstruct A n b ms
    | DEnum A n e0 es => Henum A n e0 es
    | DUnion n disc c0 cs => Hunion n disc c0 cs
    | DTypedef t d0 ds => Htypedef t d0 ds
    | DConst t n e => Hconst t n e
    | DFwd u n => Hfwd u n
    | DUnsup k => Hunsup k
    end.
End DefInd.

(* well-formedness used by the proofs (implied by [supported], see below) *)
Fixpoint def_wf (d : def) : bool :=
  match d with
  | DModule _ body => forallb def_wf body
  | DStruct _ _ base ms =>
      match base with Some (_, p) => head_ok p | None => true end
      && forallb (fun m => tspec_wf (m_type m)) ms
  | DEnum _ _ _ _ => true
  | DUnion _ disc c0 cs => disc_wf disc && forallb (fun c => tspec_wf (uc_type c)) (c0 :: cs)
  | DTypedef t d0 ds => tspec_wf t && negb (existsb is_array (d0 :: ds))
  | DConst t _ _ => tspec_wf t
  | DFwd _ _ => true
  | DUnsup _ => false
  end.

Lemma shape_of_items_app : forall d x y, shape_of_items d (x ++ y) = shape_of_items d x ++ shape_of_items d y.
Proof. intros. unfold shape_of_items. apply flat_map_app. Qed.

Lemma gen_def_shape : forall eb ed ea d mods items,
  def_wf d = true ->
  (def_bounded d = true -> eb = true) -> (def_multi_dim d = true -> ed = true) ->
  gen_def mods d = Some items ->
  map (ev_erase eb ed ea) (shape_of_items (length mods) items)
  = map (ev_erase eb ed ea) (shape_of_def mods d).
Proof.
  intros eb ed ea d. induction d using def_ind2; intros mods items Hwf Hb Hd G.
  - (* module *)
    cbn [gen_def] in G.
    destruct (concat_opt (map (gen_def (mods ++ [n])) body)) as [its|] eqn:CO; [|discriminate].
    inversion G. subst items. clear G.
    cbn [def_wf def_bounded def_multi_dim] in *.
    unfold shape_of_items. cbn [flat_map shape_of_item shape_of_def]. rewrite app_nil_r.
    cbn [map]. rewrite !map_app. cbn [map ev_erase]. f_equal. f_equal.
    change (flat_map (shape_of_item (S (length mods))) its) with (shape_of_items (S (length mods)) its).
    rewrite (map_flat_map (ev_erase eb ed ea) (shape_of_def (mods ++ [n]))).
    assert (L : S (length mods) = length (mods ++ [n])) by (rewrite app_length; cbn [length]; lia).
    rewrite L.
    apply (concat_opt_map (gen_def (mods ++ [n]))
             (fun l => map (ev_erase eb ed ea) (shape_of_items (length (mods ++ [n])) l))
             (fun d => map (ev_erase eb ed ea) (shape_of_def (mods ++ [n]) d))) with (l := body).
    + intros x y. rewrite shape_of_items_app, map_app. reflexivity.
    + reflexivity.
    + intros d its' Hin G'. rewrite Forall_forall in H. rewrite forallb_forall in Hwf.
      apply (H d Hin); try exact G'.
      * apply Hwf. exact Hin.
      * intros E. exact (imp_existsb _ eb body d Hb Hin E).
      * intros E. exact (imp_existsb _ ed body d Hd Hin E).
    + exact CO.
  - (* struct *)
    cbn [gen_def def_wf def_bounded def_multi_dim] in *.
    apply andb_true_iff in Hwf. destruct Hwf as [Hw1 Hw2].
    apply struct_shape_ok; assumption.
  - (* enum *)
    cbn [gen_def] in *. inversion G. subst items.
    apply enum_shape_ok.
  - (* union *)
    cbn [gen_def def_wf def_bounded def_multi_dim] in *.
    apply andb_true_iff in Hwf. destruct Hwf as [Hw1 Hw2].
    apply union_shape_ok; assumption.
  - (* typedef *)
    cbn [gen_def def_wf def_bounded] in *.
    apply andb_true_iff in Hwf. destruct Hwf as [Hw1 Hw2]. apply negb_true_iff in Hw2.
    apply typedef_shape_ok; assumption.
  - (* const *)
    cbn [gen_def def_wf def_bounded] in *.
    destruct (gen_const_ty mods t) as [r|] eqn:GC; [|discriminate]. inversion G. subst items.
    apply const_shape_ok; assumption.
  - (* forward declaration *)
    cbn [gen_def] in G. inversion G. reflexivity.
  - discriminate.
Qed.

Lemma gen_defs_shape : forall eb ed ea mods defs items,
  forallb def_wf defs = true ->
  (existsb def_bounded defs = true -> eb = true) -> (existsb def_multi_dim defs = true -> ed = true) ->
  gen_defs mods defs = Some items ->
  map (ev_erase eb ed ea) (shape_of_items (length mods) items)
  = map (ev_erase eb ed ea) (shape_of_defs mods defs).
Proof.
  intros eb ed ea mods defs items Hwf Hb Hd G. unfold gen_defs in G. unfold shape_of_defs.
  rewrite map_flat_map.
  apply (concat_opt_map (gen_def mods)
           (fun l => map (ev_erase eb ed ea) (shape_of_items (length mods) l))
           (fun d => map (ev_erase eb ed ea) (shape_of_def mods d))) with (l := defs).
  - intros x y. rewrite shape_of_items_app, map_app. reflexivity.
  - reflexivity.
  - intros d its Hin G'. rewrite forallb_forall in Hwf. apply gen_def_shape; try exact G'.
    + apply Hwf. exact Hin.
    + intros E. exact (imp_existsb _ eb defs d Hb Hin E).
    + intros E. exact (imp_existsb _ ed defs d Hd Hin E).
  - exact G.
Qed.

(* ------------------------------------------------------------------ totality *)

Lemma gen_def_total : forall d mods, def_wf d = true -> exists items, gen_def mods d = Some items.
Proof.
  induction d using def_ind2; intros mods Hwf; cbn [gen_def def_wf] in *.
  - destruct (concat_opt_some (gen_def (mods ++ [n])) body) as [its E].
    + intros d Hin. rewrite Forall_forall in H. rewrite forallb_forall in Hwf. apply H; auto.
    + rewrite E. eexists. reflexivity.
  - apply andb_true_iff in Hwf. destruct Hwf as [_ Hw]. unfold gen_struct.
    destruct (concat_opt_some (gen_member mods) ms) as [fs E].
    + intros m Hin. rewrite forallb_forall in Hw. apply gen_member_total. apply Hw. exact Hin.
    + rewrite E. eexists. reflexivity.
  - eexists. reflexivity.
  - apply andb_true_iff in Hwf. destruct Hwf as [_ Hw]. unfold gen_union.
    destruct (all_opt_some (gen_case mods) (c0 :: cs)) as [vs E].
    + intros c Hin. rewrite forallb_forall in Hw. unfold gen_case.
      destruct (gen_ty_total mods _ (Hw c Hin)) as [r ->]. eexists. reflexivity.
    + rewrite E. eexists. reflexivity.
  - apply andb_true_iff in Hwf. destruct Hwf as [Hw1 Hw2]. apply negb_true_iff in Hw2. unfold gen_typedef.
    destruct (gen_ty_total mods _ Hw1) as [r ->]. rewrite Hw2. eexists. reflexivity.
  - assert (exists r, gen_const_ty mods t = Some r) as [r ->].
    { destruct t; cbn [gen_const_ty]; try (apply gen_ty_total; exact Hwf). eexists. reflexivity. }
    eexists. reflexivity.
  - eexists. reflexivity.
  - discriminate.
Qed.

Lemma gen_defs_total : forall mods defs, forallb def_wf defs = true -> exists items, gen_defs mods defs = Some items.
Proof.
  intros mods defs H. unfold gen_defs. apply concat_opt_some.
  intros d Hin. rewrite forallb_forall in H. apply gen_def_total. apply H. exact Hin.
Qed.

(* --------------------------------------- [supported] implies the well-formedness used above *)

Lemma rust_ok_not_super : forall s, rust_ident_ok s = true -> is_super s = false.
Proof.
  intros s H. unfold is_super. destruct (s =? "super") eqn:E; [|reflexivity].
  apply String.eqb_eq in E. subst s. discriminate.
Qed.

Lemma tspec_ok_wf : forall t,
  tspec_paths_ok t = true -> tspec_supported t = true -> forallb rust_ident_ok (tspec_idents t) = true ->
  tspec_wf t = true.
Proof.
  induction t; cbn [tspec_paths_ok tspec_supported tspec_idents tspec_wf]; intros Hp Hs Hi; try reflexivity; try discriminate.
  - destruct path as [|h p]; [discriminate|]. cbn [head_ok forallb] in *.
    apply andb_true_iff in Hi. destruct Hi as [Hh _]. rewrite (rust_ok_not_super h Hh). reflexivity.
  - apply IHt; assumption.
Qed.

Definition def_ok (d : def) : bool :=
  def_grammar_ok d && def_supported d && forallb rust_ident_ok (def_rust_idents d).

Lemma forallb_flat_map {A B} (p : B -> bool) (f : A -> list B) : forall l,
  forallb p (flat_map f l) = forallb (fun x => forallb p (f x)) l.
Proof. induction l as [|x l IH]; cbn [flat_map forallb]; [reflexivity|]. rewrite forallb_app, IH. reflexivity. Qed.

Lemma def_ok_wf : forall d, def_ok d = true -> def_wf d = true.
Proof.
  unfold def_ok. induction d using def_ind2; intros HK; apply andb_true_iff in HK; destruct HK as [HK Hi];
    apply andb_true_iff in HK; destruct HK as [Hg Hs];
    cbn [def_grammar_ok def_supported def_rust_idents def_wf] in *.
  - apply andb_true_iff in Hg. destruct Hg as [_ Hg]. cbn [forallb] in Hi. apply andb_true_iff in Hi.
    destruct Hi as [_ Hi]. rewrite forallb_flat_map in Hi.
    rewrite forallb_forall in *. rewrite Forall_forall in H. intros d Hin. apply H; [exact Hin|].
    rewrite (Hg d Hin), (Hs d Hin), (Hi d Hin). reflexivity.
  - apply andb_true_iff in Hg. destruct Hg as [Hg1 Hg2]. cbn [forallb] in Hi. apply andb_true_iff in Hi.
    destruct Hi as [_ Hi]. rewrite forallb_app in Hi. apply andb_true_iff in Hi. destruct Hi as [Hi1 Hi2].
    apply andb_true_iff. split.
    + destruct b as [[abs p]|]; [|reflexivity]. destruct p as [|h p]; [discriminate|].
      cbn [head_ok forallb] in *. apply andb_true_iff in Hi1. destruct Hi1 as [Hh _].
      rewrite (rust_ok_not_super h Hh). reflexivity.
    + rewrite forallb_flat_map in Hi2. rewrite forallb_forall in *. intros m Hin.
      apply tspec_ok_wf; [apply Hg2; exact Hin | apply Hs; exact Hin|].
      specialize (Hi2 m Hin). unfold member_rust_idents in Hi2. rewrite forallb_app in Hi2.
      apply andb_true_iff in Hi2. destruct Hi2 as [Hi2 _]. exact Hi2.
  - reflexivity.
  - apply andb_true_iff in Hg. destruct Hg as [Hg1 Hg2]. cbn [forallb] in Hi. apply andb_true_iff in Hi.
    destruct Hi as [_ Hi]. rewrite forallb_app in Hi. apply andb_true_iff in Hi. destruct Hi as [Hi1 Hi2].
    apply andb_true_iff. split.
    + destruct disc; try discriminate; [reflexivity|]. cbn [disc_wf tspec_idents] in *.
      destruct path as [|h p]; [discriminate|]. cbn [head_ok forallb] in *.
      apply andb_true_iff in Hi1. destruct Hi1 as [Hh _]. rewrite (rust_ok_not_super h Hh). reflexivity.
    + rewrite forallb_flat_map in Hi2. rewrite forallb_forall in *. intros c Hin.
      apply tspec_ok_wf; [apply Hg2; exact Hin | apply Hs; exact Hin|].
      specialize (Hi2 c Hin). unfold case_idents in Hi2. rewrite forallb_app in Hi2.
      apply andb_true_iff in Hi2. destruct Hi2 as [Hi2 _]. exact Hi2.
  - apply andb_true_iff in Hs. destruct Hs as [Hs1 Hs2]. rewrite forallb_app in Hi.
    apply andb_true_iff in Hi. destruct Hi as [Hi1 _]. rewrite Hs2, andb_true_r.
    apply tspec_ok_wf; assumption.
  - rewrite forallb_app in Hi. apply andb_true_iff in Hi. destruct Hi as [Hi1 _].
    apply tspec_ok_wf; try assumption. destruct t; try reflexivity; try discriminate; exact Hg.
  - reflexivity.
  - discriminate.
Qed.

Lemma supported_wf : forall defs, supported defs = true -> forallb def_wf defs = true.
Proof.
  intros defs H. unfold supported in H. apply andb_true_iff in H. destruct H as [H Hi].
  apply andb_true_iff in H. destruct H as [Hp Hs]. unfold parse_ok in Hp.
  apply andb_true_iff in Hp. destruct Hp as [Hp _]. apply andb_true_iff in Hp. destruct Hp as [_ Hg].
  rewrite forallb_flat_map in Hi. rewrite forallb_forall in *. intros d Hin. apply def_ok_wf.
  unfold def_ok. rewrite (Hg d Hin), (Hs d Hin), (Hi d Hin). reflexivity.
Qed.

Lemma supported_parse_ok : forall defs, supported defs = true -> parse_ok defs = true.
Proof. intros defs H. unfold supported in H. apply andb_true_iff in H. destruct H as [H _]. apply andb_true_iff in H. tauto. Qed.

(* ================================================================ main theorems *)

(* the compiler answers every specification of the supported subset with items *)
Theorem compile_total_on_supported : forall defs,
  supported defs = true -> exists items, compile_defs defs = Ok items.
Proof.
  intros defs H. unfold compile_defs. rewrite (supported_parse_ok defs H).
  destruct (gen_defs_total [] defs (supported_wf defs H)) as [items ->]. eexists. reflexivity.
Qed.

(* structure is preserved up to what the classes present in the declaration lose *)
Theorem structure_preserved_upto_classes : forall eb ed ea defs items,
  supported defs = true ->
  (known_bounds defs = true -> eb = true) ->
  (known_multi_dim defs = true -> ed = true) ->
  compile_defs defs = Ok items ->
  map (ev_erase eb ed ea) (shape_of_items 0 items) = map (ev_erase eb ed ea) (shape_of_defs [] defs).
Proof.
  intros eb ed ea defs items H Hb Hd C. unfold compile_defs in C.
  rewrite (supported_parse_ok defs H) in C.
  destruct (gen_defs [] defs) as [its|] eqn:G; [|discriminate]. inversion C. subst its.
  apply (gen_defs_shape eb ed ea [] defs items (supported_wf defs H) Hb Hd G).
Qed.

(* THE property: outside the four recorded classes the declared structure is preserved exactly *)
Theorem idl_structure_preserved : forall defs,
  supported defs = true ->
  known_bounds defs = false ->
  known_multi_dim defs = false ->
  exists items, compile_defs defs = Ok items /\ shape_of_items 0 items = shape_of_defs [] defs.
Proof.
  intros defs H K1 K3. destruct (compile_total_on_supported defs H) as [items C].
  exists items. split; [exact C|].
  pose proof (structure_preserved_upto_classes false false false defs items H) as P.
  rewrite !evs_erase_none in P. apply P; try exact C; intros E; congruence.
Qed.

(* everything except bounds is preserved as soon as classes 2-4 are absent *)
Theorem structure_preserved_except_bounds : forall defs items,
  supported defs = true ->
  known_multi_dim defs = false ->
  compile_defs defs = Ok items ->
  map (ev_erase true false false) (shape_of_items 0 items)
  = map (ev_erase true false false) (shape_of_defs [] defs).
Proof.
  intros defs items H K3 C.
  apply (structure_preserved_upto_classes true false false defs items H); try exact C; intros E; congruence.
Qed.

(* names, nesting, member order and kinds (without bounds / later dimensions), enumerators
   and values, discriminator and case labels: preserved for EVERY supported specification *)
Theorem skeleton_always_preserved : forall defs items,
  supported defs = true -> compile_defs defs = Ok items ->
  map (ev_erase true true true) (shape_of_items 0 items)
  = map (ev_erase true true true) (shape_of_defs [] defs).
Proof.
  intros defs items H C.
  apply (structure_preserved_upto_classes true true true defs items H); try exact C; reflexivity.
Qed.

(* ------------------------------------------------- the clauses of the property, one by one *)

Lemma proj_erase {B} (f : ev -> list B) eb ed ea :
  (forall e, f (ev_erase eb ed ea e) = f e) ->
  forall l, flat_map f (map (ev_erase eb ed ea) l) = flat_map f l.
Proof.
  intros H. induction l as [|x l IH]; cbn [map flat_map]; [reflexivity|]. rewrite H, IH. reflexivity.
Qed.

Lemma proj_transfer {B} (f : ev -> list B) eb ed ea a b :
  (forall e, f (ev_erase eb ed ea e) = f e) ->
  map (ev_erase eb ed ea) a = map (ev_erase eb ed ea) b -> flat_map f a = flat_map f b.
Proof.
  intros H E. rewrite <- (proj_erase f eb ed ea H a), <- (proj_erase f eb ed ea H b), E. reflexivity.
Qed.

Lemma ev_name_erase : forall eb ed ea e, ev_name (ev_erase eb ed ea e) = ev_name e.
Proof. intros eb ed ea e. destruct e; reflexivity. Qed.

Lemma ms_proj_erase {B} (f : mshape -> B) (p : mshape -> bool) eb ed :
  (forall m, f (ms_erase eb ed false m) = f m) -> (forall m, p (ms_erase eb ed false m) = p m) ->
  forall ms, map f (filter p (map (ms_erase eb ed false) ms)) = map f (filter p ms).
Proof.
  intros Hf Hp. induction ms as [|m ms IH]; cbn [map filter]; [reflexivity|].
  rewrite Hp. destruct (p m); cbn [map]; rewrite ?Hf, IH; reflexivity.
Qed.

Lemma map_ms_erase {B} (f : mshape -> B) eb ed :
  (forall m, f (ms_erase eb ed false m) = f m) ->
  forall ms, map f (map (ms_erase eb ed false) ms) = map f ms.
Proof. intros Hf ms. rewrite map_map. apply map_ext. exact Hf. Qed.

Section Clauses.
  Variables (defs : list def) (items : list ritem).
  Hypothesis Hsup : supported defs = true.
  Hypothesis Hc : compile_defs defs = Ok items.

  Let Hall := skeleton_always_preserved defs items Hsup Hc.

  (* no hypothesis on classes: *)
  Lemma names_preserved : names_of (shape_of_items 0 items) = names_of (shape_of_defs [] defs).
  Proof.
    unfold names_of.
    assert (N : forall l, map ev_name (map (ev_erase true true true) l) = map ev_name l)
      by (intros l; rewrite map_map; apply map_ext; intros; apply ev_name_erase).
    rewrite <- (N (shape_of_items 0 items)), <- (N (shape_of_defs [] defs)), Hall. reflexivity.
  Qed.

  Lemma enumerators_preserved :
    enumerators_of (shape_of_items 0 items) = enumerators_of (shape_of_defs [] defs).
  Proof. apply (proj_transfer _ true true true); [intros e; destruct e; reflexivity | exact Hall]. Qed.

  Lemma union_labels_preserved :
    union_labels_of (shape_of_items 0 items) = union_labels_of (shape_of_defs [] defs).
  Proof.
    apply (proj_transfer _ true true true); [|exact Hall]. intros e; destruct e; try reflexivity.
    cbn [ev_erase]. rewrite map_map. reflexivity.
  Qed.

  (* what lives in attributes (both classes that touched it are fixed); bounds and dimensions do not matter: *)

  Let Hattr : map (ev_erase (known_bounds defs) (known_multi_dim defs) false) (shape_of_items 0 items)
              = map (ev_erase (known_bounds defs) (known_multi_dim defs) false) (shape_of_defs [] defs).
  Proof. apply structure_preserved_upto_classes; auto; intros E; congruence. Qed.

  Lemma members_preserved : members_of (shape_of_items 0 items) = members_of (shape_of_defs [] defs).
  Proof.
    apply (proj_transfer _ (known_bounds defs) (known_multi_dim defs) false); [|exact Hattr]. intros e; destruct e; try reflexivity.
    cbn [ev_erase struct_proj]. rewrite map_ms_erase; reflexivity.
  Qed.

  Lemma keys_preserved : keys_of (shape_of_items 0 items) = keys_of (shape_of_defs [] defs).
  Proof.
    apply (proj_transfer _ (known_bounds defs) (known_multi_dim defs) false); [|exact Hattr]. intros e; destruct e; try reflexivity.
    cbn [ev_erase struct_proj]. rewrite ms_proj_erase; reflexivity.
  Qed.

  Lemma ids_preserved : ids_of (shape_of_items 0 items) = ids_of (shape_of_defs [] defs).
  Proof.
    apply (proj_transfer _ (known_bounds defs) (known_multi_dim defs) false); [|exact Hattr]. intros e; destruct e; try reflexivity.
    cbn [ev_erase struct_proj]. rewrite map_ms_erase; reflexivity.
  Qed.

  Lemma optionals_preserved : optionals_of (shape_of_items 0 items) = optionals_of (shape_of_defs [] defs).
  Proof.
    apply (proj_transfer _ (known_bounds defs) (known_multi_dim defs) false); [|exact Hattr]. intros e; destruct e; try reflexivity.
    cbn [ev_erase struct_proj]. rewrite ms_proj_erase; reflexivity.
  Qed.

  (* extensibility, base type, qualified name *)
  Lemma struct_headers_preserved :
    struct_headers_of (shape_of_items 0 items) = struct_headers_of (shape_of_defs [] defs).
  Proof. apply (proj_transfer _ (known_bounds defs) (known_multi_dim defs) false); [intros e; destruct e; reflexivity | exact Hattr]. Qed.

  Lemma enums_preserved : enums_of (shape_of_items 0 items) = enums_of (shape_of_defs [] defs).
  Proof. apply (proj_transfer _ (known_bounds defs) (known_multi_dim defs) false); [intros e; destruct e; reflexivity | exact Hattr]. Qed.
End Clauses.

(* kinds: bounds (class 1) and array dimensions (class 3) are what can get lost *)
Lemma unions_preserved : forall defs items,
  supported defs = true -> compile_defs defs = Ok items ->
  known_bounds defs = false -> known_multi_dim defs = false ->
  unions_of (shape_of_items 0 items) = unions_of (shape_of_defs [] defs).
Proof.
  intros defs items Hs Hc K1 K3.
  apply (proj_transfer _ false false true).
  - intros e; destruct e; try reflexivity. cbn [ev_erase]. rewrite (map_id_ext _ cs_erase_none). reflexivity.
  - apply structure_preserved_upto_classes; auto; intros E; congruence.
Qed.

Lemma aliases_consts_preserved : forall defs items,
  supported defs = true -> compile_defs defs = Ok items ->
  known_bounds defs = false -> known_multi_dim defs = false ->
  aliases_of (shape_of_items 0 items) = aliases_of (shape_of_defs [] defs)
  /\ consts_of (shape_of_items 0 items) = consts_of (shape_of_defs [] defs).
Proof.
  intros defs items Hs Hc K1 K3.
  assert (H : map (ev_erase false false true) (shape_of_items 0 items)
              = map (ev_erase false false true) (shape_of_defs [] defs))
    by (apply structure_preserved_upto_classes; auto; intros E; congruence).
  split; (apply (proj_transfer _ false false true); [|exact H]);
    intros e; destruct e; try reflexivity; cbn [ev_erase]; rewrite kind_erase_none; reflexivity.
Qed.

(* ----------------------------------------------------- the four classes are real *)

(* struct User { wstring<8> name; sequence<unsigned long, 2> deps; }; *)
Definition w_bounds : list def :=
  [DStruct [] "User" None
     [mkMember [] (TWStr (Some "8")) (DSimple "name") [];
      mkMember [] (TSeq (TPrim PU32) (Some "2")) (DSimple "deps") []]].
(* struct S { @key long a, b; }; *)
Definition w_multi_annot : list def :=
  [DStruct [] "S" None [mkMember [mkAnnot "key" None] (TPrim PI32) (DSimple "a") [DSimple "b"]]].
(* struct S { long x[2][3]; }; *)
Definition w_multi_dim : list def :=
  [DStruct [] "S" None [mkMember [] (TPrim PI32) (DArray "x" "2" ["3"]) []]].
(* module M { @mutable struct A { @id(7) @key long y; }; }; *)
Definition w_split : list def :=
  [DModule "M" [DStruct [mkAnnot "mutable" None] "A" None
                  [mkMember [mkAnnot "id" (Some "7"); mkAnnot "key" None] (TPrim PI32) (DSimple "y") []]]].

Definition only_class (k : N) (defs : list def) : Prop :=
  supported defs = true /\
  known_bounds defs = N.eqb k 1 /\
  known_multi_dim defs = N.eqb k 3.

Lemma bounds_refuted : exists defs items,
  only_class 1 defs /\ compile_defs defs = Ok items
  /\ member_kinds_of (shape_of_items 0 items) <> member_kinds_of (shape_of_defs [] defs).
Proof.
  exists w_bounds. eexists. split; [|split].
  - repeat split; vm_compute; reflexivity.
  - vm_compute. reflexivity.
  - vm_compute. discriminate.
Qed.

(* the former class 2 (fixed in /repo by 7270bfe): `@key long a, b;` makes a AND b keys *)
Lemma multi_declarator_annotations_preserved : exists items,
  only_class 0 w_multi_annot /\ compile_defs w_multi_annot = Ok items
  /\ keys_of (shape_of_items 0 items) = [("S", ["a"; "b"])]
  /\ shape_of_items 0 items = shape_of_defs [] w_multi_annot.
Proof.
  eexists. split; [|split; [|split]].
  - repeat split; vm_compute; reflexivity.
  - vm_compute. reflexivity.
  - vm_compute. reflexivity.
  - vm_compute. reflexivity.
Qed.

Lemma multi_dim_refuted : exists defs items,
  only_class 3 defs /\ compile_defs defs = Ok items
  /\ member_kinds_of (shape_of_items 0 items) <> member_kinds_of (shape_of_defs [] defs).
Proof.
  exists w_multi_dim. eexists. split; [|split].
  - repeat split; vm_compute; reflexivity.
  - vm_compute. reflexivity.
  - vm_compute. discriminate.
Qed.

(* the former class 4 (fixed in /repo by 99bf327: the derive reads every #[dust_dds] attribute):
   `module M { @mutable struct A { @id(7) @key long y; }; };` keeps key, id, extensibility and
   qualified name *)
Lemma split_attributes_preserved : exists items,
  only_class 0 w_split /\ compile_defs w_split = Ok items
  /\ keys_of (shape_of_items 0 items) = [("A", ["y"])]
  /\ ids_of (shape_of_items 0 items) = [("A", [("y", Some "7")])]
  /\ struct_headers_of (shape_of_items 0 items) = [("A", (["M"; "A"], Some "mutable", None))]
  /\ shape_of_items 0 items = shape_of_defs [] w_split.
Proof.
  eexists. split; [|split; [|split; [|split; [|split]]]].
  - repeat split; vm_compute; reflexivity.
  - vm_compute. reflexivity.
  - vm_compute. reflexivity.
  - vm_compute. reflexivity.
  - vm_compute. reflexivity.
  - vm_compute. reflexivity.
Qed.

(* ------------------------------------------------------------- Err and Panic *)

Lemma reserved_word_rejected : forall defs s,
  In s (flat_map def_idents defs) -> ident_ok s = false -> compile_defs defs = Err 0.
Proof.
  intros defs s Hin Hk. unfold compile_defs.
  replace (parse_ok defs) with false; [reflexivity|]. symmetry. unfold parse_ok.
  apply andb_false_iff. right. apply not_true_is_false. intros H.
  rewrite forallb_forall in H. rewrite (H s Hin) in Hk. discriminate.
Qed.

Lemma concat_opt_none {A B} (f : A -> option (list B)) : forall l x,
  In x l -> f x = None -> concat_opt (map f l) = None.
Proof.
  induction l as [|y l IH]; intros x Hin Hf; [destruct Hin|]. cbn [map concat_opt].
  destruct Hin as [->|Hin].
  - rewrite Hf. reflexivity.
  - destruct (f y); [|reflexivity]. rewrite (IH x Hin Hf). reflexivity.
Qed.

Lemma all_opt_none {A B} (f : A -> option B) : forall l x,
  In x l -> f x = None -> all_opt (map f l) = None.
Proof.
  induction l as [|y l IH]; intros x Hin Hf; [destruct Hin|]. cbn [map all_opt].
  destruct Hin as [->|Hin].
  - rewrite Hf. reflexivity.
  - destruct (f y); [|reflexivity]. rewrite (IH x Hin Hf). reflexivity.
Qed.

Lemma forallb_false_ex {A} (p : A -> bool) : forall l, forallb p l = false -> exists x, In x l /\ p x = false.
Proof.
  induction l as [|y l IH]; cbn [forallb]; [discriminate|]. intros H. apply andb_false_iff in H.
  destruct H as [H|H]; [exists y; split; [left; reflexivity | exact H]|].
  destruct (IH H) as [x [Hin Hx]]. exists x. split; [right; exact Hin | exact Hx].
Qed.

(* a construct outside the generator's rules makes it panic, wherever it is nested *)
Lemma gen_def_unsupported : forall d mods, def_supported d = false -> gen_def mods d = None.
Proof.
  induction d using def_ind2; intros mods Hs; cbn [def_supported gen_def] in *; try discriminate.
  - destruct (forallb_false_ex _ _ Hs) as [d [Hin Hd]]. rewrite Forall_forall in H.
    rewrite (concat_opt_none (gen_def (mods ++ [n])) body d Hin (H d Hin _ Hd)). reflexivity.
  - destruct (forallb_false_ex _ _ Hs) as [m [Hin Hm]]. unfold gen_struct.
    rewrite (concat_opt_none (gen_member mods) ms m Hin); [reflexivity|].
    unfold gen_member. rewrite (gen_ty_panics mods _ Hm). reflexivity.
  - destruct (forallb_false_ex _ _ Hs) as [c [Hin Hcs]]. unfold gen_union.
    rewrite (all_opt_none (gen_case mods) (c0 :: cs) c Hin); [reflexivity|].
    unfold gen_case. rewrite (gen_ty_panics mods _ Hcs). reflexivity.
  - unfold gen_typedef. apply andb_false_iff in Hs. destruct Hs as [Hs|Hs].
    + rewrite (gen_ty_panics mods _ Hs). reflexivity.
    + apply negb_false_iff in Hs. rewrite Hs. destruct (gen_ty mods t); reflexivity.
  - assert (G : gen_const_ty mods t = None).
    { destruct t; try discriminate; unfold gen_const_ty; apply gen_ty_panics; exact Hs. }
    rewrite G. reflexivity.
  - reflexivity.
Qed.

Lemma unsupported_panics : forall defs,
  parse_ok defs = true -> forallb def_supported defs = false -> compile_defs defs = Panic 0.
Proof.
  intros defs Hp Hs. unfold compile_defs. rewrite Hp. unfold gen_defs.
  destruct (forallb_false_ex _ _ Hs) as [d [Hin Hd]].
  rewrite (concat_opt_none (gen_def []) defs d Hin (gen_def_unsupported d [] Hd)). reflexivity.
Qed.

(* ---------------------------------------------------------------- preprocessor *)

Lemma pp_items_defs : forall env defs, pp_items env (map PDef defs) = (env, defs).
Proof. intros env. induction defs as [|d defs IH]; cbn [map pp_items pp_item]; [reflexivity|]. rewrite IH. reflexivity. Qed.

Lemma preprocess_no_directive : forall defs, preprocess (map PDef defs) = defs.
Proof. intros. unfold preprocess. rewrite pp_items_defs. reflexivity. Qed.

Lemma pp_if_body : forall env body,
  (fix go (env : list string) (l : list ppitem) : list string * list def :=
     match l with
     | [] => (env, [])
     | x :: r => let (e1, d1) := pp_item env x in let (e2, d2) := go e1 r in (e2, d1 ++ d2)
     end) env body = pp_items env body.
Proof.
  intros env body. revert env. induction body as [|x r IH]; intros env; [reflexivity|].
  simpl. destruct (pp_item env x) as [e1 d1]. rewrite IH. reflexivity.
Qed.

(* #ifdef / #ifndef: the body counts exactly when the flag is (not) defined before it *)
Lemma pp_if : forall env neg n body,
  pp_item env (PIf neg n body) = if xorb neg (mem_str n env) then pp_items env body else (env, []).
Proof. intros. cbn [pp_item]. rewrite pp_if_body. reflexivity. Qed.

Lemma ifdef_gates : forall n defs rest,
  preprocess (PIf false n (map PDef defs) :: rest) = preprocess rest
  /\ preprocess (PIf true n (map PDef defs) :: rest) = defs ++ preprocess rest
  /\ preprocess (PDefine n :: PIf false n (map PDef defs) :: rest) = defs ++ snd (pp_items [n] rest)
  /\ preprocess (PDefine n :: PIf true n (map PDef defs) :: rest) = snd (pp_items [n] rest).
Proof.
  intros n defs rest. unfold preprocess.
  assert (M : mem_str n [n] = true) by (unfold mem_str; cbn [existsb]; rewrite String.eqb_refl; reflexivity).
  repeat split.
  - cbn [pp_items]. rewrite pp_if. cbn [mem_str existsb xorb]. destruct (pp_items [] rest). reflexivity.
  - cbn [pp_items]. rewrite pp_if. cbn [mem_str existsb xorb]. rewrite pp_items_defs.
    destruct (pp_items [] rest). reflexivity.
  - cbn [pp_items pp_item]. rewrite pp_if_body. rewrite M. cbn [xorb]. rewrite pp_items_defs.
    destruct (pp_items [n] rest). reflexivity.
  - cbn [pp_items pp_item]. rewrite M. cbn [xorb]. destruct (pp_items [n] rest). reflexivity.
Qed.

(* a file whose definitions are all gated out is rejected (specification = definition+) *)
Lemma all_gated_out_rejected : forall n body, compile [PIf false n body] = Err 0.
Proof. intros. unfold compile, preprocess. cbn [pp_items]. rewrite pp_if. reflexivity. Qed.

(* combined forms used by Props/C41.v *)
Lemma headers_preserved : forall defs items,
  supported defs = true -> compile_defs defs = Ok items ->
  struct_headers_of (shape_of_items 0 items) = struct_headers_of (shape_of_defs [] defs)
  /\ enums_of (shape_of_items 0 items) = enums_of (shape_of_defs [] defs).
Proof. intros. split; [apply struct_headers_preserved | apply enums_preserved]; assumption. Qed.

Lemma unions_aliases_consts_preserved : forall defs items,
  supported defs = true -> compile_defs defs = Ok items ->
  known_bounds defs = false -> known_multi_dim defs = false ->
  unions_of (shape_of_items 0 items) = unions_of (shape_of_defs [] defs)
  /\ aliases_of (shape_of_items 0 items) = aliases_of (shape_of_defs [] defs)
  /\ consts_of (shape_of_items 0 items) = consts_of (shape_of_defs [] defs).
Proof.
  intros defs items Hs Hc K1 K3. split; [apply unions_preserved; assumption|].
  apply aliases_consts_preserved; assumption.
Qed.
