(* C41 — proofs about the model of the IDL compiler (IdlModel.v). *)
From DustDDS Require Import Base.Machine Lang.IdlModel.
Open Scope string_scope.
Open Scope list_scope.

(* ------------------------------------------------------------ boolean equalities *)

Lemma list_eqb_eq {A} (f : A -> A -> bool) :
  (forall x y, f x y = true <-> x = y) -> forall l m, list_eqb f l m = true <-> l = m.
Proof.
  intros Hf. induction l as [|x l IH]; destruct m as [|y m]; cbn [list_eqb]; try (split; [discriminate|discriminate]).
  - split; reflexivity.
  - rewrite andb_true_iff, Hf, IH. split.
    + intros [-> ->]. reflexivity.
    + intros E. inversion E. auto.
Qed.

Lemma opt_eqb_eq {A} (f : A -> A -> bool) :
  (forall x y, f x y = true <-> x = y) -> forall a b, opt_eqb f a b = true <-> a = b.
Proof.
  intros Hf [x|] [y|]; cbn [opt_eqb]; try (split; [discriminate|discriminate]).
  - rewrite Hf. split; [intros ->; reflexivity | intros E; inversion E; reflexivity].
  - split; reflexivity.
Qed.

Lemma str_eqb_eq : forall x y : string, (x =? y) = true <-> x = y.
Proof. exact String.eqb_eq. Qed.

Lemma bool_eqb_eq : forall x y : bool, Bool.eqb x y = true <-> x = y.
Proof. intros x y. split; [apply eqb_prop | intros ->; apply eqb_reflx]. Qed.

Lemma kind_eqb_eq : forall a b, kind_eqb a b = true <-> a = b.
Proof.
  induction a as [| | | | | | | | | | | |x|e IH x|e IH x|e IH|a1 p1|]; destruct b; cbn [kind_eqb];
    try (split; [discriminate|discriminate]); try (split; reflexivity).
  - rewrite (opt_eqb_eq _ str_eqb_eq). split; [intros ->; reflexivity | intros E; inversion E; reflexivity].
  - rewrite andb_true_iff, IH, (opt_eqb_eq _ str_eqb_eq).
    split; [intros [-> ->]; reflexivity | intros E; inversion E; auto].
  - rewrite andb_true_iff, IH, (list_eqb_eq _ str_eqb_eq).
    split; [intros [-> ->]; reflexivity | intros E; inversion E; auto].
  - rewrite IH. split; [intros ->; reflexivity | intros E; inversion E; reflexivity].
  - rewrite andb_true_iff, bool_eqb_eq, (list_eqb_eq _ str_eqb_eq).
    split; [intros [-> ->]; reflexivity | intros E; inversion E; auto].
Qed.

Lemma kind_eqb_refl : forall k, kind_eqb k k = true.
Proof. intros k. apply kind_eqb_eq. reflexivity. Qed.

Lemma mshape_eqb_eq : forall a b, mshape_eqb a b = true <-> a = b.
Proof.
  intros [n1 k1 y1 i1 o1] [n2 k2 y2 i2 o2]. unfold mshape_eqb. cbn [ms_name ms_kind ms_key ms_id ms_opt].
  rewrite !andb_true_iff, str_eqb_eq, kind_eqb_eq, !bool_eqb_eq, (opt_eqb_eq _ str_eqb_eq).
  split.
  - intros [[[[-> ->] ->] ->] ->]. reflexivity.
  - intros E. inversion E. auto.
Qed.

Lemma cshape_eqb_eq : forall a b, cshape_eqb a b = true <-> a = b.
Proof.
  intros [l1 d1 n1 k1] [l2 d2 n2 k2]. unfold cshape_eqb. cbn [cs_labels cs_default cs_name cs_kind].
  rewrite !andb_true_iff, str_eqb_eq, kind_eqb_eq, bool_eqb_eq, (list_eqb_eq _ str_eqb_eq).
  split.
  - intros [[[-> ->] ->] ->]. reflexivity.
  - intros E. inversion E. auto.
Qed.

Lemma enumr_eqb_eq : forall a b, enumr_eqb a b = true <-> a = b.
Proof.
  intros [n1 v1] [n2 v2]. unfold enumr_eqb. cbn [fst snd].
  rewrite andb_true_iff, str_eqb_eq, (list_eqb_eq _ str_eqb_eq).
  split; [intros [-> ->]; reflexivity | intros E; inversion E; auto].
Qed.

Lemma ev_eqb_eq : forall a b, ev_eqb a b = true <-> a = b.
Proof.
  intros a b. destruct a, b; cbn [ev_eqb]; try (split; [discriminate|discriminate]); try (split; reflexivity).
  - rewrite str_eqb_eq. split; [intros ->; reflexivity | intros E; inversion E; reflexivity].
  - rewrite !andb_true_iff, str_eqb_eq, (list_eqb_eq _ str_eqb_eq), (opt_eqb_eq _ str_eqb_eq),
      (opt_eqb_eq _ kind_eqb_eq), (list_eqb_eq _ mshape_eqb_eq).
    split; [intros [[[[-> ->] ->] ->] ->]; reflexivity | intros E; inversion E; auto].
  - rewrite !andb_true_iff, str_eqb_eq, (list_eqb_eq _ str_eqb_eq), (opt_eqb_eq _ str_eqb_eq),
      (list_eqb_eq _ enumr_eqb_eq).
    split; [intros [[[-> ->] ->] ->]; reflexivity | intros E; inversion E; auto].
  - rewrite !andb_true_iff, str_eqb_eq, (list_eqb_eq _ str_eqb_eq), kind_eqb_eq, (list_eqb_eq _ cshape_eqb_eq).
    split; [intros [[[-> ->] ->] ->]; reflexivity | intros E; inversion E; auto].
  - rewrite !andb_true_iff, str_eqb_eq, kind_eqb_eq.
    split; [intros [-> ->]; reflexivity | intros E; inversion E; auto].
  - rewrite !andb_true_iff, !str_eqb_eq, kind_eqb_eq.
    split; [intros [[-> ->] ->]; reflexivity | intros E; inversion E; auto].
Qed.

Lemma evs_eqb_eq : forall a b, evs_eqb a b = true <-> a = b.
Proof. exact (list_eqb_eq _ ev_eqb_eq). Qed.

(* the oracle of the correspondence run means equality of the declared structures *)
Lemma structure_preserved_iff : forall defs items,
  structure_preserved defs items = true <-> shape_of_items 0 items = shape_of_defs [] defs.
Proof. intros. unfold structure_preserved. apply evs_eqb_eq. Qed.

Lemma structure_preserved_upto_iff : forall eb ed ea defs items,
  structure_preserved_upto eb ed ea defs items = true <->
  map (ev_erase eb ed ea) (shape_of_items 0 items) = map (ev_erase eb ed ea) (shape_of_defs [] defs).
Proof. intros. unfold structure_preserved_upto. apply evs_eqb_eq. Qed.

(* ------------------------------------------------------- erasing nothing is the identity *)

Lemma kind_erase_none : forall k, kind_erase false false k = k.
Proof. induction k; cbn [kind_erase]; congruence. Qed.

Lemma map_id_ext {A} (f : A -> A) : (forall x, f x = x) -> forall l, map f l = l.
Proof. intros H. induction l; cbn [map]; congruence. Qed.

Lemma ms_erase_none : forall m, ms_erase false false false m = m.
Proof. intros [n k y i o]. unfold ms_erase. cbn [ms_name ms_kind ms_key ms_id ms_opt]. rewrite kind_erase_none. reflexivity. Qed.

Lemma cs_erase_none : forall c, cs_erase false false c = c.
Proof. intros [l d n k]. unfold cs_erase. cbn [cs_labels cs_default cs_name cs_kind]. rewrite kind_erase_none. reflexivity. Qed.

Lemma ev_erase_none : forall e, ev_erase false false false e = e.
Proof.
  intros e. destruct e; cbn [ev_erase]; try reflexivity.
  - rewrite (map_id_ext _ ms_erase_none). reflexivity.
  - rewrite (map_id_ext _ cs_erase_none). reflexivity.
  - rewrite kind_erase_none. reflexivity.
  - rewrite kind_erase_none. reflexivity.
Qed.

Lemma evs_erase_none : forall l, map (ev_erase false false false) l = l.
Proof. exact (map_id_ext _ ev_erase_none). Qed.

(* ------------------------------------------------------------------ kinds of types *)

Lemma leaf_prim : forall p, leaf_kind (prim_rust p) = prim_kind p.
Proof. destruct p; reflexivity. Qed.

Lemma forallb_super_repeat : forall d, forallb is_super (repeat "super" d) = true.
Proof. induction d; cbn [repeat forallb]; [reflexivity|]. rewrite IHd. reflexivity. Qed.

Lemma firstn_repeat_app {A} (x : A) d l : firstn d (repeat x d ++ l) = repeat x d.
Proof. induction d; cbn [repeat firstn app]; [reflexivity | rewrite IHd; reflexivity]. Qed.

Lemma skipn_repeat_app {A} (x : A) d l : skipn d (repeat x d ++ l) = l.
Proof. induction d; cbn [repeat skipn app]; [reflexivity | exact IHd]. Qed.

Definition head_ok (path : list string) : bool :=
  match path with [] => false | h :: _ => negb (is_super h) end.

Lemma path_kind_super : forall d path,
  head_ok path = true ->
  path_kind (S d) (mkPath false (repeat "super" (S d) ++ path)) = KRef true path.
Proof.
  intros d path Hh. unfold path_kind. cbn [p_lead p_segs repeat app].
  destruct (repeat "super" d ++ path) as [|s1 r] eqn:E.
  - apply app_eq_nil in E. destruct E as [_ ->]. discriminate.
  - rewrite <- E. cbn [firstn forallb length]. rewrite firstn_repeat_app, forallb_super_repeat.
    cbn [is_super]. change (is_super "super") with true. cbn [andb].
    replace (Nat.leb (S d) (S (length (repeat "super" d ++ path)))) with true.
    + cbn [skipn]. rewrite skipn_repeat_app. reflexivity.
    + symmetry. apply Nat.leb_le. rewrite app_length, repeat_length. lia.
Qed.

(* the generated path of a scoped name denotes that scoped name again *)
Lemma scoped_kind : forall mods abs path,
  head_ok path = true -> path_kind (length mods) (scoped mods abs path) = name_kind abs path.
Proof.
  intros mods abs path Hh. unfold scoped. destruct abs.
  - destruct mods as [|m ms].
    + destruct path; reflexivity.
    + cbn [length]. rewrite path_kind_super by exact Hh. destruct path; reflexivity.
  - destruct path as [|h t]; [discriminate|]. cbn [head_ok] in Hh. apply negb_true_iff in Hh.
    unfold path_kind. cbn [p_lead p_segs]. destruct t as [|t1 t2].
    + reflexivity.
    + destruct (length mods) as [|d]; [reflexivity|].
      cbn [firstn forallb]. rewrite Hh. reflexivity.
Qed.

Fixpoint tspec_wf (t : tspec) : bool :=
  match t with
  | TName _ p => head_ok p
  | TSeq e _ => tspec_wf e
  | TUnsup _ => false
  | _ => true
  end.

Lemma gen_ty_total : forall mods t, tspec_wf t = true -> exists r, gen_ty mods t = Some r.
Proof.
  intros mods. induction t; cbn [tspec_wf gen_ty]; intros H; try (eexists; reflexivity); try discriminate.
  destruct (IHt H) as [r ->]. eexists. reflexivity.
Qed.

Lemma gen_ty_panics : forall mods t, tspec_supported t = false -> gen_ty mods t = None.
Proof.
  intros mods. induction t; cbn [tspec_supported gen_ty]; intros H; try discriminate; try reflexivity.
  rewrite (IHt H). reflexivity.
Qed.

(* a generated type is never an array (arrays come from declarators only) *)
Definition not_arr (k : kind) : Prop := match k with KArr _ _ => False | _ => True end.

Lemma leaf_not_arr : forall n, not_arr (leaf_kind n).
Proof.
  intros n. unfold leaf_kind.
  repeat match goal with |- not_arr (if ?c then _ else _) => destruct c; [exact I|] end. exact I.
Qed.

Lemma path_kind_not_arr : forall d p, not_arr (path_kind d p).
Proof.
  intros d [l segs]. unfold path_kind. cbn [p_lead p_segs]. destruct l.
  - destruct d; exact I.
  - destruct segs as [|s [|s2 r]].
    + destruct d; exact I.
    + apply leaf_not_arr.
    + destruct d; [exact I|]. match goal with |- not_arr (if ?c then _ else _) => destruct c; exact I end.
Qed.

Lemma gen_ty_not_arr : forall mods t r d, gen_ty mods t = Some r -> not_arr (kind_of_rty d r).
Proof.
  intros mods t r d. destruct t; cbn [gen_ty]; intros H; try (inversion H; subst; cbn [kind_of_rty]; first [apply path_kind_not_arr | exact I]); try discriminate.
  destruct (gen_ty mods t); [|discriminate]. inversion H. exact I.
Qed.

(* kinds agree up to the bounds (which the generator drops) *)
Lemma gen_ty_kind : forall eb ed mods t r,
  tspec_wf t = true -> (tspec_bounded t = true -> eb = true) ->
  gen_ty mods t = Some r ->
  kind_erase eb ed (kind_of_rty (length mods) r) = kind_erase eb ed (kind_of_tspec t).
Proof.
  intros eb ed mods. induction t; cbn [tspec_wf tspec_bounded gen_ty kind_of_tspec]; intros r Hwf Hb H; try discriminate.
  - inversion H. subst. cbn [kind_of_rty]. unfold path_kind. cbn [p_lead p_segs]. rewrite leaf_prim. reflexivity.
  - inversion H. subst. cbn [kind_of_rty]. rewrite scoped_kind by exact Hwf. reflexivity.
  - destruct (gen_ty mods t) as [r0|] eqn:E; [|discriminate]. inversion H. subst. cbn [kind_of_rty kind_erase].
    rewrite (IHt r0 Hwf) by (try reflexivity; intros Hb'; apply Hb; rewrite Hb'; apply orb_true_r).
    destruct eb; [reflexivity|]. destruct b; [|reflexivity].
    exfalso. assert (false = true) by (apply Hb; reflexivity). discriminate.
  - inversion H. subst. cbn [kind_of_rty kind_erase]. destruct eb; [reflexivity|]. destruct b; [|reflexivity].
    exfalso. assert (false = true) by (apply Hb; reflexivity). discriminate.
  - inversion H. subst. cbn [kind_of_rty kind_erase]. destruct eb; [reflexivity|]. destruct b; [|reflexivity].
    exfalso. assert (false = true) by (apply Hb; reflexivity). discriminate.
Qed.

(* ---------------------------------------------------------------------- members *)

Lemma view_one_attrs : forall l, view (map one_attr l) = match l with [] => [] | a :: _ => [a] end.
Proof. destruct l; reflexivity. Qed.

Lemma opt_flag_agrees : forall A, existsb is_opt_arg (rec_args A) = is_optional A.
Proof.
  unfold rec_args, is_optional. induction A as [|a A IH]; [reflexivity|].
  cbn [flat_map existsb]. rewrite existsb_app, IH. f_equal.
  unfold annot_arg. destruct (an_name a =? "key") eqn:K.
  - apply String.eqb_eq in K. rewrite K. reflexivity.
  - destruct (an_name a =? "id") eqn:I.
    + apply String.eqb_eq in I. rewrite I. destruct (an_arg a); reflexivity.
    + destruct (an_name a =? "optional"); reflexivity.
Qed.

Lemma kind_of_arr : forall d e n, not_arr (kind_of_rty d e) ->
  kind_of_rty d (RArr e n) = KArr (kind_of_rty d e) [n].
Proof. intros d e n H. cbn [kind_of_rty]. destruct (kind_of_rty d e); try reflexivity. destruct H. Qed.

Lemma decl_kind_ok : forall eb ed mods t r d,
  tspec_wf t = true -> (tspec_bounded t = true -> eb = true) -> (multi_dim d = true -> ed = true) ->
  gen_ty mods t = Some r ->
  kind_erase eb ed (kind_of_rty (length mods) (wrap_arr d r)) = kind_erase eb ed (decl_kind d (kind_of_tspec t)).
Proof.
  intros eb ed mods t r d Hwf Hb Hd H. destruct d as [n|n d0 ds]; cbn [wrap_arr decl_kind].
  - apply gen_ty_kind; assumption.
  - rewrite kind_of_arr by (eapply gen_ty_not_arr; exact H).
    cbn [kind_erase]. rewrite (gen_ty_kind eb ed mods t r Hwf Hb H). f_equal.
    destruct ds as [|d1 ds]; [destruct ed; reflexivity|].
    rewrite Hd by reflexivity. reflexivity.
Qed.

Lemma opt_kind_ok : forall eb ed mods t r d (o : bool),
  tspec_wf t = true -> (tspec_bounded t = true -> eb = true) -> (multi_dim d = true -> ed = true) ->
  gen_ty mods t = Some r ->
  kind_erase eb ed (kind_of_rty (length mods) (if o then ROpt (wrap_arr d r) else wrap_arr d r))
  = kind_erase eb ed (if o then KOpt (decl_kind d (kind_of_tspec t)) else decl_kind d (kind_of_tspec t)).
Proof.
  intros eb ed mods t r d o Hwf Hb Hd H. destruct o; [cbn [kind_of_rty kind_erase]; f_equal|];
    apply decl_kind_ok; assumption.
Qed.

Lemma imp_false : forall (b : bool), (b = true -> false = true) -> b = false.
Proof. intros [|] H; [symmetry; apply H; reflexivity | reflexivity]. Qed.

Lemma member_shape_ok : forall eb ed ea mods m fs,
  tspec_wf (m_type m) = true ->
  (tspec_bounded (m_type m) = true -> eb = true) ->
  (existsb multi_dim (m_d0 m :: m_ds m) = true -> ed = true) ->
  (member_multi_annot m = true -> ea = true) ->
  (member_split m = true -> ea = true) ->
  gen_member mods m = Some fs ->
  map (ms_erase eb ed ea) (map (field_shape (length mods)) fs) = map (ms_erase eb ed ea) (member_shapes m).
Proof.
  intros eb ed ea mods [A t d0 ds] fs. cbn [m_annots m_type m_d0 m_ds]. intros Hwf Hb Hd Hma Hsp.
  unfold gen_member, member_shapes. cbn [m_annots m_type m_d0 m_ds].
  destruct (gen_ty mods t) as [r|] eqn:G; [|discriminate]. intros E. inversion E. subst fs. clear E.
  rewrite <- opt_flag_agrees.
  assert (Hd0 : multi_dim d0 = true -> ed = true).
  { intros H. apply Hd. cbn [existsb]. rewrite H. reflexivity. }
  assert (Hds : forall d, In d ds -> multi_dim d = true -> ed = true).
  { intros d Hin H. apply Hd. cbn [existsb]. apply orb_true_iff. right. apply existsb_exists. exists d. auto. }
  cbn [map]. f_equal.
  - (* the first declarator carries the attributes *)
    unfold field_shape, ms_erase. cbn [f_attrs f_name f_ty ms_name ms_kind ms_key ms_id ms_opt].
    rewrite (opt_kind_ok eb ed mods t r d0 _ Hwf Hb Hd0 G).
    destruct ea; [reflexivity|].
    apply imp_false in Hsp. unfold member_split in Hsp. cbn [m_annots] in Hsp.
    rewrite view_one_attrs. destruct (rec_args A) as [|a [|b R']]; [reflexivity| |discriminate].
    reflexivity.
  - (* the others carry none *)
    rewrite !map_map. apply map_ext_in. intros d Hin.
    unfold field_shape, ms_erase. cbn [f_attrs f_name f_ty ms_name ms_kind ms_key ms_id ms_opt view existsb find_id].
    rewrite (opt_kind_ok eb ed mods t r d _ Hwf Hb (Hds d Hin) G).
    destruct ea; [reflexivity|].
    apply imp_false in Hma. unfold member_multi_annot in Hma. cbn [m_annots m_ds] in Hma.
    destruct (rec_args A) as [|a R']; [reflexivity|]. destruct ds; [destruct Hin | discriminate].
Qed.

Lemma gen_member_total : forall mods m, tspec_wf (m_type m) = true -> exists fs, gen_member mods m = Some fs.
Proof.
  intros mods m H. unfold gen_member. destruct (gen_ty_total mods _ H) as [r ->]. eexists. reflexivity.
Qed.

(* concat_opt / all_opt *)
Lemma concat_opt_some {A B} (f : A -> option (list B)) : forall l,
  (forall x, In x l -> exists y, f x = Some y) -> exists ys, concat_opt (map f l) = Some ys.
Proof.
  induction l as [|x l IH]; intros H; cbn [map concat_opt]; [eexists; reflexivity|].
  destruct (H x (or_introl eq_refl)) as [y ->]. destruct IH as [ys ->]; [intros z Hz; apply H; right; exact Hz|].
  eexists. reflexivity.
Qed.

Lemma all_opt_some {A B} (f : A -> option B) : forall l,
  (forall x, In x l -> exists y, f x = Some y) -> exists ys, all_opt (map f l) = Some ys.
Proof.
  induction l as [|x l IH]; intros H; cbn [map all_opt]; [eexists; reflexivity|].
  destruct (H x (or_introl eq_refl)) as [y ->]. destruct IH as [ys ->]; [intros z Hz; apply H; right; exact Hz|].
  eexists. reflexivity.
Qed.

(* a list statement lifted through concat_opt: if every piece satisfies g (f-output) = h input *)
Lemma concat_opt_map {A B C} (f : A -> option (list B)) (g : list B -> list C) (h : A -> list C) :
  (forall x y, g (x ++ y) = g x ++ g y) -> g [] = [] ->
  forall l ys, (forall x y, In x l -> f x = Some y -> g y = h x) ->
  concat_opt (map f l) = Some ys -> g ys = flat_map h l.
Proof.
  intros Happ Hnil. induction l as [|x l IH]; intros ys H; cbn [map concat_opt flat_map].
  - intros E. inversion E. exact Hnil.
  - destruct (f x) as [y|] eqn:F; [|discriminate].
    destruct (concat_opt (map f l)) as [zs|] eqn:CO; [|discriminate].
    intros E. inversion E. subst ys. rewrite Happ. f_equal.
    + apply H; [left; reflexivity | exact F].
    + apply IH; [intros z w Hz; apply H; right; exact Hz | reflexivity].
Qed.

(* ------------------------------------------------------------- list plumbing *)

Lemma map_flat_map {A B C} (f : B -> C) (g : A -> list B) : forall l,
  map f (flat_map g l) = flat_map (fun x => map f (g x)) l.
Proof. induction l as [|x l IH]; cbn [flat_map map]; [reflexivity|]. rewrite map_app, IH. reflexivity. Qed.

Lemma flat_map_ext_in {A B} (f g : A -> list B) : forall l,
  (forall x, In x l -> f x = g x) -> flat_map f l = flat_map g l.
Proof.
  induction l as [|x l IH]; intros H; cbn [flat_map]; [reflexivity|].
  rewrite (H x (or_introl eq_refl)), IH; [reflexivity | intros y Hy; apply H; right; exact Hy].
Qed.

Lemma filter_map_comm {A} (p : A -> bool) (f : A -> A) :
  (forall x, p (f x) = p x) -> forall l, filter p (map f l) = map f (filter p l).
Proof.
  intros H. induction l as [|x l IH]; cbn [map filter]; [reflexivity|].
  rewrite H. destruct (p x); cbn [map]; rewrite IH; reflexivity.
Qed.

Lemma existsb_false_in {A} (p : A -> bool) : forall l x, existsb p l = false -> In x l -> p x = false.
Proof.
  intros l x H Hin. destruct (p x) eqn:E; [|reflexivity].
  assert (existsb p l = true) by (apply existsb_exists; exists x; auto). congruence.
Qed.

Lemma imp_existsb {A} (p : A -> bool) (b : bool) : forall l x,
  (existsb p l = true -> b = true) -> In x l -> p x = true -> b = true.
Proof. intros l x H Hin Hp. apply H. apply existsb_exists. exists x. auto. Qed.

(* ------------------------------------------------------------------- structs *)

Lemma derives_std : forall l, derives_dds (RDerive std_traits :: l) = true.
Proof. reflexivity. Qed.

Definition is_ext_arg (a : rarg) : Prop := match a with AExt _ => True | _ => False end.

Lemma ext_args_are_ext : forall A, Forall is_ext_arg (flat_map ext_arg A).
Proof.
  induction A as [|a A IH]; cbn [flat_map]; [constructor|]. apply Forall_app. split; [|exact IH].
  unfold ext_arg.
  destruct (an_name a =? "final"); [repeat constructor|].
  destruct (an_name a =? "appendable"); [repeat constructor|].
  destruct (an_name a =? "mutable"); repeat constructor.
Qed.

Lemma ms_erase_name : forall eb ed ea m, is_parent (ms_erase eb ed ea m) = is_parent m.
Proof. reflexivity. Qed.

Definition notparent (m : mshape) : bool := negb (is_parent m).

Lemma members_shape_ok : forall eb ed ea mods ms fs,
  forallb (fun m => tspec_wf (m_type m)) ms = true ->
  (existsb (fun m => tspec_bounded (m_type m)) ms = true -> eb = true) ->
  (existsb (fun m => existsb multi_dim (m_d0 m :: m_ds m)) ms = true -> ed = true) ->
  (existsb member_multi_annot ms = true -> ea = true) ->
  (existsb member_split ms = true -> ea = true) ->
  concat_opt (map (gen_member mods) ms) = Some fs ->
  map (ms_erase eb ed ea) (map (field_shape (length mods)) fs)
  = map (ms_erase eb ed ea) (flat_map member_shapes ms).
Proof.
  intros eb ed ea mods ms fs Hwf Hb Hd Hma Hsp H.
  rewrite map_flat_map.
  apply (concat_opt_map (gen_member mods)
           (fun fs => map (ms_erase eb ed ea) (map (field_shape (length mods)) fs))
           (fun m => map (ms_erase eb ed ea) (member_shapes m))) with (l := ms).
  - intros x y. rewrite !map_app. reflexivity.
  - reflexivity.
  - intros m fm Hin G. rewrite forallb_forall in Hwf.
    apply member_shape_ok; try assumption.
    + apply Hwf. exact Hin.
    + intros E. eapply (imp_existsb _ eb ms m Hb Hin). exact E.
    + intros E. eapply (imp_existsb _ ed ms m Hd Hin). exact E.
    + intros E. eapply (imp_existsb _ ea ms m Hma Hin). exact E.
    + intros E. eapply (imp_existsb _ ea ms m Hsp Hin). exact E.
  - exact H.
Qed.

Lemma view_derive : forall t l, view (RDerive t :: l) = view l.
Proof. reflexivity. Qed.

