(* C40 — model of #[derive(DdsType)] (dds_derive/src/derive/{attributes,type_support,
   enum_support}.rs) together with the parts of dds/src/xtypes it expands to:
   type_support.rs (Type impls of the built-in types), data_storage.rs
   (DataStorageMapping) and dynamic_type.rs (DynamicData = BTreeMap<MemberId,DataStorage>).
   Definitions only.

   A declaration is a term of [ty]; referenced user types are inlined (the Rust
   program names them, the expansion only ever uses `<T as Type>::TYPE` and
   `<T as DataStorageMapping>`, which are functions of T's own declaration).     *)
From Coq Require Import Strings.String Strings.Ascii DecimalString.
From DustDDS Require Export Base.Machine.
From DustDDS Require Import KeyHash.Md5Model.
Open Scope Z_scope.

(* ------------------------------------------------------------------ syntax *)

Inductive prim : Type :=
| PBool | PI8 | PU8 | PI16 | PU16 | PI32 | PU32 | PI64 | PU64 | PF32 | PF64 | PChar.

Inductive ext : Type := Final | Appendable | Mutable.
Inductive tck : Type := TcUseDefault | TcDiscard | TcTrim.
Inductive bitbound : Type := B8 | B16 | B32.

(* Rust values of the declared types.  VPrim carries every primitive as an
   integer: bool 0/1, integers, char code point, f32/f64 IEEE bit pattern. *)
Inductive value : Type :=
| VPrim (z : Z)
| VStr (s : list Z)
| VList (l : list value)                 (* Vec<T>, [T; N] *)
| VOpt (o : option value)                (* Option<T> *)
| VStruct (fs : list value)              (* fields in declaration order *)
| VEnum (i : nat)                        (* variant index *)
| VUnion (i : nat) (p : option value).   (* variant index, payload (None: unit variant) *)

(* #[dust_dds(...)] on a struct field  (attributes.rs get_structure_member_attributes) *)
Record mhead : Type := mkM {
  m_name : string;             (* field identifier (ignored for tuple structs) *)
  m_id : option Z;             (* id = <integer literal> *)
  m_key : bool;
  m_optional : bool;
  m_ns : bool;                 (* non_serialized *)
  m_hashid : bool;
  m_default : option value;    (* default_value = <expr>, as the value it evaluates to *)
  m_tc : option tck;           (* try_construct = "..." *)
}.

Record shead : Type := mkS {
  s_rname : string;            (* Rust identifier *)
  s_cname : option string;     (* name = "..." *)
  s_ext : ext;
  s_nested : bool;
  s_tuple : bool;              (* tuple struct: fields are unnamed *)
}.

Record edecl : Type := mkE {
  e_rname : string;
  e_cname : option string;
  e_nested : bool;
  e_bits : bitbound;
  e_variants : list (string * option Z);   (* identifier, explicit `= <literal>` *)
}.

Record uhead : Type := mkU {
  u_rname : string;
  u_cname : option string;
  u_ext : ext;
  u_nested : bool;
  u_dkey : bool;               (* switch(key, T) *)
  u_disc : prim;               (* switch(T), T an integer type *)
}.

Record vhead : Type := mkV {
  v_name : string;
  v_cases : list Z;            (* case = <literal>, in order of appearance *)
  v_default : bool;
  v_field : option string;     (* Some f: `V { f: T }`, None: `V(T)` or unit *)
}.

Inductive ty : Type :=
| TPrim (p : prim)
| TString
| TVec (e : ty)
| TArr (e : ty) (n : nat)
| TOpt (e : ty)
| TStruct (h : shead) (ms : list (mhead * ty))
| TEnum (e : edecl)
| TUnion (h : uhead) (vs : list (vhead * option ty)).   (* payload None: unit variant *)

(* ----------------------------------------------------------- dynamic data *)

(* data_storage.rs DataStorage; DynamicData keeps a BTreeMap<MemberId, DataStorage>:
   a finite map, here an association list without duplicate keys. *)
Inductive storage : Type :=
| SPrim (p : prim) (z : Z)
| SStr (s : list Z)
| SSeqPrim (p : prim) (l : list Z)
| SSeqStr (l : list (list Z))
| SComplex (d : list (Z * storage))
| SSeqComplex (l : list (list (Z * storage)))
| SOther.        (* a DataStorage variant that none of the modelled types maps to (Float128, ...) *)
Definition dyn : Type := list (Z * storage).

Definition dget (k : Z) (d : dyn) : option storage :=
  match find (fun e => fst e =? k) d with Some e => Some (snd e) | None => None end.
Definition ddel (k : Z) (d : dyn) : dyn := filter (fun e => negb (fst e =? k)) d.
(* BTreeMap::insert *)
Definition dset (k : Z) (s : storage) (d : dyn) : dyn := (k, s) :: ddel k d.
(* BTreeMap::remove *)
Definition dremove (k : Z) (d : dyn) : option (storage * dyn) :=
  match dget k d with Some s => Some (s, ddel k d) | None => None end.

(* ----------------------------------------------------------------- helpers *)

Definition prim_eqb (a b : prim) : bool :=
  match a, b with
  | PBool, PBool | PI8, PI8 | PU8, PU8 | PI16, PI16 | PU16, PU16 | PI32, PI32 | PU32, PU32
  | PI64, PI64 | PU64, PU64 | PF32, PF32 | PF64, PF64 | PChar, PChar => true
  | _, _ => false
  end.

Fixpoint zlist_eqb (a b : list Z) : bool :=
  match a, b with
  | [], [] => true
  | x :: a', y :: b' => (x =? y) && zlist_eqb a' b'
  | _, _ => false
  end.

Fixpoint value_eqb (a b : value) {struct a} : bool :=
  let fix go (x y : list value) : bool :=
    match x, y with
    | [], [] => true
    | u :: x', w :: y' => value_eqb u w && go x' y'
    | _, _ => false
    end in
  match a, b with
  | VPrim x, VPrim y => x =? y
  | VStr x, VStr y => zlist_eqb x y
  | VList x, VList y => go x y
  | VOpt None, VOpt None => true
  | VOpt (Some x), VOpt (Some y) => value_eqb x y
  | VStruct x, VStruct y => go x y
  | VEnum i, VEnum j => Nat.eqb i j
  | VUnion i None, VUnion j None => Nat.eqb i j
  | VUnion i (Some x), VUnion j (Some y) => Nat.eqb i j && value_eqb x y
  | _, _ => false
  end.

Definition is_complex (t : ty) : bool :=
  match t with TStruct _ _ | TEnum _ | TUnion _ _ => true | _ => false end.

(* element types for which `Vec<T>` / `[T; N]` implement Type + DataStorageMapping *)
Definition elem_ok (t : ty) : bool :=
  match t with TPrim _ | TString => true | _ => is_complex t end.

Definition ascii_z (c : ascii) : Z := Z.of_N (N_of_ascii c).
Fixpoint string_bytes (s : string) : list Z :=
  match s with EmptyString => [] | String c r => ascii_z c :: string_bytes r end.

(* type_support.rs:67-76  u32::from_le_bytes(md5(name)[0..4]) & 0x0FFF_FFFF
   (DDS-XTypes 7.3.1.2.1.1: member ids are 28 bit wide; fix 470723e) *)
Definition hash_id (name : string) : Z :=
  match md5 (string_bytes name) with
  | b0 :: b1 :: b2 :: b3 :: _ => (b0 + 256 * b1 + 65536 * b2 + 16777216 * b3) mod 268435456
  | _ => 0
  end.

Definition nat_dec_string (n : nat) : string := NilZero.string_of_uint (Nat.to_uint n).

Definition tname (r : string) (c : option string) : string :=
  match c with Some n => n | None => r end.

(* name of the i-th field: identifier, or the decimal index for tuple structs
   (type_support.rs:61-65) *)
Definition member_name (h : shead) (i : nat) (m : mhead) : string :=
  if s_tuple h then nat_dec_string i else m_name m.

(* ------------------------------------------------------------- member ids *)

(* type_support.rs:57-104: hashid wins; otherwise an explicit id is the id in every
   extensibility kind (fix 7ee9e78); otherwise Final/Appendable use the member index and
   Mutable uses next_auto_id; next_auto_id := id + 1 after every member that is not
   hashed (not monotonic: a lower explicit id resets it). *)
Fixpoint struct_ids_from (h : shead) (idx : nat) (next : Z) (ms : list mhead) : list Z :=
  match ms with
  | [] => []
  | m :: r =>
      let id :=
        if m_hashid m then hash_id (member_name h idx m)
        else match m_id m with
             | Some i => i
             | None => match s_ext h with Mutable => next | _ => Z.of_nat idx end
             end in
      let next' := if m_hashid m then next else id + 1 in
      id :: struct_ids_from h (S idx) next' r
  end.
Definition struct_ids (h : shead) (ms : list mhead) : list Z := struct_ids_from h 0 0 ms.

(* the declared field names, in declaration order *)
Fixpoint names_from (h : shead) (idx : nat) (ms : list mhead) : list string :=
  match ms with [] => [] | m :: r => member_name h idx m :: names_from h (S idx) r end.

(* a sufficient (and for un-hashed members necessary) condition for distinct ids in
   a Mutable structure: every explicit id is at least the value the automatic
   counter has reached, i.e. larger than the id of the previous un-hashed member *)
Fixpoint ids_ascending_from (next : Z) (ms : list mhead) : bool :=
  match ms with
  | [] => true
  | m :: r =>
      if m_hashid m then ids_ascending_from next r
      else match m_id m with
           | Some i => (next <=? i) && ids_ascending_from (i + 1) r
           | None => ids_ascending_from (next + 1) r
           end
  end.
Definition ids_ascending (ms : list mhead) : bool := ids_ascending_from 0 ms.
Definition no_hashid (ms : list mhead) : bool := forallb (fun m => negb (m_hashid m)) ms.

(* ------------------------------------------------------- type descriptions *)

Definition kind_of_prim (p : prim) : Z :=
  match p with
  | PBool => 1 | PI16 => 3 | PI32 => 4 | PI64 => 5 | PU16 => 6 | PU32 => 7 | PU64 => 8
  | PF32 => 9 | PF64 => 10 | PI8 => 12 | PU8 => 13 | PChar => 16
  end.
Definition K_NONE := 0. Definition K_STRING8 := 32. Definition K_ENUM := 64.
Definition K_STRUCTURE := 81. Definition K_UNION := 82. Definition K_SEQUENCE := 96.
Definition K_ARRAY := 97.

(* what is observable of `<T as Type>::TYPE` when T is used as a member type:
   kind, name, bound, element type *)
Inductive tsig : Type := Sig (kind : Z) (name : string) (bound : list Z) (elem : option tsig).

Fixpoint sig_of (t : ty) : tsig :=
  match t with
  | TPrim p => Sig (kind_of_prim p) ""%string [] None
  | TString => Sig K_STRING8 ""%string [u32_max] None
  | TVec e => Sig K_SEQUENCE (if is_complex e then "SequenceComplexValue"%string else ""%string) [u32_max] (Some (sig_of e))
  | TArr e n => Sig K_ARRAY ""%string [Z.of_nat n] (Some (sig_of e))
  | TOpt e => sig_of e
  | TStruct h _ => Sig K_STRUCTURE (tname (s_rname h) (s_cname h)) [] None
  | TEnum e => Sig K_ENUM (tname (e_rname e) (e_cname e)) [] None
  | TUnion h _ => Sig K_UNION (tname (u_rname h) (u_cname h)) [] None
  end.

Record mdesc : Type := mkMD {
  md_name : string; md_id : Z; md_index : Z; md_type : tsig;
  md_key : bool; md_optional : bool; md_must_understand : bool;
  md_label : list Z; md_default_label : bool; md_tc : tck;
}.
Record tdesc : Type := mkTD {
  td_kind : Z; td_name : string; td_ext : ext; td_nested : bool;
  td_disc : option tsig; td_members : list mdesc;
}.

Definition tc_of (o : option tck) : tck := match o with Some k => k | None => TcDiscard end.

(* the entries of xs that belong to members which are not non_serialized *)
Fixpoint published {A} (hs : list mhead) (xs : list A) : list A :=
  match hs, xs with
  | m :: hs', x :: xs' => if m_ns m then published hs' xs' else x :: published hs' xs'
  | _, _ => []
  end.

(* a non_serialized member is not published (fix 0840b55); `index` is the position among
   the published members, the name of a tuple field is its position among all fields *)
Fixpoint struct_mdescs (h : shead) (idx : nat) (pidx : nat) (ms : list (mhead * ty)) (ids : list Z) : list mdesc :=
  match ms, ids with
  | (m, t) :: r, id :: ids' =>
      if m_ns m then struct_mdescs h (S idx) pidx r ids'
      else mkMD (member_name h idx m) id (Z.of_nat pidx) (sig_of t)
                (m_key m) (m_optional m) (m_key m) [] false (tc_of (m_tc m))
           :: struct_mdescs h (S idx) (S pidx) r ids'
  | _, _ => []
  end.

(* `#lit as i32` of a case label *)
Definition label_i32 (z : Z) : Z := wrap_i32 z.

Definition variant_labels (idx : nat) (v : vhead) : list Z :=
  match v_cases v with [] => [Z.of_nat (S idx)] | l => l end.

Fixpoint union_mdescs (idx : nat) (vs : list (vhead * option ty)) : list mdesc :=
  match vs with
  | [] => []
  | (v, p) :: r =>
      mkMD (v_name v) (Z.of_nat (S idx)) (Z.of_nat (S idx))
           (match p with Some t => sig_of t | None => Sig K_NONE ""%string [] None end)
           false false false (map label_i32 (variant_labels idx v)) (v_default v) TcDiscard
      :: union_mdescs (S idx) r
  end.

Definition bits_prim (b : bitbound) : prim := match b with B8 => PI8 | B16 => PI16 | B32 => PI32 end.

(* the published description `<T as Type>::TYPE` of a declared type *)
Definition describe (t : ty) : option tdesc :=
  match t with
  | TStruct h ms =>
      Some (mkTD K_STRUCTURE (tname (s_rname h) (s_cname h)) (s_ext h) (s_nested h) None
                 (struct_mdescs h 0 0 ms (struct_ids h (map fst ms))))
  | TEnum e =>
      (* type_support.rs:593-612: member_list is empty, the literals are not published *)
      Some (mkTD K_ENUM (tname (e_rname e) (e_cname e)) Final (e_nested e)
                 (Some (sig_of (TPrim (bits_prim (e_bits e))))) [])
  | TUnion h vs =>
      Some (mkTD K_UNION (tname (u_rname h) (u_cname h)) (u_ext h) (u_nested h)
                 (Some (sig_of (TPrim (u_disc h))))
                 (mkMD "discriminator"%string 0 0 (sig_of (TPrim (u_disc h))) (u_dkey h) false true [] false TcDiscard
                  :: union_mdescs 0 vs))
  | _ => None
  end.

(* --------------------------------------------------------- Default::default *)

(* The expansion calls `<T as Default>::default()`; for user types this is the
   program's own impl.  Convention of the generated programs (and of the model):
   structs `#[derive(Default)]`, enums/unions default to their first variant with a
   default payload. *)
Fixpoint dflt (t : ty) : value :=
  match t with
  | TPrim _ => VPrim 0
  | TString => VStr []
  | TVec _ => VList []
  | TArr e n => VList (repeat (dflt e) n)
  | TOpt _ => VOpt None
  | TStruct _ ms => VStruct ((fix go (l : list (mhead * ty)) : list value :=
                                match l with [] => [] | (_, t') :: r => dflt t' :: go r end) ms)
  | TEnum _ => VEnum 0
  | TUnion _ vs => match vs with
                   | (_, Some t') :: _ => VUnion 0 (Some (dflt t'))
                   | _ => VUnion 0 None
                   end
  end.

Definition member_default (m : mhead) (t : ty) : value :=
  match m_default m with Some v => v | None => dflt t end.

(* "In Mutable structs every member is optional" applies to tuple fields only
   (type_support.rs:216 vs :253) *)
Definition treated_optional (h : shead) (m : mhead) : bool :=
  m_optional m || (s_tuple h && match s_ext h with Mutable => true | _ => false end).

(* --------------------------------------------------------------- enum values *)

(* enum_support.rs: explicit literal or previous + 1, starting at 0 *)
Fixpoint enum_discs_from (next : Z) (vs : list (string * option Z)) : list Z :=
  match vs with
  | [] => []
  | (_, o) :: r => let d := match o with Some z => z | None => next end in d :: enum_discs_from (d + 1) r
  end.
Definition enum_discs (e : edecl) : list Z := enum_discs_from 0 (e_variants e).

Definition wrap_i8 (z : Z) : Z := (z + 128) mod 256 - 128.
Definition wrap_prim (p : prim) (z : Z) : Z :=
  match p with
  | PI8 => wrap_i8 z | PU8 => wrap_u8 z | PI16 => wrap_i16 z | PU16 => wrap_u16 z
  | PI32 => wrap_i32 z | PU32 => wrap_u32 z | PI64 => wrap_i64 z | PU64 => wrap_u64 z
  | _ => z
  end.

Fixpoint find_index {A} (f : A -> bool) (i : nat) (l : list A) : option nat :=
  match l with [] => None | x :: r => if f x then Some i else find_index f (S i) r end.

(* ------------------------------------------------- value -> DataStorage / dyn *)

Fixpoint prims_of (l : list value) : option (list Z) :=
  match l with
  | [] => Some []
  | VPrim z :: r => match prims_of r with Some zs => Some (z :: zs) | None => None end
  | _ => None
  end.
Fixpoint strs_of (l : list value) : option (list (list Z)) :=
  match l with
  | [] => Some []
  | VStr s :: r => match strs_of r with Some ss => Some (s :: ss) | None => None end
  | _ => None
  end.
Fixpoint dyns_of (l : list storage) : option (list dyn) :=
  match l with
  | [] => Some []
  | SComplex d :: r => match dyns_of r with Some ds => Some (d :: ds) | None => None end
  | _ => None
  end.

(* result of try_from_storage(..).ok()? / create_sample: Ok (Some v), Ok None
   (the conversion gives up), or a panic (`expect` in the named-field union arm). *)
Definition obind {A B} (r : res (option A)) (f : A -> res (option B)) : res (option B) :=
  match r with
  | Ok (Some a) => f a
  | Ok None => Ok None
  | Err c => Err c
  | Panic s => Panic s
  end.
Notation "x <-? r ;; k" := (obind r (fun x => k)) (at level 61, r at next level, right associativity).

(* The loops of the expansion, with the conversion of the member type as a
   parameter (the recursive functions below instantiate it with themselves). *)
Section Loops.
  Variable to_elem : value -> res storage.                 (* into_storage of the element / member type *)
  Variable from_elem : storage -> res (option value).      (* try_from_storage(..).ok() *)

  (* Vec<T> / [T; N] of a user type: self.into_iter().map(create_dynamic_sample).collect() *)
  Fixpoint seq_to (l : list value) : res (list storage) :=
    match l with
    | [] => Ok []
    | x :: r => s <- to_elem x ;; ss <- seq_to r ;; Ok (s :: ss)
    end.
  (* x.iter_mut().map(T::create_sample).collect::<Option<Vec<_>>>() *)
  Fixpoint seq_from (ds : list dyn) : res (option (list value)) :=
    match ds with
    | [] => Ok (Some [])
    | d :: r => x <-? from_elem (SComplex d) ;; xs <-? seq_from r ;; Ok (Some (x :: xs))
    end.
End Loops.

Section StructLoops.
  Variable to_rec : ty -> value -> res storage.
  Variable from_rec : ty -> storage -> res (option value).
  Variable h : shead.

  (* create_dynamic_sample of a struct: one statement per member (type_support.rs:200-283) *)
  Fixpoint struct_to (ms : list (mhead * ty)) (ids : list Z) (fs : list value) (acc : dyn) : res dyn :=
    match ms, ids, fs with
    | [], _, [] => Ok acc
    | (m, t') :: ms', id :: ids', f :: fs' =>
        if m_ns m then struct_to ms' ids' fs' acc
        else if treated_optional h m && value_eqb f (member_default m t') then struct_to ms' ids' fs' acc
        else s <- to_rec t' f ;; struct_to ms' ids' fs' (dset id s acc)
    | _, _, _ => Err 1
    end.

  (* create_sample of a struct: the fields of `Self { .. }` in declaration order *)
  Fixpoint struct_from (ms : list (mhead * ty)) (ids : list Z) (src : dyn) : res (option (list value)) :=
    match ms, ids with
    | [], _ => Ok (Some [])
    | (m, t') :: ms', id :: ids' =>
        if m_ns m then
          fs <-? struct_from ms' ids' src ;; Ok (Some (member_default m t' :: fs))
        else if treated_optional h m then
          match dremove id src with
          | None => fs <-? struct_from ms' ids' src ;; Ok (Some (member_default m t' :: fs))
          | Some (x, src') => f <-? from_rec t' x ;; fs <-? struct_from ms' ids' src' ;; Ok (Some (f :: fs))
          end
        else match m_tc m with
             | Some TcUseDefault =>
                 match dremove id src with
                 | None => fs <-? struct_from ms' ids' src ;; Ok (Some (member_default m t' :: fs))
                 | Some (x, src') =>
                     match from_rec t' x with
                     | Ok (Some f) => fs <-? struct_from ms' ids' src' ;; Ok (Some (f :: fs))
                     | Ok None => fs <-? struct_from ms' ids' src' ;; Ok (Some (member_default m t' :: fs))
                     | Err c => Err c
                     | Panic c => Panic c
                     end
                 end
             | _ =>
                 match dremove id src with
                 | None => Ok None
                 | Some (x, src') => f <-? from_rec t' x ;; fs <-? struct_from ms' ids' src' ;; Ok (Some (f :: fs))
                 end
             end
    | _, _ => Err 2
    end.
End StructLoops.

Section UnionLoops.
  Variable to_rec : ty -> value -> res storage.
  Variable from_rec : ty -> storage -> res (option value).
  Variable dp : prim.                                     (* the discriminator type *)

  (* create_dynamic_sample of a union: `match self { Self::V(a) => {set 0; set idx+1} .. }` *)
  Fixpoint union_to (i : nat) (p : option value) (vs : list (vhead * option ty)) (idx : nat) : res dyn :=
    match vs with
    | [] => Err 1
    | (vh, pt) :: vs' =>
        if Nat.eqb idx i then
          let disc := (0, SPrim dp (hd 0 (variant_labels idx vh))) in
          match pt, p with
          | None, None => Ok [disc]
          | Some t', Some x => s <- to_rec t' x ;; Ok (dset (Z.of_nat (S idx)) s [disc])
          | _, _ => Err 1
          end
        else union_to i p vs' (S idx)
    end.

  (* create_sample of a union: `match disc { l0 => V0(..), .., _ => Vdefault(..) | return None }`,
     the arms in declaration order (type_support.rs:426-430, 529-531) *)
  Fixpoint union_from (z : Z) (src' : dyn) (vs : list (vhead * option ty)) (idx : nat) : res (option value) :=
    match vs with
    | [] => Ok None
    | (vh, pt) :: vs' =>
        if v_default vh || (hd 0 (variant_labels idx vh) =? z) then
          match pt with
          | None => Ok (Some (VUnion idx None))
          | Some t' =>
              match v_field vh with
              | None =>
                  match dremove (Z.of_nat (S idx)) src' with
                  | None => Ok None
                  | Some (x, _) => f <-? from_rec t' x ;; Ok (Some (VUnion idx (Some f)))
                  end
              | Some _ =>
                  (* .expect("Must exist") / .expect("Must match") *)
                  match dremove (Z.of_nat (S idx)) src' with
                  | None => Panic 2
                  | Some (x, _) =>
                      match from_rec t' x with
                      | Ok (Some f) => Ok (Some (VUnion idx (Some f)))
                      | Ok None => Panic 3
                      | Err c => Err c
                      | Panic c => Panic c
                      end
                  end
              end
          end
        else union_from z src' vs' (S idx)
    end.
End UnionLoops.

(* Err 1: the value is not of the type; Err 2: the declaration does not compile;
   Panic 1: `Option::None` reaches into_storage (data_storage.rs:667). *)
Definition prim_seq_to (e : ty) (l : list value) : res storage :=
  match e with
  | TPrim p => match prims_of l with Some zs => Ok (SSeqPrim p zs) | None => Err 1 end
  | TString => match strs_of l with Some ss => Ok (SSeqStr ss) | None => Err 1 end
  | _ => Err 2
  end.

Fixpoint to_st (t : ty) (v : value) {struct t} : res storage :=
  match t with
  | TPrim p => match v with VPrim z => Ok (SPrim p z) | _ => Err 1 end
  | TString => match v with VStr s => Ok (SStr s) | _ => Err 1 end
  | TVec e =>
      match v with
      | VList l =>
          if is_complex e then
            ss <- seq_to (to_st e) l ;;
            match dyns_of ss with Some ds => Ok (SSeqComplex ds) | None => Err 2 end
          else prim_seq_to e l
      | _ => Err 1
      end
  | TArr e n =>
      match v with
      | VList l =>
          if negb (Nat.eqb (length l) n) then Err 1 else
          if is_complex e then
            ss <- seq_to (to_st e) l ;;
            match dyns_of ss with Some ds => Ok (SSeqComplex ds) | None => Err 2 end
          else prim_seq_to e l
      | _ => Err 1
      end
  | TOpt e =>
      match v with
      | VOpt (Some x) => to_st e x
      | VOpt None => Panic 1
      | _ => Err 1
      end
  | TStruct h ms =>
      match v with
      | VStruct fs => d <- struct_to to_st h ms (struct_ids h (map fst ms)) fs [] ;; Ok (SComplex d)
      | _ => Err 1
      end
  | TEnum e =>
      match v with
      | VEnum i =>
          match nth_error (enum_discs e) i with
          | Some d => Ok (SComplex [(0, SPrim (bits_prim (e_bits e)) (wrap_prim (bits_prim (e_bits e)) d))])
          | None => Err 1
          end
      | _ => Err 1
      end
  | TUnion h vs =>
      match v with
      | VUnion i p => d <- union_to to_st (u_disc h) i p vs O ;; Ok (SComplex d)
      | _ => Err 1
      end
  end.

(* TypeSupport::create_dynamic_sample of a declared type *)
Definition to_dyn (t : ty) (v : value) : res dyn :=
  s <- to_st t v ;;
  match s with SComplex d => Ok d | _ => Err 2 end.

(* ------------------------------------------------- DataStorage / dyn -> value *)

Definition prim_seq_from (e : ty) (s : storage) : res (option (list value)) :=
  match e, s with
  | TPrim p, SSeqPrim q zs => if prim_eqb p q then Ok (Some (map VPrim zs)) else Ok None
  | TString, SSeqStr ss => Ok (Some (map VStr ss))
  | _, _ => Ok None
  end.

Fixpoint from_st (t : ty) (s : storage) {struct t} : res (option value) :=
  match t with
  | TPrim p => match s with SPrim q z => if prim_eqb p q then Ok (Some (VPrim z)) else Ok None | _ => Ok None end
  | TString => match s with SStr x => Ok (Some (VStr x)) | _ => Ok None end
  | TVec e =>
      l <-? (if is_complex e then
               match s with SSeqComplex ds => seq_from (from_st e) ds | _ => Ok None end
             else prim_seq_from e s) ;;
      Ok (Some (VList l))
  | TArr e n =>
      l <-? (if is_complex e then
               match s with SSeqComplex ds => seq_from (from_st e) ds | _ => Ok None end
             else prim_seq_from e s) ;;
      if Nat.eqb (length l) n then Ok (Some (VList l)) else Ok None
  | TOpt e => x <-? from_st e s ;; Ok (Some (VOpt (Some x)))
  | TStruct h ms =>
      match s with
      | SComplex src =>
          fs <-? struct_from from_st h ms (struct_ids h (map fst ms)) src ;; Ok (Some (VStruct fs))
      | _ => Ok None
      end
  | TEnum e =>
      match s with
      | SComplex src =>
          match dget 0 src with
          | Some (SPrim q z) =>
              if prim_eqb q (bits_prim (e_bits e)) then
                (* match discriminator { d0 => V0, d1 => V1, ..., _ => return None } *)
                match find_index (fun d => wrap_u32 d =? z) O (enum_discs e) with
                | Some i => Ok (Some (VEnum i))
                | None => Ok None
                end
              else Ok None
          | _ => Ok None
          end
      | _ => Ok None
      end
  | TUnion h vs =>
      match s with
      | SComplex src =>
          match dremove 0 src with
          | Some (SPrim q z, src') =>
              if prim_eqb q (u_disc h) then union_from from_st z src' vs O else Ok None
          | _ => Ok None
          end
      | _ => Ok None
      end
  end.

(* TypeSupport::create_sample *)
Definition from_dyn (t : ty) (d : dyn) : res (option value) := from_st t (SComplex d).

Definition roundtrip (t : ty) (v : value) : res (option value) :=
  d <- to_dyn t v ;; from_dyn t d.

(* ------------------------------------------------------------------ typing *)

Definition prim_ok (p : prim) (z : Z) : bool :=
  match p with
  | PBool => (0 <=? z) && (z <=? 1)
  | PI8 => (-128 <=? z) && (z <=? 127)
  | PU8 => (0 <=? z) && (z <=? 255)
  | PI16 => (-32768 <=? z) && (z <=? 32767)
  | PU16 => (0 <=? z) && (z <=? 65535)
  | PI32 => in_i32b z
  | PU32 => in_u32b z
  | PI64 => in_i64b z
  | PU64 => in_u64b z
  (* floats: IEEE bit patterns; NaN and -0.0 are excluded because Rust's `==`
     is not the identity on them *)
  | PF32 => (0 <=? z) && (z <=? 4294967295) && negb (z =? 2147483648)
            && negb ((2139095040 <? z mod 2147483648))
  | PF64 => (0 <=? z) && (z <=? u64_max) && negb (z =? 9223372036854775808)
            && negb ((9218868437227405312 <? z mod 9223372036854775808))
  | PChar => ((0 <=? z) && (z <? 55296)) || ((57343 <? z) && (z <=? 1114111))
  end.

Section TypingLoops.
  Variable rec : ty -> value -> bool.
  Fixpoint fields_all (ms : list (mhead * ty)) (fs : list value) : bool :=
    match ms, fs with
    | [], [] => true
    | (_, t') :: ms', f :: fs' => rec t' f && fields_all ms' fs'
    | _, _ => false
    end.
  (* the payload of variant i *)
  Fixpoint variant_payload (i : nat) (p : option value) (vs : list (vhead * option ty)) (idx : nat) : bool :=
    match vs with
    | [] => false
    | (_, pt) :: vs' =>
        if Nat.eqb idx i then
          match pt, p with
          | None, None => true
          | Some t', Some x => rec t' x
          | _, _ => false
          end
        else variant_payload i p vs' (S idx)
    end.
End TypingLoops.

Fixpoint has_type (t : ty) (v : value) {struct t} : bool :=
  match t with
  | TPrim p => match v with VPrim z => prim_ok p z | _ => false end
  | TString => match v with VStr _ => true | _ => false end
  | TVec e => match v with VList l => forallb (has_type e) l | _ => false end
  | TArr e n => match v with VList l => Nat.eqb (length l) n && forallb (has_type e) l | _ => false end
  | TOpt e => match v with VOpt None => true | VOpt (Some x) => has_type e x | _ => false end
  | TStruct h ms => match v with VStruct fs => fields_all has_type ms fs | _ => false end
  | TEnum e => match v with VEnum i => Nat.ltb i (length (e_variants e)) | _ => false end
  | TUnion h vs => match v with VUnion i p => variant_payload has_type i p vs O | _ => false end
  end.

(* ------------------------------------- the value a round trip is expected to give *)

Section EraseLoops.
  Variable rec : ty -> value -> value.
  Variable h : shead.
  Fixpoint erase_fields (ms : list (mhead * ty)) (fs : list value) : list value :=
    match ms, fs with
    | (m, t') :: ms', f :: fs' =>
        (if m_ns m then member_default m t'
         else if treated_optional h m && value_eqb f (member_default m t') then f
         else rec t' f) :: erase_fields ms' fs'
    | _, _ => fs
    end.
  Fixpoint erase_payload (i : nat) (x : value) (vs : list (vhead * option ty)) (idx : nat) : value :=
    match vs with
    | [] => VUnion i (Some x)
    | (_, pt) :: vs' =>
        if Nat.eqb idx i then
          match pt with Some t' => VUnion i (Some (rec t' x)) | None => VUnion i (Some x) end
        else erase_payload i x vs' (S idx)
    end.
End EraseLoops.

(* non_serialized members come back as their default; a member that is skipped
   because it equals its default comes back as that default, unchanged. *)
Fixpoint erase_ns (t : ty) (v : value) {struct t} : value :=
  match t with
  | TPrim _ | TString | TEnum _ => v
  | TVec e | TArr e _ => match v with VList l => VList (map (erase_ns e) l) | _ => v end
  | TOpt e => match v with VOpt (Some x) => VOpt (Some (erase_ns e x)) | _ => v end
  | TStruct h ms => match v with VStruct fs => VStruct (erase_fields erase_ns h ms fs) | _ => v end
  | TUnion h vs => match v with VUnion i (Some x) => erase_payload erase_ns i x vs O | _ => v end
  end.

Section DeclLoops.
  Variable rec : ty -> bool.
  Fixpoint members_all (ms : list (mhead * ty)) : bool :=
    match ms with [] => true | (_, t') :: r => rec t' && members_all r end.
  Fixpoint variants_all (vs : list (vhead * option ty)) : bool :=
    match vs with
    | [] => true
    | (_, Some t') :: r => rec t' && variants_all r
    | (_, None) :: r => variants_all r
    end.
End DeclLoops.

(* no non_serialized member anywhere in the declaration *)
Fixpoint no_ns (t : ty) : bool :=
  match t with
  | TPrim _ | TString | TEnum _ => true
  | TVec e | TArr e _ | TOpt e => no_ns e
  | TStruct _ ms => forallb (fun m => negb (m_ns (fst m))) ms && members_all no_ns ms
  | TUnion _ vs => variants_all no_ns vs
  end.

(* a `None` that create_dynamic_sample is documented to reject (data_storage.rs:667):
   an Option member without #[dust_dds(optional)], or one whose default_value is not None *)
Section NoneLoops.
  Variable rec : ty -> value -> bool.
  Variable h : shead.
  Fixpoint fields_expose (ms : list (mhead * ty)) (fs : list value) : bool :=
    match ms, fs with
    | (m, t') :: ms', f :: fs' =>
        (if m_ns m then false
         else if treated_optional h m && value_eqb f (member_default m t') then false
         else rec t' f) || fields_expose ms' fs'
    | _, _ => false
    end.
End NoneLoops.
Section NoneLoops2.
  Variable rec : ty -> value -> bool.
  Fixpoint payload_exposes (i : nat) (x : value) (vs : list (vhead * option ty)) (idx : nat) : bool :=
    match vs with
    | [] => false
    | (_, pt) :: vs' =>
        if Nat.eqb idx i then match pt with Some t' => rec t' x | None => false end
        else payload_exposes i x vs' (S idx)
    end.
End NoneLoops2.

Fixpoint exposes_none (t : ty) (v : value) {struct t} : bool :=
  match t with
  | TPrim _ | TString | TEnum _ => false
  | TVec e | TArr e _ => match v with VList l => existsb (exposes_none e) l | _ => false end
  | TOpt e => match v with VOpt None => true | VOpt (Some x) => exposes_none e x | _ => false end
  | TStruct h ms => match v with VStruct fs => fields_expose exposes_none h ms fs | _ => false end
  | TUnion h vs => match v with VUnion i (Some x) => payload_exposes exposes_none i x vs O | _ => false end
  end.

(* ------------------------------------------------- well-formed declarations *)

Fixpoint nodupb (l : list Z) : bool :=
  match l with [] => true | x :: r => negb (existsb (Z.eqb x) r) && nodupb r end.

Definition is_int_prim (p : prim) : bool :=
  match p with PI8 | PU8 | PI16 | PU16 | PI32 | PU32 | PI64 | PU64 => true | _ => false end.

(* the first label of every variant, as matched by create_sample *)
Fixpoint first_labels (idx : nat) (vs : list (vhead * option ty)) : list Z :=
  match vs with [] => [] | (v, _) :: r => hd 0 (variant_labels idx v) :: first_labels (S idx) r end.

(* a default variant may only be the last one (earlier `_ =>` arms shadow the rest) *)
Fixpoint default_only_last (vs : list (vhead * option ty)) : bool :=
  match vs with
  | [] => true
  | [_] => true
  | (v, _) :: r => negb (v_default v) && default_only_last r
  end.

Definition enum_ok (e : edecl) : bool :=
  let p := bits_prim (e_bits e) in
  forallb (fun d => (0 <=? d) && prim_ok p d) (enum_discs e) && nodupb (enum_discs e).

(* declarations on which the round trip is claimed: member ids pairwise distinct,
   enum discriminants distinct and within the bit bound, union first labels
   distinct, default variant last, only supported element types *)
Fixpoint wf_ty (t : ty) : bool :=
  match t with
  | TPrim _ | TString => true
  | TVec e | TArr e _ => elem_ok e && wf_ty e
  | TOpt e => wf_ty e
  | TStruct h ms => nodupb (struct_ids h (map fst ms)) && members_all wf_ty ms
  | TEnum e => enum_ok e
  | TUnion h vs => nodupb (first_labels 0 vs) && default_only_last vs && variants_all wf_ty vs
  end.
