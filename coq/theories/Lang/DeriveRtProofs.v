(* C40 — the round trip create_dynamic_sample / create_sample on the model. *)
From Coq Require Import Strings.String.
From DustDDS Require Import Base.Machine Lang.DeriveModel Lang.DeriveDescProofs.
Open Scope Z_scope.

(* ------------------------------------------------- induction principles *)

Section TyInd.
  Variable P : ty -> Prop.
  Hypothesis HPrim : forall p, P (TPrim p).
  Hypothesis HStr : P TString.
  Hypothesis HVec : forall e, P e -> P (TVec e).
  Hypothesis HArr : forall e n, P e -> P (TArr e n).
  Hypothesis HOpt : forall e, P e -> P (TOpt e).
  Hypothesis HStruct : forall h ms, Forall (fun m => P (snd m)) ms -> P (TStruct h ms).
  Hypothesis HEnum : forall e, P (TEnum e).
  Definition opt_P (o : option ty) : Prop := match o with Some t => P t | None => True end.
  Hypothesis HUnion : forall h vs, Forall (fun v => opt_P (snd v)) vs -> P (TUnion h vs).

  Fixpoint ty_ind' (t : ty) : P t :=
    match t with
    | TPrim p => HPrim p
    | TString => HStr
    | TVec e => HVec e (ty_ind' e)
    | TArr e n => HArr e n (ty_ind' e)
    | TOpt e => HOpt e (ty_ind' e)
    | TStruct h ms =>
        HStruct h ms
          ((fix go (ms : list (mhead * ty)) : Forall (fun m => P (snd m)) ms :=
              match ms with
              | [] => Forall_nil _
              | (m, t') :: r => Forall_cons (P := fun m => P (snd m)) (m, t') (ty_ind' t') (go r)
              end) ms)
    | TEnum e => HEnum e
    | TUnion h vs =>
        HUnion h vs
          ((fix go (vs : list (vhead * option ty)) : Forall (fun v => opt_P (snd v)) vs :=
              match vs with
              | [] => Forall_nil _
              | v :: r =>
                  Forall_cons (P := fun v => opt_P (snd v)) v
                    (match snd v as o' return opt_P o' with
                     | Some t => ty_ind' t
                     | None => I
                     end) (go r)
              end) vs)
    end.
End TyInd.

Section ValInd.
  Variable P : value -> Prop.
  Hypothesis HPrim : forall z, P (VPrim z).
  Hypothesis HStr : forall s, P (VStr s).
  Hypothesis HList : forall l, Forall P l -> P (VList l).
  Hypothesis HNone : P (VOpt None).
  Hypothesis HSome : forall x, P x -> P (VOpt (Some x)).
  Hypothesis HStruct : forall l, Forall P l -> P (VStruct l).
  Hypothesis HEnum : forall i, P (VEnum i).
  Hypothesis HUnionN : forall i, P (VUnion i None).
  Hypothesis HUnionS : forall i x, P x -> P (VUnion i (Some x)).

  Fixpoint value_ind' (v : value) : P v :=
    let fix go (l : list value) : Forall P l :=
      match l with [] => Forall_nil _ | x :: r => Forall_cons x (value_ind' x) (go r) end in
    match v with
    | VPrim z => HPrim z
    | VStr s => HStr s
    | VList l => HList l (go l)
    | VOpt None => HNone
    | VOpt (Some x) => HSome x (value_ind' x)
    | VStruct l => HStruct l (go l)
    | VEnum i => HEnum i
    | VUnion i None => HUnionN i
    | VUnion i (Some x) => HUnionS i x (value_ind' x)
    end.
End ValInd.

(* ------------------------------------------------------------ equalities *)

Lemma prim_eqb_refl : forall p, prim_eqb p p = true.
Proof. destruct p; reflexivity. Qed.

Lemma zlist_eqb_eq : forall a b, zlist_eqb a b = true -> a = b.
Proof.
  induction a as [|x a IH]; destruct b as [|y b]; cbn; intros H; try discriminate; [reflexivity|].
  apply andb_true_iff in H as [H1 H2]. apply Z.eqb_eq in H1. subst. f_equal. now apply IH.
Qed.

Lemma value_eqb_eq : forall a b, value_eqb a b = true -> a = b.
Proof.
  induction a using value_ind'; intros b E; destruct b as [z'|s'|l'|o'|l'|i'|i' p']; cbn in E; try discriminate.
  - apply Z.eqb_eq in E. now subst.
  - apply zlist_eqb_eq in E. now subst.
  - f_equal. revert l' E. induction H as [|x r Hx Hr IH]; intros [|y l'] E; try discriminate; [reflexivity|].
    apply andb_true_iff in E as [E1 E2]. f_equal; [now apply Hx|now apply IH].
  - destruct o'; [discriminate|reflexivity].
  - destruct o' as [y|]; [|discriminate]. f_equal. f_equal. now apply IHa.
  - f_equal. revert l' E. induction H as [|x r Hx Hr IH]; intros [|y l'] E; try discriminate; [reflexivity|].
    apply andb_true_iff in E as [E1 E2]. f_equal; [now apply Hx|now apply IH].
  - apply Nat.eqb_eq in E. now subst.
  - destruct p'; [discriminate|]. apply Nat.eqb_eq in E. now subst.
  - destruct p' as [y|]; [|discriminate]. apply andb_true_iff in E as [E1 E2].
    apply Nat.eqb_eq in E1. subst. f_equal. f_equal. now apply IHa.
Qed.

(* ----------------------------------------------------------- finite maps *)

Lemma dget_ddel : forall j k d, dget j (ddel k d) = if j =? k then None else dget j d.
Proof.
  intros j k d. unfold dget, ddel. induction d as [|[a s] r IH]; cbn [filter find fst snd].
  - now destruct (j =? k).
  - destruct (a =? k) eqn:Eak; cbn [negb].
    + rewrite IH. apply Z.eqb_eq in Eak. subst a. destruct (j =? k) eqn:Ejk; [reflexivity|].
      cbn [find fst]. rewrite Z.eqb_sym, Ejk. reflexivity.
    + cbn [find fst snd]. destruct (a =? j) eqn:Eaj.
      * apply Z.eqb_eq in Eaj. subst a. now rewrite Eak.
      * exact IH.
Qed.

Lemma dget_dset : forall j k s d, dget j (dset k s d) = if j =? k then Some s else dget j d.
Proof.
  intros. unfold dset. unfold dget at 1. cbn [find fst snd]. rewrite (Z.eqb_sym k j).
  destruct (j =? k) eqn:E; [reflexivity|]. fold (dget j (ddel k d)). now rewrite dget_ddel, E.
Qed.

Lemma dremove_spec : forall k d,
  dremove k d = match dget k d with Some s => Some (s, ddel k d) | None => None end.
Proof. reflexivity. Qed.

(* ------------------------------------------------------ primitive sequences *)

Lemma prims_of_map : forall l zs, prims_of l = Some zs -> map VPrim zs = l.
Proof.
  induction l as [|x r IH]; intros zs H; cbn in H.
  - injection H as <-. reflexivity.
  - destruct x; try discriminate. destruct (prims_of r) as [zs'|]; [|discriminate].
    injection H as <-. cbn. f_equal. now apply IH.
Qed.
Lemma strs_of_map : forall l ss, strs_of l = Some ss -> map VStr ss = l.
Proof.
  induction l as [|x r IH]; intros ss H; cbn in H.
  - injection H as <-. reflexivity.
  - destruct x; try discriminate. destruct (strs_of r) as [ss'|]; [|discriminate].
    injection H as <-. cbn. f_equal. now apply IH.
Qed.
Lemma prims_of_length : forall l zs, prims_of l = Some zs -> length zs = length l.
Proof. intros l zs H. apply prims_of_map in H. subst. apply eq_sym, map_length. Qed.
Lemma strs_of_length : forall l ss, strs_of l = Some ss -> length ss = length l.
Proof. intros l ss H. apply strs_of_map in H. subst. apply eq_sym, map_length. Qed.

(* ------------------------------------------------------------ the statement *)

Definition rt_at (t : ty) : Prop :=
  wf_ty t = true ->
  forall v s, has_type t v = true -> to_st t v = Ok s ->
    from_st t s = Ok (Some (erase_ns t v)).

(* sequences of user types *)
Lemma seq_rt : forall e, rt_at e -> wf_ty e = true ->
  forall l ss ds, forallb (has_type e) l = true ->
    seq_to (to_st e) l = Ok ss -> dyns_of ss = Some ds ->
    seq_from (from_st e) ds = Ok (Some (map (erase_ns e) l)).
Proof.
  intros e IH Hwf. induction l as [|x r IHl]; intros ss ds Ht Hto Hd; cbn [seq_to] in Hto.
  - injection Hto as <-. cbn in Hd. injection Hd as <-. reflexivity.
  - cbn [forallb] in Ht. apply andb_true_iff in Ht as [Hx Hr].
    destruct (to_st e x) as [s| |] eqn:Es; cbn [bind] in Hto; try discriminate.
    destruct (seq_to (to_st e) r) as [ss'| |] eqn:Er; cbn [bind] in Hto; try discriminate.
    injection Hto as <-. cbn [dyns_of] in Hd.
    destruct s as [| | | |d| |]; try discriminate.
    destruct (dyns_of ss') as [ds'|] eqn:Ed; [|discriminate]. injection Hd as <-.
    cbn [seq_from]. rewrite (IH Hwf x _ Hx Es). cbn [obind].
    rewrite (IHl ss' ds' Hr eq_refl Ed). reflexivity.
Qed.

Lemma seq_from_length : forall f ds l, seq_from f ds = Ok (Some l) -> length l = length ds.
Proof.
  induction ds as [|d r IH]; intros l H; cbn [seq_from] in H.
  - injection H as <-. reflexivity.
  - destruct (f (SComplex d)) as [[x|]| |]; cbn [obind] in H; try discriminate.
    destruct (seq_from f r) as [[xs|]| |]; cbn [obind] in H; try discriminate.
    injection H as <-. cbn. f_equal. now apply IH.
Qed.

Lemma erase_prim_elems : forall e l, is_complex e = false -> elem_ok e = true -> map (erase_ns e) l = l.
Proof.
  intros e l Hc He. destruct e; try discriminate; (rewrite <- (map_id l) at 2; apply map_ext; reflexivity).
Qed.

Lemma prim_seq_rt : forall e l s, elem_ok e = true -> is_complex e = false ->
  prim_seq_to e l = Ok s -> prim_seq_from e s = Ok (Some l).
Proof.
  intros e l s He Hc H. destruct e; try discriminate; cbn in H.
  - destruct (prims_of l) as [zs|] eqn:E; [|discriminate]. injection H as <-.
    cbn. rewrite prim_eqb_refl. now rewrite (prims_of_map _ _ E).
  - destruct (strs_of l) as [ss|] eqn:E; [|discriminate]. injection H as <-.
    cbn. now rewrite (strs_of_map _ _ E).
Qed.

(* the sequence part shared by Vec and arrays *)
Lemma elems_rt : forall e, rt_at e -> elem_ok e = true -> wf_ty e = true ->
  forall l s, forallb (has_type e) l = true ->
    (if is_complex e then
       ss <- seq_to (to_st e) l ;; match dyns_of ss with Some ds => Ok (SSeqComplex ds) | None => Err 2 end
     else prim_seq_to e l) = Ok s ->
    (if is_complex e then match s with SSeqComplex ds => seq_from (from_st e) ds | _ => Ok None end
     else prim_seq_from e s) = Ok (Some (map (erase_ns e) l)).
Proof.
  intros e IH He Hwf l s Ht H. destruct (is_complex e) eqn:Hc.
  - destruct (seq_to (to_st e) l) as [ss| |] eqn:Es; cbn [bind] in H; try discriminate.
    destruct (dyns_of ss) as [ds|] eqn:Ed; [|discriminate]. injection H as <-.
    eapply seq_rt; eassumption.
  - rewrite erase_prim_elems by assumption. now apply prim_seq_rt.
Qed.

(* ------------------------------------------------------------------ structs *)

Lemma struct_to_frame : forall h ms ids fs acc d,
  struct_to to_st h ms ids fs acc = Ok d ->
  forall j, ~ In j ids -> dget j d = dget j acc.
Proof.
  intros h. induction ms as [|[m t'] ms' IH]; intros ids fs acc d H j Hj.
  - destruct fs; cbn in H; [|destruct ids; discriminate]. destruct ids; injection H as <-; reflexivity.
  - destruct ids as [|id ids']; [discriminate|]. destruct fs as [|f fs']; [discriminate|].
    cbn [struct_to] in H.
    assert (Hj' : ~ In j ids') by (intro; apply Hj; now right).
    assert (Hne : j <> id) by (intro; apply Hj; now left).
    destruct (m_ns m); [now apply (IH _ _ _ _ H)|].
    destruct (treated_optional h m && value_eqb f (member_default m t')); [now apply (IH _ _ _ _ H)|].
    destruct (to_st t' f) as [s| |]; cbn [bind] in H; try discriminate.
    rewrite (IH _ _ _ _ H j Hj'), dget_dset. apply Z.eqb_neq in Hne. now rewrite Hne.
Qed.

Lemma struct_rt : forall h ms,
  Forall (fun m => rt_at (snd m)) ms ->
  members_all wf_ty ms = true ->
  forall ids fs acc d src,
    NoDup ids -> length ids = length ms ->
    fields_all has_type ms fs = true ->
    (forall j, In j ids -> dget j acc = None) ->
    struct_to to_st h ms ids fs acc = Ok d ->
    (forall j, In j ids -> dget j src = dget j d) ->
    struct_from from_st h ms ids src = Ok (Some (erase_fields erase_ns h ms fs)).
Proof.
  intros h. induction ms as [|[m t'] ms' IH]; intros HP Hwf ids fs acc d src Hnd Hlen Hty Hacc Hto Hsrc.
  - destruct fs; [reflexivity|discriminate].
  - destruct ids as [|id ids']; [discriminate|]. destruct fs as [|f fs']; [discriminate|].
    inversion HP as [|? ? HPm HPr]; subst. cbn [snd] in HPm.
    cbn [members_all] in Hwf. apply andb_true_iff in Hwf as [Hwm Hwr].
    inversion Hnd as [|? ? Hnin Hnd']; subst.
    cbn [length] in Hlen. injection Hlen as Hlen.
    cbn [fields_all] in Hty. apply andb_true_iff in Hty as [Htf Htr].
    cbn [struct_to] in Hto. cbn [struct_from erase_fields].
    assert (Hacc' : forall j, In j ids' -> dget j acc = None) by (intros; apply Hacc; now right).
    assert (Hsrc' : forall j, In j ids' -> dget j src = dget j d) by (intros; apply Hsrc; now right).
    assert (Hdel : forall j, In j ids' -> dget j (ddel id src) = dget j d).
    { intros j Hj. rewrite dget_ddel. destruct (j =? id) eqn:E.
      - apply Z.eqb_eq in E. subst. contradiction.
      - now apply Hsrc'. }
    destruct (m_ns m) eqn:Hns.
    { rewrite (IH HPr Hwr ids' fs' acc d src Hnd' Hlen Htr Hacc' Hto Hsrc'). reflexivity. }
    destruct (treated_optional h m) eqn:Hopt; cbn [andb] in *.
    + destruct (value_eqb f (member_default m t')) eqn:Heq.
      * (* skipped: equal to its default *)
        assert (Hnone : dget id src = None).
        { rewrite Hsrc by now left. rewrite (struct_to_frame _ _ _ _ _ _ Hto id Hnin). apply Hacc. now left. }
        rewrite dremove_spec, Hnone.
        rewrite (IH HPr Hwr ids' fs' acc d src Hnd' Hlen Htr Hacc' Hto Hsrc'). cbn [obind].
        apply value_eqb_eq in Heq. now rewrite <- Heq.
      * destruct (to_st t' f) as [s| |] eqn:Es; cbn [bind] in Hto; try discriminate.
        assert (Hsome : dget id src = Some s).
        { rewrite Hsrc by now left. rewrite (struct_to_frame _ _ _ _ _ _ Hto id Hnin), dget_dset, Z.eqb_refl. reflexivity. }
        assert (Hacc2 : forall j, In j ids' -> dget j (dset id s acc) = None).
        { intros j Hj. rewrite dget_dset. destruct (j =? id) eqn:E; [|now apply Hacc'].
          apply Z.eqb_eq in E. subst. contradiction. }
        rewrite dremove_spec, Hsome. rewrite (HPm Hwm f s Htf Es). cbn [obind].
        rewrite (IH HPr Hwr ids' fs' (dset id s acc) d (ddel id src) Hnd' Hlen Htr Hacc2 Hto Hdel). reflexivity.
    + destruct (to_st t' f) as [s| |] eqn:Es; cbn [bind] in Hto; try discriminate.
      assert (Hsome : dget id src = Some s).
      { rewrite Hsrc by now left. rewrite (struct_to_frame _ _ _ _ _ _ Hto id Hnin), dget_dset, Z.eqb_refl. reflexivity. }
      assert (Hrest : struct_from from_st h ms' ids' (ddel id src) = Ok (Some (erase_fields erase_ns h ms' fs'))).
      { apply (IH HPr Hwr ids' fs' (dset id s acc) d (ddel id src) Hnd' Hlen Htr); [|exact Hto|exact Hdel].
        intros j Hj. rewrite dget_dset. destruct (j =? id) eqn:E; [|now apply Hacc'].
        apply Z.eqb_eq in E. subst. contradiction. }
      rewrite dremove_spec, Hsome, (HPm Hwm f s Htf Es).
      destruct (m_tc m) as [[| |]|]; cbn [obind]; rewrite Hrest; reflexivity.
Qed.

(* -------------------------------------------------------------------- enums *)

Lemma find_index_nodup : forall (l : list Z) i d k,
  NoDup l -> nth_error l i = Some d ->
  find_index (fun x => x =? d) k l = Some (k + i)%nat.
Proof.
  induction l as [|x r IH]; intros i d k Hnd Hn; [destruct i; discriminate|].
  inversion Hnd as [|? ? Hx Hr]; subst. destruct i as [|i]; cbn [nth_error] in Hn; cbn [find_index].
  - injection Hn as ->. rewrite Z.eqb_refl. now rewrite Nat.add_0_r.
  - destruct (x =? d) eqn:E.
    + apply Z.eqb_eq in E. subst. exfalso. apply Hx. eapply nth_error_In; eassumption.
    + rewrite (IH i d (S k) Hr Hn). f_equal. lia.
Qed.

Lemma find_index_ext : forall {A} (f g : A -> bool) l k,
  (forall x, In x l -> f x = g x) -> find_index f k l = find_index g k l.
Proof.
  induction l as [|x r IH]; intros k H; [reflexivity|]. cbn [find_index].
  rewrite (H x) by now left. destruct (g x); [reflexivity|]. apply IH. intros; apply H; now right.
Qed.

Lemma wrap_prim_id : forall b d, 0 <= d -> prim_ok (bits_prim b) d = true -> wrap_prim (bits_prim b) d = d.
Proof.
  intros b d H0 H. destruct b; cbn in *; unfold wrap_i8, wrap_i16, wrap_i32, in_i32b, i32_min, i32_max, two32 in *;
    apply andb_true_iff in H as [H1 H2]; apply Z.leb_le in H1, H2.
  - rewrite Z.mod_small by lia. lia.
  - rewrite Z.mod_small by lia. lia.
  - rewrite Z.mod_small by lia. lia.
Qed.

Lemma enum_range_u32 : forall b d, 0 <= d -> prim_ok (bits_prim b) d = true -> wrap_u32 d = d.
Proof.
  intros b d H0 H. unfold wrap_u32, two32.
  destruct b; cbn in H; unfold in_i32b, i32_min, i32_max in *;
    apply andb_true_iff in H as [H1 H2]; apply Z.leb_le in H1, H2; rewrite Z.mod_small; lia.
Qed.

Lemma enum_rt : forall e, rt_at (TEnum e).
Proof.
  intros e Hwf v s Ht Hto. cbn [wf_ty] in Hwf. unfold enum_ok in Hwf.
  apply andb_true_iff in Hwf as [Hrange Hnd]. apply nodupb_NoDup in Hnd.
  rewrite forallb_forall in Hrange.
  destruct v; try discriminate. cbn [to_st] in Hto.
  destruct (nth_error (enum_discs e) i) as [d|] eqn:En; [|discriminate]. injection Hto as <-.
  assert (Hd := Hrange d (nth_error_In _ _ En)). apply andb_true_iff in Hd as [Hd0 Hdp]. apply Z.leb_le in Hd0.
  cbn [from_st erase_ns]. unfold dget. cbn [find fst snd]. rewrite Z.eqb_refl. cbn [snd]. rewrite prim_eqb_refl.
  rewrite (wrap_prim_id _ _ Hd0 Hdp).
  rewrite (find_index_ext _ (fun x => x =? d)).
  - rewrite (find_index_nodup _ i d 0%nat Hnd En). reflexivity.
  - intros x Hx. specialize (Hrange x Hx). apply andb_true_iff in Hrange as [Hx0 Hxp]. apply Z.leb_le in Hx0.
    now rewrite (enum_range_u32 _ _ Hx0 Hxp).
Qed.

(* ------------------------------------------------------------------- unions *)

Lemma first_labels_nth : forall vs idx k vh pt,
  nth_error vs k = Some (vh, pt) ->
  nth_error (first_labels idx vs) k = Some (hd 0 (variant_labels (idx + k) vh)).
Proof.
  induction vs as [|[v p] r IH]; intros idx k vh pt H; [destruct k; discriminate|].
  destruct k as [|k]; cbn [nth_error first_labels] in *.
  - injection H as -> ->. now rewrite Nat.add_0_r.
  - rewrite (IH (S idx) k vh pt H). do 3 f_equal. lia.
Qed.

Lemma default_only_last_head : forall v p r, r <> [] -> default_only_last ((v, p) :: r) = true ->
  v_default v = false /\ default_only_last r = true.
Proof.
  intros v p r Hr H. destruct r as [|x r]; [congruence|]. cbn [default_only_last] in H.
  apply andb_true_iff in H as [H1 H2]. apply negb_true_iff in H1. now split.
Qed.

(* create_sample picks the variant that create_dynamic_sample wrote *)
Lemma union_rt : forall dp vs,
  Forall (fun v => match snd v with Some t => rt_at t | None => True end) vs ->
  variants_all wf_ty vs = true ->
  forall idx i p d,
    NoDup (first_labels idx vs) -> default_only_last vs = true ->
    (idx <= i)%nat ->
    variant_payload has_type i p vs idx = true ->
    union_to to_st dp i p vs idx = Ok d ->
    exists z, dget 0 d = Some (SPrim dp z) /\
      union_from from_st z (ddel 0 d) vs idx =
      Ok (Some (match p with Some x => erase_payload erase_ns i x vs idx | None => VUnion i None end)).
Proof.
  intros dp. induction vs as [|[vh pt] r IH]; intros HP Hwf idx i p d Hnd Hdl Hle Hty Hto; [discriminate|].
  inversion HP as [|? ? HPv HPr]; subst. cbn [snd] in HPv.
  cbn [variant_payload] in Hty. cbn [union_to] in Hto. cbn [first_labels] in Hnd.
  inversion Hnd as [|? ? Hnin Hnd']; subst.
  destruct (Nat.eqb idx i) eqn:Ei.
  - apply Nat.eqb_eq in Ei. subst i.
    set (lbl := hd 0 (variant_labels idx vh)) in *.
    destruct pt as [t'|]; destruct p as [x|]; try discriminate.
    + cbn [variants_all] in Hwf. apply andb_true_iff in Hwf as [Hwt _].
      destruct (to_st t' x) as [s| |] eqn:Es; cbn [bind] in Hto; try discriminate.
      assert (Hd : d = dset (Z.of_nat (S idx)) s [(0, SPrim dp lbl)]) by congruence. subst d. clear Hto.
      exists lbl. split.
      * rewrite dget_dset. destruct (0 =? Z.of_nat (S idx)) eqn:E; [apply Z.eqb_eq in E; lia|]. unfold dget. cbn. reflexivity.
      * cbn [union_from erase_payload]. fold lbl. rewrite Z.eqb_refl, orb_true_r, Nat.eqb_refl.
        assert (Hg : dget (Z.of_nat (S idx)) (ddel 0 (dset (Z.of_nat (S idx)) s [(0, SPrim dp lbl)])) = Some s).
        { rewrite dget_ddel. destruct (Z.of_nat (S idx) =? 0) eqn:E; [apply Z.eqb_eq in E; lia|].
          rewrite dget_dset, Z.eqb_refl. reflexivity. }
        rewrite dremove_spec, Hg, (HPv Hwt x s Hty Es).
        destruct (v_field vh); reflexivity.
    + injection Hto as <-. exists lbl. split; [reflexivity|].
      cbn [union_from]. fold lbl. rewrite Z.eqb_refl, orb_true_r. reflexivity.
  - apply Nat.eqb_neq in Ei.
    assert (Hr : r <> []) by (intro; subst; discriminate).
    destruct (default_only_last_head _ _ _ Hr Hdl) as [Hnd0 Hdl'].
    assert (Hwr : variants_all wf_ty r = true).
    { cbn [variants_all] in Hwf. destruct pt; [apply andb_true_iff in Hwf as [_ Hwf]|]; exact Hwf. }
    destruct (IH HPr Hwr (S idx) i p d Hnd' Hdl' ltac:(lia) Hty Hto) as [z [Hz Hfrom]].
    exists z. split; [exact Hz|].
    cbn [union_from]. rewrite Hnd0. cbn [orb].
    (* the label written belongs to a later variant, hence differs from this one *)
    assert (Hzin : In z (first_labels (S idx) r)).
    { clear - Hto Hz Hle Ei. revert idx d Hto Hz Hle Ei. induction r as [|[v q] r IHr]; intros idx d Hto Hz Hle Ei; [discriminate|].
      cbn [union_to] in Hto. cbn [first_labels].
      destruct (Nat.eqb (S idx) i) eqn:E.
      - left. destruct q as [t'|]; destruct p as [x|]; try discriminate.
        + destruct (to_st t' x) as [s| |]; cbn [bind] in Hto; try discriminate. injection Hto as <-.
          rewrite dget_dset in Hz. destruct (0 =? Z.of_nat (S (S idx))) eqn:E0; [apply Z.eqb_eq in E0; lia|].
          unfold dget in Hz. cbn in Hz. now injection Hz.
        + injection Hto as <-. unfold dget in Hz. cbn in Hz. now injection Hz.
      - right. apply Nat.eqb_neq in E. apply (IHr (S idx) d Hto Hz); lia. }
    destruct (hd 0 (variant_labels idx vh) =? z) eqn:E.
    + apply Z.eqb_eq in E. subst z. contradiction.
    + assert (Hp : forall x, erase_payload erase_ns i x ((vh, pt) :: r) idx = erase_payload erase_ns i x r (S idx)).
      { intro x. cbn [erase_payload]. apply Nat.eqb_neq in Ei. now rewrite Ei. }
      destruct p; [rewrite Hp|]; exact Hfrom.
Qed.

(* -------------------------------------------------------------- main lemma *)

Lemma rt_all : forall t, rt_at t.
Proof.
  induction t using ty_ind'; unfold rt_at; intros Hwf v s Ht Hto.
  - (* TPrim *)
    destruct v; try discriminate. cbn in Hto. injection Hto as <-. cbn. now rewrite prim_eqb_refl.
  - destruct v; try discriminate. cbn in Hto. injection Hto as <-. reflexivity.
  - (* TVec *)
    cbn [wf_ty] in Hwf. apply andb_true_iff in Hwf as [He Hwe].
    destruct v; try discriminate. cbn [has_type] in Ht. cbn [to_st] in Hto. cbn [from_st erase_ns].
    rewrite (elems_rt t IHt He Hwe l s Ht Hto). reflexivity.
  - (* TArr *)
    cbn [wf_ty] in Hwf. apply andb_true_iff in Hwf as [He Hwe].
    destruct v; try discriminate. cbn [has_type] in Ht. apply andb_true_iff in Ht as [Hn Ht].
    cbn [to_st] in Hto. rewrite Hn in Hto. cbn [negb] in Hto. cbn [from_st erase_ns].
    rewrite (elems_rt t IHt He Hwe l s Ht Hto). cbn [obind]. rewrite map_length, Hn. reflexivity.
  - (* TOpt *)
    cbn [wf_ty] in Hwf. destruct v as [| | |[x|]| | |]; try discriminate.
    cbn [has_type] in Ht. cbn [to_st] in Hto. cbn [from_st erase_ns].
    rewrite (IHt Hwf x s Ht Hto). reflexivity.
  - (* TStruct *)
    cbn [wf_ty] in Hwf. apply andb_true_iff in Hwf as [Hnd Hwm]. apply nodupb_NoDup in Hnd.
    destruct v; try discriminate. cbn [has_type] in Ht. cbn [to_st] in Hto.
    destruct (struct_to to_st h ms (struct_ids h (map fst ms)) fs []) as [d| |] eqn:Ed; cbn [bind] in Hto; try discriminate.
    injection Hto as <-. cbn [from_st erase_ns].
    erewrite struct_rt; try eassumption; try reflexivity.
    rewrite struct_ids_length. apply map_length.
  - (* TEnum *)
    now apply enum_rt.
  - (* TUnion *)
    cbn [wf_ty] in Hwf. apply andb_true_iff in Hwf as [Hwf Hwv]. apply andb_true_iff in Hwf as [Hnd Hdl].
    apply nodupb_NoDup in Hnd.
    destruct v; try discriminate. cbn [has_type] in Ht. cbn [to_st] in Hto.
    destruct (union_to to_st (u_disc h) i p vs 0) as [d| |] eqn:Ed; cbn [bind] in Hto; try discriminate.
    injection Hto as <-.
    destruct (union_rt (u_disc h) vs H Hwv 0%nat i p d Hnd Hdl ltac:(lia) Ht Ed) as [z [Hz Hfrom]].
    cbn [from_st]. rewrite dremove_spec, Hz, prim_eqb_refl, Hfrom.
    destruct p; reflexivity.
Qed.

(* ------------------------------------------------------------- the theorems *)

(* create_sample (create_dynamic_sample v) = Some v, up to non_serialized members *)
Theorem derive_roundtrip_gen : forall t v d,
  wf_ty t = true -> has_type t v = true ->
  to_dyn t v = Ok d -> from_dyn t d = Ok (Some (erase_ns t v)).
Proof.
  intros t v d Hwf Ht H. unfold to_dyn in H.
  destruct (to_st t v) as [s| |] eqn:Es; cbn [bind] in H; try discriminate.
  destruct s; try discriminate. injection H as <-.
  unfold from_dyn. now apply (rt_all t Hwf v).
Qed.

(* erase_ns only touches non_serialized members *)
Lemma erase_fields_id : forall h ms fs,
  Forall (fun m => no_ns (snd m) = true -> forall v, has_type (snd m) v = true -> erase_ns (snd m) v = v) ms ->
  forallb (fun m => negb (m_ns (fst m))) ms = true -> members_all no_ns ms = true ->
  fields_all has_type ms fs = true ->
  erase_fields erase_ns h ms fs = fs.
Proof.
  intros h. induction ms as [|[m t'] r IH]; intros fs HP Hn Hm Ht; [destruct fs; reflexivity|].
  destruct fs as [|f fs]; [discriminate|].
  inversion HP as [|? ? HPm HPr]; subst. cbn [snd fst] in *.
  cbn [forallb fst] in Hn. apply andb_true_iff in Hn as [Hn1 Hn2]. apply negb_true_iff in Hn1.
  cbn [members_all] in Hm. apply andb_true_iff in Hm as [Hm1 Hm2].
  cbn [fields_all] in Ht. apply andb_true_iff in Ht as [Ht1 Ht2].
  cbn [erase_fields]. rewrite Hn1, (IH fs HPr Hn2 Hm2 Ht2).
  destruct (treated_optional h m && value_eqb f (member_default m t')); [reflexivity|].
  now rewrite (HPm Hm1 f Ht1).
Qed.

Lemma erase_payload_id : forall vs i x idx,
  Forall (fun v => match snd v with
                   | Some t => no_ns t = true -> forall v, has_type t v = true -> erase_ns t v = v
                   | None => True end) vs ->
  variants_all no_ns vs = true ->
  variant_payload has_type i (Some x) vs idx = true ->
  erase_payload erase_ns i x vs idx = VUnion i (Some x).
Proof.
  induction vs as [|[vh pt] r IH]; intros i x idx HP Hn Ht; [reflexivity|].
  inversion HP as [|? ? HPv HPr]; subst. cbn [snd] in HPv.
  cbn [erase_payload]. cbn [variant_payload] in Ht.
  destruct (Nat.eqb idx i).
  - destruct pt as [t'|]; [|reflexivity]. cbn [variants_all] in Hn. apply andb_true_iff in Hn as [Hn1 _].
    now rewrite (HPv Hn1 x Ht).
  - apply IH; try assumption. cbn [variants_all] in Hn. destruct pt; [apply andb_true_iff in Hn as [_ Hn]|]; exact Hn.
Qed.

Lemma erase_ns_id : forall t, no_ns t = true -> forall v, has_type t v = true -> erase_ns t v = v.
Proof.
  induction t using ty_ind'; intros Hn v Ht; try reflexivity.
  - destruct v; try reflexivity. cbn [erase_ns]. f_equal. cbn [has_type] in Ht. cbn [no_ns] in Hn.
    rewrite forallb_forall in Ht. rewrite <- (map_id l) at 2. apply map_ext_in. intros x Hx. apply IHt; auto.
  - destruct v; try reflexivity. cbn [erase_ns]. f_equal. cbn [has_type] in Ht. cbn [no_ns] in Hn.
    apply andb_true_iff in Ht as [_ Ht].
    rewrite forallb_forall in Ht. rewrite <- (map_id l) at 2. apply map_ext_in. intros x Hx. apply IHt; auto.
  - destruct v as [| | |[x|]| | |]; try reflexivity. cbn [erase_ns]. do 2 f_equal. now apply IHt.
  - destruct v; try reflexivity. cbn [erase_ns]. f_equal. cbn [no_ns] in Hn. apply andb_true_iff in Hn as [Hn1 Hn2].
    now apply erase_fields_id.
  - destruct v as [| | | | | |i [x|]]; try reflexivity. cbn [erase_ns]. now apply erase_payload_id.
Qed.

(* the property as stated: converting a value to dynamic data and back yields an
   equal value (declarations without non_serialized members) *)
Theorem derive_roundtrip : forall t v d,
  wf_ty t = true -> no_ns t = true -> has_type t v = true ->
  to_dyn t v = Ok d -> from_dyn t d = Ok (Some v).
Proof.
  intros t v d Hwf Hn Ht H. rewrite (derive_roundtrip_gen t v d Hwf Ht H). now rewrite erase_ns_id.
Qed.

(* ------------------------------------------ when does create_dynamic_sample panic *)

Definition total_at (t : ty) : Prop :=
  wf_ty t = true -> forall v, has_type t v = true ->
    if exposes_none t v then to_st t v = Panic 1
    else exists s, to_st t v = Ok s /\ (is_complex t = true -> exists d, s = SComplex d).

Lemma prims_of_typed : forall p l, forallb (has_type (TPrim p)) l = true -> exists zs, prims_of l = Some zs.
Proof.
  induction l as [|x r IH]; intros H; [now exists []|].
  cbn [forallb] in H. apply andb_true_iff in H as [Hx Hr]. destruct x; try discriminate.
  destruct (IH Hr) as [zs E]. exists (z :: zs). cbn. now rewrite E.
Qed.
Lemma strs_of_typed : forall l, forallb (has_type TString) l = true -> exists ss, strs_of l = Some ss.
Proof.
  induction l as [|x r IH]; intros H; [now exists []|].
  cbn [forallb] in H. apply andb_true_iff in H as [Hx Hr]. destruct x; try discriminate.
  destruct (IH Hr) as [ss E]. exists (s :: ss). cbn. now rewrite E.
Qed.

Lemma seq_total : forall e, total_at e -> wf_ty e = true -> is_complex e = true ->
  forall l, forallb (has_type e) l = true ->
    if existsb (exposes_none e) l then seq_to (to_st e) l = Panic 1
    else exists ss ds, seq_to (to_st e) l = Ok ss /\ dyns_of ss = Some ds.
Proof.
  intros e IH Hwf Hc. induction l as [|x r IHl]; intros Ht; [now exists [], []|].
  cbn [forallb] in Ht. apply andb_true_iff in Ht as [Hx Hr].
  cbn [existsb seq_to]. specialize (IH Hwf x Hx). specialize (IHl Hr).
  destruct (exposes_none e x).
  - rewrite IH. reflexivity.
  - destruct IH as [s [Es Hs]]. destruct (Hs Hc) as [d ->]. rewrite Es. cbn [bind orb].
    destruct (existsb (exposes_none e) r).
    + now rewrite IHl.
    + destruct IHl as [ss [ds [E1 E2]]]. exists (SComplex d :: ss), (d :: ds). rewrite E1. cbn. now rewrite E2.
Qed.

Lemma elems_total : forall e, total_at e -> elem_ok e = true -> wf_ty e = true ->
  forall l, forallb (has_type e) l = true ->
    if existsb (exposes_none e) l then
      (if is_complex e then
         ss <- seq_to (to_st e) l ;; match dyns_of ss with Some ds => Ok (SSeqComplex ds) | None => Err 2 end
       else prim_seq_to e l) = Panic 1
    else exists s,
      (if is_complex e then
         ss <- seq_to (to_st e) l ;; match dyns_of ss with Some ds => Ok (SSeqComplex ds) | None => Err 2 end
       else prim_seq_to e l) = Ok s.
Proof.
  intros e IH He Hwf l Ht. destruct (is_complex e) eqn:Hc.
  - assert (H := seq_total e IH Hwf Hc l Ht). destruct (existsb (exposes_none e) l).
    + now rewrite H.
    + destruct H as [ss [ds [E1 E2]]]. rewrite E1. cbn [bind]. rewrite E2. eauto.
  - assert (Hno : existsb (exposes_none e) l = false).
    { destruct e; try discriminate;
        (induction l as [|a r IHr]; [reflexivity|]; cbn [forallb] in Ht; apply andb_true_iff in Ht as [_ Ht];
         cbn [existsb exposes_none orb]; exact (IHr Ht)). }
    rewrite Hno. destruct e; try discriminate; cbn [prim_seq_to].
    + destruct (prims_of_typed p l Ht) as [zs ->]. eauto.
    + destruct (strs_of_typed l Ht) as [ss ->]. eauto.
Qed.

Lemma struct_total : forall h ms,
  Forall (fun m => total_at (snd m)) ms -> members_all wf_ty ms = true ->
  forall ids fs acc, length ids = length ms -> fields_all has_type ms fs = true ->
    if fields_expose exposes_none h ms fs then struct_to to_st h ms ids fs acc = Panic 1
    else exists d, struct_to to_st h ms ids fs acc = Ok d.
Proof.
  intros h. induction ms as [|[m t'] r IH]; intros HP Hwf ids fs acc Hlen Ht.
  - destruct fs; [|discriminate]. cbn. eauto.
  - destruct ids as [|id ids]; [discriminate|]. destruct fs as [|f fs]; [discriminate|].
    inversion HP as [|? ? HPm HPr]; subst. cbn [snd] in HPm.
    cbn [members_all] in Hwf. apply andb_true_iff in Hwf as [Hwm Hwr].
    cbn [length] in Hlen. injection Hlen as Hlen.
    cbn [fields_all] in Ht. apply andb_true_iff in Ht as [Htf Htr].
    cbn [fields_expose struct_to].
    destruct (m_ns m); [cbn [orb]; now apply IH|].
    destruct (treated_optional h m && value_eqb f (member_default m t')); [cbn [orb]; now apply IH|].
    specialize (HPm Hwm f Htf). destruct (exposes_none t' f).
    + now rewrite HPm.
    + destruct HPm as [s [Es _]]. rewrite Es. cbn [bind orb]. now apply IH.
Qed.

Lemma union_total : forall dp vs,
  Forall (fun v => opt_P total_at (snd v)) vs -> variants_all wf_ty vs = true ->
  forall idx i p, variant_payload has_type i p vs idx = true ->
    if match p with Some x => payload_exposes exposes_none i x vs idx | None => false end
    then union_to to_st dp i p vs idx = Panic 1
    else exists d, union_to to_st dp i p vs idx = Ok d.
Proof.
  intros dp. induction vs as [|[vh pt] r IH]; intros HP Hwf idx i p Ht; [discriminate|].
  inversion HP as [|? ? HPv HPr]; subst. cbn [snd opt_P] in HPv.
  cbn [variant_payload] in Ht. cbn [union_to payload_exposes].
  assert (Hwr : variants_all wf_ty r = true).
  { cbn [variants_all] in Hwf. destruct pt; [apply andb_true_iff in Hwf as [_ Hwf]|]; exact Hwf. }
  destruct (Nat.eqb idx i).
  - destruct pt as [t'|]; destruct p as [x|]; try discriminate.
    + cbn [variants_all] in Hwf. apply andb_true_iff in Hwf as [Hwt _].
      specialize (HPv Hwt x Ht). destruct (exposes_none t' x).
      * now rewrite HPv.
      * destruct HPv as [s [Es _]]. rewrite Es. cbn [bind]. eauto.
    + eauto.
  - specialize (IH HPr Hwr (S idx) i p Ht). destruct p; exact IH.
Qed.

Lemma enum_discs_from_length : forall vs z, length (enum_discs_from z vs) = length vs.
Proof.
  induction vs as [|[n o] r IH]; intros z; [reflexivity|]. cbn [enum_discs_from length]. cbv zeta. cbn [length].
  now rewrite IH.
Qed.

Lemma total_all : forall t, total_at t.
Proof.
  induction t using ty_ind'; unfold total_at; intros Hwf v Ht.
  - destruct v; try discriminate. cbn. eexists; split; [reflexivity|discriminate].
  - destruct v; try discriminate. cbn. eexists; split; [reflexivity|discriminate].
  - cbn [wf_ty] in Hwf. apply andb_true_iff in Hwf as [He Hwe].
    destruct v; try discriminate. cbn [has_type] in Ht. cbn [exposes_none to_st].
    assert (H := elems_total t IHt He Hwe l Ht). destruct (existsb (exposes_none t) l).
    + exact H.
    + destruct H as [s Hs]. exists s. split; [exact Hs|discriminate].
  - cbn [wf_ty] in Hwf. apply andb_true_iff in Hwf as [He Hwe].
    destruct v; try discriminate. cbn [has_type] in Ht. apply andb_true_iff in Ht as [Hn Ht].
    cbn [exposes_none to_st]. rewrite Hn. cbn [negb].
    assert (H := elems_total t IHt He Hwe l Ht). destruct (existsb (exposes_none t) l).
    + exact H.
    + destruct H as [s Hs]. exists s. split; [exact Hs|discriminate].
  - cbn [wf_ty] in Hwf. destruct v as [| | |[x|]| | |]; try discriminate; cbn [exposes_none to_st]; [|reflexivity].
    cbn [has_type] in Ht. specialize (IHt Hwf x Ht). destruct (exposes_none t x); [exact IHt|].
    destruct IHt as [s [Es _]]. exists s. split; [exact Es|discriminate].
  - cbn [wf_ty] in Hwf. apply andb_true_iff in Hwf as [_ Hwm].
    destruct v; try discriminate. cbn [has_type] in Ht. cbn [exposes_none to_st].
    assert (Hl : length (struct_ids h (map fst ms)) = length ms) by (rewrite struct_ids_length; apply map_length).
    assert (Hs := struct_total h ms H Hwm _ fs [] Hl Ht).
    destruct (fields_expose exposes_none h ms fs).
    + now rewrite Hs.
    + destruct Hs as [d Hd]. rewrite Hd. cbn [bind]. eexists; split; [reflexivity|]. eauto.
  - destruct v; try discriminate. cbn [has_type] in Ht. apply Nat.ltb_lt in Ht.
    cbn [exposes_none to_st].
    assert (Hlen : length (enum_discs e) = length (e_variants e)) by apply enum_discs_from_length.
    destruct (nth_error (enum_discs e) i) eqn:En.
    + eexists; split; [reflexivity|]. eauto.
    + apply nth_error_None in En. lia.
  - cbn [wf_ty] in Hwf. apply andb_true_iff in Hwf as [_ Hwv].
    destruct v; try discriminate. cbn [has_type] in Ht. cbn [exposes_none to_st].
    assert (Hu := union_total (u_disc h) vs H Hwv 0%nat i p Ht).
    destruct p as [x|].
    + destruct (payload_exposes exposes_none i x vs 0).
      * now rewrite Hu.
      * destruct Hu as [d Hd]. rewrite Hd. cbn [bind]. eexists; split; [reflexivity|]. eauto.
    + destruct Hu as [d Hd]. rewrite Hd. cbn [bind]. eexists; split; [reflexivity|]. eauto.
Qed.

(* the complete behaviour of the round trip on well-formed declarations: it panics
   exactly on the documented `None` case, and otherwise returns the value *)
Theorem derive_roundtrip_total : forall t v,
  wf_ty t = true -> is_complex t = true -> has_type t v = true ->
  roundtrip t v = if exposes_none t v then Panic 1 else Ok (Some (erase_ns t v)).
Proof.
  intros t v Hwf Hc Ht. unfold roundtrip.
  assert (H := total_all t Hwf v Ht). destruct (exposes_none t v).
  - unfold to_dyn. now rewrite H.
  - destruct H as [s [Es Hs]]. destruct (Hs Hc) as [d ->].
    assert (Hd : to_dyn t v = Ok d) by (unfold to_dyn; now rewrite Es).
    rewrite Hd. cbn [bind]. now apply derive_roundtrip_gen.
Qed.

(* ------------------------------------------------------- refutation witnesses *)

(* class 5: a default variant that is not the last one shadows the later arms *)
Definition deffirst : ty :=
  TUnion (mkU "DefFirst" None Final false false PI32)
         [(mkV "A" [] true None, Some (TPrim PI32)); (mkV "B" [5] false None, Some (TPrim PI64))].
Lemma default_not_last_refuted :
  has_type deffirst (VUnion 1 (Some (VPrim 2))) = true /\ roundtrip deffirst (VUnion 1 (Some (VPrim 2))) = Ok None.
Proof. split; reflexivity. Qed.

(* class 5: the implicit label index + 1 collides with an explicit one; a named
   field then makes create_sample panic *)
Definition collide : ty :=
  TUnion (mkU "Collide" None Final false true PU8)
         [(mkV "A" [] false None, Some (TPrim PI32)); (mkV "B" [1] false (Some "x"%string), Some (TPrim PI64))].
Lemma label_clash_refuted :
  roundtrip collide (VUnion 1 (Some (VPrim 2))) = Ok None /\
  roundtrip (TUnion (mkU "Collide" None Final false true PU8)
              [(mkV "A" [] false (Some "x"%string), Some (TPrim PI32)); (mkV "B" [1] false None, Some (TPrim PI64))])
            (VUnion 1 (Some (VPrim 2))) = Panic 2.
Proof. split; reflexivity. Qed.

(* a non_serialized member does not come back *)
Lemma non_serialized_lost :
  roundtrip (TStruct (mkS "S" None Final false false)
               [(mkM "a" None false false true false None None, TPrim PI32)]) (VStruct [VPrim 7])
  = Ok (Some (VStruct [VPrim 0])).
Proof. reflexivity. Qed.
