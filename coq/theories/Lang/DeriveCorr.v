(* Correspondence vocabulary for C40: one case = one generated type declaration,
   the descriptor the real `<T as Type>::TYPE` printed for it, and for a few values
   of the type the real create_dynamic_sample dump and create_sample result.
   Model comparison and property oracle are evaluated inside Coq. *)
From Coq Require Export Strings.String.
From DustDDS Require Export Base.Machine Lang.DeriveModel.
From DustDDS Require KeyHash.Md5Model.
Open Scope Z_scope.

Record C40_rt : Type := mkRT {
  rt_v : value;                      (* the value handed to create_dynamic_sample *)
  rt_mut : option (bool * Z);        (* the DynamicData is damaged before create_sample:
                                        (true, id) member id removed, (false, id) replaced by a foreign storage *)
  rt_dyn : res dyn;                  (* dump of the DynamicData (sorted by member id) or Panic *)
  rt_back : res (option value);      (* create_sample of that DynamicData *)
  rt_ser : bool;                     (* the DynamicData was accepted by the XCDR1 and XCDR2 serializers *)
}.

Record C40_case : Type := mkC40 {
  c_ty : ty;
  c_desc : tdesc;
  c_rts : list C40_rt;
}.

(* ------------------------------------------------------------ comparisons *)

Definition opt_eqb {A} (f : A -> A -> bool) (a b : option A) : bool :=
  match a, b with Some x, Some y => f x y | None, None => true | _, _ => false end.

Fixpoint tsig_eqb (a b : tsig) : bool :=
  match a, b with
  | Sig k n bd e, Sig k' n' bd' e' =>
      (k =? k') && String.eqb n n' && zlist_eqb bd bd' &&
      match e, e' with Some x, Some y => tsig_eqb x y | None, None => true | _, _ => false end
  end.

Definition ext_eqb (a b : ext) : bool :=
  match a, b with Final, Final | Appendable, Appendable | Mutable, Mutable => true | _, _ => false end.
Definition tck_eqb (a b : tck) : bool :=
  match a, b with TcUseDefault, TcUseDefault | TcDiscard, TcDiscard | TcTrim, TcTrim => true | _, _ => false end.

Definition mdesc_eqb (a b : mdesc) : bool :=
  String.eqb (md_name a) (md_name b) && (md_id a =? md_id b) && (md_index a =? md_index b) &&
  tsig_eqb (md_type a) (md_type b) && Bool.eqb (md_key a) (md_key b) &&
  Bool.eqb (md_optional a) (md_optional b) && Bool.eqb (md_must_understand a) (md_must_understand b) &&
  zlist_eqb (md_label a) (md_label b) && Bool.eqb (md_default_label a) (md_default_label b) &&
  tck_eqb (md_tc a) (md_tc b).

Fixpoint list_eqb {A} (f : A -> A -> bool) (a b : list A) : bool :=
  match a, b with
  | [], [] => true
  | x :: a', y :: b' => f x y && list_eqb f a' b'
  | _, _ => false
  end.

Definition tdesc_eqb (a b : tdesc) : bool :=
  (td_kind a =? td_kind b) && String.eqb (td_name a) (td_name b) && ext_eqb (td_ext a) (td_ext b) &&
  Bool.eqb (td_nested a) (td_nested b) && opt_eqb tsig_eqb (td_disc a) (td_disc b) &&
  list_eqb mdesc_eqb (td_members a) (td_members b).

Fixpoint storage_eqb (a b : storage) {struct a} : bool :=
  let fix dgo (x y : list (Z * storage)) : bool :=
    match x, y with
    | [], [] => true
    | (k, s) :: x', (k', s') :: y' => (k =? k') && storage_eqb s s' && dgo x' y'
    | _, _ => false
    end in
  match a, b with
  | SPrim p z, SPrim q w => prim_eqb p q && (z =? w)
  | SStr x, SStr y => zlist_eqb x y
  | SSeqPrim p x, SSeqPrim q y => prim_eqb p q && zlist_eqb x y
  | SSeqStr x, SSeqStr y => list_eqb zlist_eqb x y
  | SComplex x, SComplex y => dgo x y
  | SSeqComplex x, SSeqComplex y =>
      (fix lgo (x y : list (list (Z * storage))) : bool :=
         match x, y with
         | [], [] => true
         | d :: x', d' :: y' => dgo d d' && lgo x' y'
         | _, _ => false
         end) x y
  | SOther, SOther => true
  | _, _ => false
  end.

(* the dump lists a BTreeMap in key order: sort the model's association lists *)
Fixpoint ins_sorted (e : Z * storage) (l : list (Z * storage)) : list (Z * storage) :=
  match l with
  | [] => [e]
  | x :: r => if fst e <=? fst x then e :: l else x :: ins_sorted e r
  end.
Fixpoint norm_st (s : storage) : storage :=
  let fix dgo (d : list (Z * storage)) : list (Z * storage) :=
    match d with [] => [] | (k, x) :: r => ins_sorted (k, norm_st x) (dgo r) end in
  match s with
  | SComplex d => SComplex (dgo d)
  | SSeqComplex l => SSeqComplex ((fix lgo (l : list (list (Z * storage))) :=
                                     match l with [] => [] | d :: r => dgo d :: lgo r end) l)
  | _ => s
  end.
Definition norm_dyn (d : dyn) : dyn := match norm_st (SComplex d) with SComplex d' => d' | _ => d end.

Definition dynres_eqb (a b : res dyn) : bool :=
  match a, b with
  | Ok x, Ok y => storage_eqb (SComplex (norm_dyn x)) (SComplex y)
  | Panic _, Panic _ => true
  | _, _ => false
  end.

Definition back_eqb (a b : res (option value)) : bool :=
  match a, b with
  | Ok (Some x), Ok (Some y) => value_eqb x y
  | Ok None, Ok None => true
  | Panic _, Panic _ => true
  | _, _ => false
  end.

(* ---------------------------------------------------------------- the model *)

Definition mutate (m : option (bool * Z)) (d : dyn) : dyn :=
  match m with
  | None => d
  | Some (true, id) => ddel id d
  | Some (false, id) => dset id SOther d
  end.

Definition C40_model_ok (c : C40_case) : bool :=
  opt_eqb tdesc_eqb (describe (c_ty c)) (Some (c_desc c)) &&
  forallb (fun r => dynres_eqb (to_dyn (c_ty c) (rt_v r)) (rt_dyn r) &&
                    back_eqb (d <- to_dyn (c_ty c) (rt_v r) ;; from_dyn (c_ty c) (mutate (rt_mut r) d)) (rt_back r))
          (c_rts c).

(* --------------------------------------------------------------- the oracle *)
(* The property, stated on the IMPLEMENTATION's output and on the declaration,
   without using [describe] / [to_st] / [from_st]. *)

(* XTypes 7.3.1.2.1.1: the first four MD5 bytes, little endian, & 0x0FFFFFFF (written out here,
   independently of the model's [hash_id]) *)
Definition hash_id28 (name : string) : Z :=
  match KeyHash.Md5Model.md5 (string_bytes name) with
  | b0 :: b1 :: b2 :: b3 :: _ => (b0 + 256 * (b1 + 256 * (b2 + 256 * b3))) mod 268435456
  | _ => 0
  end.

(* expected member ids: @hashid (28 bit), an explicit @id in every extensibility kind,
   otherwise sequential: the automatic counter in Mutable structures, the member index
   in Final/Appendable ones (both are "previous + 1" when no member is hashed) *)
Fixpoint spec_ids_from (h : shead) (idx : nat) (next : Z) (ms : list mhead) : list Z :=
  match ms with
  | [] => []
  | m :: r =>
      let id := if m_hashid m then hash_id28 (member_name h idx m)
                else match m_id m with
                     | Some i => i
                     | None => match s_ext h with Mutable => next | _ => Z.of_nat idx end
                     end in
      id :: spec_ids_from h (S idx) (if m_hashid m then next else id + 1) r
  end.

(* known-finding classes, as conditions on the declaration *)
Definition kn_enum (t : ty) : bool :=                     (* class 4 *)
  match t with TEnum e => negb (Nat.eqb (length (e_variants e)) 0) | _ => false end.

(* somewhere inside the declaration: duplicate member ids (class 3), a union whose
   default variant is not the last one or whose first labels collide (class 5) *)
Fixpoint any_ty (p : ty -> bool) (t : ty) {struct t} : bool :=
  p t ||
  match t with
  | TPrim _ | TString | TEnum _ => false
  | TVec e | TArr e _ | TOpt e => any_ty p e
  | TStruct _ ms => (fix go (ms : list (mhead * ty)) : bool :=
                       match ms with [] => false | (_, t') :: r => any_ty p t' || go r end) ms
  | TUnion _ vs => (fix go (vs : list (vhead * option ty)) : bool :=
                      match vs with
                      | [] => false
                      | (_, Some t') :: r => any_ty p t' || go r
                      | (_, None) :: r => go r
                      end) vs
  end.
Definition dup_ids_here (t : ty) : bool :=
  match t with TStruct h ms => negb (nodupb (struct_ids h (map fst ms))) | _ => false end.
Definition bad_union_here (t : ty) : bool :=
  match t with
  | TUnion h vs => negb (nodupb (first_labels 0 vs) && default_only_last vs)
  | _ => false
  end.
Definition kn_dup_ids (t : ty) : bool := any_ty dup_ids_here t.       (* class 3 *)
Definition kn_bad_union (t : ty) : bool := any_ty bad_union_here t.   (* class 5 *)

(* regression for the fixed class 6 (0840b55: a non_serialized member used to be published and
   such a Final/Appendable type could not be serialized at all): a Final/Appendable structure
   of plain primitive / String members, some of them non_serialized, must be accepted by the
   XCDR1 and XCDR2 serializers.  (Other declarations are not judged: the serializer has limits
   of its own, e.g. member ids beyond the short XCDR1 parameter header, which belong to C09.) *)
Definition ns_here (t : ty) : bool :=
  match t with TStruct _ ms => existsb (fun m => m_ns (fst m)) ms | _ => false end.
Definition ser_judged (t : ty) : bool :=
  match t with
  | TStruct h ms =>
      ns_here t && match s_ext h with Mutable => false | _ => true end &&
      forallb (fun m => negb (m_optional (fst m)) &&
                        match snd m with TPrim _ | TString => true | _ => false end) ms
  | _ => false
  end.

Fixpoint labels_ok (ls : list (list Z)) (hs : list vhead) : bool :=
  match ls, hs with
  | [], [] => true
  | l :: ls', v :: hs' => (match v_cases v with [] => true | cs => zlist_eqb l cs end) && labels_ok ls' hs'
  | _, _ => false
  end.

(* the expected signature of a member type *)
Fixpoint spec_sig (t : ty) : tsig :=
  match t with
  | TPrim p => Sig (kind_of_prim p) ""%string [] None
  | TString => Sig K_STRING8 ""%string [u32_max] None
  | TVec e => Sig K_SEQUENCE (if is_complex e then "SequenceComplexValue" else "")%string [u32_max] (Some (spec_sig e))
  | TArr e n => Sig K_ARRAY ""%string [Z.of_nat n] (Some (spec_sig e))
  | TOpt e => spec_sig e
  | TStruct h _ => Sig K_STRUCTURE (tname (s_rname h) (s_cname h)) [] None
  | TEnum e => Sig K_ENUM (tname (e_rname e) (e_cname e)) [] None
  | TUnion h _ => Sig K_UNION (tname (u_rname h) (u_cname h)) [] None
  end.
Definition cls (b : bool) (k : N) : N := if b then k else 0%N.

(* every check: (holds on the implementation's output, class that explains a failure) *)
Definition C40_checks (c : C40_case) : list (bool * N) :=
  let t := c_ty c in
  let d := c_desc c in
  let ms := td_members d in
  match t with
  | TStruct h dm =>
      let hs := map fst dm in
      (* a non_serialized member is not part of the published (serialized) type:
         MemberDescriptor has no flag for it, the only way to reflect it is to omit it *)
      let pub := fun A (xs : list A) => published hs xs in
      [ ((td_kind d =? K_STRUCTURE) && String.eqb (td_name d) (tname (s_rname h) (s_cname h)) &&
         ext_eqb (td_ext d) (s_ext h) && Bool.eqb (td_nested d) (s_nested h), 0%N);
        (list_eqb String.eqb (map md_name ms) (pub _ (names_from h 0 hs)), 0%N);        (* names, order *)
        (list_eqb Z.eqb (map md_index ms) (map Z.of_nat (seq 0 (length (pub _ hs)))), 0%N);
        (list_eqb Bool.eqb (map md_key ms) (pub _ (map m_key hs)), 0%N);
        (list_eqb Bool.eqb (map md_optional ms) (pub _ (map m_optional hs)), 0%N);
        (list_eqb Bool.eqb (map md_must_understand ms) (pub _ (map m_key hs)), 0%N);
        (list_eqb tck_eqb (map md_tc ms) (pub _ (map (fun m => tc_of (m_tc m)) hs)), 0%N);
        (list_eqb tsig_eqb (map md_type ms) (pub _ (map (fun m => spec_sig (snd m)) dm)), 0%N);  (* member types *)
        (list_eqb Z.eqb (map md_id ms) (pub _ (spec_ids_from h 0 0 hs)), 0%N);             (* ids *)
        (nodupb (map md_id ms), cls (dup_ids_here t) 3) ]                                   (* ids distinct *)
  | TEnum e =>
      [ ((td_kind d =? K_ENUM) && String.eqb (td_name d) (tname (e_rname e) (e_cname e)) &&
         Bool.eqb (td_nested d) (e_nested e) &&
         opt_eqb tsig_eqb (td_disc d) (Some (Sig (kind_of_prim (bits_prim (e_bits e))) ""%string [] None)), 0%N);
        (* the literals and their values are part of the description *)
        (list_eqb String.eqb (map md_name ms) (map fst (e_variants e)) &&
         list_eqb Z.eqb (map md_id ms) (enum_discs e), cls (kn_enum t) 4) ]
  | TUnion h vs =>
      let hs := map fst vs in
      [ ((td_kind d =? K_UNION) && String.eqb (td_name d) (tname (u_rname h) (u_cname h)) &&
         ext_eqb (td_ext d) (u_ext h) && Bool.eqb (td_nested d) (u_nested h) &&
         opt_eqb tsig_eqb (td_disc d) (Some (Sig (kind_of_prim (u_disc h)) ""%string [] None)), 0%N);
        (match ms with
         | dm :: vm =>
             Bool.eqb (md_key dm) (u_dkey h) && (md_id dm =? 0) &&
             list_eqb String.eqb (map md_name vm) (map v_name hs) &&
             list_eqb Bool.eqb (map md_default_label vm) (map v_default hs) &&
             nodupb (map md_id ms) &&
             labels_ok (map md_label vm) hs
         | [] => false
         end, 0%N);
        (list_eqb tsig_eqb (map md_type (tl ms))
           (map (fun v => match snd v with Some t' => spec_sig t' | None => Sig K_NONE ""%string [] None end) vs),
         0%N) ]
  | _ => [(false, 0%N)]
  end
  ++
  (* round trips *)
  map (fun r =>
         (match rt_dyn r with
          | Ok _ => match rt_mut r with
                    | None => back_eqb (rt_back r) (Ok (Some (erase_ns t (rt_v r))))
                    | Some _ => true       (* damaged dynamic data: not judged by the property *)
                    end
          | Panic _ => exposes_none t (rt_v r)
          | Err _ => false
          end,
          if kn_dup_ids t then 3%N else cls (kn_bad_union t) 5)) (c_rts c)
  ++
  (* a non_serialized member does not stand in the way of serializing a value *)
  map (fun r => (match rt_dyn r with Ok _ => negb (ser_judged t) || rt_ser r | _ => true end, cls (kn_dup_ids t) 3)) (c_rts c).

Definition C40_oracle_ok (c : C40_case) : bool := forallb fst (C40_checks c).

Definition C40_known (c : C40_case) : N :=
  let bad := filter (fun x => negb (fst x)) (C40_checks c) in
  if existsb (fun x => N.eqb (snd x) 0) bad then 0%N
  else fold_right (fun x a => if N.eqb a 0 then snd x else N.min (snd x) a) 0%N bad.
