(* C40 — the correspondence oracle (Lang/DeriveCorr.v) agrees with the theorems:
   outside the recorded known-finding classes it accepts the model's own output,
   so every oracle rejection of the real code is a known class or a model drift. *)
From Coq Require Import Strings.String.
From DustDDS Require Import Base.Machine Lang.DeriveModel Lang.DeriveCorr Lang.DeriveDescProofs Lang.DeriveRtProofs.
From DustDDS Require KeyHash.Md5Model.
Open Scope Z_scope.

(* what the model predicts for one value (the serializer is not modelled: any flag) *)
Definition model_rt (t : ty) (p : value * bool) : C40_rt :=
  mkRT (fst p) None (to_dyn t (fst p)) (roundtrip t (fst p)) (snd p).
Definition model_case (t : ty) (d : tdesc) (vs : list (value * bool)) : C40_case :=
  mkC40 t d (map (model_rt t) vs).

(* ------------------------------------------------------------ reflexivity *)

Lemma zlist_eqb_refl : forall l, zlist_eqb l l = true.
Proof. induction l; cbn; [reflexivity|]. now rewrite Z.eqb_refl. Qed.

Lemma value_eqb_refl : forall v, value_eqb v v = true.
Proof.
  induction v using value_ind'; cbn; auto using Z.eqb_refl, zlist_eqb_refl, Nat.eqb_refl.
  - induction H as [|x r Hx Hr IH]; [reflexivity|]. now rewrite Hx.
  - induction H as [|x r Hx Hr IH]; [reflexivity|]. now rewrite Hx.
  - now rewrite Nat.eqb_refl.
Qed.

Lemma list_eqb_refl : forall {A} (f : A -> A -> bool) l, (forall x, f x x = true) -> list_eqb f l l = true.
Proof. intros A f l H. induction l; cbn; [reflexivity|]. now rewrite H. Qed.

Lemma tsig_eqb_refl : forall s, tsig_eqb s s = true.
Proof.
  fix IH 1. intros [k n b e]. cbn. rewrite Z.eqb_refl, String.eqb_refl, zlist_eqb_refl. cbn.
  destruct e as [x|]; [apply IH|reflexivity].
Qed.

Lemma ext_eqb_refl : forall e, ext_eqb e e = true. Proof. destruct e; reflexivity. Qed.
Lemma tck_eqb_refl : forall e, tck_eqb e e = true. Proof. destruct e; reflexivity. Qed.
Lemma bool_eqb_refl : forall b, Bool.eqb b b = true. Proof. destruct b; reflexivity. Qed.

(* ------------------------------------------------------------------ pieces *)

Lemma spec_sig_sig_of : forall t, spec_sig t = sig_of t.
Proof.
  induction t using ty_ind'; try reflexivity; cbn [spec_sig sig_of]; now rewrite ?IHt.
Qed.

(* the oracle's own reading of the @hashid rule is the model's *)
Lemma hash_id28_hash_id : forall n, hash_id28 n = hash_id n.
Proof.
  intros n. unfold hash_id28, hash_id. destruct (KeyHash.Md5Model.md5 (string_bytes n)) as [|b0 [|b1 [|b2 [|b3 r]]]]; cbv iota beta; try reflexivity.
  f_equal. lia.
Qed.

(* the id rule of the oracle and of the macro coincide (fixes 470723e, 7ee9e78) *)
Lemma spec_ids_struct_ids : forall h ms idx next,
  spec_ids_from h idx next ms = struct_ids_from h idx next ms.
Proof.
  intros h. induction ms as [|m r IH]; intros idx next; [reflexivity|].
  cbn [spec_ids_from struct_ids_from]. rewrite hash_id28_hash_id. f_equal. apply IH.
Qed.

(* ------------------------------------------------- round trips (any declared type) *)

Lemma to_dyn_cases : forall t v, wf_ty t = true -> is_complex t = true -> has_type t v = true ->
  (exposes_none t v = true /\ to_dyn t v = Panic 1) \/
  (exposes_none t v = false /\ exists d, to_dyn t v = Ok d).
Proof.
  intros t v Hwf Hc Ht. assert (H := total_all t Hwf v Ht). destruct (exposes_none t v).
  - left. split; [reflexivity|]. unfold to_dyn. now rewrite H.
  - right. split; [reflexivity|]. destruct H as [s [Es Hs]]. destruct (Hs Hc) as [d ->].
    exists d. unfold to_dyn. now rewrite Es.
Qed.

Lemma forallb_map' : forall {A B} (f : A -> B) (p : B -> bool) l, forallb p (map f l) = forallb (fun x => p (f x)) l.
Proof. induction l; cbn; [reflexivity|]. now rewrite IHl. Qed.

Lemma rt_checks_ok : forall t vs (k1 k2 : N),
  wf_ty t = true -> is_complex t = true ->
  (ser_judged t = false \/ Forall (fun p => snd p = true) vs) ->
  Forall (fun p => has_type t (fst p) = true) vs ->
  forallb fst
    (map (fun r => (match rt_dyn r with
                    | Ok _ => match rt_mut r with
                              | None => back_eqb (rt_back r) (Ok (Some (erase_ns t (rt_v r))))
                              | Some _ => true
                              end
                    | Panic _ => exposes_none t (rt_v r)
                    | Err _ => false
                    end, k1)) (map (model_rt t) vs)
     ++ map (fun r => (match rt_dyn r with Ok _ => negb (ser_judged t) || rt_ser r | _ => true end, k2))
            (map (model_rt t) vs)) = true.
Proof.
  intros t vs k1 k2 Hwf Hc Hns Hvs. rewrite forallb_app, !map_map, !forallb_map'. apply andb_true_iff. split.
  - rewrite forallb_forall. intros p Hp. rewrite Forall_forall in Hvs. specialize (Hvs p Hp).
    cbn [fst rt_dyn rt_mut rt_back rt_v model_rt].
    destruct (to_dyn_cases t (fst p) Hwf Hc Hvs) as [[He Hd]|[He [d Hd]]]; rewrite Hd.
    + exact He.
    + rewrite (derive_roundtrip_total t (fst p) Hwf Hc Hvs), He. cbn [back_eqb]. apply value_eqb_refl.
  - rewrite forallb_forall. intros p Hp. cbn [fst rt_dyn rt_ser model_rt].
    destruct (to_dyn t (fst p)); try reflexivity. destruct Hns as [Hns|Hser].
    + now rewrite Hns.
    + rewrite Forall_forall in Hser. rewrite (Hser p Hp). apply orb_true_r.
Qed.

(* ------------------------------------------------------------------ structs *)

(* [vs]: values with the verdict of the (unmodelled) serializer; the regression check on
   non_serialized members only looks at it when the declaration has such a member *)
Theorem oracle_sound_struct : forall h ms d vs,
  describe (TStruct h ms) = Some d -> wf_ty (TStruct h ms) = true ->
  (ser_judged (TStruct h ms) = false \/ Forall (fun p => snd p = true) vs) ->
  Forall (fun p => has_type (TStruct h ms) (fst p) = true) vs ->
  C40_oracle_ok (model_case (TStruct h ms) d vs) = true.
Proof.
  intros h ms d vs Hd Hwf Hns Hvs.
  unfold C40_oracle_ok, C40_checks, model_case. cbn [c_ty c_desc c_rts].
  rewrite forallb_app. apply andb_true_iff. split; [|now apply rt_checks_ok].
  destruct (describe_struct h ms) as (d' & Hd' & Hkind & Hname & Hext & Hnest & _ & Hn & Hid & Hix & Hty & Hkey & Hopt & Hmu & Htc).
  rewrite Hd in Hd'. injection Hd' as <-.
  cbv zeta in *. cbn [forallb fst].
  rewrite Hkind, Hname, Hext, Hnest, Hn, Hid, Hix, Hty, Hkey, Hopt, Hmu, Htc.
  rewrite Z.eqb_refl, String.eqb_refl, ext_eqb_refl, bool_eqb_refl. cbn [andb].
  assert (Hsig : map (fun m : mhead * ty => spec_sig (snd m)) ms = map (fun m => sig_of (snd m)) ms).
  { apply map_ext. intros m. apply spec_sig_sig_of. }
  rewrite Hsig. unfold struct_ids. rewrite spec_ids_struct_ids.
  rewrite (list_eqb_refl String.eqb) by apply String.eqb_refl.
  rewrite !(list_eqb_refl Z.eqb) by apply Z.eqb_refl.
  rewrite !(list_eqb_refl Bool.eqb) by apply bool_eqb_refl.
  rewrite (list_eqb_refl tck_eqb) by apply tck_eqb_refl.
  rewrite (list_eqb_refl tsig_eqb) by apply tsig_eqb_refl. cbn [andb].
  (* distinct: the published ids are a sub-list of the distinct ids *)
  cbn [wf_ty] in Hwf. apply andb_true_iff in Hwf as [Hnd _]. unfold struct_ids in Hnd.
  rewrite andb_true_r. apply nodupb_NoDup. apply nodupb_NoDup in Hnd.
  assert (Hl : length (struct_ids_from h 0 0 (map fst ms)) = length (map fst ms)) by apply struct_ids_from_length.
  revert Hnd Hl. generalize (struct_ids_from h 0 0 (map fst ms)). generalize (map fst ms). clear.
  induction l as [|m r IH]; intros [|x xs] Hnd Hl; try discriminate; cbn [published]; try constructor.
  inversion Hnd as [|? ? Hx Hr]; subst. injection Hl as Hl.
  destruct (m_ns m); [now apply IH|]. constructor; [|now apply IH].
  intro Hin. apply Hx. clear - Hin. revert xs Hin. induction r as [|m' r IHr]; intros [|y ys] Hin; cbn [published] in Hin; try contradiction.
  destruct (m_ns m'); [right; now apply IHr|]. destruct Hin as [->|Hin]; [now left|right; now apply IHr].
Qed.

(* ------------------------------------------------------------------- unions *)

Lemma label_i32_id : forall z, in_i32b z = true -> label_i32 z = z.
Proof.
  intros z H. unfold in_i32b, i32_min, i32_max in H. apply andb_true_iff in H as [H1 H2].
  apply Z.leb_le in H1, H2. unfold label_i32, wrap_i32, two32. rewrite Z.mod_small; lia.
Qed.

Lemma labels_ok_model : forall vs vm,
  forallb (fun v => forallb in_i32b (v_cases (fst v))) vs = true ->
  Forall2 (fun d v => md_label d = map label_i32 (match v_cases (fst v) with [] => [md_id d] | l => l end)) vm vs ->
  labels_ok (map md_label vm) (map (@fst vhead (option ty)) vs) = true.
Proof.
  intros vs vm Hr HF. induction HF as [|d v vm vs Hd HF IH]; [reflexivity|].
  cbn [forallb] in Hr. apply andb_true_iff in Hr as [Hv Hr].
  cbn [map labels_ok]. rewrite (IH Hr), andb_true_r.
  destruct (v_cases (fst v)) as [|c cs] eqn:E; [reflexivity|].
  rewrite Hd. assert (Hm : map label_i32 (c :: cs) = c :: cs).
  { rewrite <- (map_id (c :: cs)) at 2. apply map_ext_in. intros z Hz. apply label_i32_id.
    rewrite forallb_forall in Hv. now apply Hv. }
  rewrite Hm. apply zlist_eqb_refl.
Qed.

Lemma nodupb_union_ids : forall n, nodupb (0 :: map Z.of_nat (seq 1 n)) = true.
Proof.
  intros n. apply nodupb_NoDup. constructor; [|apply NoDup_map_of_nat_seq].
  rewrite in_map_iff. intros [k [Hk Hin]]. apply in_seq in Hin. lia.
Qed.

Theorem oracle_sound_union : forall h vs d rs,
  describe (TUnion h vs) = Some d -> wf_ty (TUnion h vs) = true ->
  forallb (fun v => forallb in_i32b (v_cases (fst v))) vs = true ->
  Forall (fun p => has_type (TUnion h vs) (fst p) = true) rs ->
  C40_oracle_ok (model_case (TUnion h vs) d rs) = true.
Proof.
  intros h vs d rs Hd Hwf Hrange Hrs.
  unfold C40_oracle_ok, C40_checks, model_case. cbn [c_ty c_desc c_rts].
  rewrite forallb_app. apply andb_true_iff. split; [|apply rt_checks_ok; auto].
  destruct (describe_union h vs) as (dm & vm & Hd' & Hdn & Hdi & Hdk & Hdmu & Hdt & Hn & Hid & Hdl & Hty & Hlab).
  rewrite Hd in Hd'. injection Hd' as ->.
  cbv zeta. cbn [forallb fst td_kind td_name td_ext td_nested td_disc td_members tl map].
  rewrite Z.eqb_refl, String.eqb_refl, ext_eqb_refl, bool_eqb_refl. cbn [opt_eqb].
  rewrite tsig_eqb_refl. cbn [andb].
  rewrite Hdk, Hdi, bool_eqb_refl, Z.eqb_refl, Hn, Hdl, Hid, Hty. cbn [andb].
  rewrite <- !map_map with (g := v_name) (f := fst).
  rewrite (list_eqb_refl String.eqb) by apply String.eqb_refl.
  rewrite <- !map_map with (g := v_default) (f := fst).
  rewrite (list_eqb_refl Bool.eqb) by apply bool_eqb_refl.
  rewrite nodupb_union_ids, (labels_ok_model vs vm Hrange Hlab). cbn [andb].
  assert (Hsig : map (fun v : vhead * option ty => match snd v with Some t' => spec_sig t' | None => Sig K_NONE "" [] None end) vs
               = map (fun v => match snd v with Some t' => sig_of t' | None => Sig K_NONE "" [] None end) vs).
  { apply map_ext. intros v. destruct (snd v) as [t'|]; [|reflexivity]. apply spec_sig_sig_of. }
  rewrite Hsig, (list_eqb_refl tsig_eqb) by apply tsig_eqb_refl. reflexivity.
Qed.

(* -------------------------------------------------------------------- enums *)

(* an enumeration with literals is always rejected, with class 4 and nothing else *)
Theorem oracle_rejects_enum_literals : forall e d vs,
  describe (TEnum e) = Some d -> wf_ty (TEnum e) = true -> e_variants e <> [] ->
  Forall (fun p => has_type (TEnum e) (fst p) = true) vs ->
  C40_oracle_ok (model_case (TEnum e) d vs) = false /\ C40_known (model_case (TEnum e) d vs) = 4%N.
Proof.
  intros e d vs Hd Hwf Hne Hvs.
  rewrite describe_enum in Hd. injection Hd as <-.
  assert (Hrt := rt_checks_ok (TEnum e) vs
                   (if kn_dup_ids (TEnum e) then 3%N else cls (kn_bad_union (TEnum e)) 5) (cls (kn_dup_ids (TEnum e)) 3)
                   Hwf eq_refl (or_introl eq_refl) Hvs).
  unfold C40_oracle_ok, C40_known, C40_checks, model_case. cbn [c_ty c_desc c_rts].
  cbn [td_kind td_name td_nested td_disc td_members map].
  rewrite Z.eqb_refl, String.eqb_refl, bool_eqb_refl. cbn [opt_eqb]. rewrite tsig_eqb_refl. cbn [andb].
  destruct (e_variants e) as [|v r] eqn:Ev; [congruence|].
  cbn [map list_eqb andb kn_enum length Nat.eqb negb cls].
  set (rest := _ ++ _) in *.
  cbn [app forallb fst andb filter negb snd existsb N.eqb].
  assert (Hf : filter (fun x : bool * N => negb (fst x)) rest = []).
  { clear - Hrt. induction rest as [|x l IH]; [reflexivity|]. cbn [forallb] in Hrt.
    apply andb_true_iff in Hrt as [Hx Hl]. cbn [filter]. rewrite Hx. cbn [negb]. now apply IH. }
  rewrite Hf. rewrite ?Ev. cbn. split; reflexivity.
Qed.
