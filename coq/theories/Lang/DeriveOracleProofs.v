(* C40 — the correspondence oracle (Lang/DeriveCorr.v) agrees with the theorems:
   outside the recorded known-finding classes it accepts the model's own output,
   so every oracle rejection of the real code is a known class or a model drift. *)
From Coq Require Import Strings.String.
From DustDDS Require Import Base.Machine Lang.DeriveModel Lang.DeriveCorr Lang.DeriveDescProofs Lang.DeriveRtProofs.
From DustDDS Require KeyHash.Md5Model.
Open Scope Z_scope.

(* what the model predicts for one value (the serializer is not modelled: any flag) *)
Definition model_rt (t : ty) (p : value * bool) : C40_rt :=
  mkRT (fst p) None (to_dyn t (fst p)) (roundtrip t (fst p)) (snd p).
Definition model_case (t : ty) (d : tdesc) (vs : list (value * bool)) : C40_case :=
  mkC40 t d (map (model_rt t) vs).

(* ------------------------------------------------------------ reflexivity *)

Lemma zlist_eqb_refl : forall l, zlist_eqb l l = true.
Proof. induction l; cbn; [reflexivity|]. now rewrite Z.eqb_refl. Qed.

Lemma value_eqb_refl : forall v, value_eqb v v = true.
Proof.
  induction v using value_ind'; cbn; auto using Z.eqb_refl, zlist_eqb_refl, Nat.eqb_refl.
  - induction H as [|x r Hx Hr IH]; [reflexivity|]. now rewrite Hx.
  - induction H as [|x r Hx Hr IH]; [reflexivity|]. now rewrite Hx.
  - now rewrite Nat.eqb_refl.
Qed.

Lemma list_eqb_refl : forall {A} (f : A -> A -> bool) l, (forall x, f x x = true) -> list_eqb f l l = true.
Proof. intros A f l H. induction l; cbn; [reflexivity|]. now rewrite H. Qed.

Lemma tsig_eqb_refl : forall s, tsig_eqb s s = true.
Proof.
  fix IH 1. intros [k n b e]. cbn. rewrite Z.eqb_refl, String.eqb_refl, zlist_eqb_refl. cbn.
  destruct e as [x|]; [apply IH|reflexivity].
Qed.

Lemma ext_eqb_refl : forall e, ext_eqb e e = true. Proof. destruct e; reflexivity. Qed.
Lemma tck_eqb_refl : forall e, tck_eqb e e = true. Proof. destruct e; reflexivity. Qed.
Lemma bool_eqb_refl : forall b, Bool.eqb b b = true. Proof. destruct b; reflexivity. Qed.

(* ------------------------------------------------------------------ pieces *)

Lemma published_id : forall {A} hs (xs : list A),
  existsb m_ns hs = false -> length xs = length hs -> published hs xs = xs.
Proof.
  induction hs as [|m r IH]; intros xs Hn Hl; destruct xs as [|x xs]; try discriminate; [reflexivity|].
  cbn [existsb] in Hn. apply orb_false_iff in Hn as [Hm Hr]. cbn [published]. rewrite Hm.
  f_equal. apply IH; [exact Hr|]. now injection Hl.
Qed.

Lemma spec_sig_sig_of : forall t, spec_sig t = sig_of t.
Proof.
  induction t using ty_ind'; try reflexivity; cbn [spec_sig sig_of]; now rewrite ?IHt.
Qed.

(* the oracle's own reading of the @hashid rule is the model's *)
Lemma hash_id28_hash_id : forall n, hash_id28 n = hash_id n.
Proof.
  intros n. unfold hash_id28, hash_id. destruct (KeyHash.Md5Model.md5 (string_bytes n)) as [|b0 [|b1 [|b2 [|b3 r]]]]; cbv iota beta; try reflexivity.
  f_equal. lia.
Qed.

(* the id rule of the oracle and of the macro coincide outside class 1 *)
Definition ids_clean (h : shead) (m : mhead) : bool :=
  if m_hashid m then true
  else match s_ext h with Mutable => true | _ => match m_id m with None => true | Some _ => false end end.

Lemma spec_ids_struct_ids : forall h ms idx next,
  forallb (ids_clean h) ms = true ->
  spec_ids_from h idx next ms = struct_ids_from h idx next ms.
Proof.
  intros h. induction ms as [|m r IH]; intros idx next H; [reflexivity|].
  cbn [forallb] in H. apply andb_true_iff in H as [Hm Hr]. cbn [spec_ids_from struct_ids_from].
  unfold ids_clean in Hm. destruct (m_hashid m) eqn:Hh.
  - rewrite hash_id28_hash_id. f_equal. now apply IH.
  - destruct (s_ext h) eqn:Hx.
    + destruct (m_id m); [discriminate|]. f_equal. now apply IH.
    + destruct (m_id m); [discriminate|]. f_equal. now apply IH.
    + destruct (m_id m); (f_equal; now apply IH).
Qed.

(* class 1 of the correspondence is exactly the negation of [ids_clean] *)
Lemma class_1_clean : forall h ms,
  kn_explicit_id_ignored (TStruct h ms) = false -> forallb (ids_clean h) (map fst ms) = true.
Proof.
  intros h ms H1. cbn [kn_explicit_id_ignored] in H1.
  induction ms as [|[m t] r IH]; [reflexivity|].
  cbn [map fst forallb]. rewrite IH.
  - rewrite andb_true_r. unfold ids_clean. destruct (m_hashid m) eqn:Hh; [reflexivity|].
    destruct (s_ext h); try reflexivity;
      (cbn [existsb fst] in H1; apply orb_false_iff in H1 as [H1m _]; rewrite Hh in H1m; cbn [negb andb] in H1m;
       destruct (m_id m); [discriminate|reflexivity]).
  - destruct (s_ext h); try exact H1; (cbn [existsb] in H1; apply orb_false_iff in H1 as [_ H1]; exact H1).
Qed.

(* ------------------------------------------------- round trips (any declared type) *)

Lemma to_dyn_cases : forall t v, wf_ty t = true -> is_complex t = true -> has_type t v = true ->
  (exposes_none t v = true /\ to_dyn t v = Panic 1) \/
  (exposes_none t v = false /\ exists d, to_dyn t v = Ok d).
Proof.
  intros t v Hwf Hc Ht. assert (H := total_all t Hwf v Ht). destruct (exposes_none t v).
  - left. split; [reflexivity|]. unfold to_dyn. now rewrite H.
  - right. split; [reflexivity|]. destruct H as [s [Es Hs]]. destruct (Hs Hc) as [d ->].
    exists d. unfold to_dyn. now rewrite Es.
Qed.

Lemma forallb_map' : forall {A B} (f : A -> B) (p : B -> bool) l, forallb p (map f l) = forallb (fun x => p (f x)) l.
Proof. induction l; cbn; [reflexivity|]. now rewrite IHl. Qed.

Lemma rt_checks_ok : forall t vs (k1 k2 : N),
  wf_ty t = true -> is_complex t = true -> kn_ns t = false ->
  Forall (fun p => has_type t (fst p) = true) vs ->
  forallb fst
    (map (fun r => (match rt_dyn r with
                    | Ok _ => match rt_mut r with
                              | None => back_eqb (rt_back r) (Ok (Some (erase_ns t (rt_v r))))
                              | Some _ => true
                              end
                    | Panic _ => exposes_none t (rt_v r)
                    | Err _ => false
                    end, k1)) (map (model_rt t) vs)
     ++ map (fun r => (match rt_dyn r with Ok _ => negb (kn_ns t) || rt_ser r | _ => true end, k2))
            (map (model_rt t) vs)) = true.
Proof.
  intros t vs k1 k2 Hwf Hc Hns Hvs. rewrite forallb_app, !map_map, !forallb_map'. apply andb_true_iff. split.
  - rewrite forallb_forall. intros p Hp. rewrite Forall_forall in Hvs. specialize (Hvs p Hp).
    cbn [fst rt_dyn rt_mut rt_back rt_v model_rt].
    destruct (to_dyn_cases t (fst p) Hwf Hc Hvs) as [[He Hd]|[He [d Hd]]]; rewrite Hd.
    + exact He.
    + rewrite (derive_roundtrip_total t (fst p) Hwf Hc Hvs), He. cbn [back_eqb]. apply value_eqb_refl.
  - rewrite forallb_forall. intros p Hp. cbn [fst rt_dyn model_rt]. rewrite Hns.
    destruct (to_dyn t (fst p)); reflexivity.
Qed.

(* ------------------------------------------------------------------ structs *)

Lemma existsb_map_fst : forall {A B} (f : A -> bool) (l : list (A * B)),
  existsb (fun m => f (fst m)) l = existsb f (map fst l).
Proof. induction l; cbn; [reflexivity|]. now rewrite IHl. Qed.

Lemma kn_ns_here : forall t, kn_ns t = false -> ns_here t = false.
Proof. intros t H. unfold kn_ns in H. destruct t; cbn [any_ty] in H; apply orb_false_iff in H as [H _]; exact H. Qed.

Theorem oracle_sound_struct : forall h ms d vs,
  describe (TStruct h ms) = Some d -> wf_ty (TStruct h ms) = true ->
  kn_explicit_id_ignored (TStruct h ms) = false -> kn_ns (TStruct h ms) = false ->
  Forall (fun p => has_type (TStruct h ms) (fst p) = true) vs ->
  C40_oracle_ok (model_case (TStruct h ms) d vs) = true.
Proof.
  intros h ms d vs Hd Hwf Hk1 Hns Hvs.
  unfold C40_oracle_ok, C40_checks, model_case. cbn [c_ty c_desc c_rts].
  rewrite forallb_app. apply andb_true_iff. split; [|now apply rt_checks_ok].
  destruct (describe_struct h ms) as (d' & Hd' & Hkind & Hname & Hext & Hnest & _ & Hn & Hid & Hix & Hty & Hkey & Hopt & Hmu & Htc).
  rewrite Hd in Hd'. injection Hd' as <-.
  assert (Hnsh := kn_ns_here _ Hns). cbn [ns_here] in Hnsh. rewrite existsb_map_fst in Hnsh.
  assert (Hlen : length (map fst ms) = length ms) by apply map_length.
  assert (Hpub : forall A (xs : list A), length xs = length ms -> published (map fst ms) xs = xs).
  { intros A xs Hl. apply published_id; [exact Hnsh|]. now rewrite Hlen. }
  cbv zeta. cbn [forallb fst].
  rewrite Hkind, Hname, Hext, Hnest, Hn, Hid, Hix, Hty, Hkey, Hopt, Hmu, Htc.
  rewrite Z.eqb_refl, String.eqb_refl, ext_eqb_refl, bool_eqb_refl. cbn [andb].
  (* names *)
  rewrite Hpub.
  2:{ clear. generalize 0%nat. induction ms as [|m r IH]; intros k; [reflexivity|]. cbn. now rewrite IH. }
  rewrite (list_eqb_refl String.eqb) by apply String.eqb_refl. cbn [andb].
  (* indices *)
  rewrite (Hpub _ (map fst ms)) by exact Hlen. rewrite Hlen.
  rewrite (list_eqb_refl Z.eqb) by apply Z.eqb_refl. cbn [andb].
  (* key / optional / must-understand / try_construct *)
  rewrite !Hpub by (rewrite !map_length; reflexivity).
  rewrite <- !map_map with (f := fst).
  rewrite !(list_eqb_refl Bool.eqb) by apply bool_eqb_refl.
  rewrite ?map_map. rewrite (list_eqb_refl tck_eqb) by apply tck_eqb_refl. cbn [andb].
  (* member types *)
  assert (Hsig : map (fun m : mhead * ty => spec_sig (snd m)) ms = map (fun m => sig_of (snd m)) ms).
  { apply map_ext. intros m. apply spec_sig_sig_of. }
  rewrite Hsig. rewrite (list_eqb_refl tsig_eqb) by apply tsig_eqb_refl. cbn [andb].
  (* ids *)
  unfold struct_ids.
  rewrite (spec_ids_struct_ids h (map fst ms) 0 0 (class_1_clean h ms Hk1)).
  rewrite Hpub by (rewrite struct_ids_from_length; exact Hlen).
  rewrite (list_eqb_refl Z.eqb) by apply Z.eqb_refl. cbn [andb].
  (* distinct *)
  cbn [wf_ty] in Hwf. apply andb_true_iff in Hwf as [Hnd _]. unfold struct_ids in Hnd. rewrite Hnd. reflexivity.
Qed.

(* ------------------------------------------------------------------- unions *)

Lemma label_i32_id : forall z, in_i32b z = true -> label_i32 z = z.
Proof.
  intros z H. unfold in_i32b, i32_min, i32_max in H. apply andb_true_iff in H as [H1 H2].
  apply Z.leb_le in H1, H2. unfold label_i32, wrap_i32, two32. rewrite Z.mod_small; lia.
Qed.

Lemma labels_ok_model : forall vs vm,
  forallb (fun v => forallb in_i32b (v_cases (fst v))) vs = true ->
  Forall2 (fun d v => md_label d = map label_i32 (match v_cases (fst v) with [] => [md_id d] | l => l end)) vm vs ->
  labels_ok (map md_label vm) (map (@fst vhead (option ty)) vs) = true.
Proof.
  intros vs vm Hr HF. induction HF as [|d v vm vs Hd HF IH]; [reflexivity|].
  cbn [forallb] in Hr. apply andb_true_iff in Hr as [Hv Hr].
  cbn [map labels_ok]. rewrite (IH Hr), andb_true_r.
  destruct (v_cases (fst v)) as [|c cs] eqn:E; [reflexivity|].
  rewrite Hd. assert (Hm : map label_i32 (c :: cs) = c :: cs).
  { rewrite <- (map_id (c :: cs)) at 2. apply map_ext_in. intros z Hz. apply label_i32_id.
    rewrite forallb_forall in Hv. now apply Hv. }
  rewrite Hm. apply zlist_eqb_refl.
Qed.

Lemma nodupb_union_ids : forall n, nodupb (0 :: map Z.of_nat (seq 1 n)) = true.
Proof.
  intros n. apply nodupb_NoDup. constructor; [|apply NoDup_map_of_nat_seq].
  rewrite in_map_iff. intros [k [Hk Hin]]. apply in_seq in Hin. lia.
Qed.

Theorem oracle_sound_union : forall h vs d rs,
  describe (TUnion h vs) = Some d -> wf_ty (TUnion h vs) = true ->
  kn_ns (TUnion h vs) = false ->
  forallb (fun v => forallb in_i32b (v_cases (fst v))) vs = true ->
  Forall (fun p => has_type (TUnion h vs) (fst p) = true) rs ->
  C40_oracle_ok (model_case (TUnion h vs) d rs) = true.
Proof.
  intros h vs d rs Hd Hwf Hns Hrange Hrs.
  unfold C40_oracle_ok, C40_checks, model_case. cbn [c_ty c_desc c_rts].
  rewrite forallb_app. apply andb_true_iff. split; [|now apply rt_checks_ok].
  destruct (describe_union h vs) as (dm & vm & Hd' & Hdn & Hdi & Hdk & Hdmu & Hdt & Hn & Hid & Hdl & Hty & Hlab).
  rewrite Hd in Hd'. injection Hd' as ->.
  cbv zeta. cbn [forallb fst td_kind td_name td_ext td_nested td_disc td_members tl map].
  rewrite Z.eqb_refl, String.eqb_refl, ext_eqb_refl, bool_eqb_refl. cbn [opt_eqb].
  rewrite tsig_eqb_refl. cbn [andb].
  rewrite Hdk, Hdi, bool_eqb_refl, Z.eqb_refl, Hn, Hdl, Hid, Hty. cbn [andb].
  rewrite <- !map_map with (g := v_name) (f := fst).
  rewrite (list_eqb_refl String.eqb) by apply String.eqb_refl.
  rewrite <- !map_map with (g := v_default) (f := fst).
  rewrite (list_eqb_refl Bool.eqb) by apply bool_eqb_refl.
  rewrite nodupb_union_ids, (labels_ok_model vs vm Hrange Hlab). cbn [andb].
  assert (Hsig : map (fun v : vhead * option ty => match snd v with Some t' => spec_sig t' | None => Sig K_NONE "" [] None end) vs
               = map (fun v => match snd v with Some t' => sig_of t' | None => Sig K_NONE "" [] None end) vs).
  { apply map_ext. intros v. destruct (snd v) as [t'|]; [|reflexivity]. apply spec_sig_sig_of. }
  rewrite Hsig, (list_eqb_refl tsig_eqb) by apply tsig_eqb_refl. reflexivity.
Qed.

(* -------------------------------------------------------------------- enums *)

(* an enumeration with literals is always rejected, with class 4 and nothing else *)
Theorem oracle_rejects_enum_literals : forall e d vs,
  describe (TEnum e) = Some d -> wf_ty (TEnum e) = true -> e_variants e <> [] ->
  Forall (fun p => has_type (TEnum e) (fst p) = true) vs ->
  C40_oracle_ok (model_case (TEnum e) d vs) = false /\ C40_known (model_case (TEnum e) d vs) = 4%N.
Proof.
  intros e d vs Hd Hwf Hne Hvs.
  rewrite describe_enum in Hd. injection Hd as <-.
  assert (Hrt := rt_checks_ok (TEnum e) vs
                   (if kn_dup_ids (TEnum e) then 3%N else cls (kn_bad_union (TEnum e)) 5) (cls (kn_ns (TEnum e)) 6)
                   Hwf eq_refl eq_refl Hvs).
  unfold C40_oracle_ok, C40_known, C40_checks, model_case. cbn [c_ty c_desc c_rts].
  cbn [td_kind td_name td_nested td_disc td_members map].
  rewrite Z.eqb_refl, String.eqb_refl, bool_eqb_refl. cbn [opt_eqb]. rewrite tsig_eqb_refl. cbn [andb].
  destruct (e_variants e) as [|v r] eqn:Ev; [congruence|].
  cbn [map list_eqb andb kn_enum length Nat.eqb negb cls].
  set (rest := _ ++ _) in *.
  cbn [app forallb fst andb filter negb snd existsb N.eqb].
  assert (Hf : filter (fun x : bool * N => negb (fst x)) rest = []).
  { clear - Hrt. induction rest as [|x l IH]; [reflexivity|]. cbn [forallb] in Hrt.
    apply andb_true_iff in Hrt as [Hx Hl]. cbn [filter]. rewrite Hx. cbn [negb]. now apply IH. }
  rewrite Hf. rewrite ?Ev. cbn. split; reflexivity.
Qed.
