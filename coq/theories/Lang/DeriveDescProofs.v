(* C40 — proofs about the published description and the member ids. *)
From Coq Require Import Strings.String FinFun.
From DustDDS Require Import Base.Machine Lang.DeriveModel.
From DustDDS Require KeyHash.Md5Model.
Open Scope Z_scope.

(* ------------------------------------------------------------------- ids *)

Lemma struct_ids_from_length : forall h ms idx next,
  length (struct_ids_from h idx next ms) = length ms.
Proof. induction ms as [|m r IH]; intros; cbn [struct_ids_from length]; [reflexivity|]. now rewrite IH. Qed.

Lemma struct_ids_length : forall h ms, length (struct_ids h ms) = length ms.
Proof. intros. apply struct_ids_from_length. Qed.

Definition no_explicit_id (ms : list mhead) : bool :=
  forallb (fun m => match m_id m with None => true | _ => false end) ms.

(* without hashid and without explicit ids: 0, 1, 2, ... in every extensibility kind *)
Lemma ids_auto_from : forall h ms idx next,
  no_hashid ms = true -> no_explicit_id ms = true ->
  struct_ids_from h idx next ms =
  map (fun k => match s_ext h with Mutable => next + Z.of_nat k | _ => Z.of_nat (idx + k) end) (seq 0 (length ms)).
Proof.
  induction ms as [|m r IH]; intros idx next Hn Hi; [reflexivity|].
  cbn [no_hashid no_explicit_id forallb] in Hn, Hi. apply andb_true_iff in Hn as [Hm Hr]. apply andb_true_iff in Hi as [Hi Hir].
  apply negb_true_iff in Hm.
  cbn [struct_ids_from length seq map]. rewrite Hm.
  destruct (m_id m); [discriminate|].
  rewrite IH by assumption. rewrite <- seq_shift, map_map.
  f_equal.
  - destruct (s_ext h); lia.
  - apply map_ext. intros k. destruct (s_ext h); lia.
Qed.

Lemma ids_sequential : forall h ms,
  no_hashid ms = true -> no_explicit_id ms = true ->
  struct_ids h ms = map Z.of_nat (seq 0 (length ms)).
Proof.
  intros h ms Hn Hi. unfold struct_ids. rewrite ids_auto_from by assumption.
  apply map_ext. intros k. destruct (s_ext h); lia.
Qed.

Definition clash_h_mut : shead := mkS "Reset" None Mutable false false.
Definition mk_id (n : string) (i : option Z) : mhead := mkM n i false false false false None None.

(* position-wise reading of the id rule *)
Lemma nth_ids_from : forall h ms idx next k m,
  nth_error ms k = Some m ->
  exists nx, nth_error (struct_ids_from h idx next ms) k =
    Some (if m_hashid m then hash_id (member_name h (idx + k) m)
          else match m_id m with
               | Some i => i
               | None => match s_ext h with Mutable => nx | _ => Z.of_nat (idx + k) end
               end).
Proof.
  induction ms as [|m0 r IH]; intros idx next k m Hk; [destruct k; discriminate|].
  destruct k as [|k].
  - cbn in Hk. injection Hk as <-. exists next. cbn [struct_ids_from nth_error]. now rewrite Nat.add_0_r.
  - cbn [nth_error] in Hk. cbn [struct_ids_from nth_error].
    match goal with |- context [struct_ids_from h (S idx) ?n r] => destruct (IH (S idx) n k m Hk) as [nx Hnx] end.
    exists nx. rewrite Hnx. now replace (S idx + k)%nat with (idx + S k)%nat by lia.
Qed.

(* `hashid`: the id is the little-endian u32 of the first four MD5 bytes of the name, & 0x0FFFFFFF *)
Lemma ids_hashed : forall h ms k m,
  nth_error ms k = Some m -> m_hashid m = true ->
  nth_error (struct_ids h ms) k = Some (hash_id (member_name h k m)).
Proof.
  intros h ms k m Hk Hh. destruct (nth_ids_from h ms 0 0 k m Hk) as [nx E].
  unfold struct_ids. rewrite E, Hh. reflexivity.
Qed.

(* ... and that value fits the 28 bits of an XTypes member id *)
Lemma hash_id_28bit : forall n, 0 <= hash_id n < 268435456.
Proof.
  intros n. unfold hash_id. destruct (KeyHash.Md5Model.md5 (string_bytes n)) as [|b0 [|b1 [|b2 [|b3 r]]]]; cbv iota beta; try lia.
  apply Z.mod_pos_bound. lia.
Qed.

Lemma ids_hashed_28bit : forall h ms k m,
  nth_error ms k = Some m -> m_hashid m = true ->
  exists i, nth_error (struct_ids h ms) k = Some i /\ i = hash_id (member_name h k m) /\ 0 <= i < 268435456.
Proof.
  intros h ms k m Hk Hh. exists (hash_id (member_name h k m)).
  split; [exact (ids_hashed h ms k m Hk Hh)|]. split; [reflexivity|apply hash_id_28bit].
Qed.

(* an explicit id is the member's id, in every extensibility kind (fix 7ee9e78) *)
Lemma ids_explicit : forall h ms k m i,
  nth_error ms k = Some m -> m_hashid m = false -> m_id m = Some i ->
  nth_error (struct_ids h ms) k = Some i.
Proof.
  intros h ms k m i Hk Hh Hi. destruct (nth_ids_from h ms 0 0 k m Hk) as [nx E].
  unfold struct_ids. rewrite E, Hh, Hi. reflexivity.
Qed.

(* Final / Appendable: an un-annotated member gets its index, whatever ids precede it *)
Lemma ids_auto_is_index : forall h ms k m,
  s_ext h <> Mutable -> nth_error ms k = Some m -> m_hashid m = false -> m_id m = None ->
  nth_error (struct_ids h ms) k = Some (Z.of_nat k).
Proof.
  intros h ms k m Hx Hk Hh Hi. destruct (nth_ids_from h ms 0 0 k m Hk) as [nx E].
  unfold struct_ids. rewrite E, Hh, Hi. destruct (s_ext h); try reflexivity. congruence.
Qed.

(* the sequential rule of a Mutable structure: an un-annotated member that follows an
   un-hashed member gets that member's id + 1, whatever ids were handed out earlier
   (the counter is NOT monotonic: a lower explicit id resets it) *)
Lemma ids_auto_previous_plus_one_from : forall h ms idx next k m0 m,
  s_ext h = Mutable ->
  nth_error ms k = Some m0 -> nth_error ms (S k) = Some m ->
  m_hashid m0 = false -> m_hashid m = false -> m_id m = None ->
  exists i, nth_error (struct_ids_from h idx next ms) k = Some i /\
            nth_error (struct_ids_from h idx next ms) (S k) = Some (i + 1).
Proof.
  intros h. induction ms as [|a r IH]; intros idx next k m0 m Hx H0 H1 Hh0 Hh Hid; [destruct k; discriminate|].
  destruct k as [|k].
  - cbn [nth_error] in H0, H1. injection H0 as ->. destruct r as [|b r]; [discriminate|]. cbn [nth_error] in H1. injection H1 as ->.
    cbn [struct_ids_from nth_error]. rewrite Hh0, Hh, Hx, Hid. eexists. split; reflexivity.
  - cbn [nth_error] in H0. cbn [struct_ids_from]. change (nth_error (?x :: ?l) (S (S k))) with (nth_error l (S k)).
    change (nth_error (?x :: ?l) (S k)) with (nth_error l k).
    eapply IH; eassumption.
Qed.

Lemma ids_auto_previous_plus_one : forall h ms k m0 m,
  s_ext h = Mutable ->
  nth_error ms k = Some m0 -> nth_error ms (S k) = Some m ->
  m_hashid m0 = false -> m_hashid m = false -> m_id m = None ->
  exists i, nth_error (struct_ids h ms) k = Some i /\ nth_error (struct_ids h ms) (S k) = Some (i + 1).
Proof. intros. eapply ids_auto_previous_plus_one_from; eassumption. Qed.

(* {#[id=10] a, b, #[id=5] c, d, e}: the lower explicit id 5 resets the counter *)
Lemma ids_reset_example :
  struct_ids clash_h_mut [mk_id "a" (Some 10); mk_id "b" None; mk_id "c" (Some 5); mk_id "d" None; mk_id "e" None]
  = [10; 11; 5; 6; 7].
Proof. reflexivity. Qed.

(* ascending explicit ids: every un-hashed id is >= the counter, the list is strictly increasing *)
Lemma ids_ascending_lower : forall h ms idx next,
  s_ext h = Mutable -> no_hashid ms = true -> ids_ascending_from next ms = true ->
  Forall (fun i => next <= i) (struct_ids_from h idx next ms) /\ NoDup (struct_ids_from h idx next ms).
Proof.
  induction ms as [|m r IH]; intros idx next Hx Hn Ha; [split; constructor|].
  cbn [no_hashid forallb] in Hn. apply andb_true_iff in Hn as [Hm Hr]. apply negb_true_iff in Hm.
  cbn [ids_ascending_from] in Ha. rewrite Hm in Ha.
  cbn [struct_ids_from]. rewrite Hm, Hx.
  destruct (m_id m) as [i|].
  - apply andb_true_iff in Ha as [Hle Ha]. apply Z.leb_le in Hle.
    destruct (IH (S idx) (i + 1) Hx Hr Ha) as [Hlow Hnd].
    split.
    + constructor; [exact Hle|]. eapply Forall_impl; [|exact Hlow]. cbn. intros. lia.
    + constructor; [|exact Hnd]. intro Hin. rewrite Forall_forall in Hlow. apply Hlow in Hin. lia.
  - destruct (IH (S idx) (next + 1) Hx Hr Ha) as [Hlow Hnd].
    split.
    + constructor; [lia|]. eapply Forall_impl; [|exact Hlow]. cbn. intros. lia.
    + constructor; [|exact Hnd]. intro Hin. rewrite Forall_forall in Hlow. apply Hlow in Hin. lia.
Qed.

Lemma NoDup_map_of_nat_seq : forall a n, NoDup (map Z.of_nat (seq a n)).
Proof.
  intros. apply FinFun.Injective_map_NoDup; [|apply seq_NoDup].
  intros x y. apply Nat2Z.inj.
Qed.

(* ids_distinct, un-hashed members: no explicit ids at all, or a Mutable structure whose
   explicit ids ascend.  (In a Final/Appendable structure an explicit id can collide with
   the INDEX of another member: see ids_clash_explicit_vs_index.) *)
Lemma ids_distinct_unhashed : forall h ms,
  no_hashid ms = true ->
  (no_explicit_id ms = true \/ (s_ext h = Mutable /\ ids_ascending ms = true)) ->
  NoDup (struct_ids h ms).
Proof.
  intros h ms Hn [Hi|[Hx Ha]].
  - rewrite ids_sequential by assumption. apply NoDup_map_of_nat_seq.
  - apply (ids_ascending_lower h ms 0 0 Hx Hn Ha).
Qed.

Lemma nodupb_NoDup : forall l, nodupb l = true <-> NoDup l.
Proof.
  induction l as [|x r IH]; cbn [nodupb].
  - split; [constructor|reflexivity].
  - rewrite andb_true_iff, negb_true_iff, IH. split.
    + intros [Hx Hr]. constructor; [|exact Hr]. intro Hin.
      assert (existsb (Z.eqb x) r = true) by (apply existsb_exists; exists x; split; [exact Hin|apply Z.eqb_refl]).
      congruence.
    + intro H. inversion H as [|? ? Hx Hr]; subst. split; [|exact Hr].
      destruct (existsb (Z.eqb x) r) eqn:E; [|reflexivity].
      apply existsb_exists in E as [y [Hy Hxy]]. apply Z.eqb_eq in Hxy. subst. contradiction.
Qed.

(* general form, hashed members included: the un-hashed ids are distinct under the
   ascending condition; the whole list is distinct iff the decidable test says so *)
Lemma ids_distinct_decided : forall h ms, nodupb (struct_ids h ms) = true <-> NoDup (struct_ids h ms).
Proof. intros. apply nodupb_NoDup. Qed.

(* the macro accepts a declaration with clashing ids (no diagnostic: `describe` is
   total) and the clash is visible in the description *)
Definition clash_h : shead := mkS "Clash" None Mutable false false.
Definition clash_m (n : string) (i : option Z) (o : bool) : mhead := mkM n i false o false false None None.
Definition clash_decl : ty :=
  TStruct clash_h [(clash_m "a" None false, TPrim PI32); (clash_m "b" (Some 0) true, TPrim PI32)].

Lemma ids_clash_accepted :
  exists d, describe clash_decl = Some d /\ map md_id (td_members d) = [0; 0] /\
            roundtrip clash_decl (VStruct [VPrim 1; VPrim 2]) = Ok (Some (VStruct [VPrim 2; VPrim 0])).
Proof. eexists. split; [reflexivity|]. split; vm_compute; reflexivity. Qed.

(* Final/Appendable: the explicit id of one member collides with the index of another *)
Lemma ids_clash_explicit_vs_index :
  struct_ids (mkS "FinalClash" None Final false false) [mk_id "a" (Some 1); mk_id "b" None] = [1; 1].
Proof. reflexivity. Qed.

(* automatic id after an explicit one collides with a later explicit id *)
Lemma ids_clash_auto_after_explicit :
  struct_ids clash_h [clash_m "a" (Some 5) false; clash_m "b" None false; clash_m "c" (Some 6) false] = [5; 6; 6].
Proof. reflexivity. Qed.

(* ------------------------------------------------------------ description *)

Lemma published_length : forall {A B} hs (xs : list A) (ys : list B),
  length xs = length hs -> length ys = length hs -> length (published hs xs) = length (published hs ys).
Proof.
  induction hs as [|m r IH]; intros xs ys Hx Hy; destruct xs, ys; try discriminate; [reflexivity|].
  cbn [published]. injection Hx as Hx. injection Hy as Hy. destruct (m_ns m); cbn [length]; auto.
Qed.

Lemma published_map : forall {A B} (f : A -> B) hs xs, published hs (map f xs) = map f (published hs xs).
Proof.
  induction hs as [|m r IH]; intros [|x xs]; try reflexivity. cbn [published map].
  destruct (m_ns m); cbn [map]; now rewrite IH.
Qed.

(* the published members are the declared ones without the non_serialized ones, in order *)
Lemma struct_mdescs_spec : forall h ms idx pidx ids,
  length ids = length ms ->
  let hs := map fst ms in
  map md_name (struct_mdescs h idx pidx ms ids) = published hs (names_from h idx hs) /\
  map md_id (struct_mdescs h idx pidx ms ids) = published hs ids /\
  map md_index (struct_mdescs h idx pidx ms ids) = map Z.of_nat (seq pidx (length (published hs hs))) /\
  map md_type (struct_mdescs h idx pidx ms ids) = published hs (map (fun m => sig_of (snd m)) ms) /\
  map md_key (struct_mdescs h idx pidx ms ids) = published hs (map m_key hs) /\
  map md_optional (struct_mdescs h idx pidx ms ids) = published hs (map m_optional hs) /\
  map md_must_understand (struct_mdescs h idx pidx ms ids) = published hs (map m_key hs) /\
  map md_tc (struct_mdescs h idx pidx ms ids) = published hs (map (fun m => tc_of (m_tc m)) hs) /\
  Forall (fun d => md_label d = [] /\ md_default_label d = false) (struct_mdescs h idx pidx ms ids).
Proof.
  induction ms as [|[m t] r IH]; intros idx pidx ids Hl.
  - destruct ids; [|discriminate]. cbn. repeat split; constructor.
  - destruct ids as [|id ids]; [discriminate|]. cbn [length] in Hl. injection Hl as Hl.
    cbn [map fst snd struct_mdescs names_from published].
    destruct (m_ns m).
    + exact (IH (S idx) pidx ids Hl).
    + destruct (IH (S idx) (S pidx) ids Hl) as (H1 & H2 & H3 & H4 & H5 & H6 & H7 & H8 & H9).
      cbn [map length seq md_name md_id md_index md_type md_key md_optional md_must_understand md_tc].
      rewrite H1, H2, H3, H4, H5, H6, H7, H8.
      repeat split; try reflexivity. constructor; [split; reflexivity|exact H9].
Qed.

Lemma describe_struct : forall h ms,
  let hs := map fst ms in
  exists d, describe (TStruct h ms) = Some d /\
    td_kind d = K_STRUCTURE /\ td_name d = tname (s_rname h) (s_cname h) /\
    td_ext d = s_ext h /\ td_nested d = s_nested h /\ td_disc d = None /\
    map md_name (td_members d) = published hs (names_from h 0 hs) /\
    map md_id (td_members d) = published hs (struct_ids h hs) /\
    map md_index (td_members d) = map Z.of_nat (seq 0 (length (published hs hs))) /\
    map md_type (td_members d) = published hs (map (fun m => sig_of (snd m)) ms) /\
    map md_key (td_members d) = published hs (map m_key hs) /\
    map md_optional (td_members d) = published hs (map m_optional hs) /\
    map md_must_understand (td_members d) = published hs (map m_key hs) /\
    map md_tc (td_members d) = published hs (map (fun m => tc_of (m_tc m)) hs).
Proof.
  intros h ms hs. eexists. split; [reflexivity|].
  cbn [td_kind td_name td_ext td_nested td_disc td_members].
  assert (Hl : length (struct_ids h (map fst ms)) = length ms) by (rewrite struct_ids_length; apply map_length).
  destruct (struct_mdescs_spec h ms 0 0 _ Hl) as (H1 & H2 & H3 & H4 & H5 & H6 & H7 & H8 & _).
  repeat split; assumption.
Qed.

(* a non_serialized member is not published: it has no entry in the description *)
Lemma non_serialized_not_published : forall h ms d,
  describe (TStruct h ms) = Some d ->
  length (td_members d) = length (filter (fun m => negb (m_ns (fst m))) ms).
Proof.
  intros h ms d Hd. destruct (describe_struct h ms) as (d' & Hd' & _ & _ & _ & _ & _ & _ & _ & Hix & _).
  rewrite Hd in Hd'. injection Hd' as <-.
  rewrite <- (map_length md_index), Hix, map_length, seq_length.
  clear. induction ms as [|[m t] r IH]; [reflexivity|]. cbn [map fst published filter].
  destruct (m_ns m); cbn [negb length]; now rewrite IH.
Qed.

Lemma union_mdescs_spec : forall vs idx,
  map md_name (union_mdescs idx vs) = map (fun v => v_name (fst v)) vs /\
  map md_id (union_mdescs idx vs) = map Z.of_nat (seq (S idx) (length vs)) /\
  map md_index (union_mdescs idx vs) = map Z.of_nat (seq (S idx) (length vs)) /\
  map md_default_label (union_mdescs idx vs) = map (fun v => v_default (fst v)) vs /\
  map md_type (union_mdescs idx vs) =
    map (fun v => match snd v with Some t => sig_of t | None => Sig K_NONE "" [] None end) vs /\
  Forall2 (fun d v => md_label d = map label_i32 (match v_cases (fst v) with [] => [md_id d] | l => l end))
          (union_mdescs idx vs) vs /\
  Forall (fun d => md_key d = false /\ md_optional d = false /\ md_must_understand d = false) (union_mdescs idx vs).
Proof.
  induction vs as [|[v p] r IH]; intros idx.
  - cbn. repeat split; constructor.
  - destruct (IH (S idx)) as (H1 & H2 & H3 & H4 & H5 & H6 & H7).
    cbn [union_mdescs map fst snd length seq md_name md_id md_index md_default_label md_type].
    rewrite H1, H2, H3, H4, H5.
    repeat split; try reflexivity.
    + constructor; [|exact H6]. cbn [md_label md_id fst]. unfold variant_labels. destruct (v_cases v); reflexivity.
    + constructor; [repeat split|exact H7].
Qed.

Lemma describe_union : forall h vs,
  exists dm vm, describe (TUnion h vs) =
                Some (mkTD K_UNION (tname (u_rname h) (u_cname h)) (u_ext h) (u_nested h)
                           (Some (Sig (kind_of_prim (u_disc h)) "" [] None)) (dm :: vm)) /\
    md_name dm = "discriminator"%string /\ md_id dm = 0 /\ md_key dm = u_dkey h /\ md_must_understand dm = true /\
    md_type dm = Sig (kind_of_prim (u_disc h)) "" [] None /\
    map md_name vm = map (fun v => v_name (fst v)) vs /\
    map md_id vm = map Z.of_nat (seq 1 (length vs)) /\
    map md_default_label vm = map (fun v => v_default (fst v)) vs /\
    map md_type vm = map (fun v => match snd v with Some t => sig_of t | None => Sig K_NONE "" [] None end) vs /\
    Forall2 (fun d v => md_label d = map label_i32 (match v_cases (fst v) with [] => [md_id d] | l => l end)) vm vs.
Proof.
  intros h vs. do 2 eexists. split; [reflexivity|].
  destruct (union_mdescs_spec vs 0) as (H1 & H2 & H3 & H4 & H5 & H6 & _).
  cbn [md_name md_id md_key md_must_understand md_type].
  repeat split; assumption.
Qed.

(* enumerations: name, nested flag and bit bound are published; the literals are NOT *)
Lemma describe_enum : forall e,
  describe (TEnum e) =
  Some (mkTD K_ENUM (tname (e_rname e) (e_cname e)) Final (e_nested e)
             (Some (Sig (kind_of_prim (bits_prim (e_bits e))) "" [] None)) []).
Proof. reflexivity. Qed.

Lemma enum_literals_not_published : forall e d, describe (TEnum e) = Some d -> td_members d = [].
Proof. intros e d H. rewrite describe_enum in H. injection H as <-. reflexivity. Qed.

(* two enumerations that differ only in their literals have the same description *)
Lemma enum_literals_refuted :
  exists e1 e2, enum_discs e1 <> enum_discs e2 /\ describe (TEnum e1) = describe (TEnum e2).
Proof.
  exists (mkE "E" None false B32 [("A"%string, Some 1)]), (mkE "E" None false B32 [("B"%string, Some 7); ("C"%string, None)]).
  split; [cbn; discriminate|reflexivity].
Qed.

(* the description is a function of the declaration that loses nothing of what it
   is meant to carry: equal descriptions imply equal names, order, flags, ids of the
   published members *)
Lemma describe_struct_injective_on_attributes : forall h ms h' ms',
  describe (TStruct h ms) = describe (TStruct h' ms') ->
  let hs := map fst ms in let hs' := map fst ms' in
  tname (s_rname h) (s_cname h) = tname (s_rname h') (s_cname h') /\ s_ext h = s_ext h' /\ s_nested h = s_nested h' /\
  published hs (names_from h 0 hs) = published hs' (names_from h' 0 hs') /\
  published hs (map m_key hs) = published hs' (map m_key hs') /\
  published hs (map m_optional hs) = published hs' (map m_optional hs') /\
  published hs (map (fun m => sig_of (snd m)) ms) = published hs' (map (fun m => sig_of (snd m)) ms') /\
  published hs (struct_ids h hs) = published hs' (struct_ids h' hs').
Proof.
  intros h ms h' ms' E hs hs'.
  destruct (describe_struct h ms) as (d & Hd & _ & Hn & Hx & Hne & _ & H1 & H2 & _ & H4 & H5 & H6 & _).
  destruct (describe_struct h' ms') as (d' & Hd' & _ & Hn' & Hx' & Hne' & _ & H1' & H2' & _ & H4' & H5' & H6' & _).
  rewrite Hd, Hd' in E. injection E as E. subst d'. subst hs hs'. cbv zeta in *.
  repeat split; congruence.
Qed.
