(* Byte-level vocabulary of the XCDR model: little/big-endian integer codecs,
   two's complement, alignment arithmetic, UTF-8 and UTF-16 transcoding of Rust
   `String`s (modelled as lists of Unicode scalar values).  Definitions only; the
   lemmas are in XcdrBytesProofs.v. *)
From DustDDS Require Export Base.Machine.
Open Scope Z_scope.

Notation "' p <- r ;; k" := (bind r (fun p => k))
  (at level 61, p pattern, r at next level, right associativity).

(* error codes (XTypesError) used by the (de)serializer *)
Definition E_NED : Z := 1.     (* NotEnoughData *)
Definition E_DATA : Z := 2.    (* InvalidData *)
Definition E_TYPE : Z := 3.    (* InvalidType *)
Definition E_ID : Z := 4.      (* InvalidId *)
Definition E_IDX : Z := 5.     (* InvalidIndex *)
Definition E_PID : Z := 6.     (* PidNotFound *)
(* panic sites *)
Definition P_TODO : Z := 1.    (* todo!() / unimplemented!() *)
Definition P_UNWRAP : Z := 2.  (* .unwrap() on Err *)
Definition P_FUEL : Z := 99.   (* model artefact: loop fuel exhausted (proved impossible) *)

Definition blen (b : list Z) : Z := Z.of_nat (length b).

Inductive endian : Type := LE | BE.

(* to_le_bytes / from_le_bytes of an n-byte unsigned integer *)
Fixpoint le_enc (n : nat) (z : Z) : list Z :=
  match n with O => [] | S n' => (z mod 256) :: le_enc n' (z / 256) end.
Fixpoint le_dec (l : list Z) : Z :=
  match l with [] => 0 | b :: t => b + 256 * le_dec t end.
Definition int_enc (e : endian) (n : nat) (z : Z) : list Z :=
  match e with LE => le_enc n z | BE => rev (le_enc n z) end.
Definition int_dec (e : endian) (l : list Z) : Z :=
  match e with LE => le_dec l | BE => le_dec (rev l) end.

(* 256^n for the widths that occur *)
Definition pow256 (n : nat) : Z := Z.pow 256 (Z.of_nat n).
(* `x as iN` of an unsigned N-bit pattern *)
Definition to_signed (n : nat) (u : Z) : Z :=
  if u <? pow256 n / 2 then u else u - pow256 n.

(* CdrWriter::pad / Reader::seek_padding: distance to the next multiple of a *)
Definition align_up (pos a : Z) : Z := (pos + a - 1) / a * a.
Definition padlen (pos a : Z) : Z := align_up pos a - pos.
Definition zeros (n : Z) : list Z := repeat 0 (Z.to_nat n).

(* ------------------------------------------------------------------ Unicode *)
Definition is_scalar (c : Z) : bool :=
  ((0 <=? c) && (c <? 55296)) || ((57344 <=? c) && (c <? 1114112)).

(* char::encode_utf8 *)
Definition utf8_char (c : Z) : list Z :=
  if c <? 128 then [c]
  else if c <? 2048 then [192 + c / 64; 128 + c mod 64]
  else if c <? 65536 then [224 + c / 4096; 128 + (c / 64) mod 64; 128 + c mod 64]
  else [240 + c / 262144; 128 + (c / 4096) mod 64; 128 + (c / 64) mod 64; 128 + c mod 64].
Fixpoint utf8_enc (s : list Z) : list Z :=
  match s with [] => [] | c :: t => utf8_char c ++ utf8_enc t end.

Definition is_cont (b : Z) : bool := (128 <=? b) && (b <? 192).
(* String::from_utf8: strict (no overlong forms, no surrogates, <= 0x10FFFF) *)
Fixpoint utf8_dec (l : list Z) : option (list Z) :=
  match l with
  | [] => Some []
  | b0 :: t0 =>
    if b0 <? 128 then option_map (cons b0) (utf8_dec t0)
    else if b0 <? 192 then None
    else if b0 <? 224 then
      match t0 with
      | b1 :: t1 =>
        let c := (b0 - 192) * 64 + (b1 - 128) in
        if is_cont b1 && (128 <=? c) then option_map (cons c) (utf8_dec t1) else None
      | _ => None
      end
    else if b0 <? 240 then
      match t0 with
      | b1 :: b2 :: t2 =>
        let c := (b0 - 224) * 4096 + (b1 - 128) * 64 + (b2 - 128) in
        if is_cont b1 && is_cont b2 && (2048 <=? c) && is_scalar c
        then option_map (cons c) (utf8_dec t2) else None
      | _ => None
      end
    else if b0 <? 248 then
      match t0 with
      | b1 :: b2 :: b3 :: t3 =>
        let c := (b0 - 240) * 262144 + (b1 - 128) * 4096 + (b2 - 128) * 64 + (b3 - 128) in
        if is_cont b1 && is_cont b2 && is_cont b3 && (65536 <=? c) && (c <? 1114112)
        then option_map (cons c) (utf8_dec t3) else None
      | _ => None
      end
    else None
  end.

(* str::encode_utf16 *)
Definition utf16_char (c : Z) : list Z :=
  if c <? 65536 then [c] else [55296 + (c - 65536) / 1024; 56320 + (c - 65536) mod 1024].
Fixpoint utf16_enc (s : list Z) : list Z :=
  match s with [] => [] | c :: t => utf16_char c ++ utf16_enc t end.
(* String::from_utf16: strict (unpaired surrogates are errors) *)
Fixpoint utf16_dec (l : list Z) : option (list Z) :=
  match l with
  | [] => Some []
  | u0 :: t0 =>
    if (u0 <? 55296) || (57344 <=? u0) then option_map (cons u0) (utf16_dec t0)
    else if u0 <? 56320 then
      match t0 with
      | u1 :: t1 =>
        if (56320 <=? u1) && (u1 <? 57344)
        then option_map (cons (65536 + (u0 - 55296) * 1024 + (u1 - 56320))) (utf16_dec t1)
        else None
      | [] => None
      end
    else None
  end.
