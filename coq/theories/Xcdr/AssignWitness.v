(* C39 proofs, part 5: the decision never panics on supported type identifiers; meaning of the
   boolean oracle `projects`; machine-checked witnesses of the recorded defect classes. *)
From DustDDS Require Import Base.Machine Xcdr.XcdrBytes Xcdr.XcdrBytesProofs Xcdr.XcdrModel
  Xcdr.XcdrProps Xcdr.XcdrProofs Xcdr.AssignModel Xcdr.AssignProofs Xcdr.AssignCorr.
Open Scope Z_scope.

(* ------------------------------------------------------------ a decision is returned *)
Lemma tid_assignable_total : forall tc t1 t2, exists b, tid_assignable tc t1 t2 = Ok b.
Proof.
  induction t1; intros t2; cbn [tid_assignable]; eauto;
    destruct t2; eauto;
    match goal with |- context [if ?c then _ else _] => destruct c end; eauto.
Qed.

Lemma zip_check_total : forall tc l1 l2, exists b, zip_check tc l1 l2 = Ok b.
Proof.
  intros tc l1. induction l1 as [|m1 r1 IH]; intros l2; [eexists; reflexivity|].
  destruct l2 as [|m2 r2]; [eexists; reflexivity|]. cbn [zip_check].
  destruct (negb (sm_id m1 =? sm_id m2)); [eauto|].
  destruct (negb (tc_ign_names tc) && negb (sm_name m1 =? sm_name m2)); [eauto|].
  destruct (negb (Bool.eqb (sm_optional m1) (sm_optional m2))); [eauto|].
  destruct (tid_assignable_total tc (sm_tid m1) (sm_tid m2)) as [b ->]. cbn [bind].
  destruct b; [apply IH|eauto].
Qed.

Lemma members_check_total : forall tc ms1 l2 acc, exists r, members_check tc ms1 l2 acc = Ok r.
Proof.
  intros tc ms1 l2. induction l2 as [|m2 r2 IH]; intros acc; [eexists; reflexivity|].
  cbn [members_check]. destruct (find_sm (sm_id m2) ms1) as [m1|].
  - destruct (negb (tc_ign_names tc) && negb (sm_name m1 =? sm_name m2)); [eauto|].
    destruct (tid_assignable_total tc (sm_tid m1) (sm_tid m2)) as [b ->]. cbn [bind]. apply IH.
  - destruct (negb (tc_ign_names tc) && has_name ms1 (sm_name m2)); [eauto|]. apply IH.
Qed.

(* the decision never panics, whatever the two type objects (hostile flags and type
   identifiers included) *)
Theorem assignable_total : forall tc t1 t2, exists b, struct_assignable tc t1 t2 = Ok b.
Proof.
  intros tc t1 t2. unfold struct_assignable. destruct (stype_eqb t1 t2); [eauto|].
  unfold struct_rules. cbv zeta.
  match goal with |- context [if ?c then Ok false else _] => destruct c end; [eauto|].
  assert (Hz : exists z, (if negb (st_mutable t1) && negb (st_mutable t2)
                          then zip_check tc (st_members t1) (st_members t2) else Ok true) = Ok z).
  { destruct (negb (st_mutable t1) && negb (st_mutable t2)); [apply zip_check_total|eauto]. }
  destruct Hz as [z ->]. cbn [bind]. destruct (negb z); [eauto|].
  destruct (negb (st_mutable t1) && negb (st_mutable t2) && st_final t1 && st_final t2); [eauto|].
  destruct (negb (existsb (fun x => has_id (st_members t1) (sm_id x)) (st_members t2))); [eauto|].
  destruct (members_check_total tc (st_members t1) (st_members t2) true) as [r ->]. cbn [bind].
  destruct r; [|eauto].
  destruct (mu_missing (st_members t1) (st_members t2) || mu_missing (st_members t2) (st_members t1)); [eauto|].
  destruct (key_missing (st_members t1) (st_members t2) || key_missing (st_members t2) (st_members t1)); eauto.
Qed.

(* ------------------------------------------------------------ what `projects` means *)
Theorem projects_spec : forall t1 xv d, projects t1 xv d = true <->
  (forall m, In m (ad_members t1) ->
     match lookup (am_id m) xv with
     | Some x => lookup (am_id m) d = Some x
     | None => lookup (am_id m) d = None \/
               (exists z, default_val (ty_of_aty (am_ty m)) = Some z /\ lookup (am_id m) d = Some z)
     end) /\
  (forall k, In k (keys d) -> In k (aids (ad_members t1))).
Proof.
  intros t1 xv d. unfold projects. rewrite andb_true_iff, !forallb_forall. split.
  - intros [Hm Hk]. split.
    + intros m Hin. specialize (Hm m Hin). unfold member_agrees in Hm.
      destruct (lookup (am_id m) xv) as [x|], (lookup (am_id m) d) as [y|]; try discriminate; auto.
      * apply val_eqb_eq in Hm. now subst.
      * right. destruct (default_val (ty_of_aty (am_ty m))) as [z|]; [|discriminate].
        apply val_eqb_eq in Hm. subst. eauto.
    + intros k Hin. apply mem_true_iff. now apply Hk.
  - intros [Hm Hk]. split.
    + intros m Hin. specialize (Hm m Hin). unfold member_agrees.
      destruct (lookup (am_id m) xv) as [x|].
      * rewrite Hm. now apply val_eqb_eq.
      * destruct Hm as [-> | [z [Hz ->]]]; [reflexivity|]. rewrite Hz. now apply val_eqb_eq.
    + intros k Hin. apply mem_true_iff. now apply Hk.
Qed.

(* ------------------------------------------------------------ witnesses of the findings *)
Definition mi (id : Z) : minfo := mkM id false false false false [].
Definition am (id name : Z) (a : aty) : amember := mkAM (mi id) name false a.

(* the reader type is declared assignable from the writer type, yet the sample x of the
   writer type does not decode into its projection *)
Definition refuted (v : ver) (t1 t2 : adesc) (x : dyn) : Prop :=
  wf_ty (ty_of t1) = true /\ wf_ty (ty_of t2) = true /\ wt (ty_of t2) (VData x) = true /\
  exists bs, encode v LE (ty_of t2) (VData x) = Ok bs /\
    match decode (ty_of t1) bs with
    | Ok (VData d) => projects t1 x d = false
    | _ => True
    end.

(* class 1: final {long x} := final {Inner x}, Inner = final {long long y} *)
Definition w1_inner : ty := TStruct Final [(mi 0, TPrim PI64)].
Definition w1_t1 : adesc := mkAD Final 1 [am 0 0 (APrim PI32)].
Definition w1_t2 : adesc := mkAD Final 1 [am 0 0 (ANested w1_inner)].
Definition w1_x : dyn := [(0, VData [(0, VP KI64 4294967298)])].
Lemma witness_int_from_hashed :
  (forall h, struct_assignable tce_default (cto_of w1_t1) (mkST 1 1 [mkSM 0 1 0 (EkComplete h)]) = Ok true) /\
  refuted V2 w1_t1 w1_t2 w1_x /\
  C39_known (mkC39 (Ev V2 LE tce_default w1_t1 w1_t2 (VData w1_x)) (OAs (Ok true))) = 1%N.
Proof. split; [reflexivity|]. split; [|reflexivity]. repeat split; try reflexivity. eexists. split; reflexivity. Qed.

(* class 2: final {A x} := final {B x} for unrelated A = {long a}, B = {string s} *)
Definition w2_t1 : adesc := mkAD Final 1 [am 0 0 (ANested (TStruct Final [(mi 0, TPrim PI32)]))].
Definition w2_t2 : adesc := mkAD Final 1 [am 0 0 (ANested (TStruct Final [(mi 0, TStr)]))].
Definition w2_x : dyn := [(0, VData [(0, VStr [104; 105])])].
Lemma witness_nested_unchecked :
  (forall h1 h2, struct_assignable tce_default (mkST 1 1 [mkSM 0 1 0 (EkComplete h1)])
                                   (mkST 1 1 [mkSM 0 1 0 (EkComplete h2)]) = Ok true) /\
  refuted V2 w2_t1 w2_t2 w2_x /\
  C39_known (mkC39 (Ev V2 LE tce_default w2_t1 w2_t2 (VData w2_x)) (OAs (Ok true))) = 2%N.
Proof.
  split.
  - intros h1 h2. unfold struct_assignable. destruct (stype_eqb _ _); reflexivity.
  - split; [|reflexivity]. repeat split; try reflexivity. eexists. split; reflexivity.
Qed.

(* former classes 3 and 4, repaired in /repo (e71c8f0, 1abc6cd): the regression inputs now decode
   into the projection.  3: final {Inner a; long b} with the writer's Inner = appendable
   {long x; long y} and the reader's Inner = appendable {long x} (and the other way round);
   4: member ids that agree modulo 65536 *)
Definition w3_in1 : ty := TStruct Appendable [(mi 0, TPrim PI32)].
Definition w3_in2 : ty := TStruct Appendable [(mi 0, TPrim PI32); (mi 1, TPrim PI32)].
Definition w3_t1 : adesc := mkAD Final 1 [am 0 0 (ANested w3_in1); am 1 1 (APrim PI32)].
Definition w3_t2 : adesc := mkAD Final 1 [am 0 0 (ANested w3_in2); am 1 1 (APrim PI32)].
Definition w3_x : dyn := [(0, VData [(0, VP KI32 5); (1, VP KI32 6)]); (1, VP KI32 77)].
Definition w3_y : dyn := [(0, VData [(0, VP KI32 5)]); (1, VP KI32 77)].
Definition w4_t1 : adesc := mkAD Mutable 1 [am 1 1 (APrim PI32); am 65537 2 (APrim PI32)].
Definition w4_t2 : adesc := mkAD Mutable 1 [am 65537 2 (APrim PI32)].
Definition w4_x : dyn := [(65537, VP KI32 9)].
Lemma repaired_decoding :
  (exists bs, encode V2 LE (ty_of w3_t2) (VData w3_x) = Ok bs /\
              decode (ty_of w3_t1) bs = Ok (VData w3_y) /\ projects_n w3_t1 w3_x w3_y = true) /\
  (exists bs, encode V2 LE (ty_of w3_t1) (VData w3_y) = Ok bs /\
              decode (ty_of w3_t2) bs = Ok (VData w3_y) /\ projects_n w3_t2 w3_y w3_y = true) /\
  struct_assignable tce_default (cto_of w4_t1) (cto_of w4_t2) = Ok true /\
  (exists bs, encode V2 LE (ty_of w4_t2) (VData w4_x) = Ok bs /\
              decode (ty_of w4_t1) bs = Ok (VData w4_x) /\ projects w4_t1 w4_x w4_x = true).
Proof. repeat split; try reflexivity; eexists; repeat split; reflexivity. Qed.

(* former class 5 (todo!() on TkNone / maps / SCC / extended identifiers), repaired in /repo
   (abb552f): such a member type is simply not assignable; a type object that has one is still
   assignable from itself through the equality shortcut only *)
Lemma unsupported_rejected :
  struct_assignable tce_default (mkST 1 1 [mkSM 0 1 0 TkNone]) (mkST 1 2 [mkSM 0 1 0 TkInt32]) = Ok false /\
  struct_assignable tce_default (mkST 1 1 [mkSM 0 1 0 TiMapSmall]) (mkST 1 2 [mkSM 0 1 0 TkInt32]) = Ok false /\
  struct_assignable tce_default (mkST 1 1 [mkSM 0 1 0 TiScc]) (mkST 1 2 [mkSM 0 1 0 TkInt32]) = Ok false /\
  struct_assignable tce_default (mkST 1 1 [mkSM 0 1 0 TiDefault]) (mkST 1 2 [mkSM 0 1 0 TkInt32]) = Ok false /\
  struct_assignable tce_default (mkST 1 1 [mkSM 0 1 0 TkNone]) (mkST 1 1 [mkSM 0 1 0 TkNone]) = Ok true /\
  struct_rules tce_default (mkST 1 1 [mkSM 0 1 0 TkNone]) (mkST 1 1 [mkSM 0 1 0 TkNone]) = Ok false.
Proof. repeat split; reflexivity. Qed.

(* former class 6, repaired in /repo (05c4a3c): a member optional on one side only is rejected
   for FINAL / APPENDABLE types (MUTABLE types look members up by id: still accepted) *)
Definition w6_t1 : adesc := mkAD Appendable 1 [mkAM (mkM 0 true false false false []) 0 false (APrim PI32)].
Definition w6_t2 : adesc := mkAD Appendable 1 [am 0 0 (APrim PI32)].
Lemma optional_mismatch_rejected :
  struct_assignable tce_default (cto_of w6_t1) (cto_of w6_t2) = Ok false /\
  struct_assignable tce_default (cto_of w6_t2) (cto_of w6_t1) = Ok false /\
  struct_assignable tce_default (cto_of (mkAD Mutable 1 (ad_members w6_t1)))
                                (cto_of (mkAD Mutable 1 (ad_members w6_t2))) = Ok true.
Proof. repeat split; reflexivity. Qed.

(* on the flat family the nested projection used by the oracle is `projects` *)
Lemma projects_n_flat : forall t1 xv d, flat_desc t1 = true -> projects_n t1 xv d = projects t1 xv d.
Proof.
  intros t1 xv d Hf. unfold projects_n, projects. f_equal.
  unfold flat_desc in Hf. apply andb_prop in Hf as [Hf _]. apply andb_prop in Hf as [Hf _].
  rewrite forallb_forall in Hf.
  assert (H : forall l, incl l (ad_members t1) -> forallb (member_agrees_n xv d) l = forallb (member_agrees xv d) l).
  { induction l as [|m r IH]; intros Hi; [reflexivity|]. cbn [forallb].
    rewrite IH by (intros x Hx; apply Hi; now right). f_equal.
    specialize (Hf m (Hi m (or_introl eq_refl))). apply andb_prop in Hf as [Hfl _].
    unfold member_agrees_n, member_agrees.
    destruct (am_ty m) as [p| | |]; try discriminate; reflexivity. }
  apply H. apply incl_refl.
Qed.

(* class 7: the typed sample of a reader whose type was extended (derive types A2 := A1) *)
Definition w7_t1 : adesc := mkAD Appendable 2 [am 0 0 (APrim PI32); am 1 1 (APrim PI32)].
Definition w7_t2 : adesc := mkAD Appendable 1 [am 0 0 (APrim PI32)].
Definition w7_x : dyn := [(0, VP KI32 5)].
Lemma witness_typed_none :
  struct_assignable tce_default (cto_of w7_t1) (cto_of w7_t2) = Ok true /\
  flat_desc w7_t1 = true /\ flat_desc w7_t2 = true /\ evolves tce_default w7_t1 w7_t2 = true /\
  (exists bs, encode V2 LE (ty_of w7_t2) (VData w7_x) = Ok bs /\
              decode (ty_of w7_t1) bs = Ok (VData [(0, VP KI32 5)]) /\
              projects w7_t1 w7_x [(0, VP KI32 5)] = true /\
              typed_sample w7_t1 [(0, VP KI32 5)] = None) /\
  (* with try_construct = USE_DEFAULT on the new member the sample is delivered with the default *)
  typed_sample (mkAD Appendable 3 [am 0 0 (APrim PI32); mkAM (mi 1) 1 true (APrim PI32)]) [(0, VP KI32 5)]
    = Some [(0, VP KI32 5); (1, VP KI32 0)] /\
  C39_known (mkC39 (Ty V2 LE tce_default w7_t1 w7_t2 (VData w7_x)) (OAs (Ok true))) = 7%N.
Proof. repeat split; try reflexivity. eexists. repeat split; reflexivity. Qed.

(* outside class 7: the typed sample is delivered when every member the decoded data lacks is
   optional or try_construct = USE_DEFAULT *)
Lemma typed_sample_delivered : forall t1 d,
  (forall m, In m (ad_members t1) ->
     lookup (am_id m) d <> None \/ m_opt (am_info m) = true \/ am_use_default m = true) ->
  exists s, typed_sample t1 d = Some s.
Proof.
  intros t1 d H. unfold typed_sample.
  assert (Hall : forallb (typed_member_ok d) (ad_members t1) = true).
  { apply forallb_forall. intros m Hm. unfold typed_member_ok.
    destruct (lookup (am_id m) d) eqn:Hl; [reflexivity|].
    destruct (H m Hm) as [Hc | [-> | ->]]; [congruence|reflexivity|apply Bool.orb_true_r]. }
  rewrite Hall. eauto.
Qed.

(* the DESIGN.md candidate D35 (integer widening) is NOT present in this tree *)
Lemma no_integer_widening :
  struct_assignable tce_default (mkST 1 1 [mkSM 0 1 0 TkInt32]) (mkST 1 1 [mkSM 0 1 0 TkInt64]) = Ok false /\
  struct_assignable tce_default (mkST 1 1 [mkSM 0 1 0 TkInt32]) (mkST 1 1 [mkSM 0 1 0 TkInt16]) = Ok false /\
  struct_assignable tce_default (mkST 1 1 [mkSM 0 1 0 TkInt32]) (mkST 1 1 [mkSM 0 1 0 TkUint32]) = Ok false.
Proof. repeat split; reflexivity. Qed.

(* ------------------------------------------------------------ non-vacuity examples *)
Definition ex_a1 : adesc := mkAD Appendable 1 [am 0 0 (APrim PU8); am 1 1 (AStr 0)].
Definition ex_a2 : adesc := mkAD Appendable 1 [am 0 0 (APrim PU8); am 1 1 (AStr 0); am 2 2 (APrim PI64)].
Definition ex_ax : dyn := [(0, VP KU8 7); (1, VStr [104; 105]); (2, VP KI64 (-3))].
Definition ex_m1 : adesc := mkAD Mutable 1 [am 5 5 (APrim PI32); am 1 1 (APrim PU8); am 9 9 (AStr 0)].
Definition ex_m2 : adesc := mkAD Mutable 1 [am 9 9 (AStr 0); am 7 7 (APrim PI64); am 1 1 (APrim PU8)].
Definition ex_mx : dyn := [(1, VP KU8 200); (7, VP KI64 (-3)); (9, VStr [104; 105])].
Lemma ex_nonvacuous :
  flat_desc ex_a1 = true /\ flat_desc ex_a2 = true /\
  struct_assignable tce_default (cto_of ex_a1) (cto_of ex_a2) = Ok true /\
  struct_assignable tce_default (cto_of ex_a2) (cto_of ex_a1) = Ok true /\
  wt (ty_of ex_a2) (VData ex_ax) = true /\
  (exists bs, encode V2 LE (ty_of ex_a2) (VData ex_ax) = Ok bs /\
              decode (ty_of ex_a1) bs = Ok (VData [(0, VP KU8 7); (1, VStr [104; 105])])) /\
  flat_desc ex_m1 = true /\ flat_desc ex_m2 = true /\
  struct_assignable tce_default (cto_of ex_m1) (cto_of ex_m2) = Ok true /\
  wt (ty_of ex_m2) (VData ex_mx) = true /\ small_dyn ex_mx = true /\
  (exists bs, encode V2 LE (ty_of ex_m2) (VData ex_mx) = Ok bs /\
              decode (ty_of ex_m1) bs = Ok (VData [(1, VP KU8 200); (9, VStr [104; 105])])).
Proof. repeat split; try reflexivity; eexists; split; reflexivity. Qed.
