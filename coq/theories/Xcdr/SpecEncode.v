(* C10 oracle: a second XCDR encoder written from the rule table of DDS-XTypes 1.3, 7.4.3.5.3
   (rules (1)-(20), (29), (30)) and the encapsulation header of 7.6.3.1.2 -- NOT from
   serializer.rs and not sharing the structure of XcdrModel.v: it is a total function from
   (type, value, offset from the alignment origin) to octets, driven by the TYPE members
   (not by the stored value), with ALIGN written as the residue (-offset) mod alignment and
   sizes taken from the produced octets.  Only the vocabulary of types/values and the
   integer-to-octets function are shared.  It is OUR reading of the standard (no independent
   DDS implementation exists in the sandbox), hence C10 is claimed as partial.

   Scope ("common subset"): primitives, string, wstring, enumerations, sequences, arrays,
   FINAL and APPENDABLE structures, optional members; XCDR1 and XCDR2.  MUTABLE structures
   and unions are outside (the implementation is known not to round-trip there, see C09). *)
From DustDDS Require Export Base.Machine Xcdr.XcdrBytes Xcdr.XcdrModel Xcdr.XcdrProps.
Open Scope Z_scope.

Section Spec.
Variable V : ver.
Variable E : endian.

(* Table 38: MAXALIGN(eversion) *)
Definition MAXALIGN : Z := match V with V1 => 8 | V2 => 4 end.
(* ALIGN(n): zero octets up to the next offset (from the origin) divisible by min(n, MAXALIGN) *)
Definition ALIGN (n o : Z) : list Z := zeros ((- o) mod (Z.min n MAXALIGN)).

Definition prim_size (p : prim) : Z :=
  match p with
  | PBool | PByte | PU8 | PI8 | PChar8 => 1
  | PU16 | PI16 => 2
  | PU32 | PI32 | PF32 => 4
  | PU64 | PI64 | PF64 => 8
  | PF128 => 16
  end.
(* rule (2): ALIGN(O.ssize) then the octets of the value in the stream's byte order
   (Boolean: 0 / 1; Char8 and Byte: one octet) *)
Definition PRIM (p : prim) (z : Z) (o : Z) : list Z :=
  ALIGN (prim_size p) o ++ int_enc E (Z.to_nat (prim_size p)) z.

(* concatenation of the encodings of a list, each at the offset reached so far *)
Fixpoint cat {A} (f : A -> Z -> list Z) (l : list A) (o : Z) : list Z :=
  match l with
  | [] => []
  | a :: r => let b := f a o in b ++ cat f r (o + blen b)
  end.

(* rule (3): length including the terminating NUL, octets, NUL *)
Definition STRING (s : list Z) (o : Z) : list Z :=
  let bs := utf8_enc s in PRIM PU32 (blen bs + 1) o ++ bs ++ [0].
(* rule (4), as we read it: ssize = number of OCTETS of the Char16 units, no terminator
   (this differs from what the implementation writes: number of units + 1 and a NUL unit) *)
Definition WSTRING (s : list Z) (o : Z) : list Z :=
  let us := utf16_enc s in
  let h := PRIM PU32 (2 * blen us) o in
  h ++ cat (PRIM PU16) us (o + blen h).

(* DHEADER(O): UInt32 = serialized size of what follows *)
Definition DHEADER (body : Z -> list Z) (o : Z) : list Z :=
  let a := ALIGN 4 o in
  let b := body (o + blen a + 4) in
  a ++ int_enc E 4 (blen b) ++ b.

Definition zval (v : val) : Z := match v with VP _ z => z | _ => 0 end.
Definition sval (v : val) : list Z := match v with VStr s => s | _ => [] end.
Definition dval (v : val) : dyn := match v with VData d => d | _ => [] end.

(* { O[i] : O.element_type }* *)
Definition ELEMS (e : ty) (rec : val -> Z -> list Z) (v : val) (o : Z) : list Z :=
  match e, v with
  | TPrim p, VSeqP _ l => cat (PRIM p) l o
  | TStr, VSeqStr l => cat STRING l o
  | TWStr, VSeqStr l => cat WSTRING l o
  | _, VSeqData l => cat (fun d => rec (VData d)) l o
  | _, _ => []
  end.
(* rules (11) (12) (13) *)
Definition SEQUENCE (e : ty) (rec : val -> Z -> list Z) (v : val) (o : Z) : list Z :=
  let body := fun o' => let h := PRIM PU32 (seq_length v) o' in h ++ ELEMS e rec v (o' + blen h) in
  match e, V with
  | TPrim _, _ => body o
  | _, V1 => body o
  | _, V2 => DHEADER body o
  end.
(* rules (8) (9) (10) *)
Definition ARRAY (e : ty) (rec : val -> Z -> list Z) (v : val) (o : Z) : list Z :=
  match e, V with
  | TPrim _, _ => ELEMS e rec v o
  | _, V1 => ELEMS e rec v o
  | _, V2 => DHEADER (ELEMS e rec v) o
  end.

(* rule (19)+(24): XCDR1 optional member = parameter with short header; the value is aligned
   from a fresh origin, which is popped again after the member *)
Definition PLMEMBER (m : minfo) (rec : val -> Z -> list Z) (ov : option val) (o : Z) : list Z :=
  let body := match ov with Some v => rec v 0 | None => [] end in
  ALIGN 4 o ++ int_enc E 2 (m_id m + (if m_mu m then 16384 else 0)) ++ int_enc E 2 (blen body) ++ body.
(* rules (18) (19) (20) *)
Definition MEMBER (m : minfo) (rec : val -> Z -> list Z) (ov : option val) (o : Z) : list Z :=
  if m_opt m then
    match V with
    | V1 => PLMEMBER m rec ov o
    | V2 => match ov with
            | Some v => let h := PRIM PBool 1 o in h ++ rec v (o + blen h)
            | None => PRIM PBool 0 o
            end
    end
  else match ov with Some v => rec v o | None => [] end.

Fixpoint spec_ty (t : ty) (v : val) (o : Z) {struct t} : list Z :=
  match t with
  | TPrim p => PRIM p (zval v) o
  | TStr => STRING (sval v) o
  | TWStr => WSTRING (sval v) o
  | TEnum h _ => PRIM h (match dval v with (_, x) :: _ => zval x | [] => 0 end) o     (* rule (5) *)
  | TSeq e => SEQUENCE e (spec_ty e) v o
  | TArr _ e => ARRAY e (spec_ty e) v o
  | TStruct x ms =>
    let members :=
      (fix go (ms : list (minfo * ty)) (o : Z) : list Z :=
         match ms with
         | [] => []
         | (m, t') :: r =>
           let b := MEMBER m (spec_ty t') (lookup (m_id m) (dval v)) o in b ++ go r (o + blen b)
         end) ms in
    match x with
    | Final => members o                                            (* rule (17) *)
    | Appendable => match V with V1 => members o                    (* rule (29) *)
                               | V2 => DHEADER members o end        (* rule (30) *)
    | Mutable => []                                                 (* outside the common subset *)
    end
  | TUnion _ _ _ => []                                              (* outside the common subset *)
  end.

End Spec.

(* Table 39 / 7.6.3.1.2: representation identifier *)
Definition ENC_ID (v : ver) (e : endian) (x : ext) : Z :=
  match v, x, e with
  | V1, Mutable, BE => 2 | V1, Mutable, LE => 3
  | V1, _, BE => 0 | V1, _, LE => 1
  | V2, Final, BE => 6 | V2, Final, LE => 7
  | V2, Appendable, BE => 8 | V2, Appendable, LE => 9
  | V2, Mutable, BE => 10 | V2, Mutable, LE => 11
  end.
(* rule (1) + encapsulation: {0, id}, options whose low bits give the number of padding octets
   appended to reach a multiple of 4 *)
Definition spec_encode (v : ver) (e : endian) (t : ty) (x : val) : list Z :=
  let body := spec_ty v e t x 0 in
  let n := (- (4 + blen body)) mod 4 in
  [0; ENC_ID v e (ty_ext t); 0; n] ++ body ++ zeros n.

(* ---------------------------------------------------------------- scope of the comparison *)
Definition is_wstr (t : ty) : bool := match t with TWStr => true | _ => false end.
(* outside the subset on which implementation and specification encoder are PROVED equal and the
   implementation reads the bytes back: unions and mutable types (not compared at all), wide
   strings (rule (4) read differently), and in XCDR1 the optional members the short parameter
   encoding cannot carry (empty values: C09 class 5; ids >= 2^14: not supported) *)
Definition cbad (V : ver) (t : ty) : bool :=
  is_union t || is_mutable t || is_wstr t ||
  (match V with V1 => opt_empty_trap t || pl_long t | V2 => false end).
Definition common (V : ver) (t : ty) : bool := wf_ty t && negb (ty_any (cbad V) t).

(* classes of differences recorded for C10 (0 = none).  Classes 1 (char8 >= 0x80 written as
   UTF-8), 3 (XCDR1 optional member: alignment origin not popped) and 4 (XCDR1 float128 not read
   back) were repaired in /repo (c6ffb24, addc370, 0b5427b); the remaining number is kept:
   2 wide string format *)
Definition c10_class (v : ver) (t : ty) (x : val) : N :=
  if ty_any is_wstr t then 2%N else 0%N.
