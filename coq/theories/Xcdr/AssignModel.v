(* C39 — model of the assignability decision of dds/src/xtypes/type_object.rs
   (TypeIdentifier::is_assignable_from_w_type_consistency, lines 2435-2651, and the structure
   branch of CompleteTypeObject::is_assignable_from_w_type_consistency, lines 2665-2846), of
   the conversion DynamicType -> CompleteTypeObject (type_object.rs:2008-2036, 2144-2339) for
   structures of primitives, strings and nested aggregated types, and the vocabulary of type
   evolution: decoding bytes written with a WRITER type T2 with a READER type T1 uses the XCDR
   codec model of Xcdr/XcdrModel.v (serializer.rs / deserializer.rs) unchanged.
   Definitions only. *)
From DustDDS Require Export Base.Machine Xcdr.XcdrBytes Xcdr.XcdrModel Xcdr.XcdrProps.
Open Scope Z_scope.

(* ------------------------------------------------- TypeConsistencyEnforcementQosPolicy *)
(* qos_policy.rs:1587-1605.  prevent_type_widening, force_type_validation and kind are never
   read by the assignability code; they are fields of the model for that reason only. *)
Record tce : Type := mkTce {
  tc_ign_seq : bool;            (* ignore_sequence_bounds *)
  tc_ign_str : bool;            (* ignore_string_bounds *)
  tc_ign_names : bool;          (* ignore_member_names *)
  tc_prevent_widening : bool;
  tc_force_validation : bool;
  tc_disallow_coercion : bool   (* kind = DISALLOW_TYPE_COERCION *)
}.
(* TypeConsistencyEnforcementQosPolicy::const_default *)
Definition tce_default : tce := mkTce true true false false false false.

(* ------------------------------------------------------------------ TypeIdentifier *)
(* Equivalence hashes are opaque tokens: the code only compares them for equality. *)
Inductive tid : Type :=
| TkNone | TkBoolean | TkByte | TkInt8 | TkUint8 | TkInt16 | TkUint16 | TkInt32 | TkUint32
| TkInt64 | TkUint64 | TkFloat32 | TkFloat64 | TkFloat128 | TkChar8 | TkChar16
| TiString8Small (b : Z) | TiString8Large (b : Z)
| TiString16Small (b : Z) | TiString16Large (b : Z)
| TiSeqSmall (b : Z) (e : tid) | TiSeqLarge (b : Z) (e : tid)
| TiArrSmall (bs : list Z) (e : tid) | TiArrLarge (bs : list Z) (e : tid)
| TiMapSmall | TiMapLarge | TiScc
| EkComplete (h : Z) | EkMinimal (h : Z)
| TiDefault.

Definition is_ek (t : tid) : bool :=
  match t with EkComplete _ | EkMinimal _ => true | _ => false end.
(* the integer kinds listed in the EkComplete / EkMinimal arms (2623-2648) *)
Definition is_int_tid (t : tid) : bool :=
  match t with
  | TkByte | TkInt8 | TkUint8 | TkInt16 | TkUint16 | TkInt32 | TkUint32 | TkInt64 | TkUint64 => true
  | _ => false
  end.
(* `ignore || t1.bound == 0 || (t2.bound != 0 && t1.bound >= t2.bound)` *)
Definition bound_ok (ign : bool) (b1 b2 : Z) : bool :=
  ign || (b1 =? 0) || (negb (b2 =? 0) && (b2 <=? b1)).

Fixpoint list_z_eqb (a b : list Z) : bool :=
  match a, b with
  | [], [] => true
  | x :: r, y :: s => (x =? y) && list_z_eqb r s
  | _, _ => false
  end.

(* TypeIdentifier::is_assignable_from_w_type_consistency: self = t1, other = t2 *)
Fixpoint tid_assignable (tc : tce) (t1 t2 : tid) {struct t1} : res bool :=
  match t1 with
  | TkNone => Ok false        (* identifiers the code cannot compare are not assignable (abb552f) *)
  | TkBoolean => Ok (match t2 with TkBoolean => true | _ => false end)
  | TkByte => Ok (match t2 with TkByte => true | _ => is_ek t2 end)
  | TkInt8 => Ok (match t2 with TkInt8 => true | _ => is_ek t2 end)
  | TkUint8 => Ok (match t2 with TkUint8 => true | _ => is_ek t2 end)
  | TkInt16 => Ok (match t2 with TkInt16 => true | _ => is_ek t2 end)
  | TkUint16 => Ok (match t2 with TkUint16 => true | _ => is_ek t2 end)
  | TkInt32 => Ok (match t2 with TkInt32 => true | _ => is_ek t2 end)
  | TkUint32 => Ok (match t2 with TkUint32 => true | _ => is_ek t2 end)
  | TkInt64 => Ok (match t2 with TkInt64 => true | _ => is_ek t2 end)
  | TkUint64 => Ok (match t2 with TkUint64 => true | _ => is_ek t2 end)
  | TkFloat32 => Ok (match t2 with TkFloat32 => true | _ => false end)
  | TkFloat64 => Ok (match t2 with TkFloat64 => true | _ => false end)
  | TkFloat128 => Ok (match t2 with TkFloat128 => true | _ => false end)
  | TkChar8 => Ok (match t2 with TkChar8 => true | _ => false end)
  | TkChar16 => Ok (match t2 with TkChar16 => true | _ => false end)
  | TiString8Small b1 | TiString8Large b1 =>
    Ok (match t2 with
        | TiString8Small b2 | TiString8Large b2 => bound_ok (tc_ign_str tc) b1 b2
        | _ => false
        end)
  | TiString16Small b1 | TiString16Large b1 =>
    Ok (match t2 with
        | TiString16Small b2 | TiString16Large b2 => bound_ok (tc_ign_str tc) b1 b2
        | _ => false
        end)
  | TiSeqSmall b1 e1 | TiSeqLarge b1 e1 =>
    match t2 with
    | TiSeqSmall b2 e2 | TiSeqLarge b2 e2 =>
      (* `bounds_ok && element.is_assignable(..)`: the right operand is not evaluated when bounds_ok is false *)
      if bound_ok (tc_ign_seq tc) b1 b2 then tid_assignable tc e1 e2 else Ok false
    | _ => Ok false
    end
  | TiArrSmall bs1 e1 =>
    match t2 with
    | TiArrSmall bs2 e2 => if list_z_eqb bs1 bs2 then tid_assignable tc e1 e2 else Ok false
    | _ => Ok false
    end
  | TiArrLarge bs1 e1 =>
    match t2 with
    | TiArrLarge bs2 e2 => if list_z_eqb bs1 bs2 then tid_assignable tc e1 e2 else Ok false
    | _ => Ok false
    end
  | TiMapSmall => Ok false
  | TiMapLarge => Ok false
  | TiScc => Ok false
  | EkComplete _ => Ok (match t2 with EkComplete _ => true | _ => is_int_tid t2 end)
  | EkMinimal _ => Ok (match t2 with EkMinimal _ => true | _ => is_int_tid t2 end)
  | TiDefault => Ok false
  end.

(* derived PartialEq of TypeIdentifier *)
Fixpoint tid_eqb (a b : tid) {struct a} : bool :=
  match a, b with
  | TkNone, TkNone | TkBoolean, TkBoolean | TkByte, TkByte | TkInt8, TkInt8 | TkUint8, TkUint8
  | TkInt16, TkInt16 | TkUint16, TkUint16 | TkInt32, TkInt32 | TkUint32, TkUint32
  | TkInt64, TkInt64 | TkUint64, TkUint64 | TkFloat32, TkFloat32 | TkFloat64, TkFloat64
  | TkFloat128, TkFloat128 | TkChar8, TkChar8 | TkChar16, TkChar16
  | TiMapSmall, TiMapSmall | TiMapLarge, TiMapLarge | TiScc, TiScc | TiDefault, TiDefault => true
  | TiString8Small x, TiString8Small y | TiString8Large x, TiString8Large y
  | TiString16Small x, TiString16Small y | TiString16Large x, TiString16Large y
  | EkComplete x, EkComplete y | EkMinimal x, EkMinimal y => x =? y
  | TiSeqSmall x e, TiSeqSmall y f | TiSeqLarge x e, TiSeqLarge y f => (x =? y) && tid_eqb e f
  | TiArrSmall x e, TiArrSmall y f | TiArrLarge x e, TiArrLarge y f => list_z_eqb x y && tid_eqb e f
  | _, _ => false
  end.

(* ------------------------------------------------------- CompleteStructType (TypeObject) *)
(* member names and type names are tokens: the code only compares them for equality *)
Record smember : Type := mkSM {
  sm_id : Z;        (* common.member_id *)
  sm_flags : Z;     (* common.member_flags.0 *)
  sm_name : Z;      (* detail.name *)
  sm_tid : tid      (* common.member_type_id *)
}.
Record stype : Type := mkST {
  st_flags : Z;     (* struct_flags.0 *)
  st_name : Z;      (* header.detail.type_name *)
  st_members : list smember
}.

(* MEMBER_FLAG_* / TYPE_FLAG_* bit numbers *)
Definition sm_optional (m : smember) : bool := Z.testbit (sm_flags m) 3.
Definition sm_must_understand (m : smember) : bool := Z.testbit (sm_flags m) 4.
Definition sm_key (m : smember) : bool := Z.testbit (sm_flags m) 5.
Definition st_final (t : stype) : bool := Z.testbit (st_flags t) 0.
Definition st_appendable (t : stype) : bool := Z.testbit (st_flags t) 1.
Definition st_mutable (t : stype) : bool := Z.testbit (st_flags t) 2.

Definition smember_eqb (a b : smember) : bool :=
  (sm_id a =? sm_id b) && (sm_flags a =? sm_flags b) && (sm_name a =? sm_name b) &&
  tid_eqb (sm_tid a) (sm_tid b).
(* `self == t2` (derived PartialEq; base_type and the annotations are constant in the model) *)
Definition stype_eqb (a b : stype) : bool :=
  (st_flags a =? st_flags b) && (st_name a =? st_name b) &&
  list_eqb smember_eqb (st_members a) (st_members b).

Definition has_id (ms : list smember) (id : Z) : bool := existsb (fun m => sm_id m =? id) ms.
Definition has_name (ms : list smember) (n : Z) : bool := existsb (fun m => sm_name m =? n) ms.
(* `.iter().find(|m1| m1.common.member_id == id)` *)
Fixpoint find_sm (id : Z) (ms : list smember) : option smember :=
  match ms with
  | [] => None
  | m :: r => if sm_id m =? id then Some m else find_sm id r
  end.

(* lines 2698-2717: `for (m1, m2) in t1.member_seq.iter().zip(t2.member_seq.iter())`;
   Ok true = every pair passed, Ok false = `return false` *)
Fixpoint zip_check (tc : tce) (l1 l2 : list smember) : res bool :=
  match l1, l2 with
  | m1 :: r1, m2 :: r2 =>
    if negb (sm_id m1 =? sm_id m2) then Ok false
    else if negb (tc_ign_names tc) && negb (sm_name m1 =? sm_name m2) then Ok false
    else if negb (Bool.eqb (sm_optional m1) (sm_optional m2)) then Ok false   (* 05c4a3c *)
    else b <- tid_assignable tc (sm_tid m1) (sm_tid m2) ;;
         if b then zip_check tc r1 r2 else Ok false
  | _, _ => Ok true
  end.

(* lines 2741-2767: `for m2 in t2.member_seq.iter()`; None = `return false`,
   Some acc = members_are_assignable after the loop (`&=` always evaluates its operand) *)
Fixpoint members_check (tc : tce) (ms1 l2 : list smember) (acc : bool) : res (option bool) :=
  match l2 with
  | [] => Ok (Some acc)
  | m2 :: r2 =>
    match find_sm (sm_id m2) ms1 with
    | Some m1 =>
      if negb (tc_ign_names tc) && negb (sm_name m1 =? sm_name m2) then Ok None
      else b <- tid_assignable tc (sm_tid m1) (sm_tid m2) ;;
           members_check tc ms1 r2 (acc && b)
    | None =>
      if negb (tc_ign_names tc) && has_name ms1 (sm_name m2) then Ok None
      else members_check tc ms1 r2 acc
    end
  end.

(* lines 2771-2798 and 2802-2823: a member of `a` that must also appear in `b` but does not *)
Definition mu_missing (a b : list smember) : bool :=
  existsb (fun m => negb (sm_optional m) && sm_must_understand m && negb (has_id b (sm_id m))) a.
Definition key_missing (a b : list smember) : bool :=
  existsb (fun m => sm_key m && negb (has_id b (sm_id m))) a.

(* the structure branch after the `self == t2` shortcut *)
Definition struct_rules (tc : tce) (t1 t2 : stype) : res bool :=
  let f1 := st_final t1 in let f2 := st_final t2 in
  let a1 := st_appendable t1 in let a2 := st_appendable t2 in
  let m1 := st_mutable t1 in let m2 := st_mutable t2 in
  let ms1 := st_members t1 in let ms2 := st_members t2 in
  if (if f1 || f2
      then negb f1 || negb f2 || negb (Z.of_nat (length ms1) =? Z.of_nat (length ms2))
      else negb (Bool.eqb a1 a2) || negb (Bool.eqb m1 m2))
  then Ok false
  else
    z <- (if negb m1 && negb m2 then zip_check tc ms1 ms2 else Ok true) ;;
    if negb z then Ok false
    else if negb m1 && negb m2 && f1 && f2 then Ok true
    else if negb (existsb (fun x => has_id ms1 (sm_id x)) ms2) then Ok false
    else
      r <- members_check tc ms1 ms2 true ;;
      match r with
      | None => Ok false
      | Some acc =>
        if mu_missing ms1 ms2 || mu_missing ms2 ms1 then Ok false
        else if key_missing ms1 ms2 || key_missing ms2 ms1 then Ok false
        else Ok acc
      end.

(* CompleteTypeObject::is_assignable_from_w_type_consistency on two structure type objects *)
Definition struct_assignable (tc : tce) (t1 t2 : stype) : res bool :=
  if stype_eqb t1 t2 then Ok true else struct_rules tc t1 t2.

(* ------------------------------------------- run-time type descriptions (DynamicType) *)
(* member type: the codec type of XcdrModel plus the string bound (only the TypeObject sees it) *)
Inductive aty : Type :=
| APrim (p : prim)
| AStr (bound : Z)           (* create_string_type(bound) *)
| AWStr (bound : Z)          (* create_wstring_type(bound) *)
| ANested (t : ty).          (* a structure / union / enumeration member: EkComplete hash *)

Record amember : Type := mkAM {
  am_info : minfo;           (* id, optional, key, must_understand (XcdrModel) *)
  am_name : Z;               (* member name token *)
  am_use_default : bool;     (* try_construct_kind: true = UseDefault, false = Discard *)
  am_ty : aty
}.
Record adesc : Type := mkAD { ad_ext : ext; ad_name : Z; ad_members : list amember }.

Definition ty_of_aty (a : aty) : ty :=
  match a with APrim p => TPrim p | AStr _ => TStr | AWStr _ => TWStr | ANested t => t end.
Definition am_id (m : amember) : Z := m_id (am_info m).
Definition codec_members (ms : list amember) : list (minfo * ty) :=
  map (fun m => (am_info m, ty_of_aty (am_ty m))) ms.
(* the DynamicType as the (de)serializer sees it *)
Definition ty_of (d : adesc) : ty := TStruct (ad_ext d) (codec_members (ad_members d)).

(* impl From<&DynamicType> for TypeIdentifier (2144-2295); the hash of a nested type is 0 here
   and is compared modulo hashes with the type object the real code produced *)
Definition tid_of_prim (p : prim) : tid :=
  match p with
  | PBool => TkBoolean | PByte => TkByte | PU8 => TkUint8 | PI8 => TkInt8 | PU16 => TkUint16
  | PI16 => TkInt16 | PU32 => TkUint32 | PI32 => TkInt32 | PU64 => TkUint64 | PI64 => TkInt64
  | PF32 => TkFloat32 | PF64 => TkFloat64 | PF128 => TkFloat128 | PChar8 => TkChar8
  end.
Definition tid_of_aty (a : aty) : tid :=
  match a with
  | APrim p => tid_of_prim p
  | AStr b => if b <=? 255 then TiString8Small b else TiString8Large b
  | AWStr b => if b <=? 255 then TiString16Small b else TiString16Large b
  | ANested _ => EkComplete 0
  end.
(* impl From<&DynamicTypeMember> for CommonStructMember (2297-2316) *)
Definition flags_of_member (m : amember) : Z :=
  (if am_use_default m then 2 else 1) +
  (if m_key (am_info m) then 32 else 0) +
  (if m_mu (am_info m) then 16 else 0) +
  (if m_opt (am_info m) then 8 else 0).
Definition sm_of (m : amember) : smember :=
  mkSM (am_id m) (flags_of_member m) (am_name m) (tid_of_aty (am_ty m)).
Definition flags_of_ext (x : ext) : Z := match x with Final => 1 | Appendable => 2 | Mutable => 4 end.
(* impl From<DynamicType> for CompleteTypeObject, STRUCTURE arm (2011-2036), is_nested = false *)
Definition cto_of (d : adesc) : stype :=
  mkST (flags_of_ext (ad_ext d)) (ad_name d) (map sm_of (ad_members d)).

(* equality of type objects up to the equivalence hashes *)
Fixpoint tid_match (a b : tid) {struct a} : bool :=
  match a, b with
  | EkComplete _, EkComplete _ | EkMinimal _, EkMinimal _ => true
  | TiSeqSmall x e, TiSeqSmall y f | TiSeqLarge x e, TiSeqLarge y f => (x =? y) && tid_match e f
  | TiArrSmall x e, TiArrSmall y f | TiArrLarge x e, TiArrLarge y f => list_z_eqb x y && tid_match e f
  | _, _ => tid_eqb a b
  end.
Definition stype_match (a b : stype) : bool :=
  (st_flags a =? st_flags b) && (st_name a =? st_name b) &&
  list_eqb (fun x y => (sm_id x =? sm_id y) && (sm_flags x =? sm_flags y) &&
                       (sm_name x =? sm_name y) && tid_match (sm_tid x) (sm_tid y))
           (st_members a) (st_members b).

(* --------------------------------------------------------------- the flat family *)
(* structures whose members are primitives and strings, none optional, distinct 28-bit ids *)
Definition flat_aty (a : aty) : bool := match a with ANested _ => false | _ => true end.
Definition aids (ms : list amember) : list Z := map am_id ms.
Definition flat_desc (d : adesc) : bool :=
  forallb (fun m => flat_aty (am_ty m) && negb (m_opt (am_info m))) (ad_members d) &&
  nodup_z (aids (ad_members d)) && forallb id_ok (aids (ad_members d)).
(* XTypes default value of a member type (zero / empty string) *)
Definition default_val (t : ty) : option val :=
  match t with
  | TPrim p => Some (VP (prim_sk p) 0)
  | TStr | TWStr => Some (VStr [])
  | _ => None
  end.

(* the reader's view of a writer sample v: the writer's value for a member the writer has,
   the default for any other member of the reader type *)
Definition expected_member (v : dyn) (m : amember) : option val :=
  match lookup (am_id m) v with
  | Some x => Some x
  | None => default_val (ty_of_aty (am_ty m))
  end.
(* a decoded member agrees with the expectation; an absent entry of the DynamicData stands for
   the default value (a typed sample is built from it with Default::default()) *)
Definition member_agrees (v d : dyn) (m : amember) : bool :=
  match lookup (am_id m) v, lookup (am_id m) d with
  | Some x, Some y => val_eqb x y
  | Some _, None => false
  | None, None => true
  | None, Some y =>
    match default_val (ty_of_aty (am_ty m)) with Some z => val_eqb y z | None => false end
  end.
Definition projects (t1 : adesc) (v d : dyn) : bool :=
  forallb (member_agrees v d) (ad_members t1) &&
  forallb (fun k => mem k (aids (ad_members t1))) (keys d).

(* the same with nested structures projected member by member (used by the oracle on nested
   evolution; on the flat family it coincides with `projects`) *)
Fixpoint val_projects (t : ty) (x y : val) {struct t} : bool :=
  match t with
  | TStruct _ ms =>
    match x, y with
    | VData xd, VData yd =>
      forallb (fun k => mem k (ids ms)) (keys yd) &&
      (fix go (ms : list (minfo * ty)) : bool :=
         match ms with
         | [] => true
         | (m, t') :: r =>
           (match lookup (m_id m) xd, lookup (m_id m) yd with
            | Some a, Some b => val_projects t' a b
            | Some _, None => false
            | None, None => true
            | None, Some b => match default_val t' with Some z => val_eqb b z | None => false end
            end) && go r
         end) ms
    | _, _ => false
    end
  | _ => val_eqb x y
  end.
Definition member_agrees_n (v d : dyn) (m : amember) : bool :=
  match lookup (am_id m) v, lookup (am_id m) d with
  | Some x, Some y => val_projects (ty_of_aty (am_ty m)) x y
  | Some _, None => false
  | None, None => true
  | None, Some y =>
    match default_val (ty_of_aty (am_ty m)) with Some z => val_eqb y z | None => false end
  end.
Definition projects_n (t1 : adesc) (v d : dyn) : bool :=
  forallb (member_agrees_n v d) (ad_members t1) &&
  forallb (fun k => mem k (aids (ad_members t1))) (keys d).

(* strings whose encoded member fits the 32-bit length fields with its length prefix *)
Definition small_val (x : val) : bool :=
  match x with
  | VStr s => (blen (utf8_enc s) + 64 <=? u32_max) && (3 * blen (utf16_enc s) + 64 <=? u32_max)
  | _ => true
  end.
Definition small_dyn (v : dyn) : bool := forallb (fun kv => small_val (snd kv)) v.

(* ------------------------------------------------- legitimate evolutions (specification) *)
(* Independent of the TypeObject encoding and of the evaluation order of the code: when is the
   writer type t2 a legitimate evolution of the reader type t1 (or vice versa) under the XTypes
   rules the code implements.  Appendable: one member list extends the other; mutable: members
   added / removed / reordered.  Corresponding members have the same id, the same name (unless
   names are ignored) and the same type (string bounds per the policy); members present on one
   side only are neither key nor must-understand and do not reuse a name of the reader type. *)
Definition prim_same (p q : prim) : bool := tid_eqb (tid_of_prim p) (tid_of_prim q).
Definition aty_accepts (tc : tce) (a b : aty) : bool :=
  match a, b with
  | APrim p, APrim q => prim_same p q
  | AStr b1, AStr b2 | AWStr b1, AWStr b2 => bound_ok (tc_ign_str tc) b1 b2
  | _, _ => false
  end.
Definition same_member (tc : tce) (a b : amember) : bool :=
  (am_id a =? am_id b) && (tc_ign_names tc || (am_name a =? am_name b)) &&
  aty_accepts tc (am_ty a) (am_ty b).
(* positional correspondence (FINAL / APPENDABLE): additionally the same optionality, because an
   optional member is preceded by a presence flag / parameter header *)
Definition same_member_pos (tc : tce) (a b : amember) : bool :=
  same_member tc a b && Bool.eqb (m_opt (am_info a)) (m_opt (am_info b)).
Definition extra_ok (m : amember) : bool :=
  negb (m_key (am_info m)) && negb (m_mu (am_info m) && negb (m_opt (am_info m))).
Definition anames (ms : list amember) : list Z := map am_name ms.
Fixpoint forall2b {A B} (p : A -> B -> bool) (l1 : list A) (l2 : list B) : bool :=
  match l1, l2 with
  | [], [] => true
  | a :: r, b :: s => p a b && forall2b p r s
  | _, _ => false
  end.
Fixpoint find_amember (id : Z) (ms : list amember) : option amember :=
  match ms with [] => None | m :: r => if am_id m =? id then Some m else find_amember id r end.

(* the rules for members looked up by id (MUTABLE; they also apply to APPENDABLE types) *)
Definition by_id_rules (tc : tce) (ms1 ms2 : list amember) : bool :=
  existsb (fun m2 => mem (am_id m2) (aids ms1)) ms2 &&
  forallb (fun m2 => match find_amember (am_id m2) ms1 with
                     | Some m1 => same_member tc m1 m2
                     | None => (tc_ign_names tc || negb (mem (am_name m2) (anames ms1))) && extra_ok m2
                     end) ms2 &&
  forallb (fun m1 => mem (am_id m1) (aids ms2) || extra_ok m1) ms1.

Definition evolves (tc : tce) (t1 t2 : adesc) : bool :=
  let ms1 := ad_members t1 in let ms2 := ad_members t2 in
  match ad_ext t1, ad_ext t2 with
  | Final, Final => forall2b (same_member_pos tc) ms1 ms2
  | Appendable, Appendable =>
    let k := Nat.min (length ms1) (length ms2) in
    forall2b (same_member_pos tc) (firstn k ms1) (firstn k ms2) && by_id_rules tc ms1 ms2
  | Mutable, Mutable => by_id_rules tc ms1 ms2
  | _, _ => false
  end.

(* ------------------------------------------------------------ typed samples (derive) *)
(* dds_derive/src/derive/type_support.rs:213-249, structures with named fields: the typed
   sample `Foo::create_sample(&mut decoded)` that a DataReader<Foo> hands to the application
   (dcps/infrastructure/sample_info.rs:21; None = the application sees `data: None`), shown
   as `create_dynamic_sample` of the result.  A member that is absent from the decoded
   DynamicData is Default::default() only when it is optional (-> None, not stored again) or
   has try_construct = USE_DEFAULT; otherwise the whole sample is None. *)
Definition typed_member_ok (d : dyn) (m : amember) : bool :=
  match lookup (am_id m) d with
  | Some _ => true
  | None => m_opt (am_info m) || am_use_default m
  end.
Definition typed_sample (t1 : adesc) (d : dyn) : option dyn :=
  if forallb (typed_member_ok d) (ad_members t1) then
    Some (fold_left (fun acc m =>
            match lookup (am_id m) d with
            | Some v => insert (am_id m) v acc
            | None => if m_opt (am_info m) then acc
                      else match default_val (ty_of_aty (am_ty m)) with
                           | Some z => insert (am_id m) z acc
                           | None => acc
                           end
            end) (ad_members t1) [])
  else None.
