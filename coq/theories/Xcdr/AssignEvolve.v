(* C39 proofs, part 4: from the assignability decision to decoding.  Top-level statements over
   `encode` (writer type) and `decode` (reader type) of XcdrModel.v. *)
From DustDDS Require Import Base.Machine Xcdr.XcdrBytes Xcdr.XcdrBytesProofs Xcdr.XcdrModel
  Xcdr.XcdrProps Xcdr.XcdrProofs Xcdr.AssignModel Xcdr.AssignProofs Xcdr.AssignAppend Xcdr.AssignMutable.
Open Scope Z_scope.
Ltac Zify.zify_post_hook ::= Z.div_mod_to_equations.

(* ------------------------------------------------------------------ flat member types *)
Lemma flat_aty_ty : forall a, flat_aty a = true -> flat_ty (ty_of_aty a) = true.
Proof. destruct a; cbn; congruence. Qed.

Lemma flat_tgood : forall V a, flat_aty a = true -> tgood V (ty_of_aty a) = true.
Proof.
  intros V a Ha. destruct a as [p| | |]; try discriminate; cbn [ty_of_aty].
  - destruct V, p; reflexivity.
  - destruct V; reflexivity.
  - destruct V; reflexivity.
Qed.

Lemma default_val_flat : forall t, flat_ty t = true -> default_val t = Some (default_of t).
Proof. destruct t; cbn; congruence. Qed.

Lemma val_eqb_refl : forall v, val_eqb v v = true.
Proof. intros. now apply val_eqb_eq. Qed.

Lemma ids_codec : forall ms, ids (codec_members ms) = aids ms.
Proof. intros. unfold ids, codec_members, aids. rewrite map_map. reflexivity. Qed.

Lemma codec_members_app : forall a b, codec_members (a ++ b) = codec_members a ++ codec_members b.
Proof. intros. unfold codec_members. apply map_app. Qed.

Lemma in_codec : forall ms mt, In mt (codec_members ms) ->
  exists m, In m ms /\ mt = (am_info m, ty_of_aty (am_ty m)).
Proof.
  intros ms mt H. unfold codec_members in H. apply in_map_iff in H as [m [He Hin]].
  exists m. split; [assumption|now symmetry].
Qed.

(* what `wt` says about the members of the writer's value *)
Lemma wt_struct_parts : forall x ms d, wt (TStruct x ms) (VData d) = true ->
  sorted_keys d = true /\ forallb (fun k => mem k (ids ms)) (keys d) = true /\
  Forall (fun mt : minfo * ty =>
            match lookup (m_id (fst mt)) d with
            | Some v' => wt (snd mt) v' = true
            | None => m_opt (fst mt) = true
            end) ms.
Proof.
  intros x ms d H. cbn [wt] in H. apply andb_prop in H as [H Hgo]. apply andb_prop in H as [Hs Hk].
  repeat split; try assumption. now apply wt_members.
Qed.

(* the family hypotheses, member by member *)
Record fam (V : ver) (t : adesc) : Prop := mkFam {
  fam_flat : forall m, In m (ad_members t) -> flat_aty (am_ty m) = true;
  fam_nopt : forall m, In m (ad_members t) -> m_opt (am_info m) = false;
  fam_nodup : nodup_z (aids (ad_members t)) = true;
  fam_ids : forall m, In m (ad_members t) -> 0 <= am_id m < 268435456
}.

Lemma fam_of : forall V t, flat_desc t = true -> fam V t.
Proof.
  intros V t Hf. unfold flat_desc in Hf. apply andb_prop in Hf as [Hf Hid]. apply andb_prop in Hf as [Hfl Hnd].
  rewrite forallb_forall in Hfl, Hid.
  constructor.
  - intros m Hm. specialize (Hfl m Hm). now apply andb_prop in Hfl as [? _].
  - intros m Hm. specialize (Hfl m Hm). apply andb_prop in Hfl as [_ H]. now apply negb_true_iff in H.
  - exact Hnd.
  - intros m Hm. assert (Hin : In (am_id m) (aids (ad_members t))) by (unfold aids; now apply in_map).
    specialize (Hid _ Hin). unfold id_ok in Hid. apply andb_prop in Hid as [H1 H2].
    apply Z.leb_le in H1. apply Z.ltb_lt in H2. lia.
Qed.

(* XcdrProofs' member hypothesis for the writer's value *)
Lemma flat_no_opt : forall a, flat_aty a = true -> ty_any has_opt_member (ty_of_aty a) = false.
Proof. destruct a; try discriminate; reflexivity. Qed.

Lemma flat_Bok : forall V a, flat_aty a = true -> Bok V u32_max (ty_of_aty a).
Proof.
  intros V a Ha. split; [lia|]. intros _ H. rewrite (flat_no_opt a Ha) in H. discriminate.
Qed.

Lemma writer_mem_hyp : forall V E t2 xv, fam V t2 ->
  wt (ty_of t2) (VData xv) = true ->
  mem_hyp V E u32_max (codec_members (ad_members t2)) xv.
Proof.
  intros V E t2 xv F Hwt. unfold ty_of in Hwt.
  destruct (wt_struct_parts _ _ _ Hwt) as [Hs [Hk Hgo]].
  assert (Hnone : existsb (fun mx : minfo * ty => m_opt (fst mx)) (codec_members (ad_members t2)) = false).
  { apply Bool.not_true_is_false. intros H. apply existsb_exists in H as [mt [Hin Ho]].
    apply in_codec in Hin as [m [Hm ->]]. cbn [fst] in Ho. rewrite (fam_nopt V t2 F m Hm) in Ho. discriminate. }
  split; [rewrite ids_codec; exact (fam_nodup V t2 F)|]. split; [|split].
  - intros _ H. rewrite Hnone in H. discriminate.
  - apply Forall_forall. intros mt Hin Ho. apply in_codec in Hin as [m [Hm ->]]. cbn [fst] in Ho.
    rewrite (fam_nopt V t2 F m Hm) in Ho. discriminate.
  - rewrite Forall_forall in *. intros mt Hin. specialize (Hgo mt Hin).
    destruct (lookup (m_id (fst mt)) xv) as [v'|] eqn:Hl; [|exact Hgo].
    apply in_codec in Hin as [m [Hm ->]]. cbn [fst snd] in *.
    apply rt_ty; [|apply flat_Bok; exact (fam_flat V t2 F m Hm)|exact Hgo].
    apply flat_tgood. exact (fam_flat V t2 F m Hm).
Qed.

(* every member of the writer type has a value (no optional members) *)
Lemma writer_has_value : forall V t2 xv m, fam V t2 -> wt (ty_of t2) (VData xv) = true ->
  In m (ad_members t2) -> exists x, lookup (am_id m) xv = Some x.
Proof.
  intros V t2 xv m F Hwt Hm. unfold ty_of in Hwt.
  destruct (wt_struct_parts _ _ _ Hwt) as [_ [_ Hgo]]. rewrite Forall_forall in Hgo.
  specialize (Hgo (am_info m, ty_of_aty (am_ty m))).
  assert (Hin : In (am_info m, ty_of_aty (am_ty m)) (codec_members (ad_members t2))).
  { unfold codec_members. apply in_map_iff. exists m. now split. }
  specialize (Hgo Hin). cbn [fst snd] in Hgo. unfold am_id.
  destruct (lookup (m_id (am_info m)) xv) as [x|]; [eauto|].
  rewrite (fam_nopt V t2 F m Hm) in Hgo. discriminate.
Qed.

Lemma writer_keys : forall t2 xv k, wt (ty_of t2) (VData xv) = true ->
  lookup k xv <> None -> In k (aids (ad_members t2)).
Proof.
  intros t2 xv k Hwt Hl. unfold ty_of in Hwt.
  destruct (wt_struct_parts _ _ _ Hwt) as [_ [Hk _]]. rewrite forallb_forall in Hk.
  destruct (lookup k xv) as [v|] eqn:Hv; [|congruence].
  apply lookup_in_keys in Hv. specialize (Hk k Hv). rewrite ids_codec in Hk. now apply mem_true_iff.
Qed.

(* ------------------------------------------------------------------ top-level plumbing *)
Lemma encode_struct : forall V E x ms xv body p,
  ser_struct_nested V E x (cvS V E ms) xv 0 = Ok (body, p) ->
  let n := pad_count (4 + blen body) in
  encode V E (TStruct x ms) (VData xv) = Ok ([0; repr_id V E x; 0; n] ++ body ++ zeros n) /\
  0 <= n <= 3 /\ (blen body + n) mod 4 = 0.
Proof.
  intros V E x ms xv body p H. cbv zeta. unfold encode. cbn [is_aggr].
  rewrite ser_ty_struct. cbn [on_data]. rewrite H. cbn [bind ty_ext].
  assert (Hb : blen ([0; repr_id V E x; 0; 0] ++ body) = 4 + blen body).
  { cbn [app]. rewrite !blen_cons. lia. }
  rewrite Hb. pose proof (pad_count_range (4 + blen body)) as Hr.
  split; [reflexivity|]. split; [lia|]. unfold pad_count in *. pose proof (blen_nonneg body). lia.
Qed.

Lemma decode_struct : forall V E x ms1 n rest acc p',
  des_struct_nested V E rest x (cvD V E rest ms1) (mkC 0 (blen rest)) 0 = DOk acc p' ->
  decode (TStruct x ms1) ([0; repr_id V E x; 0; n] ++ rest) = Ok (VData acc).
Proof.
  intros V E x ms1 n rest acc p' H. unfold decode, des_top. cbn [app].
  replace (blen (0 :: repr_id V E x :: 0 :: n :: rest) <? 4) with false.
  2:{ symmetry. apply Z.ltb_ge. rewrite !blen_cons. pose proof (blen_nonneg rest). lia. }
  rewrite dispatch_ok. cbn [is_aggr bind].
  rewrite des_ty_struct. unfold as_data. rewrite H. reflexivity.
Qed.

Lemma Forall2_am_mmatch : forall V t1 t2 l1 l2, fam V t1 -> fam V t2 ->
  incl l1 (ad_members t1) -> incl l2 (ad_members t2) ->
  Forall2 am_match l1 l2 -> Forall2 mmatch (codec_members l1) (codec_members l2).
Proof.
  intros V t1 t2 l1 l2 F1 F2 H1 H2 HF. unfold codec_members. apply Forall2_map.
  eapply Forall2_impl_in; [|exact HF]. intros a b Ha Hb [Hid Hty]. unfold mmatch. cbn [fst snd].
  split; [exact Hid|]. split; [|exact Hty].
  rewrite (fam_nopt V t1 F1 a (H1 a Ha)), (fam_nopt V t2 F2 b (H2 b Hb)). reflexivity.
Qed.

Lemma skipn_incl : forall {A} n (l : list A), incl (skipn n l) l.
Proof.
  intros A n. induction n as [|n IH]; intros l x H; [exact H|].
  destruct l as [|a r]; [destruct H|]. right. now apply IH.
Qed.

Lemma Forall2_ids : forall l1 l2, Forall2 am_match l1 l2 -> aids l1 = aids l2.
Proof.
  intros l1 l2 H. induction H as [|a b r1 r2 [Hid _] HF IH]; [reflexivity|].
  unfold aids in *. cbn [map]. now rewrite Hid, IH.
Qed.

Lemma nodup_app_disjoint : forall a b k, nodup_z (a ++ b) = true -> In k a -> In k b -> False.
Proof.
  induction a as [|x r IH]; intros b k H Ha Hb; [destruct Ha|].
  cbn [app nodup_z] in H. apply andb_prop in H as [H1 H2]. apply negb_true_iff in H1.
  destruct Ha as [->|Ha]; [|now apply (IH b k)].
  assert (mem k (r ++ b) = true); [|congruence]. apply mem_true_iff. apply in_or_app. now right.
Qed.

(* ------------------------------------------------------ FINAL / APPENDABLE evolution *)
Theorem evolution_prefix : forall V E tc t1 t2 xv,
  flat_desc t1 = true -> flat_desc t2 = true ->
  ad_ext t2 <> Mutable ->
  struct_assignable tc (cto_of t1) (cto_of t2) = Ok true ->
  wt (ty_of t2) (VData xv) = true ->
  exists bs, encode V E (ty_of t2) (VData xv) = Ok bs /\
    (blen bs <= u32_max ->
     exists d, decode (ty_of t1) bs = Ok (VData d) /\ projects t1 xv d = true).
Proof.
  intros V E tc t1 t2 xv Hf1 Hf2 Hx Has Hwt.
  pose proof (fam_of V t1 Hf1) as F1. pose proof (fam_of V t2 Hf2) as F2.
  destruct (assignable_shape tc t1 t2 Hf1 Hf2 Has) as [Hext Hshape].
  destruct t1 as [x1 n1 ms1], t2 as [x2 n2 ms2]. cbn [ad_ext ad_members] in *. subst x2.
  set (k := Nat.min (length ms1) (length ms2)) in *.
  assert (Hsh : Forall2 am_match (firstn k ms1) (firstn k ms2) /\ (x1 = Final -> length ms1 = length ms2)).
  { destruct x1; [exact Hshape|exact Hshape|congruence]. }
  clear Hshape. destruct Hsh as [HF Hfin].
  set (a1 := firstn k ms1) in *. set (r1 := skipn k ms1). set (a2 := firstn k ms2) in *. set (r2 := skipn k ms2).
  assert (Hms1 : ms1 = a1 ++ r1) by (symmetry; apply firstn_skipn).
  assert (Hms2 : ms2 = a2 ++ r2) by (symmetry; apply firstn_skipn).
  assert (Hi1 : incl a1 ms1) by apply firstn_incl. assert (Hi2 : incl a2 ms2) by apply firstn_incl.
  assert (Hj1 : incl r1 ms1) by apply skipn_incl.
  pose proof (Forall2_am_mmatch V _ _ a1 a2 F1 F2 Hi1 Hi2 HF) as HM.
  pose proof (writer_mem_hyp V E _ xv F2 Hwt) as HH. cbn [ad_members] in HH.
  rewrite Hms2, codec_members_app in HH.
  assert (Hcase : codec_members r1 = [] \/
                  (codec_members r2 = [] /\ x1 = Appendable /\ flat_members (codec_members r1) = true)).
  { destruct (le_lt_dec (length ms1) (length ms2)) as [Hle | Hlt].
    - left. unfold r1, k. rewrite Nat.min_l by lia. rewrite skipn_all. reflexivity.
    - right. split; [unfold r2, k; rewrite Nat.min_r by lia; rewrite skipn_all; reflexivity|].
      split; [destruct x1; [specialize (Hfin eq_refl); lia|reflexivity|congruence]|].
      unfold flat_members. apply forallb_forall. intros mt Hmt. apply in_codec in Hmt as [m [Hm ->]]. cbn [fst snd].
      rewrite (flat_aty_ty _ (fam_flat V _ F1 m (Hj1 m Hm))), (fam_nopt V _ F1 m (Hj1 m Hm)). reflexivity. }
  destruct (struct_prefix_decodes V E u32_max x1 (codec_members a1) (codec_members a2) (codec_members r1)
              (codec_members r2) xv ltac:(lia) Hx HM HH Hcase 0 ltac:(lia)) as [body [Es Ds]].
  rewrite <- codec_members_app, <- Hms2 in Es.
  destruct (encode_struct V E x1 (codec_members ms2) xv body _ Es) as [Henc [Hn Hmod]].
  set (n := pad_count (4 + blen body)) in *.
  exists ([0; repr_id V E x1; 0; n] ++ body ++ zeros n).
  split; [exact Henc|]. intros Hsize.
  pose proof (blen_nonneg body) as Hbnn.
  assert (Hbsz : blen body <= u32_max).
  { cbn [app] in Hsize. rewrite !blen_cons, blen_app, blen_zeros in Hsize by lia. lia. }
  destruct (Ds Hbsz [] n (mkC 0 (blen (body ++ zeros n)))) as [acc' [p' [Hdec Hlook]]].
  { reflexivity. }
  { cbn [c_org c_lim]. rewrite blen_app, blen_zeros by lia. lia. }
  { cbn [c_lim app]. lia. }
  cbn [app c_org Z.add] in Hdec.
  rewrite <- codec_members_app, <- Hms1 in Hdec.
  exists acc'.
  split; [exact (decode_struct V E x1 _ n _ acc' p' Hdec)|].
  (* the projection *)
  assert (Hids : aids a1 = aids a2) by now apply Forall2_ids.
  assert (Hnd1 : nodup_z (aids a1 ++ aids r1) = true).
  { pose proof (fam_nodup V _ F1) as H. cbn [ad_members] in H. rewrite Hms1 in H.
    unfold aids in *. now rewrite map_app in H. }
  assert (Hlk : forall kk, lookup kk (ins (codec_members a2) xv []) =
                           if mem kk (aids a1) then lookup kk xv else None).
  { intros kk. rewrite ins_lookup, ids_codec, <- Hids. cbn [lookup]. now destruct (lookup kk xv). }
  assert (He1 : forall mt, In mt (codec_members r1) ->
                  exists m, In m r1 /\ m_id (fst mt) = am_id m /\ snd mt = ty_of_aty (am_ty m)).
  { intros mt Hmt. apply in_codec in Hmt as [m [Hm ->]]. exists m. now repeat split. }
  unfold projects. cbn [ad_members]. apply andb_true_intro. split.
  - apply forallb_forall. intros m Hm. unfold member_agrees.
    rewrite Hms1 in Hm. apply in_app_or in Hm as [Hm | Hm].
    + (* common member *)
      assert (Hin : In (am_id m) (aids a1)) by (unfold aids; now apply in_map).
      assert (Hmem : mem (am_id m) (aids a1) = true) by now apply mem_true_iff.
      assert (Hv : exists x, lookup (am_id m) xv = Some x).
      { (* the partner of m in the writer type has a value *)
        assert (Hin2 : In (am_id m) (aids a2)) by (rewrite <- Hids; exact Hin).
        unfold aids in Hin2. apply in_map_iff in Hin2 as [m2 [Hid2 Hm2]].
        destruct (writer_has_value V _ xv m2 F2 Hwt (Hi2 m2 Hm2)) as [x Hx2]. exists x. congruence. }
      destruct Hv as [x Hvx]. rewrite Hvx.
      destruct (Hlook (am_id m)) as [Hl | [mt [Hmt [Hid Hl]]]].
      * rewrite Hl, Hlk, Hmem, Hvx. apply val_eqb_refl.
      * exfalso. destruct (He1 mt Hmt) as [m' [Hm' [Hid' _]]].
        apply (nodup_app_disjoint _ _ (am_id m) Hnd1 Hin).
        unfold aids. apply in_map_iff. exists m'. split; [congruence|exact Hm'].
    + (* a member only the reader has *)
      assert (Hin : In (am_id m) (aids r1)) by (unfold aids; now apply in_map).
      assert (Hnot : mem (am_id m) (aids a1) = false).
      { apply Bool.not_true_is_false. intros Hc. apply mem_true_iff in Hc.
        exact (nodup_app_disjoint _ _ _ Hnd1 Hc Hin). }
      assert (Hr2 : r2 = []).
      { destruct Hcase as [Hc | [Hc _]].
        - destruct r1; [destruct Hm|discriminate].
        - destruct r2; [reflexivity|discriminate]. }
      assert (Hxv : lookup (am_id m) xv = None).
      { destruct (lookup (am_id m) xv) as [x|] eqn:Hx1; [|reflexivity]. exfalso.
        assert (Hk : In (am_id m) (aids ms2)).
        { apply (writer_keys (mkAD x1 n2 ms2) xv); [exact Hwt|congruence]. }
        rewrite Hms2, Hr2, app_nil_r, <- Hids in Hk. apply mem_true_iff in Hk. congruence. }
      rewrite Hxv.
      destruct (Hlook (am_id m)) as [Hl | [mt [Hmt [Hid Hl]]]].
      * rewrite Hl, Hlk, Hnot. reflexivity.
      * rewrite Hl. destruct (He1 mt Hmt) as [m' [Hm' [Hid' Hty']]].
        assert (m' = m).
        { apply (nodup_in_eq ms1); [exact (fam_nodup V _ F1)|apply Hj1, Hm'|apply Hj1, Hm|congruence]. }
        subst m'. rewrite Hty'.
        rewrite (default_val_flat _ (flat_aty_ty _ (fam_flat V _ F1 m (Hj1 m Hm)))). apply val_eqb_refl.
  - apply forallb_forall. intros kk Hkk. apply mem_true_iff. apply keys_lookup in Hkk.
    destruct (Hlook kk) as [Hl | [mt [Hmt [Hid Hl]]]].
    + rewrite Hl, Hlk in Hkk. destruct (mem kk (aids a1)) eqn:Hm; [|congruence].
      apply mem_true_iff in Hm. rewrite Hms1. unfold aids in *. rewrite map_app. apply in_or_app. now left.
    + destruct (He1 mt Hmt) as [m' [Hm' [Hid' _]]]. rewrite Hms1. unfold aids. rewrite map_app.
      apply in_or_app. right. apply in_map_iff. exists m'. split; [congruence|exact Hm'].
Qed.

(* ------------------------------------------------------------------ MUTABLE evolution *)
Lemma prim_bytes_len : forall E k z, blen (prim_bytes E k z) <= 16.
Proof.
  intros E k z. destruct k; unfold prim_bytes; rewrite ?int_enc_blen; cbn [sk_bytes]; try lia;
    try (destruct (z =? 0)); cbn; lia.
Qed.

Lemma ser_prim_len : forall E k z pos bs p, ser_prim V2 E k z pos = Ok (bs, p) -> blen bs <= 19.
Proof.
  intros E k z pos bs p H. unfold ser_prim, ret, enc_align in H. cbn [maxalign] in H. inversion H.
  rewrite blen_app. pose proof (prim_bytes_len E k z).
  assert (Ha : 0 < Z.min (sk_size k) 4) by (pose proof (sk_size_pos k); lia).
  pose proof (padlen_range pos _ Ha). rewrite blen_zeros by lia. lia.
Qed.

Lemma ser_u16_len : forall E z pos bs p, ser_prim V2 E KU16 z pos = Ok (bs, p) -> blen bs <= 3.
Proof.
  intros E z pos bs p H. unfold ser_prim, ret, enc_align in H. cbn [maxalign] in H. inversion H.
  rewrite blen_app. change (Z.min (sk_size KU16) 4) with 2.
  pose proof (padlen_range pos 2 ltac:(lia)). rewrite blen_zeros by lia.
  unfold prim_bytes. rewrite int_enc_blen. cbn [sk_bytes]. lia.
Qed.

Lemma seq2_inv : forall f g pos bs p, seq2 f g pos = Ok (bs, p) ->
  exists b1 p1 b2, f pos = Ok (b1, p1) /\ g p1 = Ok (b2, p) /\ bs = b1 ++ b2.
Proof.
  intros f g pos bs p H. unfold seq2 in H.
  destruct (f pos) as [[b1 p1]| |]; cbn [bind] in H; try discriminate.
  destruct (g p1) as [[b2 p2]| |] eqn:Eg; cbn [bind] in H; try discriminate.
  inversion H. subst. eauto 6.
Qed.

Lemma ser_list_u16_len : forall E l pos bs p,
  ser_list (ser_prim V2 E KU16) l pos = Ok (bs, p) -> blen bs <= 3 * blen l.
Proof.
  intros E l. induction l as [|a r IH]; intros pos bs p H.
  - cbn [ser_list] in H. inversion H. cbn. lia.
  - cbn [ser_list] in H.
    destruct (ser_prim V2 E KU16 a pos) as [[b1 p1]| |] eqn:E1; cbn [bind] in H; try discriminate.
    destruct (ser_list (ser_prim V2 E KU16) r p1) as [[b2 p2]| |] eqn:E2; cbn [bind] in H; try discriminate.
    inversion H. rewrite blen_app, blen_cons. pose proof (ser_u16_len _ _ _ _ _ E1). pose proof (IH _ _ _ E2). lia.
Qed.

Lemma flat_size : forall E t v pos bs p, flat_ty t = true -> small_val v = true ->
  ser_ty V2 E t v pos = Ok (bs, p) -> blen bs <= u32_max.
Proof.
  intros E t v pos bs p Ht Hs H. destruct t as [q| | | | | | |]; try discriminate; cbn [ser_ty] in H.
  - destruct v as [k z| | | | |]; try discriminate. destruct (sk_eqb k (prim_sk q)); [|discriminate].
    apply ser_prim_len in H. unfold u32_max. lia.
  - destruct v as [|s| | | |]; try discriminate. cbn [small_val] in Hs. apply andb_prop in Hs as [Hs _].
    apply Z.leb_le in Hs. unfold ser_string in H. cbv zeta in H.
    apply seq2_inv in H as [b1 [p1 [b2 [H1 [H2 ->]]]]]. apply ser_prim_len in H1.
    unfold ret in H2. inversion H2. rewrite !blen_app. cbn [blen length]. cbn. unfold blen in *. lia.
  - destruct v as [|s| | | |]; try discriminate. cbn [small_val] in Hs. apply andb_prop in Hs as [_ Hs].
    apply Z.leb_le in Hs. unfold ser_wstring in H. cbv zeta in H.
    apply seq2_inv in H as [b1 [p1 [b2 [H1 [H2 ->]]]]]. apply ser_prim_len in H1.
    apply seq2_inv in H2 as [b3 [p3 [b4 [H3 [H4 ->]]]]].
    apply ser_list_u16_len in H3. apply ser_prim_len in H4. rewrite !blen_app. lia.
Qed.

Lemma lc5_flat : forall t, flat_ty t = true -> lc5_ty t = false.
Proof. destruct t; cbn; congruence. Qed.

Lemma small_dyn_lookup : forall xv k v, small_dyn xv = true -> lookup k xv = Some v -> small_val v = true.
Proof.
  induction xv as [|[k' v'] r IH]; intros k v Hs Hl; [discriminate|].
  cbn [small_dyn forallb snd] in Hs. apply andb_prop in Hs as [H1 H2]. cbn [lookup] in Hl.
  destruct (k =? k'); [inversion Hl; subst; exact H1|]. exact (IH k v H2 Hl).
Qed.

Lemma writer_whyp : forall E t2 xv, fam V2 t2 ->
  wt (ty_of t2) (VData xv) = true -> small_dyn xv = true ->
  whyp E (codec_members (ad_members t2)) xv.
Proof.
  intros E t2 xv F Hwt Hsm. unfold ty_of in Hwt.
  destruct (wt_struct_parts _ _ _ Hwt) as [Hs [Hk Hgo]].
  split; [rewrite ids_codec; exact (fam_nodup V2 t2 F)|].
  intros k v Hl.
  assert (Hin : In k (aids (ad_members t2))).
  { pose proof (lookup_in_keys _ _ _ Hl) as Hkk. rewrite forallb_forall in Hk.
    specialize (Hk k Hkk). rewrite ids_codec in Hk. now apply mem_true_iff. }
  unfold aids in Hin. apply in_map_iff in Hin as [m [Hid Hm]].
  exists (am_info m, ty_of_aty (am_ty m)).
  assert (Hinc : In (am_info m, ty_of_aty (am_ty m)) (codec_members (ad_members t2))).
  { unfold codec_members. apply in_map_iff. exists m. now split. }
  rewrite Forall_forall in Hgo. specialize (Hgo _ Hinc). cbn [fst snd] in *.
  unfold am_id in Hid. rewrite Hid, Hl in Hgo.
  pose proof (flat_aty_ty _ (fam_flat V2 t2 F m Hm)) as Hft.
  split; [exact Hinc|]. split; [exact Hid|]. split.
  { apply rt_ty; [|apply flat_Bok; exact (fam_flat V2 t2 F m Hm)|exact Hgo].
    apply flat_tgood. exact (fam_flat V2 t2 F m Hm). }
  split; [now apply shift4_flat|]. split; [now apply lc5_flat|]. split.
  { pose proof (fam_ids V2 t2 F m Hm). unfold am_id in *. lia. }
  intros pos bs p Hser. eapply flat_size; [exact Hft| |exact Hser]. exact (small_dyn_lookup xv k v Hsm Hl).
Qed.

Theorem evolution_mutable : forall E tc t1 t2 xv,
  flat_desc t1 = true -> flat_desc t2 = true -> ad_ext t2 = Mutable ->
  struct_assignable tc (cto_of t1) (cto_of t2) = Ok true ->
  wt (ty_of t2) (VData xv) = true -> small_dyn xv = true ->
  exists bs d, encode V2 E (ty_of t2) (VData xv) = Ok bs /\
               decode (ty_of t1) bs = Ok (VData d) /\ projects t1 xv d = true.
Proof.
  intros E tc t1 t2 xv Hf1 Hf2 Hx Has Hwt Hsm.
  pose proof (fam_of V2 t1 Hf1) as F1. pose proof (fam_of V2 t2 Hf2) as F2.
  destruct (assignable_shape tc t1 t2 Hf1 Hf2 Has) as [Hext Hshape].
  pose proof (writer_whyp E t2 xv F2 Hwt Hsm) as HW.
  destruct t1 as [x1 n1 ms1], t2 as [x2 n2 ms2]. cbn [ad_ext ad_members] in *. subst x2. subst x1.
  assert (Hty : forall mt1 mt2, In mt1 (codec_members ms1) -> In mt2 (codec_members ms2) ->
                  m_id (fst mt1) = m_id (fst mt2) -> snd mt1 = snd mt2).
  { intros mt1 mt2 H1 H2 Hid. apply in_codec in H1 as [m1 [Hm1 ->]]. apply in_codec in H2 as [m2 [Hm2 ->]].
    cbn [fst snd] in *. exact (Hshape m1 m2 Hm1 Hm2 Hid). }
  assert (Hid1 : forall mt1, In mt1 (codec_members ms1) -> 0 <= m_id (fst mt1) < 268435456).
  { intros mt1 H1. apply in_codec in H1 as [m1 [Hm1 ->]]. cbn [fst].
    pose proof (fam_ids V2 _ F1 m1 Hm1) as H. cbn [ad_members] in H. unfold am_id in *. lia. }
  destruct (mstruct_decodes E (codec_members ms1) (codec_members ms2) xv HW Hty Hid1 0 ltac:(lia))
    as [body [Es Ds]].
  assert (Es' : ser_struct_nested V2 E Mutable (cvS V2 E (codec_members ms2)) xv 0 = Ok (body, 0 + blen body))
    by exact Es.
  destruct (encode_struct V2 E Mutable (codec_members ms2) xv body _ Es') as [Henc [Hn Hmod]].
  set (n := pad_count (4 + blen body)) in *.
  destruct (Ds [] n (mkC 0 (blen (body ++ zeros n))) eq_refl eq_refl ltac:(lia)) as [p' Hdec].
  { reflexivity. }
  { cbn [c_lim]. rewrite blen_app, blen_zeros by lia. exact Hmod. }
  cbn [app] in Hdec.
  exists ([0; repr_id V2 E Mutable; 0; n] ++ body ++ zeros n), (ins (codec_members ms1) xv []).
  split; [exact Henc|]. split.
  { apply (decode_struct V2 E Mutable _ n _ _ p'). exact Hdec. }
  assert (Hlk : forall kk, lookup kk (ins (codec_members ms1) xv []) =
                           if mem kk (aids ms1) then lookup kk xv else None).
  { intros kk. rewrite ins_lookup, ids_codec. cbn [lookup]. now destruct (lookup kk xv). }
  unfold projects. cbn [ad_members]. apply andb_true_intro. split.
  - apply forallb_forall. intros m Hm. unfold member_agrees. rewrite Hlk.
    assert (Hmem : mem (am_id m) (aids ms1) = true) by (apply mem_true_iff; unfold aids; now apply in_map).
    rewrite Hmem. destruct (lookup (am_id m) xv); [apply val_eqb_refl|reflexivity].
  - apply forallb_forall. intros kk Hkk. apply keys_lookup in Hkk. rewrite Hlk in Hkk.
    destruct (mem kk (aids ms1)); [reflexivity|congruence].
Qed.
