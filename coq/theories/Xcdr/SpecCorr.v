(* Correspondence vocabulary for C10: the bytes the real serializer produced are compared with
   BOTH Coq encoders (the code model in C10_model_ok, the specification encoder in the oracle),
   and the value the real deserializer read back from them with the input value. *)
From DustDDS Require Export Base.Machine Xcdr.XcdrCorr Xcdr.SpecEncode.
Open Scope Z_scope.

Definition C10_case : Type := C09_case.

Definition C10_model_ok (c : C10_case) : bool :=
  match c_op c, c_out c with
  | Rt v e t x, OSer bs _ =>
    match encode v e t x with Ok bs' => list_eqb Z.eqb bs bs' | _ => false end
  | Rt v e t x, OSerFail r =>
    match encode v e t x, r with
    | Err a, Err b => a =? b
    | Panic _, Panic _ => true
    | _, _ => false
    end
  | _, _ => true
  end.

(* types both sides support and values of them; the cases of the remaining C09 class in S1/S2
   (XCDR1 present optional member with an empty value) are reported by C09 *)
Definition c10_scope (v : ver) (t : ty) (x : val) : bool :=
  wf_ty t && sup v t && is_aggr t && stage2 t && wt t x && N.eqb (known_class v t x) 0.

Definition C10_oracle_ok (c : C10_case) : bool :=
  match c_op c, c_out c with
  | Rt v e t x, OSer bs dec =>
    if c10_scope v t x && (blen bs <=? size_limit v t) then
      list_eqb Z.eqb bs (spec_encode v e t x) &&
      match dec with Ok y => val_eqb x y | _ => false end
    else true
  | Rt v e t x, OSerFail _ => negb (c10_scope v t x)
  | Rt v e t x, OAbort => negb (c10_scope v t x)
  | _, _ => true
  end.

Definition C10_known (c : C10_case) : N :=
  match c_op c with
  | Rt v e t x => c10_class v t x
  | _ => 0%N
  end.
