(* C39 proofs, part 6: on flat run-time types the coded decision IS the declarative relation
   `evolves` (or the two type objects are identical). *)
From DustDDS Require Import Base.Machine Xcdr.XcdrBytes Xcdr.XcdrModel Xcdr.XcdrProps
  Xcdr.AssignModel Xcdr.AssignProofs.
Open Scope Z_scope.

(* (A) type identifiers of flat member types: the decision is `aty_accepts`, never a panic *)
Lemma tid_flat : forall tc a b, flat_aty a = true -> flat_aty b = true ->
  tid_assignable tc (tid_of_aty a) (tid_of_aty b) = Ok (aty_accepts tc a b).
Proof.
  intros tc a b Ha Hb.
  destruct a as [p|b1|b1|t1]; try discriminate; destruct b as [q|b2|b2|t2]; try discriminate;
    cbn [tid_of_aty aty_accepts].
  - destruct p, q; reflexivity.
  - destruct p; destruct (b2 <=? 255); reflexivity.
  - destruct p; destruct (b2 <=? 255); reflexivity.
  - destruct q; destruct (b1 <=? 255); reflexivity.
  - destruct (b1 <=? 255), (b2 <=? 255); reflexivity.
  - destruct (b1 <=? 255), (b2 <=? 255); reflexivity.
  - destruct q; destruct (b1 <=? 255); reflexivity.
  - destruct (b1 <=? 255), (b2 <=? 255); reflexivity.
  - destruct (b1 <=? 255), (b2 <=? 255); reflexivity.
Qed.

Definition flat_list (l : list amember) : Prop := forall m, In m l -> flat_aty (am_ty m) = true.

(* (C) flag bits of the type object *)
Lemma sm_flag_bits : forall m,
  sm_optional (sm_of m) = m_opt (am_info m) /\
  sm_must_understand (sm_of m) = m_mu (am_info m) /\
  sm_key (sm_of m) = m_key (am_info m).
Proof.
  intros m. unfold sm_optional, sm_must_understand, sm_key, sm_of, flags_of_member. cbn [sm_flags].
  destruct (am_use_default m), (m_key (am_info m)), (m_mu (am_info m)), (m_opt (am_info m));
    repeat split; reflexivity.
Qed.

(* (B) the positional loop *)
Lemma zip_flat : forall tc l1 l2, flat_list l1 -> flat_list l2 ->
  zip_check tc (map sm_of l1) (map sm_of l2) =
  Ok (forall2b (same_member_pos tc) (firstn (Nat.min (length l1) (length l2)) l1)
                                    (firstn (Nat.min (length l1) (length l2)) l2)).
Proof.
  intros tc l1. induction l1 as [|m1 r1 IH]; intros l2 H1 H2; [reflexivity|].
  destruct l2 as [|m2 r2]; [reflexivity|].
  cbn [map zip_check length Nat.min firstn forall2b]. cbn [sm_of sm_id sm_name sm_tid].
  rewrite (tid_flat tc (am_ty m1) (am_ty m2) (H1 m1 (or_introl eq_refl)) (H2 m2 (or_introl eq_refl))).
  cbn [bind].
  rewrite (IH r2 (fun x Hx => H1 x (or_intror Hx)) (fun x Hx => H2 x (or_intror Hx))).
  unfold same_member_pos, same_member.
  destruct (sm_flag_bits m1) as [Ho1 _]. destruct (sm_flag_bits m2) as [Ho2 _].
  pose proof Ho1 as Ho1'. pose proof Ho2 as Ho2'. unfold sm_of in Ho1', Ho2'.
  rewrite ?Ho1, ?Ho2, ?Ho1', ?Ho2'.
  destruct (am_id m1 =? am_id m2), (tc_ign_names tc), (am_name m1 =? am_name m2),
    (aty_accepts tc (am_ty m1) (am_ty m2)), (m_opt (am_info m1)), (m_opt (am_info m2)); reflexivity.
Qed.

Lemma forall2b_firstn : forall {A B} (p : A -> B -> bool) l1 l2, length l1 = length l2 ->
  forall2b p (firstn (Nat.min (length l1) (length l2)) l1) (firstn (Nat.min (length l1) (length l2)) l2)
  = forall2b p l1 l2.
Proof.
  intros A B p l1 l2 H. rewrite H, Nat.min_id. rewrite (firstn_all l2).
  rewrite <- H. now rewrite firstn_all.
Qed.

Lemma forall2b_length : forall {A B} (p : A -> B -> bool) l1 l2,
  length l1 <> length l2 -> forall2b p l1 l2 = false.
Proof.
  intros A B p l1. induction l1 as [|a r IH]; intros [|b s] H; cbn [forall2b length] in *;
    try reflexivity; try congruence.
  rewrite IH by congruence. apply Bool.andb_false_r.
Qed.

(* (D) lookups through the type object *)
Lemma find_sm_of : forall id ms, find_sm id (map sm_of ms) = option_map sm_of (find_amember id ms).
Proof.
  intros id ms. induction ms as [|m r IH]; [reflexivity|].
  cbn [map find_sm find_amember sm_of sm_id]. destruct (am_id m =? id); [reflexivity|exact IH].
Qed.
Lemma has_id_of : forall ms id, has_id (map sm_of ms) id = mem id (aids ms).
Proof.
  intros ms id. unfold has_id, mem, aids. induction ms as [|m r IH]; [reflexivity|].
  cbn [map existsb sm_of sm_id]. rewrite IH. now rewrite (Z.eqb_sym (am_id m) id).
Qed.
Lemma has_name_of : forall ms n, has_name (map sm_of ms) n = mem n (anames ms).
Proof.
  intros ms n. unfold has_name, mem, anames. induction ms as [|m r IH]; [reflexivity|].
  cbn [map existsb sm_of sm_name]. rewrite IH. now rewrite (Z.eqb_sym (am_name m) n).
Qed.
Lemma find_amember_id : forall id ms m, find_amember id ms = Some m -> am_id m = id /\ In m ms.
Proof.
  induction ms as [|a r IH]; intros m H; [discriminate|]. cbn [find_amember] in H.
  destruct (Z.eqb_spec (am_id a) id); [inversion H; subst; split; [reflexivity|now left]|].
  destruct (IH m H). split; [assumption|now right].
Qed.
Lemma find_amember_mem : forall id ms,
  mem id (aids ms) = match find_amember id ms with Some _ => true | None => false end.
Proof.
  intros id ms. unfold mem, aids. induction ms as [|a r IH]; [reflexivity|].
  cbn [map existsb find_amember]. rewrite (Z.eqb_sym id (am_id a)).
  destruct (am_id a =? id); [reflexivity|exact IH].
Qed.

(* the by-id loop: `None` iff some name condition fails, else the conjunction of the type checks *)
Definition name_cond (tc : tce) (ms1 : list amember) (m2 : amember) : bool :=
  match find_amember (am_id m2) ms1 with
  | Some m1 => tc_ign_names tc || (am_name m1 =? am_name m2)
  | None => tc_ign_names tc || negb (mem (am_name m2) (anames ms1))
  end.
Definition type_cond (tc : tce) (ms1 : list amember) (m2 : amember) : bool :=
  match find_amember (am_id m2) ms1 with
  | Some m1 => aty_accepts tc (am_ty m1) (am_ty m2)
  | None => true
  end.

Lemma members_flat : forall tc ms1 l2 acc, flat_list ms1 -> flat_list l2 ->
  members_check tc (map sm_of ms1) (map sm_of l2) acc =
  Ok (if forallb (name_cond tc ms1) l2 then Some (acc && forallb (type_cond tc ms1) l2) else None).
Proof.
  intros tc ms1 l2. induction l2 as [|m2 r2 IH]; intros acc H1 H2.
  - cbn [map members_check forallb]. now rewrite Bool.andb_true_r.
  - cbn [map members_check forallb]. cbn [sm_of sm_id sm_name sm_tid]. rewrite find_sm_of.
    unfold name_cond at 1, type_cond at 1.
    assert (H2' : flat_list r2) by (intros x Hx; apply H2; now right).
    destruct (find_amember (am_id m2) ms1) as [m1|] eqn:Hf; cbn [option_map].
    + cbn [sm_of sm_name sm_tid].
      rewrite (tid_flat tc (am_ty m1) (am_ty m2) (H1 m1 (proj2 (find_amember_id _ _ _ Hf)))
                 (H2 m2 (or_introl eq_refl))).
      cbn [bind]. rewrite (IH _ H1 H2').
      destruct (tc_ign_names tc), (am_name m1 =? am_name m2); cbn [negb andb orb]; try reflexivity;
        destruct (forallb (name_cond tc ms1) r2); try reflexivity;
        now rewrite Bool.andb_assoc.
    + rewrite has_name_of. rewrite (IH _ H1 H2').
      destruct (tc_ign_names tc), (mem (am_name m2) (anames ms1)); cbn [negb andb orb]; reflexivity.
Qed.

(* (E) members that must appear on both sides *)
Definition lone_bad (other : list amember) (m : amember) : bool :=
  negb (mem (am_id m) (aids other)) && negb (extra_ok m).

Lemma missing_flat : forall a b,
  mu_missing (map sm_of a) (map sm_of b) || key_missing (map sm_of a) (map sm_of b) = existsb (lone_bad b) a.
Proof.
  intros a b. unfold mu_missing, key_missing. induction a as [|m r IH]; [reflexivity|].
  cbn [map existsb]. rewrite <- IH. destruct (sm_flag_bits m) as [Ho [Hm Hk]].
  rewrite Ho, Hm, Hk. cbn [sm_of sm_id]. rewrite has_id_of. unfold lone_bad, extra_ok.
  destruct (m_opt (am_info m)), (m_mu (am_info m)), (m_key (am_info m)), (mem (am_id m) (aids b));
    cbn [negb andb orb];
    repeat match goal with |- context [existsb ?f ?l] => destruct (existsb f l) end; reflexivity.
Qed.

Lemma forallb_and : forall {A} (f g : A -> bool) l, forallb (fun x => f x && g x) l = forallb f l && forallb g l.
Proof.
  intros A f g l. induction l as [|a r IH]; [reflexivity|]. cbn [forallb]. rewrite IH.
  destruct (f a), (g a), (forallb f r), (forallb g r); reflexivity.
Qed.
Lemma forallb_negb_existsb : forall {A} (f : A -> bool) l, forallb (fun x => negb (f x)) l = negb (existsb f l).
Proof. intros A f l. induction l as [|a r IH]; [reflexivity|]. cbn [forallb existsb]. rewrite IH. now destruct (f a). Qed.
Lemma forallb_ext_in : forall {A} (f g : A -> bool) l, (forall x, In x l -> f x = g x) -> forallb f l = forallb g l.
Proof.
  intros A f g l H. induction l as [|a r IH]; [reflexivity|]. cbn [forallb].
  rewrite (H a) by now left. rewrite IH; [reflexivity|]. intros x Hx. apply H. now right.
Qed.
Lemma existsb_map_sm : forall ms1 ms2,
  existsb (fun x => has_id (map sm_of ms1) (sm_id x)) (map sm_of ms2) =
  existsb (fun m2 => mem (am_id m2) (aids ms1)) ms2.
Proof.
  intros ms1 ms2. induction ms2 as [|m r IH]; [reflexivity|]. cbn [map existsb sm_of sm_id].
  now rewrite has_id_of, IH.
Qed.

(* the by-id part of the structure branch *)
Definition by_id_code (tc : tce) (ms1 ms2 : list smember) : res bool :=
  if negb (existsb (fun x => has_id ms1 (sm_id x)) ms2) then Ok false
  else
    r <- members_check tc ms1 ms2 true ;;
    match r with
    | None => Ok false
    | Some acc =>
      if mu_missing ms1 ms2 || mu_missing ms2 ms1 then Ok false
      else if key_missing ms1 ms2 || key_missing ms2 ms1 then Ok false
      else Ok acc
    end.

Lemma by_id_flat : forall tc ms1 ms2, flat_list ms1 -> flat_list ms2 ->
  by_id_code tc (map sm_of ms1) (map sm_of ms2) = Ok (by_id_rules tc ms1 ms2).
Proof.
  intros tc ms1 ms2 H1 H2. unfold by_id_code, by_id_rules.
  rewrite existsb_map_sm. rewrite (members_flat tc ms1 ms2 true H1 H2). cbn [bind andb].
  (* the writer-side condition splits into name, type and lone-member parts *)
  assert (Hsplit : forallb (fun m2 => match find_amember (am_id m2) ms1 with
                     | Some m1 => same_member tc m1 m2
                     | None => (tc_ign_names tc || negb (mem (am_name m2) (anames ms1))) && extra_ok m2
                     end) ms2 =
                   forallb (name_cond tc ms1) ms2 && forallb (type_cond tc ms1) ms2 &&
                   negb (existsb (lone_bad ms1) ms2)).
  { rewrite <- forallb_negb_existsb, <- !forallb_and. apply forallb_ext_in. intros m2 _.
    unfold name_cond, type_cond, lone_bad, same_member. rewrite find_amember_mem.
    destruct (find_amember (am_id m2) ms1) as [m1|] eqn:Hf.
    - destruct (find_amember_id _ _ _ Hf) as [Hid _]. rewrite Hid, Z.eqb_refl. cbn [negb andb].
      now rewrite Bool.andb_true_r.
    - cbn [negb andb]. rewrite Bool.andb_true_r, Bool.negb_involutive. reflexivity. }
  assert (Hlone1 : forallb (fun m1 => mem (am_id m1) (aids ms2) || extra_ok m1) ms1 =
                   negb (existsb (lone_bad ms2) ms1)).
  { rewrite <- forallb_negb_existsb. apply forallb_ext_in. intros m1 _. unfold lone_bad.
    destruct (mem (am_id m1) (aids ms2)), (extra_ok m1); reflexivity. }
  rewrite Hsplit, Hlone1.
  pose proof (missing_flat ms1 ms2) as M1. pose proof (missing_flat ms2 ms1) as M2.
  destruct (existsb (fun m2 => mem (am_id m2) (aids ms1)) ms2); cbn [negb andb]; [|reflexivity].
  destruct (forallb (name_cond tc ms1) ms2); cbn [andb]; [|reflexivity].
  destruct (mu_missing (map sm_of ms1) (map sm_of ms2)), (key_missing (map sm_of ms1) (map sm_of ms2)),
    (mu_missing (map sm_of ms2) (map sm_of ms1)), (key_missing (map sm_of ms2) (map sm_of ms1));
    cbn [orb] in M1, M2; rewrite <- M1, <- M2; cbn [orb negb andb];
    rewrite ?Bool.andb_false_r, ?Bool.andb_true_r; reflexivity.
Qed.

(* the structure branch on flat run-time types *)
Theorem rules_flat : forall tc t1 t2,
  flat_list (ad_members t1) -> flat_list (ad_members t2) ->
  struct_rules tc (cto_of t1) (cto_of t2) = Ok (evolves tc t1 t2).
Proof.
  intros tc [x1 n1 ms1] [x2 n2 ms2] H1 H2. cbn [ad_members] in H1, H2.
  pose proof (by_id_flat tc ms1 ms2 H1 H2) as Hid. unfold by_id_code in Hid.
  unfold struct_rules, evolves. cbv zeta.
  unfold st_final, st_appendable, st_mutable, cto_of. cbn [st_flags st_members ad_ext ad_members].
  destruct (flags_of_ext_bits x1) as [F1 [A1 M1]]. destruct (flags_of_ext_bits x2) as [F2 [A2 M2]].
  rewrite F1, F2, A1, A2, M1, M2. rewrite !map_length.
  destruct x1, x2; cbn [orb negb andb Bool.eqb]; try reflexivity.
  - (* FINAL / FINAL *)
    rewrite (zip_flat tc ms1 ms2 H1 H2). cbn [bind].
    destruct (Z.eqb_spec (Z.of_nat (length ms1)) (Z.of_nat (length ms2))) as [Hlen|Hlen]; cbn [negb].
    + apply Nat2Z.inj in Hlen. rewrite (forall2b_firstn _ ms1 ms2 Hlen).
      destruct (forall2b (same_member_pos tc) ms1 ms2); reflexivity.
    + rewrite forall2b_length by (intros Hc; apply Hlen; now rewrite Hc). reflexivity.
  - (* APPENDABLE / APPENDABLE *)
    rewrite (zip_flat tc ms1 ms2 H1 H2). cbn [bind].
    destruct (forall2b (same_member_pos tc) (firstn (Nat.min (length ms1) (length ms2)) ms1)
                       (firstn (Nat.min (length ms1) (length ms2)) ms2)); cbn [negb andb]; [|reflexivity].
    exact Hid.
  - (* MUTABLE / MUTABLE *)
    cbn [bind negb]. exact Hid.
Qed.

Theorem assignable_flat : forall tc t1 t2,
  flat_desc t1 = true -> flat_desc t2 = true ->
  struct_assignable tc (cto_of t1) (cto_of t2) =
  Ok (stype_eqb (cto_of t1) (cto_of t2) || evolves tc t1 t2).
Proof.
  intros tc t1 t2 Hf1 Hf2. unfold struct_assignable.
  destruct (stype_eqb (cto_of t1) (cto_of t2)); [reflexivity|]. cbn [orb].
  apply rules_flat.
  - unfold flat_desc in Hf1. apply andb_prop in Hf1 as [Hf1 _]. apply andb_prop in Hf1 as [Hf1 _].
    rewrite forallb_forall in Hf1. intros m Hm. specialize (Hf1 m Hm). now apply andb_prop in Hf1 as [? _].
  - unfold flat_desc in Hf2. apply andb_prop in Hf2 as [Hf2 _]. apply andb_prop in Hf2 as [Hf2 _].
    rewrite forallb_forall in Hf2. intros m Hm. specialize (Hf2 m Hm). now apply andb_prop in Hf2 as [? _].
Qed.

(* a legitimate evolution is accepted *)
Corollary evolves_accepted : forall tc t1 t2,
  flat_desc t1 = true -> flat_desc t2 = true -> evolves tc t1 t2 = true ->
  struct_assignable tc (cto_of t1) (cto_of t2) = Ok true.
Proof. intros. rewrite assignable_flat by assumption. rewrite H1. now rewrite Bool.orb_true_r. Qed.
