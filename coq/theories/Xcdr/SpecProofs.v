(* C10: the implementation model's encoder equals the specification encoder on the common
   subset, and the decoder accepts the specification encoder's output. *)
From DustDDS Require Import Base.Machine Xcdr.XcdrBytes Xcdr.XcdrBytesProofs Xcdr.XcdrModel
  Xcdr.XcdrProps Xcdr.XcdrProofs Xcdr.SpecEncode.
Open Scope Z_scope.
Ltac Zify.zify_post_hook ::= Z.div_mod_to_equations.

(* ---------------------------------------------------------------- alignment, primitives *)
Lemma padlen_mod : forall o a, a = 1 \/ a = 2 \/ a = 4 \/ a = 8 -> padlen o a = (- o) mod a.
Proof. intros o a H. unfold padlen, align_up. destruct H as [->|[->|[->| ->]]]; lia. Qed.

Lemma align_eq : forall V n o, n = 1 \/ n = 2 \/ n = 4 \/ n = 8 \/ n = 16 ->
  ALIGN V n o = enc_align V n o.
Proof.
  intros V n o H. unfold ALIGN, enc_align, MAXALIGN, maxalign. f_equal. symmetry. apply padlen_mod.
  destruct V; destruct H as [->|[->|[->|[->| ->]]]]; cbn; tauto.
Qed.

Lemma prim_size_sk : forall p, prim_size p = sk_size (prim_sk p).
Proof. destruct p; reflexivity. Qed.

Lemma prim_eq : forall V E p z o,
  in_range (prim_sk p) z = true ->
  PRIM V E p z o = enc_align V (sk_size (prim_sk p)) o ++ prim_bytes E (prim_sk p) z.
Proof.
  intros V E p z o Hr. unfold PRIM. rewrite align_eq by (destruct p; cbn; tauto).
  rewrite prim_size_sk. f_equal.
  destruct p; try reflexivity; unfold in_range in Hr; cbn [prim_sk] in *.
  - (* bool *)
    apply orb_prop in Hr. destruct Hr as [Hr|Hr]; apply Z.eqb_eq in Hr; subst z; destruct E; reflexivity.
  - (* char8: one octet on both sides *)
    unfold prim_bytes. change (Z.to_nat (sk_size KChar8)) with 1%nat.
    destruct E; reflexivity.
Qed.

Lemma ser_prim_spec : forall V E p z pos,
  in_range (prim_sk p) z = true ->
  ser_prim V E (prim_sk p) z pos = Ok (PRIM V E p z pos, pos + blen (PRIM V E p z pos)).
Proof. intros. unfold ser_prim, ret. now rewrite prim_eq. Qed.

Lemma u32_spec : forall V E z pos, 0 <= z <= u32_max ->
  ser_prim V E KU32 z pos = Ok (PRIM V E PU32 z pos, pos + blen (PRIM V E PU32 z pos)).
Proof.
  intros. apply (ser_prim_spec V E PU32).
  unfold in_range, u32_max in *. cbn [prim_sk]. apply andb_true_intro. split; [apply Z.leb_le|apply Z.ltb_lt]; lia.
Qed.

(* ---------------------------------------------------------------- lists *)
Definition agrees (f : Z -> res W) (g : Z -> list Z) : Prop :=
  forall pos, f pos = Ok (g pos, pos + blen (g pos)).

Lemma cat_spec : forall {A} (f : A -> Z -> res W) (g : A -> Z -> list Z) l,
  (forall a, In a l -> agrees (f a) (g a)) -> agrees (ser_list f l) (cat g l).
Proof.
  induction l as [|a r IH]; intros Hall pos.
  - cbn [ser_list cat]. rewrite blen_nil. f_equal. f_equal. lia.
  - cbn [ser_list cat]. rewrite (Hall a (or_introl eq_refl)). cbn [bind].
    rewrite IH by (intros; apply Hall; now right). cbn [bind]. rewrite blen_app. f_equal. f_equal. lia.
Qed.

Lemma seq2_spec : forall f g f' g', agrees f f' -> agrees g g' ->
  agrees (seq2 f g) (fun pos => f' pos ++ g' (pos + blen (f' pos))).
Proof.
  intros f g f' g' Hf Hg pos. unfold seq2. rewrite Hf. cbn [bind]. rewrite Hg. cbn [bind].
  rewrite blen_app. f_equal. f_equal. lia.
Qed.

Lemma le_enc_mod : forall n z, le_enc n (z mod pow256 n) = le_enc n z.
Proof.
  induction n; intros; [reflexivity|]. cbn [le_enc]. rewrite pow256_S.
  pose proof (pow256_pos n). f_equal.
  - rewrite Z.rem_mul_r by lia. rewrite (Z.mul_comm 256), Z_mod_plus_full. apply Z.mod_mod. lia.
  - rewrite Z.rem_mul_r by lia. rewrite (Z.mul_comm 256), Z.div_add by lia.
    rewrite (Z.div_small (z mod 256) 256) by (apply Z.mod_pos_bound; lia).
    rewrite Z.add_0_l. apply IHn.
Qed.
Lemma int_enc_wrap32 : forall E z, int_enc E 4 (wrap_u32 z) = int_enc E 4 z.
Proof.
  intros. unfold wrap_u32, two32. change 4294967296 with (pow256 4).
  destruct E; cbn [int_enc]; now rewrite le_enc_mod.
Qed.

Lemma dheader_spec : forall V E f g, agrees f g -> agrees (ser_dheader V E f) (DHEADER V E g).
Proof.
  intros V E f g H pos. unfold ser_dheader, DHEADER. cbv zeta.
  rewrite align_eq by tauto. rewrite H. cbn [bind]. rewrite int_enc_wrap32.
  f_equal. f_equal. rewrite !blen_app, int_enc_blen. lia.
Qed.

Lemma string_spec : forall V E s, str_ok s = true -> agrees (ser_string V E s) (STRING V E s).
Proof.
  intros V E s Hs pos. unfold str_ok in Hs. boolZ. unfold ser_string, STRING. cbv zeta.
  pose proof (blen_nonneg (utf8_enc s)).
  replace (wrap_u32 (blen (utf8_enc s))) with (blen (utf8_enc s))
    by (unfold wrap_u32, two32; symmetry; apply Z.mod_small; unfold u32_max in *; lia).
  unfold seq2. rewrite u32_spec by lia. cbn [bind]. unfold ret. cbn [bind].
  rewrite !blen_app. f_equal. f_equal. lia.
Qed.

(* ---------------------------------------------------------------- collections *)
Lemma prim_elems_spec : forall V E p l,
  forallb (in_range (prim_sk p)) l = true ->
  agrees (ser_list (ser_prim V E (prim_sk p)) l) (cat (PRIM V E p) l).
Proof.
  intros V E p l Hr. apply cat_spec. intros z Hz pos.
  rewrite forallb_forall in Hr. apply ser_prim_spec. now apply Hr.
Qed.

Lemma raw_u8_cat : forall V E p l, p = PByte \/ p = PU8 ->
  forallb (in_range KU8) l = true -> forall pos, cat (PRIM V E p) l pos = l.
Proof.
  intros V E p l Hp. induction l as [|z r IH]; intros Hr pos; [reflexivity|].
  cbn [forallb] in Hr. apply andb_prop in Hr as [Hz Hr].
  assert (Hb : PRIM V E p z pos = [z]).
  { unfold in_range in Hz. boolZ.
    assert (Hm : z mod 256 = z) by (apply Z.mod_small; lia).
    assert (Hs : prim_size p = 1) by (destruct Hp; subst p; reflexivity).
    unfold PRIM, ALIGN. rewrite Hs.
    replace (Z.min 1 (MAXALIGN V)) with 1 by (destruct V; reflexivity).
    rewrite Z.mod_1_r. change (zeros 0) with (@nil Z). change (Z.to_nat 1) with 1%nat.
    destruct E; cbn [int_enc le_enc rev app]; rewrite Hm; reflexivity. }
  cbn [cat]. rewrite Hb. cbn [app]. now rewrite IH.
Qed.
Lemma raw_u8_spec : forall V E p l, p = PByte \/ p = PU8 ->
  forallb (in_range KU8) l = true -> agrees (ret l) (cat (PRIM V E p) l).
Proof. intros V E p l Hp Hr pos. rewrite raw_u8_cat by assumption. reflexivity. Qed.

Definition no_wstr_bad (V : ver) (e : ty) : Prop := cbad V e = false.

Lemma elements_spec : forall V E e (w : val -> bool) fe fu (g : val -> Z -> list Z) v,
  elem_ok e = true -> cbad V e = false ->
  elems_wt e w v = true ->
  (forall d, w (VData d) = true -> agrees (fe (VData d)) (g (VData d))) ->
  agrees (ser_elements V E e fe fu v) (ELEMS V E e g v).
Proof.
  intros V E e w fe fu g v Hok Hb Hw Hfe.
  destruct e as [p| | |h ls|e'|n e'|x ms|x dd cs]; try discriminate; cbn [elems_wt] in Hw.
  - destruct v as [| | |k l| |]; try discriminate.
    apply andb_prop in Hw as [Hk Hr]. apply sk_eqb_eq in Hk. subst k.
    intros pos. cbn [ser_elements ELEMS]. rewrite sk_eqb_refl.
    destruct p; try (now apply prim_elems_spec);
      cbn [prim_sk] in *; apply raw_u8_spec; tauto.
  - destruct v as [| | | |l|]; try discriminate. intros pos. cbn [ser_elements ELEMS]. revert pos.
    apply cat_spec. intros s Hs. rewrite forallb_forall in Hw. apply string_spec. now apply Hw.
  - destruct v as [| | | | |l]; try discriminate. intros pos. cbn [ser_elements ELEMS]. revert pos.
    apply cat_spec. intros d Hd. rewrite forallb_forall in Hw.
    apply Hfe. now apply Hw.
  - destruct v as [| | | | |l]; try discriminate. intros pos. cbn [ser_elements ELEMS]. revert pos.
    apply cat_spec. intros d Hd. rewrite forallb_forall in Hw.
    apply Hfe. now apply Hw.
Qed.

Lemma sequence_spec : forall V E e fe fu g v,
  seq_length v <= u32_max ->
  agrees (ser_elements V E e fe fu v) (ELEMS V E e g v) ->
  agrees (ser_sequence V E e fe fu v) (SEQUENCE V E e g v).
Proof.
  intros V E e fe fu g v Hlen Hel.
  pose proof (seq_length_nonneg v) as Hnn.
  assert (Hbody : agrees (seq2 (ser_length V E v) (ser_elements V E e fe fu v))
            (fun o' => PRIM V E PU32 (seq_length v) o' ++
                       ELEMS V E e g v (o' + blen (PRIM V E PU32 (seq_length v) o')))).
  { apply seq2_spec; [|exact Hel]. intros pos. unfold ser_length.
    replace (wrap_u32 (seq_length v)) with (seq_length v)
      by (unfold wrap_u32, two32; symmetry; apply Z.mod_small; unfold u32_max in *; lia).
    apply u32_spec. lia. }
  unfold ser_sequence, SEQUENCE. cbv zeta.
  destruct e; cbn [is_prim_ty]; try exact Hbody; destruct V; try exact Hbody;
    apply dheader_spec; exact Hbody.
Qed.

Lemma array_spec : forall V E e fe fu g v,
  agrees (ser_elements V E e fe fu v) (ELEMS V E e g v) ->
  agrees (ser_array V E e fe fu v) (ARRAY V E e g v).
Proof.
  intros V E e fe fu g v Hel. unfold ser_array, ARRAY.
  destruct e; cbn [is_prim_ty]; try exact Hel; destruct V; try exact Hel;
    apply dheader_spec; exact Hel.
Qed.

(* ---------------------------------------------------------------- structures *)
Fixpoint spec_members (V : ver) (E : endian) (d : dyn) (ms : list (minfo * ty)) (o : Z) : list Z :=
  match ms with
  | [] => []
  | (m, t') :: r =>
    let b := MEMBER V E m (spec_ty V E t') (lookup (m_id m) d) o in b ++ spec_members V E d r (o + blen b)
  end.

Lemma spec_ty_struct : forall V E x ms v o,
  spec_ty V E (TStruct x ms) v o =
  match x with
  | Final => spec_members V E (dval v) ms o
  | Appendable => match V with V1 => spec_members V E (dval v) ms o
                             | V2 => DHEADER V E (spec_members V E (dval v) ms) o end
  | Mutable => []
  end.
Proof.
  intros. cbn [spec_ty].
  assert (Hgo : forall ms o,
    (fix go (ms : list (minfo * ty)) (o : Z) : list Z :=
       match ms with
       | [] => []
       | (m, t') :: r =>
         let b := MEMBER V E m (spec_ty V E t') (lookup (m_id m) (dval v)) o in b ++ go r (o + blen b)
       end) ms o = spec_members V E (dval v) ms o).
  { induction ms0 as [|[m t'] r IH]; intros; [reflexivity|]. cbn [spec_members]. cbv zeta. now rewrite IH. }
  destruct x; [apply Hgo| |reflexivity].
  destruct V; [apply Hgo|]. unfold DHEADER. cbv zeta. now rewrite !Hgo.
Qed.

Lemma le_enc_mod' : forall n z z', z mod pow256 n = z' mod pow256 n -> le_enc n z = le_enc n z'.
Proof. intros. rewrite <- (le_enc_mod n z), <- (le_enc_mod n z'). now rewrite H. Qed.
Lemma int_enc_mod16 : forall E z z', z mod 65536 = z' mod 65536 -> int_enc E 2 z = int_enc E 2 z'.
Proof.
  intros E z z' H. change 65536 with (pow256 2) in H. destruct E; cbn [int_enc]; now rewrite (le_enc_mod' 2 z z' H).
Qed.

Definition mem_spec (V : ver) (E : endian) (ms : list (minfo * ty)) (d : dyn) : Prop :=
  nodup_z (ids ms) = true /\
  (V = V1 -> Forall (fun mt : minfo * ty => m_opt (fst mt) = true -> 0 <= m_id (fst mt) < 16384) ms) /\
  Forall (fun mt : minfo * ty =>
    match lookup (m_id (fst mt)) d with
    | Some v => agrees (ser_ty V E (snd mt) v) (spec_ty V E (snd mt) v)
    | None => m_opt (fst mt) = true
    end) ms.

Lemma fmember_spec : forall V E ms d mt, mem_spec V E ms d -> In mt ms ->
  agrees (ser_fmember V E (cvS V E ms) d (m_id (fst mt)))
         (MEMBER V E (fst mt) (spec_ty V E (snd mt)) (lookup (m_id (fst mt)) d)).
Proof.
  intros V E ms d mt [Hnd [Hopt1 Hmem]] Hin pos.
  rewrite Forall_forall in Hmem. specialize (Hmem mt Hin).
  unfold ser_fmember, MEMBER. rewrite find_cvS by assumption. cbn [fst].
  destruct (m_opt (fst mt)) eqn:Hopt.
  - destruct V.
    { (* XCDR1: parameter with short header *)
      pose proof (Hopt1 eq_refl) as Ho. rewrite Forall_forall in Ho. specialize (Ho mt Hin Hopt).
      unfold ser_opt_fmember, ser_mmember1, PLMEMBER. rewrite find_cvS by assumption. cbv zeta.
      replace (16384 <=? m_id (fst mt)) with false by (symmetry; apply Z.leb_gt; lia).
      assert (Hpl : 0 <= padlen pos 4 < 4) by (apply padlen_range; lia).
      assert (Hq : (pos + blen (zeros (padlen pos 4))) mod 2 = 0).
      { rewrite blen_zeros by lia. pose proof (padlen_aligned pos 4 ltac:(lia)). lia. }
      unfold ser_prim, ret. rewrite even_align2 by exact Hq. cbn [app bind prim_bytes sk_bytes].
      assert (Hbody : match lookup (m_id (fst mt)) d with
                      | Some _ => unwrap (ser_value (cvS V1 E ms) d (m_id (fst mt)) 0)
                      | None => Ok ([], 0)
                      end =
                      Ok (match lookup (m_id (fst mt)) d with Some v => spec_ty V1 E (snd mt) v 0 | None => [] end,
                          blen (match lookup (m_id (fst mt)) d with Some v => spec_ty V1 E (snd mt) v 0 | None => [] end))).
      { destruct (lookup (m_id (fst mt)) d) as [v|] eqn:Hv; [|reflexivity].
        unfold ser_value. rewrite find_cvS by assumption. unfold get. rewrite Hv. cbn [bind].
        rewrite Hmem. cbn [unwrap]. f_equal. }
      rewrite Hbody. cbn [bind].
      set (body := match lookup (m_id (fst mt)) d with Some v => spec_ty V1 E (snd mt) v 0 | None => [] end).
      assert (Hal : ALIGN V1 4 pos = zeros (padlen pos 4)).
      { rewrite align_eq by tauto. reflexivity. }
      rewrite Hal.
      rewrite (int_enc_mod16 E (wrap_u16 (blen body)) (blen body)).
      2:{ unfold wrap_u16. apply Z.mod_mod. lia. }
      f_equal. f_equal. rewrite !blen_app, !int_enc_blen, blen_zeros by lia. lia. }
    unfold ser_opt_fmember.
    destruct (lookup (m_id (fst mt)) d) as [v|] eqn:Hv.
    + pose proof (ser_prim_spec V2 E PBool 1 pos eq_refl) as Hb.
      cbn [prim_sk] in Hb. unfold seq2. rewrite Hb. cbn [bind].
      unfold ser_value. rewrite find_cvS by assumption. unfold get. rewrite Hv. cbn [bind].
      rewrite Hmem. cbn [bind]. rewrite blen_app. f_equal. f_equal. lia.
    + pose proof (ser_prim_spec V2 E PBool 0 pos eq_refl) as Hb.
      cbn [prim_sk] in Hb. exact Hb.
  - destruct (lookup (m_id (fst mt)) d) as [v|] eqn:Hv; [|congruence].
    unfold ser_value. rewrite find_cvS by assumption. unfold get. rewrite Hv. cbn [bind]. apply Hmem.
Qed.

Lemma fmembers_spec : forall V E ms d ms2, mem_spec V E ms d -> incl ms2 ms ->
  agrees (ser_list (fun mx : minfo * (ty * F) => ser_fmember V E (cvS V E ms) d (m_id (fst mx))) (cvS V E ms2))
         (spec_members V E d ms2).
Proof.
  intros V E ms d ms2 HH. induction ms2 as [|[m t'] r IH]; intros Hincl pos.
  - cbn [cvS map ser_list spec_members]. rewrite blen_nil. f_equal. f_equal. lia.
  - cbn [cvS map ser_list spec_members fst]. cbv zeta.
    pose proof (fmember_spec V E ms d (m, t') HH (Hincl _ (or_introl eq_refl)) pos) as Hm.
    cbn [fst snd] in Hm. rewrite Hm. cbn [bind].
    fold (cvS V E r). rewrite IH by (intros x Hx; apply Hincl; now right). cbn [bind].
    rewrite blen_app. f_equal. f_equal. lia.
Qed.

Lemma struct_spec : forall V E ms d x, mem_spec V E ms d -> x <> Mutable ->
  agrees (ser_struct_nested V E x (cvS V E ms) d)
         (spec_ty V E (TStruct x ms) (VData d)).
Proof.
  intros V E ms d x HH Hx pos. rewrite spec_ty_struct. cbn [dval].
  destruct x; [| |congruence]; unfold ser_struct_nested.
  - apply (fmembers_spec V E ms d ms HH (incl_refl _)).
  - unfold ser_appendable. destruct V.
    + apply (fmembers_spec V1 E ms d ms HH (incl_refl _)).
    + apply dheader_spec. apply (fmembers_spec V2 E ms d ms HH (incl_refl _)).
Qed.

(* ---------------------------------------------------------------- main induction *)
Lemma common_members : forall V ms,
  (fix go (ms : list (minfo * ty)) : bool :=
     match ms with [] => true | (m, t') :: r => wf_ty t' && go r end) ms = true ->
  (fix go (ms : list (minfo * ty)) : bool :=
     match ms with [] => false | (_, t') :: r => ty_any (cbad V) t' || go r end) ms = false ->
  Forall (fun mt => common V (snd mt) = true) ms.
Proof.
  induction ms as [|[m t] r IH]; intros H1 H2; [constructor|].
  apply andb_prop in H1 as [H1a H1b]. apply orb_false_elim in H2 as [H2a H2b].
  constructor; [|now apply IH]. cbn [snd]. unfold common. now rewrite H1a, H2a.
Qed.

Lemma common_struct : forall V x ms, common V (TStruct x ms) = true ->
  nodup_z (ids ms) = true /\ cbad V (TStruct x ms) = false /\
  Forall (fun mt => common V (snd mt) = true) ms.
Proof.
  intros V x ms H. unfold common in H. apply andb_prop in H as [Hw Ha].
  apply negb_true_iff in Ha. cbn [wf_ty ty_any] in Hw, Ha.
  apply orb_false_elim in Ha as [Hb Hg].
  apply andb_prop in Hw as [Hw Hg']. apply andb_prop in Hw as [Hnd _].
  repeat split; try assumption. now apply common_members.
Qed.

Theorem eq_ty : forall V E t, common V t = true ->
  forall v, wt t v = true ->
  agrees (ser_ty V E t v) (spec_ty V E t v).
Proof.
  intros V E t. induction t using ty_ind'; intros Hg v Hw.
  - cbn [wt] in Hw. destruct v as [k z| | | | |]; try discriminate.
    apply andb_prop in Hw as [Hk Hr]. pose proof (sk_eqb_eq _ _ Hk) as ->.
    intros pos. cbn [ser_ty spec_ty zval]. rewrite sk_eqb_refl.
    now apply ser_prim_spec.
  - cbn [wt] in Hw. destruct v as [|s| | | |]; try discriminate.
    intros pos. cbn [ser_ty spec_ty sval]. now apply string_spec.
  - exfalso. unfold common in Hg. apply andb_prop in Hg as [_ Hg]. apply negb_true_iff in Hg.
    apply ty_any_self in Hg. discriminate.
  - (* enumeration *)
    assert (Hh : holder_ok h = true).
    { unfold common in Hg. apply andb_prop in Hg as [Hg _]. cbn [wf_ty] in Hg. now apply andb_prop in Hg as [Hg _]. }
    cbn [wt] in Hw.
    destruct v as [| |d| | |]; try discriminate.
    destruct d as [|[k0 v0] r]; [discriminate|]. destruct k0; try discriminate.
    destruct v0 as [k z| | | | |]; try discriminate. destruct r; [|discriminate].
    apply andb_prop in Hw as [Hw Hl]. apply andb_prop in Hw as [Hk Hr].
    apply sk_eqb_eq in Hk. subst k.
    intros pos. cbn [ser_ty on_data spec_ty dval zval].
    pose proof (ser_prim_spec V E h z pos Hr) as Hp.
    destruct h; try discriminate; cbn [ser_enum get_k lookup Z.eqb sk_eqb bind prim_sk] in *; exact Hp.
  - (* sequence *)
    unfold common in Hg. apply andb_prop in Hg as [Hwf Ha]. apply negb_true_iff in Ha.
    cbn [wf_ty] in Hwf. apply andb_prop in Hwf as [Hok Hwfe].
    cbn [ty_any] in Ha. apply orb_false_elim in Ha as [_ Hae].
    assert (Hge : common V t = true) by (unfold common; now rewrite Hwfe, Hae).
    cbn [wt] in Hw. apply andb_prop in Hw as [Hel Hlen]. apply Z.leb_le in Hlen.
    destruct (ser_ty_seq V E t) as [fu ->]. cbn [spec_ty].
    apply sequence_spec; [exact Hlen|].
    apply (elements_spec V E t (wt t)); try assumption.
    + now apply ty_any_self.
    + intros d Hwd. now apply IHt.
  - (* array *)
    unfold common in Hg. apply andb_prop in Hg as [Hwf Ha]. apply negb_true_iff in Ha.
    cbn [wf_ty] in Hwf. apply andb_prop in Hwf as [Hwf _]. apply andb_prop in Hwf as [Hwf _].
    apply andb_prop in Hwf as [Hok Hwfe].
    cbn [ty_any] in Ha. apply orb_false_elim in Ha as [_ Hae].
    assert (Hge : common V t = true) by (unfold common; now rewrite Hwfe, Hae).
    cbn [wt] in Hw. apply andb_prop in Hw as [Hel Hlen].
    destruct (ser_ty_arr V E n t) as [fu ->]. cbn [spec_ty].
    apply array_spec.
    apply (elements_spec V E t (wt t)); try assumption.
    + now apply ty_any_self.
    + intros d Hwd. now apply IHt.
  - (* structure *)
    destruct (common_struct V x ms Hg) as [Hnd [Hb Hgm]].
    destruct v as [| |d| | |]; try (cbn [wt] in Hw; discriminate).
    cbn [wt] in Hw. apply andb_prop in Hw as [Hw Hgo]. apply andb_prop in Hw as [Hs Hk].
    apply wt_members in Hgo.
    assert (Hids : forallb id_ok (ids ms) = true).
    { unfold common in Hg. apply andb_prop in Hg as [Hwf _]. cbn [wf_ty] in Hwf.
      apply andb_prop in Hwf as [Hwf _]. now apply andb_prop in Hwf as [_ Hwf]. }
    unfold cbad in Hb. apply orb_false_elim in Hb as [Hb Hb3]. apply orb_false_elim in Hb as [Hb _].
    apply orb_false_elim in Hb as [_ Hmut].
    assert (Hx : x <> Mutable) by (intros ->; discriminate).
    assert (HH : mem_spec V E ms d).
    { split; [exact Hnd|]. split.
      - intros ->. apply orb_false_elim in Hb3 as [_ Hpl]. cbn [pl_long] in Hpl.
        apply Forall_forall. intros mt Hin Hopt.
        rewrite forallb_forall in Hids.
        pose proof (Hids (m_id (fst mt)) ltac:(unfold ids; apply in_map_iff; now exists mt)) as Hi.
        unfold id_ok in Hi. apply andb_prop in Hi as [Hi0 _]. apply Z.leb_le in Hi0.
        destruct (Z.leb_spec 16384 (m_id (fst mt))) as [Hge|]; [|lia].
        assert (existsb (fun mx : minfo * ty => m_opt (fst mx) && (16384 <=? m_id (fst mx))) ms = true).
        { apply existsb_exists. exists mt. split; [exact Hin|]. rewrite Hopt. cbn [andb]. now apply Z.leb_le. }
        congruence.
      - rewrite Forall_forall in *. intros mt Hin.
        specialize (H mt Hin). specialize (Hgm mt Hin). specialize (Hgo mt Hin).
        destruct (lookup (m_id (fst mt)) d) as [v'|] eqn:Hl; [|exact Hgo].
        apply H; [exact Hgm|exact Hgo]. }
    rewrite ser_ty_struct. cbn [on_data]. now apply struct_spec.
  - exfalso. unfold common in Hg. apply andb_prop in Hg as [_ Hg]. apply negb_true_iff in Hg.
    apply ty_any_self in Hg. discriminate.
Qed.

(* ---------------------------------------------------------------- top level *)
Lemma enc_id_eq : forall V E x, repr_id V E x = ENC_ID V E x.
Proof. destruct V, E, x; reflexivity. Qed.

Theorem code_eq_spec : forall V E t v,
  is_aggr t = true -> common V t = true -> wt t v = true ->
  encode V E t v = Ok (spec_encode V E t v).
Proof.
  intros V E t v Ha Hc Hw. unfold encode, spec_encode. rewrite Ha.
  rewrite (eq_ty V E t Hc v Hw 0). cbn [bind]. cbv zeta.
  set (body := spec_ty V E t v 0).
  assert (Hb : blen ([0; repr_id V E (ty_ext t); 0; 0] ++ body) = 4 + blen body)
    by (rewrite blen_app; reflexivity).
  rewrite Hb.
  assert (Hp : pad_count (4 + blen body) = (- (4 + blen body)) mod 4) by (unfold pad_count; lia).
  rewrite Hp, enc_id_eq. reflexivity.
Qed.

Lemma common_tgood : forall V t, common V t = true -> tgood V t = true.
Proof.
  intros V t Hc. unfold common in Hc. apply andb_prop in Hc as [Hwf Ha]. apply negb_true_iff in Ha.
  unfold tgood. rewrite Hwf. cbn [andb]. apply negb_true_iff.
  apply (ty_any_mono (cbad V) (tbad V)); [|exact Ha].
  intros t0 Hq. unfold tbad, cbad in *. destruct V, (is_union t0), (is_mutable t0), (is_wstr t0),
    (opt_empty_trap t0), (pl_long t0); cbn in *; congruence.
Qed.

(* the deserializer accepts what the specification encoder produces (within the size limit) *)
Theorem spec_decodable : forall V E t v,
  is_aggr t = true -> common V t = true -> wt t v = true ->
  blen (spec_encode V E t v) <= size_limit V t ->
  decode t (spec_encode V E t v) = Ok v.
Proof.
  intros V E t v Ha Hc Hw Hl.
  destruct (roundtrip_tgood V E t v Ha (common_tgood V t Hc) Hw) as [bs [He Hd]].
  rewrite (code_eq_spec V E t v Ha Hc Hw) in He. inversion He. subst bs. now destruct (Hd Hl).
Qed.

(* ---------------------------------------------------------------- differences (our reading) *)
Definition differs (V : ver) (E : endian) (t : ty) (v : val) : Prop :=
  is_aggr t = true /\ wf_ty t = true /\ wt t v = true /\
  exists bs, encode V E t v = Ok bs /\ bs <> spec_encode V E t v.
Ltac dif :=
  unfold differs; do 3 (split; [vm_compute; reflexivity|]);
  eexists; split; [vm_compute; reflexivity|vm_compute; discriminate].

(* wide string "a": implementation 02 00 00 00 'a' 00 NUL NUL; rule (4) as read: 02 00 00 00 'a' 00 *)
Lemma diff_wstring : differs V2 LE (TStruct Final [(mk 0, TWStr)]) (VData [(0, VStr [97])]).
Proof. dif. Qed.

(* ---------------------------------------------------------------- outside the classes *)
Lemma class0_common : forall V t v, wf_ty t = true -> sup V t = true ->
  c10_class V t v = 0%N -> known_class V t v = 0%N -> common V t = true.
Proof.
  intros V t v Hwf Hsup Hk Hk9. unfold c10_class in Hk.
  destruct (ty_any is_wstr t) eqn:Hw; [discriminate|].
  unfold known_class in Hk9.
  destruct (stage2 t) eqn:Hs; [|discriminate]. cbn [negb] in Hk9.
  unfold stage2 in Hs. apply negb_true_iff in Hs.
  rewrite ty_any_or in Hs. apply orb_false_elim in Hs as [Hs1 Hs2].
  unfold common. rewrite Hwf. cbn [andb]. apply negb_true_iff.
  destruct V; cbn [andb] in Hk9.
  - destruct (ty_any opt_empty_trap t) eqn:Hz; [discriminate|].
    unfold sup in Hsup. apply negb_true_iff in Hsup.
    rewrite (ty_any_ext (cbad V1)
      (fun t => ((is_union t || is_mutable t) || is_wstr t) || (opt_empty_trap t || pl_long t))) by reflexivity.
    now rewrite !ty_any_or, Hs1, Hs2, Hw, Hz, Hsup.
  - rewrite (ty_any_ext (cbad V2)
      (fun t => ((is_union t || is_mutable t) || is_wstr t) || (fun _ => false) t)) by reflexivity.
    now rewrite !ty_any_or, Hs1, Hs2, Hw, ty_any_false.
Qed.

Theorem c10_outside_classes : forall V E t v,
  is_aggr t = true -> wf_ty t = true -> sup V t = true -> wt t v = true ->
  c10_class V t v = 0%N -> known_class V t v = 0%N ->
  encode V E t v = Ok (spec_encode V E t v) /\
  (blen (spec_encode V E t v) <= size_limit V t -> decode t (spec_encode V E t v) = Ok v).
Proof.
  intros V E t v Ha Hwf Hsup Hw Hk Hk9.
  pose proof (class0_common V t v Hwf Hsup Hk Hk9) as Hc.
  split; [now apply code_eq_spec|intros; now apply spec_decodable].
Qed.

(* the inputs of the repaired differences: the encoders agree and the value comes back *)
Lemma regression_c10 :
  (let t := TStruct Final [(mk 0, TPrim PChar8)] in let v := VData [(0, VP KChar8 233)] in
   encode V2 LE t v = Ok (spec_encode V2 LE t v) /\ decode t (spec_encode V2 LE t v) = Ok v) /\
  (let t := TStruct Final [(mk 0, TPrim PU64); (mk 1, TPrim PF128)] in
   let v := VData [(0, VP KU64 7); (1, VP KF128 9)] in
   encode V1 BE t v = Ok (spec_encode V1 BE t v) /\ decode t (spec_encode V1 BE t v) = Ok v) /\
  (let t := TStruct Final [(mko 0, TPrim PU8); (mk 1, TPrim PU64)] in
   let v := VData [(0, VP KU8 1); (1, VP KU64 2)] in
   encode V1 LE t v = Ok (spec_encode V1 LE t v) /\ decode t (spec_encode V1 LE t v) = Ok v).
Proof. cbv zeta. repeat split; vm_compute; reflexivity. Qed.
