(* C10: the implementation model's encoder equals the specification encoder on the common
   subset, and the decoder accepts the specification encoder's output. *)
From DustDDS Require Import Base.Machine Xcdr.XcdrBytes Xcdr.XcdrBytesProofs Xcdr.XcdrModel
  Xcdr.XcdrProps Xcdr.XcdrProofs Xcdr.SpecEncode.
Open Scope Z_scope.
Ltac Zify.zify_post_hook ::= Z.div_mod_to_equations.

(* ---------------------------------------------------------------- the common subset *)
Definition is_wstr (t : ty) : bool := match t with TWStr => true | _ => false end.
(* tbad (C09: union, mutable, XCDR1 float128 / optional) or a wide string (rule (4) is read
   differently by the specification encoder); float128 in XCDR1 is fine for the WRITER *)
Definition cbad (V : ver) (t : ty) : bool :=
  is_union t || is_mutable t || is_wstr t ||
  (match V with V1 => has_opt_member t | V2 => false end).
Definition common (V : ver) (t : ty) : bool := wf_ty t && negb (ty_any (cbad V) t).

(* ---------------------------------------------------------------- alignment, primitives *)
Lemma padlen_mod : forall o a, a = 1 \/ a = 2 \/ a = 4 \/ a = 8 -> padlen o a = (- o) mod a.
Proof. intros o a H. unfold padlen, align_up. destruct H as [->|[->|[->| ->]]]; lia. Qed.

Lemma align_eq : forall V n o, n = 1 \/ n = 2 \/ n = 4 \/ n = 8 \/ n = 16 ->
  ALIGN V n o = enc_align V n o.
Proof.
  intros V n o H. unfold ALIGN, enc_align, MAXALIGN, maxalign. f_equal. symmetry. apply padlen_mod.
  destruct V; destruct H as [->|[->|[->|[->| ->]]]]; cbn; tauto.
Qed.

Lemma prim_size_sk : forall p, prim_size p = sk_size (prim_sk p).
Proof. destruct p; reflexivity. Qed.

Lemma prim_eq : forall V E p z o,
  in_range (prim_sk p) z = true -> (p = PChar8 -> z < 128) ->
  PRIM V E p z o = enc_align V (sk_size (prim_sk p)) o ++ prim_bytes E (prim_sk p) z.
Proof.
  intros V E p z o Hr Hc. unfold PRIM. rewrite align_eq by (destruct p; cbn; tauto).
  rewrite prim_size_sk. f_equal.
  destruct p; try reflexivity; unfold in_range in Hr; cbn [prim_sk] in *.
  - (* bool *)
    apply orb_prop in Hr. destruct Hr as [Hr|Hr]; apply Z.eqb_eq in Hr; subst z; destruct E; reflexivity.
  - (* char8 *)
    specialize (Hc eq_refl). apply is_scalar_range in Hr.
    unfold prim_bytes, utf8_char. replace (z <? 128) with true by (symmetry; apply Z.ltb_lt; lia).
    assert (z mod 256 = z) by (apply Z.mod_small; lia).
    change (Z.to_nat (sk_size KChar8)) with 1%nat.
    destruct E; cbn [int_enc le_enc rev app]; rewrite H; reflexivity.
Qed.

Lemma ser_prim_spec : forall V E p z pos,
  in_range (prim_sk p) z = true -> (p = PChar8 -> z < 128) ->
  ser_prim V E (prim_sk p) z pos = Ok (PRIM V E p z pos, pos + blen (PRIM V E p z pos)).
Proof. intros. unfold ser_prim, ret. now rewrite prim_eq. Qed.

Lemma u32_spec : forall V E z pos, 0 <= z <= u32_max ->
  ser_prim V E KU32 z pos = Ok (PRIM V E PU32 z pos, pos + blen (PRIM V E PU32 z pos)).
Proof.
  intros. apply (ser_prim_spec V E PU32); [|discriminate].
  unfold in_range, u32_max in *. cbn [prim_sk]. apply andb_true_intro. split; [apply Z.leb_le|apply Z.ltb_lt]; lia.
Qed.

(* ---------------------------------------------------------------- lists *)
Definition agrees (f : Z -> res W) (g : Z -> list Z) : Prop :=
  forall pos, f pos = Ok (g pos, pos + blen (g pos)).

Lemma cat_spec : forall {A} (f : A -> Z -> res W) (g : A -> Z -> list Z) l,
  (forall a, In a l -> agrees (f a) (g a)) -> agrees (ser_list f l) (cat g l).
Proof.
  induction l as [|a r IH]; intros Hall pos.
  - cbn [ser_list cat]. rewrite blen_nil. f_equal. f_equal. lia.
  - cbn [ser_list cat]. rewrite (Hall a (or_introl eq_refl)). cbn [bind].
    rewrite IH by (intros; apply Hall; now right). cbn [bind]. rewrite blen_app. f_equal. f_equal. lia.
Qed.

Lemma seq2_spec : forall f g f' g', agrees f f' -> agrees g g' ->
  agrees (seq2 f g) (fun pos => f' pos ++ g' (pos + blen (f' pos))).
Proof.
  intros f g f' g' Hf Hg pos. unfold seq2. rewrite Hf. cbn [bind]. rewrite Hg. cbn [bind].
  rewrite blen_app. f_equal. f_equal. lia.
Qed.

Lemma le_enc_mod : forall n z, le_enc n (z mod pow256 n) = le_enc n z.
Proof.
  induction n; intros; [reflexivity|]. cbn [le_enc]. rewrite pow256_S.
  pose proof (pow256_pos n). f_equal.
  - rewrite Z.rem_mul_r by lia. rewrite (Z.mul_comm 256), Z_mod_plus_full. apply Z.mod_mod. lia.
  - rewrite <- IHn. rewrite <- (IHn (z / 256)). f_equal.
    rewrite Z.rem_mul_r by lia.
    replace (z mod 256 + 256 * ((z / 256) mod pow256 n)) with ((z / 256) mod pow256 n * 256 + z mod 256) by lia.
    rewrite Z.div_add_l by lia. rewrite (Z.div_small (z mod 256) 256) by lia. lia.
Qed.
Lemma int_enc_wrap32 : forall E z, int_enc E 4 (wrap_u32 z) = int_enc E 4 z.
Proof.
  intros. unfold wrap_u32, two32. change 4294967296 with (pow256 4).
  destruct E; cbn [int_enc]; now rewrite le_enc_mod.
Qed.

Lemma dheader_spec : forall V E f g, agrees f g -> agrees (ser_dheader V E f) (DHEADER V E g).
Proof.
  intros V E f g H pos. unfold ser_dheader, DHEADER. cbv zeta.
  rewrite align_eq by tauto. rewrite H. cbn [bind]. rewrite int_enc_wrap32.
  f_equal. f_equal. rewrite !blen_app, int_enc_blen. lia.
Qed.

Lemma string_spec : forall V E s, str_ok s = true -> agrees (ser_string V E s) (STRING V E s).
Proof.
  intros V E s Hs pos. unfold str_ok in Hs. boolZ. unfold ser_string, STRING. cbv zeta.
  pose proof (blen_nonneg (utf8_enc s)).
  replace (wrap_u32 (blen (utf8_enc s))) with (blen (utf8_enc s))
    by (unfold wrap_u32, two32; symmetry; apply Z.mod_small; unfold u32_max in *; lia).
  unfold seq2. rewrite u32_spec by lia. cbn [bind]. unfold ret. cbn [bind].
  rewrite !blen_app. f_equal. f_equal. lia.
Qed.
