(* Correspondence vocabulary for C09 (and the byte comparison of C10): one case = one call
   of the real serializer / deserializer with its observed output. *)
From DustDDS Require Export Base.Machine Xcdr.XcdrBytes Xcdr.XcdrModel Xcdr.XcdrProps.
Open Scope Z_scope.

Inductive C09_op : Type :=
| Rt (v : ver) (e : endian) (t : ty) (x : val)     (* serialize, then deserialize the produced bytes *)
| Dec (t : ty) (bytes : list Z).                  (* deserialize the given bytes *)

Inductive C09_out : Type :=
| OSer (bytes : list Z) (dec : res val)
| OSerFail (r : res unit)
| ODec (dec : res val)
| OAbort.                    (* the process aborted (allocation of a wire-supplied length failed) *)

Record C09_case : Type := mkC09 { c_op : C09_op; c_out : C09_out }.

Definition resv_eqb (a b : res val) : bool :=
  match a, b with
  | Ok x, Ok y => val_eqb x y
  | Err x, Err y => x =? y
  | Panic _, Panic _ => true
  | _, _ => false
  end.

Definition C09_model_ok (c : C09_case) : bool :=
  match c_op c, c_out c with
  | Rt v e t x, OSer bs dec =>
    match encode v e t x with
    | Ok bs' => list_eqb Z.eqb bs bs' && resv_eqb (decode t bs) dec
    | _ => false
    end
  | Rt v e t x, OSerFail r =>
    match encode v e t x, r with
    | Err a, Err b => a =? b
    | Panic _, Panic _ => true
    | _, _ => false
    end
  | Dec t bs, ODec dec => resv_eqb (decode t bs) dec
  | Rt v e t x, OAbort =>
    (* an abort can only come from Vec::with_capacity(length) with a misparsed length in the
       decoder (memory is not modelled): accepted where the model's decoder rejects the bytes
       or the case is in a class whose reader is known to lose the position *)
    match encode v e t x with
    | Ok bs => negb (is_ok (decode t bs)) || negb (N.eqb (known_class v t x) 0)
    | _ => false
    end
  | _, _ => false
  end.

(* the property on the implementation's own output: a well-typed value of a supported type
   comes back equal, and the encapsulation records the padding *)
Definition C09_oracle_ok (c : C09_case) : bool :=
  match c_op c, c_out c with
  | Rt v e t x, OSer bs dec =>
    if wf_ty t && sup v t && is_aggr t && wt t x && (blen bs <=? size_limit v t) then
      padding_ok bs &&
      (* the options byte counts exactly the bytes after the last one the reader consumed *)
      (match decode_end t bs with Some p => nth 3 bs 0 =? blen bs - 4 - p | None => true end) &&
      match dec with Ok y => val_eqb x y | _ => false end
    else true
  | Rt v e t x, OSerFail _ => negb (wf_ty t && sup v t && is_aggr t && wt t x)
  | Rt v e t x, OAbort => negb (wf_ty t && sup v t && is_aggr t && wt t x)
  | Dec _ _, _ => true
  | _, _ => false
  end.

Definition C09_known (c : C09_case) : N :=
  match c_op c with
  | Rt v e t x => known_class v t x
  | _ => 0%N
  end.
