(* C39 proofs, part 1: reflexivity of the assignability decision and what a positive decision
   implies about the two member lists (the bridge to the codec). *)
From DustDDS Require Import Base.Machine Xcdr.XcdrBytes Xcdr.XcdrBytesProofs Xcdr.XcdrModel
  Xcdr.XcdrProps Xcdr.XcdrProofs Xcdr.AssignModel.
Open Scope Z_scope.
Ltac Zify.zify_post_hook ::= Z.div_mod_to_equations.

(* ------------------------------------------------------------------ equality is reflexive *)
Lemma list_z_eqb_refl : forall l, list_z_eqb l l = true.
Proof. induction l as [|x r IH]; [reflexivity|]. cbn [list_z_eqb]. now rewrite Z.eqb_refl, IH. Qed.

Lemma tid_eqb_refl : forall t, tid_eqb t t = true.
Proof.
  induction t; cbn [tid_eqb]; rewrite ?Z.eqb_refl, ?list_z_eqb_refl, ?IHt; reflexivity.
Qed.

Lemma list_eqb_refl : forall {A} (eq : A -> A -> bool) l,
  (forall x, eq x x = true) -> list_eqb eq l l = true.
Proof. intros A eq l H. induction l as [|x r IH]; [reflexivity|]. cbn [list_eqb]. now rewrite H, IH. Qed.

Lemma smember_eqb_refl : forall m, smember_eqb m m = true.
Proof. intros. unfold smember_eqb. now rewrite !Z.eqb_refl, tid_eqb_refl. Qed.

Lemma stype_eqb_refl : forall t, stype_eqb t t = true.
Proof.
  intros. unfold stype_eqb. rewrite !Z.eqb_refl. cbn [andb].
  apply list_eqb_refl. exact smember_eqb_refl.
Qed.

(* every structure type object is assignable from itself: the `self == t2` shortcut *)
Theorem assignable_refl : forall tc t, struct_assignable tc t t = Ok true.
Proof. intros. unfold struct_assignable. now rewrite stype_eqb_refl. Qed.

(* ------------------------------------------------ the rules themselves are reflexive *)
(* type identifiers the code can compare (TkNone, maps, strongly connected components and the
   extended identifier are never assignable, not even from themselves) *)
Fixpoint tid_supported (t : tid) : bool :=
  match t with
  | TkNone | TiMapSmall | TiMapLarge | TiScc | TiDefault => false
  | TiSeqSmall _ e | TiSeqLarge _ e | TiArrSmall _ e | TiArrLarge _ e => tid_supported e
  | _ => true
  end.

Lemma bound_ok_refl : forall ign b, bound_ok ign b b = true.
Proof.
  intros. unfold bound_ok. destruct ign; [reflexivity|]. cbn [orb].
  destruct (Z.eqb_spec b 0); [reflexivity|]. cbn [orb negb andb]. apply Z.leb_refl.
Qed.

Lemma tid_assignable_refl : forall tc t, tid_supported t = true -> tid_assignable tc t t = Ok true.
Proof.
  induction t; intro H; cbn [tid_supported] in H; try discriminate; cbn [tid_assignable];
    rewrite ?bound_ok_refl, ?list_z_eqb_refl; auto.
Qed.

Definition sm_ids (ms : list smember) : list Z := map sm_id ms.

Lemma zip_check_refl : forall tc ms,
  forallb (fun m => tid_supported (sm_tid m)) ms = true -> zip_check tc ms ms = Ok true.
Proof.
  induction ms as [|m r IH]; intro H; [reflexivity|].
  cbn [forallb] in H. apply andb_prop in H. destruct H as [H1 H2].
  cbn [zip_check]. rewrite !Z.eqb_refl. cbn [negb andb].
  rewrite Bool.andb_false_r.
  destruct (sm_optional m); cbn [Bool.eqb negb];
    rewrite (tid_assignable_refl tc _ H1); cbn [bind]; now apply IH.
Qed.

Lemma has_id_in : forall ms m, In m ms -> has_id ms (sm_id m) = true.
Proof.
  intros ms m H. unfold has_id. apply existsb_exists. exists m. split; [assumption|apply Z.eqb_refl].
Qed.

Lemma find_sm_nodup : forall ms m,
  nodup_z (sm_ids ms) = true -> In m ms -> find_sm (sm_id m) ms = Some m.
Proof.
  induction ms as [|a r IH]; intros m Hnd Hin; [destruct Hin|].
  cbn [sm_ids map nodup_z] in Hnd. apply andb_prop in Hnd. destruct Hnd as [Hn1 Hn2].
  cbn [find_sm]. destruct Hin as [->|Hin]; [now rewrite Z.eqb_refl|].
  destruct (Z.eqb_spec (sm_id a) (sm_id m)) as [E|_]; [|now apply IH].
  exfalso. apply negb_true_iff in Hn1.
  assert (Hm : mem (sm_id a) (sm_ids r) = true); [|unfold sm_ids in *; congruence].
  unfold mem. apply existsb_exists. exists (sm_id m). split.
  - unfold sm_ids. now apply in_map.
  - now apply Z.eqb_eq.
Qed.

Lemma members_check_refl : forall tc ms l acc,
  nodup_z (sm_ids ms) = true -> incl l ms ->
  forallb (fun m => tid_supported (sm_tid m)) l = true ->
  members_check tc ms l acc = Ok (Some acc).
Proof.
  intros tc ms l. induction l as [|m r IH]; intros acc Hnd Hincl Hs; [reflexivity|].
  cbn [forallb] in Hs. apply andb_prop in Hs. destruct Hs as [H1 H2].
  cbn [members_check]. rewrite (find_sm_nodup ms m Hnd) by (apply Hincl; now left).
  rewrite Z.eqb_refl. cbn [negb]. rewrite Bool.andb_false_r.
  rewrite (tid_assignable_refl tc _ H1). cbn [bind]. rewrite Bool.andb_true_r.
  apply IH; try assumption. intros x Hx. apply Hincl. now right.
Qed.

Lemma mu_missing_refl : forall ms, mu_missing ms ms = false.
Proof.
  intros. unfold mu_missing. apply Bool.not_true_is_false. intro H.
  apply existsb_exists in H. destruct H as [m [Hin H]].
  rewrite (has_id_in ms m Hin) in H. cbn [negb] in H. now rewrite Bool.andb_false_r in H.
Qed.
Lemma key_missing_refl : forall ms, key_missing ms ms = false.
Proof.
  intros. unfold key_missing. apply Bool.not_true_is_false. intro H.
  apply existsb_exists in H. destruct H as [m [Hin H]].
  rewrite (has_id_in ms m Hin) in H. cbn [negb] in H. now rewrite Bool.andb_false_r in H.
Qed.

(* without the shortcut: the 7.2.4.4 rules as coded accept T := T for every structure type
   object whose member type identifiers are supported, provided it is FINAL (and not also
   flagged mutable) or has at least one member and distinct member ids *)
Theorem rules_refl : forall tc t,
  forallb (fun m => tid_supported (sm_tid m)) (st_members t) = true ->
  (st_final t = true /\ st_mutable t = false) \/
  (st_members t <> [] /\ nodup_z (sm_ids (st_members t)) = true) ->
  struct_rules tc t t = Ok true.
Proof.
  intros tc t Hs Hc. unfold struct_rules. cbv zeta.
  rewrite !Bool.eqb_reflx, Z.eqb_refl. cbn [negb orb].
  replace (if st_final t || st_final t then negb (st_final t) || negb (st_final t) || false else false)
    with false by (destruct (st_final t); reflexivity).
  destruct Hc as [[Hf Hm]|[Hne Hnd]].
  - rewrite Hm, Hf. cbn [negb andb]. rewrite (zip_check_refl tc _ Hs). reflexivity.
  - assert (Hz : (if negb (st_mutable t) && negb (st_mutable t) then zip_check tc (st_members t) (st_members t)
                  else Ok true) = Ok true).
    { destruct (st_mutable t); cbn [negb andb]; [reflexivity|apply (zip_check_refl tc _ Hs)]. }
    rewrite Hz. cbn [bind negb].
    destruct (negb (st_mutable t) && negb (st_mutable t) && st_final t && st_final t); [reflexivity|].
    assert (Hex : existsb (fun x => has_id (st_members t) (sm_id x)) (st_members t) = true).
    { destruct (st_members t) as [|m r] eqn:E; [congruence|].
      apply existsb_exists. exists m. split; [now left|]. apply has_id_in. now left. }
    rewrite Hex. cbn [negb].
    rewrite (members_check_refl tc _ _ true Hnd (incl_refl _) Hs). cbn [bind].
    now rewrite mu_missing_refl, key_missing_refl.
Qed.

(* =========================================================================================
   What a positive decision says about the member lists of two flat run-time types
   ========================================================================================= *)

(* flat member types: an accepted pair of type identifiers denotes the same codec type *)
Lemma flat_tid_assignable : forall tc a b, flat_aty a = true -> flat_aty b = true ->
  tid_assignable tc (tid_of_aty a) (tid_of_aty b) = Ok true -> ty_of_aty a = ty_of_aty b.
Proof.
  intros tc a b Ha Hb H.
  destruct a as [p|b1|b1|t1]; try discriminate; destruct b as [q|b2|b2|t2]; try discriminate;
    cbn [tid_of_aty ty_of_aty] in *.
  - destruct p, q; cbn in H; try discriminate; reflexivity.
  - destruct p; destruct (b2 <=? 255); cbn in H; discriminate.
  - destruct p; destruct (b2 <=? 255); cbn in H; discriminate.
  - destruct q; destruct (b1 <=? 255); cbn in H; discriminate.
  - reflexivity.
  - destruct (b1 <=? 255), (b2 <=? 255); cbn in H; discriminate.
  - destruct q; destruct (b1 <=? 255); cbn in H; discriminate.
  - destruct (b1 <=? 255), (b2 <=? 255); cbn in H; discriminate.
  - reflexivity.
Qed.

Lemma flat_tid_eqb : forall a b, flat_aty a = true -> flat_aty b = true ->
  tid_eqb (tid_of_aty a) (tid_of_aty b) = true -> ty_of_aty a = ty_of_aty b.
Proof.
  intros a b Ha Hb H.
  destruct a as [p|b1|b1|t1]; try discriminate; destruct b as [q|b2|b2|t2]; try discriminate;
    cbn [tid_of_aty ty_of_aty] in *;
    try reflexivity;
    try (destruct p, q; cbn in H; try discriminate; reflexivity);
    try (destruct p; destruct (b2 <=? 255); cbn in H; discriminate);
    try (destruct q; destruct (b1 <=? 255); cbn in H; discriminate);
    try (destruct (b1 <=? 255), (b2 <=? 255); cbn in H; discriminate).
Qed.

(* the relation between a reader member and a writer member that the codec proofs need *)
Definition am_match (a b : amember) : Prop :=
  am_id a = am_id b /\ ty_of_aty (am_ty a) = ty_of_aty (am_ty b).

Definition flat_member (m : amember) : bool := flat_aty (am_ty m) && negb (m_opt (am_info m)).

Lemma zip_check_true : forall tc l1 l2, zip_check tc l1 l2 = Ok true ->
  Forall2 (fun m1 m2 => sm_id m1 = sm_id m2 /\ tid_assignable tc (sm_tid m1) (sm_tid m2) = Ok true)
          (firstn (Nat.min (length l1) (length l2)) l1) (firstn (Nat.min (length l1) (length l2)) l2).
Proof.
  intros tc l1. induction l1 as [|m1 r1 IH]; intros l2 H; [constructor|].
  destruct l2 as [|m2 r2]; [constructor|].
  cbn [zip_check] in H. cbn [length Nat.min firstn].
  destruct (Z.eqb_spec (sm_id m1) (sm_id m2)) as [Hid|]; cbn [negb] in H; [|discriminate].
  destruct (negb (tc_ign_names tc) && negb (sm_name m1 =? sm_name m2)); [discriminate|].
  destruct (negb (Bool.eqb (sm_optional m1) (sm_optional m2))); [discriminate|].
  destruct (tid_assignable tc (sm_tid m1) (sm_tid m2)) as [[|]| |] eqn:Ht; cbn [bind] in H; try discriminate.
  constructor; [now split|]. now apply IH.
Qed.

Lemma members_check_true : forall tc ms1 l2 acc, members_check tc ms1 l2 acc = Ok (Some true) ->
  acc = true /\
  forall m2 m1, In m2 l2 -> find_sm (sm_id m2) ms1 = Some m1 ->
    tid_assignable tc (sm_tid m1) (sm_tid m2) = Ok true.
Proof.
  intros tc ms1 l2. induction l2 as [|m r IH]; intros acc H.
  - cbn [members_check] in H. inversion H. split; [reflexivity|]. intros ? ? [].
  - cbn [members_check] in H.
    destruct (find_sm (sm_id m) ms1) as [m1|] eqn:Hf.
    + destruct (negb (tc_ign_names tc) && negb (sm_name m1 =? sm_name m)); [discriminate|].
      destruct (tid_assignable tc (sm_tid m1) (sm_tid m)) as [b| |] eqn:Ht; cbn [bind] in H; try discriminate.
      destruct (IH _ H) as [Hacc Hall]. apply andb_prop in Hacc as [Ha Hb]. subst.
      split; [reflexivity|]. intros m2 m1' [<-|Hin] Hf'.
      * rewrite Hf in Hf'. inversion Hf'. subst. exact Ht.
      * now apply Hall.
    + destruct (negb (tc_ign_names tc) && has_name ms1 (sm_name m)); [discriminate|].
      destruct (IH _ H) as [Hacc Hall]. split; [exact Hacc|].
      intros m2 m1' [<-|Hin] Hf'; [congruence|now apply Hall].
Qed.

Lemma Forall2_in_r : forall {A B} (Q : A -> B -> Prop) l1 l2 y,
  Forall2 Q l1 l2 -> In y l2 -> exists x, In x l1 /\ Q x y.
Proof.
  intros A B Q l1 l2 y H. induction H as [|a b r1 r2 Hq HF IH]; intros Hin; [destruct Hin|].
  destruct Hin as [<-|Hin]; [exists a; split; [now left|assumption]|].
  destruct (IH Hin) as [x [Hx Hqx]]. exists x. split; [now right|assumption].
Qed.

Lemma Forall2_len : forall {A B} (Q : A -> B -> Prop) l1 l2, Forall2 Q l1 l2 -> length l1 = length l2.
Proof. intros A B Q l1 l2 H. induction H; cbn [length]; congruence. Qed.

Lemma firstn_incl : forall {A} n (l : list A), incl (firstn n l) l.
Proof.
  intros A n. induction n as [|n IH]; intros l x H; [destruct H|].
  destruct l as [|a r]; [destruct H|]. cbn [firstn] in H. destruct H as [<-|H]; [now left|right; now apply IH].
Qed.

Lemma list_eqb_Forall2 : forall {A} (eq : A -> A -> bool) l1 l2,
  list_eqb eq l1 l2 = true -> Forall2 (fun x y => eq x y = true) l1 l2.
Proof.
  intros A eq l1. induction l1 as [|x r IH]; intros [|y s] H; try discriminate; [constructor|].
  cbn [list_eqb] in H. apply andb_prop in H as [H1 H2]. constructor; [assumption|now apply IH].
Qed.

Lemma Forall2_map : forall {A B C D} (f : A -> C) (g : B -> D) (Q : C -> D -> Prop) l1 l2,
  Forall2 Q (map f l1) (map g l2) <-> Forall2 (fun a b => Q (f a) (g b)) l1 l2.
Proof.
  intros A B C D f g Q l1. induction l1 as [|x r IH]; intros [|y s]; cbn [map]; split; intros H;
    try (inversion H; fail); try constructor; inversion H; subst; try assumption; now apply IH.
Qed.

Lemma Forall2_impl_in : forall {A B} (P Q : A -> B -> Prop) l1 l2,
  (forall a b, In a l1 -> In b l2 -> P a b -> Q a b) -> Forall2 P l1 l2 -> Forall2 Q l1 l2.
Proof.
  intros A B P Q l1 l2 Himp H. induction H as [|a b r1 r2 Hp HF IH]; [constructor|].
  constructor; [apply Himp; [now left|now left|assumption]|].
  apply IH. intros x y Hx Hy. apply Himp; now right.
Qed.

Lemma nodup_in_eq : forall ms m1 m2, nodup_z (aids ms) = true -> In m1 ms -> In m2 ms ->
  am_id m1 = am_id m2 -> m1 = m2.
Proof.
  induction ms as [|a r IH]; intros m1 m2 Hnd H1 H2 Hid; [destruct H1|].
  cbn [aids map nodup_z] in Hnd. apply andb_prop in Hnd as [Hn1 Hn2]. apply negb_true_iff in Hn1.
  assert (Hnot : forall m, In m r -> am_id m <> am_id a).
  { intros m Hm Hc. assert (mem (am_id a) (map am_id r) = true); [|congruence].
    apply mem_true_iff. rewrite <- Hc. now apply in_map. }
  destruct H1 as [<-|H1], H2 as [<-|H2]; try reflexivity.
  - exfalso. apply (Hnot m2 H2). congruence.
  - exfalso. apply (Hnot m1 H1). congruence.
  - now apply IH.
Qed.

Lemma flags_of_ext_bits : forall x,
  Z.testbit (flags_of_ext x) 0 = match x with Final => true | _ => false end /\
  Z.testbit (flags_of_ext x) 1 = match x with Appendable => true | _ => false end /\
  Z.testbit (flags_of_ext x) 2 = match x with Mutable => true | _ => false end.
Proof. destruct x; repeat split; reflexivity. Qed.

Lemma find_sm_map : forall ms m, nodup_z (aids ms) = true -> In m ms ->
  find_sm (am_id m) (map sm_of ms) = Some (sm_of m).
Proof.
  intros ms m Hnd Hin.
  assert (H : nodup_z (sm_ids (map sm_of ms)) = true).
  { unfold sm_ids. rewrite map_map. exact Hnd. }
  exact (find_sm_nodup (map sm_of ms) (sm_of m) H (in_map sm_of ms m Hin)).
Qed.

(* the shape of two flat types that the code declares assignable *)
Theorem assignable_shape : forall tc t1 t2,
  flat_desc t1 = true -> flat_desc t2 = true ->
  struct_assignable tc (cto_of t1) (cto_of t2) = Ok true ->
  ad_ext t1 = ad_ext t2 /\
  match ad_ext t1 with
  | Mutable =>
    forall m1 m2, In m1 (ad_members t1) -> In m2 (ad_members t2) -> am_id m1 = am_id m2 ->
      ty_of_aty (am_ty m1) = ty_of_aty (am_ty m2)
  | x =>
    let k := Nat.min (length (ad_members t1)) (length (ad_members t2)) in
    Forall2 am_match (firstn k (ad_members t1)) (firstn k (ad_members t2)) /\
    (x = Final -> length (ad_members t1) = length (ad_members t2))
  end.
Proof.
  intros tc [x1 n1 ms1] [x2 n2 ms2] Hf1 Hf2 H. cbn [ad_ext ad_members] in *.
  unfold flat_desc in Hf1, Hf2. cbn [ad_members] in Hf1, Hf2.
  apply andb_prop in Hf1 as [Hf1 Hid1]. apply andb_prop in Hf1 as [Hfl1 Hnd1].
  apply andb_prop in Hf2 as [Hf2 Hid2]. apply andb_prop in Hf2 as [Hfl2 Hnd2].
  rewrite forallb_forall in Hfl1, Hfl2.
  assert (Hflat1 : forall m, In m ms1 -> flat_aty (am_ty m) = true)
    by (intros m Hm; specialize (Hfl1 m Hm); now apply andb_prop in Hfl1 as [? _]).
  assert (Hflat2 : forall m, In m ms2 -> flat_aty (am_ty m) = true)
    by (intros m Hm; specialize (Hfl2 m Hm); now apply andb_prop in Hfl2 as [? _]).
  (* from a pairwise relation on the type objects to am_match *)
  assert (Hpair : forall l1 l2, incl l1 ms1 -> incl l2 ms2 ->
            Forall2 (fun m1 m2 => sm_id m1 = sm_id m2 /\
                                  tid_assignable tc (sm_tid m1) (sm_tid m2) = Ok true)
                    (map sm_of l1) (map sm_of l2) -> Forall2 am_match l1 l2).
  { intros l1 l2 Hi1 Hi2 HF. apply Forall2_map in HF.
    eapply Forall2_impl_in; [|exact HF]. intros a b Ha Hb [Hi Ht]. cbn [sm_of sm_id sm_tid] in *.
    split; [exact Hi|]. eapply flat_tid_assignable; [apply Hflat1, Hi1, Ha|apply Hflat2, Hi2, Hb|exact Ht]. }
  unfold struct_assignable in H.
  destruct (stype_eqb (cto_of (mkAD x1 n1 ms1)) (cto_of (mkAD x2 n2 ms2))) eqn:Heq.
  - (* identical type objects *)
    unfold stype_eqb, cto_of in Heq. cbn [st_flags st_name st_members ad_ext ad_name ad_members] in Heq.
    apply andb_prop in Heq as [Heq Hms]. apply andb_prop in Heq as [Hfl _].
    apply Z.eqb_eq in Hfl.
    assert (Hx : x1 = x2) by (destruct x1, x2; cbn in Hfl; congruence). subst x2.
    split; [reflexivity|].
    apply list_eqb_Forall2 in Hms. apply Forall2_map in Hms.
    assert (HF : Forall2 am_match ms1 ms2).
    { eapply Forall2_impl_in; [|exact Hms]. intros a b Ha Hb Hab. unfold smember_eqb in Hab.
      cbn [sm_of sm_id sm_flags sm_name sm_tid] in Hab.
      apply andb_prop in Hab as [Hab Ht]. apply andb_prop in Hab as [Hab _]. apply andb_prop in Hab as [Hi _].
      apply Z.eqb_eq in Hi. split; [exact Hi|]. apply flat_tid_eqb; auto. }
    assert (Hlen : length ms1 = length ms2) by (eapply Forall2_len; exact HF).
    destruct x1.
    + cbv zeta. rewrite Hlen, Nat.min_id, <- Hlen at 1. rewrite !firstn_all2 by lia. now split.
    + cbv zeta. rewrite Hlen, Nat.min_id, <- Hlen at 1. rewrite !firstn_all2 by lia. now split.
    + intros m1 m2 H1 H2 Hid.
      destruct (Forall2_in_r _ _ _ _ HF H2) as [m1' [H1' [Hid' Hty']]].
      assert (m1' = m1) by (apply (nodup_in_eq ms1); auto; congruence). subst m1'. exact Hty'.
  - (* the rules *)
    unfold struct_rules in H. cbv zeta in H.
    unfold st_final, st_appendable, st_mutable, cto_of in H.
    cbn [st_flags st_members ad_ext ad_members] in H.
    destruct (flags_of_ext_bits x1) as [F1 [A1 M1]]. destruct (flags_of_ext_bits x2) as [F2 [A2 M2]].
    rewrite F1, F2, A1, A2, M1, M2 in H. rewrite !map_length in H.
    destruct x1, x2; cbn [orb negb andb Bool.eqb] in H; try discriminate.
    + (* FINAL / FINAL *)
      destruct (Z.eqb_spec (Z.of_nat (length ms1)) (Z.of_nat (length ms2))) as [Hlen|]; [|discriminate].
      cbn [negb] in H. apply Nat2Z.inj in Hlen.
      destruct (zip_check tc (map sm_of ms1) (map sm_of ms2)) as [[|]| |] eqn:Hz; cbn [bind negb] in H;
        try discriminate.
      split; [reflexivity|]. cbv zeta. split; [|intros _; exact Hlen].
      apply zip_check_true in Hz. rewrite !map_length in Hz. rewrite !firstn_map in Hz.
      apply Hpair in Hz; [exact Hz| |]; apply firstn_incl.
    + (* APPENDABLE / APPENDABLE *)
      destruct (zip_check tc (map sm_of ms1) (map sm_of ms2)) as [[|]| |] eqn:Hz; cbn [bind negb] in H;
        try discriminate.
      split; [reflexivity|]. cbv zeta. split; [|discriminate].
      apply zip_check_true in Hz. rewrite !map_length in Hz. rewrite !firstn_map in Hz.
      apply Hpair in Hz; [exact Hz| |]; apply firstn_incl.
    + (* MUTABLE / MUTABLE *)
      cbn [bind negb] in H.
      destruct (existsb (fun x => has_id (map sm_of ms1) (sm_id x)) (map sm_of ms2)); cbn [negb] in H;
        [|discriminate].
      destruct (members_check tc (map sm_of ms1) (map sm_of ms2) true) as [[acc|]| |] eqn:Hm;
        cbn [bind] in H; try discriminate.
      destruct (mu_missing (map sm_of ms1) (map sm_of ms2) || mu_missing (map sm_of ms2) (map sm_of ms1));
        [discriminate|].
      destruct (key_missing (map sm_of ms1) (map sm_of ms2) || key_missing (map sm_of ms2) (map sm_of ms1));
        [discriminate|].
      inversion H. subst acc. split; [reflexivity|].
      apply members_check_true in Hm as [_ Hall].
      intros m1 m2 H1 H2 Hid.
      specialize (Hall (sm_of m2) (sm_of m1) (in_map sm_of ms2 m2 H2)).
      cbn [sm_of sm_id sm_tid] in Hall. rewrite <- Hid in Hall.
      specialize (Hall (find_sm_map ms1 m1 Hnd1 H1)).
      eapply flat_tid_assignable; [apply Hflat1, H1|apply Hflat2, H2|exact Hall].
Qed.
