(* C39 proofs, part 1: reflexivity of the assignability decision and what a positive decision
   implies about the two member lists (the bridge to the codec). *)
From DustDDS Require Import Base.Machine Xcdr.XcdrBytes Xcdr.XcdrBytesProofs Xcdr.XcdrModel
  Xcdr.XcdrProps Xcdr.XcdrProofs Xcdr.AssignModel.
Open Scope Z_scope.
Ltac Zify.zify_post_hook ::= Z.div_mod_to_equations.

(* ------------------------------------------------------------------ equality is reflexive *)
Lemma list_z_eqb_refl : forall l, list_z_eqb l l = true.
Proof. induction l as [|x r IH]; [reflexivity|]. cbn [list_z_eqb]. now rewrite Z.eqb_refl, IH. Qed.

Lemma tid_eqb_refl : forall t, tid_eqb t t = true.
Proof.
  induction t; cbn [tid_eqb]; rewrite ?Z.eqb_refl, ?list_z_eqb_refl, ?IHt; reflexivity.
Qed.

Lemma list_eqb_refl : forall {A} (eq : A -> A -> bool) l,
  (forall x, eq x x = true) -> list_eqb eq l l = true.
Proof. intros A eq l H. induction l as [|x r IH]; [reflexivity|]. cbn [list_eqb]. now rewrite H, IH. Qed.

Lemma smember_eqb_refl : forall m, smember_eqb m m = true.
Proof. intros. unfold smember_eqb. now rewrite !Z.eqb_refl, tid_eqb_refl. Qed.

Lemma stype_eqb_refl : forall t, stype_eqb t t = true.
Proof.
  intros. unfold stype_eqb. rewrite !Z.eqb_refl. cbn [andb].
  apply list_eqb_refl. exact smember_eqb_refl.
Qed.

(* every structure type object is assignable from itself: the `self == t2` shortcut *)
Theorem assignable_refl : forall tc t, struct_assignable tc t t = Ok true.
Proof. intros. unfold struct_assignable. now rewrite stype_eqb_refl. Qed.

(* ------------------------------------------------ the rules themselves are reflexive *)
(* type identifiers on which the code does not hit todo!() *)
Fixpoint tid_supported (t : tid) : bool :=
  match t with
  | TkNone | TiMapSmall | TiMapLarge | TiScc | TiDefault => false
  | TiSeqSmall _ e | TiSeqLarge _ e | TiArrSmall _ e | TiArrLarge _ e => tid_supported e
  | _ => true
  end.

Lemma bound_ok_refl : forall ign b, bound_ok ign b b = true.
Proof.
  intros. unfold bound_ok. destruct ign; [reflexivity|]. cbn [orb].
  destruct (Z.eqb_spec b 0); [reflexivity|]. cbn [orb negb andb]. apply Z.leb_refl.
Qed.

Lemma tid_assignable_refl : forall tc t, tid_supported t = true -> tid_assignable tc t t = Ok true.
Proof.
  induction t; intro H; cbn [tid_supported] in H; try discriminate; cbn [tid_assignable];
    rewrite ?bound_ok_refl, ?list_z_eqb_refl; auto.
Qed.

Definition sm_ids (ms : list smember) : list Z := map sm_id ms.

Lemma zip_check_refl : forall tc ms,
  forallb (fun m => tid_supported (sm_tid m)) ms = true -> zip_check tc ms ms = Ok true.
Proof.
  induction ms as [|m r IH]; intro H; [reflexivity|].
  cbn [forallb] in H. apply andb_prop in H. destruct H as [H1 H2].
  cbn [zip_check]. rewrite !Z.eqb_refl. cbn [negb andb].
  rewrite Bool.andb_false_r. rewrite (tid_assignable_refl tc _ H1). cbn [bind]. now apply IH.
Qed.

Lemma has_id_in : forall ms m, In m ms -> has_id ms (sm_id m) = true.
Proof.
  intros ms m H. unfold has_id. apply existsb_exists. exists m. split; [assumption|apply Z.eqb_refl].
Qed.

Lemma find_sm_nodup : forall ms m,
  nodup_z (sm_ids ms) = true -> In m ms -> find_sm (sm_id m) ms = Some m.
Proof.
  induction ms as [|a r IH]; intros m Hnd Hin; [destruct Hin|].
  cbn [sm_ids map nodup_z] in Hnd. apply andb_prop in Hnd. destruct Hnd as [Hn1 Hn2].
  cbn [find_sm]. destruct Hin as [->|Hin]; [now rewrite Z.eqb_refl|].
  destruct (Z.eqb_spec (sm_id a) (sm_id m)) as [E|_]; [|now apply IH].
  exfalso. apply negb_true_iff in Hn1.
  assert (Hm : mem (sm_id a) (sm_ids r) = true); [|unfold sm_ids in *; congruence].
  unfold mem. apply existsb_exists. exists (sm_id m). split.
  - unfold sm_ids. now apply in_map.
  - now apply Z.eqb_eq.
Qed.

Lemma members_check_refl : forall tc ms l acc,
  nodup_z (sm_ids ms) = true -> incl l ms ->
  forallb (fun m => tid_supported (sm_tid m)) l = true ->
  members_check tc ms l acc = Ok (Some acc).
Proof.
  intros tc ms l. induction l as [|m r IH]; intros acc Hnd Hincl Hs; [reflexivity|].
  cbn [forallb] in Hs. apply andb_prop in Hs. destruct Hs as [H1 H2].
  cbn [members_check]. rewrite (find_sm_nodup ms m Hnd) by (apply Hincl; now left).
  rewrite Z.eqb_refl. cbn [negb]. rewrite Bool.andb_false_r.
  rewrite (tid_assignable_refl tc _ H1). cbn [bind]. rewrite Bool.andb_true_r.
  apply IH; try assumption. intros x Hx. apply Hincl. now right.
Qed.

Lemma mu_missing_refl : forall ms, mu_missing ms ms = false.
Proof.
  intros. unfold mu_missing. apply Bool.not_true_is_false. intro H.
  apply existsb_exists in H. destruct H as [m [Hin H]].
  rewrite (has_id_in ms m Hin) in H. cbn [negb] in H. now rewrite Bool.andb_false_r in H.
Qed.
Lemma key_missing_refl : forall ms, key_missing ms ms = false.
Proof.
  intros. unfold key_missing. apply Bool.not_true_is_false. intro H.
  apply existsb_exists in H. destruct H as [m [Hin H]].
  rewrite (has_id_in ms m Hin) in H. cbn [negb] in H. now rewrite Bool.andb_false_r in H.
Qed.

(* without the shortcut: the 7.2.4.4 rules as coded accept T := T for every structure type
   object whose member type identifiers are supported, provided it is FINAL (and not also
   flagged mutable) or has at least one member and distinct member ids *)
Theorem rules_refl : forall tc t,
  forallb (fun m => tid_supported (sm_tid m)) (st_members t) = true ->
  (st_final t = true /\ st_mutable t = false) \/
  (st_members t <> [] /\ nodup_z (sm_ids (st_members t)) = true) ->
  struct_rules tc t t = Ok true.
Proof.
  intros tc t Hs Hc. unfold struct_rules. cbv zeta.
  rewrite !Bool.eqb_reflx, Z.eqb_refl. cbn [negb orb].
  replace (if st_final t || st_final t then negb (st_final t) || negb (st_final t) || false else false)
    with false by (destruct (st_final t); reflexivity).
  destruct Hc as [[Hf Hm]|[Hne Hnd]].
  - rewrite Hm, Hf. cbn [negb andb]. rewrite (zip_check_refl tc _ Hs). reflexivity.
  - assert (Hz : (if negb (st_mutable t) && negb (st_mutable t) then zip_check tc (st_members t) (st_members t)
                  else Ok true) = Ok true).
    { destruct (st_mutable t); cbn [negb andb]; [reflexivity|apply (zip_check_refl tc _ Hs)]. }
    rewrite Hz. cbn [bind negb].
    destruct (negb (st_mutable t) && negb (st_mutable t) && st_final t && st_final t); [reflexivity|].
    assert (Hex : existsb (fun x => has_id (st_members t) (sm_id x)) (st_members t) = true).
    { destruct (st_members t) as [|m r] eqn:E; [congruence|].
      apply existsb_exists. exists m. split; [now left|]. apply has_id_in. now left. }
    rewrite Hex. cbn [negb].
    rewrite (members_check_refl tc _ _ true Hnd (incl_refl _) Hs). cbn [bind].
    now rewrite mu_missing_refl, key_missing_refl.
Qed.
