(* Correspondence vocabulary for C39: one case = one run of the real TypeObject assignability
   code and of the real serializer (writer type) / deserializer (reader type) with the observed
   outputs; the model and the property oracle are applied inside Coq. *)
From DustDDS Require Export Base.Machine Xcdr.XcdrBytes Xcdr.XcdrModel Xcdr.XcdrProps Xcdr.AssignModel.
Open Scope Z_scope.

Inductive C39_op : Type :=
| Ev (v : ver) (e : endian) (tc : tce) (t1 t2 : adesc) (x : val)
    (* reader type t1, writer type t2, a value of t2: assignable? encode with t2, decode with t1 *)
| As (tc : tce) (c1 c2 : stype)
    (* assignability of two hand-built structure type objects *)
| Ty (v : ver) (e : endian) (tc : tce) (t1 t2 : adesc) (x : val).
    (* as Ev, on compile-time (derive) types: additionally the typed sample the reader builds *)

Inductive C39_ser : Type :=
| SOk (bytes : list Z) (dec : res val)
| SFail (r : res unit).
Inductive C39_out : Type :=
| OEv (a : res bool) (c1 c2 : stype) (s : C39_ser)   (* c1, c2: the type objects the code built *)
| OAs (a : res bool)
| OTy (a : res bool) (c1 c2 : stype) (s : C39_ser) (typed : option dyn).
Record C39_case : Type := mkC39 { c_op : C39_op; c_out : C39_out }.

Definition resb_eqb (a b : res bool) : bool :=
  match a, b with
  | Ok x, Ok y => Bool.eqb x y
  | Err x, Err y => x =? y
  | Panic _, Panic _ => true
  | _, _ => false
  end.
Definition resv_eqb (a b : res val) : bool :=
  match a, b with
  | Ok x, Ok y => val_eqb x y
  | Err x, Err y => x =? y
  | Panic _, Panic _ => true
  | _, _ => false
  end.

Definition ev_model_ok (v : ver) (e : endian) (tc : tce) (t1 t2 : adesc) (x : val)
    (a : res bool) (c1 c2 : stype) (s : C39_ser) : bool :=
  stype_match (cto_of t1) c1 && stype_match (cto_of t2) c2 &&
  resb_eqb (struct_assignable tc c1 c2) a &&
  match s with
  | SOk bs dec =>
    match encode v e (ty_of t2) x with
    | Ok bs' => list_eqb Z.eqb bs bs' && resv_eqb (decode (ty_of t1) bs) dec
    | _ => false
    end
  | SFail r =>
    match encode v e (ty_of t2) x, r with
    | Err p, Err q => p =? q
    | Panic _, Panic _ => true
    | _, _ => false
    end
  end.
Definition optdyn_eqb (a b : option dyn) : bool :=
  match a, b with
  | Some x, Some y => val_eqb (VData x) (VData y)
  | None, None => true
  | _, _ => false
  end.

Definition C39_model_ok (c : C39_case) : bool :=
  match c_op c, c_out c with
  | Ev v e tc t1 t2 x, OEv a c1 c2 s => ev_model_ok v e tc t1 t2 x a c1 c2 s
  | As tc c1 c2, OAs a => resb_eqb (struct_assignable tc c1 c2) a
  | Ty v e tc t1 t2 x, OTy a c1 c2 s typed =>
    ev_model_ok v e tc t1 t2 x a c1 c2 s &&
    match s with
    | SOk _ (Ok (VData d)) => optdyn_eqb (typed_sample t1 d) typed
    | _ => match typed with None => true | Some _ => false end
    end
  | _, _ => false
  end.

(* ------------------------------------------------------------ structural equality *)
Definition prim_eqb (a b : prim) : bool := tid_eqb (tid_of_prim a) (tid_of_prim b).
Definition ext_eqb (a b : ext) : bool :=
  match a, b with Final, Final | Appendable, Appendable | Mutable, Mutable => true | _, _ => false end.
Definition minfo_eqb (a b : minfo) : bool :=
  (m_id a =? m_id b) && Bool.eqb (m_opt a) (m_opt b) && Bool.eqb (m_key a) (m_key b) &&
  Bool.eqb (m_mu a) (m_mu b) && Bool.eqb (m_dflt a) (m_dflt b) && list_z_eqb (m_labels a) (m_labels b).
(* primitives, strings and structures of them (the nested types the generator produces);
   any other type compares unequal *)
Fixpoint ty_eqb (a b : ty) {struct a} : bool :=
  match a, b with
  | TPrim p, TPrim q => prim_eqb p q
  | TStr, TStr | TWStr, TWStr => true
  | TStruct x ms, TStruct y ns =>
    ext_eqb x y &&
    (fix go (ms ns : list (minfo * ty)) : bool :=
       match ms, ns with
       | [], [] => true
       | (m, t) :: r, (n, u) :: s => minfo_eqb m n && ty_eqb t u && go r s
       | _, _ => false
       end) ms ns
  | _, _ => false
  end.
Definition aty_eqb (a b : aty) : bool :=
  match a, b with
  | APrim p, APrim q => prim_eqb p q
  | AStr x, AStr y | AWStr x, AWStr y => x =? y
  | ANested t, ANested u => ty_eqb t u
  | _, _ => false
  end.
Definition amember_eqb (a b : amember) : bool :=
  minfo_eqb (am_info a) (am_info b) && (am_name a =? am_name b) &&
  Bool.eqb (am_use_default a) (am_use_default b) && aty_eqb (am_ty a) (am_ty b).
Definition adesc_eqb (a b : adesc) : bool :=
  ext_eqb (ad_ext a) (ad_ext b) && (ad_name a =? ad_name b) &&
  list_eqb amember_eqb (ad_members a) (ad_members b).

(* ------------------------------------------------------------------- the oracle *)
(* C39 on the implementation's own outputs:
   - reflexivity: a type is assignable from itself;
   - a decision is returned (no panic);
   - when the reader type is declared assignable from the writer type, every sample of the
     writer type decodes with the reader type into the writer's values for the common members
     and defaults for the rest;
   - conversely, a legitimate evolution inside the covered family (`evolves`) is accepted. *)
Definition ev_oracle_ok (tc : tce) (t1 t2 : adesc) (x : val) (a : res bool) (s : C39_ser) : bool :=
  (if adesc_eqb t1 t2 then resb_eqb a (Ok true) else true) &&
  (if flat_desc t1 && flat_desc t2 && evolves tc t1 t2 then resb_eqb a (Ok true) else true) &&
  (if wf_ty (ty_of t1) && wf_ty (ty_of t2) && wt (ty_of t2) x then
     match a with
     | Ok true =>
       match s, x with
       | SOk _ (Ok (VData d)), VData xv => projects_n t1 xv d
       | _, _ => false
       end
     | Ok false => true
     | _ => false
     end
   else true).

Definition C39_oracle_ok (c : C39_case) : bool :=
  match c_op c, c_out c with
  | Ev v e tc t1 t2 x, OEv a c1 c2 s => ev_oracle_ok tc t1 t2 x a s
  | As tc c1 c2, OAs a =>
    (if stype_eqb c1 c2 then resb_eqb a (Ok true) else true) &&
    match a with Ok _ => true | _ => false end
  | Ty v e tc t1 t2 x, OTy a c1 c2 s typed =>
    ev_oracle_ok tc t1 t2 x a s &&
    (* the application's typed sample carries the projection as well *)
    (if wf_ty (ty_of t1) && wf_ty (ty_of t2) && wt (ty_of t2) x then
       match a, typed, x with
       | Ok true, Some d', VData xv => projects_n t1 xv d'
       | Ok true, _, _ => false
       | _, _, _ => true
       end
     else true)
  | _, _ => false
  end.

(* ------------------------------------------------------------- known-finding classes *)
Definition is_int_aty (a : aty) : bool :=
  match a with APrim p => is_int_tid (tid_of_prim p) | _ => false end.
Definition is_nested (a : aty) : bool := match a with ANested _ => true | _ => false end.
Fixpoint find_am (id : Z) (ms : list amember) : option amember :=
  match ms with [] => None | m :: r => if am_id m =? id then Some m else find_am id r end.
(* some member id common to both types satisfies p (reader member, writer member) *)
Definition common_any (p : amember -> amember -> bool) (t1 t2 : adesc) : bool :=
  existsb (fun m2 => match find_am (am_id m2) (ad_members t1) with
                     | Some m1 => p m1 m2 | None => false end) (ad_members t2).
(* 1  an integer member is declared assignable from / to ANY hashed (struct/union/enum) type
   2  members of hashed types are never compared: EkComplete := EkComplete for any two hashes
   3  (nested appendable DHEADER ignored: repaired in /repo, e71c8f0)
   4  (member ids compared as u16: repaired, 1abc6cd)
   5  (todo!() on TkNone / map / SCC / extended type identifiers: repaired, abb552f)
   6  (optionality of corresponding members not compared: repaired, 05c4a3c)
   7  typed (derive) reader: a member the writer sample does not carry (the writer type lacks it,
      or it is an absent optional member there) makes create_sample return None unless the
      reader member is optional or try_construct = USE_DEFAULT
   The numbers of repaired classes are not reused. *)
Definition ev_known (t1 t2 : adesc) : N :=
    if common_any (fun m1 m2 => (is_int_aty (am_ty m1) && is_nested (am_ty m2)) ||
                                (is_nested (am_ty m1) && is_int_aty (am_ty m2))) t1 t2 then 1%N
    else if common_any (fun m1 m2 => is_nested (am_ty m1) && is_nested (am_ty m2) &&
                                     negb (aty_eqb (am_ty m1) (am_ty m2))) t1 t2 then 2%N
    else 0%N.
Definition C39_known (c : C39_case) : N :=
  match c_op c with
  | Ev v e tc t1 t2 x => ev_known t1 t2
  | As tc c1 c2 => 0%N
  | Ty v e tc t1 t2 x =>
    match ev_known t1 t2 with
    | 0%N => if existsb (fun m => negb (mem (am_id m) (match x with VData xv => keys xv | _ => [] end)) &&
                                  negb (m_opt (am_info m) || am_use_default m)) (ad_members t1)
             then 7%N else 0%N
    | k => k
    end
  end.
