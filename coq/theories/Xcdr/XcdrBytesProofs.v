(* Lemmas about the byte-level vocabulary: integer codecs, two's complement, alignment,
   UTF-8 / UTF-16 transcoding round trips. *)
From DustDDS Require Import Base.Machine Xcdr.XcdrBytes.
Open Scope Z_scope.
Ltac Zify.zify_post_hook ::= Z.div_mod_to_equations.

Lemma blen_app : forall a b, blen (a ++ b) = blen a + blen b.
Proof. intros. unfold blen. rewrite app_length. lia. Qed.
Lemma blen_nonneg : forall a, 0 <= blen a.
Proof. intros. unfold blen. lia. Qed.
Lemma blen_nil : blen [] = 0.
Proof. reflexivity. Qed.
Lemma blen_cons : forall x l, blen (x :: l) = 1 + blen l.
Proof. intros. unfold blen. cbn [length]. lia. Qed.
Lemma blen_zeros : forall n, 0 <= n -> blen (zeros n) = n.
Proof. intros. unfold blen, zeros. rewrite repeat_length. lia. Qed.
Lemma to_nat_blen : forall a, Z.to_nat (blen a) = length a.
Proof. intros. unfold blen. apply Nat2Z.id. Qed.

(* ------------------------------------------------------------ integer codec *)
Lemma pow256_S : forall n, pow256 (S n) = 256 * pow256 n.
Proof.
  intros. unfold pow256. rewrite Nat2Z.inj_succ, Z.pow_succ_r by lia. reflexivity.
Qed.
Lemma pow256_pos : forall n, 0 < pow256 n.
Proof. intros. unfold pow256. apply Z.pow_pos_nonneg; lia. Qed.

Lemma le_enc_length : forall n z, length (le_enc n z) = n.
Proof. induction n; intros; cbn [le_enc length]; [reflexivity | now rewrite IHn]. Qed.

Lemma le_dec_enc : forall n z, le_dec (le_enc n z) = z mod pow256 n.
Proof.
  induction n; intros.
  - cbn [le_enc le_dec]. unfold pow256. cbn. now rewrite Z.mod_1_r.
  - cbn [le_enc le_dec]. rewrite IHn, pow256_S.
    pose proof (pow256_pos n).
    rewrite Z.rem_mul_r by lia. reflexivity.
Qed.

Lemma int_enc_length : forall e n z, length (int_enc e n z) = n.
Proof. intros [] n z; cbn [int_enc]; [|rewrite rev_length]; apply le_enc_length. Qed.
Lemma int_enc_blen : forall e n z, blen (int_enc e n z) = Z.of_nat n.
Proof. intros. unfold blen. now rewrite int_enc_length. Qed.

Lemma int_dec_enc : forall e n z, int_dec e (int_enc e n z) = z mod pow256 n.
Proof.
  intros [] n z; cbn [int_enc int_dec]; [|rewrite rev_involutive]; apply le_dec_enc.
Qed.

Lemma int_dec_enc_unsigned : forall e n z, 0 <= z < pow256 n -> int_dec e (int_enc e n z) = z.
Proof. intros. rewrite int_dec_enc. apply Z.mod_small. lia. Qed.

Lemma int_dec_enc_signed : forall e n z,
  - (pow256 n / 2) <= z < pow256 n / 2 -> (pow256 n) mod 2 = 0 ->
  to_signed n (int_dec e (int_enc e n z)) = z.
Proof.
  intros e n z Hz Hev. rewrite int_dec_enc. unfold to_signed.
  pose proof (pow256_pos n) as Hp.
  destruct (Z.ltb_spec (z mod pow256 n) (pow256 n / 2)) as [Hlt | Hge].
  - destruct (Z_lt_le_dec z 0) as [Hn | Hnn].
    + exfalso. assert (z mod pow256 n = z + pow256 n).
      { symmetry. apply Z.mod_unique with (q := -1); lia. }
      lia.
    + apply Z.mod_small. lia.
  - destruct (Z_lt_le_dec z 0) as [Hn | Hnn].
    + assert (z mod pow256 n = z + pow256 n).
      { symmetry. apply Z.mod_unique with (q := -1); lia. }
      lia.
    + exfalso. rewrite Z.mod_small in Hge by lia. lia.
Qed.

(* ------------------------------------------------------------------- align *)
Lemma padlen_range : forall pos a, 0 < a -> 0 <= padlen pos a < a.
Proof. intros. unfold padlen, align_up. lia. Qed.

Lemma padlen_aligned : forall pos a, 0 < a -> (pos + padlen pos a) mod a = 0.
Proof.
  intros. unfold padlen, align_up.
  replace (pos + ((pos + a - 1) / a * a - pos)) with ((pos + a - 1) / a * a) by lia.
  apply Z.mod_mul. lia.
Qed.

(* ---------------------------------------------------------------- Unicode *)
Lemma is_scalar_range : forall c, is_scalar c = true ->
  (0 <= c < 55296) \/ (57344 <= c < 1114112).
Proof. intros c H. unfold is_scalar in H. lia. Qed.

Ltac ltb_false := match goal with
  | |- context [?a <? ?b] => replace (a <? b) with false by (symmetry; apply Z.ltb_ge; lia) end.
Ltac ltb_true := match goal with
  | |- context [?a <? ?b] => replace (a <? b) with true by (symmetry; apply Z.ltb_lt; lia) end.

Lemma utf8_dec_char : forall c rest, is_scalar c = true ->
  utf8_dec (utf8_char c ++ rest) = option_map (cons c) (utf8_dec rest).
Proof.
  intros c rest Hs. apply is_scalar_range in Hs as Hr.
  unfold utf8_char.
  destruct (Z.ltb_spec c 128) as [H1 | H1].
  { cbn [app utf8_dec]. ltb_true. reflexivity. }
  destruct (Z.ltb_spec c 2048) as [H2 | H2].
  { cbn [app utf8_dec].
    replace (192 + c / 64 <? 128) with false by (symmetry; apply Z.ltb_ge; lia).
    replace (192 + c / 64 <? 192) with false by (symmetry; apply Z.ltb_ge; lia).
    replace (192 + c / 64 <? 224) with true by (symmetry; apply Z.ltb_lt; lia).
    replace ((192 + c / 64 - 192) * 64 + (128 + c mod 64 - 128)) with c by lia.
    unfold is_cont.
    replace (128 <=? 128 + c mod 64) with true by (symmetry; apply Z.leb_le; lia).
    replace (128 + c mod 64 <? 192) with true by (symmetry; apply Z.ltb_lt; lia).
    replace (128 <=? c) with true by (symmetry; apply Z.leb_le; lia).
    reflexivity. }
  destruct (Z.ltb_spec c 65536) as [H3 | H3].
  { cbn [app utf8_dec].
    replace (224 + c / 4096 <? 128) with false by (symmetry; apply Z.ltb_ge; lia).
    replace (224 + c / 4096 <? 192) with false by (symmetry; apply Z.ltb_ge; lia).
    replace (224 + c / 4096 <? 224) with false by (symmetry; apply Z.ltb_ge; lia).
    replace (224 + c / 4096 <? 240) with true by (symmetry; apply Z.ltb_lt; lia).
    replace ((224 + c / 4096 - 224) * 4096 + (128 + (c / 64) mod 64 - 128) * 64 + (128 + c mod 64 - 128))
      with c by lia.
    unfold is_cont.
    replace (128 <=? 128 + (c / 64) mod 64) with true by (symmetry; apply Z.leb_le; lia).
    replace (128 + (c / 64) mod 64 <? 192) with true by (symmetry; apply Z.ltb_lt; lia).
    replace (128 <=? 128 + c mod 64) with true by (symmetry; apply Z.leb_le; lia).
    replace (128 + c mod 64 <? 192) with true by (symmetry; apply Z.ltb_lt; lia).
    replace (2048 <=? c) with true by (symmetry; apply Z.leb_le; lia).
    rewrite Hs. reflexivity. }
  cbn [app utf8_dec].
  replace (240 + c / 262144 <? 128) with false by (symmetry; apply Z.ltb_ge; lia).
  replace (240 + c / 262144 <? 192) with false by (symmetry; apply Z.ltb_ge; lia).
  replace (240 + c / 262144 <? 224) with false by (symmetry; apply Z.ltb_ge; lia).
  replace (240 + c / 262144 <? 240) with false by (symmetry; apply Z.ltb_ge; lia).
  replace (240 + c / 262144 <? 248) with true by (symmetry; apply Z.ltb_lt; lia).
  replace ((240 + c / 262144 - 240) * 262144 + (128 + (c / 4096) mod 64 - 128) * 4096 +
           (128 + (c / 64) mod 64 - 128) * 64 + (128 + c mod 64 - 128)) with c by lia.
  unfold is_cont.
  replace (128 <=? 128 + (c / 4096) mod 64) with true by (symmetry; apply Z.leb_le; lia).
  replace (128 + (c / 4096) mod 64 <? 192) with true by (symmetry; apply Z.ltb_lt; lia).
  replace (128 <=? 128 + (c / 64) mod 64) with true by (symmetry; apply Z.leb_le; lia).
  replace (128 + (c / 64) mod 64 <? 192) with true by (symmetry; apply Z.ltb_lt; lia).
  replace (128 <=? 128 + c mod 64) with true by (symmetry; apply Z.leb_le; lia).
  replace (128 + c mod 64 <? 192) with true by (symmetry; apply Z.ltb_lt; lia).
  replace (65536 <=? c) with true by (symmetry; apply Z.leb_le; lia).
  replace (c <? 1114112) with true by (symmetry; apply Z.ltb_lt; lia).
  reflexivity.
Qed.

Lemma utf8_dec_enc : forall s, forallb is_scalar s = true -> utf8_dec (utf8_enc s) = Some s.
Proof.
  induction s as [|c s IH]; intros H; [reflexivity|].
  cbn [forallb] in H. apply andb_prop in H as [Hc Hs].
  cbn [utf8_enc]. rewrite utf8_dec_char by assumption. rewrite IH by assumption. reflexivity.
Qed.

Lemma utf16_dec_char : forall c rest, is_scalar c = true ->
  utf16_dec (utf16_char c ++ rest) = option_map (cons c) (utf16_dec rest).
Proof.
  intros c rest Hs. apply is_scalar_range in Hs as Hr. unfold utf16_char.
  destruct (Z.ltb_spec c 65536) as [H1 | H1].
  - cbn [app utf16_dec].
    replace ((c <? 55296) || (57344 <=? c)) with true; [reflexivity|].
    symmetry. apply orb_true_iff. lia.
  - cbn [app utf16_dec].
    replace ((55296 + (c - 65536) / 1024 <? 55296) || (57344 <=? 55296 + (c - 65536) / 1024)) with false
      by (symmetry; apply orb_false_iff; split; [apply Z.ltb_ge | apply Z.leb_gt]; lia).
    replace (55296 + (c - 65536) / 1024 <? 56320) with true by (symmetry; apply Z.ltb_lt; lia).
    replace (56320 <=? 56320 + (c - 65536) mod 1024) with true by (symmetry; apply Z.leb_le; lia).
    replace (56320 + (c - 65536) mod 1024 <? 57344) with true by (symmetry; apply Z.ltb_lt; lia).
    cbn [andb].
    replace (65536 + (55296 + (c - 65536) / 1024 - 55296) * 1024 + (56320 + (c - 65536) mod 1024 - 56320))
      with c by lia.
    reflexivity.
Qed.

Lemma utf16_dec_enc : forall s, forallb is_scalar s = true -> utf16_dec (utf16_enc s) = Some s.
Proof.
  induction s as [|c s IH]; intros H; [reflexivity|].
  cbn [forallb] in H. apply andb_prop in H as [Hc Hs].
  cbn [utf16_enc]. rewrite utf16_dec_char by assumption. rewrite IH by assumption. reflexivity.
Qed.

(* every UTF-16 unit fits a u16 *)
Lemma utf16_units_range : forall s, forallb is_scalar s = true ->
  Forall (fun u => 0 <= u < 65536) (utf16_enc s).
Proof.
  induction s as [|c s IH]; intros H; [constructor|].
  cbn [forallb] in H. apply andb_prop in H as [Hc Hs]. apply is_scalar_range in Hc.
  cbn [utf16_enc]. apply Forall_app. split; [|auto].
  unfold utf16_char. destruct (Z.ltb_spec c 65536); repeat constructor; lia.
Qed.
