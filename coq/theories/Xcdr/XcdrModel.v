(* Model of dds/src/xtypes/serializer.rs and deserializer.rs (XCDR1 / XCDR2, both byte
   orders) over run-time types (dynamic_type.rs: DynamicType) and values (DynamicData =
   BTreeMap<MemberId, DataStorage>, data_storage.rs).  Definitions only.

   Encoder functions have the shape  pos -> res (bytes appended, new CdrWriter.position);
   a DHEADER / EMHEADER / PL length "placeholder + later patch" of the code is written
   as  header(length body) ++ body.  Decoder functions have the shape
   buf -> pos -> res (value, new Reader.pos).  Rule numbers are those of the comments in
   the Rust sources (DDS-XTypes 1.3, 7.4.3.5.3). *)
From DustDDS Require Export Base.Machine Xcdr.XcdrBytes.
Open Scope Z_scope.

(* ------------------------------------------------------------------- types *)
Inductive prim : Type :=
| PBool | PByte | PU8 | PI8 | PU16 | PI16 | PU32 | PI32 | PU64 | PI64 | PF32 | PF64 | PF128 | PChar8.
(* DataStorage scalar variants (BYTE and UINT8 share UInt8) *)
Inductive sk : Type :=
| KU8 | KI8 | KU16 | KI16 | KI32 | KU32 | KI64 | KU64 | KF32 | KF64 | KF128 | KChar8 | KBool.
Inductive ext : Type := Final | Appendable | Mutable.
Inductive ver : Type := V1 | V2.

(* MemberDescriptor: id, is_optional, is_key, is_must_understand, is_default_label, label *)
Record minfo : Type := mkM {
  m_id : Z; m_opt : bool; m_key : bool; m_mu : bool; m_dflt : bool; m_labels : list Z }.

Inductive ty : Type :=
| TPrim (p : prim)
| TStr | TWStr
| TEnum (holder : prim) (labels : list Z)
| TSeq (e : ty)
| TArr (n : Z) (e : ty)
| TStruct (x : ext) (ms : list (minfo * ty))
| TUnion (x : ext) (disc : ty) (cs : list (minfo * ty)).   (* member 0 (the discriminator) is implicit *)

(* ------------------------------------------------------------------ values *)
(* floats are their raw bits; Char8 is the code point of the Rust `char` (a char8 value is one
   octet, 0..255; the serializer truncates anything above); String a list of scalars *)
Inductive val : Type :=
| VP (k : sk) (z : Z)
| VStr (s : list Z)
| VData (d : list (Z * val))          (* ComplexValue(DynamicData): entries in key order *)
| VSeqP (k : sk) (l : list Z)
| VSeqStr (l : list (list Z))
| VSeqData (l : list (list (Z * val))).
Definition dyn : Type := list (Z * val).

Fixpoint lookup {A} (k : Z) (d : list (Z * A)) : option A :=
  match d with
  | [] => None
  | (k', v) :: t => if k =? k' then Some v else lookup k t
  end.
(* BTreeMap::insert *)
Fixpoint insert {A} (k : Z) (v : A) (d : list (Z * A)) : list (Z * A) :=
  match d with
  | [] => [(k, v)]
  | (k', v') :: t =>
    if k <? k' then (k, v) :: d
    else if k =? k' then (k, v) :: t
    else (k', v') :: insert k v t
  end.
Definition keys {A} (d : list (Z * A)) : list Z := map fst d.
Definition get (d : dyn) (id : Z) : res val :=
  match lookup id d with Some v => Ok v | None => Err E_ID end.

Fixpoint find_m {X} (id : Z) (ms : list (minfo * X)) : option (minfo * X) :=
  match ms with
  | [] => None
  | (m, x) :: r => if m_id m =? id then Some (m, x) else find_m id r
  end.

Definition sk_eqb (a b : sk) : bool :=
  match a, b with
  | KU8, KU8 | KI8, KI8 | KU16, KU16 | KI16, KI16 | KI32, KI32 | KU32, KU32 | KI64, KI64
  | KU64, KU64 | KF32, KF32 | KF64, KF64 | KF128, KF128 | KChar8, KChar8 | KBool, KBool => true
  | _, _ => false
  end.
Definition prim_sk (p : prim) : sk :=
  match p with
  | PBool => KBool | PByte => KU8 | PU8 => KU8 | PI8 => KI8 | PU16 => KU16 | PI16 => KI16
  | PU32 => KU32 | PI32 => KI32 | PU64 => KU64 | PI64 => KI64 | PF32 => KF32 | PF64 => KF64
  | PF128 => KF128 | PChar8 => KChar8
  end.
(* Ossize::SSIZE / Align::SSIZE in bytes *)
Definition sk_bytes (k : sk) : nat :=
  match k with
  | KU8 | KI8 | KChar8 | KBool => 1 | KU16 | KI16 => 2 | KI32 | KU32 | KF32 => 4
  | KI64 | KU64 | KF64 => 8 | KF128 => 16
  end%nat.
Definition sk_size (k : sk) : Z := Z.of_nat (sk_bytes k).
Definition sk_signed (k : sk) : bool :=
  match k with KI8 | KI16 | KI32 | KI64 | KF128 => true | _ => false end.

Definition maxalign (v : ver) : Z := match v with V1 => 8 | V2 => 4 end.
Definition disc_info : minfo := mkM 0 false false true false [].

Definition W : Type := (list Z * Z)%type.
Definition unwrap {A} (r : res A) : res A :=
  match r with Ok a => Ok a | Err _ => Panic P_UNWRAP | Panic s => Panic s end.
Definition seq_length (v : val) : Z :=
  match v with
  | VP _ _ | VStr _ | VData _ => 1
  | VSeqP _ l => blen l
  | VSeqStr l => Z.of_nat (length l)
  | VSeqData l => Z.of_nat (length l)
  end.
Definition is_prim_ty (t : ty) : bool := match t with TPrim _ => true | _ => false end.
(* EMheader1::write_header: is_next_member_having_dheader *)
Definition lc5_ty (t : ty) : bool :=
  match t with
  | TStruct Appendable _ | TStruct Mutable _ | TUnion Appendable _ _ | TUnion Mutable _ _ => true
  | TSeq _ => true
  | _ => false
  end.

(* ================================================================== encoder *)
Section Encoder.
Variable V : ver.
Variable E : endian.

(* V::align: writer.pad(min(v, MAXALIGN)) *)
Definition enc_align (a pos : Z) : list Z := zeros (padlen pos (Z.min a (maxalign V))).
Definition ret (bs : list Z) (pos : Z) : res W := Ok (bs, pos + blen bs).

(* AsBytes *)
Definition prim_bytes (k : sk) (z : Z) : list Z :=
  match k with
  | KBool => [if z =? 0 then 0 else 1]
  | KChar8 => [z mod 256]                      (* write_byte(self as u32 as u8): truncation to one octet *)
  | _ => int_enc E (sk_bytes k) z
  end.
(* Rule (2): ALIGN(O.ssize) ; ESWAP(AsBytes(O)) *)
Definition ser_prim (k : sk) (z : Z) (pos : Z) : res W :=
  ret (enc_align (sk_size k) pos ++ prim_bytes k z) pos.

Fixpoint ser_list {A} (f : A -> Z -> res W) (l : list A) (pos : Z) : res W :=
  match l with
  | [] => Ok ([], pos)
  | a :: r => '(b1, p1) <- f a pos ;; '(b2, p2) <- ser_list f r p1 ;; Ok (b1 ++ b2, p2)
  end.
Definition seq2 (f g : Z -> res W) (pos : Z) : res W :=
  '(b1, p1) <- f pos ;; '(b2, p2) <- g p1 ;; Ok (b1 ++ b2, p2).

(* Rule (3) *)
Definition ser_string (s : list Z) (pos : Z) : res W :=
  let bs := utf8_enc s in
  seq2 (ser_prim KU32 (wrap_u32 (blen bs) + 1)) (ret (bs ++ [0])) pos.
Definition ser_wstring (s : list Z) (pos : Z) : res W :=
  let us := utf16_enc s in
  seq2 (ser_prim KU32 (wrap_u32 (blen us) + 1))
       (seq2 (ser_list (ser_prim KU16) us) (ser_prim KU16 0)) pos.

Definition get_k (k : sk) (d : dyn) (id : Z) : res Z :=
  match lookup id d with
  | None => Err E_ID
  | Some (VP k' z) => if sk_eqb k k' then Ok z else Err E_TYPE
  | Some _ => Err E_TYPE
  end.
(* Rule (5) *)
Definition ser_enum (h : prim) (d : dyn) (pos : Z) : res W :=
  match h with
  | PI8 => z <- get_k KI8 d 0 ;; ser_prim KI8 z pos
  | PI16 => z <- get_k KI16 d 0 ;; ser_prim KI16 z pos
  | PI32 => z <- get_k KI32 d 0 ;; ser_prim KI32 z pos
  | _ => Err E_TYPE
  end.

(* Dheader::new / write_header *)
Definition ser_dheader (f : Z -> res W) (pos : Z) : res W :=
  let pad := enc_align 4 pos in
  '(body, p2) <- f (pos + blen pad + 4) ;;
  Ok (pad ++ int_enc E 4 (wrap_u32 (blen body)) ++ body, p2).

Definition F : Type := val -> Z -> res W.
Definition MF : Type := list (minfo * (ty * F)).

(* { M.value : M.value.type } *)
Definition ser_value (mfs : MF) (d : dyn) (id : Z) (pos : Z) : res W :=
  match find_m id mfs with
  | None => Err E_ID
  | Some (_, (_, f)) => v <- get d id ;; f v pos
  end.

(* Rule (24): XCDR1 MMEMBER, short PL encoding *)
Definition ser_mmember1 (mfs : MF) (d : dyn) (id : Z) (pos : Z) : res W :=
  let pad := zeros (padlen pos 4) in
  match find_m id mfs with
  | None => Err E_ID
  | Some (m, _) =>
    (* the short parameter header holds a 14-bit id; larger ids are InvalidId (2cf9289);
       `member_id as u16 | (m_flag << 14)` is a sum for id < 2^14 *)
    if 16384 <=? id then Err E_ID else
    let pid := id + (if m_mu m then 16384 else 0) in
    '(bpid, _) <- ser_prim KU16 pid (pos + blen pad) ;;
    (* Ssize::new (2 placeholder bytes) ; push_origin_0 *)
    '(body, p3) <- match lookup id d with
                   | Some _ => unwrap (ser_value mfs d id 0)
                   | None => Ok ([], 0)
                   end ;;
    (* POP(ORIGIN): writer.position += outer_position (the position after the placeholder) *)
    Ok (pad ++ bpid ++ int_enc E 2 (wrap_u16 (blen body)) ++ body, pos + blen pad + 4 + p3)
  end.

(* Rule (22): XCDR2 MMEMBER with EMHEADER1 / NEXTINT *)
Definition ser_mmember2 (mfs : MF) (d : dyn) (id : Z) (pos : Z) : res W :=
  let pad := enc_align 4 pos in
  '(body, p2) <- unwrap (ser_value mfs d id (pos + blen pad + 4)) ;;
  match find_m id mfs with
  | None => Err E_ID
  | Some (m, (t, _)) =>
    let ssize := wrap_u32 (blen body) in
    let lc := if lc5_ty t then 5
              else if ssize =? 1 then 0 else if ssize =? 2 then 1
              else if ssize =? 4 then 2 else if ssize =? 8 then 3 else 4 in
    let emh := (if m_mu m then 2147483648 else 0) + lc * 268435456 + Z.land id 268435455 in
    if lc =? 4
    then Ok (pad ++ int_enc E 4 emh ++ int_enc E 4 ssize ++ body, p2 + 4)
    else Ok (pad ++ int_enc E 4 emh ++ body, p2)
  end.

Definition ser_mmember (mfs : MF) (d : dyn) (id : Z) (pos : Z) : res W :=
  match V with V1 => ser_mmember1 mfs d id pos | V2 => ser_mmember2 mfs d id pos end.

(* Rules (19) / (20) *)
Definition ser_opt_fmember (mfs : MF) (d : dyn) (id : Z) (pos : Z) : res W :=
  match V with
  | V1 => ser_mmember1 mfs d id pos
  | V2 =>
    match lookup id d with
    | Some _ => seq2 (ser_prim KBool 1) (ser_value mfs d id) pos
    | None => ser_prim KBool 0 pos
    end
  end.
(* { M : FMEMBER } *)
Definition ser_fmember (mfs : MF) (d : dyn) (id : Z) (pos : Z) : res W :=
  match find_m id mfs with
  | None => Err E_ID
  | Some (m, _) => if m_opt m then ser_opt_fmember mfs d id pos else ser_value mfs d id pos
  end.
(* Rule (17) *)
Definition ser_fstruct (mfs : MF) (d : dyn) (pos : Z) : res W :=
  ser_list (fun (mx : minfo * (ty * F)) => ser_fmember mfs d (m_id (fst mx))) mfs pos.
(* PID_SENTINEL after ALIGN(4) *)
Definition ser_sentinel (pos : Z) : res W :=
  seq2 (ret (enc_align 4 pos)) (seq2 (ser_prim KU16 1) (ser_prim KU16 0)) pos.
(* Rules (21) / (23) *)
Definition ser_mstruct (mfs : MF) (d : dyn) (pos : Z) : res W :=
  match V with
  | V1 => seq2 (ser_list (ser_mmember1 mfs d) (firstn (length mfs) (keys d))) ser_sentinel pos
  | V2 => ser_dheader (ser_list (ser_mmember2 mfs d) (keys d)) pos
  end.
(* Rule (26) *)
Definition ser_funion (mfs : MF) (d : dyn) (pos : Z) : res W :=
  seq2 (ser_value mfs d 0)
       (match nth_error (keys d) 1 with
        | Some id => ser_fmember mfs d id
        | None => fun p => Ok ([], p)
        end) pos.
Definition ser_selected (mfs : MF) (d : dyn) (pos : Z) : res W :=
  match nth_error (keys d) 1 with
  | Some id => ser_mmember mfs d id pos
  | None => Ok ([], pos)
  end.
(* Rules (27) / (28) *)
Definition ser_munion (mfs : MF) (d : dyn) (pos : Z) : res W :=
  match V with
  | V1 => seq2 (ser_mmember1 mfs d 0) (seq2 (ser_selected mfs d) ser_sentinel) pos
  | V2 => ser_dheader (seq2 (ser_mmember2 mfs d 0) (ser_selected mfs d)) pos
  end.
(* Rules (29) / (30) around AsFinal *)
Definition ser_appendable (f : Z -> res W) (pos : Z) : res W :=
  match V with V1 => f pos | V2 => ser_dheader f pos end.
(* { O : AsNested(O.type) } for structures and unions *)
Definition ser_struct_nested (x : ext) (mfs : MF) (d : dyn) (pos : Z) : res W :=
  match x with
  | Final => ser_fstruct mfs d pos
  | Appendable => ser_appendable (ser_fstruct mfs d) pos
  | Mutable => ser_mstruct mfs d pos
  end.
Definition ser_union_nested (x : ext) (mfs : MF) (d : dyn) (pos : Z) : res W :=
  match x with
  | Final => ser_funion mfs d pos
  | Appendable => ser_appendable (ser_funion mfs d) pos
  | Mutable => ser_munion mfs d pos
  end.

(* { O[i] : O.element_type }*  : e = element type, fe = AsNested serializer of an element,
   fu = serialize_funion_type of an element (used for UNION elements whatever their extensibility) *)
Definition ser_elements (e : ty) (fe fu : F) (v : val) (pos : Z) : res W :=
  match e with
  | TPrim p =>
    match v with
    | VSeqP k l =>
      if sk_eqb k (prim_sk p) then
        match p with
        | PByte | PU8 => ret l pos                                (* write_slice *)
        | _ => ser_list (ser_prim k) l pos
        end
      else Err E_TYPE
    | _ => Err E_TYPE
    end
  | TStr => match v with VSeqStr l => ser_list ser_string l pos | _ => Err E_TYPE end
  | TWStr => match v with VSeqStr l => ser_list ser_wstring l pos | _ => Err E_TYPE end
  | TEnum _ _ | TStruct _ _ =>
    match v with VSeqData l => ser_list (fun d => fe (VData d)) l pos | _ => Err E_TYPE end
  | TUnion _ _ _ =>
    match v with VSeqData l => ser_list (fun d => fu (VData d)) l pos | _ => Err E_TYPE end
  | TSeq _ | TArr _ _ => Panic P_TODO
  end.
(* { O.length : UInt32 } *)
Definition ser_length (v : val) (pos : Z) : res W := ser_prim KU32 (wrap_u32 (seq_length v)) pos.

(* Rules (11) (12) (13) *)
Definition ser_sequence (e : ty) (fe fu : F) (v : val) (pos : Z) : res W :=
  let body := seq2 (ser_length v) (ser_elements e fe fu v) in
  if is_prim_ty e then body pos
  else match V with V1 => body pos | V2 => ser_dheader body pos end.
(* Rules (8) (9) (10) *)
Definition ser_array (e : ty) (fe fu : F) (v : val) (pos : Z) : res W :=
  if is_prim_ty e then ser_elements e fe fu v pos
  else match V with V1 => ser_elements e fe fu v pos | V2 => ser_dheader (ser_elements e fe fu v) pos end.

Definition on_data (f : dyn -> Z -> res W) : F :=
  fun v pos => match v with VData d => f d pos | _ => Err E_TYPE end.

(* serialize_value's dispatch on the member type kind (structures / unions: AsNested) *)
Fixpoint ser_ty (t : ty) {struct t} : F :=
  match t with
  | TPrim p => fun v pos =>
      match v with
      | VP k z => if sk_eqb k (prim_sk p) then ser_prim k z pos else Err E_TYPE
      | _ => Err E_TYPE
      end
  | TStr => fun v pos => match v with VStr s => ser_string s pos | _ => Err E_TYPE end
  | TWStr => fun v pos => match v with VStr s => ser_wstring s pos | _ => Err E_TYPE end
  | TEnum h _ => on_data (ser_enum h)
  | TSeq e =>
      ser_sequence e (ser_ty e)
        (match e with
         | TUnion _ disc cs =>
           on_data (ser_funion ((disc_info, (disc, ser_ty disc)) ::
             (fix cv (ms : list (minfo * ty)) : MF :=
                match ms with [] => [] | (m, t') :: r => (m, (t', ser_ty t')) :: cv r end) cs))
         | _ => fun _ _ => Err E_TYPE
         end)
  | TArr _ e =>
      ser_array e (ser_ty e)
        (match e with
         | TUnion _ disc cs =>
           on_data (ser_funion ((disc_info, (disc, ser_ty disc)) ::
             (fix cv (ms : list (minfo * ty)) : MF :=
                match ms with [] => [] | (m, t') :: r => (m, (t', ser_ty t')) :: cv r end) cs))
         | _ => fun _ _ => Err E_TYPE
         end)
  | TStruct x ms =>
      on_data (ser_struct_nested x
        ((fix cv (ms : list (minfo * ty)) : MF :=
            match ms with [] => [] | (m, t') :: r => (m, (t', ser_ty t')) :: cv r end) ms))
  | TUnion x disc cs =>
      on_data (ser_union_nested x ((disc_info, (disc, ser_ty disc)) ::
        (fix cv (ms : list (minfo * ty)) : MF :=
            match ms with [] => [] | (m, t') :: r => (m, (t', ser_ty t')) :: cv r end) cs))
  end.

End Encoder.

Definition ty_ext (t : ty) : ext :=
  match t with TStruct x _ => x | TUnion x _ _ => x | _ => Final end.
Definition is_aggr (t : ty) : bool :=
  match t with TStruct _ _ | TUnion _ _ _ | TEnum _ _ => true | _ => false end.
(* ENC_HEADER *)
Definition repr_id (v : ver) (e : endian) (x : ext) : Z :=
  (match v, x with
   | V1, Mutable => 2 | V1, _ => 0
   | V2, Final => 6 | V2, Appendable => 8 | V2, Mutable => 10
   end) + (match e with BE => 0 | LE => 1 end).
(* pad_entire_serialization *)
Definition pad_count (n : Z) : Z := (4 - n mod 4) mod 4.
Definition set_nth3 (l : list Z) (x : Z) : list Z :=
  match l with a :: b :: c :: _ :: r => a :: b :: c :: x :: r | _ => l end.
(* Rule (1) + serialize_cdr{1,2}_{le,be} *)
Definition encode (v : ver) (e : endian) (t : ty) (x : val) : res (list Z) :=
  if is_aggr t then
    '(body, _) <- ser_ty v e t x 0 ;;
    let buf := [0; repr_id v e (ty_ext t); 0; 0] ++ body in
    let n := pad_count (blen buf) in
    Ok (set_nth3 (buf ++ zeros n) n)
  else Panic P_TODO.

(* ================================================================== decoder *)
(* Result of a deserializer method: the Reader position is part of the outcome also when the
   method returns Err (the code keeps reading after some errors: NotEnoughData ends an
   appendable structure, `let _dheader = ...;` ignores a failed read). *)
Inductive dres (A : Type) : Type :=
| DOk (a : A) (pos : Z)
| DErr (code : Z) (pos : Z)
| DPanic (site : Z).
Arguments DOk {A} a pos.
Arguments DErr {A} code pos.
Arguments DPanic {A} site.
Definition dbind {A B} (r : dres A) (f : A -> Z -> dres B) : dres B :=
  match r with DOk a p => f a p | DErr c p => DErr c p | DPanic s => DPanic s end.
Notation "x @ p <~ r ;; k" := (dbind r (fun x p => k))
  (at level 61, p name, r at next level, right associativity).
Notation "' x @ p <~ r ;; k" := (dbind r (fun x p => k))
  (at level 61, x pattern, p name, r at next level, right associativity).

(* Reader state besides the position: the alignment origin (Reader.origin) and the effective
   length of Reader.buffer (the buffer is narrowed to an appendable object while it is decoded) *)
Record rctx : Type := mkC { c_org : Z; c_lim : Z }.

Section Decoder.
Variable V : ver.
Variable E : endian.
Variable buf : list Z.

Definition seek (c : rctx) (pos n : Z) : dres unit :=
  if pos + n >? c_lim c then DErr E_NED pos else DOk tt (pos + n).
Definition read_bytes (c : rctx) (pos n : Z) : dres (list Z) :=
  if pos + n >? c_lim c then DErr E_NED pos
  else DOk (firstn (Z.to_nat n) (skipn (Z.to_nat pos) buf)) (pos + n).
(* V::align on the Reader: seek_padding(min(alignment, MAXALIGN)) counted from Reader.origin *)
Definition dec_align (c : rctx) (a pos : Z) : dres unit :=
  seek c pos (padlen (pos - c_org c) (match V with V1 => Z.min a 8 | V2 => Z.min a 4 end)).

Definition des_prim (c : rctx) (k : sk) (pos : Z) : dres Z :=
  _ @ p <~ dec_align c (sk_size k) pos ;;
  bs @ p' <~ read_bytes c p (sk_size k) ;;
  match k with
  | KBool => match bs with
             | [b] => if b =? 0 then DOk 0 p' else if b =? 1 then DOk 1 p' else DErr E_DATA p'
             | _ => DErr E_DATA p'
             end
  | _ => let u := int_dec E bs in
         DOk (if sk_signed k then to_signed (sk_bytes k) u else u) p'
  end.

Fixpoint des_n {A} (f : Z -> dres A) (n : nat) (pos : Z) : dres (list A) :=
  match n with
  | O => DOk [] pos
  | S n' => a @ p1 <~ f pos ;; l @ p2 <~ des_n f n' p1 ;; DOk (a :: l) p2
  end.
(* `for _ in 0..length { push(f()?) }` with a wire-supplied length: same function as des_n
   (lemma des_z_nat), but structured on the binary length so that evaluation stops at the
   first failing element without building a unary number first *)
Fixpoint des_pos {A} (f : Z -> dres A) (p : positive) (pos : Z) : dres (list A) :=
  match p with
  | xH => a @ p1 <~ f pos ;; DOk [a] p1
  | xO q => l1 @ p1 <~ des_pos f q pos ;; l2 @ p2 <~ des_pos f q p1 ;; DOk (l1 ++ l2) p2
  | xI q => a @ p0 <~ f pos ;; l1 @ p1 <~ des_pos f q p0 ;;
            l2 @ p2 <~ des_pos f q p1 ;; DOk (a :: l1 ++ l2) p2
  end.
Definition des_z {A} (f : Z -> dres A) (n : Z) (pos : Z) : dres (list A) :=
  match n with Zpos p => des_pos f p pos | _ => DOk [] pos end.

(* `length > buffer.len().saturating_sub(pos)` *)
Definition too_long (c : rctx) (n pos : Z) : bool := n >? Z.max 0 (c_lim c - pos).

Definition des_string (c : rctx) (pos : Z) : dres (list Z) :=
  len @ p1 <~ des_prim c KU32 pos ;;
  bs @ p2 <~ read_bytes c p1 (Z.max 0 (len - 1)) ;;
  _ @ p3 <~ read_bytes c p2 1 ;;
  match utf8_dec bs with Some s => DOk s p3 | None => DErr E_DATA p3 end.
Definition des_wstring (c : rctx) (pos : Z) : dres (list Z) :=
  len @ p1 <~ des_prim c KU32 pos ;;
  if len =? 0 then DOk [] p1 else
  if too_long c (len - 1) p1 then DErr E_NED p1 else
  us @ p2 <~ des_z (des_prim c KU16) (len - 1) p1 ;;
  nul @ p3 <~ des_prim c KU16 p2 ;;
  if negb (nul =? 0) then DErr E_DATA p3 else
  match utf16_dec us with Some s => DOk s p3 | None => DErr E_DATA p3 end.

(* Rule (5) with the label check *)
Definition des_enum (c : rctx) (h : prim) (labels : list Z) (pos : Z) : dres dyn :=
  match (match h with PI8 => Some KI8 | PI16 => Some KI16 | PI32 => Some KI32 | _ => None end) with
  | None => DPanic P_TODO
  | Some k =>
    z @ p <~ des_prim c k pos ;;
    if match labels with [] => true | _ => existsb (Z.eqb z) labels end
    then DOk [(0, VP k z)] p else DErr E_DATA p
  end.

(* `let _dheader = deserialize_primitive_type::<u32>();` without `?` (mutable union, XCDR2) *)
Definition des_u32_ignore (c : rctx) (pos : Z) : Z :=
  match des_prim c KU32 pos with DOk _ p => p | DErr _ p => p | DPanic _ => pos end.

Definition G : Type := rctx -> Z -> dres val.
Definition MG : Type := list (minfo * (ty * G)).
Definition MEM : Type := (minfo * (ty * G))%type.

(* set_*_value(member.get_id(), ...) after deserializing the value *)
Definition des_value (mb : MEM) (d : dyn) (c : rctx) (pos : Z) : dres dyn :=
  v @ p <~ snd (snd mb) c pos ;; DOk (insert (m_id (fst mb)) v d) p.

(* EncodingVersion1::seek_to_pid (pid : u32, compared with the 14-bit id of the header) *)
Fixpoint seek_to_pid1 (c : rctx) (fuel : nat) (pid : Z) (pos : Z) : dres Z :=
  match fuel with
  | O => DPanic P_FUEL
  | S f =>
    cur @ p1 <~ des_prim c KU16 pos ;;
    let cur' := Z.land cur 16383 in
    len @ p2 <~ des_prim c KU16 p1 ;;
    if (cur' =? 1) && (len =? 0) then (if pid =? 1 then DOk 0 p2 else DErr E_PID p2)
    else if cur' =? pid then DOk len p2
    else _ @ p3 <~ seek c p2 len ;; _ @ p4 <~ dec_align c 4 p3 ;; seek_to_pid1 c f pid p4
  end.
(* EncodingVersion2::seek_to_pid (28-bit member ids) *)
Fixpoint seek_to_pid2 (c : rctx) (fuel : nat) (pid : Z) (pos : Z) : dres Z :=
  match fuel with
  | O => DPanic P_FUEL
  | S f =>
    emh @ p1 <~ des_prim c KU32 pos ;;
    let cur := Z.land emh 268435455 in
    let lc := Z.land (emh / 268435456) 7 in
    len @ p2 <~ (if lc =? 0 then DOk 1 p1 else if lc =? 1 then DOk 2 p1
                 else if lc =? 2 then DOk 4 p1 else if lc =? 3 then DOk 8 p1
                 else x @ p <~ des_prim c KU32 p1 ;;
                      let m := if lc =? 6 then 4 else if lc =? 7 then 8 else 1 in
                      if m * x >? u32_max then DErr E_DATA p else DOk (m * x) p) ;;
    if cur =? pid then DOk (wrap_u16 len) (if lc =? 5 then p2 - 4 else p2)
    else _ @ p3 <~ seek c p2 len ;; _ @ p4 <~ dec_align c 4 p3 ;; seek_to_pid2 c f pid p4
  end.
Definition fuel0 : nat := S (length buf).

(* Rule (24) reader side (members of MUTABLE types): reader.pos is restored afterwards *)
Definition des_mmember1 (mb : MEM) (d : dyn) (c : rctx) (pos : Z) : dres dyn :=
  _ @ p0 <~ dec_align c 4 pos ;;
  match seek_to_pid1 c fuel0 (m_id (fst mb)) p0 with
  | DOk len p1 =>
    if len >? 0 then
      match des_value mb d c p1 with
      | DOk d' _ => DOk d' p0 | DErr code _ => DErr code p0 | DPanic s => DPanic s
      end
    else DOk d p0
  | DErr _ _ => DOk d p0
  | DPanic s => DPanic s
  end.
(* Rule (22) reader side *)
Definition des_mmember2 (mb : MEM) (d : dyn) (c : rctx) (pos : Z) : dres dyn :=
  _ @ p0 <~ dec_align c 4 pos ;;
  match seek_to_pid2 c fuel0 (Z.land (m_id (fst mb)) 268435455) p0 with
  | DOk _ p1 =>
    match des_value mb d c p1 with
    | DOk d' _ => DOk d' p0 | DErr code _ => DErr code p0 | DPanic s => DPanic s
    end
  | DErr _ _ => DOk d p0
  | DPanic s => DPanic s
  end.
Definition des_mmember (mb : MEM) (d : dyn) (c : rctx) (pos : Z) : dres dyn :=
  match V with V1 => des_mmember1 mb d c pos | V2 => des_mmember2 mb d c pos end.

(* Rules (19) / (20) reader side.  XCDR1: the parameter is read IN PLACE (header, then the value
   aligned from a fresh origin), the reader continues after the value *)
Definition des_opt_fmember (mb : MEM) (d : dyn) (c : rctx) (pos : Z) : dres dyn :=
  match V with
  | V1 =>
    _ @ p0 <~ dec_align c 4 pos ;;
    _ @ p1 <~ des_prim c KU16 p0 ;;
    len @ p2 <~ des_prim c KU16 p1 ;;
    if len >? 0 then des_value mb d (mkC p2 (c_lim c)) p2 else DOk d p2
  | V2 => b @ p <~ des_prim c KBool pos ;; if b =? 1 then des_value mb d c p else DOk d p
  end.
Definition des_fmember (mb : MEM) (d : dyn) (c : rctx) (pos : Z) : dres dyn :=
  if m_opt (fst mb) then des_opt_fmember mb d c pos else des_value mb d c pos.

(* Rule (17) reader side; `app`: NotEnoughData ends an appendable structure early *)
Fixpoint des_fstruct (app : bool) (mgs : MG) (d : dyn) (c : rctx) (pos : Z) : dres dyn :=
  match mgs with
  | [] => DOk d pos
  | mb :: r =>
    match des_fmember mb d c pos with
    | DOk d' p' => des_fstruct app r d' c p'
    | DErr code p' => if app && (code =? E_NED) then DOk d p' else DErr code p'
    | DPanic s => DPanic s
    end
  end.
(* { O.member[i] : MMEMBER }* *)
Fixpoint des_members (mgs : MG) (d : dyn) (c : rctx) (pos : Z) : dres dyn :=
  match mgs with
  | [] => DOk d pos
  | mb :: r => d' @ p' <~ des_mmember mb d c pos ;; des_members r d' c p'
  end.
Definition des_mstruct (mgs : MG) (c : rctx) (pos : Z) : dres dyn :=
  match V with
  | V1 => d @ p <~ des_members mgs [] c pos ;;
          _ @ p' <~ seek_to_pid1 c fuel0 1 p ;; DOk d p'
  | V2 => _ @ p <~ des_prim c KU32 pos ;; des_members mgs [] c p
  end.

(* get_discriminator_id_as_i32 *)
Definition disc_i32 (d : dyn) : res Z :=
  match lookup 0 d with
  | None => Err E_ID
  | Some (VP k z) =>
    match k with
    | KU8 | KI8 | KU16 | KI16 | KI32 => Ok z
    | KU32 => Ok (wrap_i32 z)
    | _ => Err E_TYPE
    end
  | Some _ => Err E_TYPE
  end.
(* the member selected by the discriminator: first member whose labels contain it, else the last default *)
Fixpoint select_member {X} (disc : Z) (dflt : option (minfo * X)) (ms : list (minfo * X)) : option (minfo * X) :=
  match ms with
  | [] => dflt
  | mb :: r =>
    if existsb (Z.eqb disc) (m_labels (fst mb)) then Some mb
    else select_member disc (if m_dflt (fst mb) then Some mb else dflt) r
  end.
Definition with_disc (d1 : dyn) (p1 : Z) (mgs : MG) (k : MEM -> dres dyn) : dres dyn :=
  match disc_i32 d1 with
  | Ok disc =>
    match select_member disc None mgs with
    | Some mb => k mb
    | None => DErr E_DATA p1
    end
  | Err code => DErr code p1
  | Panic s => DPanic s
  end.

(* Rule (26) reader side; mgs = discriminator member :: cases *)
Definition des_funion (mgs : MG) (c : rctx) (pos : Z) : dres dyn :=
  match mgs with
  | [] => DErr E_IDX pos
  | dm :: _ =>
    d1 @ p1 <~ des_value dm [] c pos ;;
    with_disc d1 p1 mgs (fun mb => des_fmember mb d1 c p1)
  end.
(* Rules (27) / (28) reader side *)
Definition des_munion (mgs : MG) (c : rctx) (pos : Z) : dres dyn :=
  let p := match V with V1 => pos | V2 => des_u32_ignore c pos end in
  match mgs with
  | [] => DErr E_IDX p
  | dm :: _ =>
    d1 @ p1 <~ des_mmember dm [] c p ;;
    with_disc d1 p1 mgs (fun mb => des_mmember mb d1 c p1)
  end.

(* Rule (30) reader side: the DHEADER delimits the object; Reader.buffer is narrowed to it while
   its members are read and the position is set to its end afterwards *)
Definition des_appendable2 (mgs : MG) (c : rctx) (pos : Z) : dres dyn :=
  dh @ p <~ des_prim c KU32 pos ;;
  let e := p + dh in
  if e >? c_lim c then DErr E_NED p else
  match des_fstruct true mgs [] (mkC (c_org c) e) p with
  | DOk d _ => DOk d e
  | DErr code p' => DErr code p'
  | DPanic s => DPanic s
  end.

Definition des_struct_nested (x : ext) (mgs : MG) (c : rctx) (pos : Z) : dres dyn :=
  match x with
  | Final => des_fstruct false mgs [] c pos
  | Appendable =>
    match V with
    | V1 => des_fstruct true mgs [] c pos
    | V2 => des_appendable2 mgs c pos
    end
  | Mutable => des_mstruct mgs c pos
  end.
(* deserialize_as_nested, UNION arm: an appendable union reads a DHEADER in BOTH versions *)
Definition des_union_nested (x : ext) (mgs : MG) (c : rctx) (pos : Z) : dres dyn :=
  match x with
  | Final => des_funion mgs c pos
  | Appendable => _ @ p <~ des_prim c KU32 pos ;; des_funion mgs c p
  | Mutable => des_munion mgs c pos
  end.

Definition undata (r : dres val) : dres dyn :=
  v @ p <~ r ;; match v with VData d => DOk d p | _ => DErr E_TYPE p end.

(* can_be_empty (8422ab4): a value of the type may occupy no bytes (a structure all of whose members
   are non-optional and may be empty, an array of such elements or of length 0); collections of
   such elements are exempt from the length-versus-bytes guard *)
Fixpoint can_be_empty (t : ty) : bool :=
  match t with
  | TStruct _ ms =>
    (fix go (ms : list (minfo * ty)) : bool :=
       match ms with [] => true | (m, t') :: r => negb (m_opt m) && can_be_empty t' && go r end) ms
  | TArr n e => (n =? 0) || can_be_empty e
  | _ => false
  end.

(* deserialize_sequence_elements *)
Definition des_elements (e : ty) (ge : G) (n : Z) (c : rctx) (pos : Z) : dres val :=
  if negb (can_be_empty e) && too_long c n pos then DErr E_NED pos else
  match e with
  | TPrim p =>
    match p with
    | PByte | PU8 => bs @ p' <~ read_bytes c pos n ;; DOk (VSeqP KU8 bs) p'
    | _ => l @ p' <~ des_z (des_prim c (prim_sk p)) n pos ;; DOk (VSeqP (prim_sk p) l) p'
    end
  | TStr => l @ p' <~ des_z (des_string c) n pos ;; DOk (VSeqStr l) p'
  | TWStr => l @ p' <~ des_z (des_wstring c) n pos ;; DOk (VSeqStr l) p'
  | TEnum _ _ | TStruct _ _ | TUnion _ _ _ =>
    l @ p' <~ des_z (fun p => undata (ge c p)) n pos ;; DOk (VSeqData l) p'
  | TSeq _ | TArr _ _ => DPanic P_TODO
  end.
Definition des_sequence (e : ty) (ge : G) (c : rctx) (pos : Z) : dres val :=
  if is_prim_ty e then len @ p <~ des_prim c KU32 pos ;; des_elements e ge len c p
  else match V with
       | V1 => len @ p <~ des_prim c KU32 pos ;; des_elements e ge len c p
       | V2 => _ @ p0 <~ des_prim c KU32 pos ;;
               len @ p <~ des_prim c KU32 p0 ;; des_elements e ge len c p
       end.
Definition des_array (n : Z) (e : ty) (ge : G) (c : rctx) (pos : Z) : dres val :=
  if is_prim_ty e then des_elements e ge n c pos
  else match V with
       | V1 => des_elements e ge n c pos
       | V2 => _ @ p0 <~ des_prim c KU32 pos ;; des_elements e ge n c p0
       end.

Definition as_data (r : dres dyn) : dres val := d @ p <~ r ;; DOk (VData d) p.

(* deserialize_value's dispatch on the member type kind; aggregated types: deserialize_as_nested *)
Fixpoint des_ty (t : ty) {struct t} : G :=
  match t with
  | TPrim p => fun c pos => z @ p' <~ des_prim c (prim_sk p) pos ;; DOk (VP (prim_sk p) z) p'
  | TStr => fun c pos => s @ p' <~ des_string c pos ;; DOk (VStr s) p'
  | TWStr => fun c pos => s @ p' <~ des_wstring c pos ;; DOk (VStr s) p'
  | TEnum h ls => fun c pos => as_data (des_enum c h ls pos)
  | TSeq e => des_sequence e (des_ty e)
  | TArr n e => des_array n e (des_ty e)
  | TStruct x ms => fun c pos =>
      as_data (des_struct_nested x
        ((fix cv (ms : list (minfo * ty)) : MG :=
            match ms with [] => [] | (m, t') :: r => (m, (t', des_ty t')) :: cv r end) ms) c pos)
  | TUnion x disc cs => fun c pos =>
      as_data (des_union_nested x ((disc_info, (disc, des_ty disc)) ::
        (fix cv (ms : list (minfo * ty)) : MG :=
            match ms with [] => [] | (m, t') :: r => (m, (t', des_ty t')) :: cv r end) cs) c pos)
  end.

End Decoder.

Definition dispatch (b0 b1 : Z) : option (ver * endian) :=
  if b0 =? 0 then
    if (b1 =? 0) || (b1 =? 2) then Some (V1, BE)
    else if (b1 =? 1) || (b1 =? 3) then Some (V1, LE)
    else if (b1 =? 6) || (b1 =? 8) || (b1 =? 10) then Some (V2, BE)
    else if (b1 =? 7) || (b1 =? 9) || (b1 =? 11) then Some (V2, LE)
    else None
  else None.

(* deserialize_top_level_type: origin 0, the whole body *)
Definition des_top (t : ty) (bytes : list Z) : res (dres val) :=
  if blen bytes <? 4 then Err E_NED else
  match bytes with
  | b0 :: b1 :: _ :: _ :: body =>
    match dispatch b0 b1 with
    | None => Err E_DATA
    | Some (v, e) =>
      if is_aggr t then Ok (des_ty v e body t (mkC 0 (blen body)) 0) else Err E_TYPE
    end
  | _ => Err E_NED
  end.
Definition decode (t : ty) (bytes : list Z) : res val :=
  r <- des_top t bytes ;;
  match r with DOk x _ => Ok x | DErr code _ => Err code | DPanic s => Panic s end.
(* number of bytes of the body the reader consumed (the Reader position when
   deserialize_top_level_type returns Ok), used by the padding oracle *)
Definition decode_end (t : ty) (bytes : list Z) : option Z :=
  match des_top t bytes with Ok (DOk _ p) => Some p | _ => None end.
