(* C39 proofs, part 3: decoding an XCDR2 MUTABLE structure written with member list ms2 with a
   reader member list ms1: every reader member is looked up by id in the writer's parameter
   list (EncodingVersion2::seek_to_pid), whatever the order; members the writer does not have
   are left unset. *)
From DustDDS Require Import Base.Machine Xcdr.XcdrBytes Xcdr.XcdrBytesProofs Xcdr.XcdrModel
  Xcdr.XcdrProps Xcdr.XcdrProofs Xcdr.AssignAppend.
Open Scope Z_scope.
Ltac Zify.zify_post_hook ::= Z.div_mod_to_equations.

(* ------------------------------------------------- alignment facts for XCDR2 (MAXALIGN 4) *)
Lemma padlen_zero : forall pos a, 0 < a -> pos mod a = 0 -> padlen pos a = 0.
Proof.
  intros pos a Ha Hm. unfold padlen, align_up.
  assert (Hp : pos = a * (pos / a)) by (apply Z.div_exact; lia).
  set (k := pos / a) in *. rewrite Hp.
  replace (a * k + a - 1) with (k * a + (a - 1)) by lia.
  rewrite Z.div_add_l by lia. rewrite (Z.div_small (a - 1) a) by lia. lia.
Qed.

Lemma padlen_shift4 : forall pos a, (a = 1 \/ a = 2 \/ a = 4) -> padlen (pos + 4) a = padlen pos a.
Proof. intros pos a [->|[->| ->]]; unfold padlen, align_up; lia. Qed.

Lemma min4_cases : forall k, let a := Z.min (sk_size k) 4 in a = 1 \/ a = 2 \/ a = 4.
Proof. destruct k; cbv; auto. Qed.

(* a serializer whose output does not depend on the position modulo 4 *)
Definition shift4 (f : Z -> res W) : Prop :=
  forall pos bs p, f pos = Ok (bs, p) -> f (pos + 4) = Ok (bs, p + 4).

Lemma shift4_prim : forall E k z, shift4 (ser_prim V2 E k z).
Proof.
  intros E k z pos bs p H. unfold ser_prim, ret, enc_align in *. cbn [maxalign] in *.
  rewrite (padlen_shift4 pos _ (min4_cases k)). inversion H. f_equal. f_equal. lia.
Qed.
Lemma shift4_ret : forall bs, shift4 (ret bs).
Proof. intros bs pos b p H. unfold ret in *. inversion H. f_equal. f_equal. lia. Qed.
Lemma shift4_seq2 : forall f g, shift4 f -> shift4 g -> shift4 (seq2 f g).
Proof.
  intros f g Hf Hg pos bs p H. unfold seq2 in *.
  destruct (f pos) as [[b1 p1]| |] eqn:E1; cbn [bind] in H; try discriminate.
  rewrite (Hf _ _ _ E1). cbn [bind].
  destruct (g p1) as [[b2 p2]| |] eqn:E2; cbn [bind] in H; try discriminate.
  rewrite (Hg _ _ _ E2). cbn [bind]. inversion H. reflexivity.
Qed.
Lemma shift4_list : forall {A} (f : A -> Z -> res W) l, (forall a, shift4 (f a)) -> shift4 (ser_list f l).
Proof.
  intros A f l Hf. induction l as [|a r IH]; intros pos bs p H.
  - cbn [ser_list] in *. inversion H. reflexivity.
  - cbn [ser_list] in *.
    destruct (f a pos) as [[b1 p1]| |] eqn:E1; cbn [bind] in H; try discriminate.
    rewrite (Hf a _ _ _ E1). cbn [bind].
    destruct (ser_list f r p1) as [[b2 p2]| |] eqn:E2; cbn [bind] in H; try discriminate.
    rewrite (IH _ _ _ E2). cbn [bind]. inversion H. reflexivity.
Qed.

Lemma shift4_flat : forall E t v, flat_ty t = true -> shift4 (ser_ty V2 E t v).
Proof.
  intros E t v Ht. destruct t as [p| | | | | | |]; try discriminate; cbn [ser_ty].
  - destruct v as [k z| | | | |]; try (intros pos bs q H; discriminate).
    destruct (sk_eqb k (prim_sk p)); [apply shift4_prim|intros pos bs q H; discriminate].
  - destruct v as [|s| | | |]; try (intros pos bs q H; discriminate).
    unfold ser_string. cbv zeta. apply shift4_seq2; [apply shift4_prim|apply shift4_ret].
  - destruct v as [|s| | | |]; try (intros pos bs q H; discriminate).
    unfold ser_wstring. cbv zeta. apply shift4_seq2; [apply shift4_prim|].
    apply shift4_seq2; [|apply shift4_prim]. apply shift4_list. intros a. apply shift4_prim.
Qed.

(* ------------------------------------------------------------------ EMHEADER arithmetic *)
Lemma emh_fields : forall mu lc id, (mu = 0 \/ mu = 2147483648) -> 0 <= lc <= 7 -> 0 <= id < 268435456 ->
  let emh := mu + lc * 268435456 + Z.land id 268435455 in
  0 <= emh <= u32_max /\ Z.land emh 268435455 = id /\ Z.land (emh / 268435456) 7 = lc.
Proof.
  intros mu lc id Hmu Hlc Hid. cbv zeta.
  change 268435455 with (Z.ones 28). change 7 with (Z.ones 3).
  rewrite !Z.land_ones by lia. change (2 ^ 28) with 268435456. change (2 ^ 3) with 8.
  rewrite (Z.mod_small id) by lia. unfold u32_max.
  destruct Hmu as [-> | ->]; repeat split; lia.
Qed.

(* ------------------------------------------------------ one parameter of the writer's list *)
(* all statements below are for a reader whose alignment origin is 0 (a top-level object) *)
Lemma enc_align4_aligned : forall s, s mod 4 = 0 -> enc_align V2 4 s = [].
Proof. intros. unfold enc_align. cbn [maxalign]. rewrite padlen_zero by (cbn; lia). reflexivity. Qed.

Lemma wrap_u16_small : forall z, 0 <= z < 65536 -> wrap_u16 z = z.
Proof. intros. unfold wrap_u16. apply Z.mod_small. lia. Qed.

Lemma land_id28 : forall id, 0 <= id < 268435456 -> Z.land id 268435455 = id.
Proof.
  intros. change 268435455 with (Z.ones 28). rewrite Z.land_ones by lia.
  change (2 ^ 28) with 268435456. apply Z.mod_small. lia.
Qed.

(* reading a u32 that sits, 4-aligned, at offset |pre| *)
Lemma des_u32_at : forall E pre z post c, c_org c = 0 -> blen pre mod 4 = 0 -> blen pre + 4 <= c_lim c ->
  0 <= z <= u32_max ->
  des_prim V2 E (pre ++ int_enc E 4 z ++ post) c KU32 (blen pre) = DOk z (blen pre + 4).
Proof.
  intros E pre z post c Horg Hal Hlim Hz. pose proof (blen_nonneg pre).
  destruct (rt_u32 V2 E 4 z Hz (blen pre) ltac:(lia)) as [hb [E2 [_ D2]]].
  assert (Hhb : hb = int_enc E 4 z).
  { unfold ser_prim, ret in E2. change (sk_size KU32) with 4 in E2.
    rewrite enc_align4_aligned in E2 by assumption. inversion E2. reflexivity. }
  subst hb. rewrite int_enc_blen in D2.
  specialize (D2 ltac:(lia) pre post c ltac:(lia) ltac:(lia)).
  rewrite Horg in D2. exact D2.
Qed.

Lemma len_sel : forall lc (X : dres Z) s, 0 <= lc <= 3 ->
  (if lc =? 0 then DOk 1 s else if lc =? 1 then DOk 2 s else if lc =? 2 then DOk 4 s
   else if lc =? 3 then DOk 8 s else X) =
  DOk (match lc with 0 => 1 | 1 => 2 | 2 => 4 | _ => 8 end) s.
Proof.
  intros lc X s H. assert (Hc : lc = 0 \/ lc = 1 \/ lc = 2 \/ lc = 3) by lia.
  destruct Hc as [->|[->|[->| ->]]]; reflexivity.
Qed.

Lemma mm2_step : forall E ms d mt v,
  nodup_z (ids ms) = true -> In mt ms -> lookup (m_id (fst mt)) d = Some v ->
  rt_ok u32_max (msz (snd mt)) (ser_ty V2 E (snd mt) v) (fun buf c => des_ty V2 E buf (snd mt) c) v ->
  shift4 (ser_ty V2 E (snd mt) v) ->
  lc5_ty (snd mt) = false -> 0 <= m_id (fst mt) < 268435456 ->
  (forall pos bs p, ser_ty V2 E (snd mt) v pos = Ok (bs, p) -> blen bs <= u32_max) ->
  forall pos, 0 <= pos -> exists bs off,
    ser_mmember2 V2 E (cvS V2 E ms) d (m_id (fst mt)) pos = Ok (bs, pos + blen bs) /\
    4 <= off <= blen bs /\ (pos + off) mod 4 = 0 /\
    forall pre post c, c_org c = 0 -> blen pre = pos -> pos + blen bs <= c_lim c ->
      des_ty V2 E (pre ++ bs ++ post) (snd mt) c (pos + off) = DOk v (pos + blen bs) /\
      forall f pid, 0 <= pid < 268435456 ->
        seek_to_pid2 V2 E (pre ++ bs ++ post) c (S f) pid pos =
        if m_id (fst mt) =? pid then DOk (wrap_u16 (blen bs - off)) (pos + off)
        else dbind (dec_align V2 c 4 (pos + blen bs))
                   (fun _ p4 => seek_to_pid2 V2 E (pre ++ bs ++ post) c f pid p4).
Proof.
  intros E ms d [m t] v Hnd Hin Hv Hrt Hsh Hlc5 Hid Hsz pos Hpos. cbn [fst snd] in *.
  set (pad := enc_align V2 4 pos).
  assert (Hpadlen : blen pad = padlen pos 4).
  { unfold pad, enc_align. cbn [maxalign]. change (Z.min 4 4) with 4.
    apply blen_zeros. pose proof (padlen_range pos 4 ltac:(lia)). lia. }
  pose proof (padlen_range pos 4 ltac:(lia)) as Hpr.
  pose proof (padlen_aligned pos 4 ltac:(lia)) as Hpa.
  set (s := pos + blen pad + 4).
  assert (Hs0 : 0 <= s) by (unfold s; lia).
  assert (Hs4 : s mod 4 = 0) by (unfold s; rewrite Hpadlen; lia).
  destruct (Hrt s Hs0) as [body [Eb [_ Db]]].
  pose proof (Hsz _ _ _ Eb) as Hbody. pose proof (blen_nonneg body) as Hbnn.
  assert (Eb4 : ser_ty V2 E t v (s + 4) = Ok (body, s + 4 + blen body)).
  { rewrite (Hsh _ _ _ Eb). f_equal. f_equal. lia. }
  destruct (Hrt (s + 4) ltac:(lia)) as [body' [Eb' [_ Db']]]. rewrite Eb4 in Eb'.
  inversion Eb' as [[Hbb Hpp]]. subst body'. clear Eb' Hpp.
  (* decoding the value at an absolute position (origin 0) *)
  assert (Dv : forall pre post c, c_org c = 0 -> blen pre = s -> s + blen body <= c_lim c ->
             des_ty V2 E (pre ++ body ++ post) t c s = DOk v (s + blen body)).
  { intros pre post c Horg Hpre Hlim.
    pose proof (Db Hbody pre post c ltac:(lia) ltac:(lia)) as H. now rewrite Horg in H. }
  assert (Dv4 : forall pre post c, c_org c = 0 -> blen pre = s + 4 -> s + 4 + blen body <= c_lim c ->
             des_ty V2 E (pre ++ body ++ post) t c (s + 4) = DOk v (s + 4 + blen body)).
  { intros pre post c Horg Hpre Hlim.
    pose proof (Db' Hbody pre post c ltac:(lia) ltac:(lia)) as H. now rewrite Horg in H. }
  (* the serializer *)
  assert (Hfind : find_m (m_id m) (cvS V2 E ms) = Some (m, (t, ser_ty V2 E t)))
    by (exact (find_cvS V2 E ms (m, t) Hnd Hin)).
  assert (Hsv : ser_value (cvS V2 E ms) d (m_id m) s = Ok (body, s + blen body)).
  { unfold ser_value. rewrite Hfind. unfold get. rewrite Hv. cbn [bind]. exact Eb. }
  assert (Hw : wrap_u32 (blen body) = blen body).
  { unfold wrap_u32, two32. apply Z.mod_small. unfold u32_max in Hbody. lia. }
  set (lc := if blen body =? 1 then 0 else if blen body =? 2 then 1 else if blen body =? 4 then 2
             else if blen body =? 8 then 3 else 4).
  assert (Hlc : 0 <= lc <= 4).
  { unfold lc. repeat match goal with |- context [if ?c then _ else _] => destruct c end; lia. }
  set (mu := if m_mu m then 2147483648 else 0).
  assert (Hmu : mu = 0 \/ mu = 2147483648) by (unfold mu; destruct (m_mu m); auto).
  destruct (emh_fields mu lc (m_id m) Hmu ltac:(lia) ltac:(lia)) as [Hemh [Hcur Hlcd]].
  set (emh := mu + lc * 268435456 + Z.land (m_id m) 268435455) in *.
  assert (Hser : ser_mmember2 V2 E (cvS V2 E ms) d (m_id m) pos =
                 if lc =? 4
                 then Ok (pad ++ int_enc E 4 emh ++ int_enc E 4 (blen body) ++ body, s + blen body + 4)
                 else Ok (pad ++ int_enc E 4 emh ++ body, s + blen body)).
  { unfold ser_mmember2. cbv zeta. fold pad. fold s. rewrite Hsv. cbn [unwrap bind].
    rewrite Hfind. rewrite Hlc5. rewrite Hw. fold lc. fold mu. fold emh. reflexivity. }
  (* the reader: EMHEADER at pos + |pad| *)
  assert (Hdes_emh : forall pre rest c, c_org c = 0 -> blen pre = pos -> s <= c_lim c ->
            des_prim V2 E (pre ++ (pad ++ int_enc E 4 emh ++ rest)) c KU32 pos = DOk emh s).
  { intros pre rest c Horg Hpre Hlim.
    destruct (rt_u32 V2 E 8 emh Hemh pos Hpos) as [hb [E2 [_ D2]]].
    assert (Hhb : hb = pad ++ int_enc E 4 emh) by (unfold ser_prim, ret in E2; inversion E2; reflexivity).
    subst hb.
    replace (pre ++ pad ++ int_enc E 4 emh ++ rest) with (pre ++ (pad ++ int_enc E 4 emh) ++ rest)
      by now rewrite <- !app_assoc.
    rewrite blen_app, int_enc_blen in D2.
    specialize (D2 ltac:(lia) pre rest c ltac:(lia) ltac:(unfold s in Hlim; lia)).
    rewrite Horg in D2. cbn [Z.add] in D2. rewrite D2. f_equal. unfold s. lia. }
  destruct (Z.eqb_spec lc 4) as [Hlc4 | Hlc4].
  - (* NEXTINT present *)
    exists (pad ++ int_enc E 4 emh ++ int_enc E 4 (blen body) ++ body), (blen pad + 8).
    assert (Hlen : blen (pad ++ int_enc E 4 emh ++ int_enc E 4 (blen body) ++ body) = blen pad + 8 + blen body).
    { rewrite !blen_app, !int_enc_blen. lia. }
    rewrite Hlen. split; [rewrite Hser; f_equal; f_equal; unfold s; lia|].
    split; [lia|]. split; [rewrite Hpadlen; lia|].
    intros pre post c Horg Hpre Hlim.
    set (buf := pre ++ (pad ++ int_enc E 4 emh ++ int_enc E 4 (blen body) ++ body) ++ post).
    assert (Hbuf1 : buf = (pre ++ pad ++ int_enc E 4 emh ++ int_enc E 4 (blen body)) ++ body ++ post)
      by (unfold buf; now rewrite <- !app_assoc).
    assert (Hl1 : blen (pre ++ pad ++ int_enc E 4 emh ++ int_enc E 4 (blen body)) = s + 4)
      by (rewrite !blen_app, !int_enc_blen; unfold s; lia).
    split.
    + replace (pos + (blen pad + 8)) with (s + 4) by (unfold s; lia).
      replace (pos + (blen pad + 8 + blen body)) with (s + 4 + blen body) by (unfold s; lia).
      rewrite Hbuf1. apply Dv4; [exact Horg|exact Hl1|unfold s; lia].
    + intros f pid Hpid. cbn [seek_to_pid2].
      assert (Hbuf0 : buf = pre ++ (pad ++ int_enc E 4 emh ++ (int_enc E 4 (blen body) ++ body ++ post)))
        by (unfold buf; now rewrite <- !app_assoc).
      rewrite Hbuf0 at 1. rewrite (Hdes_emh pre _ c Horg Hpre ltac:(unfold s; lia)). cbn [dbind].
      rewrite Hcur, Hlcd, Hlc4. cbn [Z.eqb Pos.eqb].
      assert (Hbuf2 : buf = (pre ++ pad ++ int_enc E 4 emh) ++ int_enc E 4 (blen body) ++ (body ++ post))
        by (unfold buf; now rewrite <- !app_assoc).
      assert (Hl2 : blen (pre ++ pad ++ int_enc E 4 emh) = s)
        by (rewrite !blen_app, !int_enc_blen; unfold s; lia).
      assert (Hnext : des_prim V2 E buf c KU32 s = DOk (blen body) (s + 4)).
      { rewrite Hbuf2. rewrite <- Hl2.
        apply des_u32_at; [exact Horg|rewrite Hl2; exact Hs4|rewrite Hl2; unfold s; lia|lia]. }
      rewrite Hnext. cbn [dbind].
      replace (1 * blen body >? u32_max) with false by (symmetry; apply gtb_false; lia).
      cbn [dbind].
      replace (1 * blen body) with (blen body) by lia.
      replace (pos + (blen pad + 8)) with (s + 4) by (unfold s; lia).
      replace (blen pad + 8 + blen body - (blen pad + 8)) with (blen body) by lia.
      destruct (m_id m =? pid); [reflexivity|].
      rewrite seek_ok by (unfold s; lia). cbn [dbind].
      replace (pos + (blen pad + 8 + blen body)) with (s + 4 + blen body) by (unfold s; lia).
      reflexivity.
  - (* length code 0..3 *)
    exists (pad ++ int_enc E 4 emh ++ body), (blen pad + 4).
    assert (Hlen : blen (pad ++ int_enc E 4 emh ++ body) = blen pad + 4 + blen body).
    { rewrite !blen_app, !int_enc_blen. lia. }
    rewrite Hlen.
    split; [rewrite Hser; f_equal; f_equal; unfold s; lia|].
    split; [lia|]. split; [rewrite Hpadlen; lia|].
    intros pre post c Horg Hpre Hlim.
    set (buf := pre ++ (pad ++ int_enc E 4 emh ++ body) ++ post).
    assert (Hbuf1 : buf = (pre ++ pad ++ int_enc E 4 emh) ++ body ++ post)
      by (unfold buf; now rewrite <- !app_assoc).
    assert (Hl1 : blen (pre ++ pad ++ int_enc E 4 emh) = s)
      by (rewrite !blen_app, !int_enc_blen; unfold s; lia).
    split.
    + replace (pos + (blen pad + 4)) with s by (unfold s; lia).
      replace (pos + (blen pad + 4 + blen body)) with (s + blen body) by (unfold s; lia).
      rewrite Hbuf1. apply Dv; [exact Horg|exact Hl1|unfold s; lia].
    + intros f pid Hpid. cbn [seek_to_pid2].
      assert (Hbuf0 : buf = pre ++ (pad ++ int_enc E 4 emh ++ (body ++ post)))
        by (unfold buf; now rewrite <- !app_assoc).
      rewrite Hbuf0 at 1. rewrite (Hdes_emh pre _ c Horg Hpre ltac:(unfold s; lia)). cbn [dbind].
      rewrite Hcur, Hlcd.
      assert (Hcases : (lc = 0 /\ blen body = 1) \/ (lc = 1 /\ blen body = 2) \/
                       (lc = 2 /\ blen body = 4) \/ (lc = 3 /\ blen body = 8)).
      { unfold lc in *.
        destruct (Z.eqb_spec (blen body) 1); [lia|].
        destruct (Z.eqb_spec (blen body) 2); [lia|].
        destruct (Z.eqb_spec (blen body) 4); [lia|].
        destruct (Z.eqb_spec (blen body) 8); [lia|]. congruence. }
      assert (Hgoal : forall lenv, lenv = blen body ->
        dbind (DOk lenv s) (fun len p2 =>
          if m_id m =? pid then DOk (wrap_u16 len) (if lc =? 5 then p2 - 4 else p2)
          else dbind (seek c p2 len) (fun _ p3 =>
               dbind (dec_align V2 c 4 p3) (fun _ p4 => seek_to_pid2 V2 E buf c f pid p4))) =
        (if m_id m =? pid
         then DOk (wrap_u16 (blen pad + 4 + blen body - (blen pad + 4))) (pos + (blen pad + 4))
         else dbind (dec_align V2 c 4 (pos + (blen pad + 4 + blen body)))
                    (fun _ p4 => seek_to_pid2 V2 E buf c f pid p4))).
      { intros lenv ->. cbn [dbind].
        replace (lc =? 5) with false by (symmetry; apply Z.eqb_neq; lia).
        replace (pos + (blen pad + 4)) with s by (unfold s; lia).
        replace (blen pad + 4 + blen body - (blen pad + 4)) with (blen body) by lia.
        destruct (m_id m =? pid); [reflexivity|].
        rewrite seek_ok by (unfold s; lia). cbn [dbind].
        replace (pos + (blen pad + 4 + blen body)) with (s + blen body) by (unfold s; lia).
        reflexivity. }
      rewrite len_sel by lia. apply Hgoal.
      destruct Hcases as [[Hl Hb]|[[Hl Hb]|[[Hl Hb]|[Hl Hb]]]]; rewrite Hl; lia.
Qed.

(* ------------------------------------------------------------ the whole parameter list *)
(* what the proof needs to know about the writer's members that carry a value *)
Definition whyp (E : endian) (ms : list (minfo * ty)) (d : dyn) : Prop :=
  nodup_z (ids ms) = true /\
  forall k v, lookup k d = Some v -> exists mt, In mt ms /\ m_id (fst mt) = k /\
    rt_ok u32_max (msz (snd mt)) (ser_ty V2 E (snd mt) v) (fun buf c => des_ty V2 E buf (snd mt) c) v /\
    shift4 (ser_ty V2 E (snd mt) v) /\ lc5_ty (snd mt) = false /\ 0 <= k < 268435456 /\
    (forall pos bs p, ser_ty V2 E (snd mt) v pos = Ok (bs, p) -> blen bs <= u32_max).

Lemma dec_align4_org0 : forall c x, c_org c = 0 ->
  dec_align V2 c 4 x = seek c x (padlen x 4).
Proof. intros c x H. unfold dec_align. rewrite H, Z.sub_0_r. reflexivity. Qed.

Lemma des_u32_end : forall E buf c pos, c_org c = 0 -> c_lim c mod 4 = 0 -> 0 <= pos -> c_lim c - pos < 4 ->
  exists p, des_prim V2 E buf c KU32 pos = DErr E_NED p.
Proof.
  intros E buf c pos Horg Hb Hpos Hlt. rewrite des_prim_unfold.
  change (sk_size KU32) with 4. rewrite dec_align4_org0 by assumption.
  pose proof (padlen_range pos 4 ltac:(lia)) as Hr. pose proof (padlen_aligned pos 4 ltac:(lia)) as Ha.
  destruct (seek_cases c pos (padlen pos 4)) as [-> | ->]; cbn [dbind]; [eauto|].
  unfold read_bytes. replace (pos + padlen pos 4 + 4 >? c_lim c) with true; [cbn [dbind]; eauto|].
  symmetry. rewrite Z.gtb_ltb. apply Z.ltb_lt. lia.
Qed.

Lemma des_u32_realign : forall E buf c x, c_org c = 0 -> 0 <= x -> x + padlen x 4 <= c_lim c ->
  des_prim V2 E buf c KU32 (x + padlen x 4) = des_prim V2 E buf c KU32 x.
Proof.
  intros E buf c x Horg Hx Hle. rewrite !des_prim_unfold.
  change (sk_size KU32) with 4. rewrite !dec_align4_org0 by assumption.
  pose proof (padlen_aligned x 4 ltac:(lia)) as Ha.
  rewrite (padlen_zero (x + padlen x 4) 4) by lia.
  unfold seek. rewrite !gtb_false by lia. rewrite Z.add_0_r. reflexivity.
Qed.

Lemma seek_realign : forall E buf c f pid x, c_org c = 0 -> 0 <= x -> x + padlen x 4 <= c_lim c ->
  seek_to_pid2 V2 E buf c (S f) pid (x + padlen x 4) = seek_to_pid2 V2 E buf c (S f) pid x.
Proof. intros. cbn [seek_to_pid2]. now rewrite des_u32_realign. Qed.

Lemma align_within : forall x B, 0 <= x <= B -> B mod 4 = 0 -> x + padlen x 4 <= B.
Proof.
  intros x B Hx HB. pose proof (padlen_range x 4 ltac:(lia)). pose proof (padlen_aligned x 4 ltac:(lia)). lia.
Qed.

Lemma seek_list : forall E ms d, whyp E ms d ->
  forall l pos, 0 <= pos -> (forall k, In k l -> lookup k d <> None) -> exists bs,
    ser_list (ser_mmember2 V2 E (cvS V2 E ms) d) l pos = Ok (bs, pos + blen bs) /\
    Z.of_nat (length l) <= blen bs /\
    forall pre post c, c_org c = 0 -> blen pre = pos -> c_lim c mod 4 = 0 ->
      pos + blen bs <= c_lim c -> c_lim c - (pos + blen bs) < 4 ->
    forall fuel pid, (length l < fuel)%nat -> 0 <= pid < 268435456 ->
      (In pid l -> exists w p mt v p', seek_to_pid2 V2 E (pre ++ bs ++ post) c fuel pid pos = DOk w p /\
                     In mt ms /\ m_id (fst mt) = pid /\ lookup pid d = Some v /\
                     des_ty V2 E (pre ++ bs ++ post) (snd mt) c p = DOk v p') /\
      (~ In pid l -> exists p, seek_to_pid2 V2 E (pre ++ bs ++ post) c fuel pid pos = DErr E_NED p).
Proof.
  intros E ms d [Hnd Hw] l. induction l as [|id r IH]; intros pos Hpos Hl.
  - exists []. split; [cbn [ser_list]; f_equal; f_equal; cbn; lia|]. split; [cbn; lia|].
    intros pre post c Horg Hpre Hmod Hle Hpost fuel pid Hfuel Hpid. cbn [app] in *.
    rewrite blen_nil in *.
    split; [intros []|]. intros _. destruct fuel as [|f]; [cbn in Hfuel; lia|].
    cbn [seek_to_pid2].
    destruct (des_u32_end E (pre ++ post) c pos Horg Hmod Hpos ltac:(lia)) as [p ->]. cbn [dbind]. eauto.
  - destruct (lookup id d) as [v|] eqn:Hv; [|exfalso; apply (Hl id); [now left|assumption]].
    destruct (Hw id v Hv) as [mt [Hin [Hid [Hrt [Hsh [Hlc5 [Hrange Hsz]]]]]]].
    rewrite <- Hid in Hv, Hrange.
    destruct (mm2_step E ms d mt v Hnd Hin Hv Hrt Hsh Hlc5 Hrange Hsz pos Hpos)
      as [b1 [off [E1 [Hoff [Hal D1]]]]].
    rewrite Hid in E1.
    pose proof (blen_nonneg b1).
    destruct (IH (pos + blen b1) ltac:(lia) ltac:(intros k Hk; apply Hl; now right)) as [b2 [E2 [Hlen2 D2]]].
    pose proof (blen_nonneg b2).
    exists (b1 ++ b2). split; [|split].
    + cbn [ser_list]. rewrite E1. cbn [bind]. rewrite E2. cbn [bind]. rewrite blen_app.
      f_equal. f_equal. lia.
    + rewrite blen_app. cbn [length]. lia.
    + rewrite blen_app. intros pre post c Horg Hpre Hmod Hle Hpost fuel pid Hfuel Hpid.
      destruct fuel as [|f]; [cbn in Hfuel; lia|]. cbn [length] in Hfuel.
      assert (Hb1 : pre ++ (b1 ++ b2) ++ post = pre ++ b1 ++ (b2 ++ post)) by now rewrite <- !app_assoc.
      assert (Hb2 : pre ++ (b1 ++ b2) ++ post = (pre ++ b1) ++ b2 ++ post) by now rewrite <- !app_assoc.
      destruct (D1 pre (b2 ++ post) c Horg Hpre ltac:(lia)) as [Dv Ds]. rewrite <- Hb1 in Dv, Ds.
      specialize (Ds f pid Hpid). rewrite Hid in Ds.
      set (buf := pre ++ (b1 ++ b2) ++ post) in *.
      destruct (Z.eqb_spec id pid) as [Heq | Hne].
      * (* found here *)
        split; [|intros Hn; exfalso; apply Hn; now left].
        intros _. assert (Hq : (id =? pid) = true) by (now apply Z.eqb_eq). rewrite ?Hq in Ds.
        subst pid. exists (wrap_u16 (blen b1 - off)), (pos + off), mt, v, (pos + blen b1).
        split; [exact Ds|]. split; [exact Hin|]. split; [exact Hid|].
        split; [rewrite <- Hid; exact Hv|exact Dv].
      * (* skip this parameter *)
        assert (Hq : (id =? pid) = false) by (now apply Z.eqb_neq). rewrite ?Hq in Ds.
        rewrite dec_align4_org0 in Ds by assumption.
        unfold seek in Ds at 1.
        rewrite gtb_false in Ds by (apply align_within; [lia|exact Hmod]).
        cbn [dbind] in Ds.
        destruct f as [|f']; [lia|].
        rewrite seek_realign in Ds by (first [assumption | lia | apply align_within; [lia|exact Hmod]]).
        specialize (D2 (pre ++ b1) post c Horg ltac:(rewrite blen_app; lia)).
        rewrite <- Hb2 in D2. fold buf in D2.
        specialize (D2 Hmod ltac:(lia) ltac:(lia) (S f') pid ltac:(lia) Hpid).
        rewrite Ds. destruct D2 as [D2a D2b]. split.
        -- intros [Hc | Hc]; [congruence|]. exact (D2a Hc).
        -- intros Hn. apply D2b. intros Hc. apply Hn. now right.
Qed.

(* ------------------------------------------------------------------ the structure *)
Lemma keys_lookup : forall {A} (d : list (Z * A)) k, In k (keys d) -> lookup k d <> None.
Proof.
  induction d as [|[k' v'] t IH]; intros k H; [destruct H|].
  cbn [keys map fst] in H. cbn [lookup]. destruct (Z.eqb_spec k k'); [discriminate|].
  destruct H as [H|H]; [congruence|]. now apply IH.
Qed.
Lemma lookup_not_key : forall {A} (d : list (Z * A)) k, ~ In k (keys d) -> lookup k d = None.
Proof.
  induction d as [|[k' v'] t IH]; intros k H; [reflexivity|].
  cbn [keys map fst] in H. cbn [lookup]. destruct (Z.eqb_spec k k') as [->|Hne].
  - exfalso. apply H. now left.
  - apply IH. intros Hc. apply H. now right.
Qed.

Theorem mstruct_decodes : forall E ms1 ms2 d,
  whyp E ms2 d ->
  (forall mt1 mt2, In mt1 ms1 -> In mt2 ms2 -> m_id (fst mt1) = m_id (fst mt2) -> snd mt1 = snd mt2) ->
  (forall mt1, In mt1 ms1 -> 0 <= m_id (fst mt1) < 268435456) ->
  forall pos, 0 <= pos -> exists bs,
    ser_mstruct V2 E (cvS V2 E ms2) d pos = Ok (bs, pos + blen bs) /\
    forall pre kz c, c_org c = 0 -> blen pre = pos -> 0 <= kz < 4 ->
      c_lim c = blen (pre ++ bs ++ zeros kz) -> c_lim c mod 4 = 0 ->
      exists p', des_mstruct V2 E (pre ++ bs ++ zeros kz) (cvD V2 E (pre ++ bs ++ zeros kz) ms1) c pos
                 = DOk (ins ms1 d []) p'.
Proof.
  intros E ms1 ms2 d HW Hty Hid1 pos Hpos.
  unfold ser_mstruct, ser_dheader. cbv zeta.
  set (pad := enc_align V2 4 pos).
  assert (Hpadlen : blen pad = padlen pos 4).
  { unfold pad, enc_align. cbn [maxalign]. change (Z.min 4 4) with 4.
    apply blen_zeros. pose proof (padlen_range pos 4 ltac:(lia)). lia. }
  pose proof (padlen_range pos 4 ltac:(lia)) as Hpr.
  pose proof (padlen_aligned pos 4 ltac:(lia)) as Hpa.
  set (s := pos + blen pad + 4).
  assert (Hs0 : 0 <= s) by (unfold s; lia).
  assert (Hs4 : s mod 4 = 0) by (unfold s; rewrite Hpadlen; lia).
  destruct (seek_list E ms2 d HW (keys d) s Hs0 (keys_lookup d)) as [bb [E1 [Hlen D1]]].
  pose proof (blen_nonneg bb) as Hbb.
  set (z := wrap_u32 (blen bb)).
  assert (Hz : 0 <= z <= u32_max) by (unfold z, wrap_u32, two32, u32_max; lia).
  destruct (rt_u32 V2 E 8 z Hz pos Hpos) as [hb [E2 [_ D2]]].
  assert (Hhb : hb = pad ++ int_enc E 4 z) by (unfold ser_prim, ret in E2; inversion E2; reflexivity).
  subst hb.
  exists (pad ++ int_enc E 4 z ++ bb). split.
  - rewrite E1. cbn [bind]. f_equal. f_equal. rewrite !blen_app, int_enc_blen. unfold s. lia.
  - intros pre kz c Horg Hpre Hkz Hclim Hmod.
    set (buf := pre ++ (pad ++ int_enc E 4 z ++ bb) ++ zeros kz) in *.
    assert (Hbuf0 : buf = pre ++ (pad ++ int_enc E 4 z) ++ (bb ++ zeros kz))
      by (unfold buf; now rewrite <- !app_assoc).
    assert (Hbuf1 : buf = (pre ++ pad ++ int_enc E 4 z) ++ bb ++ zeros kz)
      by (unfold buf; now rewrite <- !app_assoc).
    assert (Hl1 : blen (pre ++ pad ++ int_enc E 4 z) = s)
      by (rewrite !blen_app, int_enc_blen; unfold s; lia).
    assert (Hblen : blen buf = s + blen bb + kz).
    { rewrite Hbuf1, blen_app, Hl1, blen_app, blen_zeros by lia. lia. }
    assert (Hdh : des_prim V2 E buf c KU32 pos = DOk z s).
    { rewrite Hbuf0. rewrite blen_app, int_enc_blen in D2.
      specialize (D2 ltac:(lia) pre (bb ++ zeros kz) c ltac:(lia) ltac:(lia)).
      rewrite Horg in D2. cbn [Z.add] in D2. rewrite D2. f_equal. unfold s. lia. }
    unfold des_mstruct. rewrite Hdh. cbn [dbind].
    specialize (D1 (pre ++ pad ++ int_enc E 4 z) (zeros kz) c Horg Hl1 Hmod ltac:(lia) ltac:(lia)).
    rewrite <- Hbuf1 in D1.
    assert (Hfuel : (length (keys d) < fuel0 buf)%nat).
    { unfold fuel0. assert (Z.of_nat (length (keys d)) <= Z.of_nat (length buf)); [|lia].
      fold (blen buf). lia. }
    assert (Hmem : forall l acc, incl l ms1 ->
              des_members V2 E buf (cvD V2 E buf l) acc c s = DOk (ins l d acc) s).
    { induction l as [|mt1 r IH]; intros acc Hincl; [reflexivity|].
      cbn [cvD map des_members]. unfold des_mmember, des_mmember2. cbn [fst snd].
      rewrite dec_align4_org0 by assumption. rewrite (padlen_zero s 4) by lia.
      unfold seek at 1. rewrite gtb_false by lia. cbn [dbind]. rewrite Z.add_0_r.
      assert (Hin1 : In mt1 ms1) by (apply Hincl; now left).
      pose proof (Hid1 mt1 Hin1) as Hr1. rewrite land_id28 by lia.
      destruct (D1 (fuel0 buf) (m_id (fst mt1)) Hfuel Hr1) as [Dfound Dnot].
      assert (Hincl' : incl r ms1) by (intros x Hx; apply Hincl; now right).
      unfold ins. cbn [fold_left].
      destruct (in_dec Z.eq_dec (m_id (fst mt1)) (keys d)) as [Hk | Hk].
      - destruct (Dfound Hk) as [w [p [mt2 [v [p' [Hs [Hin2 [Hid2 [Hv Hd]]]]]]]]].
        rewrite Hs. unfold des_value. cbn [fst snd].
        rewrite (Hty mt1 mt2 Hin1 Hin2 ltac:(congruence)). rewrite Hd. cbn [dbind].
        rewrite Hv. change (map (fun mt0 : minfo * ty => (fst mt0, (snd mt0, des_ty V2 E buf (snd mt0)))) r)
          with (cvD V2 E buf r).
        exact (IH _ Hincl').
      - destruct (Dnot Hk) as [p Hs]. rewrite Hs.
        rewrite (lookup_not_key d _ Hk).
        change (map (fun mt0 : minfo * ty => (fst mt0, (snd mt0, des_ty V2 E buf (snd mt0)))) r)
          with (cvD V2 E buf r).
        exact (IH _ Hincl'). }
    exists s. apply Hmem. apply incl_refl.
Qed.
