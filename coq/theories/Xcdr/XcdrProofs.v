(* Round-trip proofs for the XCDR model (stages S1 and S2), the padding theorem and the
   machine-checked witnesses of the recorded defect classes. *)
From DustDDS Require Import Base.Machine Xcdr.XcdrBytes Xcdr.XcdrBytesProofs Xcdr.XcdrModel Xcdr.XcdrProps.
Open Scope Z_scope.
Ltac Zify.zify_post_hook ::= Z.div_mod_to_equations.

(* boolean hypotheses over Z into Prop *)
Ltac boolZ :=
  repeat match goal with
  | H : _ && _ = true |- _ => apply andb_prop in H; destruct H
  | H : _ || _ = false |- _ => apply orb_false_elim in H; destruct H
  | H : negb _ = true |- _ => apply negb_true_iff in H
  | H : negb _ = false |- _ => apply negb_false_iff in H
  | H : (_ <=? _) = true |- _ => apply Z.leb_le in H
  | H : (_ <? _) = true |- _ => apply Z.ltb_lt in H
  | H : (_ =? _) = true |- _ => apply Z.eqb_eq in H
  | H : (_ <=? _) = false |- _ => apply Z.leb_gt in H
  | H : (_ <? _) = false |- _ => apply Z.ltb_ge in H
  | H : (_ =? _) = false |- _ => apply Z.eqb_neq in H
  | H : (_ >? _) = false |- _ => rewrite Z.gtb_ltb in H; apply Z.ltb_ge in H
  | H : (_ >? _) = true |- _ => rewrite Z.gtb_ltb in H; apply Z.ltb_lt in H
  end.

(* --------------------------------------------------------------- the codec spec *)
(* rt_ok B m ser des a: at any writer position, ser appends some bytes bs and advances by |bs|,
   |bs| >= m, and -- if |bs| <= B -- des reads a back from any buffer that contains bs at the
   corresponding offset (reader origin c_org c, writer position = offset - origin), as long as
   bs lies within the effective buffer length c_lim c *)
Definition rt_ok {A} (B m : Z) (ser : Z -> res W) (des : list Z -> rctx -> Z -> dres A) (a : A) : Prop :=
  forall pos, 0 <= pos ->
  exists bs, ser pos = Ok (bs, pos + blen bs) /\ m <= blen bs /\
    (blen bs <= B ->
     forall pre post c, blen pre = c_org c + pos -> c_org c + pos + blen bs <= c_lim c ->
       des (pre ++ bs ++ post) c (c_org c + pos) = DOk a (c_org c + pos + blen bs)).

Lemma gtb_false : forall a b, a <= b -> (a >? b) = false.
Proof. intros. rewrite Z.gtb_ltb. apply Z.ltb_ge. lia. Qed.

Lemma read_mid : forall pre bs post c, blen pre + blen bs <= c_lim c ->
  read_bytes (pre ++ bs ++ post) c (blen pre) (blen bs) = DOk bs (blen pre + blen bs).
Proof.
  intros. unfold read_bytes. rewrite gtb_false by assumption.
  rewrite !to_nat_blen. f_equal.
  rewrite skipn_app, skipn_all, Nat.sub_diag. cbn [skipn app].
  rewrite firstn_app, firstn_all, Nat.sub_diag. cbn [firstn]. now rewrite app_nil_r.
Qed.

Lemma seek_ok : forall c p n, p + n <= c_lim c -> seek c p n = DOk tt (p + n).
Proof. intros. unfold seek. now rewrite gtb_false. Qed.

Lemma rt_bind : forall {A C} B m1 m2 f g (df : list Z -> rctx -> Z -> dres A)
    (dg : A -> list Z -> rctx -> Z -> dres C) a b,
  rt_ok B m1 f df a -> rt_ok B m2 g (dg a) b ->
  rt_ok B (m1 + m2) (seq2 f g) (fun buf c pos => dbind (df buf c pos) (fun x p => dg x buf c p)) b.
Proof.
  intros A C B m1 m2 f g df dg a b Hf Hg pos Hpos.
  destruct (Hf pos Hpos) as [b1 [E1 [M1 D1]]].
  pose proof (blen_nonneg b1).
  destruct (Hg (pos + blen b1) ltac:(lia)) as [b2 [E2 [M2 D2]]].
  pose proof (blen_nonneg b2).
  exists (b1 ++ b2). split; [|split].
  - unfold seq2. rewrite E1. cbn [bind]. rewrite E2. cbn [bind]. rewrite blen_app.
    f_equal. f_equal. lia.
  - rewrite blen_app. lia.
  - rewrite blen_app. intros HB pre post c Hpre Hlim.
    replace (pre ++ (b1 ++ b2) ++ post) with (pre ++ b1 ++ (b2 ++ post)) by now rewrite <- !app_assoc.
    rewrite (D1 ltac:(lia) pre (b2 ++ post) c Hpre ltac:(lia)). cbn [dbind].
    replace (pre ++ b1 ++ b2 ++ post) with ((pre ++ b1) ++ b2 ++ post) by now rewrite <- !app_assoc.
    replace (c_org c + pos + blen b1) with (c_org c + (pos + blen b1)) by lia.
    rewrite (D2 ltac:(lia) (pre ++ b1) post c) by (try rewrite blen_app; lia).
    f_equal. lia.
Qed.

Lemma rt_map : forall {A C} B m f (df : list Z -> rctx -> Z -> dres A) a (h : A -> C),
  rt_ok B m f df a ->
  rt_ok B m f (fun buf c pos => dbind (df buf c pos) (fun x p => DOk (h x) p)) (h a).
Proof.
  intros A C B m f df a h Hf pos Hpos. destruct (Hf pos Hpos) as [bs [E1 [M1 D1]]].
  exists bs. split; [assumption|]. split; [assumption|].
  intros HB pre post c Hpre Hlim. now rewrite (D1 HB pre post c Hpre Hlim).
Qed.

Lemma rt_ext : forall {A} B m f f' (df df' : list Z -> rctx -> Z -> dres A) a,
  (forall pos, f pos = f' pos) -> (forall buf c pos, df buf c pos = df' buf c pos) ->
  rt_ok B m f df a -> rt_ok B m f' df' a.
Proof.
  intros A B m f f' df df' a Hf Hd H pos Hpos. destruct (H pos Hpos) as [bs [E1 [M1 D1]]].
  exists bs. split; [now rewrite <- Hf|]. split; [assumption|].
  intros. rewrite <- Hd. now apply D1.
Qed.

Lemma rt_weaken : forall {A} B m m' f (df : list Z -> rctx -> Z -> dres A) a,
  m' <= m -> rt_ok B m f df a -> rt_ok B m' f df a.
Proof.
  intros A B m m' f df a Hm H pos Hpos. destruct (H pos Hpos) as [bs [E1 [M1 D1]]].
  exists bs. repeat split; try assumption. lia.
Qed.

(* the length-versus-bytes guard never fires on a complete encoding *)
Lemma rt_guard : forall {A} B m (g : bool) n f (df : list Z -> rctx -> Z -> dres A) a,
  (g = true -> n <= m) -> rt_ok B m f df a ->
  rt_ok B m f (fun buf c p => if g && too_long c n p then DErr E_NED p else df buf c p) a.
Proof.
  intros A B m g n f df a Hg H pos Hpos. destruct (H pos Hpos) as [bs [E1 [M1 D1]]].
  exists bs. repeat split; try assumption.
  intros HB pre post c Hpre Hlim.
  replace (g && too_long c n (c_org c + pos)) with false; [now apply D1|].
  symmetry. destruct g; [|reflexivity]. cbn [andb]. unfold too_long. apply gtb_false.
  specialize (Hg eq_refl). lia.
Qed.

(* raw bytes *)
Lemma rt_raw : forall B bs,
  rt_ok B (blen bs) (ret bs) (fun buf c pos => read_bytes buf c pos (blen bs)) bs.
Proof.
  intros B bs pos Hpos. exists bs. split; [reflexivity|]. split; [lia|].
  intros HB pre post c Hpre Hlim. rewrite <- Hpre. apply read_mid. lia.
Qed.

(* ------------------------------------------------------------------ primitives *)
Lemma align_compat : forall (V : ver) (a : Z),
  Z.min a (maxalign V) = match V with V1 => Z.min a 8 | V2 => Z.min a 4 end.
Proof. destruct V; reflexivity. Qed.

Lemma pow256_1 : pow256 1 = 256. Proof. reflexivity. Qed.
Lemma pow256_2 : pow256 2 = 65536. Proof. reflexivity. Qed.
Lemma pow256_4 : pow256 4 = 4294967296. Proof. reflexivity. Qed.
Lemma pow256_8 : pow256 8 = 18446744073709551616. Proof. reflexivity. Qed.
Lemma pow256_16 : pow256 16 = 340282366920938463463374607431768211456. Proof. reflexivity. Qed.

Definition prim_conv (E : endian) (k : sk) (bs : list Z) (p' : Z) : dres Z :=
  match k with
  | KBool => match bs with
             | [b] => if b =? 0 then DOk 0 p' else if b =? 1 then DOk 1 p' else DErr E_DATA p'
             | _ => DErr E_DATA p'
             end
  | _ => let u := int_dec E bs in
         DOk (if sk_signed k then to_signed (sk_bytes k) u else u) p'
  end.

Lemma prim_value : forall E k z p', in_range k z = true ->
  blen (prim_bytes E k z) = sk_size k /\ prim_conv E k (prim_bytes E k z) p' = DOk z p'.
Proof.
  intros E k z p' Hr.
  destruct k; unfold in_range in Hr; boolZ;
    unfold prim_bytes, prim_conv, sk_size, sk_bytes, sk_signed;
    try (split; [apply int_enc_blen|]; cbv zeta; f_equal;
         first [ apply int_dec_enc_unsigned; rewrite ?pow256_1, ?pow256_2, ?pow256_4, ?pow256_8; lia
               | apply int_dec_enc_signed;
                 rewrite ?pow256_1, ?pow256_2, ?pow256_4, ?pow256_8, ?pow256_16; lia ]).
  - (* KChar8 *)
    assert (Hm : z mod 256 = z) by (apply Z.mod_small; lia). rewrite Hm.
    split; [reflexivity|]. cbv zeta. destruct E; cbn [int_dec rev app le_dec]; f_equal; lia.
  - (* KBool *)
    split; [reflexivity|].
    destruct (Z.eqb_spec z 0) as [->|Hz]; [reflexivity|].
    assert (z = 1) by (apply orb_prop in Hr; destruct Hr; boolZ; lia). subst z. reflexivity.
Qed.

Lemma des_prim_unfold : forall V E buf c k pos,
  des_prim V E buf c k pos =
  dbind (dec_align V c (sk_size k) pos) (fun _ p =>
  dbind (read_bytes buf c p (sk_size k)) (fun bs p' => prim_conv E k bs p')).
Proof. intros. unfold des_prim, prim_conv. destruct k; reflexivity. Qed.

Lemma sk_size_pos : forall k, 0 < sk_size k.
Proof. destruct k; unfold sk_size, sk_bytes; lia. Qed.

Lemma rt_prim : forall V E B k z,
  in_range k z = true ->
  rt_ok B (sk_size k) (ser_prim V E k z) (fun buf c => des_prim V E buf c k) z.
Proof.
  intros V E B k z Hr pos Hpos. pose proof (align_compat V (sk_size k)) as Hal.
  assert (Hm : 0 < Z.min (sk_size k) (maxalign V)).
  { pose proof (sk_size_pos k). destruct V; unfold maxalign; lia. }
  pose proof (padlen_range pos _ Hm) as Hpad.
  destruct (prim_value E k z 0 Hr) as [Hlen _].
  exists (enc_align V (sk_size k) pos ++ prim_bytes E k z). split; [reflexivity|]. split.
  { rewrite blen_app, Hlen. unfold enc_align. rewrite blen_zeros; lia. }
  intros HB pre post c Hpre Hlim. rewrite des_prim_unfold.
  unfold dec_align. rewrite <- Hal.
  replace (c_org c + pos - c_org c) with pos by lia.
  unfold enc_align in *. set (pad := padlen pos (Z.min (sk_size k) (maxalign V))) in *.
  rewrite blen_app, blen_zeros, Hlen in Hlim by lia.
  rewrite seek_ok by lia. cbn [dbind].
  destruct (prim_value E k z (c_org c + pos + pad + sk_size k) Hr) as [_ Hconv].
  replace (pre ++ (zeros pad ++ prim_bytes E k z) ++ post)
    with ((pre ++ zeros pad) ++ prim_bytes E k z ++ post) by now rewrite <- !app_assoc.
  replace (c_org c + pos + pad) with (blen (pre ++ zeros pad)) by (rewrite blen_app, blen_zeros; lia).
  rewrite <- Hlen. rewrite read_mid by (rewrite blen_app, blen_zeros, Hlen; lia). cbn [dbind].
  rewrite !blen_app, blen_zeros by lia. rewrite Hlen.
  replace (blen pre + pad + sk_size k) with (c_org c + pos + pad + sk_size k) by lia.
  rewrite Hconv. f_equal. lia.
Qed.

(* ------------------------------------------------------------------ lists *)
Lemma rt_nil : forall {A} B (a : A), rt_ok B 0 (fun pos => Ok ([], pos)) (fun _ _ pos => DOk a pos) a.
Proof.
  intros A B a pos Hpos. exists []. split.
  - rewrite blen_nil. f_equal. f_equal. lia.
  - split; [rewrite blen_nil; lia|]. intros. rewrite blen_nil. f_equal. lia.
Qed.

Lemma rt_list : forall {A C} B m (f : A -> Z -> res W) (g : list Z -> rctx -> Z -> dres C) (h : A -> C) l,
  0 <= m -> (forall a, In a l -> rt_ok B m (f a) g (h a)) ->
  rt_ok B (m * Z.of_nat (length l)) (ser_list f l) (fun buf c => des_n (g buf c) (length l)) (map h l).
Proof.
  induction l as [|a l IH]; intros Hm Hall.
  - cbn [length Z.of_nat]. rewrite Z.mul_0_r. apply rt_nil.
  - cbn [ser_list length des_n map].
    replace (m * Z.of_nat (S (length l))) with (m + m * Z.of_nat (length l)) by lia.
    apply (rt_bind B m (m * Z.of_nat (length l)) (f a) (ser_list f l) g
             (fun x buf c pos => dbind (des_n (g buf c) (length l) pos) (fun l' p2 => DOk (x :: l') p2))
             (h a) (h a :: map h l)).
    + apply Hall. now left.
    + apply (rt_map B _ (ser_list f l) (fun buf c => des_n (g buf c) (length l)) (map h l) (cons (h a))).
      apply IH; [assumption|]. intros. apply Hall. now right.
Qed.

Lemma dbind_assoc : forall {A B C} (r : dres A) (f : A -> Z -> dres B) (g : B -> Z -> dres C),
  dbind (dbind r f) g = dbind r (fun a p => dbind (f a p) g).
Proof. intros. destruct r; reflexivity. Qed.

Lemma des_n_app : forall {A} (f : Z -> dres A) a b pos,
  des_n f (a + b) pos =
  dbind (des_n f a pos) (fun l1 p1 => dbind (des_n f b p1) (fun l2 p2 => DOk (l1 ++ l2) p2)).
Proof.
  induction a; intros.
  - cbn [Nat.add des_n dbind]. destruct (des_n f b pos); reflexivity.
  - cbn [Nat.add des_n]. destruct (f pos) as [x p|c p|s]; cbn [dbind]; try reflexivity.
    rewrite IHa. destruct (des_n f a p) as [l1 p1|c p1|s]; cbn [dbind]; try reflexivity.
    destruct (des_n f b p1); reflexivity.
Qed.

Lemma des_pos_nat : forall {A} (f : Z -> dres A) p pos,
  des_pos f p pos = des_n f (Pos.to_nat p) pos.
Proof.
  induction p; intros.
  - rewrite Pos2Nat.inj_xI. cbn [des_pos].
    replace (S (2 * Pos.to_nat p)) with (S (Pos.to_nat p + Pos.to_nat p)) by lia.
    cbn [des_n]. destruct (f pos) as [x p0|c p0|s]; cbn [dbind]; try reflexivity.
    rewrite des_n_app. rewrite IHp.
    destruct (des_n f (Pos.to_nat p) p0) as [l1 p1|c p1|s]; cbn [dbind]; try reflexivity.
    rewrite IHp.
    destruct (des_n f (Pos.to_nat p) p1); reflexivity.
  - rewrite Pos2Nat.inj_xO. cbn [des_pos].
    replace (2 * Pos.to_nat p)%nat with (Pos.to_nat p + Pos.to_nat p)%nat by lia.
    rewrite des_n_app. rewrite IHp.
    destruct (des_n f (Pos.to_nat p) pos) as [l1 p1|c p1|s]; cbn [dbind]; try reflexivity.
    rewrite IHp. reflexivity.
  - cbn [des_pos]. change (Pos.to_nat 1) with 1%nat. cbn [des_n].
    destruct (f pos); reflexivity.
Qed.

Lemma des_z_nat : forall {A} (f : Z -> dres A) n pos, des_z f (Z.of_nat n) pos = des_n f n pos.
Proof.
  intros. destruct n.
  - reflexivity.
  - unfold des_z. cbn [Z.of_nat].
    rewrite des_pos_nat, SuccNat2Pos.id_succ. reflexivity.
Qed.

Lemma map_id_eq : forall {A} (l : list A), map (fun x => x) l = l.
Proof. induction l; cbn; congruence. Qed.

Lemma rt_list_id : forall {A} B m (f : A -> Z -> res W) (g : list Z -> rctx -> Z -> dres A) l n,
  0 <= m -> n = Z.of_nat (length l) ->
  (forall a, In a l -> rt_ok B m (f a) g a) ->
  rt_ok B (m * n) (ser_list f l) (fun buf c => des_z (g buf c) n) l.
Proof.
  intros A B m f g l n Hm Hn Hall. subst n.
  pose proof (rt_list B m f g (fun x => x) l Hm Hall) as H. rewrite map_id_eq in H.
  eapply rt_ext; [reflexivity| |exact H]. intros. cbv beta. now rewrite des_z_nat.
Qed.

(* ------------------------------------------------------------------ u32 fields *)
Lemma rt_u32 : forall V E B z, 0 <= z <= u32_max ->
  rt_ok B 4 (ser_prim V E KU32 z) (fun buf c => des_prim V E buf c KU32) z.
Proof.
  intros. apply (rt_prim V E B KU32).
  unfold in_range, u32_max in *. apply andb_true_intro. split; [apply Z.leb_le|apply Z.ltb_lt]; lia.
Qed.

(* ------------------------------------------------------------------ strings *)
Lemma rt_string : forall V E B s, str_ok s = true ->
  rt_ok B 1 (ser_string V E s) (fun buf c => des_string V E buf c) s.
Proof.
  intros V E B s Hs. unfold str_ok in Hs. boolZ.
  unfold ser_string, des_string. cbv zeta.
  pose proof (blen_nonneg (utf8_enc s)) as Hnn.
  assert (Hw : wrap_u32 (blen (utf8_enc s)) = blen (utf8_enc s)).
  { unfold wrap_u32, two32. apply Z.mod_small. unfold u32_max in *. lia. }
  rewrite Hw.
  apply (rt_weaken B (4 + 1)); [lia|].
  apply (rt_bind B 4 1 _ _ (fun buf c => des_prim V E buf c KU32)
           (fun len buf c p1 =>
              dbind (read_bytes buf c p1 (Z.max 0 (len - 1))) (fun bs p2 =>
              dbind (read_bytes buf c p2 1) (fun _ p3 =>
              match utf8_dec bs with Some s => DOk s p3 | None => DErr E_DATA p3 end)))
           (blen (utf8_enc s) + 1) s).
  - apply rt_u32. lia.
  - intros pos Hpos. exists (utf8_enc s ++ [0]). split; [reflexivity|].
    split; [rewrite blen_app, blen_cons, blen_nil; lia|].
    intros HB pre post c Hpre Hlim. rewrite blen_app, blen_cons, blen_nil in Hlim.
    replace (Z.max 0 (blen (utf8_enc s) + 1 - 1)) with (blen (utf8_enc s)) by lia.
    replace (pre ++ (utf8_enc s ++ [0]) ++ post) with (pre ++ utf8_enc s ++ ([0] ++ post))
      by now rewrite <- !app_assoc.
    rewrite <- Hpre. rewrite read_mid by lia. cbn [dbind].
    replace (pre ++ utf8_enc s ++ [0] ++ post) with ((pre ++ utf8_enc s) ++ [0] ++ post)
      by now rewrite <- !app_assoc.
    replace (blen pre + blen (utf8_enc s)) with (blen (pre ++ utf8_enc s)) by now rewrite blen_app.
    change 1 with (blen [0]) at 1. rewrite read_mid by (rewrite blen_app, blen_cons, blen_nil; lia).
    cbn [dbind]. rewrite utf8_dec_enc by assumption. rewrite !blen_app. f_equal. lia.
Qed.

Lemma rt_wstring : forall V E B s, str_ok s = true ->
  rt_ok B 1 (ser_wstring V E s) (fun buf c => des_wstring V E buf c) s.
Proof.
  intros V E B s Hs. unfold str_ok in Hs. boolZ.
  unfold ser_wstring, des_wstring. cbv zeta.
  pose proof (blen_nonneg (utf16_enc s)) as Hnn.
  assert (Hw : wrap_u32 (blen (utf16_enc s)) = blen (utf16_enc s)).
  { unfold wrap_u32, two32. apply Z.mod_small. unfold u32_max in *. lia. }
  rewrite Hw. set (n := blen (utf16_enc s)) in *.
  apply (rt_weaken B (4 + (2 * n + 2))); [lia|].
  apply (rt_bind B 4 (2 * n + 2) _ _ (fun buf c => des_prim V E buf c KU32)
           (fun len buf c p1 =>
              if len =? 0 then DOk [] p1 else
              if too_long c (len - 1) p1 then DErr E_NED p1 else
              dbind (des_z (des_prim V E buf c KU16) (len - 1) p1) (fun us p2 =>
              dbind (des_prim V E buf c KU16 p2) (fun nul p3 =>
              if negb (nul =? 0) then DErr E_DATA p3 else
              match utf16_dec us with Some s => DOk s p3 | None => DErr E_DATA p3 end)))
           (n + 1) s).
  - apply rt_u32. lia.
  - replace (n + 1 =? 0) with false by (symmetry; apply Z.eqb_neq; lia).
    replace (n + 1 - 1) with n by lia.
    assert (Hin : rt_ok B (2 * n + 2)
              (seq2 (ser_list (ser_prim V E KU16) (utf16_enc s)) (ser_prim V E KU16 0))
              (fun buf c p1 =>
                 dbind (des_z (des_prim V E buf c KU16) n p1) (fun us p2 =>
                 dbind (des_prim V E buf c KU16 p2) (fun nul p3 =>
                 if negb (nul =? 0) then DErr E_DATA p3 else
                 match utf16_dec us with Some s => DOk s p3 | None => DErr E_DATA p3 end))) s).
    { apply (rt_bind B (2 * n) 2 _ _ (fun buf c => des_z (des_prim V E buf c KU16) n)
               (fun us buf c p2 =>
                  dbind (des_prim V E buf c KU16 p2) (fun nul p3 =>
                  if negb (nul =? 0) then DErr E_DATA p3 else
                  match utf16_dec us with Some s => DOk s p3 | None => DErr E_DATA p3 end))
               (utf16_enc s) s).
      + apply (rt_list_id B 2); [lia|unfold n, blen; lia|].
        intros u Hu. apply (rt_prim V E B KU16).
        pose proof (utf16_units_range s H) as Hf. rewrite Forall_forall in Hf. specialize (Hf u Hu).
        unfold in_range. apply andb_true_intro. split; [apply Z.leb_le|apply Z.ltb_lt]; lia.
      + intros pos Hpos.
        destruct (rt_prim V E B KU16 0 eq_refl pos Hpos) as [bs [E1 [M1 D1]]].
        exists bs. split; [exact E1|]. split; [exact M1|]. intros HB pre post c Hpre Hlim.
        rewrite (D1 HB pre post c Hpre Hlim). cbn [dbind]. change (negb (0 =? 0)) with false. cbv iota.
        rewrite utf16_dec_enc by assumption. reflexivity. }
    pose proof (rt_guard B (2 * n + 2) true n _ _ s ltac:(intros; lia) Hin) as Hg.
    cbn [andb] in Hg. exact Hg.
Qed.

(* ------------------------------------------------------------------ DHEADER *)
Lemma ser_dheader_shape : forall {A} V E B m body (dbody : list Z -> rctx -> Z -> dres A) a pos,
  0 <= pos -> rt_ok B m body dbody a ->
  exists bb, let pad := enc_align V 4 pos in let z := wrap_u32 (blen bb) in
    body (pos + blen pad + 4) = Ok (bb, pos + blen pad + 4 + blen bb) /\ m <= blen bb /\
    ser_dheader V E body pos = Ok (pad ++ int_enc E 4 z ++ bb, pos + blen (pad ++ int_enc E 4 z ++ bb)) /\
    ser_prim V E KU32 z pos = Ok (pad ++ int_enc E 4 z, pos + blen (pad ++ int_enc E 4 z)) /\
    (blen bb <= B -> forall pre post c, blen pre = c_org c + (pos + blen pad + 4) ->
       c_org c + (pos + blen pad + 4) + blen bb <= c_lim c ->
       dbody (pre ++ bb ++ post) c (c_org c + (pos + blen pad + 4)) =
       DOk a (c_org c + (pos + blen pad + 4) + blen bb)).
Proof.
  intros A V E B m body dbody a pos Hpos Hb. cbv zeta.
  assert (Hp1 : 0 <= pos + blen (enc_align V 4 pos) + 4) by (pose proof (blen_nonneg (enc_align V 4 pos)); lia).
  destruct (Hb _ Hp1) as [bb [E1 [M1 D1]]].
  exists bb. repeat split; try assumption.
  - unfold ser_dheader. cbv zeta. rewrite E1. cbn [bind]. f_equal. f_equal.
    rewrite !blen_app, int_enc_blen. lia.
Qed.

Lemma rt_dheader : forall {A} V E B m body (dbody : list Z -> rctx -> Z -> dres A) a,
  rt_ok B m body dbody a ->
  rt_ok B (4 + m) (ser_dheader V E body)
        (fun buf c pos => dbind (des_prim V E buf c KU32 pos) (fun _ p => dbody buf c p)) a.
Proof.
  intros A V E B m body dbody a Hb pos Hpos.
  destruct (ser_dheader_shape V E B m body dbody a pos Hpos Hb) as [bb [E1 [M1 [E2 [E3 D1]]]]].
  cbv zeta in *. set (pad := enc_align V 4 pos) in *. set (z := wrap_u32 (blen bb)) in *.
  assert (Hz : 0 <= z <= u32_max) by (unfold z, wrap_u32, two32, u32_max; lia).
  destruct (rt_u32 V E B z Hz pos Hpos) as [hb [E4 [M4 D4]]].
  rewrite E3 in E4. assert (Hhb : hb = pad ++ int_enc E 4 z) by (injection E4; intros; congruence).
  clear E4. subst hb.
  exists (pad ++ int_enc E 4 z ++ bb). split; [exact E2|].
  pose proof (blen_nonneg pad). pose proof (blen_nonneg bb).
  split; [rewrite !blen_app, int_enc_blen; lia|].
  rewrite !blen_app, int_enc_blen. intros HB pre post c Hpre Hlim.
  replace (pre ++ (pad ++ int_enc E 4 z ++ bb) ++ post)
    with (pre ++ (pad ++ int_enc E 4 z) ++ (bb ++ post)) by now rewrite <- !app_assoc.
  rewrite (D4 ltac:(rewrite blen_app, int_enc_blen; lia) pre (bb ++ post) c Hpre
              ltac:(rewrite blen_app, int_enc_blen; lia)). cbn [dbind].
  replace (pre ++ (pad ++ int_enc E 4 z) ++ bb ++ post)
    with ((pre ++ pad ++ int_enc E 4 z) ++ bb ++ post) by now rewrite <- !app_assoc.
  rewrite blen_app, int_enc_blen.
  replace (c_org c + pos + (blen pad + Z.of_nat 4)) with (c_org c + (pos + blen pad + 4)) by lia.
  rewrite (D1 ltac:(lia) (pre ++ pad ++ int_enc E 4 z) post c)
    by (rewrite ?blen_app, ?int_enc_blen; lia).
  f_equal. lia.
Qed.

(* Rule (30) reader side: the DHEADER value is the limit of the object *)
Lemma rt_appendable2 : forall V E B m body (dbody : list Z -> rctx -> Z -> dres dyn) a,
  B <= u32_max -> rt_ok B m body dbody a ->
  rt_ok B (4 + m) (ser_dheader V E body)
        (fun buf c pos =>
           dbind (des_prim V E buf c KU32 pos) (fun dh p =>
           let e := p + dh in
           if e >? c_lim c then DErr E_NED p else
           match dbody buf (mkC (c_org c) e) p with
           | DOk d _ => DOk d e | DErr code p' => DErr code p' | DPanic s => DPanic s
           end)) a.
Proof.
  intros V E B m body dbody a HBu Hb pos Hpos.
  destruct (ser_dheader_shape V E B m body dbody a pos Hpos Hb) as [bb [E1 [M1 [E2 [E3 D1]]]]].
  cbv zeta in *. set (pad := enc_align V 4 pos) in *. set (z := wrap_u32 (blen bb)) in *.
  assert (Hz : 0 <= z <= u32_max) by (unfold z, wrap_u32, two32, u32_max; lia).
  destruct (rt_u32 V E B z Hz pos Hpos) as [hb [E4 [M4 D4]]].
  rewrite E3 in E4. assert (Hhb : hb = pad ++ int_enc E 4 z) by (injection E4; intros; congruence).
  clear E4. subst hb.
  exists (pad ++ int_enc E 4 z ++ bb). split; [exact E2|].
  pose proof (blen_nonneg pad). pose proof (blen_nonneg bb).
  split; [rewrite !blen_app, int_enc_blen; lia|].
  rewrite !blen_app, int_enc_blen. intros HB pre post c Hpre Hlim.
  assert (Hzb : z = blen bb).
  { unfold z, wrap_u32, two32. apply Z.mod_small. unfold u32_max in *. lia. }
  replace (pre ++ (pad ++ int_enc E 4 z ++ bb) ++ post)
    with (pre ++ (pad ++ int_enc E 4 z) ++ (bb ++ post)) by now rewrite <- !app_assoc.
  rewrite (D4 ltac:(rewrite blen_app, int_enc_blen; lia) pre (bb ++ post) c Hpre
              ltac:(rewrite blen_app, int_enc_blen; lia)). cbn [dbind]. cbv zeta.
  rewrite blen_app, int_enc_blen.
  replace (c_org c + pos + (blen pad + Z.of_nat 4) + z)
    with (c_org c + (pos + blen pad + 4) + blen bb) by lia.
  rewrite gtb_false by lia.
  replace (pre ++ (pad ++ int_enc E 4 z) ++ bb ++ post)
    with ((pre ++ pad ++ int_enc E 4 z) ++ bb ++ post) by now rewrite <- !app_assoc.
  replace (c_org c + pos + (blen pad + Z.of_nat 4)) with (c_org c + (pos + blen pad + 4)) by lia.
  pose proof (D1 ltac:(lia) (pre ++ pad ++ int_enc E 4 z) post
                 (mkC (c_org c) (c_org c + (pos + blen pad + 4) + blen bb))) as D1'.
  cbn [c_org c_lim] in D1'.
  rewrite D1' by (rewrite ?blen_app, ?int_enc_blen; lia).
  f_equal. lia.
Qed.

(* ------------------------------------------------------------------ induction on types *)
Section TyInd.
Variable P : ty -> Prop.
Hypothesis Hprim : forall p, P (TPrim p).
Hypothesis Hstr : P TStr.
Hypothesis Hwstr : P TWStr.
Hypothesis Henum : forall h ls, P (TEnum h ls).
Hypothesis Hseq : forall e, P e -> P (TSeq e).
Hypothesis Harr : forall n e, P e -> P (TArr n e).
Hypothesis Hstruct : forall x ms, Forall (fun mt => P (snd mt)) ms -> P (TStruct x ms).
Hypothesis Hunion : forall x d cs, P d -> Forall (fun mt => P (snd mt)) cs -> P (TUnion x d cs).
Fixpoint ty_ind' (t : ty) : P t :=
  match t with
  | TPrim p => Hprim p
  | TStr => Hstr
  | TWStr => Hwstr
  | TEnum h ls => Henum h ls
  | TSeq e => Hseq e (ty_ind' e)
  | TArr n e => Harr n e (ty_ind' e)
  | TStruct x ms =>
    Hstruct x ms
      ((fix go (ms : list (minfo * ty)) : Forall (fun mt => P (snd mt)) ms :=
          match ms with
          | [] => Forall_nil _
          | mt :: r => Forall_cons mt (ty_ind' (snd mt)) (go r)
          end) ms)
  | TUnion x d cs =>
    Hunion x d cs (ty_ind' d)
      ((fix go (ms : list (minfo * ty)) : Forall (fun mt => P (snd mt)) ms :=
          match ms with
          | [] => Forall_nil _
          | mt :: r => Forall_cons mt (ty_ind' (snd mt)) (go r)
          end) cs)
  end.
End TyInd.

Definition cvS (V : ver) (E : endian) (ms : list (minfo * ty)) : MF :=
  map (fun mt => (fst mt, (snd mt, ser_ty V E (snd mt)))) ms.
Definition cvD (V : ver) (E : endian) (buf : list Z) (ms : list (minfo * ty)) : MG :=
  map (fun mt => (fst mt, (snd mt, des_ty V E buf (snd mt)))) ms.

Lemma ser_ty_struct : forall V E x ms,
  ser_ty V E (TStruct x ms) = on_data (ser_struct_nested V E x (cvS V E ms)).
Proof.
  intros. cbn [ser_ty]. f_equal. f_equal.
  induction ms as [|[m t] r IH]; [reflexivity|]. cbn [cvS map fst snd]. f_equal. exact IH.
Qed.
Lemma des_ty_struct : forall V E buf x ms c pos,
  des_ty V E buf (TStruct x ms) c pos = as_data (des_struct_nested V E buf x (cvD V E buf ms) c pos).
Proof.
  intros. cbn [des_ty]. f_equal. f_equal.
  induction ms as [|[m t] r IH]; [reflexivity|]. cbn [cvD map fst snd]. f_equal. exact IH.
Qed.

Lemma sk_eqb_eq : forall a b, sk_eqb a b = true -> a = b.
Proof. destruct a, b; cbn; congruence. Qed.
Lemma sk_eqb_refl : forall a, sk_eqb a a = true.
Proof. destruct a; reflexivity. Qed.

(* ------------------------------------------------------------------ enumerations *)
Lemma rt_enum : forall V E B h ls d,
  holder_ok h = true -> wt (TEnum h ls) (VData d) = true ->
  rt_ok B 1 (ser_enum V E h d) (fun buf c => des_enum V E buf c h ls) d.
Proof.
  intros V E B h ls d Hh Hw. cbn [wt] in Hw.
  destruct d as [|[k0 v0] r]; [discriminate|].
  destruct k0; try discriminate.
  destruct v0 as [k z| | | | |]; try discriminate.
  destruct r; [|discriminate].
  apply andb_prop in Hw as [Hw Hl]. apply andb_prop in Hw as [Hk Hr].
  apply sk_eqb_eq in Hk. subst k.
  pose proof (rt_prim V E B (prim_sk h) z Hr) as Hp.
  intros pos Hpos. destruct (Hp pos Hpos) as [bs [E1 [M1 D1]]].
  exists bs. split; [|split].
  - destruct h; try discriminate; cbn [ser_enum get_k lookup Z.eqb sk_eqb bind prim_sk] in *; exact E1.
  - pose proof (sk_size_pos (prim_sk h)). lia.
  - intros HB pre post c Hpre Hlim. unfold des_enum.
    replace (match h with PI8 => Some KI8 | PI16 => Some KI16 | PI32 => Some KI32 | _ => None end)
      with (Some (prim_sk h)) by (destruct h; try discriminate; reflexivity).
    rewrite (D1 HB pre post c Hpre Hlim). cbn [dbind]. unfold mem in Hl. rewrite Hl. reflexivity.
Qed.

(* ------------------------------------------------------------------ DynamicData maps *)
Lemma lookup_insert_same : forall {A} k (v : A) d, lookup k (insert k v d) = Some v.
Proof.
  induction d as [|[k' v'] t IH]; cbn [insert lookup].
  - now rewrite Z.eqb_refl.
  - destruct (Z.ltb_spec k k'); cbn [lookup]; [now rewrite Z.eqb_refl|].
    destruct (Z.eqb_spec k k'); cbn [lookup]; [now rewrite Z.eqb_refl|].
    destruct (Z.eqb_spec k k'); [contradiction|]. exact IH.
Qed.
Lemma lookup_insert_other : forall {A} k k' (v : A) d, k <> k' -> lookup k (insert k' v d) = lookup k d.
Proof.
  induction d as [|[k2 v2] t IH]; intros Hne; cbn [insert lookup].
  - destruct (Z.eqb_spec k k'); [contradiction|reflexivity].
  - destruct (Z.ltb_spec k' k2); cbn [lookup].
    + destruct (Z.eqb_spec k k'); [contradiction|reflexivity].
    + destruct (Z.eqb_spec k' k2); cbn [lookup].
      * subst k2. destruct (Z.eqb_spec k k'); [contradiction|reflexivity].
      * destruct (Z.eqb_spec k k2); [reflexivity|]. now apply IH.
Qed.

Lemma sorted_from_weaken : forall l lo lo', lo' <= lo -> sorted_from lo l = true -> sorted_from lo' l = true.
Proof.
  destruct l as [|k r]; intros lo lo' Hle H; [reflexivity|].
  cbn [sorted_from] in *. boolZ. apply andb_true_intro. split; [apply Z.ltb_lt; lia|assumption].
Qed.
Lemma insert_sorted_from : forall {A} (d : list (Z * A)) lo k v,
  sorted_from lo (keys d) = true -> lo < k -> sorted_from lo (keys (insert k v d)) = true.
Proof.
  induction d as [|[k' v'] t IH]; intros lo k v H Hlt.
  - cbn. apply andb_true_intro. split; [apply Z.ltb_lt; lia|reflexivity].
  - cbn [keys map fst sorted_from] in H. apply andb_prop in H as [H1 H2]. apply Z.ltb_lt in H1.
    cbn [insert]. destruct (Z.ltb_spec k k').
    + cbn [keys map fst sorted_from]. rewrite H2.
      repeat (apply andb_true_intro; split); try apply Z.ltb_lt; try lia; reflexivity.
    + destruct (Z.eqb_spec k k').
      * subst k'. cbn [keys map fst sorted_from]. apply andb_true_intro. split; [apply Z.ltb_lt; lia|exact H2].
      * cbn [keys map fst sorted_from]. apply andb_true_intro. split; [apply Z.ltb_lt; lia|].
        apply IH; [exact H2|lia].
Qed.
Lemma sorted_keys_from : forall {A} (d : list (Z * A)),
  sorted_keys d = true <-> exists lo, sorted_from lo (keys d) = true.
Proof.
  intros A d. unfold sorted_keys. destruct (keys d) as [|k r] eqn:Hk.
  - split; [exists 0; reflexivity|reflexivity].
  - split.
    + intros H. exists (k - 1). cbn [sorted_from]. rewrite H.
      apply andb_true_intro. split; [apply Z.ltb_lt; lia|reflexivity].
    + intros [lo H]. cbn [sorted_from] in H. now apply andb_prop in H as [_ H].
Qed.
Lemma insert_sorted : forall {A} (d : list (Z * A)) k v,
  sorted_keys d = true -> sorted_keys (insert k v d) = true.
Proof.
  intros A d k v H. apply sorted_keys_from in H as [lo H]. apply sorted_keys_from.
  exists (Z.min lo (k - 1)). apply insert_sorted_from; [|lia].
  eapply sorted_from_weaken; [|exact H]. lia.
Qed.

Lemma lookup_below : forall {A} (d : list (Z * A)) lo k,
  sorted_from lo (keys d) = true -> k <= lo -> lookup k d = None.
Proof.
  induction d as [|[k' v'] t IH]; intros lo k H Hle; [reflexivity|].
  cbn [keys map fst sorted_from] in H. apply andb_prop in H as [H1 H2]. apply Z.ltb_lt in H1.
  cbn [lookup]. destruct (Z.eqb_spec k k'); [lia|]. apply (IH k'); [exact H2|lia].
Qed.

Lemma sorted_ext : forall {A} (d1 d2 : list (Z * A)) lo,
  sorted_from lo (keys d1) = true -> sorted_from lo (keys d2) = true ->
  (forall k, lookup k d1 = lookup k d2) -> d1 = d2.
Proof.
  induction d1 as [|[k1 v1] r1 IH]; intros d2 lo H1 H2 Hl.
  - destruct d2 as [|[k2 v2] r2]; [reflexivity|].
    specialize (Hl k2). cbn [lookup] in Hl. rewrite Z.eqb_refl in Hl. discriminate.
  - destruct d2 as [|[k2 v2] r2].
    + specialize (Hl k1). cbn [lookup] in Hl. rewrite Z.eqb_refl in Hl. discriminate.
    + cbn [keys map fst sorted_from] in H1, H2.
      apply andb_prop in H1 as [H1a H1b]. apply andb_prop in H2 as [H2a H2b].
      apply Z.ltb_lt in H1a. apply Z.ltb_lt in H2a.
      destruct (Z.lt_trichotomy k1 k2) as [Hlt|[Heq|Hgt]].
      * specialize (Hl k1). cbn [lookup] in Hl. rewrite Z.eqb_refl in Hl.
        destruct (Z.eqb_spec k1 k2); [lia|].
        rewrite (lookup_below r2 k2 k1 H2b) in Hl by lia. discriminate.
      * subst k2. pose proof (Hl k1) as Hk. cbn [lookup] in Hk. rewrite Z.eqb_refl in Hk.
        inversion Hk. subst v2. f_equal.
        apply (IH r2 k1 H1b H2b). intros k.
        destruct (Z.eq_dec k k1) as [->|Hne].
        -- rewrite (lookup_below r1 k1 k1 H1b), (lookup_below r2 k1 k1 H2b) by lia. reflexivity.
        -- specialize (Hl k). cbn [lookup] in Hl. destruct (Z.eqb_spec k k1); [contradiction|exact Hl].
      * specialize (Hl k2). cbn [lookup] in Hl. rewrite Z.eqb_refl in Hl.
        destruct (Z.eqb_spec k2 k1); [lia|].
        rewrite (lookup_below r1 k1 k2 H1b) in Hl by lia. discriminate.
Qed.

(* what the reader has stored after the members ms of a structure whose value is d *)
Definition ins (ms : list (minfo * ty)) (d acc : dyn) : dyn :=
  fold_left (fun a mt => match lookup (m_id (fst mt)) d with
                         | Some v => insert (m_id (fst mt)) v a
                         | None => a
                         end) ms acc.

Lemma mem_true_iff : forall k l, mem k l = true <-> In k l.
Proof.
  intros. unfold mem. rewrite existsb_exists. split.
  - intros [x [Hin He]]. apply Z.eqb_eq in He. now subst.
  - intros. exists k. split; [assumption|apply Z.eqb_refl].
Qed.

Lemma ins_lookup : forall ms d acc k,
  lookup k (ins ms d acc) =
  if mem k (ids ms) then (match lookup k d with Some v => Some v | None => lookup k acc end)
  else lookup k acc.
Proof.
  induction ms as [|[m t] r IH]; intros d acc k; [reflexivity|].
  unfold ins in *. cbn [fold_left fst]. rewrite IH. cbn [ids map fst mem existsb].
  fold (ids r). fold (mem k (ids r)).
  destruct (Z.eqb_spec k (m_id m)) as [->|Hne]; cbn [orb].
  - destruct (lookup (m_id m) d) as [v|] eqn:Hv.
    + rewrite lookup_insert_same. now destruct (mem (m_id m) (ids r)).
    + now destruct (mem (m_id m) (ids r)).
  - destruct (lookup (m_id m) d) as [v|] eqn:Hv; [|reflexivity].
    rewrite lookup_insert_other by assumption. reflexivity.
Qed.

Lemma ins_sorted : forall ms d acc, sorted_keys acc = true -> sorted_keys (ins ms d acc) = true.
Proof.
  induction ms as [|[m t] r IH]; intros d acc H; [exact H|].
  unfold ins in *. cbn [fold_left fst]. apply IH.
  destruct (lookup (m_id m) d); [now apply insert_sorted|exact H].
Qed.

Lemma lookup_in_keys : forall {A} k (d : list (Z * A)) v, lookup k d = Some v -> In k (keys d).
Proof.
  induction d as [|[k' v'] t IH]; intros v H; [discriminate|].
  cbn [lookup] in H. cbn [keys map fst]. destruct (Z.eqb_spec k k'); [left; congruence|right; eauto].
Qed.

Lemma ins_eq : forall ms d,
  sorted_keys d = true -> forallb (fun k => mem k (ids ms)) (keys d) = true -> ins ms d [] = d.
Proof.
  intros ms d Hs Hk.
  pose proof (ins_sorted ms d [] eq_refl) as Hs'.
  apply sorted_keys_from in Hs as [lo1 H1]. apply sorted_keys_from in Hs' as [lo2 H2].
  apply (sorted_ext _ _ (Z.min lo1 lo2)).
  - eapply sorted_from_weaken; [|exact H2]. lia.
  - eapply sorted_from_weaken; [|exact H1]. lia.
  - intros k. rewrite ins_lookup. cbn [lookup].
    destruct (lookup k d) as [v|] eqn:Hv.
    + apply lookup_in_keys in Hv. rewrite forallb_forall in Hk. rewrite (Hk k Hv). reflexivity.
    + now destruct (mem k (ids ms)).
Qed.

(* ------------------------------------------------------------------ structure members *)
Lemma in_ids : forall {X} (mt : minfo * X) ms, In mt ms -> mem (m_id (fst mt)) (ids ms) = true.
Proof.
  intros. apply mem_true_iff. unfold ids. apply in_map_iff. exists mt. split; [reflexivity|assumption].
Qed.

Lemma find_cvS : forall V E ms mt, nodup_z (ids ms) = true -> In mt ms ->
  find_m (m_id (fst mt)) (cvS V E ms) = Some (fst mt, (snd mt, ser_ty V E (snd mt))).
Proof.
  induction ms as [|[m t] r IH]; intros mt Hnd Hin; [contradiction|].
  cbn [ids map fst nodup_z] in Hnd. apply andb_prop in Hnd as [Hn1 Hn2].
  cbn [cvS map find_m fst snd]. destruct Hin as [<-|Hin].
  - cbn [fst snd]. now rewrite Z.eqb_refl.
  - destruct (Z.eqb_spec (m_id m) (m_id (fst mt))) as [He|Hne].
    + exfalso. apply negb_true_iff in Hn1. rewrite He in Hn1.
      fold (ids r) in Hn1. now rewrite (in_ids mt r Hin) in Hn1.
    + apply IH; assumption.
Qed.


(* lower bounds on the encoded size *)
Definition msz (t : ty) : Z := if occupies t then 1 else 0.
Definition mlow (mt : minfo * ty) : Z := if m_opt (fst mt) || occupies (snd mt) then 1 else 0.
Definition slow (ms : list (minfo * ty)) : Z :=
  if existsb (fun mt : minfo * ty => m_opt (fst mt) || occupies (snd mt)) ms then 1 else 0.

Lemma occupies_struct : forall x ms,
  occupies (TStruct x ms) = existsb (fun mt : minfo * ty => m_opt (fst mt) || occupies (snd mt)) ms.
Proof.
  intros. cbn [occupies]. induction ms as [|[m t] r IH]; [reflexivity|].
  cbn [existsb fst snd]. now rewrite IH.
Qed.

Definition mem_hyp (V : ver) (E : endian) (B : Z) (ms : list (minfo * ty)) (d : dyn) : Prop :=
  nodup_z (ids ms) = true /\
  (V = V1 -> existsb (fun mx : minfo * ty => m_opt (fst mx)) ms = true -> B <= 65535) /\
  Forall (fun mt : minfo * ty =>
            m_opt (fst mt) = true ->
            occupies (snd mt) = true /\
            (V = V1 -> m_mu (fst mt) && (49152 <=? wrap_u16 (m_id (fst mt))) = false)) ms /\
  Forall (fun mt : minfo * ty =>
    match lookup (m_id (fst mt)) d with
    | Some v => rt_ok B (msz (snd mt)) (ser_ty V E (snd mt) v) (fun buf c => des_ty V E buf (snd mt) c) v
    | None => m_opt (fst mt) = true
    end) ms.

Lemma rt_value : forall V E B ms d mt acc v, mem_hyp V E B ms d -> In mt ms ->
  lookup (m_id (fst mt)) d = Some v ->
  rt_ok B (msz (snd mt)) (ser_value (cvS V E ms) d (m_id (fst mt)))
        (fun buf c => des_value (fst mt, (snd mt, des_ty V E buf (snd mt))) acc c)
        (insert (m_id (fst mt)) v acc).
Proof.
  intros V E B ms d mt acc v [Hnd [HB1 [Hopt Hmem]]] Hin Hv.
  pose proof Hmem as Hm. rewrite Forall_forall in Hm. specialize (Hm mt Hin). rewrite Hv in Hm.
  apply (rt_ext B _ (ser_ty V E (snd mt) v) _
           (fun buf c pos => dbind (des_ty V E buf (snd mt) c pos)
                                   (fun x p => DOk ((fun x => insert (m_id (fst mt)) x acc) x) p))).
  - intros pos. unfold ser_value. rewrite find_cvS by assumption. unfold get. rewrite Hv. reflexivity.
  - reflexivity.
  - apply (rt_map B _ _ _ v (fun x => insert (m_id (fst mt)) x acc)). exact Hm.
Qed.

Lemma even_align2 : forall V q, q mod 2 = 0 -> enc_align V 2 q = [].
Proof.
  intros V q Hq. unfold enc_align.
  replace (padlen q (Z.min 2 (maxalign V))) with 0; [reflexivity|].
  unfold padlen, align_up. destruct V; cbn [maxalign]; change (Z.min 2 8) with 2; change (Z.min 2 4) with 2; lia.
Qed.

(* Rule (19)/(24), XCDR1: parameter header, value from a fresh origin, origin popped afterwards;
   read in place *)
Lemma rt_opt1 : forall E B ms d mt acc, mem_hyp V1 E B ms d -> In mt ms -> m_opt (fst mt) = true ->
  rt_ok B 4 (ser_mmember1 V1 E (cvS V1 E ms) d (m_id (fst mt)))
        (fun buf c => des_opt_fmember V1 E buf (fst mt, (snd mt, des_ty V1 E buf (snd mt))) acc c)
        (match lookup (m_id (fst mt)) d with
         | Some v => insert (m_id (fst mt)) v acc
         | None => acc
         end).
Proof.
  intros E B ms d mt acc HH Hin Hopt pos Hpos.
  pose proof HH as [Hnd [HB1 [Hoc Hmem]]].
  rewrite Forall_forall in Hoc, Hmem. specialize (Hoc mt Hin Hopt) as [Hocc Hpidok].
  specialize (Hpidok eq_refl). specialize (Hmem mt Hin).
  assert (HB : B <= 65535).
  { apply HB1; [reflexivity|]. apply existsb_exists. now exists mt. }
  set (pad := zeros (padlen pos 4)).
  assert (Hpl : 0 <= padlen pos 4 < 4) by (apply padlen_range; lia).
  assert (Hbp : blen pad = padlen pos 4) by (unfold pad; apply blen_zeros; lia).
  set (q := pos + blen pad).
  assert (Hq4 : q mod 4 = 0) by (unfold q; rewrite Hbp; apply padlen_aligned; lia).
  set (pid := wrap_u16 (m_id (fst mt)) + (if m_mu (fst mt) then 16384 else 0)).
  assert (Hpid : 0 <= pid <= 65535).
  { unfold pid, wrap_u16 in *. destruct (m_mu (fst mt)); cbn [andb] in Hpidok; [apply Z.leb_gt in Hpidok|]; lia. }
  (* the two header fields as aligned u16 primitives *)
  destruct (rt_prim V1 E B KU16 pid ltac:(unfold in_range; apply andb_true_intro; split; [apply Z.leb_le|apply Z.ltb_lt]; lia)
              q ltac:(unfold q; lia)) as [b1 [E1 [_ D1]]].
  assert (Hb1 : b1 = int_enc E 2 pid).
  { unfold ser_prim, ret in E1. rewrite even_align2 in E1 by lia. cbn [app prim_bytes sk_bytes] in E1.
    injection E1; intros; congruence. }
  (* the value *)
  assert (Hbody : exists body p3,
    match lookup (m_id (fst mt)) d with
    | Some _ => unwrap (ser_value (cvS V1 E ms) d (m_id (fst mt)) 0)
    | None => Ok ([], 0)
    end = Ok (body, p3) /\ p3 = blen body /\
    (match lookup (m_id (fst mt)) d with Some _ => 1 <= blen body | None => body = [] end) /\
    (blen body <= B -> forall pre post c, blen pre = c_org c + 0 -> c_org c + 0 + blen body <= c_lim c ->
       match lookup (m_id (fst mt)) d with
       | Some v => des_ty V1 E (pre ++ body ++ post) (snd mt) c (c_org c + 0) = DOk v (c_org c + 0 + blen body)
       | None => True
       end)).
  { destruct (lookup (m_id (fst mt)) d) as [v|] eqn:Hv.
    - destruct (Hmem 0 ltac:(lia)) as [body [Eb [Mb Db]]].
      exists body, (blen body). split; [|split; [reflexivity|split]].
      + unfold ser_value. rewrite find_cvS by assumption. unfold get.  rewrite Hv. cbn [bind].
        rewrite Eb. reflexivity.
      + unfold msz in Mb. rewrite Hocc in Mb. exact Mb.
      + intros. now apply Db.
    - exists [], 0. repeat split; auto. }
  destruct Hbody as [body [p3 [Eb [Hp3 [Hbl Db]]]]]. subst p3.
  pose proof (blen_nonneg body) as Hbn.
  set (L := wrap_u16 (blen body)).
  destruct (rt_prim V1 E B KU16 L ltac:(unfold in_range, L, wrap_u16; apply andb_true_intro; split; [apply Z.leb_le|apply Z.ltb_lt]; lia)
              (q + 2) ltac:(unfold q; lia)) as [b2 [E2 [_ D2]]].
  assert (Hb2 : b2 = int_enc E 2 L).
  { unfold ser_prim, ret in E2. rewrite even_align2 in E2 by lia. cbn [app prim_bytes sk_bytes] in E2.
    injection E2; intros; congruence. }
  exists (pad ++ b1 ++ b2 ++ body). split; [|split].
  - unfold ser_mmember1.  rewrite find_cvS by assumption. cbv zeta. fold pid.
    rewrite gtb_false by lia. fold pad. fold q. rewrite E1. cbn [bind]. rewrite Eb. cbn [bind].
    rewrite Hb2. fold L. f_equal. f_equal. subst b1.
    rewrite !blen_app, !int_enc_blen. unfold q. lia.
  - subst b1 b2. rewrite !blen_app, !int_enc_blen. lia.
  - subst b1 b2. rewrite !blen_app, !int_enc_blen. intros HBs pre post c Hpre Hlim.
    unfold des_opt_fmember.
    (* ALIGN(4) *)
    unfold dec_align. replace (c_org c + pos - c_org c) with pos by lia.
    change (Z.min 4 8) with 4. rewrite seek_ok by lia. cbn [dbind].
    (* pid *)
    replace (pre ++ (pad ++ int_enc E 2 pid ++ int_enc E 2 L ++ body) ++ post)
      with ((pre ++ pad) ++ int_enc E 2 pid ++ (int_enc E 2 L ++ body ++ post))
      by now rewrite <- !app_assoc.
    replace (c_org c + pos + padlen pos 4) with (c_org c + q) by (unfold q; lia).
    rewrite (D1 ltac:(rewrite int_enc_blen; lia) (pre ++ pad) _ c
               ltac:(rewrite blen_app; unfold q; lia) ltac:(rewrite int_enc_blen; unfold q; lia)).
    cbn [dbind]. rewrite int_enc_blen.
    (* length *)
    replace ((pre ++ pad) ++ int_enc E 2 pid ++ int_enc E 2 L ++ body ++ post)
      with ((pre ++ pad ++ int_enc E 2 pid) ++ int_enc E 2 L ++ (body ++ post))
      by now rewrite <- !app_assoc.
    replace (c_org c + q + Z.of_nat 2) with (c_org c + (q + 2)) by lia.
    rewrite (D2 ltac:(rewrite int_enc_blen; lia) (pre ++ pad ++ int_enc E 2 pid) _ c
               ltac:(rewrite !blen_app, int_enc_blen; unfold q; lia)
               ltac:(rewrite int_enc_blen; unfold q; lia)).
    cbn [dbind]. rewrite int_enc_blen.
    assert (HL : L = blen body) by (unfold L, wrap_u16; apply Z.mod_small; lia).
    destruct (lookup (m_id (fst mt)) d) as [v|] eqn:Hv.
    + replace (L >? 0) with true by (symmetry; rewrite Z.gtb_ltb; apply Z.ltb_lt; lia).
      unfold des_value. cbn [fst snd]. 
      replace ((pre ++ pad ++ int_enc E 2 pid) ++ int_enc E 2 L ++ body ++ post)
        with ((pre ++ pad ++ int_enc E 2 pid ++ int_enc E 2 L) ++ body ++ post)
        by now rewrite <- !app_assoc.
      set (p2 := c_org c + (q + 2) + Z.of_nat 2).
      pose proof (Db ltac:(lia) (pre ++ pad ++ int_enc E 2 pid ++ int_enc E 2 L) post (mkC p2 (c_lim c))) as Dv.
      cbn [c_org c_lim] in Dv. rewrite !Z.add_0_r in Dv.
      rewrite Dv by (rewrite ?blen_app, ?int_enc_blen; unfold p2, q; lia).
      cbn [dbind]. f_equal. subst p2 q. change (Z.of_nat 2) with 2. Show. lia.
    + subst body. rewrite blen_nil in HL. rewrite HL. cbn [Z.gtb Z.compare].
      f_equal. rewrite blen_nil. unfold q. lia.
Qed.
