(* Round-trip proofs for the XCDR model (stages S1 and S2), the padding theorem and the
   machine-checked witnesses of the recorded defect classes. *)
From DustDDS Require Import Base.Machine Xcdr.XcdrBytes Xcdr.XcdrBytesProofs Xcdr.XcdrModel Xcdr.XcdrProps.
Open Scope Z_scope.
Ltac Zify.zify_post_hook ::= Z.div_mod_to_equations.

(* boolean hypotheses over Z into Prop *)
Ltac boolZ :=
  repeat match goal with
  | H : _ && _ = true |- _ => apply andb_prop in H; destruct H
  | H : _ || _ = false |- _ => apply orb_false_elim in H; destruct H
  | H : negb _ = true |- _ => apply negb_true_iff in H
  | H : negb _ = false |- _ => apply negb_false_iff in H
  | H : (_ <=? _) = true |- _ => apply Z.leb_le in H
  | H : (_ <? _) = true |- _ => apply Z.ltb_lt in H
  | H : (_ =? _) = true |- _ => apply Z.eqb_eq in H
  | H : (_ <=? _) = false |- _ => apply Z.leb_gt in H
  | H : (_ <? _) = false |- _ => apply Z.ltb_ge in H
  | H : (_ =? _) = false |- _ => apply Z.eqb_neq in H
  | H : (_ >? _) = false |- _ => rewrite Z.gtb_ltb in H; apply Z.ltb_ge in H
  | H : (_ >? _) = true |- _ => rewrite Z.gtb_ltb in H; apply Z.ltb_lt in H
  end.

(* --------------------------------------------------------------- the codec spec *)
(* rt_ok B m ser des a: at any writer position, ser appends some bytes bs and advances by |bs|,
   |bs| >= m, and -- if |bs| <= B -- des reads a back from any buffer that contains bs at the
   corresponding offset (reader origin c_org c, writer position = offset - origin), as long as
   bs lies within the effective buffer length c_lim c *)
Definition rt_ok {A} (B m : Z) (ser : Z -> res W) (des : list Z -> rctx -> Z -> dres A) (a : A) : Prop :=
  forall pos, 0 <= pos ->
  exists bs, ser pos = Ok (bs, pos + blen bs) /\ m <= blen bs /\
    (blen bs <= B ->
     forall pre post c, blen pre = c_org c + pos -> c_org c + pos + blen bs <= c_lim c ->
       des (pre ++ bs ++ post) c (c_org c + pos) = DOk a (c_org c + pos + blen bs)).

Lemma gtb_false : forall a b, a <= b -> (a >? b) = false.
Proof. intros. rewrite Z.gtb_ltb. apply Z.ltb_ge. lia. Qed.

Lemma read_mid : forall pre bs post c, blen pre + blen bs <= c_lim c ->
  read_bytes (pre ++ bs ++ post) c (blen pre) (blen bs) = DOk bs (blen pre + blen bs).
Proof.
  intros. unfold read_bytes. rewrite gtb_false by assumption.
  rewrite !to_nat_blen. f_equal.
  rewrite skipn_app, skipn_all, Nat.sub_diag. cbn [skipn app].
  rewrite firstn_app, firstn_all, Nat.sub_diag. cbn [firstn]. now rewrite app_nil_r.
Qed.

Lemma seek_ok : forall c p n, p + n <= c_lim c -> seek c p n = DOk tt (p + n).
Proof. intros. unfold seek. now rewrite gtb_false. Qed.

Lemma rt_bind : forall {A C} B m1 m2 f g (df : list Z -> rctx -> Z -> dres A)
    (dg : A -> list Z -> rctx -> Z -> dres C) a b,
  rt_ok B m1 f df a -> rt_ok B m2 g (dg a) b ->
  rt_ok B (m1 + m2) (seq2 f g) (fun buf c pos => dbind (df buf c pos) (fun x p => dg x buf c p)) b.
Proof.
  intros A C B m1 m2 f g df dg a b Hf Hg pos Hpos.
  destruct (Hf pos Hpos) as [b1 [E1 [M1 D1]]].
  pose proof (blen_nonneg b1).
  destruct (Hg (pos + blen b1) ltac:(lia)) as [b2 [E2 [M2 D2]]].
  pose proof (blen_nonneg b2).
  exists (b1 ++ b2). split; [|split].
  - unfold seq2. rewrite E1. cbn [bind]. rewrite E2. cbn [bind]. rewrite blen_app.
    f_equal. f_equal. lia.
  - rewrite blen_app. lia.
  - rewrite blen_app. intros HB pre post c Hpre Hlim.
    replace (pre ++ (b1 ++ b2) ++ post) with (pre ++ b1 ++ (b2 ++ post)) by now rewrite <- !app_assoc.
    rewrite (D1 ltac:(lia) pre (b2 ++ post) c Hpre ltac:(lia)). cbn [dbind].
    replace (pre ++ b1 ++ b2 ++ post) with ((pre ++ b1) ++ b2 ++ post) by now rewrite <- !app_assoc.
    replace (c_org c + pos + blen b1) with (c_org c + (pos + blen b1)) by lia.
    rewrite (D2 ltac:(lia) (pre ++ b1) post c) by (try rewrite blen_app; lia).
    f_equal. lia.
Qed.

Lemma rt_map : forall {A C} B m f (df : list Z -> rctx -> Z -> dres A) a (h : A -> C),
  rt_ok B m f df a ->
  rt_ok B m f (fun buf c pos => dbind (df buf c pos) (fun x p => DOk (h x) p)) (h a).
Proof.
  intros A C B m f df a h Hf pos Hpos. destruct (Hf pos Hpos) as [bs [E1 [M1 D1]]].
  exists bs. split; [assumption|]. split; [assumption|].
  intros HB pre post c Hpre Hlim. now rewrite (D1 HB pre post c Hpre Hlim).
Qed.

Lemma rt_ext : forall {A} B m f f' (df df' : list Z -> rctx -> Z -> dres A) a,
  (forall pos, f pos = f' pos) -> (forall buf c pos, df buf c pos = df' buf c pos) ->
  rt_ok B m f df a -> rt_ok B m f' df' a.
Proof.
  intros A B m f f' df df' a Hf Hd H pos Hpos. destruct (H pos Hpos) as [bs [E1 [M1 D1]]].
  exists bs. split; [now rewrite <- Hf|]. split; [assumption|].
  intros. rewrite <- Hd. now apply D1.
Qed.

Lemma rt_weaken : forall {A} B m m' f (df : list Z -> rctx -> Z -> dres A) a,
  m' <= m -> rt_ok B m f df a -> rt_ok B m' f df a.
Proof.
  intros A B m m' f df a Hm H pos Hpos. destruct (H pos Hpos) as [bs [E1 [M1 D1]]].
  exists bs. repeat split; try assumption. lia.
Qed.

(* the length-versus-bytes guard never fires on a complete encoding *)
Lemma rt_guard : forall {A} B m (g : bool) n f (df : list Z -> rctx -> Z -> dres A) a,
  (g = true -> n <= m) -> rt_ok B m f df a ->
  rt_ok B m f (fun buf c p => if g && too_long c n p then DErr E_NED p else df buf c p) a.
Proof.
  intros A B m g n f df a Hg H pos Hpos. destruct (H pos Hpos) as [bs [E1 [M1 D1]]].
  exists bs. repeat split; try assumption.
  intros HB pre post c Hpre Hlim.
  replace (g && too_long c n (c_org c + pos)) with false; [now apply D1|].
  symmetry. destruct g; [|reflexivity]. cbn [andb]. unfold too_long. apply gtb_false.
  specialize (Hg eq_refl). lia.
Qed.

(* raw bytes *)
Lemma rt_raw : forall B bs,
  rt_ok B (blen bs) (ret bs) (fun buf c pos => read_bytes buf c pos (blen bs)) bs.
Proof.
  intros B bs pos Hpos. exists bs. split; [reflexivity|]. split; [lia|].
  intros HB pre post c Hpre Hlim. rewrite <- Hpre. apply read_mid. lia.
Qed.

(* ------------------------------------------------------------------ primitives *)
Lemma align_compat : forall (V : ver) (a : Z),
  Z.min a (maxalign V) = match V with V1 => Z.min a 8 | V2 => Z.min a 4 end.
Proof. destruct V; reflexivity. Qed.

Lemma pow256_1 : pow256 1 = 256. Proof. reflexivity. Qed.
Lemma pow256_2 : pow256 2 = 65536. Proof. reflexivity. Qed.
Lemma pow256_4 : pow256 4 = 4294967296. Proof. reflexivity. Qed.
Lemma pow256_8 : pow256 8 = 18446744073709551616. Proof. reflexivity. Qed.
Lemma pow256_16 : pow256 16 = 340282366920938463463374607431768211456. Proof. reflexivity. Qed.

Definition prim_conv (E : endian) (k : sk) (bs : list Z) (p' : Z) : dres Z :=
  match k with
  | KBool => match bs with
             | [b] => if b =? 0 then DOk 0 p' else if b =? 1 then DOk 1 p' else DErr E_DATA p'
             | _ => DErr E_DATA p'
             end
  | _ => let u := int_dec E bs in
         DOk (if sk_signed k then to_signed (sk_bytes k) u else u) p'
  end.

Lemma prim_value : forall E k z p', in_range k z = true ->
  blen (prim_bytes E k z) = sk_size k /\ prim_conv E k (prim_bytes E k z) p' = DOk z p'.
Proof.
  intros E k z p' Hr.
  destruct k; unfold in_range in Hr; boolZ;
    unfold prim_bytes, prim_conv, sk_size, sk_bytes, sk_signed;
    try (split; [apply int_enc_blen|]; cbv zeta; f_equal;
         first [ apply int_dec_enc_unsigned; rewrite ?pow256_1, ?pow256_2, ?pow256_4, ?pow256_8; lia
               | apply int_dec_enc_signed;
                 rewrite ?pow256_1, ?pow256_2, ?pow256_4, ?pow256_8, ?pow256_16; lia ]).
  - (* KChar8 *)
    assert (Hm : z mod 256 = z) by (apply Z.mod_small; lia). rewrite Hm.
    split; [reflexivity|]. cbv zeta. destruct E; cbn [int_dec rev app le_dec]; f_equal; lia.
  - (* KBool *)
    split; [reflexivity|].
    destruct (Z.eqb_spec z 0) as [->|Hz]; [reflexivity|].
    assert (z = 1) by (apply orb_prop in Hr; destruct Hr; boolZ; lia). subst z. reflexivity.
Qed.

Lemma des_prim_unfold : forall V E buf c k pos,
  des_prim V E buf c k pos =
  dbind (dec_align V c (sk_size k) pos) (fun _ p =>
  dbind (read_bytes buf c p (sk_size k)) (fun bs p' => prim_conv E k bs p')).
Proof. intros. unfold des_prim, prim_conv. destruct k; reflexivity. Qed.

Lemma sk_size_pos : forall k, 0 < sk_size k.
Proof. destruct k; unfold sk_size, sk_bytes; lia. Qed.

Lemma rt_prim : forall V E B k z,
  in_range k z = true ->
  rt_ok B (sk_size k) (ser_prim V E k z) (fun buf c => des_prim V E buf c k) z.
Proof.
  intros V E B k z Hr pos Hpos. pose proof (align_compat V (sk_size k)) as Hal.
  assert (Hm : 0 < Z.min (sk_size k) (maxalign V)).
  { pose proof (sk_size_pos k). destruct V; unfold maxalign; lia. }
  pose proof (padlen_range pos _ Hm) as Hpad.
  destruct (prim_value E k z 0 Hr) as [Hlen _].
  exists (enc_align V (sk_size k) pos ++ prim_bytes E k z). split; [reflexivity|]. split.
  { rewrite blen_app, Hlen. unfold enc_align. rewrite blen_zeros; lia. }
  intros HB pre post c Hpre Hlim. rewrite des_prim_unfold.
  unfold dec_align. rewrite <- Hal.
  replace (c_org c + pos - c_org c) with pos by lia.
  unfold enc_align in *. set (pad := padlen pos (Z.min (sk_size k) (maxalign V))) in *.
  rewrite blen_app, blen_zeros, Hlen in Hlim by lia.
  rewrite seek_ok by lia. cbn [dbind].
  destruct (prim_value E k z (c_org c + pos + pad + sk_size k) Hr) as [_ Hconv].
  replace (pre ++ (zeros pad ++ prim_bytes E k z) ++ post)
    with ((pre ++ zeros pad) ++ prim_bytes E k z ++ post) by now rewrite <- !app_assoc.
  replace (c_org c + pos + pad) with (blen (pre ++ zeros pad)) by (rewrite blen_app, blen_zeros; lia).
  rewrite <- Hlen. rewrite read_mid by (rewrite blen_app, blen_zeros, Hlen; lia). cbn [dbind].
  rewrite !blen_app, blen_zeros by lia. rewrite Hlen.
  replace (blen pre + pad + sk_size k) with (c_org c + pos + pad + sk_size k) by lia.
  rewrite Hconv. f_equal. lia.
Qed.

(* ------------------------------------------------------------------ lists *)
Lemma rt_nil : forall {A} B (a : A), rt_ok B 0 (fun pos => Ok ([], pos)) (fun _ _ pos => DOk a pos) a.
Proof.
  intros A B a pos Hpos. exists []. split.
  - rewrite blen_nil. f_equal. f_equal. lia.
  - split; [rewrite blen_nil; lia|]. intros. rewrite blen_nil. f_equal. lia.
Qed.

Lemma rt_list : forall {A C} B m (f : A -> Z -> res W) (g : list Z -> rctx -> Z -> dres C) (h : A -> C) l,
  0 <= m -> (forall a, In a l -> rt_ok B m (f a) g (h a)) ->
  rt_ok B (m * Z.of_nat (length l)) (ser_list f l) (fun buf c => des_n (g buf c) (length l)) (map h l).
Proof.
  induction l as [|a l IH]; intros Hm Hall.
  - cbn [length Z.of_nat]. rewrite Z.mul_0_r. apply rt_nil.
  - cbn [ser_list length des_n map].
    replace (m * Z.of_nat (S (length l))) with (m + m * Z.of_nat (length l)) by lia.
    apply (rt_bind B m (m * Z.of_nat (length l)) (f a) (ser_list f l) g
             (fun x buf c pos => dbind (des_n (g buf c) (length l) pos) (fun l' p2 => DOk (x :: l') p2))
             (h a) (h a :: map h l)).
    + apply Hall. now left.
    + apply (rt_map B _ (ser_list f l) (fun buf c => des_n (g buf c) (length l)) (map h l) (cons (h a))).
      apply IH; [assumption|]. intros. apply Hall. now right.
Qed.

Lemma dbind_assoc : forall {A B C} (r : dres A) (f : A -> Z -> dres B) (g : B -> Z -> dres C),
  dbind (dbind r f) g = dbind r (fun a p => dbind (f a p) g).
Proof. intros. destruct r; reflexivity. Qed.

Lemma des_n_app : forall {A} (f : Z -> dres A) a b pos,
  des_n f (a + b) pos =
  dbind (des_n f a pos) (fun l1 p1 => dbind (des_n f b p1) (fun l2 p2 => DOk (l1 ++ l2) p2)).
Proof.
  induction a; intros.
  - cbn [Nat.add des_n dbind]. destruct (des_n f b pos); reflexivity.
  - cbn [Nat.add des_n]. destruct (f pos) as [x p|c p|s]; cbn [dbind]; try reflexivity.
    rewrite IHa. destruct (des_n f a p) as [l1 p1|c p1|s]; cbn [dbind]; try reflexivity.
    destruct (des_n f b p1); reflexivity.
Qed.

Lemma des_pos_nat : forall {A} (f : Z -> dres A) p pos,
  des_pos f p pos = des_n f (Pos.to_nat p) pos.
Proof.
  induction p; intros.
  - rewrite Pos2Nat.inj_xI. cbn [des_pos].
    replace (S (2 * Pos.to_nat p)) with (S (Pos.to_nat p + Pos.to_nat p)) by lia.
    cbn [des_n]. destruct (f pos) as [x p0|c p0|s]; cbn [dbind]; try reflexivity.
    rewrite des_n_app. rewrite IHp.
    destruct (des_n f (Pos.to_nat p) p0) as [l1 p1|c p1|s]; cbn [dbind]; try reflexivity.
    rewrite IHp.
    destruct (des_n f (Pos.to_nat p) p1); reflexivity.
  - rewrite Pos2Nat.inj_xO. cbn [des_pos].
    replace (2 * Pos.to_nat p)%nat with (Pos.to_nat p + Pos.to_nat p)%nat by lia.
    rewrite des_n_app. rewrite IHp.
    destruct (des_n f (Pos.to_nat p) pos) as [l1 p1|c p1|s]; cbn [dbind]; try reflexivity.
    rewrite IHp. reflexivity.
  - cbn [des_pos]. change (Pos.to_nat 1) with 1%nat. cbn [des_n].
    destruct (f pos); reflexivity.
Qed.

Lemma des_z_nat : forall {A} (f : Z -> dres A) n pos, des_z f (Z.of_nat n) pos = des_n f n pos.
Proof.
  intros. destruct n.
  - reflexivity.
  - unfold des_z. cbn [Z.of_nat].
    rewrite des_pos_nat, SuccNat2Pos.id_succ. reflexivity.
Qed.

Lemma map_id_eq : forall {A} (l : list A), map (fun x => x) l = l.
Proof. induction l; cbn; congruence. Qed.

Lemma rt_list_id : forall {A} B m (f : A -> Z -> res W) (g : list Z -> rctx -> Z -> dres A) l n,
  0 <= m -> n = Z.of_nat (length l) ->
  (forall a, In a l -> rt_ok B m (f a) g a) ->
  rt_ok B (m * n) (ser_list f l) (fun buf c => des_z (g buf c) n) l.
Proof.
  intros A B m f g l n Hm Hn Hall. subst n.
  pose proof (rt_list B m f g (fun x => x) l Hm Hall) as H. rewrite map_id_eq in H.
  eapply rt_ext; [reflexivity| |exact H]. intros. cbv beta. now rewrite des_z_nat.
Qed.

(* ------------------------------------------------------------------ u32 fields *)
Lemma rt_u32 : forall V E B z, 0 <= z <= u32_max ->
  rt_ok B 4 (ser_prim V E KU32 z) (fun buf c => des_prim V E buf c KU32) z.
Proof.
  intros. apply (rt_prim V E B KU32).
  unfold in_range, u32_max in *. apply andb_true_intro. split; [apply Z.leb_le|apply Z.ltb_lt]; lia.
Qed.

(* ------------------------------------------------------------------ strings *)
Lemma rt_string : forall V E B s, str_ok s = true ->
  rt_ok B 1 (ser_string V E s) (fun buf c => des_string V E buf c) s.
Proof.
  intros V E B s Hs. unfold str_ok in Hs. boolZ.
  unfold ser_string, des_string. cbv zeta.
  pose proof (blen_nonneg (utf8_enc s)) as Hnn.
  assert (Hw : wrap_u32 (blen (utf8_enc s)) = blen (utf8_enc s)).
  { unfold wrap_u32, two32. apply Z.mod_small. unfold u32_max in *. lia. }
  rewrite Hw.
  apply (rt_weaken B (4 + 1)); [lia|].
  apply (rt_bind B 4 1 _ _ (fun buf c => des_prim V E buf c KU32)
           (fun len buf c p1 =>
              dbind (read_bytes buf c p1 (Z.max 0 (len - 1))) (fun bs p2 =>
              dbind (read_bytes buf c p2 1) (fun _ p3 =>
              match utf8_dec bs with Some s => DOk s p3 | None => DErr E_DATA p3 end)))
           (blen (utf8_enc s) + 1) s).
  - apply rt_u32. lia.
  - intros pos Hpos. exists (utf8_enc s ++ [0]). split; [reflexivity|].
    split; [rewrite blen_app, blen_cons, blen_nil; lia|].
    intros HB pre post c Hpre Hlim. rewrite blen_app, blen_cons, blen_nil in Hlim.
    replace (Z.max 0 (blen (utf8_enc s) + 1 - 1)) with (blen (utf8_enc s)) by lia.
    replace (pre ++ (utf8_enc s ++ [0]) ++ post) with (pre ++ utf8_enc s ++ ([0] ++ post))
      by now rewrite <- !app_assoc.
    rewrite <- Hpre. rewrite read_mid by lia. cbn [dbind].
    replace (pre ++ utf8_enc s ++ [0] ++ post) with ((pre ++ utf8_enc s) ++ [0] ++ post)
      by now rewrite <- !app_assoc.
    replace (blen pre + blen (utf8_enc s)) with (blen (pre ++ utf8_enc s)) by now rewrite blen_app.
    change 1 with (blen [0]) at 1. rewrite read_mid by (rewrite blen_app, blen_cons, blen_nil; lia).
    cbn [dbind]. rewrite utf8_dec_enc by assumption. rewrite !blen_app. f_equal. lia.
Qed.

Lemma rt_wstring : forall V E B s, str_ok s = true ->
  rt_ok B 1 (ser_wstring V E s) (fun buf c => des_wstring V E buf c) s.
Proof.
  intros V E B s Hs. unfold str_ok in Hs. boolZ.
  unfold ser_wstring, des_wstring. cbv zeta.
  pose proof (blen_nonneg (utf16_enc s)) as Hnn.
  assert (Hw : wrap_u32 (blen (utf16_enc s)) = blen (utf16_enc s)).
  { unfold wrap_u32, two32. apply Z.mod_small. unfold u32_max in *. lia. }
  rewrite Hw. set (n := blen (utf16_enc s)) in *.
  apply (rt_weaken B (4 + (2 * n + 2))); [lia|].
  apply (rt_bind B 4 (2 * n + 2) _ _ (fun buf c => des_prim V E buf c KU32)
           (fun len buf c p1 =>
              if len =? 0 then DOk [] p1 else
              if too_long c (len - 1) p1 then DErr E_NED p1 else
              dbind (des_z (des_prim V E buf c KU16) (len - 1) p1) (fun us p2 =>
              dbind (des_prim V E buf c KU16 p2) (fun nul p3 =>
              if negb (nul =? 0) then DErr E_DATA p3 else
              match utf16_dec us with Some s => DOk s p3 | None => DErr E_DATA p3 end)))
           (n + 1) s).
  - apply rt_u32. lia.
  - replace (n + 1 =? 0) with false by (symmetry; apply Z.eqb_neq; lia).
    replace (n + 1 - 1) with n by lia.
    assert (Hin : rt_ok B (2 * n + 2)
              (seq2 (ser_list (ser_prim V E KU16) (utf16_enc s)) (ser_prim V E KU16 0))
              (fun buf c p1 =>
                 dbind (des_z (des_prim V E buf c KU16) n p1) (fun us p2 =>
                 dbind (des_prim V E buf c KU16 p2) (fun nul p3 =>
                 if negb (nul =? 0) then DErr E_DATA p3 else
                 match utf16_dec us with Some s => DOk s p3 | None => DErr E_DATA p3 end))) s).
    { apply (rt_bind B (2 * n) 2 _ _ (fun buf c => des_z (des_prim V E buf c KU16) n)
               (fun us buf c p2 =>
                  dbind (des_prim V E buf c KU16 p2) (fun nul p3 =>
                  if negb (nul =? 0) then DErr E_DATA p3 else
                  match utf16_dec us with Some s => DOk s p3 | None => DErr E_DATA p3 end))
               (utf16_enc s) s).
      + apply (rt_list_id B 2); [lia|unfold n, blen; lia|].
        intros u Hu. apply (rt_prim V E B KU16).
        pose proof (utf16_units_range s H) as Hf. rewrite Forall_forall in Hf. specialize (Hf u Hu).
        unfold in_range. apply andb_true_intro. split; [apply Z.leb_le|apply Z.ltb_lt]; lia.
      + intros pos Hpos.
        destruct (rt_prim V E B KU16 0 eq_refl pos Hpos) as [bs [E1 [M1 D1]]].
        exists bs. split; [exact E1|]. split; [exact M1|]. intros HB pre post c Hpre Hlim.
        rewrite (D1 HB pre post c Hpre Hlim). cbn [dbind]. change (negb (0 =? 0)) with false. cbv iota.
        rewrite utf16_dec_enc by assumption. reflexivity. }
    pose proof (rt_guard B (2 * n + 2) true n _ _ s ltac:(intros; lia) Hin) as Hg.
    cbn [andb] in Hg. exact Hg.
Qed.

(* ------------------------------------------------------------------ DHEADER *)
Lemma ser_dheader_shape : forall {A} V E B m body (dbody : list Z -> rctx -> Z -> dres A) a pos,
  0 <= pos -> rt_ok B m body dbody a ->
  exists bb, let pad := enc_align V 4 pos in let z := wrap_u32 (blen bb) in
    body (pos + blen pad + 4) = Ok (bb, pos + blen pad + 4 + blen bb) /\ m <= blen bb /\
    ser_dheader V E body pos = Ok (pad ++ int_enc E 4 z ++ bb, pos + blen (pad ++ int_enc E 4 z ++ bb)) /\
    ser_prim V E KU32 z pos = Ok (pad ++ int_enc E 4 z, pos + blen (pad ++ int_enc E 4 z)) /\
    (blen bb <= B -> forall pre post c, blen pre = c_org c + (pos + blen pad + 4) ->
       c_org c + (pos + blen pad + 4) + blen bb <= c_lim c ->
       dbody (pre ++ bb ++ post) c (c_org c + (pos + blen pad + 4)) =
       DOk a (c_org c + (pos + blen pad + 4) + blen bb)).
Proof.
  intros A V E B m body dbody a pos Hpos Hb. cbv zeta.
  assert (Hp1 : 0 <= pos + blen (enc_align V 4 pos) + 4) by (pose proof (blen_nonneg (enc_align V 4 pos)); lia).
  destruct (Hb _ Hp1) as [bb [E1 [M1 D1]]].
  exists bb. repeat split; try assumption.
  - unfold ser_dheader. cbv zeta. rewrite E1. cbn [bind]. f_equal. f_equal.
    rewrite !blen_app, int_enc_blen. lia.
Qed.

Lemma rt_dheader : forall {A} V E B m body (dbody : list Z -> rctx -> Z -> dres A) a,
  rt_ok B m body dbody a ->
  rt_ok B (4 + m) (ser_dheader V E body)
        (fun buf c pos => dbind (des_prim V E buf c KU32 pos) (fun _ p => dbody buf c p)) a.
Proof.
  intros A V E B m body dbody a Hb pos Hpos.
  destruct (ser_dheader_shape V E B m body dbody a pos Hpos Hb) as [bb [E1 [M1 [E2 [E3 D1]]]]].
  cbv zeta in *. set (pad := enc_align V 4 pos) in *. set (z := wrap_u32 (blen bb)) in *.
  assert (Hz : 0 <= z <= u32_max) by (unfold z, wrap_u32, two32, u32_max; lia).
  destruct (rt_u32 V E B z Hz pos Hpos) as [hb [E4 [M4 D4]]].
  rewrite E3 in E4. assert (Hhb : hb = pad ++ int_enc E 4 z) by (injection E4; intros; congruence).
  clear E4. subst hb.
  exists (pad ++ int_enc E 4 z ++ bb). split; [exact E2|].
  pose proof (blen_nonneg pad). pose proof (blen_nonneg bb).
  split; [rewrite !blen_app, int_enc_blen; lia|].
  rewrite !blen_app, int_enc_blen. intros HB pre post c Hpre Hlim.
  replace (pre ++ (pad ++ int_enc E 4 z ++ bb) ++ post)
    with (pre ++ (pad ++ int_enc E 4 z) ++ (bb ++ post)) by now rewrite <- !app_assoc.
  rewrite (D4 ltac:(rewrite blen_app, int_enc_blen; lia) pre (bb ++ post) c Hpre
              ltac:(rewrite blen_app, int_enc_blen; lia)). cbn [dbind].
  replace (pre ++ (pad ++ int_enc E 4 z) ++ bb ++ post)
    with ((pre ++ pad ++ int_enc E 4 z) ++ bb ++ post) by now rewrite <- !app_assoc.
  rewrite blen_app, int_enc_blen.
  replace (c_org c + pos + (blen pad + Z.of_nat 4)) with (c_org c + (pos + blen pad + 4)) by lia.
  rewrite (D1 ltac:(lia) (pre ++ pad ++ int_enc E 4 z) post c)
    by (rewrite ?blen_app, ?int_enc_blen; lia).
  f_equal. lia.
Qed.

(* Rule (30) reader side: the DHEADER value is the limit of the object *)
Lemma rt_appendable2 : forall V E B m body (dbody : list Z -> rctx -> Z -> dres dyn) a,
  B <= u32_max -> rt_ok B m body dbody a ->
  rt_ok B (4 + m) (ser_dheader V E body)
        (fun buf c pos =>
           dbind (des_prim V E buf c KU32 pos) (fun dh p =>
           let e := p + dh in
           if e >? c_lim c then DErr E_NED p else
           match dbody buf (mkC (c_org c) e) p with
           | DOk d _ => DOk d e | DErr code p' => DErr code p' | DPanic s => DPanic s
           end)) a.
Proof.
  intros V E B m body dbody a HBu Hb pos Hpos.
  destruct (ser_dheader_shape V E B m body dbody a pos Hpos Hb) as [bb [E1 [M1 [E2 [E3 D1]]]]].
  cbv zeta in *. set (pad := enc_align V 4 pos) in *. set (z := wrap_u32 (blen bb)) in *.
  assert (Hz : 0 <= z <= u32_max) by (unfold z, wrap_u32, two32, u32_max; lia).
  destruct (rt_u32 V E B z Hz pos Hpos) as [hb [E4 [M4 D4]]].
  rewrite E3 in E4. assert (Hhb : hb = pad ++ int_enc E 4 z) by (injection E4; intros; congruence).
  clear E4. subst hb.
  exists (pad ++ int_enc E 4 z ++ bb). split; [exact E2|].
  pose proof (blen_nonneg pad). pose proof (blen_nonneg bb).
  split; [rewrite !blen_app, int_enc_blen; lia|].
  rewrite !blen_app, int_enc_blen. intros HB pre post c Hpre Hlim.
  assert (Hzb : z = blen bb).
  { unfold z, wrap_u32, two32. apply Z.mod_small. unfold u32_max in *. lia. }
  replace (pre ++ (pad ++ int_enc E 4 z ++ bb) ++ post)
    with (pre ++ (pad ++ int_enc E 4 z) ++ (bb ++ post)) by now rewrite <- !app_assoc.
  rewrite (D4 ltac:(rewrite blen_app, int_enc_blen; lia) pre (bb ++ post) c Hpre
              ltac:(rewrite blen_app, int_enc_blen; lia)). cbn [dbind]. cbv zeta.
  rewrite blen_app, int_enc_blen.
  replace (c_org c + pos + (blen pad + Z.of_nat 4) + z)
    with (c_org c + (pos + blen pad + 4) + blen bb) by lia.
  rewrite gtb_false by lia.
  replace (pre ++ (pad ++ int_enc E 4 z) ++ bb ++ post)
    with ((pre ++ pad ++ int_enc E 4 z) ++ bb ++ post) by now rewrite <- !app_assoc.
  replace (c_org c + pos + (blen pad + Z.of_nat 4)) with (c_org c + (pos + blen pad + 4)) by lia.
  pose proof (D1 ltac:(lia) (pre ++ pad ++ int_enc E 4 z) post
                 (mkC (c_org c) (c_org c + (pos + blen pad + 4) + blen bb))) as D1'.
  cbn [c_org c_lim] in D1'.
  rewrite D1' by (rewrite ?blen_app, ?int_enc_blen; lia).
  f_equal. lia.
Qed.

(* ------------------------------------------------------------------ induction on types *)
Section TyInd.
Variable P : ty -> Prop.
Hypothesis Hprim : forall p, P (TPrim p).
Hypothesis Hstr : P TStr.
Hypothesis Hwstr : P TWStr.
Hypothesis Henum : forall h ls, P (TEnum h ls).
Hypothesis Hseq : forall e, P e -> P (TSeq e).
Hypothesis Harr : forall n e, P e -> P (TArr n e).
Hypothesis Hstruct : forall x ms, Forall (fun mt => P (snd mt)) ms -> P (TStruct x ms).
Hypothesis Hunion : forall x d cs, P d -> Forall (fun mt => P (snd mt)) cs -> P (TUnion x d cs).
Fixpoint ty_ind' (t : ty) : P t :=
  match t with
  | TPrim p => Hprim p
  | TStr => Hstr
  | TWStr => Hwstr
  | TEnum h ls => Henum h ls
  | TSeq e => Hseq e (ty_ind' e)
  | TArr n e => Harr n e (ty_ind' e)
  | TStruct x ms =>
    Hstruct x ms
      ((fix go (ms : list (minfo * ty)) : Forall (fun mt => P (snd mt)) ms :=
          match ms with
          | [] => Forall_nil _
          | mt :: r => Forall_cons mt (ty_ind' (snd mt)) (go r)
          end) ms)
  | TUnion x d cs =>
    Hunion x d cs (ty_ind' d)
      ((fix go (ms : list (minfo * ty)) : Forall (fun mt => P (snd mt)) ms :=
          match ms with
          | [] => Forall_nil _
          | mt :: r => Forall_cons mt (ty_ind' (snd mt)) (go r)
          end) cs)
  end.
End TyInd.

Definition cvS (V : ver) (E : endian) (ms : list (minfo * ty)) : MF :=
  map (fun mt => (fst mt, (snd mt, ser_ty V E (snd mt)))) ms.
Definition cvD (V : ver) (E : endian) (buf : list Z) (ms : list (minfo * ty)) : MG :=
  map (fun mt => (fst mt, (snd mt, des_ty V E buf (snd mt)))) ms.

Lemma ser_ty_struct : forall V E x ms,
  ser_ty V E (TStruct x ms) = on_data (ser_struct_nested V E x (cvS V E ms)).
Proof.
  intros. cbn [ser_ty]. f_equal. f_equal.
  induction ms as [|[m t] r IH]; [reflexivity|]. cbn [cvS map fst snd]. f_equal. exact IH.
Qed.
Lemma des_ty_struct : forall V E buf x ms c pos,
  des_ty V E buf (TStruct x ms) c pos = as_data (des_struct_nested V E buf x (cvD V E buf ms) c pos).
Proof.
  intros. cbn [des_ty]. f_equal. f_equal.
  induction ms as [|[m t] r IH]; [reflexivity|]. cbn [cvD map fst snd]. f_equal. exact IH.
Qed.

Lemma sk_eqb_eq : forall a b, sk_eqb a b = true -> a = b.
Proof. destruct a, b; cbn; congruence. Qed.
Lemma sk_eqb_refl : forall a, sk_eqb a a = true.
Proof. destruct a; reflexivity. Qed.

(* ------------------------------------------------------------------ enumerations *)
Lemma rt_enum : forall V E B h ls d,
  holder_ok h = true -> wt (TEnum h ls) (VData d) = true ->
  rt_ok B 1 (ser_enum V E h d) (fun buf c => des_enum V E buf c h ls) d.
Proof.
  intros V E B h ls d Hh Hw. cbn [wt] in Hw.
  destruct d as [|[k0 v0] r]; [discriminate|].
  destruct k0; try discriminate.
  destruct v0 as [k z| | | | |]; try discriminate.
  destruct r; [|discriminate].
  apply andb_prop in Hw as [Hw Hl]. apply andb_prop in Hw as [Hk Hr].
  apply sk_eqb_eq in Hk. subst k.
  pose proof (rt_prim V E B (prim_sk h) z Hr) as Hp.
  intros pos Hpos. destruct (Hp pos Hpos) as [bs [E1 [M1 D1]]].
  exists bs. split; [|split].
  - destruct h; try discriminate; cbn [ser_enum get_k lookup Z.eqb sk_eqb bind prim_sk] in *; exact E1.
  - pose proof (sk_size_pos (prim_sk h)). lia.
  - intros HB pre post c Hpre Hlim. unfold des_enum.
    replace (match h with PI8 => Some KI8 | PI16 => Some KI16 | PI32 => Some KI32 | _ => None end)
      with (Some (prim_sk h)) by (destruct h; try discriminate; reflexivity).
    rewrite (D1 HB pre post c Hpre Hlim). cbn [dbind]. unfold mem in Hl. rewrite Hl. reflexivity.
Qed.

(* ------------------------------------------------------------------ DynamicData maps *)
Lemma lookup_insert_same : forall {A} k (v : A) d, lookup k (insert k v d) = Some v.
Proof.
  induction d as [|[k' v'] t IH]; cbn [insert lookup].
  - now rewrite Z.eqb_refl.
  - destruct (Z.ltb_spec k k'); cbn [lookup]; [now rewrite Z.eqb_refl|].
    destruct (Z.eqb_spec k k'); cbn [lookup]; [now rewrite Z.eqb_refl|].
    destruct (Z.eqb_spec k k'); [contradiction|]. exact IH.
Qed.
Lemma lookup_insert_other : forall {A} k k' (v : A) d, k <> k' -> lookup k (insert k' v d) = lookup k d.
Proof.
  induction d as [|[k2 v2] t IH]; intros Hne; cbn [insert lookup].
  - destruct (Z.eqb_spec k k'); [contradiction|reflexivity].
  - destruct (Z.ltb_spec k' k2); cbn [lookup].
    + destruct (Z.eqb_spec k k'); [contradiction|reflexivity].
    + destruct (Z.eqb_spec k' k2); cbn [lookup].
      * subst k2. destruct (Z.eqb_spec k k'); [contradiction|reflexivity].
      * destruct (Z.eqb_spec k k2); [reflexivity|]. now apply IH.
Qed.

Lemma sorted_from_weaken : forall l lo lo', lo' <= lo -> sorted_from lo l = true -> sorted_from lo' l = true.
Proof.
  destruct l as [|k r]; intros lo lo' Hle H; [reflexivity|].
  cbn [sorted_from] in *. boolZ. apply andb_true_intro. split; [apply Z.ltb_lt; lia|assumption].
Qed.
Lemma insert_sorted_from : forall {A} (d : list (Z * A)) lo k v,
  sorted_from lo (keys d) = true -> lo < k -> sorted_from lo (keys (insert k v d)) = true.
Proof.
  induction d as [|[k' v'] t IH]; intros lo k v H Hlt.
  - cbn. apply andb_true_intro. split; [apply Z.ltb_lt; lia|reflexivity].
  - cbn [keys map fst sorted_from] in H. apply andb_prop in H as [H1 H2]. apply Z.ltb_lt in H1.
    cbn [insert]. destruct (Z.ltb_spec k k').
    + cbn [keys map fst sorted_from]. rewrite H2.
      repeat (apply andb_true_intro; split); try apply Z.ltb_lt; try lia; reflexivity.
    + destruct (Z.eqb_spec k k').
      * subst k'. cbn [keys map fst sorted_from]. apply andb_true_intro. split; [apply Z.ltb_lt; lia|exact H2].
      * cbn [keys map fst sorted_from]. apply andb_true_intro. split; [apply Z.ltb_lt; lia|].
        apply IH; [exact H2|lia].
Qed.
Lemma sorted_keys_from : forall {A} (d : list (Z * A)),
  sorted_keys d = true <-> exists lo, sorted_from lo (keys d) = true.
Proof.
  intros A d. unfold sorted_keys. destruct (keys d) as [|k r] eqn:Hk.
  - split; [exists 0; reflexivity|reflexivity].
  - split.
    + intros H. exists (k - 1). cbn [sorted_from]. rewrite H.
      apply andb_true_intro. split; [apply Z.ltb_lt; lia|reflexivity].
    + intros [lo H]. cbn [sorted_from] in H. now apply andb_prop in H as [_ H].
Qed.
Lemma insert_sorted : forall {A} (d : list (Z * A)) k v,
  sorted_keys d = true -> sorted_keys (insert k v d) = true.
Proof.
  intros A d k v H. apply sorted_keys_from in H as [lo H]. apply sorted_keys_from.
  exists (Z.min lo (k - 1)). apply insert_sorted_from; [|lia].
  eapply sorted_from_weaken; [|exact H]. lia.
Qed.

Lemma lookup_below : forall {A} (d : list (Z * A)) lo k,
  sorted_from lo (keys d) = true -> k <= lo -> lookup k d = None.
Proof.
  induction d as [|[k' v'] t IH]; intros lo k H Hle; [reflexivity|].
  cbn [keys map fst sorted_from] in H. apply andb_prop in H as [H1 H2]. apply Z.ltb_lt in H1.
  cbn [lookup]. destruct (Z.eqb_spec k k'); [lia|]. apply (IH k'); [exact H2|lia].
Qed.

Lemma sorted_ext : forall {A} (d1 d2 : list (Z * A)) lo,
  sorted_from lo (keys d1) = true -> sorted_from lo (keys d2) = true ->
  (forall k, lookup k d1 = lookup k d2) -> d1 = d2.
Proof.
  induction d1 as [|[k1 v1] r1 IH]; intros d2 lo H1 H2 Hl.
  - destruct d2 as [|[k2 v2] r2]; [reflexivity|].
    specialize (Hl k2). cbn [lookup] in Hl. rewrite Z.eqb_refl in Hl. discriminate.
  - destruct d2 as [|[k2 v2] r2].
    + specialize (Hl k1). cbn [lookup] in Hl. rewrite Z.eqb_refl in Hl. discriminate.
    + cbn [keys map fst sorted_from] in H1, H2.
      apply andb_prop in H1 as [H1a H1b]. apply andb_prop in H2 as [H2a H2b].
      apply Z.ltb_lt in H1a. apply Z.ltb_lt in H2a.
      destruct (Z.lt_trichotomy k1 k2) as [Hlt|[Heq|Hgt]].
      * specialize (Hl k1). cbn [lookup] in Hl. rewrite Z.eqb_refl in Hl.
        destruct (Z.eqb_spec k1 k2); [lia|].
        rewrite (lookup_below r2 k2 k1 H2b) in Hl by lia. discriminate.
      * subst k2. pose proof (Hl k1) as Hk. cbn [lookup] in Hk. rewrite Z.eqb_refl in Hk.
        inversion Hk. subst v2. f_equal.
        apply (IH r2 k1 H1b H2b). intros k.
        destruct (Z.eq_dec k k1) as [->|Hne].
        -- rewrite (lookup_below r1 k1 k1 H1b), (lookup_below r2 k1 k1 H2b) by lia. reflexivity.
        -- specialize (Hl k). cbn [lookup] in Hl. destruct (Z.eqb_spec k k1); [contradiction|exact Hl].
      * specialize (Hl k2). cbn [lookup] in Hl. rewrite Z.eqb_refl in Hl.
        destruct (Z.eqb_spec k2 k1); [lia|].
        rewrite (lookup_below r1 k1 k2 H1b) in Hl by lia. discriminate.
Qed.

(* what the reader has stored after the members ms of a structure whose value is d *)
Definition ins (ms : list (minfo * ty)) (d acc : dyn) : dyn :=
  fold_left (fun a mt => match lookup (m_id (fst mt)) d with
                         | Some v => insert (m_id (fst mt)) v a
                         | None => a
                         end) ms acc.

Lemma mem_true_iff : forall k l, mem k l = true <-> In k l.
Proof.
  intros. unfold mem. rewrite existsb_exists. split.
  - intros [x [Hin He]]. apply Z.eqb_eq in He. now subst.
  - intros. exists k. split; [assumption|apply Z.eqb_refl].
Qed.

Lemma ins_lookup : forall ms d acc k,
  lookup k (ins ms d acc) =
  if mem k (ids ms) then (match lookup k d with Some v => Some v | None => lookup k acc end)
  else lookup k acc.
Proof.
  induction ms as [|[m t] r IH]; intros d acc k; [reflexivity|].
  unfold ins in *. cbn [fold_left fst]. rewrite IH. cbn [ids map fst mem existsb].
  fold (ids r). fold (mem k (ids r)).
  destruct (Z.eqb_spec k (m_id m)) as [->|Hne]; cbn [orb].
  - destruct (lookup (m_id m) d) as [v|] eqn:Hv.
    + rewrite lookup_insert_same. now destruct (mem (m_id m) (ids r)).
    + now destruct (mem (m_id m) (ids r)).
  - destruct (lookup (m_id m) d) as [v|] eqn:Hv; [|reflexivity].
    rewrite lookup_insert_other by assumption. reflexivity.
Qed.

Lemma ins_sorted : forall ms d acc, sorted_keys acc = true -> sorted_keys (ins ms d acc) = true.
Proof.
  induction ms as [|[m t] r IH]; intros d acc H; [exact H|].
  unfold ins in *. cbn [fold_left fst]. apply IH.
  destruct (lookup (m_id m) d); [now apply insert_sorted|exact H].
Qed.

Lemma lookup_in_keys : forall {A} k (d : list (Z * A)) v, lookup k d = Some v -> In k (keys d).
Proof.
  induction d as [|[k' v'] t IH]; intros v H; [discriminate|].
  cbn [lookup] in H. cbn [keys map fst]. destruct (Z.eqb_spec k k'); [left; congruence|right; eauto].
Qed.

Lemma ins_eq : forall ms d,
  sorted_keys d = true -> forallb (fun k => mem k (ids ms)) (keys d) = true -> ins ms d [] = d.
Proof.
  intros ms d Hs Hk.
  pose proof (ins_sorted ms d [] eq_refl) as Hs'.
  apply sorted_keys_from in Hs as [lo1 H1]. apply sorted_keys_from in Hs' as [lo2 H2].
  apply (sorted_ext _ _ (Z.min lo1 lo2)).
  - eapply sorted_from_weaken; [|exact H2]. lia.
  - eapply sorted_from_weaken; [|exact H1]. lia.
  - intros k. rewrite ins_lookup. cbn [lookup].
    destruct (lookup k d) as [v|] eqn:Hv.
    + apply lookup_in_keys in Hv. rewrite forallb_forall in Hk. rewrite (Hk k Hv). reflexivity.
    + now destruct (mem k (ids ms)).
Qed.

(* ------------------------------------------------------------------ structure members *)
Lemma in_ids : forall {X} (mt : minfo * X) ms, In mt ms -> mem (m_id (fst mt)) (ids ms) = true.
Proof.
  intros. apply mem_true_iff. unfold ids. apply in_map_iff. exists mt. split; [reflexivity|assumption].
Qed.

Lemma find_cvS : forall V E ms mt, nodup_z (ids ms) = true -> In mt ms ->
  find_m (m_id (fst mt)) (cvS V E ms) = Some (fst mt, (snd mt, ser_ty V E (snd mt))).
Proof.
  induction ms as [|[m t] r IH]; intros mt Hnd Hin; [contradiction|].
  cbn [ids map fst nodup_z] in Hnd. apply andb_prop in Hnd as [Hn1 Hn2].
  cbn [cvS map find_m fst snd]. destruct Hin as [<-|Hin].
  - cbn [fst snd]. now rewrite Z.eqb_refl.
  - destruct (Z.eqb_spec (m_id m) (m_id (fst mt))) as [He|Hne].
    + exfalso. apply negb_true_iff in Hn1. rewrite He in Hn1.
      fold (ids r) in Hn1. now rewrite (in_ids mt r Hin) in Hn1.
    + apply IH; assumption.
Qed.


(* lower bounds on the encoded size *)
Definition msz (t : ty) : Z := if occupies t then 1 else 0.
Definition mlow (mt : minfo * ty) : Z := if m_opt (fst mt) || occupies (snd mt) then 1 else 0.
Definition slow (ms : list (minfo * ty)) : Z :=
  if existsb (fun mt : minfo * ty => m_opt (fst mt) || occupies (snd mt)) ms then 1 else 0.

Lemma occupies_struct : forall x ms,
  occupies (TStruct x ms) = existsb (fun mt : minfo * ty => m_opt (fst mt) || occupies (snd mt)) ms.
Proof.
  intros. cbn [occupies]. induction ms as [|[m t] r IH]; [reflexivity|].
  cbn [existsb fst snd]. now rewrite IH.
Qed.

Definition mem_hyp (V : ver) (E : endian) (B : Z) (ms : list (minfo * ty)) (d : dyn) : Prop :=
  nodup_z (ids ms) = true /\
  (V = V1 -> existsb (fun mx : minfo * ty => m_opt (fst mx)) ms = true -> B <= 65535) /\
  Forall (fun mt : minfo * ty =>
            m_opt (fst mt) = true -> V = V1 ->
            occupies (snd mt) = true /\ 0 <= m_id (fst mt) < 16384) ms /\
  Forall (fun mt : minfo * ty =>
    match lookup (m_id (fst mt)) d with
    | Some v => rt_ok B (msz (snd mt)) (ser_ty V E (snd mt) v) (fun buf c => des_ty V E buf (snd mt) c) v
    | None => m_opt (fst mt) = true
    end) ms.

Lemma rt_value : forall V E B ms d mt acc v, mem_hyp V E B ms d -> In mt ms ->
  lookup (m_id (fst mt)) d = Some v ->
  rt_ok B (msz (snd mt)) (ser_value (cvS V E ms) d (m_id (fst mt)))
        (fun buf c => des_value (fst mt, (snd mt, des_ty V E buf (snd mt))) acc c)
        (insert (m_id (fst mt)) v acc).
Proof.
  intros V E B ms d mt acc v [Hnd [HB1 [Hopt Hmem]]] Hin Hv.
  pose proof Hmem as Hm. rewrite Forall_forall in Hm. specialize (Hm mt Hin). rewrite Hv in Hm.
  apply (rt_ext B _ (ser_ty V E (snd mt) v) _
           (fun buf c pos => dbind (des_ty V E buf (snd mt) c pos)
                                   (fun x p => DOk ((fun x => insert (m_id (fst mt)) x acc) x) p))).
  - intros pos. unfold ser_value. rewrite find_cvS by assumption. unfold get. rewrite Hv. reflexivity.
  - reflexivity.
  - apply (rt_map B _ _ _ v (fun x => insert (m_id (fst mt)) x acc)). exact Hm.
Qed.

Lemma even_align2 : forall V q, q mod 2 = 0 -> enc_align V 2 q = [].
Proof.
  intros V q Hq. unfold enc_align.
  replace (padlen q (Z.min 2 (maxalign V))) with 0; [reflexivity|].
  unfold padlen, align_up. destruct V; cbn [maxalign]; change (Z.min 2 8) with 2; change (Z.min 2 4) with 2; lia.
Qed.

(* Rule (19)/(24), XCDR1: parameter header, value from a fresh origin, origin popped afterwards;
   read in place *)
Lemma rt_opt1 : forall E B ms d mt acc, mem_hyp V1 E B ms d -> In mt ms -> m_opt (fst mt) = true ->
  rt_ok B 4 (ser_mmember1 V1 E (cvS V1 E ms) d (m_id (fst mt)))
        (fun buf c => des_opt_fmember V1 E buf (fst mt, (snd mt, des_ty V1 E buf (snd mt))) acc c)
        (match lookup (m_id (fst mt)) d with
         | Some v => insert (m_id (fst mt)) v acc
         | None => acc
         end).
Proof.
  intros E B ms d mt acc HH Hin Hopt pos Hpos.
  pose proof HH as [Hnd [HB1 [Hoc Hmem]]].
  rewrite Forall_forall in Hoc, Hmem. specialize (Hoc mt Hin Hopt eq_refl) as [Hocc Hidr].
  specialize (Hmem mt Hin).
  assert (HB : B <= 65535).
  { apply HB1; [reflexivity|]. apply existsb_exists. now exists mt. }
  set (pad := zeros (padlen pos 4)).
  assert (Hpl : 0 <= padlen pos 4 < 4) by (apply padlen_range; lia).
  assert (Hbp : blen pad = padlen pos 4) by (unfold pad; apply blen_zeros; lia).
  set (q := pos + blen pad).
  assert (Hq4 : q mod 4 = 0) by (unfold q; rewrite Hbp; apply padlen_aligned; lia).
  set (pid := (m_id (fst mt)) + (if m_mu (fst mt) then 16384 else 0)).
  assert (Hpid : 0 <= pid <= 65535) by (unfold pid; destruct (m_mu (fst mt)); lia).
  (* the two header fields as aligned u16 primitives *)
  destruct (rt_prim V1 E B KU16 pid ltac:(unfold in_range; apply andb_true_intro; split; [apply Z.leb_le|apply Z.ltb_lt]; lia)
              q ltac:(unfold q; lia)) as [b1 [E1 [_ D1]]].
  assert (Hb1 : b1 = int_enc E 2 pid).
  { unfold ser_prim, ret in E1. rewrite even_align2 in E1 by lia. cbn [app prim_bytes sk_bytes] in E1.
    injection E1; intros; congruence. }
  (* the value *)
  assert (Hbody : exists body p3,
    match lookup (m_id (fst mt)) d with
    | Some _ => unwrap (ser_value (cvS V1 E ms) d (m_id (fst mt)) 0)
    | None => Ok ([], 0)
    end = Ok (body, p3) /\ p3 = blen body /\
    (match lookup (m_id (fst mt)) d with Some _ => 1 <= blen body | None => body = [] end) /\
    (blen body <= B -> forall pre post c, blen pre = c_org c + 0 -> c_org c + 0 + blen body <= c_lim c ->
       match lookup (m_id (fst mt)) d with
       | Some v => des_ty V1 E (pre ++ body ++ post) (snd mt) c (c_org c + 0) = DOk v (c_org c + 0 + blen body)
       | None => True
       end)).
  { destruct (lookup (m_id (fst mt)) d) as [v|] eqn:Hv.
    - destruct (Hmem 0 ltac:(lia)) as [body [Eb [Mb Db]]].
      exists body, (blen body). split; [|split; [reflexivity|split]].
      + unfold ser_value. rewrite find_cvS by assumption. unfold get.  rewrite Hv. cbn [bind].
        rewrite Eb. reflexivity.
      + unfold msz in Mb. rewrite Hocc in Mb. exact Mb.
      + intros. now apply Db.
    - exists [], 0. repeat split; auto. }
  destruct Hbody as [body [p3 [Eb [Hp3 [Hbl Db]]]]]. subst p3.
  pose proof (blen_nonneg body) as Hbn.
  set (L := wrap_u16 (blen body)).
  destruct (rt_prim V1 E B KU16 L ltac:(unfold in_range, L, wrap_u16; apply andb_true_intro; split; [apply Z.leb_le|apply Z.ltb_lt]; lia)
              (q + 2) ltac:(unfold q; lia)) as [b2 [E2 [_ D2]]].
  assert (Hb2 : b2 = int_enc E 2 L).
  { unfold ser_prim, ret in E2. rewrite even_align2 in E2 by lia. cbn [app prim_bytes sk_bytes] in E2.
    injection E2; intros; congruence. }
  exists (pad ++ b1 ++ b2 ++ body). split; [|split].
  - unfold ser_mmember1.  rewrite find_cvS by assumption. cbv zeta.
    replace (16384 <=? m_id (fst mt)) with false by (symmetry; apply Z.leb_gt; lia). fold pid. fold pad. fold q. rewrite E1. cbn [bind]. rewrite Eb. cbn [bind].
    rewrite Hb2. fold L. f_equal. f_equal. subst b1.
    rewrite !blen_app, !int_enc_blen. unfold q. lia.
  - subst b1 b2. rewrite !blen_app, !int_enc_blen. lia.
  - subst b1 b2. rewrite !blen_app, !int_enc_blen. intros HBs pre post c Hpre Hlim.
    unfold des_opt_fmember.
    (* ALIGN(4) *)
    unfold dec_align. replace (c_org c + pos - c_org c) with pos by lia.
    change (Z.min 4 8) with 4. rewrite seek_ok by lia. cbn [dbind].
    (* pid *)
    replace (pre ++ (pad ++ int_enc E 2 pid ++ int_enc E 2 L ++ body) ++ post)
      with ((pre ++ pad) ++ int_enc E 2 pid ++ (int_enc E 2 L ++ body ++ post))
      by now rewrite <- !app_assoc.
    replace (c_org c + pos + padlen pos 4) with (c_org c + q) by (unfold q; lia).
    rewrite (D1 ltac:(rewrite int_enc_blen; lia) (pre ++ pad) _ c
               ltac:(rewrite blen_app; unfold q; lia) ltac:(rewrite int_enc_blen; unfold q; lia)).
    cbn [dbind]. rewrite int_enc_blen.
    (* length *)
    replace ((pre ++ pad) ++ int_enc E 2 pid ++ int_enc E 2 L ++ body ++ post)
      with ((pre ++ pad ++ int_enc E 2 pid) ++ int_enc E 2 L ++ (body ++ post))
      by now rewrite <- !app_assoc.
    replace (c_org c + q + Z.of_nat 2) with (c_org c + (q + 2)) by lia.
    rewrite (D2 ltac:(rewrite int_enc_blen; lia) (pre ++ pad ++ int_enc E 2 pid) _ c
               ltac:(rewrite !blen_app, int_enc_blen; unfold q; lia)
               ltac:(rewrite int_enc_blen; unfold q; lia)).
    cbn [dbind]. rewrite int_enc_blen.
    assert (HL : L = blen body) by (unfold L, wrap_u16; apply Z.mod_small; lia).
    destruct (lookup (m_id (fst mt)) d) as [v|] eqn:Hv.
    + replace (L >? 0) with true by (symmetry; rewrite Z.gtb_ltb; apply Z.ltb_lt; lia).
      unfold des_value. cbn [fst snd]. 
      replace ((pre ++ pad ++ int_enc E 2 pid) ++ int_enc E 2 L ++ body ++ post)
        with ((pre ++ pad ++ int_enc E 2 pid ++ int_enc E 2 L) ++ body ++ post)
        by now rewrite <- !app_assoc.
      set (p2 := c_org c + (q + 2) + Z.of_nat 2).
      pose proof (Db ltac:(lia) (pre ++ pad ++ int_enc E 2 pid ++ int_enc E 2 L) post (mkC p2 (c_lim c))) as Dv.
      cbn [c_org c_lim] in Dv. rewrite !Z.add_0_r in Dv.
      rewrite Dv by (rewrite ?blen_app, ?int_enc_blen; unfold p2, q; lia).
      cbn [dbind]. subst p2 q. change (Z.of_nat 2) with 2. apply f_equal. lia.
    + subst body. rewrite blen_nil in HL. rewrite HL. cbn [Z.gtb Z.compare].
      f_equal. rewrite blen_nil. unfold q. lia.
Qed.

Lemma rt_fmember : forall V E B ms d mt acc, mem_hyp V E B ms d -> In mt ms ->
  rt_ok B (mlow mt) (ser_fmember V E (cvS V E ms) d (m_id (fst mt)))
        (fun buf c => des_fmember V E buf (fst mt, (snd mt, des_ty V E buf (snd mt))) acc c)
        (match lookup (m_id (fst mt)) d with
         | Some v => insert (m_id (fst mt)) v acc
         | None => acc
         end).
Proof.
  intros V E B ms d mt acc HH Hin. pose proof HH as [Hnd [HB1 [Hoc Hmem]]].
  pose proof Hmem as Hm. rewrite Forall_forall in Hm. specialize (Hm mt Hin).
  unfold mlow.
  destruct (m_opt (fst mt)) eqn:Hopt; cbn [orb].
  - destruct V.
    + (* XCDR1: parameter read in place *)
      apply (rt_weaken B 4); [lia|].
      eapply rt_ext with (f := ser_mmember1 V1 E (cvS V1 E ms) d (m_id (fst mt))).
      * intros pos. unfold ser_fmember. rewrite find_cvS by assumption. now rewrite Hopt.
      * intros buf c pos. unfold des_fmember. cbn [fst]. now rewrite Hopt.
      * now apply rt_opt1.
    + destruct (lookup (m_id (fst mt)) d) as [v|] eqn:Hv.
      * apply (rt_weaken B (1 + msz (snd mt))); [unfold msz; destruct (occupies (snd mt)); lia|].
        eapply rt_ext with (f := seq2 (ser_prim V2 E KBool 1) (ser_value (cvS V2 E ms) d (m_id (fst mt)))).
        -- intros pos. unfold ser_fmember. rewrite find_cvS by assumption. rewrite Hopt.
           unfold ser_opt_fmember. rewrite Hv. reflexivity.
        -- intros buf c pos. unfold des_fmember. cbn [fst]. rewrite Hopt. unfold des_opt_fmember. reflexivity.
        -- apply (rt_bind B 1 (msz (snd mt)) _ _ (fun buf c => des_prim V2 E buf c KBool)
                   (fun b buf c p => if b =? 1
                      then des_value (fst mt, (snd mt, des_ty V2 E buf (snd mt))) acc c p
                      else DOk acc p) 1).
           ++ apply (rt_prim V2 E B KBool 1). reflexivity.
           ++ change (1 =? 1) with true. cbv iota. now apply rt_value.
      * eapply rt_ext with (f := ser_prim V2 E KBool 0).
        -- intros pos. unfold ser_fmember. rewrite find_cvS by assumption. rewrite Hopt.
           unfold ser_opt_fmember. rewrite Hv. reflexivity.
        -- intros buf c pos. unfold des_fmember. cbn [fst]. rewrite Hopt. unfold des_opt_fmember. reflexivity.
        -- intros pos Hpos.
           destruct (rt_prim V2 E B KBool 0 eq_refl pos Hpos) as [bs [E1 [M1 D1]]].
           exists bs. split; [exact E1|]. split; [exact M1|].
           intros HB pre post c Hpre Hlim. now rewrite (D1 HB pre post c Hpre Hlim).
  - destruct (lookup (m_id (fst mt)) d) as [v|] eqn:Hv; [|congruence].
    eapply rt_ext with (f := ser_value (cvS V E ms) d (m_id (fst mt))).
    + intros pos. unfold ser_fmember. rewrite find_cvS by assumption. now rewrite Hopt.
    + intros buf c pos. unfold des_fmember. cbn [fst]. now rewrite Hopt.
    + fold (msz (snd mt)). now apply rt_value.
Qed.

Lemma rt_fmembers : forall V E B ms d app ms2 acc, mem_hyp V E B ms d -> incl ms2 ms ->
  rt_ok B (slow ms2)
        (ser_list (fun mx : minfo * (ty * F) => ser_fmember V E (cvS V E ms) d (m_id (fst mx))) (cvS V E ms2))
        (fun buf c => des_fstruct V E buf app (cvD V E buf ms2) acc c)
        (ins ms2 d acc).
Proof.
  intros V E B ms d app ms2 acc HH. revert acc.
  induction ms2 as [|mt r IH]; intros acc Hincl.
  - apply rt_nil.
  - intros pos Hpos.
    assert (Hin : In mt ms) by (apply Hincl; now left).
    destruct (rt_fmember V E B ms d mt acc HH Hin pos Hpos) as [b1 [E1 [M1 D1]]].
    pose proof (blen_nonneg b1).
    set (acc' := match lookup (m_id (fst mt)) d with
                 | Some v => insert (m_id (fst mt)) v acc | None => acc end) in *.
    assert (Hincl' : incl r ms) by (intros x Hx; apply Hincl; now right).
    destruct (IH acc' Hincl' (pos + blen b1) ltac:(lia)) as [b2 [E2 [M2 D2]]].
    pose proof (blen_nonneg b2).
    exists (b1 ++ b2). split; [|split].
    + cbn [cvS map ser_list fst]. rewrite E1. cbn [bind].
      fold (cvS V E r). rewrite E2. cbn [bind]. rewrite blen_app. f_equal. f_equal. lia.
    + rewrite blen_app. unfold slow, mlow in *. cbn [existsb].
      destruct (m_opt (fst mt) || occupies (snd mt)); cbn [orb];
        destruct (existsb (fun mt0 : minfo * ty => m_opt (fst mt0) || occupies (snd mt0)) r); lia.
    + rewrite blen_app. intros HB pre post c Hpre Hlim.
      pose proof (D1 ltac:(lia) pre (b2 ++ post) c Hpre ltac:(lia)) as D1'.
      pose proof (D2 ltac:(lia) (pre ++ b1) post c ltac:(rewrite blen_app; lia) ltac:(lia)) as D2'.
      replace (pre ++ b1 ++ b2 ++ post) with (pre ++ (b1 ++ b2) ++ post) in D1'
        by now rewrite <- !app_assoc.
      replace ((pre ++ b1) ++ b2 ++ post) with (pre ++ (b1 ++ b2) ++ post) in D2'
        by now rewrite <- !app_assoc.
      set (buf := pre ++ (b1 ++ b2) ++ post) in *.
      cbn [cvD map des_fstruct]. rewrite D1'.
      change (map (fun mt0 : minfo * ty => (fst mt0, (snd mt0, des_ty V E buf (snd mt0)))) r)
        with (cvD V E buf r).
      subst acc'.
      replace (c_org c + pos + (blen b1 + blen b2)) with (c_org c + (pos + blen b1) + blen b2) by lia.
      replace (c_org c + pos + blen b1) with (c_org c + (pos + blen b1)) by lia.
      unfold ins in *. cbn [fold_left]. exact D2'.
Qed.

Lemma as_fstruct_result : forall (r : dres dyn) d e, r = DOk d e ->
  match r with DOk d' _ => DOk d' e | DErr code p' => DErr code p' | DPanic s => DPanic s end = DOk d e.
Proof. intros. subst. reflexivity. Qed.

Lemma rt_struct : forall V E B ms d x, B <= u32_max -> mem_hyp V E B ms d -> x <> Mutable ->
  rt_ok B (slow ms) (ser_struct_nested V E x (cvS V E ms) d)
        (fun buf c => des_struct_nested V E buf x (cvD V E buf ms) c)
        (ins ms d []).
Proof.
  intros V E B ms d x HBu HH Hx. destruct x; [| |congruence]; unfold ser_struct_nested, des_struct_nested.
  - apply (rt_fmembers V E B ms d false ms [] HH). apply incl_refl.
  - unfold ser_appendable. destruct V.
    + apply (rt_fmembers V1 E B ms d true ms [] HH). apply incl_refl.
    + apply (rt_weaken B (4 + slow ms)); [unfold slow; destruct (existsb _ ms); lia|].
      unfold des_appendable2.
      apply (rt_appendable2 V2 E B (slow ms) _
               (fun buf c => des_fstruct V2 E buf true (cvD V2 E buf ms) [] c) (ins ms d []) HBu).
      apply (rt_fmembers V2 E B ms d true ms [] HH). apply incl_refl.
Qed.

(* ------------------------------------------------------------------ collections *)
Definition des_elems_body (V : ver) (E : endian) (buf : list Z) (e : ty) (ge : G) (n : Z) (c : rctx) (pos : Z)
  : dres val :=
  match e with
  | TPrim p =>
    match p with
    | PByte | PU8 => dbind (read_bytes buf c pos n) (fun bs p' => DOk (VSeqP KU8 bs) p')
    | _ => dbind (des_z (des_prim V E buf c (prim_sk p)) n pos) (fun l p' => DOk (VSeqP (prim_sk p) l) p')
    end
  | TStr => dbind (des_z (des_string V E buf c) n pos) (fun l p' => DOk (VSeqStr l) p')
  | TWStr => dbind (des_z (des_wstring V E buf c) n pos) (fun l p' => DOk (VSeqStr l) p')
  | TEnum _ _ | TStruct _ _ | TUnion _ _ _ =>
    dbind (des_z (fun p => undata (ge c p)) n pos) (fun l p' => DOk (VSeqData l) p')
  | TSeq _ | TArr _ _ => DPanic P_TODO
  end.
Lemma des_elements_unfold : forall V E buf e ge n c pos,
  des_elements V E buf e ge n c pos =
  if negb (can_be_empty e) && too_long c n pos then DErr E_NED pos
  else des_elems_body V E buf e ge n c pos.
Proof. intros. unfold des_elements, des_elems_body. destruct e; reflexivity. Qed.

Lemma rt_prim_elems : forall V E B k l,
  forallb (in_range k) l = true ->
  rt_ok B (blen l) (ser_list (ser_prim V E k) l) (fun buf c => des_z (des_prim V E buf c k) (blen l)) l.
Proof.
  intros V E B k l Hr.
  pose proof (rt_list_id B 1 (ser_prim V E k) (fun buf c => des_prim V E buf c k) l (blen l) ltac:(lia) eq_refl) as H.
  rewrite Z.mul_1_l in H. apply H.
  intros z Hz. rewrite forallb_forall in Hr.
  apply (rt_weaken B (sk_size k)); [pose proof (sk_size_pos k); lia|]. apply rt_prim. now apply Hr.
Qed.

Lemma rt_elements : forall V E B e (w : val -> bool) fe fu (ge : list Z -> G) v,
  elem_ok e = true -> is_union e = false -> occupies e || can_be_empty e = true ->
  elems_wt e w v = true ->
  (forall d, w (VData d) = true -> rt_ok B (msz e) (fe (VData d)) ge (VData d)) ->
  rt_ok B (if can_be_empty e then 0 else seq_length v)
        (ser_elements V E e fe fu v)
        (fun buf c => des_elements V E buf e (ge buf) (seq_length v) c) v.
Proof.
  intros V E B e w fe fu ge v Hok Hnu Hoe Hw Hfe.
  eapply rt_ext with (f := ser_elements V E e fe fu v)
    (df := fun buf c p => if negb (can_be_empty e) && too_long c (seq_length v) p then DErr E_NED p
                          else des_elems_body V E buf e (ge buf) (seq_length v) c p).
  { reflexivity. } { intros. now rewrite des_elements_unfold. }
  apply rt_guard.
  { intros Hg. apply negb_true_iff in Hg. rewrite Hg. lia. }
  (* aggregated elements: lower bound 1 per element if the type occupies, else none *)
  assert (Hagg : forall l, v = VSeqData l -> forallb (fun d => w (VData d)) l = true ->
            rt_ok B (if can_be_empty e then 0 else Z.of_nat (length l))
                  (ser_list (fun d => fe (VData d)) l)
                  (fun buf c pos => dbind (des_z (fun p => undata (ge buf c p)) (Z.of_nat (length l)) pos)
                                          (fun l' p' => DOk (VSeqData l') p'))
                  (VSeqData l)).
  { intros l _ Hwl. apply (rt_map B _ _ _ l VSeqData).
    assert (Hel : forall m, m <= msz e -> forall d, In d l ->
              rt_ok B m (fe (VData d)) (fun buf c p => undata (ge buf c p)) d).
    { intros m Hm d Hd. rewrite forallb_forall in Hwl.
      apply (rt_weaken B (msz e)); [exact Hm|].
      pose proof (Hfe d (Hwl d Hd)) as Hrt.
      intros pos Hpos. destruct (Hrt pos Hpos) as [bs [E1 [M1 D1]]].
      exists bs. split; [exact E1|]. split; [exact M1|].
      intros HB pre post c Hpre Hlim. unfold undata. now rewrite (D1 HB pre post c Hpre Hlim). }
    destruct (can_be_empty e) eqn:Hc.
    - pose proof (rt_list_id B 0 (fun d => fe (VData d)) (fun buf c p => undata (ge buf c p)) l
                    (Z.of_nat (length l)) ltac:(lia) eq_refl) as H. rewrite Z.mul_0_l in H. apply H.
      apply Hel. unfold msz. destruct (occupies e); lia.
    - rewrite orb_false_r in Hoe.
      pose proof (rt_list_id B 1 (fun d => fe (VData d)) (fun buf c p => undata (ge buf c p)) l
                    (Z.of_nat (length l)) ltac:(lia) eq_refl) as H. rewrite Z.mul_1_l in H. apply H.
      apply Hel. unfold msz. rewrite Hoe. lia. }
  destruct e as [p| | |h ls|e'|n e'|x ms|x dd cs]; try discriminate; cbn [elems_wt] in Hw.
  - cbn [can_be_empty]. destruct v as [| | |k l| |]; try discriminate.
    apply andb_prop in Hw as [Hk Hr]. apply sk_eqb_eq in Hk. subst k. cbn [seq_length].
    assert (Hgen : rt_ok B (blen l) (ser_list (ser_prim V E (prim_sk p)) l)
              (fun buf c pos => dbind (des_z (des_prim V E buf c (prim_sk p)) (blen l) pos)
                                      (fun l' p' => DOk (VSeqP (prim_sk p) l') p'))
              (VSeqP (prim_sk p) l)).
    { apply (rt_map B _ _ _ l (VSeqP (prim_sk p))). now apply rt_prim_elems. }
    assert (Hraw : rt_ok B (blen l) (ret l)
              (fun buf c pos => dbind (read_bytes buf c pos (blen l)) (fun bs p' => DOk (VSeqP KU8 bs) p'))
              (VSeqP KU8 l)).
    { apply (rt_map B _ _ _ l (VSeqP KU8)). apply rt_raw. }
    destruct p; cbn [ser_elements des_elems_body prim_sk sk_eqb] in *; first [exact Hraw | exact Hgen].
  - cbn [can_be_empty]. destruct v as [| | | |l|]; try discriminate. cbn [ser_elements des_elems_body seq_length].
    apply (rt_map B _ _ _ l VSeqStr).
    pose proof (rt_list_id B 1 (ser_string V E) (fun buf c => des_string V E buf c) l (Z.of_nat (length l))
                  ltac:(lia) eq_refl) as H. rewrite Z.mul_1_l in H. apply H.
    intros s Hs. rewrite forallb_forall in Hw. apply rt_string. now apply Hw.
  - cbn [can_be_empty]. destruct v as [| | | |l|]; try discriminate. cbn [ser_elements des_elems_body seq_length].
    apply (rt_map B _ _ _ l VSeqStr).
    pose proof (rt_list_id B 1 (ser_wstring V E) (fun buf c => des_wstring V E buf c) l (Z.of_nat (length l))
                  ltac:(lia) eq_refl) as H. rewrite Z.mul_1_l in H. apply H.
    intros s Hs. rewrite forallb_forall in Hw. apply rt_wstring. now apply Hw.
  - destruct v as [| | | | |l]; try discriminate. cbn [ser_elements des_elems_body seq_length].
    now apply Hagg.
  - destruct v as [| | | | |l]; try discriminate. cbn [ser_elements des_elems_body seq_length].
    now apply Hagg.
Qed.

Lemma seq_length_nonneg : forall v, 0 <= seq_length v.
Proof. destruct v; cbn [seq_length]; try lia; try apply blen_nonneg. Qed.

Lemma rt_sequence : forall V E B m e fe fu (ge : list Z -> G) v,
  0 <= m -> seq_length v <= u32_max ->
  rt_ok B m (ser_elements V E e fe fu v) (fun buf c => des_elements V E buf e (ge buf) (seq_length v) c) v ->
  rt_ok B 1 (ser_sequence V E e fe fu v) (fun buf c => des_sequence V E buf e (ge buf) c) v.
Proof.
  intros V E B m e fe fu ge v Hm Hlen Hel.
  pose proof (seq_length_nonneg v) as Hnn.
  assert (Hbody : rt_ok B (4 + m) (seq2 (ser_length V E v) (ser_elements V E e fe fu v))
            (fun buf c pos => dbind (des_prim V E buf c KU32 pos)
                                    (fun len p => des_elements V E buf e (ge buf) len c p)) v).
  { apply (rt_bind B 4 m _ _ (fun buf c => des_prim V E buf c KU32)
             (fun len buf c p => des_elements V E buf e (ge buf) len c p) (seq_length v) v).
    - unfold ser_length.
      replace (wrap_u32 (seq_length v)) with (seq_length v)
        by (unfold wrap_u32, two32; symmetry; apply Z.mod_small; unfold u32_max in *; lia).
      apply rt_u32. lia.
    - exact Hel. }
  unfold ser_sequence, des_sequence. cbv zeta.
  destruct (is_prim_ty e); [apply (rt_weaken B (4 + m)); [lia|exact Hbody]|].
  destruct V; [apply (rt_weaken B (4 + m)); [lia|exact Hbody]|].
  apply (rt_weaken B (4 + (4 + m))); [lia|].
  apply (rt_dheader V2 E B (4 + m) _
           (fun buf c pos => dbind (des_prim V2 E buf c KU32 pos)
                                   (fun len p => des_elements V2 E buf e (ge buf) len c p))).
  exact Hbody.
Qed.

Lemma rt_array : forall V E B m n e fe fu (ge : list Z -> G) v,
  0 <= m -> seq_length v = n ->
  rt_ok B m (ser_elements V E e fe fu v) (fun buf c => des_elements V E buf e (ge buf) (seq_length v) c) v ->
  rt_ok B m (ser_array V E e fe fu v) (fun buf c => des_array V E buf n e (ge buf) c) v.
Proof.
  intros V E B m n e fe fu ge v Hm Hlen Hel. subst n.
  unfold ser_array, des_array.
  destruct (is_prim_ty e); [exact Hel|].
  destruct V; [exact Hel|].
  apply (rt_weaken B (4 + m)); [lia|].
  apply (rt_dheader V2 E B m _ (fun buf c => des_elements V2 E buf e (ge buf) (seq_length v) c)).
  exact Hel.
Qed.

(* ------------------------------------------------------------------ the main induction *)
Lemma tgood_members : forall V ms,
  (fix go (ms : list (minfo * ty)) : bool :=
     match ms with [] => true | (m, t') :: r => wf_ty t' && go r end) ms = true ->
  (fix go (ms : list (minfo * ty)) : bool :=
     match ms with [] => false | (_, t') :: r => ty_any (tbad V) t' || go r end) ms = false ->
  Forall (fun mt => tgood V (snd mt) = true) ms.
Proof.
  induction ms as [|[m t] r IH]; intros H1 H2; [constructor|].
  apply andb_prop in H1 as [H1a H1b]. apply orb_false_elim in H2 as [H2a H2b].
  constructor; [|now apply IH]. cbn [snd]. unfold tgood. now rewrite H1a, H2a.
Qed.

Lemma tgood_struct : forall V x ms, tgood V (TStruct x ms) = true ->
  nodup_z (ids ms) = true /\ tbad V (TStruct x ms) = false /\
  Forall (fun mt => tgood V (snd mt) = true) ms.
Proof.
  intros V x ms H. unfold tgood in H. apply andb_prop in H as [Hw Ha].
  apply negb_true_iff in Ha. cbn [wf_ty ty_any] in Hw, Ha.
  apply orb_false_elim in Ha as [Hb Hg].
  apply andb_prop in Hw as [Hw Hg']. apply andb_prop in Hw as [Hnd _].
  repeat split; try assumption. now apply tgood_members.
Qed.

Lemma tgood_elem : forall V e, wf_ty e = true -> ty_any (tbad V) e = false -> tgood V e = true.
Proof. intros. unfold tgood. now rewrite H, H0. Qed.

Lemma wt_members : forall d ms,
  (fix go (ms : list (minfo * ty)) : bool :=
     match ms with
     | [] => true
     | (m, t') :: r =>
       (match lookup (m_id m) d with Some v' => wt t' v' | None => m_opt m end) && go r
     end) ms = true ->
  Forall (fun mt : minfo * ty =>
            match lookup (m_id (fst mt)) d with
            | Some v' => wt (snd mt) v' = true
            | None => m_opt (fst mt) = true
            end) ms.
Proof.
  induction ms as [|[m t] r IH]; intros H; [constructor|].
  apply andb_prop in H as [H1 H2]. constructor; [|now apply IH].
  cbn [fst snd]. destruct (lookup (m_id m) d); exact H1.
Qed.

Lemma ty_any_self : forall p t, ty_any p t = false -> p t = false.
Proof. intros p t H. destruct t; cbn [ty_any] in H; apply orb_false_elim in H; tauto. Qed.

Lemma ser_ty_seq : forall V E e, exists fu, ser_ty V E (TSeq e) = ser_sequence V E e (ser_ty V E e) fu.
Proof. intros. eexists. reflexivity. Qed.
Lemma ser_ty_arr : forall V E n e, exists fu, ser_ty V E (TArr n e) = ser_array V E e (ser_ty V E e) fu.
Proof. intros. eexists. reflexivity. Qed.

Lemma ty_any_member : forall p x ms mt, In mt ms -> ty_any p (snd mt) = true ->
  ty_any p (TStruct x ms) = true.
Proof.
  intros p x ms mt Hin Ht. cbn [ty_any]. apply orb_true_iff. right.
  induction ms as [|[m t] r IH]; [contradiction|].
  destruct Hin as [<-|Hin]; cbn [snd] in *.
  - now rewrite Ht.
  - rewrite (IH Hin). apply orb_true_r.
Qed.

Lemma occ_or_cbe : forall t, wf_ty t = true -> occupies t || can_be_empty t = true.
Proof.
  induction t using ty_ind'; intros Hwf; try reflexivity.
  - (* array *)
    cbn [wf_ty] in Hwf. apply andb_prop in Hwf as [Hwf Hn2]. apply andb_prop in Hwf as [Hwf Hn1].
    apply andb_prop in Hwf as [_ Hwfe]. apply Z.leb_le in Hn1. specialize (IHt Hwfe).
    cbn [occupies can_be_empty]. destruct (Z.leb_spec 1 n); destruct (Z.eqb_spec n 0); cbn [andb orb]; try lia;
      try reflexivity. destruct (occupies t); [reflexivity|exact IHt].
  - (* structure *)
    cbn [wf_ty] in Hwf. apply andb_prop in Hwf as [_ Hgo].
    cbn [occupies can_be_empty].
    induction H as [|[m t'] r Hx Hr IH]; [reflexivity|].
    apply andb_prop in Hgo as [Hw1 Hw2]. cbn [snd] in Hx. specialize (Hx Hw1). specialize (IH Hw2).
    destruct (m_opt m); cbn [orb negb andb]; [reflexivity|].
    destruct (occupies t'); cbn [orb]; [reflexivity|]. cbn [orb] in Hx. rewrite Hx. cbn [andb]. exact IH.
Qed.

Lemma occ_cbe_excl : forall t, occupies t = true -> can_be_empty t = false.
Proof.
  induction t using ty_ind'; intros Ho; try reflexivity.
  - cbn [occupies] in Ho. apply andb_prop in Ho as [Hn Hoe]. apply Z.leb_le in Hn.
    cbn [can_be_empty]. rewrite (IHt Hoe). destruct (Z.eqb_spec n 0); [lia|reflexivity].
  - cbn [occupies] in Ho. cbn [can_be_empty].
    induction H as [|[m t'] r Hx Hr IH]; [discriminate|]. cbn [snd] in Hx.
    destruct (m_opt m); cbn [negb andb]; [reflexivity|]. cbn [orb] in Ho.
    destruct (occupies t') eqn:Hot.
    + rewrite (Hx eq_refl). reflexivity.
    + cbn [orb] in Ho. rewrite (IH Ho). apply andb_false_r.
Qed.

(* size bound of the decode clause *)
Definition Bok (V : ver) (B : Z) (t : ty) : Prop :=
  B <= u32_max /\ (V = V1 -> ty_any has_opt_member t = true -> B <= 65535).

Theorem rt_ty : forall V E B t, tgood V t = true -> Bok V B t ->
  forall v, wt t v = true ->
  rt_ok B (msz t) (ser_ty V E t v) (fun buf c => des_ty V E buf t c) v.
Proof.
  intros V E B t. induction t using ty_ind'; intros Hg HB v Hw.
  - cbn [wt] in Hw. destruct v as [k z| | | | |]; try discriminate.
    apply andb_prop in Hw as [Hk Hr]. pose proof (sk_eqb_eq _ _ Hk) as ->.
    cbn [ser_ty des_ty]. rewrite sk_eqb_refl.
    apply (rt_map B _ _ _ z (VP (prim_sk p))).
    apply (rt_weaken B (sk_size (prim_sk p))); [pose proof (sk_size_pos (prim_sk p)); unfold msz; cbn; lia|].
    now apply rt_prim.
  - cbn [wt] in Hw. destruct v as [|s| | | |]; try discriminate. cbn [ser_ty des_ty].
    apply (rt_map B _ _ _ s VStr). now apply rt_string.
  - cbn [wt] in Hw. destruct v as [|s| | | |]; try discriminate. cbn [ser_ty des_ty].
    apply (rt_map B _ _ _ s VStr). now apply rt_wstring.
  - assert (Hh : holder_ok h = true).
    { unfold tgood in Hg. apply andb_prop in Hg as [Hg _]. cbn [wf_ty] in Hg. now apply andb_prop in Hg as [Hg _]. }
    destruct v as [| |d| | |]; try (cbn [wt] in Hw; discriminate).
    cbn [ser_ty des_ty on_data]. unfold as_data.
    apply (rt_map B _ _ _ d VData). now apply rt_enum.
  - (* sequence *)
    unfold tgood in Hg. apply andb_prop in Hg as [Hwf Ha]. apply negb_true_iff in Ha.
    cbn [wf_ty] in Hwf. apply andb_prop in Hwf as [Hok Hwfe].
    cbn [ty_any] in Ha. apply orb_false_elim in Ha as [Hself Hae].
    pose proof (tgood_elem V t Hwfe Hae) as Hge.
    assert (HBe : Bok V B t).
    { destruct HB as [HB0 HB1]. split; [exact HB0|]. intros HV Ho. apply HB1; [exact HV|].
      cbn [ty_any]. rewrite Ho. apply orb_true_r. }
    cbn [wt] in Hw. apply andb_prop in Hw as [Hel Hlen]. apply Z.leb_le in Hlen.
    destruct (ser_ty_seq V E t) as [fu ->]. cbn [des_ty].
    pose proof (occ_or_cbe t Hwfe) as Hz.
    pose proof (ty_any_self _ _ Hae) as Hb. unfold tbad in Hb.
    apply orb_false_elim in Hb as [Hb _]. apply orb_false_elim in Hb as [Hb1 _].
    apply (rt_sequence V E B (if can_be_empty t then 0 else seq_length v)); [|exact Hlen|].
    { pose proof (seq_length_nonneg v). destruct (can_be_empty t); lia. }
    apply (rt_elements V E B t (wt t)); try assumption.
    intros d Hwd. now apply IHt.
  - (* array *)
    unfold tgood in Hg. apply andb_prop in Hg as [Hwf Ha]. apply negb_true_iff in Ha.
    cbn [wf_ty] in Hwf. apply andb_prop in Hwf as [Hwf _]. apply andb_prop in Hwf as [Hwf _].
    apply andb_prop in Hwf as [Hok Hwfe].
    cbn [ty_any] in Ha. apply orb_false_elim in Ha as [Hself Hae].
    pose proof (tgood_elem V t Hwfe Hae) as Hge.
    assert (HBe : Bok V B t).
    { destruct HB as [HB0 HB1]. split; [exact HB0|]. intros HV Ho. apply HB1; [exact HV|].
      cbn [ty_any]. rewrite Ho. apply orb_true_r. }
    cbn [wt] in Hw. apply andb_prop in Hw as [Hel Hlen]. apply Z.eqb_eq in Hlen.
    destruct (ser_ty_arr V E n t) as [fu ->]. cbn [des_ty].
    pose proof (occ_or_cbe t Hwfe) as Hz.
    pose proof (ty_any_self _ _ Hae) as Hb. unfold tbad in Hb.
    apply orb_false_elim in Hb as [Hb _]. apply orb_false_elim in Hb as [Hb1 _].
    apply (rt_weaken B (if can_be_empty t then 0 else seq_length v)).
    { unfold msz. cbn [occupies]. pose proof (seq_length_nonneg v).
      destruct (Z.leb_spec 1 n); cbn [andb]; [|destruct (can_be_empty t); lia].
      destruct (occupies t) eqn:Ho; [|destruct (can_be_empty t); lia].
      rewrite (occ_cbe_excl t Ho). lia. }
    apply rt_array; [pose proof (seq_length_nonneg v); destruct (can_be_empty t); lia|exact Hlen|].
    apply (rt_elements V E B t (wt t)); try assumption.
    intros d Hwd. now apply IHt.
  - (* structure *)
    destruct (tgood_struct V x ms Hg) as [Hnd [Hb Hgm]].
    destruct v as [| |d| | |]; try (cbn [wt] in Hw; discriminate).
    cbn [wt] in Hw. apply andb_prop in Hw as [Hw Hgo]. apply andb_prop in Hw as [Hs Hk].
    apply wt_members in Hgo.
    assert (Hids : forallb id_ok (ids ms) = true).
    { unfold tgood in Hg. apply andb_prop in Hg as [Hwf _]. cbn [wf_ty] in Hwf.
      apply andb_prop in Hwf as [Hwf _]. now apply andb_prop in Hwf as [_ Hwf]. }
    unfold tbad in Hb. apply orb_false_elim in Hb as [Hb Hb3]. apply orb_false_elim in Hb as [_ Hmut].
    assert (Hx : x <> Mutable) by (intros ->; discriminate).
    destruct HB as [HB0 HB1].
    assert (HH : mem_hyp V E B ms d).
    { split; [exact Hnd|]. split; [|split].
      - intros HV Ho. apply HB1; [exact HV|]. cbn [ty_any has_opt_member]. rewrite Ho. reflexivity.
      - apply Forall_forall. intros mt Hin Hopt ->.
        apply orb_false_elim in Hb3 as [Hzt Hpl]. cbn [opt_empty_trap] in Hzt. cbn [pl_long] in Hpl. split.
        + destruct (occupies (snd mt)) eqn:Hoc; [reflexivity|].
          assert (existsb (fun mx : minfo * ty => m_opt (fst mx) && negb (occupies (snd mx))) ms = true).
          { apply existsb_exists. exists mt. split; [exact Hin|]. now rewrite Hopt, Hoc. }
          congruence.
        + rewrite forallb_forall in Hids.
          pose proof (Hids (m_id (fst mt)) ltac:(unfold ids; apply in_map_iff; now exists mt)) as Hi.
          unfold id_ok in Hi. apply andb_prop in Hi as [Hi0 _]. apply Z.leb_le in Hi0.
          destruct (Z.leb_spec 16384 (m_id (fst mt))) as [Hge|]; [|lia].
          assert (existsb (fun mx : minfo * ty => m_opt (fst mx) && (16384 <=? m_id (fst mx))) ms = true).
          { apply existsb_exists. exists mt. split; [exact Hin|]. rewrite Hopt. cbn [andb]. now apply Z.leb_le. }
          congruence.
      - rewrite Forall_forall in *. intros mt Hin.
        specialize (H mt Hin). specialize (Hgm mt Hin). specialize (Hgo mt Hin).
        destruct (lookup (m_id (fst mt)) d) as [v'|] eqn:Hl; [|exact Hgo].
        apply H; [exact Hgm| |exact Hgo].
        split; [exact HB0|]. intros HV Ho. apply HB1; [exact HV|].
        now apply (ty_any_member _ x ms mt). }
    rewrite ser_ty_struct. cbn [on_data].
    eapply rt_ext with (df := fun buf c pos =>
      dbind (des_struct_nested V E buf x (cvD V E buf ms) c pos) (fun d' p => DOk (VData d') p)).
    + reflexivity.
    + intros. now rewrite des_ty_struct.
    + pose proof (rt_map B _ _ _ (ins ms d []) VData (rt_struct V E B ms d x HB0 HH Hx)) as Hr.
      rewrite (ins_eq ms d Hs Hk) in Hr. unfold msz. rewrite occupies_struct. exact Hr.
  - exfalso. unfold tgood in Hg. apply andb_prop in Hg as [_ Hg]. apply negb_true_iff in Hg.
    apply ty_any_self in Hg. discriminate.
Qed.

(* ------------------------------------------------------------------ top level *)
Lemma dispatch_ok : forall V E x, dispatch 0 (repr_id V E x) = Some (V, E).
Proof. destruct V, E, x; reflexivity. Qed.

Lemma pad_count_range : forall n, 0 <= pad_count n <= 3.
Proof. intros. unfold pad_count. lia. Qed.

(* shape of every successful serialization: header with the padding count in the options
   byte, body, that many zero bytes; total length a multiple of 4 *)
Theorem encode_shape : forall V E t v bs, encode V E t v = Ok bs ->
  exists body p n,
    ser_ty V E t v 0 = Ok (body, p) /\
    n = pad_count (4 + blen body) /\ 0 <= n <= 3 /\
    bs = [0; repr_id V E (ty_ext t); 0; n] ++ body ++ zeros n /\
    blen bs mod 4 = 0 /\ nth 3 bs 0 = n.
Proof.
  intros V E t v bs H. unfold encode in H.
  destruct (is_aggr t); [|discriminate].
  destruct (ser_ty V E t v 0) as [[body p]| |] eqn:Hs; try discriminate.
  cbn [bind] in H. inversion H as [Hbs]. clear H.
  exists body, p, (pad_count (4 + blen body)).
  assert (Hb : blen (0 :: repr_id V E (ty_ext t) :: 0 :: 0 :: body) = 4 + blen body).
  { rewrite !blen_cons. lia. }
  cbn [app set_nth3]. rewrite !Hb. pose proof (pad_count_range (4 + blen body)) as Hr.
  repeat split; try lia.
  rewrite !blen_cons, blen_app, blen_zeros by lia.
  pose proof (blen_nonneg body). unfold pad_count in *. lia.
Qed.

Lemma size_limit_Bok : forall V t, Bok V (size_limit V t) t.
Proof.
  intros V t. unfold Bok, size_limit, u32_max. destruct V.
  - destruct (ty_any has_opt_member t); split; try lia; intros; try lia; discriminate.
  - split; [lia|discriminate].
Qed.

(* round trip and padding for a sample within the size limit *)
Theorem roundtrip_tgood : forall V E t v,
  is_aggr t = true -> tgood V t = true -> wt t v = true ->
  exists bs, encode V E t v = Ok bs /\
    (blen bs <= size_limit V t ->
     decode t bs = Ok v /\
     exists p, decode_end t bs = Some p /\ nth 3 bs 0 = blen bs - 4 - p).
Proof.
  intros V E t v Ha Hg Hw.
  destruct (rt_ty V E (size_limit V t) t Hg (size_limit_Bok V t) v Hw 0 ltac:(lia)) as [body [E1 [_ D1]]].
  unfold encode. rewrite Ha, E1. cbn [bind].
  set (n := pad_count (blen ([0; repr_id V E (ty_ext t); 0; 0] ++ body))).
  eexists. split; [reflexivity|].
  cbn [app set_nth3]. intros Hlim.
  pose proof (blen_nonneg body) as Hbn.
  assert (Hn : 0 <= n <= 3) by (subst n; apply pad_count_range).
  rewrite !blen_cons, blen_app, blen_zeros in Hlim by lia.
  assert (Htop : des_top t (0 :: repr_id V E (ty_ext t) :: 0 :: n :: body ++ zeros n) =
                 Ok (DOk v (blen body))).
  { unfold des_top.
    replace (blen (0 :: repr_id V E (ty_ext t) :: 0 :: n :: body ++ zeros n) <? 4) with false.
    2:{ symmetry. apply Z.ltb_ge. rewrite !blen_cons. pose proof (blen_nonneg (body ++ zeros n)). lia. }
    rewrite dispatch_ok, Ha. f_equal.
    pose proof (D1 ltac:(lia) [] (zeros n) (mkC 0 (blen (body ++ zeros n))) eq_refl) as D.
    cbn [c_org c_lim app Z.add] in D. rewrite D by (rewrite blen_app, blen_zeros; lia). reflexivity. }
  split.
  - unfold decode. rewrite Htop. reflexivity.
  - exists (blen body). unfold decode_end. rewrite Htop. split; [reflexivity|].
    cbn [nth]. rewrite !blen_cons, blen_app, blen_zeros by lia. lia.
Qed.

(* ------------------------------------------------------------------ classes *)
From Coq Require Import Btauto.

Lemma ty_any_ext : forall p q, (forall t, p t = q t) -> forall t, ty_any p t = ty_any q t.
Proof.
  intros p q Hpq t. induction t using ty_ind'; cbn [ty_any]; rewrite Hpq; try reflexivity;
    try (now rewrite IHt).
  - f_equal. induction H as [|[m t'] r Hx Hr IH]; [reflexivity|]. cbn [snd] in Hx. now rewrite Hx, IH.
  - rewrite IHt. f_equal. f_equal.
    induction H as [|[m t'] r Hx Hr IH]; [reflexivity|]. cbn [snd] in Hx. now rewrite Hx, IH.
Qed.

Lemma ty_any_or : forall p q t,
  ty_any (fun t => p t || q t) t = ty_any p t || ty_any q t.
Proof.
  intros p q t. induction t using ty_ind'; cbn [ty_any]; try btauto.
  - rewrite IHt. btauto.
  - rewrite IHt. btauto.
  - assert (Hgo :
      (fix go (ms : list (minfo * ty)) : bool :=
         match ms with [] => false | (_, t') :: r => ty_any (fun t => p t || q t) t' || go r end) ms =
      (fix go (ms : list (minfo * ty)) : bool :=
         match ms with [] => false | (_, t') :: r => ty_any p t' || go r end) ms ||
      (fix go (ms : list (minfo * ty)) : bool :=
         match ms with [] => false | (_, t') :: r => ty_any q t' || go r end) ms).
    { induction H as [|[m t'] r Hx Hr IH]; [reflexivity|]. cbn [snd] in Hx. rewrite Hx, IH. btauto. }
    rewrite Hgo. btauto.
  - assert (Hgo :
      (fix go (ms : list (minfo * ty)) : bool :=
         match ms with [] => false | (_, t') :: r => ty_any (fun t => p t || q t) t' || go r end) cs =
      (fix go (ms : list (minfo * ty)) : bool :=
         match ms with [] => false | (_, t') :: r => ty_any p t' || go r end) cs ||
      (fix go (ms : list (minfo * ty)) : bool :=
         match ms with [] => false | (_, t') :: r => ty_any q t' || go r end) cs).
    { induction H as [|[m t'] r Hx Hr IH]; [reflexivity|]. cbn [snd] in Hx. rewrite Hx, IH. btauto. }
    rewrite Hgo, IHt. btauto.
Qed.

Lemma ty_any_mono : forall p q, (forall t, q t = true -> p t = true) ->
  forall t, ty_any p t = false -> ty_any q t = false.
Proof.
  intros p q Hpq.
  assert (Hqf : forall t0, p t0 = false -> q t0 = false).
  { intros t0 Hp. destruct (q t0) eqn:Hq; [apply Hpq in Hq; congruence|reflexivity]. }
  intros t. induction t using ty_ind'; cbn [ty_any]; intros Hf;
    apply orb_false_elim in Hf as [Hf1 Hf2]; rewrite (Hqf _ Hf1); cbn [orb];
    try reflexivity; try (now apply IHt).
  - clear Hf1. revert Hf2. induction H as [|[m t'] r Hx Hr IH]; intros Hf2; [reflexivity|]. cbn [snd] in Hx.
    apply orb_false_elim in Hf2 as [Ha Hb]. now rewrite (Hx Ha), (IH Hb).
  - apply orb_false_elim in Hf2 as [Hd Hc]. rewrite IHt by assumption. cbn [orb].
    clear Hf1. revert Hc. induction H as [|[m t'] r Hx Hr IH]; intros Hc; [reflexivity|]. cbn [snd] in Hx.
    apply orb_false_elim in Hc as [Ha Hb]. now rewrite (Hx Ha), (IH Hb).
Qed.

Lemma ty_any_false : forall t, ty_any (fun _ => false) t = false.
Proof.
  induction t using ty_ind'; cbn [ty_any orb]; try reflexivity; try assumption.
  - induction H as [|[m t'] r Hx Hr IH]; [reflexivity|]. cbn [snd] in Hx. now rewrite Hx, IH.
  - rewrite IHt. cbn [orb].
    induction H as [|[m t'] r Hx Hr IH]; [reflexivity|]. cbn [snd] in Hx. now rewrite Hx, IH.
Qed.

Lemma known0_tgood : forall V t v,
  wf_ty t = true -> sup V t = true -> known_class V t v = 0%N -> tgood V t = true.
Proof.
  intros V t v Hwf Hsup Hk. unfold known_class in Hk.
  destruct (stage2 t) eqn:H3; [|discriminate]. cbn [negb] in Hk.
  unfold stage2 in H3. apply negb_true_iff in H3.
  rewrite ty_any_or in H3. apply orb_false_elim in H3 as [H3a H3b].
  unfold tgood. rewrite Hwf. cbn [andb]. apply negb_true_iff.
  destruct V; cbn [andb] in Hk.
  - destruct (ty_any opt_empty_trap t) eqn:Hz; [discriminate|].
    unfold sup in Hsup. apply negb_true_iff in Hsup.
    rewrite (ty_any_ext (tbad V1)
               (fun t => (is_union t || is_mutable t) || (opt_empty_trap t || pl_long t)))
      by reflexivity.
    now rewrite !ty_any_or, H3a, H3b, Hz, Hsup.
  - rewrite (ty_any_ext (tbad V2)
               (fun t => (is_union t || is_mutable t) || (fun _ => false) t))
      by reflexivity.
    now rewrite !ty_any_or, H3a, H3b, ty_any_false.
Qed.

Lemma stage1_stage2 : forall t, stage1 t = true -> stage2 t = true.
Proof.
  intros t H. unfold stage1, stage2 in *. apply negb_true_iff in H. apply negb_true_iff.
  revert H. apply ty_any_mono. intros t0 Hq.
  destruct t0 as [| | | | | |x ms|x dd cs]; try discriminate; cbn in *.
  - destruct x; try discriminate; reflexivity.
  - reflexivity.
Qed.

(* the statement of C09 outside the recorded classes: for every well-formed type and every
   well-typed value that is in no known-finding class, all four encodings round-trip (samples
   within the size limit of the length fields) *)
Theorem roundtrip_outside_known : forall V E t v,
  is_aggr t = true -> wf_ty t = true -> sup V t = true -> wt t v = true -> known_class V t v = 0%N ->
  exists bs, encode V E t v = Ok bs /\ (blen bs <= size_limit V t -> decode t bs = Ok v).
Proof.
  intros V E t v Ha Hwf Hsup Hw Hk. pose proof (known0_tgood V t v Hwf Hsup Hk) as Hg.
  destruct (roundtrip_tgood V E t v Ha Hg Hw) as [bs [He Hd]].
  exists bs. split; [exact He|]. intros Hl. now destruct (Hd Hl).
Qed.

Theorem roundtrip_S2 : forall V E t v,
  is_aggr t = true -> wf_ty t = true -> stage2 t = true -> sup V t = true -> wt t v = true ->
  known_class V t v = 0%N ->
  exists bs, encode V E t v = Ok bs /\ (blen bs <= size_limit V t -> decode t bs = Ok v).
Proof. intros. now apply roundtrip_outside_known. Qed.

Lemma stage1_no_opt : forall p t, (forall t0, p t0 = true -> has_opt_member t0 = true) ->
  stage1 t = true -> ty_any p t = false.
Proof.
  intros p t Hp H1. unfold stage1 in H1. apply negb_true_iff in H1. revert H1. apply ty_any_mono.
  intros t0 Hq. rewrite (Hp t0 Hq). now rewrite orb_true_r.
Qed.
Lemma existsb_opt : forall (q : minfo * ty -> bool) ms,
  existsb (fun mx : minfo * ty => m_opt (fst mx) && q mx) ms = true ->
  existsb (fun mx : minfo * ty => m_opt (fst mx)) ms = true.
Proof.
  intros q ms H. apply existsb_exists in H as [mx [Hin Hq]]. apply existsb_exists. exists mx.
  split; [exact Hin|]. now apply andb_prop in Hq as [Hq _].
Qed.

(* in stage 1 no recorded class can occur, every type is supported in both versions, and the size
   limit is the one of the u32 length fields *)
Lemma stage1_known : forall V t v, stage1 t = true -> known_class V t v = 0%N /\ sup V t = true.
Proof.
  intros V t v H1. pose proof (stage1_stage2 t H1) as H2.
  unfold known_class, sup. rewrite H2. cbn [negb].
  rewrite (stage1_no_opt opt_empty_trap t), (stage1_no_opt pl_long t); try assumption.
  - now destruct V.
  - intros t0 Hq. destruct t0 as [| | | | | |x ms|]; try discriminate. cbn [pl_long] in Hq. cbn [has_opt_member].
    exact (existsb_opt (fun mx => 16384 <=? m_id (fst mx)) ms Hq).
  - intros t0 Hq. destruct t0 as [| | | | | |x ms|]; try discriminate. cbn [opt_empty_trap] in Hq. cbn [has_opt_member].
    exact (existsb_opt (fun mx => negb (occupies (snd mx))) ms Hq).
Qed.

Lemma stage1_size_limit : forall V t, stage1 t = true -> size_limit V t = u32_max.
Proof.
  intros V t H1. unfold size_limit. destruct V; [|reflexivity].
  now rewrite (stage1_no_opt has_opt_member t (fun _ H => H) H1).
Qed.

Theorem roundtrip_S1 : forall V E t v,
  is_aggr t = true -> wf_ty t = true -> stage1 t = true -> wt t v = true ->
  exists bs, encode V E t v = Ok bs /\ (blen bs <= u32_max -> decode t bs = Ok v).
Proof.
  intros V E t v Ha Hwf H1 Hw. destruct (stage1_known V t v H1) as [Hk Hsup].
  destruct (roundtrip_outside_known V E t v Ha Hwf Hsup Hw Hk) as [bs [He Hd]].
  exists bs. split; [exact He|]. rewrite (stage1_size_limit V t H1) in Hd. exact Hd.
Qed.

(* ------------------------------------------------------------------ witnesses *)
Definition mk (id : Z) : minfo := mkM id false false false false [].
Definition mko (id : Z) : minfo := mkM id true false false false [].

Definition refutes (V : ver) (E : endian) (t : ty) (v : val) (k : N) : Prop :=
  is_aggr t = true /\ wf_ty t = true /\ wt t v = true /\ known_class V t v = k /\
  match encode V E t v with Ok bs => decode t bs <> Ok v | _ => True end.
Ltac wit :=
  unfold refutes; do 4 (split; [vm_compute; reflexivity|]); vm_compute; try discriminate; exact I.

(* class 4 (D26): mutable {sequence<long> [7;1]; long 77} in XCDR2: EMHEADER LC = 5 *)
Lemma witness_lc5_sequence :
  refutes V2 LE (TStruct Mutable [(mk 0, TSeq (TPrim PI32)); (mk 1, TPrim PI32)])
          (VData [(0, VSeqP KI32 [7; 1]); (1, VP KI32 77)]) 4.
Proof. wit. Qed.
(* class 4: final {mutable {long 5}; long 77} in XCDR2: the nested mutable struct is not skipped *)
Lemma witness_nested_mutable :
  refutes V2 LE (TStruct Final [(mk 0, TStruct Mutable [(mk 0, TPrim PI32)]); (mk 1, TPrim PI32)])
          (VData [(0, VData [(0, VP KI32 5)]); (1, VP KI32 77)]) 4.
Proof. wit. Qed.
(* class 4: mutable {uint64 9} in XCDR1: alignment origin of the parameter value *)
Lemma witness_xcdr1_mutable_align :
  refutes V1 LE (TStruct Mutable [(mk 0, TPrim PU64)]) (VData [(0, VP KU64 9)]) 4.
Proof. wit. Qed.
(* class 4: final {appendable union (case 10: octet 3); octet 4} in XCDR1: no DHEADER written, one read *)
Lemma witness_appendable_union_xcdr1 :
  refutes V1 LE
    (TStruct Final [(mk 0, TUnion Appendable (TPrim PI32) [(mkM 1 false false false false [10], TPrim PU8)]);
                    (mk 1, TPrim PU8)])
    (VData [(0, VData [(0, VP KI32 10); (1, VP KU8 3)]); (1, VP KU8 4)]) 4.
Proof. wit. Qed.
(* class 4: sequence of appendable unions in XCDR2: elements written as FINAL unions *)
Lemma witness_union_sequence :
  refutes V2 LE
    (TStruct Final [(mk 0, TSeq (TUnion Appendable (TPrim PI32) [(mkM 1 false false false false [10], TPrim PU8)]))])
    (VData [(0, VSeqData [[(0, VP KI32 10); (1, VP KU8 3)]])]) 4.
Proof. wit. Qed.
(* class 5: XCDR1 {@optional E e (present); octet 1}: read back as absent *)
Lemma witness_zero_size_optional :
  refutes V1 LE (TStruct Final [(mko 0, TStruct Final []); (mk 1, TPrim PU8)])
          (VData [(0, VData []); (1, VP KU8 1)]) 5.
Proof. wit. Qed.
(* the inputs of the three repaired defects (former classes 1, 2 and 3) round-trip *)
Lemma regression_repaired :
  (let t := TStruct Final [(mk 0, TPrim PChar8); (mk 1, TPrim PU8)] in
   let v := VData [(0, VP KChar8 233); (1, VP KU8 9)] in
   exists bs, encode V1 LE t v = Ok bs /\ decode t bs = Ok v) /\
  (let t := TStruct Final [(mk 0, TPrim PU64); (mk 1, TPrim PF128)] in
   let v := VData [(0, VP KU64 7); (1, VP KF128 9)] in
   exists bs, encode V1 LE t v = Ok bs /\ decode t bs = Ok v) /\
  (let t := TStruct Final [(mko 0, TPrim PI32); (mk 1, TPrim PI32)] in
   let v := VData [(0, VP KI32 5); (1, VP KI32 77)] in
   exists bs, encode V1 LE t v = Ok bs /\ decode t bs = Ok v) /\
  (let t := TStruct Final [(mko 0, TPrim PU8); (mk 1, TPrim PU64); (mko 2, TPrim PU64)] in
   let v := VData [(0, VP KU8 1); (1, VP KU64 2)] in
   exists bs, encode V1 BE t v = Ok bs /\ decode t bs = Ok v) /\
  (let t := TStruct Final [(mk 0, TPrim PU64); (mk 1, TArr 2 (TStruct Final [(mk 0, TStruct Final [])]))] in
   let v := VData [(0, VP KU64 0); (1, VSeqData [[(0, VData [])]; [(0, VData [])]])] in
   exists bs, encode V2 BE t v = Ok bs /\ decode t bs = Ok v) /\
  encode V1 LE (TStruct Final [(mkM 49152 true false true false [], TPrim PU8)])
         (VData [(49152, VP KU8 1)]) = Err E_ID.
Proof.
  repeat split; cbv zeta; try (eexists; (split; [vm_compute; reflexivity|vm_compute; reflexivity])).
Qed.

(* non-vacuity of the round-trip theorems: a nested S2 value in no class *)
Definition ex_ty : ty :=
  TStruct Appendable
    [(mk 0, TPrim PU8); (mko 1, TPrim PU64); (mk 2, TStr); (mk 3, TSeq (TPrim PI16));
     (mk 4, TArr 2 (TStruct Final [(mk 0, TEnum PI32 [0; 5]); (mk 1, TWStr)]))].
Definition ex_val : val :=
  VData [(0, VP KU8 7); (1, VP KU64 9); (2, VStr [104; 233; 8364]); (3, VSeqP KI16 [-1; 300]);
         (4, VSeqData [[(0, VData [(0, VP KI32 5)]); (1, VStr [128512])];
                       [(0, VData [(0, VP KI32 0)]); (1, VStr [])]])].
Lemma ex_nonvacuous :
  is_aggr ex_ty = true /\ wf_ty ex_ty = true /\ stage2 ex_ty = true /\ wt ex_ty ex_val = true /\
  known_class V1 ex_ty ex_val = 0%N /\ known_class V2 ex_ty ex_val = 0%N /\
  (exists bs, encode V1 BE ex_ty ex_val = Ok bs /\ blen bs <= size_limit V1 ex_ty /\ decode ex_ty bs = Ok ex_val).
Proof.
  do 6 (split; [vm_compute; reflexivity|]).
  eexists. split; [vm_compute; reflexivity|]. split; [vm_compute; discriminate|vm_compute; reflexivity].
Qed.

(* ------------------------------------------------------------------ oracle soundness *)
Section ValInd.
Variable P : val -> Prop.
Hypothesis HP : forall k z, P (VP k z).
Hypothesis HS : forall s, P (VStr s).
Hypothesis HD : forall d, Forall (fun kv => P (snd kv)) d -> P (VData d).
Hypothesis HQ : forall k l, P (VSeqP k l).
Hypothesis HQS : forall l, P (VSeqStr l).
Hypothesis HQD : forall l, Forall (Forall (fun kv => P (snd kv))) l -> P (VSeqData l).
Fixpoint val_ind' (v : val) : P v :=
  match v with
  | VP k z => HP k z
  | VStr s => HS s
  | VData d =>
    HD d ((fix go (d : list (Z * val)) : Forall (fun kv => P (snd kv)) d :=
             match d with
             | [] => Forall_nil _
             | kv :: r => Forall_cons kv (val_ind' (snd kv)) (go r)
             end) d)
  | VSeqP k l => HQ k l
  | VSeqStr l => HQS l
  | VSeqData l =>
    HQD l ((fix gol (l : list (list (Z * val))) : Forall (Forall (fun kv => P (snd kv))) l :=
              match l with
              | [] => Forall_nil _
              | d :: r =>
                Forall_cons d
                  ((fix go (d : list (Z * val)) : Forall (fun kv => P (snd kv)) d :=
                      match d with
                      | [] => Forall_nil _
                      | kv :: q => Forall_cons kv (val_ind' (snd kv)) (go q)
                      end) d) (gol r)
              end) l)
  end.
End ValInd.

Lemma list_eqb_eq : forall {A} (eq : A -> A -> bool),
  (forall x y, eq x y = true <-> x = y) -> forall a b, list_eqb eq a b = true <-> a = b.
Proof.
  intros A eq Heq. induction a as [|x r IH]; destruct b as [|y s]; cbn [list_eqb]; split; intros H;
    try reflexivity; try discriminate.
  - apply andb_prop in H as [H1 H2]. apply Heq in H1. apply IH in H2. congruence.
  - inversion H. subst. apply andb_true_intro. split; [now apply Heq|now apply IH].
Qed.
Lemma zlist_eqb_eq : forall a b : list Z, list_eqb Z.eqb a b = true <-> a = b.
Proof. apply list_eqb_eq. intros. apply Z.eqb_eq. Qed.

Definition dyn_eqb (d d' : list (Z * val)) : bool :=
  (fix go (d d' : list (Z * val)) : bool :=
     match d, d' with
     | [], [] => true
     | (k, v) :: r, (k', v') :: r' => (k =? k') && val_eqb v v' && go r r'
     | _, _ => false
     end) d d'.

Lemma dyn_eqb_eq : forall d, Forall (fun kv => forall b, val_eqb (snd kv) b = true <-> snd kv = b) d ->
  forall d', dyn_eqb d d' = true <-> d = d'.
Proof.
  induction d as [|[k v] r IH]; intros HF d'; destruct d' as [|[k' v'] r']; unfold dyn_eqb in *; split; intros H;
    try reflexivity; try discriminate.
  - inversion HF as [|? ? Hv Hr]. subst. cbn [snd] in Hv.
    apply andb_prop in H as [H H3]. apply andb_prop in H as [H1 H2].
    apply Z.eqb_eq in H1. apply Hv in H2. apply (IH Hr) in H3. congruence.
  - inversion HF as [|? ? Hv Hr]. subst. cbn [snd] in Hv. inversion H. subst.
    rewrite Z.eqb_refl. cbn [andb]. apply andb_true_intro. split; [now apply Hv|now apply (IH Hr)].
Qed.

Theorem val_eqb_eq : forall a b, val_eqb a b = true <-> a = b.
Proof.
  induction a using val_ind'; intros b.
  - destruct b; cbn [val_eqb]; split; intros H0; try discriminate.
    + apply andb_prop in H0 as [H1 H2]. apply sk_eqb_eq in H1. apply Z.eqb_eq in H2. congruence.
    + inversion H0. subst. now rewrite sk_eqb_refl, Z.eqb_refl.
  - destruct b; cbn [val_eqb]; split; intros H0; try discriminate.
    + apply zlist_eqb_eq in H0. congruence.
    + inversion H0. subst. now apply zlist_eqb_eq.
  - destruct b as [| |d'| | |]; try (cbn [val_eqb]; split; intros H0; discriminate).
    change (val_eqb (VData d) (VData d')) with (dyn_eqb d d').
    rewrite (dyn_eqb_eq d H d'). split; intros H0; congruence.
  - destruct b; cbn [val_eqb]; split; intros H0; try discriminate.
    + apply andb_prop in H0 as [H1 H2]. apply sk_eqb_eq in H1. apply zlist_eqb_eq in H2. congruence.
    + inversion H0. subst. rewrite sk_eqb_refl. cbn [andb]. now apply zlist_eqb_eq.
  - destruct b; cbn [val_eqb]; split; intros H0; try discriminate.
    + apply (list_eqb_eq (list_eqb Z.eqb) zlist_eqb_eq) in H0. congruence.
    + inversion H0. subst. now apply (list_eqb_eq (list_eqb Z.eqb) zlist_eqb_eq).
  - destruct b as [| | | | |l']; try (cbn [val_eqb]; split; intros H0; discriminate).
    assert (Hl : forall l', (fix gol (l l' : list (list (Z * val))) : bool :=
                match l, l' with
                | [], [] => true
                | d :: r, d' :: r' => dyn_eqb d d' && gol r r'
                | _, _ => false
                end) l l' = true <-> l = l').
    { induction H as [|d r Hd Hr IH]; intros l2; destruct l2 as [|d' r']; split; intros H0;
        try reflexivity; try discriminate.
      - apply andb_prop in H0 as [H1 H2]. apply (dyn_eqb_eq d Hd) in H1. apply IH in H2. congruence.
      - inversion H0. subst. apply andb_true_intro. split; [now apply (dyn_eqb_eq d' Hd)|now apply IH]. }
    change (val_eqb (VSeqData l) (VSeqData l')) with
      ((fix gol (l l' : list (list (Z * val))) : bool :=
          match l, l' with
          | [], [] => true
          | d :: r, d' :: r' => dyn_eqb d d' && gol r r'
          | _, _ => false
          end) l l').
    rewrite (Hl l'). split; intros H0; congruence.
Qed.

