(* C39 proofs, part 2: decoding a FINAL / APPENDABLE structure written with member list ms2
   with a reader member list ms1 that agrees with ms2 on a common prefix (codec level; uses
   the round-trip lemmas of XcdrProofs.v for the individual members). *)
From DustDDS Require Import Base.Machine Xcdr.XcdrBytes Xcdr.XcdrBytesProofs Xcdr.XcdrModel
  Xcdr.XcdrProps Xcdr.XcdrProofs.
Open Scope Z_scope.
Ltac Zify.zify_post_hook ::= Z.div_mod_to_equations.

(* the reader's member a and the writer's member b are read/written the same way *)
Definition mmatch (a b : minfo * ty) : Prop :=
  m_id (fst a) = m_id (fst b) /\ m_opt (fst a) = m_opt (fst b) /\ snd a = snd b.

Lemma des_fmember_ext : forall V E buf a b acc c pos, mmatch a b ->
  des_fmember V E buf (fst a, (snd a, des_ty V E buf (snd a))) acc c pos =
  des_fmember V E buf (fst b, (snd b, des_ty V E buf (snd b))) acc c pos.
Proof.
  intros V E buf [ma ta] [mb tb] acc c pos [Hid [Hopt Hty]]. cbn [fst snd] in *. subst tb.
  unfold des_fmember, des_opt_fmember, des_value. cbn [fst snd].
  rewrite Hopt, Hid. reflexivity.
Qed.

Lemma ser_list_app : forall {A} (f : A -> Z -> res W) a b pos,
  ser_list f (a ++ b) pos =
  ('(b1, p1) <- ser_list f a pos ;; '(b2, p2) <- ser_list f b p1 ;; Ok (b1 ++ b2, p2)).
Proof.
  intros A f a. induction a as [|x r IH]; intros b pos.
  - cbn [app ser_list bind]. destruct (ser_list f b pos) as [[b2 p2]| |]; reflexivity.
  - cbn [app ser_list]. destruct (f x pos) as [[bx px]| |]; cbn [bind]; try reflexivity.
    rewrite IH. destruct (ser_list f r px) as [[b1 p1]| |]; cbn [bind]; try reflexivity.
    destruct (ser_list f b p1) as [[b2 p2]| |]; cbn [bind]; try reflexivity.
    now rewrite app_assoc.
Qed.

(* reading the members c1 ++ e1 from bytes that hold the members c2 (matching c1):
   the reader arrives at e1 with the writer's values of c2 stored *)
Lemma fmembers_ext : forall V E B ms d apb c1 c2, Forall2 mmatch c1 c2 ->
  forall e1 acc, mem_hyp V E B ms d -> incl c2 ms ->
  forall pos, 0 <= pos -> exists bs,
    ser_list (fun mx : minfo * (ty * F) => ser_fmember V E (cvS V E ms) d (m_id (fst mx))) (cvS V E c2) pos
      = Ok (bs, pos + blen bs) /\
    (blen bs <= B -> forall pre post c, blen pre = c_org c + pos -> c_org c + pos + blen bs <= c_lim c ->
      des_fstruct V E (pre ++ bs ++ post) apb (cvD V E (pre ++ bs ++ post) (c1 ++ e1)) acc c (c_org c + pos) =
      des_fstruct V E (pre ++ bs ++ post) apb (cvD V E (pre ++ bs ++ post) e1) (ins c2 d acc) c
                  (c_org c + pos + blen bs)).
Proof.
  intros V E B ms d apb c1 c2 HF. induction HF as [|mt1 mt2 r1 r2 Hm HF IH]; intros e1 acc HH Hincl pos Hpos.
  - exists []. split; [cbn [cvS map ser_list]; f_equal; f_equal; cbn; lia|].
    intros _ pre post c Hpre Hlim. cbn [app]. unfold ins. cbn [fold_left].
    replace (c_org c + pos + blen []) with (c_org c + pos) by (cbn; lia). reflexivity.
  - assert (Hin : In mt2 ms) by (apply Hincl; now left).
    destruct (rt_fmember V E B ms d mt2 acc HH Hin pos Hpos) as [b1 [E1 [_ D1]]].
    pose proof (blen_nonneg b1).
    set (acc' := match lookup (m_id (fst mt2)) d with
                 | Some v => insert (m_id (fst mt2)) v acc | None => acc end) in *.
    assert (Hincl' : incl r2 ms) by (intros x Hx; apply Hincl; now right).
    destruct (IH e1 acc' HH Hincl' (pos + blen b1) ltac:(lia)) as [b2 [E2 D2]].
    pose proof (blen_nonneg b2).
    exists (b1 ++ b2). split.
    + cbn [cvS map ser_list fst]. rewrite E1. cbn [bind].
      fold (cvS V E r2). rewrite E2. cbn [bind]. rewrite blen_app. f_equal. f_equal. lia.
    + rewrite blen_app. intros HB pre post c Hpre Hlim.
      pose proof (D1 ltac:(lia) pre (b2 ++ post) c Hpre ltac:(lia)) as D1'.
      pose proof (D2 ltac:(lia) (pre ++ b1) post c ltac:(rewrite blen_app; lia) ltac:(lia)) as D2'.
      replace (pre ++ b1 ++ b2 ++ post) with (pre ++ (b1 ++ b2) ++ post) in D1'
        by now rewrite <- !app_assoc.
      replace ((pre ++ b1) ++ b2 ++ post) with (pre ++ (b1 ++ b2) ++ post) in D2'
        by now rewrite <- !app_assoc.
      set (buf := pre ++ (b1 ++ b2) ++ post) in *.
      cbn [app cvD map des_fstruct].
      rewrite (des_fmember_ext V E buf mt1 mt2 acc c (c_org c + pos) Hm). rewrite D1'.
      change (map (fun mt0 : minfo * ty => (fst mt0, (snd mt0, des_ty V E buf (snd mt0)))) (r1 ++ e1))
        with (cvD V E buf (r1 ++ e1)).
      replace (c_org c + pos + blen b1) with (c_org c + (pos + blen b1)) by lia.
      etransitivity; [exact D2'|].
      replace (c_org c + (pos + blen b1) + blen b2) with (c_org c + pos + (blen b1 + blen b2)) by lia.
      unfold ins. cbn [fold_left]. reflexivity.
Qed.

(* ---------------------------------------------- reading members from a run of zero bytes *)
Definition flat_ty (t : ty) : bool := match t with TPrim _ | TStr | TWStr => true | _ => false end.
Definition default_of (t : ty) : val :=
  match t with TPrim p => VP (prim_sk p) 0 | _ => VStr [] end.

Lemma skipn_repeat : forall {A} (x : A) a b, skipn a (repeat x b) = repeat x (b - a).
Proof.
  intros A x a. induction a as [|a IH]; intros b.
  - now rewrite Nat.sub_0_r.
  - destruct b as [|b]; [reflexivity|]. cbn [repeat skipn]. now rewrite IH.
Qed.
Lemma firstn_repeat : forall {A} (x : A) a b, (a <= b)%nat -> firstn a (repeat x b) = repeat x a.
Proof.
  intros A x a. induction a as [|a IH]; intros b H; [reflexivity|].
  destruct b as [|b]; [lia|]. cbn [repeat firstn]. rewrite IH by lia. reflexivity.
Qed.

Lemma read_zero_tail : forall front kz c p n, blen front <= p -> 0 <= n ->
  c_lim c <= blen (front ++ zeros kz) ->
  read_bytes (front ++ zeros kz) c p n = DErr E_NED p \/
  read_bytes (front ++ zeros kz) c p n = DOk (zeros n) (p + n).
Proof.
  intros front kz c p n Hp Hn Hlim. unfold read_bytes.
  destruct (p + n >? c_lim c) eqn:Hc; [now left|right].
  rewrite Z.gtb_ltb in Hc. apply Z.ltb_ge in Hc. f_equal.
  pose proof (blen_nonneg front). rewrite blen_app in Hlim. unfold blen in *. unfold zeros in *.
  rewrite repeat_length in Hlim.
  rewrite skipn_app, skipn_all2 by lia. cbn [app]. rewrite skipn_repeat.
  apply firstn_repeat. lia.
Qed.

Lemma seek_cases : forall c q n,
  seek c q n = DErr E_NED q \/ seek c q n = DOk tt (q + n).
Proof. intros. unfold seek. destruct (q + n >? c_lim c); auto. Qed.

Lemma le_dec_zeros : forall n, le_dec (repeat 0 n) = 0.
Proof. induction n as [|n IH]; [reflexivity|]. cbn [repeat le_dec]. rewrite IH. reflexivity. Qed.
Lemma rev_repeat : forall {A} (x : A) n, rev (repeat x n) = repeat x n.
Proof.
  intros A x n. induction n as [|n IH]; [reflexivity|]. cbn [repeat rev]. rewrite IH.
  clear IH. induction n as [|n IH]; [reflexivity|]. cbn [repeat app]. now rewrite IH.
Qed.
Lemma int_dec_zeros : forall E n, int_dec E (repeat 0 n) = 0.
Proof. intros [] n; unfold int_dec; rewrite ?rev_repeat; apply le_dec_zeros. Qed.

Lemma prim_conv_zeros : forall E k p', prim_conv E k (zeros (sk_size k)) p' = DOk 0 p'.
Proof.
  intros E k p'. unfold zeros, sk_size. rewrite Nat2Z.id. unfold prim_conv.
  destruct k; try reflexivity; cbv zeta; rewrite int_dec_zeros; reflexivity.
Qed.

Lemma des_prim_zero_tail : forall V E front kz c k q, blen front <= q ->
  c_lim c <= blen (front ++ zeros kz) ->
  (exists p', des_prim V E (front ++ zeros kz) c k q = DErr E_NED p') \/
  (exists p', des_prim V E (front ++ zeros kz) c k q = DOk 0 p' /\ q <= p').
Proof.
  intros V E front kz c k q Hq Hlim. rewrite des_prim_unfold. unfold dec_align.
  match goal with |- context [padlen ?y ?x] =>
    assert (Ha : 0 < x) by (pose proof (sk_size_pos k); destruct V; lia);
    pose proof (padlen_range y x Ha) as Hpr; set (pl := padlen y x) in * end.
  assert (Hpad : 0 <= pl) by lia.
  destruct (seek_cases c q pl) as [-> | ->]; cbn [dbind]; [left; eauto|].
  pose proof (sk_size_pos k) as Hk.
  destruct (read_zero_tail front kz c (q + pl) (sk_size k) ltac:(lia) ltac:(lia) Hlim) as [-> | ->];
    cbn [dbind]; [left; eauto|].
  right. eexists. split; [apply prim_conv_zeros|lia].
Qed.

Lemma des_flat_zero_tail : forall V E front kz c t q, flat_ty t = true -> blen front <= q ->
  c_lim c <= blen (front ++ zeros kz) ->
  (exists p', des_ty V E (front ++ zeros kz) t c q = DErr E_NED p') \/
  (exists p', des_ty V E (front ++ zeros kz) t c q = DOk (default_of t) p' /\ q <= p').
Proof.
  intros V E front kz c t q Ht Hq Hlim.
  destruct t as [p| | | | | | |]; try discriminate; cbn [des_ty default_of].
  - destruct (des_prim_zero_tail V E front kz c (prim_sk p) q Hq Hlim) as [[p' ->] | [p' [-> Hp]]];
      cbn [dbind]; [left; eauto|right; eauto].
  - unfold des_string.
    destruct (des_prim_zero_tail V E front kz c KU32 q Hq Hlim) as [[p' ->] | [p1 [-> Hp1]]];
      cbn [dbind]; [left; eauto|].
    change (Z.max 0 (0 - 1)) with 0.
    destruct (read_zero_tail front kz c p1 0 ltac:(lia) ltac:(lia) Hlim) as [-> | ->]; cbn [dbind]; [left; eauto|].
    destruct (read_zero_tail front kz c (p1 + 0) 1 ltac:(lia) ltac:(lia) Hlim) as [-> | ->]; cbn [dbind]; [left; eauto|].
    right. eexists. split; [reflexivity|lia].
  - unfold des_wstring.
    destruct (des_prim_zero_tail V E front kz c KU32 q Hq Hlim) as [[p' ->] | [p1 [-> Hp1]]];
      cbn [dbind]; [left; eauto|].
    change (0 =? 0) with true. cbv iota. cbn [dbind]. right. eauto.
Qed.

(* the members e1 that the writer does not have: each is either not stored at all or stored
   with its default value *)
Lemma des_fstruct_zero_tail : forall V E front kz c e1 acc q,
  forallb (fun mt : minfo * ty => flat_ty (snd mt) && negb (m_opt (fst mt))) e1 = true ->
  blen front <= q -> c_lim c <= blen (front ++ zeros kz) ->
  exists acc' p', des_fstruct V E (front ++ zeros kz) true (cvD V E (front ++ zeros kz) e1) acc c q = DOk acc' p' /\
    forall k, lookup k acc' = lookup k acc \/
              exists mt, In mt e1 /\ m_id (fst mt) = k /\ lookup k acc' = Some (default_of (snd mt)).
Proof.
  intros V E front kz c e1. set (buf := front ++ zeros kz).
  induction e1 as [|mt r IH]; intros acc q Hf Hq Hlim.
  - exists acc, q. split; [reflexivity|]. intros k. now left.
  - cbn [forallb] in Hf. apply andb_prop in Hf as [Hf1 Hf2]. apply andb_prop in Hf1 as [Hflat Hopt].
    apply negb_true_iff in Hopt.
    cbn [cvD map des_fstruct]. unfold des_fmember. cbn [fst]. rewrite Hopt.
    unfold des_value. cbn [fst snd].
    destruct (des_flat_zero_tail V E front kz c (snd mt) q Hflat Hq Hlim) as [[p' Hd] | [p' [Hd Hp]]];
      fold buf in Hd; rewrite Hd; cbn [dbind].
    + change (true && (E_NED =? E_NED)) with true. cbv iota.
      exists acc, p'. split; [reflexivity|]. intros k. now left.
    + destruct (IH (insert (m_id (fst mt)) (default_of (snd mt)) acc) p' Hf2 ltac:(lia) Hlim) as [acc' [p'' [Hr Hl]]].
      exists acc', p''. split; [exact Hr|]. intros k.
      destruct (Hl k) as [Hk | [mt' [Hin [Hid Hk]]]].
      * destruct (Z.eq_dec k (m_id (fst mt))) as [->|Hne].
        -- right. exists mt. split; [now left|]. split; [reflexivity|].
           rewrite Hk. apply lookup_insert_same.
        -- left. rewrite Hk. now apply lookup_insert_other.
      * right. exists mt'. split; [now right|]. now split.
Qed.

(* ------------------------------------------------------ the structure, both directions *)
(* the reader's list is c1 ++ e1, the writer's c2 ++ e2 with c1 matching c2; at most one of
   e1, e2 is not empty (a non-empty e1 needs an APPENDABLE reader) *)
Definition flat_members (ms : list (minfo * ty)) : bool :=
  forallb (fun mt : minfo * ty => flat_ty (snd mt) && negb (m_opt (fst mt))) ms.

Lemma ins_not_in : forall ms d acc k, mem k (ids ms) = false -> lookup k (ins ms d acc) = lookup k acc.
Proof. intros. rewrite ins_lookup. now rewrite H. Qed.

Theorem struct_prefix_decodes : forall V E B x c1 c2 e1 e2 d,
  B <= u32_max ->
  x <> Mutable -> Forall2 mmatch c1 c2 ->
  mem_hyp V E B (c2 ++ e2) d ->
  (e1 = [] \/ (e2 = [] /\ x = Appendable /\ flat_members e1 = true)) ->
  forall pos, 0 <= pos -> exists bs,
    ser_struct_nested V E x (cvS V E (c2 ++ e2)) d pos = Ok (bs, pos + blen bs) /\
    (blen bs <= B -> forall pre kz c, blen pre = c_org c + pos -> c_org c + pos + blen bs <= c_lim c ->
      c_lim c <= blen (pre ++ bs ++ zeros kz) -> exists acc' p',
      des_struct_nested V E (pre ++ bs ++ zeros kz) x (cvD V E (pre ++ bs ++ zeros kz) (c1 ++ e1)) c (c_org c + pos)
        = DOk acc' p' /\
      forall k, lookup k acc' = lookup k (ins c2 d []) \/
                exists mt, In mt e1 /\ m_id (fst mt) = k /\ lookup k acc' = Some (default_of (snd mt))).
Proof.
  intros V E B x c1 c2 e1 e2 d HBu Hx HF HH Hcase.
  set (apb := match x with Appendable => true | _ => false end).
  (* the member bytes: common part, then the writer's extra members *)
  assert (Hmem : forall pos, 0 <= pos -> exists b1 b2,
    ser_fstruct V E (cvS V E (c2 ++ e2)) d pos = Ok (b1 ++ b2, pos + blen (b1 ++ b2)) /\
    (e2 = [] -> b2 = []) /\
    (blen (b1 ++ b2) <= B -> forall pre post c, blen pre = c_org c + pos ->
      c_org c + pos + blen (b1 ++ b2) <= c_lim c ->
      des_fstruct V E (pre ++ (b1 ++ b2) ++ post) apb (cvD V E (pre ++ (b1 ++ b2) ++ post) (c1 ++ e1)) [] c
                  (c_org c + pos) =
      des_fstruct V E (pre ++ (b1 ++ b2) ++ post) apb (cvD V E (pre ++ (b1 ++ b2) ++ post) e1)
                  (ins c2 d []) c (c_org c + pos + blen b1))).
  { intros pos Hpos.
    destruct (fmembers_ext V E B (c2 ++ e2) d apb c1 c2 HF e1 [] HH
                ltac:(intros y Hy; apply in_or_app; now left) pos Hpos) as [b1 [E1 D1]].
    pose proof (blen_nonneg b1).
    destruct (rt_fmembers V E B (c2 ++ e2) d apb e2 [] HH
                ltac:(intros y Hy; apply in_or_app; now right) (pos + blen b1) ltac:(lia)) as [b2 [E2 _]].
    pose proof (blen_nonneg b2).
    exists b1, b2. split; [|split].
    - unfold ser_fstruct. unfold cvS at 2. rewrite map_app. fold (cvS V E c2). fold (cvS V E e2).
      rewrite ser_list_app. rewrite E1. cbn [bind]. rewrite E2. cbn [bind].
      rewrite blen_app. f_equal. f_equal. lia.
    - intros ->. cbn [cvS map ser_list] in E2. inversion E2 as [[Hb Hp]]. reflexivity.
    - rewrite blen_app. intros HB pre post c Hpre Hlim.
      replace (pre ++ (b1 ++ b2) ++ post) with (pre ++ b1 ++ (b2 ++ post)) by now rewrite <- !app_assoc.
      apply D1; [lia|exact Hpre|lia]. }
  assert (Hbody : forall pos0, 0 <= pos0 -> exists bs,
    ser_fstruct V E (cvS V E (c2 ++ e2)) d pos0 = Ok (bs, pos0 + blen bs) /\
    (blen bs <= B -> forall pre kz c, blen pre = c_org c + pos0 -> c_org c + pos0 + blen bs <= c_lim c ->
      c_lim c <= blen (pre ++ bs ++ zeros kz) -> exists acc' p',
      des_fstruct V E (pre ++ bs ++ zeros kz) apb (cvD V E (pre ++ bs ++ zeros kz) (c1 ++ e1)) [] c (c_org c + pos0)
        = DOk acc' p' /\
      forall k, lookup k acc' = lookup k (ins c2 d []) \/
                exists mt, In mt e1 /\ m_id (fst mt) = k /\ lookup k acc' = Some (default_of (snd mt)))).
  { intros pos0 Hpos0. destruct (Hmem pos0 Hpos0) as [b1 [b2 [E1 [Hb2 D1]]]].
    exists (b1 ++ b2). split; [exact E1|].
    intros HB pre kz c Hpre Hlim Hlim2. rewrite (D1 HB pre (zeros kz) c Hpre Hlim).
    destruct Hcase as [-> | [He2 [Hxa Hfl]]].
    - exists (ins c2 d []), (c_org c + pos0 + blen b1). split; [reflexivity|]. intros k. now left.
    - rewrite (Hb2 He2) in *. rewrite app_nil_r in *.
      replace (pre ++ b1 ++ zeros kz) with ((pre ++ b1) ++ zeros kz) in * by now rewrite <- app_assoc.
      subst apb. rewrite Hxa.
      apply des_fstruct_zero_tail; [exact Hfl|rewrite blen_app; lia|exact Hlim2]. }
  intros pos Hpos.
  destruct x; [| |congruence]; unfold ser_struct_nested, des_struct_nested.
  - (* FINAL *) exact (Hbody pos Hpos).
  - (* APPENDABLE *)
    unfold ser_appendable. destruct V; [exact (Hbody pos Hpos)|].
    unfold ser_dheader. cbv zeta.
    set (pad := enc_align V2 4 pos).
    assert (Hp1 : 0 <= pos + blen pad + 4) by (pose proof (blen_nonneg pad); lia).
    destruct (Hbody _ Hp1) as [bb [E1 D1]].
    pose proof (blen_nonneg bb) as Hbb. pose proof (blen_nonneg pad) as Hpd.
    set (z := wrap_u32 (blen bb)).
    assert (Hz : 0 <= z <= u32_max) by (unfold z, wrap_u32, two32, u32_max; lia).
    destruct (rt_u32 V2 E B z Hz pos Hpos) as [hb [E2 [_ D2]]].
    assert (Hhb : hb = pad ++ int_enc E 4 z).
    { unfold ser_prim, ret in E2. inversion E2. reflexivity. }
    subst hb.
    exists (pad ++ int_enc E 4 z ++ bb). split.
    + rewrite E1. cbn [bind]. f_equal. f_equal. rewrite !blen_app, int_enc_blen. lia.
    + rewrite !blen_app, int_enc_blen. intros HB pre kz c Hpre Hlim Hlim2.
      assert (Hzb : z = blen bb).
      { unfold z, wrap_u32, two32. apply Z.mod_small. unfold u32_max in *. lia. }
      unfold des_appendable2.
      set (buf := pre ++ (pad ++ int_enc E 4 z ++ bb) ++ zeros kz) in *.
      assert (Hbuf0 : buf = pre ++ (pad ++ int_enc E 4 z) ++ (bb ++ zeros kz))
        by (unfold buf; now rewrite <- !app_assoc).
      assert (Hbuf1 : buf = (pre ++ pad ++ int_enc E 4 z) ++ bb ++ zeros kz)
        by (unfold buf; now rewrite <- !app_assoc).
      set (c' := mkC (c_org c) (c_org c + (pos + blen pad + 4) + blen bb)).
      destruct (D1 ltac:(lia) (pre ++ pad ++ int_enc E 4 z) kz c') as [acc' [p' [Hd Hl]]].
      { unfold c'. cbn [c_org]. rewrite !blen_app, int_enc_blen. lia. }
      { unfold c'. cbn [c_org c_lim]. lia. }
      { unfold c'. cbn [c_lim]. rewrite <- Hbuf1. unfold buf. rewrite !blen_app, int_enc_blen.
        pose proof (blen_nonneg (zeros kz)). lia. }
      rewrite <- Hbuf1 in Hd. unfold c' in Hd. cbn [c_org] in Hd. fold c' in Hd.
      exists acc', (c_org c + (pos + blen pad + 4) + blen bb). split; [|exact Hl].
      assert (Hdh : des_prim V2 E buf c KU32 (c_org c + pos) = DOk z (c_org c + (pos + blen pad + 4))).
      { rewrite Hbuf0.
        rewrite (D2 ltac:(rewrite blen_app, int_enc_blen; lia) pre (bb ++ zeros kz) c Hpre
                    ltac:(rewrite blen_app, int_enc_blen; lia)).
        rewrite blen_app, int_enc_blen. f_equal. lia. }
      rewrite Hdh. cbn [dbind]. cbv zeta.
      replace (c_org c + (pos + blen pad + 4) + z) with (c_org c + (pos + blen pad + 4) + blen bb) by lia.
      rewrite gtb_false by lia. fold c'. unfold apb in Hd. cbv iota in Hd. rewrite Hd. reflexivity.
Qed.
