(* Boolean vocabulary of the C09 / C10 statements: value equality, well-typed values,
   well-formed (supported) types, the staging predicates S1/S2/S3, the known-finding classes
   and the padding oracle.  Definitions only. *)
From DustDDS Require Export Base.Machine Xcdr.XcdrBytes Xcdr.XcdrModel.
Open Scope Z_scope.

Fixpoint list_eqb {A} (eq : A -> A -> bool) (a b : list A) : bool :=
  match a, b with
  | [], [] => true
  | x :: r, y :: s => eq x y && list_eqb eq r s
  | _, _ => false
  end.

Fixpoint val_eqb (a b : val) {struct a} : bool :=
  match a, b with
  | VP k z, VP k' z' => sk_eqb k k' && (z =? z')
  | VStr s, VStr s' => list_eqb Z.eqb s s'
  | VData d, VData d' =>
    (fix go (d d' : list (Z * val)) : bool :=
       match d, d' with
       | [], [] => true
       | (k, v) :: r, (k', v') :: r' => (k =? k') && val_eqb v v' && go r r'
       | _, _ => false
       end) d d'
  | VSeqP k l, VSeqP k' l' => sk_eqb k k' && list_eqb Z.eqb l l'
  | VSeqStr l, VSeqStr l' => list_eqb (list_eqb Z.eqb) l l'
  | VSeqData l, VSeqData l' =>
    (fix gol (l l' : list (list (Z * val))) : bool :=
       match l, l' with
       | [], [] => true
       | d :: r, d' :: r' =>
         (fix go (d d' : list (Z * val)) : bool :=
            match d, d' with
            | [], [] => true
            | (k, v) :: q, (k', v') :: q' => (k =? k') && val_eqb v v' && go q q'
            | _, _ => false
            end) d d' && gol r r'
       | _, _ => false
       end) l l'
  | _, _ => false
  end.

(* ------------------------------------------------------- well-typed values *)
Definition in_range (k : sk) (z : Z) : bool :=
  match k with
  | KU8 => (0 <=? z) && (z <? 256)
  | KI8 => (-128 <=? z) && (z <? 128)
  | KU16 => (0 <=? z) && (z <? 65536)
  | KI16 => (-32768 <=? z) && (z <? 32768)
  | KU32 | KF32 => (0 <=? z) && (z <? 4294967296)
  | KI32 => (-2147483648 <=? z) && (z <? 2147483648)
  | KU64 | KF64 => (0 <=? z) && (z <? 18446744073709551616)
  | KI64 => (-9223372036854775808 <=? z) && (z <? 9223372036854775808)
  | KF128 => (-170141183460469231731687303715884105728 <=? z) &&
             (z <? 170141183460469231731687303715884105728)
  | KChar8 => (0 <=? z) && (z <? 256)      (* one octet (ISO 8859-1); a Rust char above U+00FF is no char8 *)
  | KBool => (z =? 0) || (z =? 1)
  end.
(* Rust Strings: scalar values; lengths fit the u32 length fields *)
Definition str_ok (s : list Z) : bool :=
  forallb is_scalar s && (blen (utf8_enc s) + 1 <=? u32_max) && (blen (utf16_enc s) + 1 <=? u32_max).

Fixpoint sorted_from (lo : Z) (ks : list Z) : bool :=
  match ks with [] => true | k :: r => (lo <? k) && sorted_from k r end.
Definition sorted_keys {A} (d : list (Z * A)) : bool :=
  match keys d with [] => true | k :: r => sorted_from k r end.
Definition mem (k : Z) (l : list Z) : bool := existsb (Z.eqb k) l.
Definition ids {X} (ms : list (minfo * X)) : list Z := map (fun mx => m_id (fst mx)) ms.

(* the i32 a discriminator storage denotes (get_discriminator_id_as_i32) *)
Definition disc_of_val (v : val) : option Z :=
  match v with
  | VP KU8 z | VP KI8 z | VP KU16 z | VP KI16 z | VP KI32 z => Some z
  | VP KU32 z => Some (wrap_i32 z)
  | _ => None
  end.

(* element types the (de)serializer implements: no nested collections *)
Definition elem_ok (e : ty) : bool := match e with TSeq _ | TArr _ _ => false | _ => true end.

(* the storage of a collection with element type e (w = "is a value of e") *)
Definition elems_wt (e : ty) (w : val -> bool) (v : val) : bool :=
  match e with
  | TPrim p => match v with VSeqP k l => sk_eqb k (prim_sk p) && forallb (in_range k) l | _ => false end
  | TStr | TWStr => match v with VSeqStr l => forallb str_ok l | _ => false end
  | TEnum _ _ | TStruct _ _ | TUnion _ _ _ =>
    match v with VSeqData l => forallb (fun d => w (VData d)) l | _ => false end
  | _ => false
  end.

(* wt t v: v is a value of type t as the code stores it *)
Fixpoint wt (t : ty) (v : val) {struct t} : bool :=
  match t with
  | TPrim p => match v with VP k z => sk_eqb k (prim_sk p) && in_range k z | _ => false end
  | TStr | TWStr => match v with VStr s => str_ok s | _ => false end
  | TEnum h ls =>
    match v with
    | VData [(0, VP k z)] =>
      sk_eqb k (prim_sk h) && in_range k z && (match ls with [] => true | _ => mem z ls end)
    | _ => false
    end
  | TSeq e => elems_wt e (wt e) v && (seq_length v <=? u32_max)
  | TArr n e => elems_wt e (wt e) v && (seq_length v =? n)
  | TStruct _ ms =>
    match v with
    | VData d =>
      sorted_keys d && forallb (fun k => mem k (ids ms)) (keys d) &&
      (fix go (ms : list (minfo * ty)) : bool :=
         match ms with
         | [] => true
         | (m, t') :: r =>
           (match lookup (m_id m) d with Some v' => wt t' v' | None => m_opt m end) && go r
         end) ms
    | _ => false
    end
  | TUnion _ disc cs =>
    match v with
    | VData [(0, dv); (id, v')] =>
      wt disc dv && (0 <? id) &&
      (match disc_of_val dv with
       | Some z =>
         match select_member z None ((disc_info, disc) :: cs) with
         | Some (m, _) => m_id m =? id
         | None => false
         end
       | None => false
       end) &&
      (fix go (cs : list (minfo * ty)) : bool :=
         match cs with
         | [] => false
         | (m, t') :: r => if m_id m =? id then wt t' v' else go r
         end) cs
    | _ => false
    end
  end.

(* --------------------------------------------------- well-formed types *)
Fixpoint nodup_z (l : list Z) : bool :=
  match l with [] => true | k :: r => negb (mem k r) && nodup_z r end.
Definition id_ok (k : Z) : bool := (0 <=? k) && (k <? 268435456).
Definition label_ok (k : Z) : bool := (-2147483648 <=? k) && (k <? 2147483648).
Definition disc_ok (t : ty) : bool :=
  match t with
  | TPrim PByte | TPrim PU8 | TPrim PI8 | TPrim PU16 | TPrim PI16 | TPrim PI32 | TPrim PU32 => true
  | _ => false
  end.
Definition holder_ok (h : prim) : bool := match h with PI8 | PI16 | PI32 => true | _ => false end.

(* types the code implements (BITMASK, BITSET, MAP, CHAR16, ALIAS, ANNOTATION and nested
   collections are todo!() and have no constructor / are excluded here) *)
Fixpoint wf_ty (t : ty) : bool :=
  match t with
  | TPrim _ | TStr | TWStr => true
  | TEnum h ls => holder_ok h && forallb (in_range (prim_sk h)) ls
  | TSeq e => elem_ok e && wf_ty e
  | TArr n e => elem_ok e && wf_ty e && (0 <=? n) && (n <=? u32_max)
  | TStruct _ ms =>
    nodup_z (ids ms) && forallb id_ok (ids ms) &&
    (fix go (ms : list (minfo * ty)) : bool :=
       match ms with [] => true | (m, t') :: r => wf_ty t' && go r end) ms
  | TUnion _ disc cs =>
    disc_ok disc && nodup_z (ids cs) && forallb (fun k => id_ok k && (0 <? k)) (ids cs) &&
    forallb (fun mx => negb (m_opt (fst mx)) && forallb label_ok (m_labels (fst mx))) cs &&
    (fix go (ms : list (minfo * ty)) : bool :=
       match ms with [] => true | (m, t') :: r => wf_ty t' && go r end) cs
  end.

(* generic "some sub-type satisfies p" *)
Fixpoint ty_any (p : ty -> bool) (t : ty) : bool :=
  p t ||
  match t with
  | TSeq e | TArr _ e => ty_any p e
  | TStruct _ ms =>
    (fix go (ms : list (minfo * ty)) : bool :=
       match ms with [] => false | (_, t') :: r => ty_any p t' || go r end) ms
  | TUnion _ disc cs =>
    ty_any p disc ||
    (fix go (ms : list (minfo * ty)) : bool :=
       match ms with [] => false | (_, t') :: r => ty_any p t' || go r end) cs
  | _ => false
  end.
Definition has_opt_member (t : ty) : bool :=
  match t with
  | TStruct _ ms | TUnion _ _ ms => existsb (fun mx => m_opt (fst mx)) ms
  | _ => false
  end.
Definition is_union (t : ty) : bool := match t with TUnion _ _ _ => true | _ => false end.
Definition is_nonfinal (t : ty) : bool :=
  match t with TStruct Final _ => false | TStruct _ _ => true | _ => false end.
Definition is_mutable (t : ty) : bool :=
  match t with TStruct Mutable _ | TUnion Mutable _ _ => true | _ => false end.

(* stages: S1 = primitives, strings, enumerations, sequences, arrays, FINAL structures without
   optional members; S2 = S1 + APPENDABLE structures + optional members; S3 = everything *)
Definition stage1 (t : ty) : bool :=
  negb (ty_any (fun t => is_union t || is_nonfinal t || has_opt_member t) t).
Definition stage2 (t : ty) : bool :=
  negb (ty_any (fun t => is_union t || is_mutable t) t).

(* occupies t: every value of t takes at least one byte on the wire (whatever the version) *)
Fixpoint occupies (t : ty) : bool :=
  match t with
  | TPrim _ | TStr | TWStr | TEnum _ _ | TSeq _ | TUnion _ _ _ => true
  | TArr n e => (1 <=? n) && occupies e
  | TStruct _ ms =>
    (fix go (ms : list (minfo * ty)) : bool :=
       match ms with [] => false | (m, t') :: r => m_opt m || occupies t' || go r end) ms
  end.
(* XCDR1: a PRESENT optional member whose value is empty has parameter length 0, which is also
   how an absent member is written: it is read back as absent (inherent to the short encoding) *)
Definition opt_empty_trap (t : ty) : bool :=
  match t with
  | TStruct _ ms => existsb (fun mx : minfo * ty => m_opt (fst mx) && negb (occupies (snd mx))) ms
  | _ => false
  end.
(* XCDR1: an optional member id >= 2^14 needs the long parameter header (rule (25)), which the
   code does not implement: the serializer returns InvalidId -- such a type is not supported in XCDR1 *)
Definition pl_long (t : ty) : bool :=
  match t with
  | TStruct _ ms => existsb (fun mx : minfo * ty => m_opt (fst mx) && (16384 <=? m_id (fst mx))) ms
  | _ => false
  end.
Definition sup (v : ver) (t : ty) : bool :=
  match v with V1 => negb (ty_any pl_long t) | V2 => true end.

(* known-finding classes of a round-trip case (0 = none).  Classes 1 (char8 >= 0x80 written as
   UTF-8), 2 (XCDR1 float128 reader alignment), 3 (XCDR1 optional member rewound), 6 (XCDR1
   parameter id overflow) and the collection part of 5 (zero-size elements rejected by the length
   guard) were repaired in /repo (c6ffb24, 0b5427b, addc370, 2cf9289, 8422ab4); the numbers are
   kept stable:
   4  mutable types / unions (stage 3): several defects, see the S3 witnesses
   5  XCDR1: a present optional member with an empty value is read back as absent *)
Definition known_class (v : ver) (t : ty) (x : val) : N :=
  if negb (stage2 t) then 4%N
  else if (match v with V1 => true | V2 => false end) && ty_any opt_empty_trap t then 5%N
  else 0%N.

(* pad_entire_serialization as seen on the produced bytes: total length a multiple of 4,
   options byte 3 = number of trailing padding bytes (0..3), which are zero *)
Definition padding_ok (bs : list Z) : bool :=
  (blen bs mod 4 =? 0) &&
  (let n := nth 3 bs 0 in
   (0 <=? n) && (n <=? 3) && (4 + n <=? blen bs) &&
   forallb (Z.eqb 0) (skipn (length bs - Z.to_nat n) bs)).

(* S1+S2 in one predicate: no union, no mutable type; in XCDR1 no optional member that can be
   empty and no optional member id beyond the short parameter header *)
Definition tbad (V : ver) (t : ty) : bool :=
  is_union t || is_mutable t ||
  (match V with V1 => opt_empty_trap t || pl_long t | V2 => false end).
Definition tgood (V : ver) (t : ty) : bool := wf_ty t && negb (ty_any (tbad V) t).

(* size limit of the statement: the DHEADER of an appendable object and every length field is a
   u32; an XCDR1 optional member uses the short parameter header (u16 length; the long header,
   rule (25), is a TODO in the code) *)
Definition size_limit (v : ver) (t : ty) : Z :=
  match v with
  | V1 => if ty_any has_opt_member t then 65535 else u32_max
  | V2 => u32_max
  end.
