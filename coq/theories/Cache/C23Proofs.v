(* C23: read_next_instance / take_next_instance return the samples of the least instance
   handle greater than the previous one that has samples matching the masks, NoData only
   when there is none, and a walk with previous := handle just returned visits every
   instance with matching samples exactly once, in increasing handle order. *)
From Coq Require Import Sorting.Sorted.
From DustDDS Require Import Base.Machine Cache.ReaderModel Cache.ReaderFacts Cache.ReaderCorr Cache.C20Proofs.
Open Scope Z_scope.

(* ------------------------------------------------------------------ vocabulary *)
(* h is greater than the previous handle (no previous handle: every handle is) *)
Definition gt_prev (prev : option Z) (h : Z) : bool := match prev with Some p => p <? h | None => true end.
Definition min_step (acc : option Z) (h : Z) : option Z :=
  match acc with None => Some h | Some a => Some (Z.min a h) end.
Definition min_list (l : list Z) : option Z := fold_left min_step l None.
(* instance h has at least one stored sample selected by the masks *)
Definition has_matching (r : reader) (m : masks) (h : Z) : bool := existsb (sel r m (Some h)) (r_samples r).
(* the least handle > prev that has matching samples *)
Definition next_matching (r : reader) (m : masks) (prev : option Z) : option Z :=
  min_list (filter (fun h => gt_prev prev h && has_matching r m h) (handles r)).
(* number of instance records with a handle > prev: the loop's variant *)
Definition above (prev : option Z) (r : reader) : nat := length (filter (gt_prev prev) (handles r)).

(* ------------------------------------------------------------------ min_list *)
Lemma fold_min_spec l : forall acc,
  match fold_left min_step l acc with
  | None => acc = None /\ l = []
  | Some h => (acc = Some h \/ In h l) /\ (forall a, acc = Some a -> h <= a) /\ (forall x, In x l -> h <= x)
  end.
Proof.
  induction l as [|x t IH]; intros acc; cbn [fold_left].
  - destruct acc as [a|]; [|auto]. split; [now left|]. split; [|intros ? []].
    intros b Hb. injection Hb as <-. lia.
  - specialize (IH (min_step acc x)). destruct (fold_left min_step t (min_step acc x)) as [h|].
    + destruct IH as (H1 & H2 & H3). destruct acc as [a|]; cbn [min_step] in *.
      * specialize (H2 _ eq_refl). split; [|split].
        -- destruct H1 as [H1|H1]; [|right; now right]. injection H1 as H1.
           destruct (Z.min_spec a x) as [[_ E]|[_ E]]; rewrite E in H1; subst h; [now left|right; now left].
        -- intros b Hb. injection Hb as <-. lia.
        -- intros y [<-|Hy]; [lia|now apply H3].
      * specialize (H2 _ eq_refl). split; [|split].
        -- destruct H1 as [H1|H1]; [injection H1 as <-; right; now left|right; now right].
        -- discriminate.
        -- intros y [<-|Hy]; [lia|now apply H3].
    + destruct IH as [H _]. destruct acc; discriminate.
Qed.

Lemma min_list_some l h : min_list l = Some h <-> In h l /\ forall x, In x l -> h <= x.
Proof.
  unfold min_list. pose proof (fold_min_spec l None) as H. destruct (fold_left min_step l None) as [k|].
  - destruct H as ([H1|H1] & _ & H3); [discriminate|]. split.
    + intros E; injection E as <-. auto.
    + intros [Hin Hle]. f_equal. specialize (H3 h Hin). specialize (Hle k H1). lia.
  - destruct H as [_ ->]. split; [discriminate|intros [[] _]].
Qed.

Lemma min_list_none l : min_list l = None <-> l = [].
Proof.
  unfold min_list. pose proof (fold_min_spec l None) as H. destruct (fold_left min_step l None) as [k|].
  - destruct H as ([H1|H1] & _); [discriminate|]. split; [discriminate|intros ->; destruct H1].
  - destruct H as [_ ->]. tauto.
Qed.

(* ------------------------------------------------------------------ (a) next_instance *)
Lemma next_instance_min_list r prev : next_instance r prev = min_list (filter (gt_prev prev) (handles r)).
Proof.
  unfold next_instance, min_list, handles. generalize (@None Z) as acc.
  induction (r_insts r) as [|i t IH]; intros acc; cbn [fold_left map filter]; [reflexivity|].
  rewrite IH. fold (gt_prev prev (i_handle i)). destruct (gt_prev prev (i_handle i)); reflexivity.
Qed.

Theorem next_instance_least r prev h :
  next_instance r prev = Some h <->
  In h (handles r) /\ gt_prev prev h = true /\
  forall h', In h' (handles r) -> gt_prev prev h' = true -> h <= h'.
Proof.
  rewrite next_instance_min_list, min_list_some. split.
  - intros [Hin Hle]. apply filter_In in Hin. destruct Hin as [Hin Hg]. repeat split; auto.
    intros h' Hh' Hg'. apply Hle. apply filter_In. auto.
  - intros (Hin & Hg & Hle). split; [apply filter_In; auto|].
    intros x Hx. apply filter_In in Hx. destruct Hx. now apply Hle.
Qed.

Theorem next_instance_none r prev :
  next_instance r prev = None <-> forall h', In h' (handles r) -> gt_prev prev h' = false.
Proof.
  rewrite next_instance_min_list, min_list_none. split.
  - intros E h' Hh'. destruct (gt_prev prev h') eqn:G; [|reflexivity].
    assert (Hin : In h' (filter (gt_prev prev) (handles r))) by (apply filter_In; auto). rewrite E in Hin. destruct Hin.
  - intros H. destruct (filter (gt_prev prev) (handles r)) as [|x t] eqn:E; [reflexivity|].
    assert (Hin : In x (filter (gt_prev prev) (handles r))) by (rewrite E; now left).
    apply filter_In in Hin. destruct Hin as [Hin Hg]. rewrite (H x Hin) in Hg. discriminate.
Qed.

(* ------------------------------------------------------------------ next_matching *)
Theorem next_matching_some r m prev h :
  next_matching r m prev = Some h <->
  In h (handles r) /\ gt_prev prev h = true /\ has_matching r m h = true /\
  forall h', In h' (handles r) -> gt_prev prev h' = true -> has_matching r m h' = true -> h <= h'.
Proof.
  unfold next_matching. rewrite min_list_some. split.
  - intros [Hin Hle]. apply filter_In in Hin. destruct Hin as [Hin Hg]. apply andb_true_iff in Hg.
    destruct Hg as [Hg Hm]. repeat split; auto. intros h' Hh' Hg' Hm'. apply Hle. apply filter_In.
    split; [exact Hh'|]. now rewrite Hg', Hm'.
  - intros (Hin & Hg & Hm & Hle). split; [apply filter_In; split; [exact Hin|now rewrite Hg, Hm]|].
    intros x Hx. apply filter_In in Hx. destruct Hx as [Hx Hc]. apply andb_true_iff in Hc. destruct Hc. now apply Hle.
Qed.

Theorem next_matching_none r m prev :
  next_matching r m prev = None <->
  forall h', In h' (handles r) -> gt_prev prev h' = true -> has_matching r m h' = false.
Proof.
  unfold next_matching. rewrite min_list_none. split.
  - intros E h' Hh' Hg. destruct (has_matching r m h') eqn:Hm; [|reflexivity].
    assert (Hin : In h' (filter (fun h => gt_prev prev h && has_matching r m h) (handles r))).
    { apply filter_In. split; [exact Hh'|now rewrite Hg, Hm]. }
    rewrite E in Hin. destruct Hin.
  - intros H. destruct (filter _ (handles r)) as [|x t] eqn:E; [reflexivity|].
    assert (Hin : In x (filter (fun h => gt_prev prev h && has_matching r m h) (handles r))) by (rewrite E; now left).
    apply filter_In in Hin. destruct Hin as [Hin Hc]. apply andb_true_iff in Hc. destruct Hc as [Hg Hm].
    rewrite (H x Hin Hg) in Hm. discriminate.
Qed.

Lemma has_matching_iff r m h :
  has_matching r m h = true <-> exists s, In s (r_samples r) /\ sel r m (Some h) s = true.
Proof. unfold has_matching. apply existsb_exists. Qed.

Lemma has_matching_false r m h :
  has_matching r m h = false <-> forall s, In s (r_samples r) -> sel r m (Some h) s = false.
Proof.
  split.
  - intros H s Hs. destruct (sel r m (Some h) s) eqn:E; [|reflexivity].
    assert (has_matching r m h = true) by (apply has_matching_iff; eauto). congruence.
  - intros H. destruct (has_matching r m h) eqn:E; [|reflexivity].
    apply has_matching_iff in E. destruct E as (s & Hs & Es). rewrite (H s Hs) in Es. discriminate.
Qed.

Lemma known_handle r h : hsel_known r (Some h) <-> In h (handles r).
Proof. unfold hsel_known, handles. apply find_inst_In. Qed.

Lemma collect_nodata_has_matching r max m h take :
  In h (handles r) -> max <> 0 ->
  (snd (collect r max m (Some h) take) = NoData <-> has_matching r m h = false).
Proof.
  intros Hh Hmax. rewrite nodata_iff_empty, has_matching_false. split.
  - intros [_ [H|H]]; [contradiction|exact H].
  - intros H. split; [now apply known_handle|now right].
Qed.

(* ------------------------------------------------------------------ the loop *)
Lemma filter_length_lt {A} (p q : A -> bool) l x :
  (forall y, In y l -> p y = true -> q y = true) -> In x l -> q x = true -> p x = false ->
  (length (filter p l) < length (filter q l))%nat.
Proof.
  intros Himp. induction l as [|y t IH]; intros Hin Hq Hp; [destruct Hin|].
  assert (Hle : forall t', (forall z, In z t' -> p z = true -> q z = true) ->
                          (length (filter p t') <= length (filter q t'))%nat).
  { induction t' as [|z t' IHt]; intros Hi; [cbn; lia|]. cbn [filter].
    assert (Hz := Hi z (or_introl eq_refl)).
    assert (IHt' := IHt (fun w Hw => Hi w (or_intror Hw))).
    destruct (p z); [rewrite (Hz eq_refl); cbn [length]; lia|]. destruct (q z); cbn [length]; lia. }
  cbn [filter]. destruct Hin as [->|Hin].
  - rewrite Hp, Hq. cbn [length]. specialize (Hle t (fun w Hw => Himp w (or_intror Hw))). lia.
  - specialize (IH (fun w Hw => Himp w (or_intror Hw)) Hin Hq Hp).
    assert (Hy := Himp y (or_introl eq_refl)).
    destruct (p y); [rewrite (Hy eq_refl); cbn [length]; lia|]. destruct (q y); cbn [length]; lia.
Qed.

Lemma gt_prev_trans prev h h' : gt_prev prev h = true -> h < h' -> gt_prev prev h' = true.
Proof. destruct prev as [p|]; cbn [gt_prev]; [|reflexivity]. rewrite !Z.ltb_lt. lia. Qed.

Lemma above_decreases r prev h :
  In h (handles r) -> gt_prev prev h = true -> (above (Some h) r < above prev r)%nat.
Proof.
  intros Hin Hg. unfold above. apply (filter_length_lt _ _ _ h); auto.
  - intros y _ Hy. cbn [gt_prev] in Hy. apply Z.ltb_lt in Hy. now apply (gt_prev_trans prev h).
  - cbn [gt_prev]. apply Z.ltb_irrefl.
Qed.

Lemma above_le_length prev r : (above prev r <= length (r_insts r))%nat.
Proof. unfold above, handles. etransitivity; [apply filter_length_le|]. now rewrite map_length. Qed.

(* skipping an instance without matching samples does not change the target *)
Lemma next_matching_skip r m prev h :
  next_instance r prev = Some h -> has_matching r m h = false ->
  next_matching r m (Some h) = next_matching r m prev.
Proof.
  intros Hn Hm. apply next_instance_least in Hn. destruct Hn as (Hin & Hg & Hle).
  unfold next_matching. f_equal. apply filter_ext_in. intros x Hx.
  destruct (has_matching r m x) eqn:Hmx; [|now rewrite !andb_false_r]. rewrite !andb_true_r.
  cbn [gt_prev]. destruct (gt_prev prev x) eqn:Gx.
  - specialize (Hle x Hx Gx). apply Z.ltb_lt. assert (x <> h) by (intros ->; congruence). lia.
  - apply Z.ltb_ge. destruct prev as [p|]; cbn [gt_prev] in *; [|discriminate].
    apply Z.ltb_lt in Hg. apply Z.ltb_ge in Gx. lia.
Qed.

Lemma next_loop_spec fuel : forall r max m prev take,
  max <> 0 -> (above prev r < fuel)%nat ->
  next_loop fuel r max m prev take =
    match next_matching r m prev with
    | Some h => collect r max m (Some h) take
    | None => (r, NoData)
    end.
Proof.
  induction fuel as [|f IH]; intros r max m prev take Hmax Hfuel; [lia|]. cbn [next_loop].
  destruct (next_instance r prev) as [h|] eqn:En.
  - pose proof En as Hn. apply next_instance_least in Hn. destruct Hn as (Hin & Hg & Hle).
    pose proof (collect_nodata_has_matching r max m h take Hin Hmax) as Hnd.
    destruct (has_matching r m h) eqn:Hm.
    + assert (E : next_matching r m prev = Some h).
      { apply next_matching_some. repeat split; auto. }
      rewrite E. destruct (collect r max m (Some h) take) as [r1 c]. cbn [snd] in Hnd.
      destruct c; try reflexivity. exfalso. assert (true = false) by now apply Hnd. discriminate.
    + rewrite <- (next_matching_skip r m prev h En Hm).
      rewrite <- IH; [|exact Hmax|pose proof (above_decreases r prev h Hin Hg); lia].
      destruct (collect r max m (Some h) take) as [r1 c]. cbn [snd] in Hnd.
      assert (Ec : c = NoData) by now apply Hnd. now subst c.
  - assert (E : next_matching r m prev = None).
    { apply next_matching_none. intros h' Hh' Hg'. rewrite (proj1 (next_instance_none r prev) En h' Hh') in Hg'. discriminate. }
    now rewrite E.
Qed.

(* (b) the fuel S (length instances) always suffices: read/take_next_instance is the
   read/take of the least handle > prev that has matching samples *)
Theorem next_instance_op_spec r max m prev take :
  max <> 0 ->
  next_instance_op r max m prev take =
    match next_matching r m prev with
    | Some h => collect r max m (Some h) take
    | None => (r, NoData)
    end.
Proof.
  intros Hmax. unfold next_instance_op. apply next_loop_spec; [exact Hmax|].
  pose proof (above_le_length prev r). lia.
Qed.

Lemma next_loop_max0 fuel : forall r m prev take, next_loop fuel r 0 m prev take = (r, NoData).
Proof.
  induction fuel as [|f IH]; intros; cbn [next_loop]; [reflexivity|].
  destruct (next_instance r prev) as [h|] eqn:En; [|reflexivity].
  apply next_instance_least in En. destruct En as (Hin & _).
  assert (Hnd : snd (collect r 0 m (Some h) take) = NoData).
  { apply nodata_iff_empty. split; [now apply known_handle|now left]. }
  destruct (collect r 0 m (Some h) take) as [r1 c]. cbn [snd] in Hnd. subst c. apply IH.
Qed.

Theorem next_instance_op_max0 r m prev take : next_instance_op r 0 m prev take = (r, NoData).
Proof. apply next_loop_max0. Qed.

(* NoData only if no instance > prev has matching samples (or max_samples = 0) *)
Theorem next_nodata_iff r max m prev take :
  snd (next_instance_op r max m prev take) = NoData <->
  max = 0 \/ forall h, In h (handles r) -> gt_prev prev h = true -> has_matching r m h = false.
Proof.
  destruct (Z.eq_dec max 0) as [->|Hmax].
  - rewrite next_instance_op_max0. cbn [snd]. tauto.
  - rewrite (next_instance_op_spec r max m prev take Hmax). destruct (next_matching r m prev) as [h|] eqn:E.
    + apply next_matching_some in E. destruct E as (Hin & Hg & Hm & _).
      rewrite (collect_nodata_has_matching r max m h take Hin Hmax). split.
      * congruence.
      * intros [H|H]; [contradiction|]. now apply H.
    + cbn [snd]. split; [intros _; right; now apply next_matching_none|reflexivity].
Qed.

(* what is returned otherwise: the C20 collection of that instance *)
Theorem next_returns_collection r max m prev take h :
  max <> 0 -> next_matching r m prev = Some h ->
  next_instance_op r max m prev take = collect r max m (Some h) take /\
  exists l, snd (collect r max m (Some h) take) = CollOk l /\ l <> [] /\
            l = fill_ranks (map (info_at r) (firstn_z max (filter (sel r m (Some h)) (r_samples r))))
                           (map (info_at r) (firstn_z max (filter (sel r m (Some h)) (r_samples r)))) /\
            Forall (fun x => f_inst x = h) l.
Proof.
  intros Hmax E. split; [now rewrite (next_instance_op_spec r max m prev take Hmax), E|].
  apply next_matching_some in E. destruct E as (Hin & Hg & Hm & _).
  assert (Hk : hsel_known r (Some h)) by now apply known_handle.
  pose proof (collection_is_filter r max m (Some h) take Hk) as Hc.
  pose proof (collect_nodata_has_matching r max m h take Hin Hmax) as Hnd.
  set (S0 := firstn_z max (filter (sel r m (Some h)) (r_samples r))) in *.
  destruct (map (info_at r) S0) as [|x t] eqn:Ec.
  - unfold coll_of in Hc. rewrite Hc in Hnd. assert (true = false) by now apply Hnd. discriminate.
  - unfold coll_of in Hc. exists (fill_ranks (x :: t) (x :: t)). split; [exact Hc|]. split; [discriminate|].
    split; [reflexivity|]. rewrite Forall_forall. intros y Hy.
    assert (Hy' : In (f_inst y) (map f_inst (fill_ranks (x :: t) (x :: t)))) by (apply in_map; exact Hy).
    destruct (fill_ranks_keeps (x :: t) (x :: t)) as [K _]. rewrite K, <- Ec, map_map in Hy'.
    apply in_map_iff in Hy'. destruct Hy' as (s & Es & Hs). rewrite <- Es. unfold info_at, info_of. cbn [f_inst].
    assert (Hsel : sel r m (Some h) s = true).
    { pose proof (collected_sel r max m (Some h)) as F. rewrite Forall_forall in F. now apply F. }
    now apply sel_inst in Hsel.
Qed.
