(* C23: read_next_instance / take_next_instance return the samples of the least instance
   handle greater than the previous one that has samples matching the masks, NoData only
   when there is none, and a walk with previous := handle just returned visits every
   instance with matching samples exactly once, in increasing handle order. *)
From Coq Require Import Sorting.Sorted.
From DustDDS Require Import Base.Machine Cache.ReaderModel Cache.ReaderFacts Cache.ReaderCorr Cache.C20Proofs.
Open Scope Z_scope.

(* ------------------------------------------------------------------ vocabulary *)
(* h is greater than the previous handle (no previous handle: every handle is) *)
Definition gt_prev (prev : option Z) (h : Z) : bool := match prev with Some p => p <? h | None => true end.
Definition min_step (acc : option Z) (h : Z) : option Z :=
  match acc with None => Some h | Some a => Some (Z.min a h) end.
Definition min_list (l : list Z) : option Z := fold_left min_step l None.
(* instance h has at least one stored sample selected by the masks *)
Definition has_matching (r : reader) (m : masks) (h : Z) : bool := existsb (sel r m (Some h)) (r_samples r).
(* the least handle > prev that has matching samples *)
Definition next_matching (r : reader) (m : masks) (prev : option Z) : option Z :=
  min_list (filter (fun h => gt_prev prev h && has_matching r m h) (handles r)).
(* number of instance records with a handle > prev: the loop's variant *)
Definition above (prev : option Z) (r : reader) : nat := length (filter (gt_prev prev) (handles r)).

(* ------------------------------------------------------------------ min_list *)
Lemma fold_min_spec l : forall acc,
  match fold_left min_step l acc with
  | None => acc = None /\ l = []
  | Some h => (acc = Some h \/ In h l) /\ (forall a, acc = Some a -> h <= a) /\ (forall x, In x l -> h <= x)
  end.
Proof.
  induction l as [|x t IH]; intros acc; cbn [fold_left].
  - destruct acc as [a|]; [|auto]. split; [now left|]. split; [|intros ? []].
    intros b Hb. injection Hb as <-. lia.
  - specialize (IH (min_step acc x)). destruct (fold_left min_step t (min_step acc x)) as [h|].
    + destruct IH as (H1 & H2 & H3). destruct acc as [a|]; cbn [min_step] in *.
      * specialize (H2 _ eq_refl). split; [|split].
        -- destruct H1 as [H1|H1]; [|right; now right]. injection H1 as H1.
           destruct (Z.min_spec a x) as [[_ E]|[_ E]]; rewrite E in H1; subst h; [now left|right; now left].
        -- intros b Hb. injection Hb as <-. lia.
        -- intros y [<-|Hy]; [lia|now apply H3].
      * specialize (H2 _ eq_refl). split; [|split].
        -- destruct H1 as [H1|H1]; [injection H1 as <-; right; now left|right; now right].
        -- discriminate.
        -- intros y [<-|Hy]; [lia|now apply H3].
    + destruct IH as [H _]. destruct acc; discriminate.
Qed.

Lemma min_list_some l h : min_list l = Some h <-> In h l /\ forall x, In x l -> h <= x.
Proof.
  unfold min_list. pose proof (fold_min_spec l None) as H. destruct (fold_left min_step l None) as [k|].
  - destruct H as ([H1|H1] & _ & H3); [discriminate|]. split.
    + intros E; injection E as <-. auto.
    + intros [Hin Hle]. f_equal. specialize (H3 h Hin). specialize (Hle k H1). lia.
  - destruct H as [_ ->]. split; [discriminate|intros [[] _]].
Qed.

Lemma min_list_none l : min_list l = None <-> l = [].
Proof.
  unfold min_list. pose proof (fold_min_spec l None) as H. destruct (fold_left min_step l None) as [k|].
  - destruct H as ([H1|H1] & _); [discriminate|]. split; [discriminate|intros ->; destruct H1].
  - destruct H as [_ ->]. tauto.
Qed.

(* ------------------------------------------------------------------ (a) next_instance *)
Lemma next_instance_min_list r prev : next_instance r prev = min_list (filter (gt_prev prev) (handles r)).
Proof.
  unfold next_instance, min_list, handles. generalize (@None Z) as acc.
  induction (r_insts r) as [|i t IH]; intros acc; cbn [fold_left map filter]; [reflexivity|].
  rewrite IH. fold (gt_prev prev (i_handle i)). destruct (gt_prev prev (i_handle i)); reflexivity.
Qed.

Theorem next_instance_least r prev h :
  next_instance r prev = Some h <->
  In h (handles r) /\ gt_prev prev h = true /\
  forall h', In h' (handles r) -> gt_prev prev h' = true -> h <= h'.
Proof.
  rewrite next_instance_min_list, min_list_some. split.
  - intros [Hin Hle]. apply filter_In in Hin. destruct Hin as [Hin Hg]. repeat split; auto.
    intros h' Hh' Hg'. apply Hle. apply filter_In. auto.
  - intros (Hin & Hg & Hle). split; [apply filter_In; auto|].
    intros x Hx. apply filter_In in Hx. destruct Hx. now apply Hle.
Qed.

Theorem next_instance_none r prev :
  next_instance r prev = None <-> forall h', In h' (handles r) -> gt_prev prev h' = false.
Proof.
  rewrite next_instance_min_list, min_list_none. split.
  - intros E h' Hh'. destruct (gt_prev prev h') eqn:G; [|reflexivity].
    assert (Hin : In h' (filter (gt_prev prev) (handles r))) by (apply filter_In; auto). rewrite E in Hin. destruct Hin.
  - intros H. destruct (filter (gt_prev prev) (handles r)) as [|x t] eqn:E; [reflexivity|].
    assert (Hin : In x (filter (gt_prev prev) (handles r))) by (rewrite E; now left).
    apply filter_In in Hin. destruct Hin as [Hin Hg]. rewrite (H x Hin) in Hg. discriminate.
Qed.

(* ------------------------------------------------------------------ next_matching *)
Theorem next_matching_some r m prev h :
  next_matching r m prev = Some h <->
  In h (handles r) /\ gt_prev prev h = true /\ has_matching r m h = true /\
  forall h', In h' (handles r) -> gt_prev prev h' = true -> has_matching r m h' = true -> h <= h'.
Proof.
  unfold next_matching. rewrite min_list_some. split.
  - intros [Hin Hle]. apply filter_In in Hin. destruct Hin as [Hin Hg]. apply andb_true_iff in Hg.
    destruct Hg as [Hg Hm]. repeat split; auto. intros h' Hh' Hg' Hm'. apply Hle. apply filter_In.
    split; [exact Hh'|]. now rewrite Hg', Hm'.
  - intros (Hin & Hg & Hm & Hle). split; [apply filter_In; split; [exact Hin|now rewrite Hg, Hm]|].
    intros x Hx. apply filter_In in Hx. destruct Hx as [Hx Hc]. apply andb_true_iff in Hc. destruct Hc. now apply Hle.
Qed.

Theorem next_matching_none r m prev :
  next_matching r m prev = None <->
  forall h', In h' (handles r) -> gt_prev prev h' = true -> has_matching r m h' = false.
Proof.
  unfold next_matching. rewrite min_list_none. split.
  - intros E h' Hh' Hg. destruct (has_matching r m h') eqn:Hm; [|reflexivity].
    assert (Hin : In h' (filter (fun h => gt_prev prev h && has_matching r m h) (handles r))).
    { apply filter_In. split; [exact Hh'|now rewrite Hg, Hm]. }
    rewrite E in Hin. destruct Hin.
  - intros H. destruct (filter _ (handles r)) as [|x t] eqn:E; [reflexivity|].
    assert (Hin : In x (filter (fun h => gt_prev prev h && has_matching r m h) (handles r))) by (rewrite E; now left).
    apply filter_In in Hin. destruct Hin as [Hin Hc]. apply andb_true_iff in Hc. destruct Hc as [Hg Hm].
    rewrite (H x Hin Hg) in Hm. discriminate.
Qed.

Lemma has_matching_iff r m h :
  has_matching r m h = true <-> exists s, In s (r_samples r) /\ sel r m (Some h) s = true.
Proof. unfold has_matching. apply existsb_exists. Qed.

Lemma has_matching_false r m h :
  has_matching r m h = false <-> forall s, In s (r_samples r) -> sel r m (Some h) s = false.
Proof.
  split.
  - intros H s Hs. destruct (sel r m (Some h) s) eqn:E; [|reflexivity].
    assert (has_matching r m h = true) by (apply has_matching_iff; eauto). congruence.
  - intros H. destruct (has_matching r m h) eqn:E; [|reflexivity].
    apply has_matching_iff in E. destruct E as (s & Hs & Es). rewrite (H s Hs) in Es. discriminate.
Qed.

Lemma known_handle r h : hsel_known r (Some h) <-> In h (handles r).
Proof. unfold hsel_known, handles. apply find_inst_In. Qed.

Lemma collect_nodata_has_matching r max m h take :
  In h (handles r) -> max <> 0 ->
  (snd (collect r max m (Some h) take) = NoData <-> has_matching r m h = false).
Proof.
  intros Hh Hmax. rewrite nodata_iff_empty, has_matching_false. split.
  - intros [_ [H|H]]; [contradiction|exact H].
  - intros H. split; [now apply known_handle|now right].
Qed.

(* ------------------------------------------------------------------ the loop *)
Lemma filter_length_lt {A} (p q : A -> bool) l x :
  (forall y, In y l -> p y = true -> q y = true) -> In x l -> q x = true -> p x = false ->
  (length (filter p l) < length (filter q l))%nat.
Proof.
  intros Himp. induction l as [|y t IH]; intros Hin Hq Hp; [destruct Hin|].
  assert (Hle : forall t', (forall z, In z t' -> p z = true -> q z = true) ->
                          (length (filter p t') <= length (filter q t'))%nat).
  { induction t' as [|z t' IHt]; intros Hi; [cbn; lia|]. cbn [filter].
    assert (Hz := Hi z (or_introl eq_refl)).
    assert (IHt' := IHt (fun w Hw => Hi w (or_intror Hw))).
    destruct (p z); [rewrite (Hz eq_refl); cbn [length]; lia|]. destruct (q z); cbn [length]; lia. }
  cbn [filter]. destruct Hin as [->|Hin].
  - rewrite Hp, Hq. cbn [length]. specialize (Hle t (fun w Hw => Himp w (or_intror Hw))). lia.
  - specialize (IH (fun w Hw => Himp w (or_intror Hw)) Hin Hq Hp).
    assert (Hy := Himp y (or_introl eq_refl)).
    destruct (p y); [rewrite (Hy eq_refl); cbn [length]; lia|]. destruct (q y); cbn [length]; lia.
Qed.

Lemma gt_prev_trans prev h h' : gt_prev prev h = true -> h < h' -> gt_prev prev h' = true.
Proof. destruct prev as [p|]; cbn [gt_prev]; [|reflexivity]. rewrite !Z.ltb_lt. lia. Qed.

Lemma above_decreases r prev h :
  In h (handles r) -> gt_prev prev h = true -> (above (Some h) r < above prev r)%nat.
Proof.
  intros Hin Hg. unfold above. apply (filter_length_lt _ _ _ h); auto.
  - intros y _ Hy. cbn [gt_prev] in Hy. apply Z.ltb_lt in Hy. now apply (gt_prev_trans prev h).
  - cbn [gt_prev]. apply Z.ltb_irrefl.
Qed.

Lemma filter_len_le {A} (p : A -> bool) l : (length (filter p l) <= length l)%nat.
Proof. induction l as [|x t IH]; cbn [filter length]; [lia|]. destruct (p x); cbn [length]; lia. Qed.

Lemma above_le_length prev r : (above prev r <= length (r_insts r))%nat.
Proof. unfold above, handles. etransitivity; [apply filter_len_le|]. now rewrite map_length. Qed.

(* skipping an instance without matching samples does not change the target *)
Lemma next_matching_skip r m prev h :
  next_instance r prev = Some h -> has_matching r m h = false ->
  next_matching r m (Some h) = next_matching r m prev.
Proof.
  intros Hn Hm. apply next_instance_least in Hn. destruct Hn as (Hin & Hg & Hle).
  unfold next_matching. f_equal. apply filter_ext_in. intros x Hx.
  destruct (has_matching r m x) eqn:Hmx; [|now rewrite !andb_false_r]. rewrite !andb_true_r.
  cbn [gt_prev]. destruct (gt_prev prev x) eqn:Gx.
  - specialize (Hle x Hx Gx). apply Z.ltb_lt. assert (x <> h) by (intros ->; congruence). lia.
  - apply Z.ltb_ge. destruct prev as [p|]; cbn [gt_prev] in *; [|discriminate].
    apply Z.ltb_lt in Hg. apply Z.ltb_ge in Gx. lia.
Qed.

Lemma next_loop_spec fuel : forall r max m prev take,
  max <> 0 -> (above prev r < fuel)%nat ->
  next_loop fuel r max m prev take =
    match next_matching r m prev with
    | Some h => collect r max m (Some h) take
    | None => (r, NoData)
    end.
Proof.
  induction fuel as [|f IH]; intros r max m prev take Hmax Hfuel; [lia|]. cbn [next_loop].
  destruct (next_instance r prev) as [h|] eqn:En.
  - pose proof En as Hn. apply next_instance_least in Hn. destruct Hn as (Hin & Hg & Hle).
    pose proof (collect_nodata_has_matching r max m h take Hin Hmax) as Hnd.
    destruct (has_matching r m h) eqn:Hm.
    + assert (E : next_matching r m prev = Some h).
      { apply next_matching_some. repeat split; auto. }
      rewrite E. destruct (collect r max m (Some h) take) as [r1 c]. cbn [snd] in Hnd.
      destruct c; try reflexivity. exfalso. assert (true = false) by now apply Hnd. discriminate.
    + rewrite <- (next_matching_skip r m prev h En Hm).
      rewrite <- IH; [|exact Hmax|pose proof (above_decreases r prev h Hin Hg); lia].
      destruct (collect r max m (Some h) take) as [r1 c]. cbn [snd] in Hnd.
      assert (Ec : c = NoData) by now apply Hnd. now subst c.
  - assert (E : next_matching r m prev = None).
    { apply next_matching_none. intros h' Hh' Hg'. rewrite (proj1 (next_instance_none r prev) En h' Hh') in Hg'. discriminate. }
    now rewrite E.
Qed.

(* (b) the fuel S (length instances) always suffices: read/take_next_instance is the
   read/take of the least handle > prev that has matching samples *)
Theorem next_instance_op_spec r max m prev take :
  max <> 0 ->
  next_instance_op r max m prev take =
    match next_matching r m prev with
    | Some h => collect r max m (Some h) take
    | None => (r, NoData)
    end.
Proof.
  intros Hmax. unfold next_instance_op. apply next_loop_spec; [exact Hmax|].
  pose proof (above_le_length prev r). lia.
Qed.

Lemma next_loop_max0 fuel : forall r m prev take, next_loop fuel r 0 m prev take = (r, NoData).
Proof.
  induction fuel as [|f IH]; intros; cbn [next_loop]; [reflexivity|].
  destruct (next_instance r prev) as [h|] eqn:En; [|reflexivity].
  apply next_instance_least in En. destruct En as (Hin & _).
  assert (Hnd : snd (collect r 0 m (Some h) take) = NoData).
  { apply nodata_iff_empty. split; [now apply known_handle|now left]. }
  destruct (collect r 0 m (Some h) take) as [r1 c]. cbn [snd] in Hnd. subst c. apply IH.
Qed.

Theorem next_instance_op_max0 r m prev take : next_instance_op r 0 m prev take = (r, NoData).
Proof. apply next_loop_max0. Qed.

(* NoData only if no instance > prev has matching samples (or max_samples = 0) *)
Theorem next_nodata_iff r max m prev take :
  snd (next_instance_op r max m prev take) = NoData <->
  max = 0 \/ forall h, In h (handles r) -> gt_prev prev h = true -> has_matching r m h = false.
Proof.
  destruct (Z.eq_dec max 0) as [->|Hmax].
  - rewrite next_instance_op_max0. cbn [snd]. tauto.
  - rewrite (next_instance_op_spec r max m prev take Hmax). destruct (next_matching r m prev) as [h|] eqn:E.
    + apply next_matching_some in E. destruct E as (Hin & Hg & Hm & _).
      rewrite (collect_nodata_has_matching r max m h take Hin Hmax). split.
      * congruence.
      * intros [H|H]; [contradiction|]. now apply H.
    + cbn [snd]. split; [intros _; right; now apply next_matching_none|reflexivity].
Qed.

(* what is returned otherwise: the C20 collection of that instance *)
Theorem next_returns_collection r max m prev take h :
  max <> 0 -> next_matching r m prev = Some h ->
  next_instance_op r max m prev take = collect r max m (Some h) take /\
  exists l, snd (collect r max m (Some h) take) = CollOk l /\ l <> [] /\
            l = fill_ranks (map (info_at r) (firstn_z max (filter (sel r m (Some h)) (r_samples r))))
                           (map (info_at r) (firstn_z max (filter (sel r m (Some h)) (r_samples r)))) /\
            Forall (fun x => f_inst x = h) l.
Proof.
  intros Hmax E. split; [now rewrite (next_instance_op_spec r max m prev take Hmax), E|].
  apply next_matching_some in E. destruct E as (Hin & Hg & Hm & _).
  assert (Hk : hsel_known r (Some h)) by now apply known_handle.
  pose proof (collection_is_filter r max m (Some h) take Hk) as Hc.
  pose proof (collect_nodata_has_matching r max m h take Hin Hmax) as Hnd.
  set (S0 := firstn_z max (filter (sel r m (Some h)) (r_samples r))) in *.
  destruct (map (info_at r) S0) as [|x t] eqn:Ec.
  - unfold coll_of in Hc. rewrite Hc, Hm in Hnd. assert (true = false) by now apply Hnd. discriminate.
  - unfold coll_of in Hc. exists (fill_ranks (x :: t) (x :: t)). split; [exact Hc|]. split; [discriminate|].
    split; [reflexivity|]. rewrite Forall_forall. intros y Hy.
    assert (Hy' : In (f_inst y) (map f_inst (fill_ranks (x :: t) (x :: t)))) by (apply in_map; exact Hy).
    destruct (fill_ranks_keeps (x :: t) (x :: t)) as [K _]. rewrite K, <- Ec, map_map in Hy'.
    apply in_map_iff in Hy'. destruct Hy' as (s & Es & Hs). rewrite <- Es. unfold info_at, info_of. cbn [f_inst].
    assert (Hsel : sel r m (Some h) s = true).
    { pose proof (collected_sel r max m (Some h)) as F. rewrite Forall_forall in F. now apply F. }
    now apply sel_inst in Hsel.
Qed.

(* ------------------------------------------------------------------ (c) the walk *)
(* the application loop: call read/take_next_instance, then again with previous := the
   instance handle of the samples just returned, until it returns no samples *)
Fixpoint walk (fuel : nat) (r : reader) (max : Z) (m : masks) (prev : option Z) (take : bool)
  : list (Z * list info) :=
  match fuel with
  | O => []
  | S f =>
      match next_instance_op r max m prev take with
      | (r', CollOk (x :: t)) => (f_inst x, x :: t) :: walk f r' max m (Some (f_inst x)) take
      | _ => []
      end
  end.

(* what a call with instance argument h depends on: the samples and the record of h *)
Definition local_eq (h : Z) (r r0 : reader) : Prop :=
  filter (of_inst h) (r_samples r) = filter (of_inst h) (r_samples r0) /\
  find_inst h (r_insts r) = find_inst h (r_insts r0).
Definition agree_above (prev : option Z) (r r0 : reader) : Prop :=
  handles r = handles r0 /\ forall h, gt_prev prev h = true -> local_eq h r r0.

Lemma sel_local m h r r0 s :
  find_inst h (r_insts r) = find_inst h (r_insts r0) -> sel r m (Some h) s = sel r0 m (Some h) s.
Proof.
  intros E. unfold sel, selected. destruct (s_inst s =? h) eqn:Eh; cbn [negb]; [|reflexivity].
  apply Z.eqb_eq in Eh. now rewrite Eh, E.
Qed.

Lemma sel_of_inst r m h s : sel r m (Some h) s = true -> of_inst h s = true.
Proof. intros H. apply sel_inst in H. unfold of_inst. now apply Z.eqb_eq. Qed.

Lemma filter_filter_impl {A} (p q : A -> bool) l :
  (forall x, p x = true -> q x = true) -> filter p (filter q l) = filter p l.
Proof.
  intros H. induction l as [|x t IH]; cbn [filter]; [reflexivity|].
  destruct (q x) eqn:Q; cbn [filter]; [now rewrite IH|].
  destruct (p x) eqn:P; [rewrite (H x P) in Q; discriminate|exact IH].
Qed.

Lemma filter_sel_local m h r r0 :
  local_eq h r r0 ->
  filter (sel r m (Some h)) (r_samples r) = filter (sel r0 m (Some h)) (r_samples r0).
Proof.
  intros [Es Ei].
  rewrite <- (filter_filter_impl (sel r m (Some h)) (of_inst h) (r_samples r)) by apply sel_of_inst.
  rewrite <- (filter_filter_impl (sel r0 m (Some h)) (of_inst h) (r_samples r0)) by apply sel_of_inst.
  rewrite Es. apply filter_ext. intros s. now apply sel_local.
Qed.

Lemma existsb_filter_nil {A} (p : A -> bool) l : existsb p l = match filter p l with [] => false | _ => true end.
Proof. induction l as [|x t IH]; cbn [existsb filter]; [reflexivity|]. destruct (p x); [reflexivity|exact IH]. Qed.

Lemma has_matching_local m h r r0 : local_eq h r r0 -> has_matching r m h = has_matching r0 m h.
Proof. intros H. unfold has_matching. rewrite !existsb_filter_nil. now rewrite (filter_sel_local m h r r0 H). Qed.

Lemma info_at_local r r0 s : find_inst (s_inst s) (r_insts r) = find_inst (s_inst s) (r_insts r0) ->
  info_at r s = info_at r0 s.
Proof. intros E. unfold info_at, inst_of. now rewrite E. Qed.

Lemma collect_result_local max m h take r r0 :
  local_eq h r r0 -> In h (handles r0) ->
  snd (collect r max m (Some h) take) = snd (collect r0 max m (Some h) take).
Proof.
  intros L Hin. pose proof L as [Es Ei].
  assert (Hk0 : hsel_known r0 (Some h)) by now apply known_handle.
  assert (Hk : hsel_known r (Some h)) by (unfold hsel_known in *; now rewrite Ei).
  rewrite (collection_is_filter r max m (Some h) take Hk), (collection_is_filter r0 max m (Some h) take Hk0).
  rewrite (filter_sel_local m h r r0 L). f_equal. apply map_ext_in. intros s Hs.
  apply info_at_local.
  pose proof (collected_sel r0 max m (Some h)) as F. rewrite Forall_forall in F. specialize (F s Hs).
  apply sel_inst in F. now rewrite F.
Qed.

(* frame: a call on instance h leaves every other instance's samples and record alone *)
Lemma filter_of_inst_mark r m h h' l : h' <> h ->
  filter (of_inst h') (map (mark_sel r m (Some h)) l) = filter (of_inst h') l.
Proof.
  intros Hne. induction l as [|s t IH]; cbn [map filter]; [reflexivity|]. rewrite IH.
  unfold mark_sel. destruct (sel r m (Some h) s) eqn:Es; [|reflexivity].
  apply sel_inst in Es. unfold of_inst. cbn [mark_read s_inst]. rewrite Es.
  assert (E : (h =? h') = false) by (apply Z.eqb_neq; congruence). now rewrite E.
Qed.

Lemma filter_of_inst_unsel r m h h' l : h' <> h ->
  filter (of_inst h') (filter (unsel r m (Some h)) l) = filter (of_inst h') l.
Proof.
  intros Hne. induction l as [|s t IH]; cbn [filter]; [reflexivity|]. unfold unsel at 1.
  destruct (sel r m (Some h) s) eqn:Es; cbn [negb filter]; [|now rewrite IH].
  apply sel_inst in Es. unfold of_inst at 2. rewrite Es.
  assert (E : (h =? h') = false) by (apply Z.eqb_neq; congruence). now rewrite E.
Qed.

Lemma find_inst_mark_other h h' (ss : list Z) l :
  h' <> h -> (forall x, In x ss -> x = h) ->
  find_inst h' (map (fun i => if memZ (i_handle i) ss then mark_viewed i else i) l) = find_inst h' l.
Proof.
  intros Hne Hss. induction l as [|i t IH]; cbn [map find_inst]; [reflexivity|]. rewrite IH.
  destruct (memZ (i_handle i) ss) eqn:Em; [|reflexivity]. cbn [mark_viewed i_handle].
  unfold memZ in Em. apply existsb_exists in Em. destruct Em as (x & Hx & Ex). apply Z.eqb_eq in Ex.
  rewrite (Hss x Hx) in Ex. assert (E : (i_handle i =? h') = false) by (apply Z.eqb_neq; congruence). now rewrite E.
Qed.

Lemma collect_frame_other r max m h take h' :
  h' <> h -> local_eq h' (fst (collect r max m (Some h) take)) r.
Proof.
  intros Hne. destruct (find_inst h (r_insts r)) eqn:Ef.
  - assert (Hk : hsel_known r (Some h)) by (cbn; now rewrite Ef).
    destruct (collect_spec r max m (Some h) take Hk) as (l1 & l2 & Hl & _ & Hc). cbv zeta in Hc. rewrite Hc.
    cbn [fst]. split; cbn [r_samples r_insts].
    + rewrite Hl, !filter_app. f_equal.
      destruct take; [now apply filter_of_inst_unsel|now apply filter_of_inst_mark].
    + rewrite mark_viewed_all_memZ. apply (find_inst_mark_other h); [exact Hne|].
      intros x Hx. apply in_map_iff in Hx. destruct Hx as (s & <- & Hs).
      pose proof (collected_sel r max m (Some h)) as F. rewrite Forall_forall in F.
      exact (sel_inst r m h s (F s Hs)).
  - rewrite collect_bad_parameter; [split; reflexivity|]. cbn. rewrite Ef. intros H; now apply H.
Qed.

Definition cand (r0 : reader) (m : masks) (prev : option Z) (h : Z) : Prop :=
  In h (handles r0) /\ gt_prev prev h = true /\ has_matching r0 m h = true.

Lemma next_matching_agree m prev r r0 : agree_above prev r r0 -> next_matching r m prev = next_matching r0 m prev.
Proof.
  intros [Eh Hl]. unfold next_matching. rewrite Eh. f_equal. apply filter_ext. intros h.
  destruct (gt_prev prev h) eqn:G; [|reflexivity]. cbn [andb]. now apply has_matching_local, Hl.
Qed.

Lemma walk_spec r0 max m take : max <> 0 -> forall fuel r prev,
  agree_above prev r r0 -> (above prev r0 < fuel)%nat ->
  StronglySorted Z.lt (map fst (walk fuel r max m prev take)) /\
  (forall h, In h (map fst (walk fuel r max m prev take)) <-> cand r0 m prev h) /\
  (forall h l, In (h, l) (walk fuel r max m prev take) -> snd (collect r0 max m (Some h) take) = CollOk l).
Proof.
  intros Hmax. induction fuel as [|f IH]; intros r prev Hag Hfuel; [lia|]. cbn [walk].
  rewrite (next_instance_op_spec r max m prev take Hmax), (next_matching_agree m prev r r0 Hag).
  destruct (next_matching r0 m prev) as [h|] eqn:En.
  - pose proof En as Hn. apply next_matching_some in Hn. destruct Hn as (Hin & Hg & Hm & Hle).
    destruct Hag as [Eh Hloc]. pose proof (Hloc h Hg) as Lh.
    pose proof (collect_result_local max m h take r r0 Lh Hin) as Eres.
    destruct (next_returns_collection r0 max m prev take h Hmax En) as (_ & l & Hl & Hne & _ & Hall).
    rewrite Hl in Eres.
    pose proof (collect_frame_other r max m h take) as Hframe.
    pose proof (collect_handles r max m (Some h) take) as Hhand.
    destruct (collect r max m (Some h) take) as [r1 c]. cbn [fst snd] in *. subst c.
    destruct l as [|x t]; [contradiction|].
    assert (Hx : f_inst x = h) by (inversion Hall; assumption). rewrite Hx.
    assert (Hag' : agree_above (Some h) r1 r0).
    { split; [now rewrite Hhand|]. intros h' Hg'. cbn [gt_prev] in Hg'. apply Z.ltb_lt in Hg'.
      assert (Hne' : h' <> h) by lia. destruct (Hframe h' Hne') as [F1 F2].
      destruct (Hloc h' (gt_prev_trans prev h h' Hg Hg')) as [G1 G2].
      split; [now rewrite F1|now rewrite F2]. }
    assert (Hfuel' : (above (Some h) r0 < f)%nat) by (pose proof (above_decreases r0 prev h Hin Hg); lia).
    destruct (IH r1 (Some h) Hag' Hfuel') as (IS & II & IC).
    cbn [map fst]. split; [|split].
    + constructor; [exact IS|]. rewrite Forall_forall. intros h' Hh'. apply II in Hh'.
      destruct Hh' as (_ & Hg' & _). cbn [gt_prev] in Hg'. now apply Z.ltb_lt.
    + intros h'. cbn [In]. rewrite II. unfold cand. split.
      * intros [<-|(H1 & H2 & H3)]; [auto|]. cbn [gt_prev] in H2. apply Z.ltb_lt in H2.
        repeat split; auto. now apply (gt_prev_trans prev h).
      * intros (H1 & H2 & H3). specialize (Hle h' H1 H2 H3).
        destruct (Z.eq_dec h h') as [E|E]; [now left|right]. repeat split; auto.
        cbn [gt_prev]. apply Z.ltb_lt. lia.
    + intros h' l' [E|Hin']; [injection E as <- <-; exact Hl|now apply IC].
  - cbn [map]. split; [constructor|]. split; [|intros ? ? []].
    intros h. split; [intros []|]. intros (H1 & H2 & H3).
    rewrite (proj1 (next_matching_none r0 m prev) En h H1 H2) in H3. discriminate.
Qed.

Lemma agree_refl prev r : agree_above prev r r.
Proof. split; [reflexivity|]. intros h _. split; reflexivity. Qed.

(* (c) for read AND take, every max_samples <> 0 and all masks: the walk from `prev` visits
   exactly the instances with handle > prev that have matching samples in the state at the
   start of the walk, each once, in increasing handle order, and returns for each of them
   what read/take of that instance would have returned at the start *)
Theorem walk_visits_each_once r max m prev take fuel :
  max <> 0 -> (length (r_insts r) < fuel)%nat ->
  let W := walk fuel r max m prev take in
  StronglySorted Z.lt (map fst W) /\
  (forall h, In h (map fst W) <->
             In h (handles r) /\ gt_prev prev h = true /\ has_matching r m h = true) /\
  (forall h l, In (h, l) W -> snd (collect r max m (Some h) take) = CollOk l).
Proof.
  intros Hmax Hfuel. cbv zeta. apply (walk_spec r max m take Hmax fuel r prev (agree_refl prev r)).
  pose proof (above_le_length prev r). lia.
Qed.

(* the scenario of the fixed defect (66e7dc1): three instances, the middle one fully read,
   NOT_READ mask: the walk must skip instance 2 *)
Definition ops_three : list op :=
  [OpAdd 1 1 KAlive (Some 1) 100 10; OpAdd 1 2 KAlive (Some 2) 101 20; OpAdd 1 3 KAlive (Some 3) 102 30;
   OpAdd 1 2 KAlive (Some 4) 103 40; OpRead (-1) all_masks (Some 2)].
Definition not_read_mask : masks := mkM false true true true true true true.
