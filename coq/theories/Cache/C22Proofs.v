(* C22: instance state, view state and generation counts of the reader cache follow
   the DDS instance life cycle (DDS 1.4, 2.2.2.5.1.3).

   1. the model's instance record is the fold of `update_state` / `mark_viewed` over
      EVERY received change (stored or not) and every access         (lifecycle_received)
   2. SPEC automaton `spec_step` written from the DDS text (with the set of registered
      writers); for histories in which every change is stored and no unregister arrives
      while another writer is registered, the model record equals the SPEC fold
                                                                     (lifecycle_refines_spec)
   3. both hypotheses are necessary: witnesses of the recorded classes 1 and 2. *)
From DustDDS Require Import Base.Machine Cache.ReaderModel Cache.ReaderFacts.
Open Scope Z_scope.

(* ------------------------------------------------------------------ update_state *)
Lemma update_state_handle i k : i_handle (update_state i k) = i_handle i.
Proof. unfold update_state. destruct (i_state i), k; reflexivity. Qed.

(* add_reader_change calls update_state before AND after the gates: harmless *)
Lemma update_state_idem i k : update_state (update_state i k) k = update_state i k.
Proof. destruct i as [h v s d n]. destruct s, k; reflexivity. Qed.

(* ------------------------------------------------------------------ find_inst *)
Lemma find_inst_handle h l i : find_inst h l = Some i -> i_handle i = h.
Proof.
  induction l as [|a t IH]; cbn [find_inst]; [discriminate|].
  destruct (i_handle a =? h) eqn:E; [|exact IH].
  intros H. injection H as <-. now apply Z.eqb_eq.
Qed.

Lemma find_inst_upd h h' f l :
  (forall i, i_handle (f i) = i_handle i) ->
  find_inst h' (upd_inst h f l) = if h' =? h then option_map f (find_inst h l) else find_inst h' l.
Proof.
  intros Hf. induction l as [|a t IH]; cbn [upd_inst find_inst].
  - destruct (h' =? h); reflexivity.
  - destruct (i_handle a =? h) eqn:E; cbn [find_inst].
    + rewrite Hf. apply Z.eqb_eq in E. destruct (h' =? h) eqn:E2.
      * apply Z.eqb_eq in E2. subst h'. rewrite <- E, Z.eqb_refl. reflexivity.
      * apply Z.eqb_neq in E2. destruct (i_handle a =? h') eqn:E3; [|reflexivity].
        apply Z.eqb_eq in E3. lia.
    + destruct (i_handle a =? h') eqn:E3.
      * destruct (h' =? h) eqn:E2; [|reflexivity].
        apply Z.eqb_eq in E2, E3. apply Z.eqb_neq in E. lia.
      * exact IH.
Qed.

Lemma find_inst_app h l x :
  find_inst h (l ++ [x]) =
  match find_inst h l with Some i => Some i | None => if i_handle x =? h then Some x else None end.
Proof.
  induction l as [|a t IH]; cbn [app find_inst]; [reflexivity|].
  destruct (i_handle a =? h); [reflexivity|exact IH].
Qed.

(* the record of instance h; an instance the reader has not heard of is the freshly
   created one (InstanceState::new) *)
Definition inst_or_new (l : list inst) (h : Z) : inst :=
  match find_inst h l with Some i => i | None => new_inst h end.

Lemma touch_find l h k l1 h' :
  touch_instance l h k = Some l1 ->
  find_inst h' l1 = if h' =? h then Some (update_state (inst_or_new l h) k) else find_inst h' l.
Proof.
  unfold touch_instance, inst_or_new. destruct (find_inst h l) as [i|] eqn:F.
  - intros H. injection H as <-. rewrite find_inst_upd by (intros; apply update_state_handle).
    destruct (h' =? h); [rewrite F|]; reflexivity.
  - destruct (is_alive_kind k); [|discriminate]. intros H. injection H as <-.
    rewrite find_inst_app. destruct (h' =? h) eqn:E.
    + apply Z.eqb_eq in E. subst h'. rewrite F, update_state_handle. cbn [new_inst i_handle].
      now rewrite Z.eqb_refl.
    + destruct (find_inst h' l); [reflexivity|]. rewrite update_state_handle. cbn [new_inst i_handle].
      rewrite Z.eqb_sym, E. reflexivity.
Qed.

Lemma touch_again l h k l1 :
  touch_instance l h k = Some l1 ->
  exists l2, touch_instance l1 h k = Some l2 /\ forall h', find_inst h' l2 = find_inst h' l1.
Proof.
  intros T. pose proof (touch_find l h k l1 h T) as F. rewrite Z.eqb_refl in F.
  unfold touch_instance at 1. rewrite F. eexists; split; [reflexivity|]. intros h'.
  rewrite find_inst_upd by (intros; apply update_state_handle).
  destruct (h' =? h) eqn:E; [|reflexivity]. apply Z.eqb_eq in E. subst h'.
  rewrite F. cbn [option_map]. now rewrite update_state_idem.
Qed.

(* ------------------------------------------------------------------ add_change *)
(* The instance table after add_change: untouched when the change is for an unknown
   instance and not alive (AddError); otherwise ONE update_state on the instance,
   whatever the outcome (Added, NotAdded, Rejected) *)
Lemma add_change_insts r w data k h t rts :
  match touch_instance (r_insts r) h k with
  | None => add_change r w data k h t rts = (r, AddError)
  | Some l1 =>
      (forall h', find_inst h' (r_insts (fst (add_change r w data k h t rts))) = find_inst h' l1) /\
      snd (add_change r w data k h t rts) <> AddError
  end.
Proof.
  unfold add_change. destruct (touch_instance (r_insts r) h k) as [l1|] eqn:T; [|reflexivity].
  destruct (touch_again _ _ _ _ T) as (l2 & T2 & F2).
  cbn [r_insts set_insts set_owns]. rewrite T2.
  repeat (break_match; cbn [fst snd r_insts set_insts set_owns]);
    (split; [intros h'; try reflexivity; apply F2 | discriminate]).
Qed.

Lemma add_change_error r w data k h t rts :
  snd (add_change r w data k h t rts) = AddError ->
  fst (add_change r w data k h t rts) = r.
Proof.
  pose proof (add_change_insts r w data k h t rts) as H.
  destruct (touch_instance (r_insts r) h k); [|rewrite H; reflexivity].
  intros E. destruct H as [_ H]. contradiction.
Qed.

(* the sample stored by add_change carries the generation counts of its instance at
   reception (after the change was applied to the instance) *)
Lemma add_change_stored_counts r w data k h t rts :
  snd (add_change r w data k h t rts) = Added ->
  exists smp i,
    In smp (r_samples (fst (add_change r w data k h t rts))) /\
    find_inst h (r_insts (fst (add_change r w data k h t rts))) = Some i /\
    s_inst smp = h /\ s_data smp = data /\ s_writer smp = w /\ s_kind smp = k /\ s_ts smp = t /\
    s_dgc smp = i_dgc i /\ s_nwgc smp = i_nwgc i.
Proof.
  pose proof (add_change_insts r w data k h t rts) as HI.
  destruct (touch_instance (r_insts r) h k) as [l1|] eqn:T; [|rewrite HI; discriminate].
  destruct HI as [HI _]. specialize (HI h). revert HI.
  unfold add_change. rewrite T.
  destruct (touch_again _ _ _ _ T) as (l2 & T2 & F2).
  cbn [r_insts set_insts set_owns]. rewrite T2.
  repeat (break_match; cbn [fst snd r_insts r_samples set_insts set_owns]); try discriminate.
  all: intros HI _;
    match goal with
    | |- exists smp _, In smp (insert_before _ ?s _) /\ _ => exists s, i
    | |- exists smp _, In smp (_ ++ [?s]) /\ _ => exists s, i
    end; (split; [|split; [exact HI|cbn [s_inst s_data s_writer s_kind s_ts s_dgc s_nwgc]; repeat split; reflexivity]]).
  all: try (apply in_or_app; right; left; reflexivity).
  all: match goal with
       | |- In ?x (insert_before ?p ?x ?l) =>
           clear; induction l as [|y l' IHl]; cbn [insert_before];
           [left; reflexivity | destruct (p y); [left; reflexivity | right; exact IHl]]
       end.
Qed.

(* ------------------------------------------------------------------ read / take *)
Definition accessed (c : coll_result) (h : Z) : bool :=
  match c with CollOk l => existsb (fun x => f_inst x =? h) l | _ => false end.

Lemma find_inst_mark_viewed c h l :
  find_inst h (mark_viewed_all c l) =
  option_map (fun i => if existsb (fun x => f_inst x =? h) c then mark_viewed i else i) (find_inst h l).
Proof.
  unfold mark_viewed_all. induction l as [|a t IH]; cbn [map find_inst]; [reflexivity|].
  destruct (existsb (fun x => f_inst x =? i_handle a) c) eqn:Ea; cbn [mark_viewed i_handle];
    destruct (i_handle a =? h) eqn:E; try exact IH; cbn [option_map];
    apply Z.eqb_eq in E; rewrite <- E, Ea; reflexivity.
Qed.

Lemma fill_ranks_inst all l : map f_inst (fill_ranks all l) = map f_inst l.
Proof. induction l as [|x t IH]; cbn [fill_ranks map f_inst]; [reflexivity|now rewrite IH]. Qed.

Lemma existsb_map {A B} (f : A -> B) p l : existsb p (map f l) = existsb (fun x => p (f x)) l.
Proof. induction l as [|a t IH]; cbn [map existsb]; [reflexivity|now rewrite IH]. Qed.

Lemma existsb_fill_ranks h all l :
  existsb (fun x => f_inst x =? h) (fill_ranks all l) = existsb (fun x => f_inst x =? h) l.
Proof.
  rewrite <- (existsb_map f_inst (fun z => z =? h)), fill_ranks_inst, existsb_map. reflexivity.
Qed.

Lemma option_map_id {A} (o : option A) : option_map (fun i => i) o = o.
Proof. destruct o; reflexivity. Qed.

Lemma collect_find_inst r max m hsel take h :
  find_inst h (r_insts (fst (collect r max m hsel take))) =
  option_map (fun i => if accessed (snd (collect r max m hsel take)) h then mark_viewed i else i)
             (find_inst h (r_insts r)).
Proof.
  unfold collect. break_match; cbn [fst snd accessed]; [now rewrite option_map_id|].
  destruct (collect_loop r m hsel max take (r_samples r) 0) as [kept c].
  destruct c as [|x c']; cbn [fst snd accessed r_insts].
  - rewrite find_inst_mark_viewed. reflexivity.
  - rewrite find_inst_mark_viewed, existsb_fill_ranks. reflexivity.
Qed.

Lemma next_loop_find_inst fuel : forall r max m prev take h,
  find_inst h (r_insts (fst (next_loop fuel r max m prev take))) =
  option_map (fun i => if accessed (snd (next_loop fuel r max m prev take)) h then mark_viewed i else i)
             (find_inst h (r_insts r)).
Proof.
  induction fuel as [|f IH]; intros; cbn [next_loop].
  - cbn [fst snd accessed]. now rewrite option_map_id.
  - destruct (next_instance r prev) as [h0|]; [|cbn [fst snd accessed]; now rewrite option_map_id].
    pose proof (collect_find_inst r max m (Some h0) take h) as C.
    destruct (collect r max m (Some h0) take) as [r' c]. cbn [fst snd] in C.
    destruct c; try exact C. apply IH.
Qed.

(* what a SampleInfo shows: state and view state of the instance BEFORE the access,
   generation counts of the sample *)
Lemma collect_loop_infos r m hsel max take : forall l n x,
  In x (snd (collect_loop r m hsel max take l n)) ->
  exists s i, In s l /\ find_inst (s_inst s) (r_insts r) = Some i /\ x = info_of s i.
Proof.
  induction l as [|s t IH]; intros n x; cbn [collect_loop]; [intros []|].
  destruct (n =? max); [intros []|].
  destruct (selected r m hsel s) as [i|] eqn:Sel.
  - specialize (IH (n + 1) x). destruct (collect_loop r m hsel max take t (n + 1)) as [k c].
    cbn [snd] in *. intros [<-|Hin].
    + exists s, i. split; [now left|]. split; [|reflexivity].
      unfold selected in Sel. destruct (match hsel with Some _ => _ | None => _ end); [discriminate|].
      destruct (find_inst (s_inst s) (r_insts r)) as [i0|]; [|discriminate].
      destruct (ss_in m (s_ss s) && vs_in m (i_view i0) && is_in m (i_state i0)); [|discriminate].
      congruence.
    + destruct (IH Hin) as (s' & i' & Hs & Hf & Hx). exists s', i'. split; [now right|]. auto.
  - specialize (IH n x). destruct (collect_loop r m hsel max take t n) as [k c]. cbn [snd] in *.
    intros Hin. destruct (IH Hin) as (s' & i' & Hs & Hf & Hx). exists s', i'. split; [now right|]. auto.
Qed.

Definition same_but_ranks (x y : info) : Prop :=
  f_data x = f_data y /\ f_inst x = f_inst y /\ f_valid x = f_valid y /\ f_ss x = f_ss y /\
  f_vs x = f_vs y /\ f_is x = f_is y /\ f_dgc x = f_dgc y /\ f_nwgc x = f_nwgc y /\
  f_ts x = f_ts y /\ f_pub x = f_pub y.

Lemma fill_ranks_in all l x :
  In x (fill_ranks all l) -> exists y, In y l /\ same_but_ranks x y.
Proof.
  induction l as [|a t IH]; cbn [fill_ranks]; [intros []|].
  intros [<-|Hin].
  - exists a. split; [now left|]. unfold same_but_ranks. cbn. repeat split; reflexivity.
  - destruct (IH Hin) as (y & Hy & S'). exists y. split; [now right|exact S'].
Qed.

Lemma collect_presents r max m hsel take l x :
  snd (collect r max m hsel take) = CollOk l -> In x l ->
  exists s i, In s (r_samples r) /\ find_inst (f_inst x) (r_insts r) = Some i /\
    s_inst s = f_inst x /\ f_data x = s_data s /\ f_ts x = s_ts s /\
    f_is x = i_state i /\ f_vs x = i_view i /\ f_dgc x = s_dgc s /\ f_nwgc x = s_nwgc s.
Proof.
  unfold collect. break_match; [discriminate|].
  pose proof (collect_loop_infos r m hsel max take (r_samples r) 0) as L.
  destruct (collect_loop r m hsel max take (r_samples r) 0) as [kept c]. cbn [snd] in L.
  remember (fill_ranks c c) as fr eqn:Efr.
  destruct c as [|x0 c']; cbn [snd]; [discriminate|]. intros H Hin.
  assert (El : l = fr) by (injection H as H; symmetry; exact H). rewrite El, Efr in Hin.
  destruct (fill_ranks_in _ _ _ Hin) as (y & Hy & S').
  destruct (L y Hy) as (s & i & Hs & Hf & ->).
  destruct S' as (S1 & S2 & _ & _ & S5 & S6 & S7 & S8 & S9 & _).
  cbn [info_of f_data f_inst f_vs f_is f_dgc f_nwgc f_ts] in *.
  exists s, i. rewrite S2. repeat split; auto.
Qed.

Lemma next_loop_presents fuel : forall r max m prev take l x,
  snd (next_loop fuel r max m prev take) = CollOk l -> In x l ->
  exists s i, In s (r_samples r) /\ find_inst (f_inst x) (r_insts r) = Some i /\
    s_inst s = f_inst x /\ f_data x = s_data s /\ f_ts x = s_ts s /\
    f_is x = i_state i /\ f_vs x = i_view i /\ f_dgc x = s_dgc s /\ f_nwgc x = s_nwgc s.
Proof.
  induction fuel as [|f IH]; intros r max m prev take l x; cbn [next_loop]; [discriminate|].
  destruct (next_instance r prev) as [h0|]; [|discriminate].
  pose proof (collect_presents r max m (Some h0) take) as C.
  destruct (collect r max m (Some h0) take) as [r' c]. cbn [snd] in C.
  destruct c; cbn [snd]; try discriminate.
  - intros H. injection H as <-. apply C. reflexivity.
  - apply IH.
Qed.

(* the collection an operation returned, if any *)
Definition coll_of (x : obs) : coll_result := match x with ObsColl c => c | _ => NoData end.

Lemma step_presents r o l x :
  coll_of (snd (step r o)) = CollOk l -> In x l ->
  exists s i, In s (r_samples r) /\ find_inst (f_inst x) (r_insts r) = Some i /\
    s_inst s = f_inst x /\ f_data x = s_data s /\ f_ts x = s_ts s /\
    f_is x = i_state i /\ f_vs x = i_view i /\ f_dgc x = s_dgc s /\ f_nwgc x = s_nwgc s.
Proof.
  destruct o; cbn [step].
  - destruct (add_change r w data k h t rts); cbn; discriminate.
  - pose proof (collect_presents r max m hsel false l x) as C.
    destruct (collect r max m hsel false) as [r' c]. exact C.
  - pose proof (collect_presents r max m hsel true l x) as C.
    destruct (collect r max m hsel true) as [r' c]. exact C.
  - unfold next_instance_op.
    pose proof (next_loop_presents (S (length (r_insts r))) r max m prev false l x) as C.
    destruct (next_loop _ r max m prev false) as [r' c]. exact C.
  - unfold next_instance_op.
    pose proof (next_loop_presents (S (length (r_insts r))) r max m prev true l x) as C.
    destruct (next_loop _ r max m prev true) as [r' c]. exact C.
  - cbn; discriminate.
  - cbn; discriminate.
Qed.

Lemma accessed_known r o h :
  accessed (coll_of (snd (step r o))) h = true -> find_inst h (r_insts r) <> None.
Proof.
  unfold accessed. destruct (coll_of (snd (step r o))) as [l| | |] eqn:E; try discriminate.
  rewrite existsb_exists. intros (x & Hin & Hx). apply Z.eqb_eq in Hx.
  destruct (step_presents r o l x E Hin) as (s & i & _ & Hf & _). rewrite <- Hx, Hf. discriminate.
Qed.

(* ------------------------------------------------------------------ events *)
(* what happens to ONE instance: a change from writer w is received, or a read/take
   returns at least one of its samples *)
Inductive lev := LChange (w : Z) (k : kind) | LAccess.

Definition is_add_error (a : add_result) : bool := match a with AddError => true | _ => false end.
Definition is_added (a : add_result) : bool := match a with Added => true | _ => false end.

(* received: every change that reached add_reader_change and did not fail with the
   "unknown instance" error; stored: the changes that were Added *)
Definition ev_of (stored_only : bool) (h : Z) (o : op) (x : obs) : list lev :=
  match o, x with
  | OpAdd w h0 k _ _ _, ObsAdd a =>
      if (h0 =? h) && (if stored_only then is_added a else negb (is_add_error a)) then [LChange w k] else []
  | _, ObsColl c => if accessed c h then [LAccess] else []
  | _, _ => []
  end.
Fixpoint events (stored_only : bool) (h : Z) (ops : list op) (xs : list obs) : list lev :=
  match ops, xs with
  | o :: ops', x :: xs' => ev_of stored_only h o x ++ events stored_only h ops' xs'
  | _, _ => []
  end.

(* the code's automaton *)
Definition model_ev (i : inst) (e : lev) : inst :=
  match e with LChange _ k => update_state i k | LAccess => mark_viewed i end.

Lemma step_cur r o h :
  inst_or_new (r_insts (fst (step r o))) h =
  fold_left model_ev (ev_of false h o (snd (step r o))) (inst_or_new (r_insts r) h).
Proof.
  pose proof (accessed_known r o h) as AK.
  destruct o; cbn [step] in *.
  - clear AK. pose proof (add_change_insts r w data k h0 t rts) as H.
    destruct (touch_instance (r_insts r) h0 k) as [l1|] eqn:T.
    + destruct H as [H NE]. destruct (add_change r w data k h0 t rts) as [r' a]. cbn [fst snd ev_of] in *.
      unfold inst_or_new at 1. rewrite H, (touch_find _ _ _ _ h T). rewrite (Z.eqb_sym h0 h).
      destruct a; try contradiction; cbn [is_add_error negb]; rewrite andb_true_r;
        destruct (h =? h0) eqn:E; cbn [fold_left model_ev]; try reflexivity;
        apply Z.eqb_eq in E; subst h0; reflexivity.
    + rewrite H. cbn [fst snd ev_of is_add_error negb]. rewrite andb_false_r. reflexivity.
  - pose proof (collect_find_inst r max m hsel false h) as C.
    destruct (collect r max m hsel false) as [r' c]. cbn [fst snd ev_of coll_of] in *.
    unfold inst_or_new. rewrite C. destruct (accessed c h).
    + destruct (find_inst h (r_insts r)); [reflexivity|]. exfalso. now apply AK.
    + destruct (find_inst h (r_insts r)); reflexivity.
  - pose proof (collect_find_inst r max m hsel true h) as C.
    destruct (collect r max m hsel true) as [r' c]. cbn [fst snd ev_of coll_of] in *.
    unfold inst_or_new. rewrite C. destruct (accessed c h).
    + destruct (find_inst h (r_insts r)); [reflexivity|]. exfalso. now apply AK.
    + destruct (find_inst h (r_insts r)); reflexivity.
  - unfold next_instance_op in *.
    pose proof (next_loop_find_inst (S (length (r_insts r))) r max m prev false h) as C.
    destruct (next_loop _ r max m prev false) as [r' c]. cbn [fst snd ev_of coll_of] in *.
    unfold inst_or_new. rewrite C. destruct (accessed c h).
    + destruct (find_inst h (r_insts r)); [reflexivity|]. exfalso. now apply AK.
    + destruct (find_inst h (r_insts r)); reflexivity.
  - unfold next_instance_op in *.
    pose proof (next_loop_find_inst (S (length (r_insts r))) r max m prev true h) as C.
    destruct (next_loop _ r max m prev true) as [r' c]. cbn [fst snd ev_of coll_of] in *.
    unfold inst_or_new. rewrite C. destruct (accessed c h).
    + destruct (find_inst h (r_insts r)); [reflexivity|]. exfalso. now apply AK.
    + destruct (find_inst h (r_insts r)); reflexivity.
  - cbn [fst snd ev_of fold_left]. unfold add_matched. destruct (upd_pub w s (r_matched r)); reflexivity.
  - cbn [fst snd ev_of fold_left]. unfold remove_matched. destruct (find_pub w (r_matched r)); reflexivity.
Qed.

Lemma run_obs_cons r o ops :
  run_obs r (o :: ops) =
  (fst (run_obs (fst (step r o)) ops), snd (step r o) :: snd (run_obs (fst (step r o)) ops)).
Proof.
  cbn [run_obs]. destruct (step r o) as [r1 x]. cbn [fst snd].
  destruct (run_obs r1 ops) as [r2 xs]. reflexivity.
Qed.

(* 1. the model follows the code's automaton over every received change *)
Lemma lifecycle_received_from ops : forall r h,
  inst_or_new (r_insts (fst (run_obs r ops))) h =
  fold_left model_ev (events false h ops (snd (run_obs r ops))) (inst_or_new (r_insts r) h).
Proof.
  induction ops as [|o ops IH]; intros r h; [reflexivity|].
  rewrite run_obs_cons. cbn [fst snd events]. rewrite fold_left_app, IH, step_cur. reflexivity.
Qed.

Theorem lifecycle_received q ops h :
  inst_or_new (r_insts (run q ops)) h =
  fold_left model_ev (events false h ops (snd (run_obs (init_reader q) ops))) (new_inst h).
Proof. unfold run. apply lifecycle_received_from. Qed.

(* ------------------------------------------------------------------ the SPEC automaton *)
(* DDS 1.4 2.2.2.5.1.3 / figure 2.11, per instance, with the set of writers that have
   registered (written) the instance and not unregistered it *)
Record linst := mkL { l_state : istate; l_view : vstate; l_dgc : Z; l_nwgc : Z; l_writers : list Z }.
Definition l_new : linst := mkL IAlive VNew 0 0 [].
Definition reg (w : Z) (ws : list Z) : list Z := if existsb (Z.eqb w) ws then ws else w :: ws.
Definition unreg (w : Z) (ws : list Z) : list Z := filter (fun x => negb (x =? w)) ws.

Definition spec_write (i : linst) (w : Z) : linst :=
  match l_state i with
  | IAlive => mkL IAlive (l_view i) (l_dgc i) (l_nwgc i) (reg w (l_writers i))
  | IDisposed => mkL IAlive VNew (l_dgc i + 1) (l_nwgc i) (reg w (l_writers i))       (* rebirth *)
  | INoWriters => mkL IAlive VNew (l_dgc i) (l_nwgc i + 1) (reg w (l_writers i))      (* rebirth *)
  end.
Definition spec_dispose (i : linst) : linst :=
  mkL (match l_state i with IAlive => IDisposed | s => s end) (l_view i) (l_dgc i) (l_nwgc i) (l_writers i).
Definition spec_unregister (i : linst) (w : Z) : linst :=
  let ws := unreg w (l_writers i) in
  mkL (match l_state i, ws with IAlive, [] => INoWriters | s, _ => s end)
      (l_view i) (l_dgc i) (l_nwgc i) ws.
Definition spec_step (i : linst) (e : lev) : linst :=
  match e with
  | LChange w KAlive => spec_write i w
  | LChange w KAliveFiltered => i
  | LChange w KDisposed => spec_dispose i
  | LChange w KUnregistered => spec_unregister i w
  | LChange w KDisposedUnregistered => spec_unregister (spec_dispose i) w
  | LAccess => mkL (l_state i) VNotNew (l_dgc i) (l_nwgc i) (l_writers i)
  end.
Definition spec_run (evs : list lev) : linst := fold_left spec_step evs l_new.

Definition agrees (i : inst) (li : linst) : Prop :=
  i_state i = l_state li /\ i_view i = l_view li /\ i_dgc i = l_dgc li /\ i_nwgc i = l_nwgc li.

(* complement of class 1: whenever an unregister from w is received, no OTHER writer
   is registered for the instance *)
Definition sole_unregister_from (li : linst) (evs : list lev) : Prop :=
  forall ev1 w ev2, evs = ev1 ++ LChange w KUnregistered :: ev2 ->
    unreg w (l_writers (fold_left spec_step ev1 li)) = [].
Definition sole_unregister (evs : list lev) : Prop := sole_unregister_from l_new evs.

Lemma agrees_step i li e :
  agrees i li ->
  (forall w, e = LChange w KUnregistered -> unreg w (l_writers li) = []) ->
  agrees (model_ev i e) (spec_step li e).
Proof.
  intros (A1 & A2 & A3 & A4) HU. destruct i as [h v s d n]. destruct li as [ls lv ld ln lw].
  cbn [i_state i_view i_dgc i_nwgc l_state l_view l_dgc l_nwgc l_writers] in *. subst ls lv ld ln.
  destruct e as [w k|].
  - destruct k; cbn [model_ev spec_step].
    + unfold update_state, spec_write, agrees. cbn [i_state l_state]. destruct s; cbn; auto.
    + unfold update_state, agrees. cbn [i_state]. destruct s; cbn; auto.
    + unfold update_state, spec_dispose, agrees. cbn [i_state l_state]. destruct s; cbn; auto.
    + specialize (HU w eq_refl). cbn [l_writers] in HU.
      unfold update_state, spec_unregister, agrees. cbn [i_state l_state l_writers]. rewrite HU.
      destruct s; cbn; auto.
    + unfold update_state, spec_unregister, spec_dispose, agrees. cbn [i_state l_state l_writers].
      destruct s; cbn; auto.
  - unfold agrees. cbn. auto.
Qed.

Lemma agrees_fold evs : forall i li,
  agrees i li -> sole_unregister_from li evs ->
  agrees (fold_left model_ev evs i) (fold_left spec_step evs li).
Proof.
  induction evs as [|e evs IH]; intros i li A SU; [exact A|].
  cbn [fold_left]. apply IH.
  - apply agrees_step; [exact A|]. intros w ->. apply (SU [] w evs). reflexivity.
  - intros ev1 w ev2 E. apply (SU (e :: ev1) w ev2). rewrite E. reflexivity.
Qed.

(* complement of class 2: every change of the history was stored (or refused as a
   change of an unknown instance, which leaves the reader untouched) *)
Definition all_stored (xs : list obs) : Prop :=
  Forall (fun x => match x with ObsAdd a => a = Added \/ a = AddError | _ => True end) xs.

Lemma events_all_stored h : forall ops xs,
  all_stored xs -> events false h ops xs = events true h ops xs.
Proof.
  induction ops as [|o ops IH]; intros xs A; [reflexivity|].
  destruct xs as [|x xs]; [reflexivity|]. inversion A as [|? ? Hx A']; subst.
  cbn [events]. rewrite (IH xs A'). f_equal.
  destruct o; try reflexivity. destruct x; try reflexivity.
  cbn [ev_of]. destruct Hx as [-> | ->]; reflexivity.
Qed.

(* 2. refinement of the DDS automaton *)
Theorem lifecycle_refines_spec q ops h :
  let xs := snd (run_obs (init_reader q) ops) in
  let evs := events true h ops xs in
  all_stored xs -> sole_unregister evs ->
  agrees (inst_or_new (r_insts (run q ops)) h) (spec_run evs).
Proof.
  cbv zeta. intros A SU. rewrite lifecycle_received, (events_all_stored h ops _ A).
  apply agrees_fold; [|exact SU]. unfold agrees. cbn. auto.
Qed.

Lemma run_from_app ops1 : forall r ops2, run_from r (ops1 ++ ops2) = run_from (run_from r ops1) ops2.
Proof.
  induction ops1 as [|o ops1 IH]; intros r ops2; [reflexivity|].
  cbn [app]. rewrite !run_from_cons. apply IH.
Qed.

(* the generation counts stored with a sample are those of the DDS automaton after the
   change: (disposed, no-writers) generation in which the sample was written *)
Theorem stored_sample_counts_spec q ops1 w h k t d rts :
  let ops := ops1 ++ [OpAdd w h k t d rts] in
  let xs := snd (run_obs (init_reader q) ops) in
  let evs := events true h ops xs in
  all_stored xs -> sole_unregister evs ->
  snd (add_change (run q ops1) w d k h t rts) = Added ->
  exists smp, In smp (r_samples (run q ops)) /\ s_inst smp = h /\ s_data smp = d /\ s_writer smp = w /\
              s_dgc smp = l_dgc (spec_run evs) /\ s_nwgc smp = l_nwgc (spec_run evs).
Proof.
  cbv zeta. intros A SU Ha.
  pose proof (lifecycle_refines_spec q (ops1 ++ [OpAdd w h k t d rts]) h A SU) as (_ & _ & Ad & An).
  assert (Er : run q (ops1 ++ [OpAdd w h k t d rts]) = fst (add_change (run q ops1) w d k h t rts)).
  { unfold run. change (fst (run_obs (init_reader q) (ops1 ++ [OpAdd w h k t d rts])))
      with (run_from (init_reader q) (ops1 ++ [OpAdd w h k t d rts])).
    rewrite run_from_app, run_from_cons. cbn [step run_from run_obs fst].
    change (run_from (init_reader q) ops1) with (fst (run_obs (init_reader q) ops1)).
    destruct (add_change (fst (run_obs (init_reader q) ops1)) w d k h t rts); reflexivity. }
  destruct (add_change_stored_counts _ _ _ _ _ _ _ Ha) as (smp & i & Hin & Hf & Hh & Hd & Hw & _ & _ & Hdg & Hnw).
  rewrite <- Er in Hin, Hf. exists smp. repeat split; try assumption.
  - rewrite Hdg, <- Ad. unfold inst_or_new. now rewrite Hf.
  - rewrite Hnw, <- An. unfold inst_or_new. now rewrite Hf.
Qed.

(* single writer per instance implies sole_unregister *)
Definition writer_of_change (e : lev) (w0 : Z) : Prop :=
  match e with LChange w _ => w = w0 | LAccess => True end.

Lemma unreg_all w0 ws : Forall (eq w0) ws -> unreg w0 ws = [].
Proof.
  unfold unreg. induction ws as [|a t IH]; intros F; [reflexivity|]. inversion F; subst.
  cbn [filter]. rewrite Z.eqb_refl. cbn [negb]. apply IH. assumption.
Qed.

Lemma spec_step_writers w0 li e :
  Forall (eq w0) (l_writers li) -> writer_of_change e w0 -> Forall (eq w0) (l_writers (spec_step li e)).
Proof.
  intros F W. assert (FU : forall w, Forall (eq w0) (unreg w (l_writers li))).
  { intros w. unfold unreg. rewrite Forall_forall in *. intros x Hx. apply filter_In in Hx. apply F, Hx. }
  destruct e as [w k|]; cbn [writer_of_change] in W; [subst w|exact F].
  assert (FR : Forall (eq w0) (reg w0 (l_writers li))).
  { unfold reg. destruct (existsb (Z.eqb w0) (l_writers li)); [exact F|constructor; auto]. }
  destruct k; cbn [spec_step]; try exact F.
  - unfold spec_write. destruct (l_state li); exact FR.
  - apply FU.
  - apply FU.
Qed.

Lemma single_writer_sole w0 evs : forall li,
  Forall (eq w0) (l_writers li) -> Forall (fun e => writer_of_change e w0) evs ->
  sole_unregister_from li evs.
Proof.
  induction evs as [|e evs IH]; intros li F W ev1 w ev2 E.
  - destruct ev1; discriminate.
  - inversion W as [|? ? We W']; subst. destruct ev1 as [|e1 ev1].
    + cbn [app] in E. injection E as -> _. cbn [writer_of_change] in We. subst w.
      cbn [fold_left]. apply unreg_all, F.
    + cbn [app] in E. injection E as <- E. cbn [fold_left].
      apply (IH (spec_step li e) (spec_step_writers _ _ _ F We) W' ev1 w ev2 E).
Qed.

Definition single_writer (h : Z) (ops : list op) : Prop :=
  exists w0, forall w k t d rts, In (OpAdd w h k t d rts) ops -> w = w0.

Lemma events_writers b h w0 : forall ops xs,
  (forall w k t d rts, In (OpAdd w h k t d rts) ops -> w = w0) ->
  Forall (fun e => writer_of_change e w0) (events b h ops xs).
Proof.
  induction ops as [|o ops IH]; intros xs H; [constructor|].
  destruct xs as [|x xs]; [constructor|]. cbn [events]. apply Forall_app. split.
  - destruct o; cbn [ev_of]; destruct x; try constructor;
      try (destruct (accessed c h); constructor; cbn; auto; fail).
    destruct ((h0 =? h) && _) eqn:E; constructor; [|constructor].
    apply andb_true_iff in E. destruct E as [E _]. apply Z.eqb_eq in E. subst h0.
    cbn [writer_of_change]. eapply H. left. reflexivity.
  - apply IH. intros. eapply H. right. eassumption.
Qed.

Theorem lifecycle_refines_spec_single_writer q ops h :
  let xs := snd (run_obs (init_reader q) ops) in
  all_stored xs -> single_writer h ops ->
  agrees (inst_or_new (r_insts (run q ops)) h) (spec_run (events true h ops xs)).
Proof.
  cbv zeta. intros A [w0 SW]. apply lifecycle_refines_spec; [exact A|].
  apply (single_writer_sole w0); [constructor|]. apply events_writers. exact SW.
Qed.

(* ------------------------------------------------------------------ view state *)
(* NEW exactly at first access or after rebirth: one step of any reachable (indeed any)
   reader; `reborn` = an ALIVE change is received while the instance is not alive *)
Definition reborn (i : inst) (h : Z) (o : op) (x : obs) : Prop :=
  exists w k, ev_of false h o x = [LChange w k] /\ k = KAlive /\ i_state i <> IAlive.

Lemma ev_of_cases b h o x :
  ev_of b h o x = [] \/ ev_of b h o x = [LAccess] \/ exists w k, ev_of b h o x = [LChange w k].
Proof.
  destruct o, x; cbn [ev_of]; auto;
    try (destruct (accessed c h); auto; fail).
  destruct ((h0 =? h) && _); eauto.
Qed.

Lemma ev_of_access b h o x :
  ev_of b h o x = [LAccess] <-> accessed (coll_of x) h = true.
Proof.
  destruct o, x; cbn [ev_of coll_of accessed]; try (split; discriminate);
    try (destruct (accessed c h); split; try discriminate; reflexivity).
  destruct ((h0 =? h) && _); split; discriminate.
Qed.

Theorem view_step r o h :
  let i := inst_or_new (r_insts r) h in
  let x := snd (step r o) in
  let i' := inst_or_new (r_insts (fst (step r o))) h in
  (accessed (coll_of x) h = true -> i_view i' = VNotNew) /\
  (accessed (coll_of x) h = false -> (i_view i' = VNew <-> i_view i = VNew \/ reborn i h o x)).
Proof.
  cbv zeta. rewrite step_cur. unfold reborn.
  destruct (ev_of_cases false h o (snd (step r o))) as [E | [E | (w & k & E)]].
  - rewrite E. cbn [fold_left]. split.
    + intros Ha. apply (proj2 (ev_of_access false h o _)) in Ha. congruence.
    + intros _. split; [auto|]. intros [Hv | (w & k & D & _)]; [exact Hv|discriminate].
  - rewrite E. cbn [fold_left model_ev mark_viewed i_view]. split; [reflexivity|].
    intros Ha. apply (proj1 (ev_of_access false h o _)) in E. congruence.
  - rewrite E. cbn [fold_left model_ev]. split.
    + intros Ha. apply (proj2 (ev_of_access false h o _)) in Ha. congruence.
    + intros _. set (i := inst_or_new (r_insts r) h). split.
      * intros Hv. destruct (i_view i) eqn:V; [now left|]. right. exists w, k. split; [reflexivity|].
        destruct i as [ih iv is id inw]. cbn [i_view] in V. subst iv.
        destruct is, k; cbn in Hv; try discriminate; split; try reflexivity; discriminate.
      * intros [Hv | (w' & k' & D & -> & NA)].
        -- destruct i as [ih iv is id inw]. cbn [i_view] in Hv. subst iv. destruct is, k; reflexivity.
        -- injection D as _ ->. destruct i as [ih iv is id inw]. cbn [i_state] in NA.
           destruct is; [contradiction| |]; reflexivity.
Qed.

Lemma new_instance_is_new r h : find_inst h (r_insts r) = None -> inst_or_new (r_insts r) h = new_inst h.
Proof. unfold inst_or_new. now intros ->. Qed.

Theorem view_new_characterisation r o h :
  let i := inst_or_new (r_insts r) h in
  let x := snd (step r o) in
  let i' := inst_or_new (r_insts (fst (step r o))) h in
  (find_inst h (r_insts r) = None -> i_view i = VNew) /\
  (accessed (coll_of x) h = true -> i_view i' = VNotNew) /\
  (accessed (coll_of x) h = false ->
     (i_view i' = VNew <->
      i_view i = VNew \/
      exists w k, ev_of false h o x = [LChange w k] /\ k = KAlive /\ i_state i <> IAlive)).
Proof.
  split; [intros H; rewrite (new_instance_is_new r h H); reflexivity|exact (view_step r o h)].
Qed.

(* ------------------------------------------------------------------ witnesses *)
Definition mAll : masks := mkM true true true true true true true.

(* class 1: writers 1 and 2 both wrote instance 1; writer 1 unregisters; everything is
   stored; the DDS automaton keeps the instance ALIVE (writer 2 is registered), the
   reader shows NOT_ALIVE_NO_WRITERS *)
Definition w1_q : qos := mkQ false None None None None false (Some 0).
Definition w1_ops : list op :=
  [OpAdd 1 1 KAlive (Some 10) 100 10; OpAdd 2 1 KAlive (Some 20) 101 20; OpAdd 1 1 KUnregistered (Some 30) 102 30].

Lemma class1_witness :
  let xs := snd (run_obs (init_reader w1_q) w1_ops) in
  all_stored xs /\
  i_state (inst_or_new (r_insts (run w1_q w1_ops)) 1) = INoWriters /\
  l_state (spec_run (events true 1 w1_ops xs)) = IAlive /\
  l_writers (spec_run (events true 1 w1_ops xs)) = [2].
Proof.
  cbv zeta. split; [|vm_compute; auto].
  vm_compute. repeat constructor.
Qed.

(* class 2: max_samples = 1; the dispose is Rejected (not stored) yet the instance is
   shown NOT_ALIVE_DISPOSED *)
Definition w2_q : qos := mkQ false None (Some 1) None None false (Some 0).
Definition w2_ops : list op :=
  [OpAdd 1 1 KAlive (Some 10) 100 10; OpAdd 1 1 KDisposed (Some 20) 101 20].

Lemma class2_witness :
  let xs := snd (run_obs (init_reader w2_q) w2_ops) in
  xs = [ObsAdd Added; ObsAdd (Rejected 1 2)] /\
  map s_data (r_samples (run w2_q w2_ops)) = [100] /\
  i_state (inst_or_new (r_insts (run w2_q w2_ops)) 1) = IDisposed /\
  l_state (spec_run (events true 1 w2_ops xs)) = IAlive /\
  sole_unregister (events true 1 w2_ops xs).
Proof.
  cbv zeta. repeat split; try (vm_compute; reflexivity).
  apply (single_writer_sole 1); [constructor|]. vm_compute. repeat constructor.
Qed.

(* non-vacuity: dispose, rebirth, read, unregister, rebirth by a single writer *)
Definition nv_q : qos := mkQ false None None None None false (Some 0).
Definition nv_ops : list op :=
  [OpAdd 1 7 KAlive (Some 1) 100 10; OpRead 10 mAll None; OpAdd 1 7 KDisposed (Some 2) 101 20;
   OpAdd 1 7 KAlive (Some 3) 102 30; OpAdd 1 7 KUnregistered (Some 4) 103 40;
   OpAdd 1 7 KAlive (Some 5) 104 50].
Lemma nonvacuous :
  let xs := snd (run_obs (init_reader nv_q) nv_ops) in
  all_stored xs /\ sole_unregister (events true 7 nv_ops xs) /\
  inst_or_new (r_insts (run nv_q nv_ops)) 7 = mkI 7 VNew IAlive 1 1 /\
  map (fun s => (s_dgc s, s_nwgc s)) (r_samples (run nv_q nv_ops)) = [(0, 0); (0, 0); (1, 0); (1, 0); (1, 1)].
Proof.
  cbv zeta. split; [vm_compute; repeat constructor|]. split; [|vm_compute; auto].
  apply (single_writer_sole 1); [constructor|]. vm_compute. repeat constructor.
Qed.
