(* Model of the reader history cache:
     dds/src/dcps/dcps_domain_participant/data_reader_entity.rs  (DataReaderEntity)
     dds/src/dcps/dcps_domain_participant/user_defined_data_reader.rs
       (read/take, read/take_next_instance, add/remove_matched_publication)
   Definitions only.  Data representation follows the code: `sample_list`,
   `instances`, `instance_ownership`, `matched_publication_list` are lists in
   storage order.  Handles, writer GUIDs and payloads are integers (the harness maps
   them to 16-byte big-endian arrays, so the derived Ord on handles is the integer
   order); times are nanoseconds (normalized, non-negative, far from saturation). *)
From DustDDS Require Export Base.Machine.
Open Scope Z_scope.

Inductive kind := KAlive | KAliveFiltered | KDisposed | KUnregistered | KDisposedUnregistered.
Inductive istate := IAlive | IDisposed | INoWriters.
Inductive vstate := VNew | VNotNew.
Inductive sstate := SRead | SNotRead.

Definition kind_eqb (a b : kind) : bool :=
  match a, b with
  | KAlive, KAlive | KAliveFiltered, KAliveFiltered | KDisposed, KDisposed
  | KUnregistered, KUnregistered | KDisposedUnregistered, KDisposedUnregistered => true
  | _, _ => false
  end.
Definition is_alive_kind (k : kind) : bool :=
  match k with KAlive | KAliveFiltered => true | _ => false end.
Definition istate_eqb (a b : istate) : bool :=
  match a, b with IAlive, IAlive | IDisposed, IDisposed | INoWriters, INoWriters => true | _, _ => false end.
Definition vstate_eqb (a b : vstate) : bool :=
  match a, b with VNew, VNew | VNotNew, VNotNew => true | _, _ => false end.
Definition sstate_eqb (a b : sstate) : bool :=
  match a, b with SRead, SRead | SNotRead, SNotRead => true | _, _ => false end.

(* Option<Time> with the derived order: None < Some _ *)
Definition ts := option Z.
Definition ts_leb (a b : ts) : bool :=
  match a, b with
  | None, _ => true
  | Some _, None => false
  | Some x, Some y => x <=? y
  end.
Definition ts_ltb (a b : ts) : bool := negb (ts_leb b a).
Definition ts_eqb (a b : ts) : bool :=
  match a, b with None, None => true | Some x, Some y => x =? y | _, _ => false end.
Definition ts_max (a b : ts) : ts := if ts_leb a b then b else a.

Record sample := mkS {
  s_kind : kind; s_writer : Z; s_inst : Z; s_ts : ts; s_data : Z;
  s_ss : sstate; s_dgc : Z; s_nwgc : Z }.
Record inst := mkI { i_handle : Z; i_view : vstate; i_state : istate; i_dgc : Z; i_nwgc : Z }.
Record own := mkO { o_inst : Z; o_owner : Z; o_last : Z }.
(* q_depth None = KEEP_ALL; limits None = unlimited; q_sep None = infinite *)
Record qos := mkQ {
  q_bysrc : bool; q_depth : option Z; q_ms : option Z; q_mi : option Z; q_mspi : option Z;
  q_excl : bool; q_sep : option Z }.
Record reader := mkR {
  r_samples : list sample; r_insts : list inst; r_owns : list own;
  r_matched : list (Z * Z) (* writer handle, ownership strength *); r_qos : qos }.

Definition init_reader (q : qos) : reader := mkR [] [] [] [] q.

Definition set_samples (r : reader) (l : list sample) : reader :=
  mkR l (r_insts r) (r_owns r) (r_matched r) (r_qos r).
Definition set_insts (r : reader) (l : list inst) : reader :=
  mkR (r_samples r) l (r_owns r) (r_matched r) (r_qos r).
Definition set_owns (r : reader) (l : list own) : reader :=
  mkR (r_samples r) (r_insts r) l (r_matched r) (r_qos r).
Definition set_matched (r : reader) (l : list (Z * Z)) : reader :=
  mkR (r_samples r) (r_insts r) (r_owns r) l (r_qos r).

(* InstanceState::new / update_state (view state becomes NEW on rebirth) *)
Definition new_inst (h : Z) : inst := mkI h VNew IAlive 0 0.
Definition update_state (i : inst) (k : kind) : inst :=
  match i_state i with
  | IAlive =>
      match k with
      | KDisposed | KDisposedUnregistered => mkI (i_handle i) (i_view i) IDisposed (i_dgc i) (i_nwgc i)
      | KUnregistered => mkI (i_handle i) (i_view i) INoWriters (i_dgc i) (i_nwgc i)
      | _ => i
      end
  | IDisposed =>
      match k with
      | KAlive => mkI (i_handle i) VNew IAlive (i_dgc i + 1) (i_nwgc i)
      | _ => i
      end
  | INoWriters =>
      match k with
      | KAlive => mkI (i_handle i) VNew IAlive (i_dgc i) (i_nwgc i + 1)
      | _ => i
      end
  end.
Definition mark_viewed (i : inst) : inst := mkI (i_handle i) VNotNew (i_state i) (i_dgc i) (i_nwgc i).

Fixpoint find_inst (h : Z) (l : list inst) : option inst :=
  match l with [] => None | i :: t => if i_handle i =? h then Some i else find_inst h t end.
(* apply f to the first instance with handle h *)
Fixpoint upd_inst (h : Z) (f : inst -> inst) (l : list inst) : list inst :=
  match l with [] => [] | i :: t => if i_handle i =? h then f i :: t else i :: upd_inst h f t end.

(* the instance-state update performed twice by add_reader_change; None = the
   "state change of unknown instance" error *)
Definition touch_instance (l : list inst) (h : Z) (k : kind) : option (list inst) :=
  match find_inst h l with
  | Some _ => Some (upd_inst h (fun i => update_state i k) l)
  | None => if is_alive_kind k then Some (l ++ [update_state (new_inst h) k]) else None
  end.

Fixpoint find_own (h : Z) (l : list own) : option own :=
  match l with [] => None | o :: t => if o_inst o =? h then Some o else find_own h t end.
Fixpoint upd_own (h : Z) (f : own -> own) (l : list own) : list own :=
  match l with [] => [] | o :: t => if o_inst o =? h then f o :: t else o :: upd_own h f t end.
Fixpoint remove_own (h : Z) (l : list own) : list own :=
  match l with [] => [] | o :: t => if o_inst o =? h then t else o :: remove_own h t end.
Fixpoint find_pub (w : Z) (l : list (Z * Z)) : option Z :=
  match l with [] => None | (k, s) :: t => if k =? w then Some s else find_pub w t end.

Definition of_inst (h : Z) (s : sample) : bool := s_inst s =? h.
Definition alive_of_inst (h : Z) (s : sample) : bool := (s_inst s =? h) && kind_eqb (s_kind s) KAlive.
Definition count {A} (p : A -> bool) (l : list A) : Z := Z.of_nat (length (filter p l)).

(* remove the first element satisfying p *)
Fixpoint remove_first {A} (p : A -> bool) (l : list A) : list A :=
  match l with [] => [] | x :: t => if p x then t else x :: remove_first p t end.
(* insert x before the first element satisfying p, else at the end *)
Fixpoint insert_before {A} (p : A -> bool) (x : A) (l : list A) : list A :=
  match l with [] => [x] | y :: t => if p y then x :: y :: t else y :: insert_before p x t end.

Fixpoint distinct_insts (l : list sample) (acc : list Z) : list Z :=
  match l with
  | [] => acc
  | s :: t => if existsb (Z.eqb (s_inst s)) acc then distinct_insts t acc
              else distinct_insts t (acc ++ [s_inst s])
  end.

(* Length == usize : Unlimited is never equal *)
Definition len_eq (lim : option Z) (n : Z) : bool :=
  match lim with None => false | Some v => v =? n end.

Inductive add_result := Added | NotAdded | Rejected (h : Z) (reason : Z) | AddError | AddPanic.
(* reasons: 1 instances limit, 2 samples limit, 3 samples-per-instance limit *)

Definition closest_ts_before (l : list sample) (h : Z) (t : ts) : option ts :=
  fold_left (fun acc s =>
      if of_inst h s && ts_leb (s_ts s) t
      then match acc with None => Some (s_ts s) | Some m => Some (ts_max m (s_ts s)) end
      else acc) l None.

Definition of_interest (r : reader) (h : Z) (t : ts) : bool :=
  match closest_ts_before (r_samples r) h t with
  | Some (Some prev) =>
      match t with
      | Some st =>
          (* DurationKind::Finite(st - prev) >= minimum_separation *)
          match q_sep (r_qos r) with None => false | Some sep => sep <=? st - prev end
      | None => true
      end
  | _ => true
  end.

(* exclusive-ownership gate and bookkeeping; None = early return NotAdded *)
Definition ownership_gate (r : reader) (w h rts : Z) : option (list own) :=
  if q_excl (r_qos r) then
    match find_own h (r_owns r) with
    | Some o =>
        match find_pub (o_owner o) (r_matched r), find_pub w (r_matched r) with
        | Some so, Some sw =>
            if negb (o_owner o =? w) && (sw <=? so) then None
            else Some (upd_own h (fun x => mkO (o_inst x) w (o_last x)) (r_owns r))
        | _, _ => None
        end
    | None => Some (r_owns r ++ [mkO h w rts])
    end
  else Some (r_owns r).

Definition add_change (r : reader) (w : Z) (data : Z) (k : kind) (h : Z) (t : ts) (rts : Z)
  : reader * add_result :=
  match touch_instance (r_insts r) h k with
  | None => (r, AddError)
  | Some insts1 =>
    let r1 := set_insts r insts1 in
    match find_inst h insts1 with
    | None => (r1, AddPanic)
    | Some i =>
      let smp := mkS k w h t data SNotRead (i_dgc i) (i_nwgc i) in
      match ownership_gate r1 w h rts with
      | None => (r1, NotAdded)
      | Some owns2 =>
        let owns3 := if is_alive_kind k then owns2 else remove_own h owns2 in
        (* the ownership table is only committed for a change that passes the time-based filter
           and the resource limits (r3); a refused change leaves it as it was (r1) *)
        let r3 := set_owns r1 owns3 in
        if negb (of_interest r3 h t) then (r1, NotAdded) else
        let q := r_qos r in
        let num_alive := count (alive_of_inst h) (r_samples r3) in
        let replaces := match q_depth q with Some d => d =? num_alive | None => false end in
        let max_samples_hit := negb replaces && len_eq (q_ms q) (Z.of_nat (length (r_samples r3))) in
        let ihl := distinct_insts (r_samples r3) [] in
        let max_inst_hit := if existsb (Z.eqb h) ihl then false
                            else len_eq (q_mi q) (Z.of_nat (length ihl)) in
        let mspi_hit := negb replaces && len_eq (q_mspi q) (count (of_inst h) (r_samples r3)) in
        if max_samples_hit then (r1, Rejected h 2)
        else if max_inst_hit then (r1, Rejected h 1)
        else if mspi_hit then (r1, Rejected h 3)
        else
          if replaces && (num_alive =? 0) then (r3, AddPanic) else
          let samples4 := if replaces then remove_first (alive_of_inst h) (r_samples r3)
                          else r_samples r3 in
          match touch_instance (r_insts r3) h k with
          | None => (r3, AddError)
          | Some insts5 =>
            let samples6 :=
              if q_bysrc q then insert_before (fun x => ts_ltb t (s_ts x)) smp samples4
              else samples4 ++ [smp] in
            let owns7 :=
              match find_own h owns3 with
              | Some _ => upd_own h (fun x => if o_last x <? rts then mkO (o_inst x) (o_owner x) rts else x) owns3
              | None => if is_alive_kind k then owns3 ++ [mkO h w rts] else owns3
              end in
            (mkR samples6 insts5 owns7 (r_matched r) q, Added)
          end
      end
    end
  end.

(* ---- read / take ---------------------------------------------------------- *)
Record masks := mkM { m_read : bool; m_notread : bool; m_new : bool; m_notnew : bool;
                      m_alive : bool; m_disposed : bool; m_nowriters : bool }.
Definition ss_in (m : masks) (s : sstate) : bool := match s with SRead => m_read m | SNotRead => m_notread m end.
Definition vs_in (m : masks) (v : vstate) : bool := match v with VNew => m_new m | VNotNew => m_notnew m end.
Definition is_in (m : masks) (i : istate) : bool :=
  match i with IAlive => m_alive m | IDisposed => m_disposed m | INoWriters => m_nowriters m end.

Record info := mkInfo {
  f_data : Z; f_inst : Z; f_valid : bool; f_ss : sstate; f_vs : vstate; f_is : istate;
  f_dgc : Z; f_nwgc : Z; f_srank : Z; f_grank : Z; f_agrank : Z; f_ts : ts; f_pub : Z }.

Definition selected (r : reader) (m : masks) (hsel : option Z) (s : sample) : option inst :=
  if match hsel with Some h => negb (s_inst s =? h) | None => false end then None else
  match find_inst (s_inst s) (r_insts r) with
  | None => None
  | Some i => if ss_in m (s_ss s) && vs_in m (i_view i) && is_in m (i_state i) then Some i else None
  end.

Definition info_of (s : sample) (i : inst) : info :=
  mkInfo (s_data s) (s_inst s) (is_alive_kind (s_kind s)) (s_ss s) (i_view i) (i_state i)
         (s_dgc s) (s_nwgc s) 0 0 ((i_dgc i + i_nwgc i) - (s_dgc s + s_nwgc s)) (s_ts s) (s_writer s).

Definition mark_read (s : sample) : sample :=
  mkS (s_kind s) (s_writer s) (s_inst s) (s_ts s) (s_data s) SRead (s_dgc s) (s_nwgc s).

(* the retain_mut loop: n = samples collected so far; returns (kept list, collected infos) *)
Fixpoint collect_loop (r : reader) (m : masks) (hsel : option Z) (max : Z) (take : bool)
         (l : list sample) (n : Z) : list sample * list info :=
  match l with
  | [] => ([], [])
  | s :: t =>
      if n =? max then (s :: t, []) else
      match selected r m hsel s with
      | None => let '(k, c) := collect_loop r m hsel max take t n in (s :: k, c)
      | Some i =>
          let '(k, c) := collect_loop r m hsel max take t (n + 1) in
          ((if take then k else mark_read s :: k), info_of s i :: c)
      end
  end.

(* ranks: filled in after the collection is built *)
Fixpoint later_same (h : Z) (l : list info) : Z :=
  match l with [] => 0 | x :: t => (if f_inst x =? h then 1 else 0) + later_same h t end.
Fixpoint last_agrank (h : Z) (l : list info) (acc : Z) : Z :=
  match l with [] => acc | x :: t => last_agrank h t (if f_inst x =? h then f_agrank x else acc) end.
Fixpoint fill_ranks (all : list info) (l : list info) : list info :=
  match l with
  | [] => []
  | x :: t =>
      mkInfo (f_data x) (f_inst x) (f_valid x) (f_ss x) (f_vs x) (f_is x) (f_dgc x) (f_nwgc x)
             (later_same (f_inst x) t) (f_agrank x - last_agrank (f_inst x) all 0) (f_agrank x)
             (f_ts x) (f_pub x) :: fill_ranks all t
  end.

Inductive coll_result := CollOk (l : list info) | NoData | BadParameter | NotEnabled.

Definition mark_viewed_all (c : list info) (l : list inst) : list inst :=
  map (fun i => if existsb (fun x => f_inst x =? i_handle i) c then mark_viewed i else i) l.

Definition collect (r : reader) (max : Z) (m : masks) (hsel : option Z) (take : bool)
  : reader * coll_result :=
  if match hsel with Some h => match find_inst h (r_insts r) with None => true | Some _ => false end
                   | None => false end
  then (r, BadParameter) else
  let '(kept, c) := collect_loop r m hsel max take (r_samples r) 0 in
  let r' := mkR kept (mark_viewed_all c (r_insts r)) (r_owns r) (r_matched r) (r_qos r) in
  match c with
  | [] => (r', NoData)
  | _ => (r', CollOk (fill_ranks c c))
  end.

(* next_instance: least handle greater than prev *)
Definition next_instance (r : reader) (prev : option Z) : option Z :=
  fold_left (fun acc i =>
      let h := i_handle i in
      if match prev with Some p => p <? h | None => true end
      then match acc with None => Some h | Some a => Some (Z.min a h) end
      else acc) (r_insts r) None.

Fixpoint next_loop (fuel : nat) (r : reader) (max : Z) (m : masks) (prev : option Z) (take : bool)
  : reader * coll_result :=
  match fuel with
  | O => (r, NoData)
  | S f =>
      match next_instance r prev with
      | None => (r, NoData)
      | Some h =>
          match collect r max m (Some h) take with
          | (_, NoData) => next_loop f r max m (Some h) take
          | res => res
          end
      end
  end.
Definition next_instance_op (r : reader) (max : Z) (m : masks) (prev : option Z) (take : bool) :=
  next_loop (S (length (r_insts r))) r max m prev take.

(* matched publications *)
Fixpoint upd_pub (w s : Z) (l : list (Z * Z)) : option (list (Z * Z)) :=
  match l with
  | [] => None
  | (k, v) :: t => if k =? w then Some ((w, s) :: t)
                   else match upd_pub w s t with Some t' => Some ((k, v) :: t') | None => None end
  end.
Definition add_matched (r : reader) (w s : Z) : reader :=
  match upd_pub w s (r_matched r) with
  | Some l => set_matched r l
  | None => set_matched r (r_matched r ++ [(w, s)])
  end.
Fixpoint remove_pub (w : Z) (l : list (Z * Z)) : list (Z * Z) :=
  match l with [] => [] | (k, v) :: t => if k =? w then t else (k, v) :: remove_pub w t end.
Definition remove_matched (r : reader) (w : Z) : reader :=
  match find_pub w (r_matched r) with
  | None => r
  | Some _ =>
      mkR (r_samples r) (r_insts r) (filter (fun o => negb (o_owner o =? w)) (r_owns r))
          (remove_pub w (r_matched r)) (r_qos r)
  end.

(* ---- operations and runs --------------------------------------------------- *)
Inductive op :=
| OpAdd (w h : Z) (k : kind) (t : ts) (data rts : Z)
| OpRead (max : Z) (m : masks) (hsel : option Z)
| OpTake (max : Z) (m : masks) (hsel : option Z)
| OpReadNext (max : Z) (prev : option Z) (m : masks)
| OpTakeNext (max : Z) (prev : option Z) (m : masks)
| OpMatch (w s : Z)
| OpUnmatch (w : Z).

Inductive obs := ObsAdd (a : add_result) | ObsColl (c : coll_result) | ObsUnit.

Definition step (r : reader) (o : op) : reader * obs :=
  match o with
  | OpAdd w h k t data rts => let '(r', a) := add_change r w data k h t rts in (r', ObsAdd a)
  | OpRead max m hsel => let '(r', c) := collect r max m hsel false in (r', ObsColl c)
  | OpTake max m hsel => let '(r', c) := collect r max m hsel true in (r', ObsColl c)
  | OpReadNext max prev m => let '(r', c) := next_instance_op r max m prev false in (r', ObsColl c)
  | OpTakeNext max prev m => let '(r', c) := next_instance_op r max m prev true in (r', ObsColl c)
  | OpMatch w s => (add_matched r w s, ObsUnit)
  | OpUnmatch w => (remove_matched r w, ObsUnit)
  end.

Fixpoint run_obs (r : reader) (ops : list op) : reader * list obs :=
  match ops with
  | [] => (r, [])
  | o :: t => let '(r1, x) := step r o in let '(r2, xs) := run_obs r1 t in (r2, x :: xs)
  end.
Definition run (q : qos) (ops : list op) : reader := fst (run_obs (init_reader q) ops).
Definition run_from (r : reader) (ops : list op) : reader := fst (run_obs r ops).
