(* C26 — proofs about the content-filter model (FilterModel.v). *)
From DustDDS Require Import Base.Machine Cache.FilterModel.
Open Scope Z_scope.

(* ------------------------------------------------------------------ evaluator vs. property *)
Lemma find_filter_spec_parts :
  forall expr name o n,
    spec_parts expr = Some (name, o, n) ->
    exists l, find_filter expr = Some (l, o) /\ name = trim l.
Proof.
  intros expr name o n H. unfold spec_parts in H. unfold find_filter.
  destruct (split_once (op_text OpLe) expr) as [[l r]|] eqn:E1.
  - destruct (parse_index (trim r)) as [k|]; [|discriminate].
    inversion H; subst. exists l. split; reflexivity.
  - destruct (split_once (op_text OpEq) expr) as [[l r]|] eqn:E2; [|discriminate].
    destruct (parse_index (trim r)) as [k|]; [|discriminate].
    inversion H; subst. exists l. split; reflexivity.
Qed.

(* the code computes the property's predicate whenever the expression names parameter %0 *)
Lemma eval_code_eq_spec :
  forall f s b,
    spec_index f = Some 0%nat ->
    spec_eval f s = Some b ->
    eval_code f s = Ok (of_bool b).
Proof.
  intros f s b Hi He. unfold spec_index in Hi. unfold spec_eval in He. unfold eval_code.
  destruct (spec_parts (f_expr f)) as [[[name o] n]|] eqn:Ep; [|discriminate].
  inversion Hi; subst n.
  destruct (find_filter_spec_parts _ _ _ _ Ep) as [l [Hf Hn]]. rewrite Hf. subst name.
  destruct (lookup (trim l) s) as [[z|x|k v]|]; try discriminate.
  - destruct (f_params f) as [|p0 ps]; [discriminate|]. cbn [nth_error] in He.
    destruct (parse_i32 p0); [|discriminate]. inversion He. reflexivity.
  - destruct (f_params f) as [|p0 ps]; [discriminate|]. cbn [nth_error] in He.
    inversion He. reflexivity.
Qed.

(* more generally: whenever the named parameter equals parameter 0 *)
Lemma eval_code_eq_spec_same_param :
  forall f s b n,
    spec_index f = Some n ->
    nth_error (f_params f) n = nth_error (f_params f) 0 ->
    spec_eval f s = Some b ->
    eval_code f s = Ok (of_bool b).
Proof.
  intros f s b n Hi Hp He. unfold spec_index in Hi. unfold spec_eval in He. unfold eval_code.
  destruct (spec_parts (f_expr f)) as [[[name o] n']|] eqn:Ep; [|discriminate].
  inversion Hi; subst n'.
  destruct (find_filter_spec_parts _ _ _ _ Ep) as [l [Hf Hn]]. rewrite Hf. subst name.
  rewrite Hp in He.
  destruct (lookup (trim l) s) as [[z|x|k v]|]; try discriminate.
  - destruct (f_params f) as [|p0 ps]; [discriminate|]. cbn [nth_error] in He.
    destruct (parse_i32 p0); [|discriminate]. inversion He. reflexivity.
  - destruct (f_params f) as [|p0 ps]; [discriminate|]. cbn [nth_error] in He.
    inversion He. reflexivity.
Qed.

(* witness for class 2: `num = %1` with parameters ["3"; "9"] and num = 9 *)
Definition w_num : str := [110; 117; 109].
Definition w_expr_eq1 : str := w_num ++ [32; 61; 32; 37; 49].   (* "num = %1" *)
Definition w_expr_le0 : str := w_num ++ [32; 60; 61; 32; 37; 48].   (* "num <= %0" *)
Definition w_sample (n : Z) : sample := [(w_num, VInt32 n)].

Lemma param_index_ignored :
  exists f s, spec_eval f s = Some true /\ eval_code f s = Ok Fail.
Proof.
  exists (mkCft w_expr_eq1 [[51]; [57]]), (w_sample 9). split; vm_compute; reflexivity.
Qed.

(* ------------------------------------------------------------------ the batch loop *)
Definition add_all (cs : list change) (st : reader_st) : reader_st :=
  fold_left (fun st c => add_reader_change c st) cs st.

Fixpoint take_while_pass (flt : option cft) (b : list change) : list change :=
  match b with
  | [] => []
  | c :: t => if passes flt c then c :: take_while_pass flt t else []
  end.

Lemma decided_cases :
  forall flt c, decided flt c = true ->
    (classify flt c = Ok Pass /\ passes flt c = true) \/
    (classify flt c = Ok Fail /\ passes flt c = false).
Proof.
  intros flt c H. unfold decided in H. unfold passes.
  destruct (classify flt c) as [[| |]|e|p]; try discriminate; auto.
Qed.

Lemma loop_coded :
  forall flt b st, forallb (decided flt) b = true ->
    reader_loop flt b st = Ok (add_all (take_while_pass flt b) st).
Proof.
  intros flt b. induction b as [|c t IH]; intros st H; [reflexivity|].
  cbn [forallb] in H. apply andb_prop in H. destruct H as [Hc Ht].
  unfold reader_loop in *. cbn [reader_loop_gen take_while_pass].
  destruct (decided_cases _ _ Hc) as [[E P]|[E P]]; rewrite E, P.
  - rewrite IH by exact Ht. reflexivity.
  - reflexivity.
Qed.

Lemma loop_patched :
  forall flt b st, forallb (decided flt) b = true ->
    reader_loop_patched flt b st = Ok (add_all (filter (passes flt) b) st).
Proof.
  intros flt b. induction b as [|c t IH]; intros st H; [reflexivity|].
  cbn [forallb] in H. apply andb_prop in H. destruct H as [Hc Ht].
  unfold reader_loop_patched in *. cbn [reader_loop_gen filter].
  destruct (decided_cases _ _ Hc) as [[E P]|[E P]]; rewrite E, P.
  - rewrite IH by exact Ht. reflexivity.
  - rewrite IH by exact Ht. reflexivity.
Qed.

Lemma add_all_app : forall a b st, add_all (a ++ b) st = add_all b (add_all a st).
Proof. intros. unfold add_all. apply fold_left_app. Qed.

Lemma run_coded :
  forall flt groups st, forallb (forallb (decided flt)) groups = true ->
    run_reader flt groups st = Ok (add_all (concat (map (take_while_pass flt) groups)) st).
Proof.
  intros flt groups. induction groups as [|g t IH]; intros st H; [reflexivity|].
  cbn [forallb] in H. apply andb_prop in H. destruct H as [Hg Ht].
  unfold run_reader in *. cbn [run_reader_gen map concat].
  fold (reader_loop flt g st). rewrite loop_coded by exact Hg. cbn [bind].
  rewrite IH by exact Ht. rewrite add_all_app. reflexivity.
Qed.

Lemma run_patched :
  forall flt groups st, forallb (forallb (decided flt)) groups = true ->
    run_reader_patched flt groups st = Ok (add_all (filter (passes flt) (concat groups)) st).
Proof.
  intros flt groups. induction groups as [|g t IH]; intros st H; [reflexivity|].
  cbn [forallb] in H. apply andb_prop in H. destruct H as [Hg Ht].
  unfold run_reader_patched in *. cbn [run_reader_gen concat].
  fold (reader_loop_patched flt g st). rewrite loop_patched by exact Hg. cbn [bind].
  rewrite IH by exact Ht. rewrite filter_app, add_all_app. reflexivity.
Qed.

(* what the reader presents after storing alive changes *)
Lemma presented_app : forall a b, presented (a ++ b) = presented a ++ presented b.
Proof.
  induction a as [|[s|k] t IH]; intros b; cbn [presented app]; [reflexivity| |apply IH].
  rewrite IH. reflexivity.
Qed.

Lemma presented_add_all :
  forall cs st, forallb ch_alive cs = true ->
    presented (r_samples (add_all cs st)) = presented (r_samples st) ++ map ch_data cs.
Proof.
  induction cs as [|c t IH]; intros st H.
  - cbn. rewrite app_nil_r. reflexivity.
  - cbn [forallb] in H. apply andb_prop in H. destruct H as [Hc Ht].
    unfold add_all in *. cbn [fold_left map]. rewrite IH by exact Ht.
    unfold add_reader_change. rewrite Hc. cbn [r_samples].
    rewrite presented_app. cbn [presented]. rewrite <- app_assoc. reflexivity.
Qed.

(* ------------------------------------------------------------------ lossy batches *)
Lemma not_lossy_take_eq_filter :
  forall flt b, lossy_batch flt b = false -> take_while_pass flt b = filter (passes flt) b.
Proof.
  intros flt b. unfold lossy_batch. induction b as [|c t IH]; intros H; [reflexivity|].
  cbn [drop_while_pass take_while_pass filter] in *.
  destruct (passes flt c) eqn:P.
  - rewrite IH by exact H. reflexivity.
  - cbn [existsb] in H. rewrite P in H. cbn [orb] in H.
    clear IH. induction t as [|d u IHu]; [reflexivity|].
    cbn [existsb] in H. apply orb_false_iff in H. destruct H as [Hd Hu].
    cbn [filter]. rewrite Hd. apply IHu. exact Hu.
Qed.

Lemma take_le_filter :
  forall flt b, (length (take_while_pass flt b) <= length (filter (passes flt) b))%nat.
Proof.
  intros flt b. induction b as [|c t IH]; [apply le_n|].
  cbn [take_while_pass filter]. destruct (passes flt c); cbn [length]; lia.
Qed.

Lemma existsb_filter_pos :
  forall (A : Type) (p : A -> bool) l, existsb p l = true -> (0 < length (filter p l))%nat.
Proof.
  intros A p l. induction l as [|x t IH]; intros H; [discriminate|].
  cbn [existsb] in H. cbn [filter]. destruct (p x); cbn [length]; [lia|].
  apply IH. exact H.
Qed.

Lemma lossy_take_lt_filter :
  forall flt b, lossy_batch flt b = true ->
    (length (take_while_pass flt b) < length (filter (passes flt) b))%nat.
Proof.
  intros flt b. unfold lossy_batch. induction b as [|c t IH]; intros H; [discriminate|].
  cbn [drop_while_pass take_while_pass filter] in *.
  destruct (passes flt c) eqn:P.
  - cbn [length]. apply IH in H. lia.
  - cbn [length]. cbn [existsb] in H. rewrite P in H. cbn [orb] in H.
    apply existsb_filter_pos. exact H.
Qed.

Lemma not_lossy_groups :
  forall flt groups, lossy flt groups = false ->
    concat (map (take_while_pass flt) groups) = filter (passes flt) (concat groups).
Proof.
  intros flt groups. unfold lossy. induction groups as [|g t IH]; intros H; [reflexivity|].
  cbn [existsb] in H. apply orb_false_iff in H. destruct H as [Hg Ht].
  cbn [map concat]. rewrite filter_app, IH by exact Ht.
  rewrite not_lossy_take_eq_filter by exact Hg. reflexivity.
Qed.

Lemma groups_le :
  forall flt groups,
    (length (concat (map (take_while_pass flt) groups)) <= length (filter (passes flt) (concat groups)))%nat.
Proof.
  intros flt groups. induction groups as [|g t IH]; [apply le_n|].
  cbn [map concat]. rewrite filter_app, !app_length.
  pose proof (take_le_filter flt g). lia.
Qed.

Lemma lossy_groups_lt :
  forall flt groups, lossy flt groups = true ->
    (length (concat (map (take_while_pass flt) groups)) < length (filter (passes flt) (concat groups)))%nat.
Proof.
  intros flt groups. unfold lossy. induction groups as [|g t IH]; intros H; [discriminate|].
  cbn [existsb] in H. cbn [map concat]. rewrite filter_app, !app_length.
  apply orb_true_iff in H. destruct H as [Hg|Ht].
  - pose proof (lossy_take_lt_filter flt g Hg). pose proof (groups_le flt t). lia.
  - pose proof (IH Ht). pose proof (take_le_filter flt g). lia.
Qed.

(* sublists (order-preserving selections) *)
Inductive sublist {A : Type} : list A -> list A -> Prop :=
| sub_nil : forall l, sublist [] l
| sub_keep : forall x a b, sublist a b -> sublist (x :: a) (x :: b)
| sub_skip : forall x a b, sublist a b -> sublist a (x :: b).

Lemma sublist_refl : forall (A : Type) (l : list A), sublist l l.
Proof. induction l; constructor; assumption. Qed.

Lemma sublist_app :
  forall (A : Type) (a b c d : list A), sublist a b -> sublist c d -> sublist (a ++ c) (b ++ d).
Proof.
  intros A a b c d H. revert c d. induction H; intros c d Hcd; cbn [app].
  - induction l as [|y l IHl]; cbn [app]; [exact Hcd|]. apply sub_skip. exact IHl.
  - apply sub_keep. apply IHsublist. exact Hcd.
  - apply sub_skip. apply IHsublist. exact Hcd.
Qed.

Lemma take_sublist_filter :
  forall flt b, sublist (take_while_pass flt b) (filter (passes flt) b).
Proof.
  intros flt b. induction b as [|c t IH]; [constructor|].
  cbn [take_while_pass filter]. destruct (passes flt c); [apply sub_keep; exact IH|constructor].
Qed.

Lemma groups_sublist :
  forall flt groups,
    sublist (concat (map (take_while_pass flt) groups)) (filter (passes flt) (concat groups)).
Proof.
  intros flt groups. induction groups as [|g t IH]; [constructor|].
  cbn [map concat]. rewrite filter_app. apply sublist_app; [apply take_sublist_filter|exact IH].
Qed.

Lemma sublist_map :
  forall (A B : Type) (f : A -> B) a b, sublist a b -> sublist (map f a) (map f b).
Proof. intros A B f a b H. induction H; cbn [map]; constructor; assumption. Qed.

(* ------------------------------------------------------------------ domain plumbing *)
Definition in_domain (f : cft) (c : change) : bool := ch_alive c && spec_defined f c.

Lemma in_domain_classify :
  forall f c, spec_index f = Some 0%nat -> in_domain f c = true ->
    classify (Some f) c = Ok (of_bool (spec_true f c)).
Proof.
  intros f c Hi H. unfold in_domain in H. apply andb_prop in H. destruct H as [Ha Hd].
  unfold classify. rewrite Ha. unfold spec_defined in Hd. unfold spec_true.
  destruct (spec_eval f (ch_data c)) as [b|] eqn:E; [|discriminate].
  rewrite (eval_code_eq_spec _ _ _ Hi E). destruct b; reflexivity.
Qed.

Lemma in_domain_decided :
  forall f c, spec_index f = Some 0%nat -> in_domain f c = true -> decided (Some f) c = true.
Proof.
  intros f c Hi H. unfold decided. rewrite (in_domain_classify _ _ Hi H).
  destruct (spec_true f c); reflexivity.
Qed.

Lemma in_domain_passes :
  forall f c, spec_index f = Some 0%nat -> in_domain f c = true -> passes (Some f) c = spec_true f c.
Proof.
  intros f c Hi H. unfold passes. rewrite (in_domain_classify _ _ Hi H).
  destruct (spec_true f c); reflexivity.
Qed.

Lemma forallb_impl :
  forall (A : Type) (p q : A -> bool) l,
    (forall x, p x = true -> q x = true) -> forallb p l = true -> forallb q l = true.
Proof.
  intros A p q l H. induction l as [|x t IH]; intros Hp; [reflexivity|].
  cbn [forallb] in *. apply andb_prop in Hp. destruct Hp as [Hx Ht].
  rewrite (H _ Hx), (IH Ht). reflexivity.
Qed.

Lemma filter_ext_forallb :
  forall (A : Type) (d p q : A -> bool) l,
    (forall x, d x = true -> p x = q x) -> forallb d l = true -> filter p l = filter q l.
Proof.
  intros A d p q l H. induction l as [|x t IH]; intros Hd; [reflexivity|].
  cbn [forallb] in Hd. apply andb_prop in Hd. destruct Hd as [Hx Ht].
  cbn [filter]. rewrite (H _ Hx), (IH Ht). reflexivity.
Qed.

Lemma forallb_concat :
  forall (A : Type) (p : A -> bool) ll, forallb (forallb p) ll = true -> forallb p (concat ll) = true.
Proof.
  intros A p ll. induction ll as [|l t IH]; intros H; [reflexivity|].
  cbn [forallb] in H. apply andb_prop in H. destruct H as [Hl Ht].
  cbn [concat]. rewrite forallb_app, Hl, (IH Ht). reflexivity.
Qed.

Lemma forallb_filter_sub :
  forall (A : Type) (p q : A -> bool) l, forallb p l = true -> forallb p (filter q l) = true.
Proof.
  intros A p q l. induction l as [|x t IH]; intros H; [reflexivity|].
  cbn [forallb] in H. apply andb_prop in H. destruct H as [Hx Ht].
  cbn [filter]. destruct (q x); cbn [forallb]; [rewrite Hx|]; apply IH; exact Ht.
Qed.

Lemma lossy_ext :
  forall f groups, spec_index f = Some 0%nat ->
    forallb (forallb (in_domain f)) groups = true ->
    forallb (forallb ch_alive) groups = true /\
    forallb (forallb (decided (Some f))) groups = true.
Proof.
  intros f groups Hi H. split.
  - eapply forallb_impl; [|exact H]. intros g Hg. eapply forallb_impl; [|exact Hg].
    intros c Hc. unfold in_domain in Hc. apply andb_prop in Hc. tauto.
  - eapply forallb_impl; [|exact H]. intros g Hg. eapply forallb_impl; [|exact Hg].
    intros c Hc. apply in_domain_decided; assumption.
Qed.

Lemma alive_take_groups :
  forall flt groups, forallb (forallb ch_alive) groups = true ->
    forallb ch_alive (concat (map (take_while_pass flt) groups)) = true.
Proof.
  intros flt groups. induction groups as [|g t IH]; intros H; [reflexivity|].
  cbn [forallb] in H. apply andb_prop in H. destruct H as [Hg Ht].
  cbn [map concat]. rewrite forallb_app, (IH Ht), andb_true_r.
  clear IH Ht. induction g as [|c u IHu]; [reflexivity|].
  cbn [forallb] in Hg. apply andb_prop in Hg. destruct Hg as [Hc Hu].
  cbn [take_while_pass]. destruct (passes flt c); [|reflexivity].
  cbn [forallb]. rewrite Hc, (IHu Hu). reflexivity.
Qed.

(* ------------------------------------------------------------------ main theorems *)
(* the code as written: exact unless some batch is lossy *)
Theorem presented_eq_filter_batch_unless_lossy :
  forall f groups,
    spec_index f = Some 0%nat ->
    forallb (forallb (in_domain f)) groups = true ->
    lossy (Some f) groups = false ->
    exists st, run_reader (Some f) groups reader_init = Ok st /\
      presented (r_samples st) = map ch_data (filter (spec_true f) (concat groups)).
Proof.
  intros f groups Hi Hd Hl. destruct (lossy_ext _ _ Hi Hd) as [Ha Hdec].
  eexists. split; [apply run_coded; exact Hdec|].
  rewrite presented_add_all by (apply alive_take_groups; exact Ha).
  cbn [reader_init r_samples presented app].
  rewrite not_lossy_groups by exact Hl. f_equal.
  eapply filter_ext_forallb; [|apply forallb_concat; exact Hd].
  intros c Hc. apply in_domain_passes; assumption.
Qed.

(* and strictly fewer samples are presented as soon as one batch is lossy: the class is exact *)
Theorem lossy_loses_a_passing_sample :
  forall f groups,
    spec_index f = Some 0%nat ->
    forallb (forallb (in_domain f)) groups = true ->
    lossy (Some f) groups = true ->
    exists st, run_reader (Some f) groups reader_init = Ok st /\
      (length (presented (r_samples st)) < length (filter (spec_true f) (concat groups)))%nat.
Proof.
  intros f groups Hi Hd Hl. destruct (lossy_ext _ _ Hi Hd) as [Ha Hdec].
  eexists. split; [apply run_coded; exact Hdec|].
  rewrite presented_add_all by (apply alive_take_groups; exact Ha).
  cbn [reader_init r_samples presented app]. rewrite map_length.
  replace (filter (spec_true f) (concat groups)) with (filter (passes (Some f)) (concat groups)).
  - apply lossy_groups_lt. exact Hl.
  - eapply filter_ext_forallb; [|apply forallb_concat; exact Hd].
    intros c Hc. apply in_domain_passes; assumption.
Qed.

(* whatever the grouping: only passing samples are presented, each at most once, in arrival order *)
Theorem presented_sublist_of_passing :
  forall f groups,
    spec_index f = Some 0%nat ->
    forallb (forallb (in_domain f)) groups = true ->
    exists st, run_reader (Some f) groups reader_init = Ok st /\
      sublist (presented (r_samples st)) (map ch_data (filter (spec_true f) (concat groups))).
Proof.
  intros f groups Hi Hd. destruct (lossy_ext _ _ Hi Hd) as [Ha Hdec].
  eexists. split; [apply run_coded; exact Hdec|].
  rewrite presented_add_all by (apply alive_take_groups; exact Ha).
  cbn [reader_init r_samples presented app]. apply sublist_map.
  replace (filter (spec_true f) (concat groups)) with (filter (passes (Some f)) (concat groups)).
  - apply groups_sublist.
  - eapply filter_ext_forallb; [|apply forallb_concat; exact Hd].
    intros c Hc. apply in_domain_passes; assumption.
Qed.

(* one sample per worker step (what dust-dds writers produce: one DATA per datagram) is never lossy *)
Lemma small_batch_not_lossy :
  forall flt b, (length b <= 1)%nat -> lossy_batch flt b = false.
Proof.
  intros flt b H. destruct b as [|c [|d t]]; [reflexivity| |cbn [length] in H; lia].
  unfold lossy_batch. cbn [drop_while_pass]. destruct (passes flt c) eqn:P; [reflexivity|].
  cbn [existsb]. rewrite P. reflexivity.
Qed.

Theorem presented_eq_filter_one_per_step :
  forall f groups,
    spec_index f = Some 0%nat ->
    forallb (forallb (in_domain f)) groups = true ->
    forallb (fun g => (length g <=? 1)%nat) groups = true ->
    exists st, run_reader (Some f) groups reader_init = Ok st /\
      presented (r_samples st) = map ch_data (filter (spec_true f) (concat groups)).
Proof.
  intros f groups Hi Hd Hs. apply presented_eq_filter_batch_unless_lossy; try assumption.
  unfold lossy. clear Hd. induction groups as [|g t IH]; [reflexivity|].
  cbn [forallb] in Hs. apply andb_prop in Hs. destruct Hs as [Hg Ht].
  cbn [existsb]. rewrite (IH Ht), orb_false_r.
  apply small_batch_not_lossy. apply Nat.leb_le. exact Hg.
Qed.

(* the patched loop (`continue` instead of `continue 'data_readers`): exact for EVERY grouping *)
Theorem presented_eq_filter_batch_patched :
  forall f groups,
    spec_index f = Some 0%nat ->
    forallb (forallb (in_domain f)) groups = true ->
    exists st, run_reader_patched (Some f) groups reader_init = Ok st /\
      presented (r_samples st) = map ch_data (filter (spec_true f) (concat groups)).
Proof.
  intros f groups Hi Hd. destruct (lossy_ext _ _ Hi Hd) as [Ha Hdec].
  eexists. split; [apply run_patched; exact Hdec|].
  assert (Hal : forallb ch_alive (filter (passes (Some f)) (concat groups)) = true).
  { apply forallb_filter_sub. apply forallb_concat. exact Ha. }
  rewrite presented_add_all by exact Hal.
  cbn [reader_init r_samples presented app]. f_equal.
  eapply filter_ext_forallb; [|apply forallb_concat; exact Hd].
  intros c Hc. apply in_domain_passes; assumption.
Qed.

(* the refutation of the unconditional statement on the code as written: batch [fail; pass] *)
Definition w_flt : cft := mkCft w_expr_le0 [[53]].   (* num <= %0, ["5"] *)
Definition w_ch (n : Z) : change := mkCh true 1 (w_sample n).

Theorem presented_eq_filter_batch_refuted :
  exists f groups,
    spec_index f = Some 0%nat /\
    forallb (forallb (in_domain f)) groups = true /\
    exists st, run_reader (Some f) groups reader_init = Ok st /\
      presented (r_samples st) <> map ch_data (filter (spec_true f) (concat groups)).
Proof.
  exists w_flt, [[w_ch 9; w_ch 4]]. split; [vm_compute; reflexivity|].
  split; [vm_compute; reflexivity|].
  eexists. split; [vm_compute; reflexivity|]. vm_compute. discriminate.
Qed.

(* a reader on the plain topic is not affected by anything above *)
Theorem plain_reader_presents_all :
  forall groups, forallb (forallb ch_alive) groups = true ->
    exists st, run_reader None groups reader_init = Ok st /\
      presented (r_samples st) = map ch_data (concat groups).
Proof.
  intros groups Ha.
  assert (Hdec : forallb (forallb (decided None)) groups = true).
  { eapply forallb_impl; [|exact Ha]. intros g Hg. eapply forallb_impl; [|exact Hg]. reflexivity. }
  assert (Hl : lossy None groups = false).
  { clear. unfold lossy. induction groups as [|g t IH]; [reflexivity|].
    cbn [existsb]. rewrite IH, orb_false_r. unfold lossy_batch.
    induction g as [|c u IHu]; [reflexivity|]. cbn [drop_while_pass]. exact IHu. }
  eexists. split; [apply run_coded; exact Hdec|].
  rewrite presented_add_all by (apply alive_take_groups; exact Ha).
  cbn [reader_init r_samples presented app]. rewrite not_lossy_groups by exact Hl.
  f_equal. clear. induction (concat groups) as [|c t IH]; [reflexivity|].
  cbn [filter]. change (passes None c) with true. cbn iota. rewrite IH. reflexivity.
Qed.

(* the two oracles used by the correspondence file decide what they say *)
Lemma str_eqb_eq : forall a b, str_eqb a b = true <-> a = b.
Proof.
  induction a as [|x a IH]; intros [|y b]; cbn [str_eqb]; split; intros H;
    try reflexivity; try discriminate.
  - apply andb_prop in H. destruct H as [H1 H2]. apply Z.eqb_eq in H1. apply IH in H2. congruence.
  - inversion H; subst. rewrite Z.eqb_refl. cbn [andb]. apply IH. reflexivity.
Qed.

Lemma sample_eqb_eq : forall a b, sample_eqb a b = true <-> a = b.
Proof.
  induction a as [|[n v] a IH]; intros [|[m w] b]; cbn [sample_eqb]; split; intros H;
    try reflexivity; try discriminate.
  - apply andb_prop in H. destruct H as [H12 H3]. apply andb_prop in H12. destruct H12 as [H1 H2].
    apply str_eqb_eq in H1. apply IH in H3. subst.
    destruct v as [x|x|k x], w as [y|y|j y]; try discriminate.
    + apply Z.eqb_eq in H2. congruence.
    + apply str_eqb_eq in H2. congruence.
    + apply andb_prop in H2. destruct H2 as [Hk Hx].
      apply Z.eqb_eq in Hk. apply Z.eqb_eq in Hx. congruence.
  - inversion H; subst.
    assert (E1 : str_eqb m m = true) by (apply str_eqb_eq; reflexivity). rewrite E1.
    assert (E3 : sample_eqb b b = true) by (apply IH; reflexivity). rewrite E3.
    destruct w as [y|y|j y]; cbn [andb].
    + rewrite Z.eqb_refl. reflexivity.
    + assert (E2 : str_eqb y y = true) by (apply str_eqb_eq; reflexivity). rewrite E2. reflexivity.
    + rewrite !Z.eqb_refl. reflexivity.
Qed.

Lemma samples_eqb_eq : forall a b, samples_eqb a b = true <-> a = b.
Proof.
  induction a as [|x a IH]; intros [|y b]; cbn [samples_eqb]; split; intros H;
    try reflexivity; try discriminate.
  - apply andb_prop in H. destruct H as [H1 H2]. apply sample_eqb_eq in H1. apply IH in H2. congruence.
  - inversion H; subst.
    assert (E1 : sample_eqb y y = true) by (apply sample_eqb_eq; reflexivity). rewrite E1.
    apply IH. reflexivity.
Qed.
