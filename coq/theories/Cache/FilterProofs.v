(* C26 — proofs about the content-filter model (FilterModel.v). *)
From DustDDS Require Import Base.Machine Cache.FilterModel.
Open Scope Z_scope.

(* ------------------------------------------------------------------ evaluator vs. property *)
Lemma find_filter_spec_parts :
  forall expr name o n,
    spec_parts expr = Some (name, o, n) ->
    exists l r, find_filter expr = Some (l, r, o) /\ name = trim l /\ parse_index (trim r) = Some n.
Proof.
  intros expr name o n H. unfold spec_parts in H. unfold find_filter.
  destruct (split_once (op_text OpLe) expr) as [[l r]|] eqn:E1.
  - destruct (parse_index (trim r)) as [k|] eqn:Ek; [|discriminate].
    inversion H; subst. exists l, r. auto.
  - destruct (split_once (op_text OpEq) expr) as [[l r]|] eqn:E2; [|discriminate].
    destruct (parse_index (trim r)) as [k|] eqn:Ek; [|discriminate].
    inversion H; subst. exists l, r. auto.
Qed.

(* a string of digits does not start with '+' *)
Lemma digits_val_head :
  forall c t acc v, digits_val acc (c :: t) = Some v -> (c =? 43) = false.
Proof.
  intros c t acc v H. cbn [digits_val] in H. unfold digit in H.
  destruct ((48 <=? c) && (c <=? 57)) eqn:E; [|discriminate].
  apply andb_prop in E. destruct E as [E1 E2]. apply Z.leb_le in E1. apply Z.eqb_neq. lia.
Qed.

(* the code selects the parameter the expression names *)
Lemma param_of_spec :
  forall params r n, parse_index (trim r) = Some n -> param_of params r = nth_error params n.
Proof.
  intros params r n H. unfold param_of. unfold parse_index in H.
  destruct (trim r) as [|c ds]; [discriminate|].
  destruct (c =? 37); [|discriminate].
  destruct ds as [|d ds']; [discriminate|].
  destruct (digits_val 0 (d :: ds')) as [v|] eqn:Ev; [|discriminate].
  destruct (v <=? u64_max) eqn:Eb; [|discriminate].
  inversion H; subst n.
  unfold parse_usize. rewrite (digits_val_head _ _ _ _ Ev). rewrite Ev, Eb. reflexivity.
Qed.

(* THE evaluator theorem: for every supported expression, whatever parameter index it names *)
Lemma eval_code_eq_spec :
  forall f s b, spec_eval f s = Some b -> eval_code f s = Ok (of_bool b).
Proof.
  intros f s b He. unfold spec_eval in He. unfold eval_code.
  destruct (spec_parts (f_expr f)) as [[[name o] n]|] eqn:Ep; [|discriminate].
  destruct (find_filter_spec_parts _ _ _ _ Ep) as [l [r [Hf [Hn Hi]]]]. rewrite Hf. subst name.
  rewrite (param_of_spec _ _ _ Hi).
  destruct (lookup (trim l) s) as [[z|x|k v]|]; try discriminate.
  - destruct (nth_error (f_params f) n) as [pv|]; [|discriminate].
    destruct (parse_i32 pv); [|discriminate]. inversion He. reflexivity.
  - destruct (nth_error (f_params f) n) as [pv|]; [|discriminate].
    inversion He. reflexivity.
Qed.

(* whenever the property's evaluator is defined the index is within the parameters *)
Lemma spec_eval_index_in_range :
  forall f s b, spec_eval f s = Some b ->
    exists n, spec_index f = Some n /\ (n < length (f_params f))%nat.
Proof.
  intros f s b He. unfold spec_eval in He. unfold spec_index.
  destruct (spec_parts (f_expr f)) as [[[name o] n]|]; [|discriminate].
  exists n. split; [reflexivity|]. apply nth_error_Some.
  destruct (lookup name s) as [[z|x|k v]|]; try discriminate;
    destruct (nth_error (f_params f) n); try discriminate; discriminate.
Qed.

(* regression witness of the old parameter-index defect: `num = %1`, ["3";"9"], num = 9 passes *)
Definition w_num : str := [110; 117; 109].
Definition w_expr_eq1 : str := w_num ++ [32; 61; 32; 37; 49].   (* "num = %1" *)
Definition w_expr_le0 : str := w_num ++ [32; 60; 61; 32; 37; 48].   (* "num <= %0" *)
Definition w_sample (n : Z) : sample := [(w_num, VInt32 n)].

(* ------------------------------------------------------------------ the batch loop *)
Definition add_all (cs : list change) (st : reader_st) : reader_st :=
  fold_left (fun st c => add_reader_change c st) cs st.

Lemma decided_cases :
  forall flt c, decided flt c = true ->
    (classify flt c = Ok Pass /\ passes flt c = true) \/
    (classify flt c = Ok Fail /\ passes flt c = false).
Proof.
  intros flt c H. unfold decided in H. unfold passes.
  destruct (classify flt c) as [[| |]|e|p]; try discriminate; auto.
Qed.

Lemma loop_filter :
  forall flt b st, forallb (decided flt) b = true ->
    reader_loop flt b st = Ok (add_all (filter (passes flt) b) st).
Proof.
  intros flt b. induction b as [|c t IH]; intros st H; [reflexivity|].
  cbn [forallb] in H. apply andb_prop in H. destruct H as [Hc Ht].
  cbn [reader_loop filter].
  destruct (decided_cases _ _ Hc) as [[E P]|[E P]]; rewrite E, P.
  - rewrite IH by exact Ht. reflexivity.
  - rewrite IH by exact Ht. reflexivity.
Qed.

Lemma add_all_app : forall a b st, add_all (a ++ b) st = add_all b (add_all a st).
Proof. intros. unfold add_all. apply fold_left_app. Qed.

Lemma run_filter :
  forall flt groups st, forallb (forallb (decided flt)) groups = true ->
    run_reader flt groups st = Ok (add_all (filter (passes flt) (concat groups)) st).
Proof.
  intros flt groups. induction groups as [|g t IH]; intros st H; [reflexivity|].
  cbn [forallb] in H. apply andb_prop in H. destruct H as [Hg Ht].
  cbn [run_reader concat]. rewrite loop_filter by exact Hg. cbn [bind].
  rewrite IH by exact Ht. rewrite filter_app, add_all_app. reflexivity.
Qed.

(* what the reader presents after storing alive changes *)
Lemma presented_app : forall a b, presented (a ++ b) = presented a ++ presented b.
Proof.
  induction a as [|[s|k] t IH]; intros b; cbn [presented app]; [reflexivity| |apply IH].
  rewrite IH. reflexivity.
Qed.

Lemma presented_add_all :
  forall cs st, forallb ch_alive cs = true ->
    presented (r_samples (add_all cs st)) = presented (r_samples st) ++ map ch_data cs.
Proof.
  induction cs as [|c t IH]; intros st H.
  - cbn. rewrite app_nil_r. reflexivity.
  - cbn [forallb] in H. apply andb_prop in H. destruct H as [Hc Ht].
    unfold add_all in *. cbn [fold_left map]. rewrite IH by exact Ht.
    unfold add_reader_change. rewrite Hc. cbn [r_samples].
    rewrite presented_app. cbn [presented]. rewrite <- app_assoc. reflexivity.
Qed.

(* ------------------------------------------------------------------ domain plumbing *)
Definition in_domain (f : cft) (c : change) : bool := ch_alive c && spec_defined f c.

Lemma in_domain_classify :
  forall f c, in_domain f c = true -> classify (Some f) c = Ok (of_bool (spec_true f c)).
Proof.
  intros f c H. unfold in_domain in H. apply andb_prop in H. destruct H as [Ha Hd].
  unfold classify. rewrite Ha. unfold spec_defined in Hd. unfold spec_true.
  destruct (spec_eval f (ch_data c)) as [b|] eqn:E; [|discriminate].
  rewrite (eval_code_eq_spec _ _ _ E). destruct b; reflexivity.
Qed.

Lemma in_domain_decided :
  forall f c, in_domain f c = true -> decided (Some f) c = true.
Proof.
  intros f c H. unfold decided. rewrite (in_domain_classify _ _ H).
  destruct (spec_true f c); reflexivity.
Qed.

Lemma in_domain_passes :
  forall f c, in_domain f c = true -> passes (Some f) c = spec_true f c.
Proof.
  intros f c H. unfold passes. rewrite (in_domain_classify _ _ H).
  destruct (spec_true f c); reflexivity.
Qed.

Lemma forallb_impl :
  forall (A : Type) (p q : A -> bool) l,
    (forall x, p x = true -> q x = true) -> forallb p l = true -> forallb q l = true.
Proof.
  intros A p q l H. induction l as [|x t IH]; intros Hp; [reflexivity|].
  cbn [forallb] in *. apply andb_prop in Hp. destruct Hp as [Hx Ht].
  rewrite (H _ Hx), (IH Ht). reflexivity.
Qed.

Lemma filter_ext_forallb :
  forall (A : Type) (d p q : A -> bool) l,
    (forall x, d x = true -> p x = q x) -> forallb d l = true -> filter p l = filter q l.
Proof.
  intros A d p q l H. induction l as [|x t IH]; intros Hd; [reflexivity|].
  cbn [forallb] in Hd. apply andb_prop in Hd. destruct Hd as [Hx Ht].
  cbn [filter]. rewrite (H _ Hx), (IH Ht). reflexivity.
Qed.

Lemma forallb_concat :
  forall (A : Type) (p : A -> bool) ll, forallb (forallb p) ll = true -> forallb p (concat ll) = true.
Proof.
  intros A p ll. induction ll as [|l t IH]; intros H; [reflexivity|].
  cbn [forallb] in H. apply andb_prop in H. destruct H as [Hl Ht].
  cbn [concat]. rewrite forallb_app, Hl, (IH Ht). reflexivity.
Qed.

Lemma forallb_filter_sub :
  forall (A : Type) (p q : A -> bool) l, forallb p l = true -> forallb p (filter q l) = true.
Proof.
  intros A p q l. induction l as [|x t IH]; intros H; [reflexivity|].
  cbn [forallb] in H. apply andb_prop in H. destruct H as [Hx Ht].
  cbn [filter]. destruct (q x); cbn [forallb]; [rewrite Hx|]; apply IH; exact Ht.
Qed.

Lemma domain_ext :
  forall f groups,
    forallb (forallb (in_domain f)) groups = true ->
    forallb (forallb ch_alive) groups = true /\
    forallb (forallb (decided (Some f))) groups = true.
Proof.
  intros f groups H. split.
  - eapply forallb_impl; [|exact H]. intros g Hg. eapply forallb_impl; [|exact Hg].
    intros c Hc. unfold in_domain in Hc. apply andb_prop in Hc. tauto.
  - eapply forallb_impl; [|exact H]. intros g Hg. eapply forallb_impl; [|exact Hg].
    intros c Hc. apply in_domain_decided; assumption.
Qed.

(* ------------------------------------------------------------------ main theorems *)
(* THE PROPERTY: every supported filter (any parameter index), every list of samples, EVERY grouping *)
Theorem presented_eq_filter_batch :
  forall f groups,
    forallb (forallb (in_domain f)) groups = true ->
    exists st, run_reader (Some f) groups reader_init = Ok st /\
      presented (r_samples st) = map ch_data (filter (spec_true f) (concat groups)).
Proof.
  intros f groups Hd. destruct (domain_ext _ _ Hd) as [Ha Hdec].
  eexists. split; [apply run_filter; exact Hdec|].
  assert (Hal : forallb ch_alive (filter (passes (Some f)) (concat groups)) = true).
  { apply forallb_filter_sub. apply forallb_concat. exact Ha. }
  rewrite presented_add_all by exact Hal.
  cbn [reader_init r_samples presented app]. f_equal.
  eapply filter_ext_forallb; [|apply forallb_concat; exact Hd].
  intros c Hc. apply in_domain_passes; assumption.
Qed.

(* the grouping is irrelevant: any two groupings of the same samples present the same *)
Theorem grouping_irrelevant :
  forall f g1 g2,
    concat g1 = concat g2 ->
    forallb (forallb (in_domain f)) g1 = true ->
    forallb (forallb (in_domain f)) g2 = true ->
    exists s1 s2, run_reader (Some f) g1 reader_init = Ok s1 /\
                  run_reader (Some f) g2 reader_init = Ok s2 /\
                  presented (r_samples s1) = presented (r_samples s2).
Proof.
  intros f g1 g2 Hc H1 H2.
  destruct (presented_eq_filter_batch f g1 H1) as [s1 [R1 P1]].
  destruct (presented_eq_filter_batch f g2 H2) as [s2 [R2 P2]].
  exists s1, s2. repeat split; try assumption. rewrite P1, P2, Hc. reflexivity.
Qed.

(* regression witnesses of the two repaired defects *)
Definition w_flt : cft := mkCft w_expr_le0 [[53]].   (* num <= %0, ["5"] *)
Definition w_ch (n : Z) : change := mkCh true 1 (w_sample n).

(* a reader on the plain topic presents everything *)
Theorem plain_reader_presents_all :
  forall groups, forallb (forallb ch_alive) groups = true ->
    exists st, run_reader None groups reader_init = Ok st /\
      presented (r_samples st) = map ch_data (concat groups).
Proof.
  intros groups Ha.
  assert (Hdec : forallb (forallb (decided None)) groups = true).
  { eapply forallb_impl; [|exact Ha]. intros g Hg. eapply forallb_impl; [|exact Hg]. reflexivity. }
  eexists. split; [apply run_filter; exact Hdec|].
  assert (Hf : filter (passes None) (concat groups) = concat groups).
  { clear. induction (concat groups) as [|c t IH]; [reflexivity|].
    cbn [filter]. change (passes None c) with true. cbn iota. rewrite IH. reflexivity. }
  rewrite Hf. rewrite presented_add_all by (apply forallb_concat; exact Ha).
  reflexivity.
Qed.

(* the two oracles used by the correspondence file decide what they say *)
Lemma str_eqb_eq : forall a b, str_eqb a b = true <-> a = b.
Proof.
  induction a as [|x a IH]; intros [|y b]; cbn [str_eqb]; split; intros H;
    try reflexivity; try discriminate.
  - apply andb_prop in H. destruct H as [H1 H2]. apply Z.eqb_eq in H1. apply IH in H2. congruence.
  - inversion H; subst. rewrite Z.eqb_refl. cbn [andb]. apply IH. reflexivity.
Qed.

Lemma sample_eqb_eq : forall a b, sample_eqb a b = true <-> a = b.
Proof.
  induction a as [|[n v] a IH]; intros [|[m w] b]; cbn [sample_eqb]; split; intros H;
    try reflexivity; try discriminate.
  - apply andb_prop in H. destruct H as [H12 H3]. apply andb_prop in H12. destruct H12 as [H1 H2].
    apply str_eqb_eq in H1. apply IH in H3. subst.
    destruct v as [x|x|k x], w as [y|y|j y]; try discriminate.
    + apply Z.eqb_eq in H2. congruence.
    + apply str_eqb_eq in H2. congruence.
    + apply andb_prop in H2. destruct H2 as [Hk Hx].
      apply Z.eqb_eq in Hk. apply Z.eqb_eq in Hx. congruence.
  - inversion H; subst.
    assert (E1 : str_eqb m m = true) by (apply str_eqb_eq; reflexivity). rewrite E1.
    assert (E3 : sample_eqb b b = true) by (apply IH; reflexivity). rewrite E3.
    destruct w as [y|y|j y]; cbn [andb].
    + rewrite Z.eqb_refl. reflexivity.
    + assert (E2 : str_eqb y y = true) by (apply str_eqb_eq; reflexivity). rewrite E2. reflexivity.
    + rewrite !Z.eqb_refl. reflexivity.
Qed.

Lemma samples_eqb_eq : forall a b, samples_eqb a b = true <-> a = b.
Proof.
  induction a as [|x a IH]; intros [|y b]; cbn [samples_eqb]; split; intros H;
    try reflexivity; try discriminate.
  - apply andb_prop in H. destruct H as [H1 H2]. apply sample_eqb_eq in H1. apply IH in H2. congruence.
  - inversion H; subst.
    assert (E1 : sample_eqb y y = true) by (apply sample_eqb_eq; reflexivity). rewrite E1.
    apply IH. reflexivity.
Qed.
