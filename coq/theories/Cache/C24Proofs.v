(* C24: EXCLUSIVE ownership in the reader cache (the rule implemented in
   add_reader_change and remove_matched_publication; the deadline-based hand-over of
   discovery_methods.rs::check_missed_reader_deadline is outside the shared model).

   `entitled r w h` is the rule: writer w may write instance h when the instance has no
   owner, or w is the owner, or w is strictly stronger than the owner (both matched).
   - not entitled: NotAdded, cache and ownership table unchanged      (only_owner_stores)
   - entitled: ownership changes exactly when the change is STORED (fix 9c92a58): then w
     becomes the owner (alive change) or the ownership is released (dispose /
     unregister); with no other gate configured the change is Added
   - a change that is not stored never alters the ownership table (not_stored_owns_unchanged)
   - at most one owner per instance, in every reachable state          (one_owner_run)
   - unmatching the owner releases its instances                        (unmatch_releases)
   - witness of recorded class 1: a non-owner's unregister flips the instance state. *)
From DustDDS Require Import Base.Machine Cache.ReaderModel Cache.ReaderFacts Cache.C21Proofs
  Cache.C22Proofs Cache.C25Proofs.
Open Scope Z_scope.

Definition owner_of (r : reader) (h : Z) : option Z := option_map o_owner (find_own h (r_owns r)).
Definition strength_of (r : reader) (w : Z) : option Z := find_pub w (r_matched r).
Definition entitled (r : reader) (w h : Z) : bool :=
  match owner_of r h with
  | None => true
  | Some o =>
      match strength_of r o, strength_of r w with
      | Some so, Some sw => (o =? w) || (so <? sw)
      | _, _ => false
      end
  end.
Definition one_owner (r : reader) : Prop := NoDup (map o_inst (r_owns r)).
Definition owned_known (r : reader) : Prop :=
  forall h, owner_of r h <> None -> find_inst h (r_insts r) <> None.

(* ------------------------------------------------------------------ the ownership table *)
Lemma find_own_upd h h' f l :
  (forall o, o_inst (f o) = o_inst o) ->
  find_own h' (upd_own h f l) = if h' =? h then option_map f (find_own h l) else find_own h' l.
Proof.
  intros Hf. induction l as [|a t IH]; cbn [upd_own find_own].
  - destruct (h' =? h); reflexivity.
  - destruct (o_inst a =? h) eqn:E; cbn [find_own].
    + rewrite Hf. apply Z.eqb_eq in E. destruct (h' =? h) eqn:E2.
      * apply Z.eqb_eq in E2. subst h'. rewrite <- E, Z.eqb_refl. reflexivity.
      * apply Z.eqb_neq in E2. destruct (o_inst a =? h') eqn:E3; [|reflexivity].
        apply Z.eqb_eq in E3. lia.
    + destruct (o_inst a =? h') eqn:E3.
      * destruct (h' =? h) eqn:E2; [|reflexivity].
        apply Z.eqb_eq in E2, E3. apply Z.eqb_neq in E. lia.
      * exact IH.
Qed.

Lemma find_own_app h l x :
  find_own h (l ++ [x]) =
  match find_own h l with Some o => Some o | None => if o_inst x =? h then Some x else None end.
Proof.
  induction l as [|a t IH]; cbn [app find_own]; [reflexivity|].
  destruct (o_inst a =? h); [reflexivity|exact IH].
Qed.

Lemma map_inst_upd h f l :
  (forall o, o_inst (f o) = o_inst o) -> map o_inst (upd_own h f l) = map o_inst l.
Proof.
  intros Hf. induction l as [|a t IH]; cbn [upd_own map]; [reflexivity|].
  destruct (o_inst a =? h); cbn [map]; [now rewrite Hf|now rewrite IH].
Qed.

Lemma find_own_none h l : ~ In h (map o_inst l) -> find_own h l = None.
Proof.
  induction l as [|a t IH]; cbn [map find_own In]; [reflexivity|]. intros H.
  destruct (o_inst a =? h) eqn:E; [apply Z.eqb_eq in E; exfalso; auto|]. apply IH. auto.
Qed.

Lemma find_own_some_in h l o : find_own h l = Some o -> In o l /\ o_inst o = h.
Proof.
  induction l as [|a t IH]; cbn [find_own]; [discriminate|].
  destruct (o_inst a =? h) eqn:E.
  - intros H. injection H as <-. apply Z.eqb_eq in E. split; [now left|exact E].
  - intros H. destruct (IH H) as [I1 I2]. split; [now right|exact I2].
Qed.

Lemma find_own_remove h h' l :
  NoDup (map o_inst l) -> find_own h' (remove_own h l) = if h' =? h then None else find_own h' l.
Proof.
  induction l as [|a t IH]; cbn [map remove_own find_own]; intros ND.
  - destruct (h' =? h); reflexivity.
  - inversion ND as [|? ? Hn ND']; subst. destruct (o_inst a =? h) eqn:E.
    + apply Z.eqb_eq in E. destruct (h' =? h) eqn:E2.
      * apply Z.eqb_eq in E2. subst h'. apply find_own_none. now rewrite <- E.
      * apply Z.eqb_neq in E2. destruct (o_inst a =? h') eqn:E3; [|reflexivity].
        apply Z.eqb_eq in E3. lia.
    + cbn [find_own]. destruct (o_inst a =? h') eqn:E3.
      * destruct (h' =? h) eqn:E2; [|reflexivity].
        apply Z.eqb_eq in E2, E3. apply Z.eqb_neq in E. lia.
      * apply IH, ND'.
Qed.

Lemma remove_own_incl h l x : In x (map o_inst (remove_own h l)) -> In x (map o_inst l).
Proof.
  induction l as [|a t IH]; cbn [remove_own map]; [auto|].
  destruct (o_inst a =? h); cbn [map In]; [now right|]. intros [H|H]; [now left|right; auto].
Qed.

Lemma remove_own_nodup h l : NoDup (map o_inst l) -> NoDup (map o_inst (remove_own h l)).
Proof.
  induction l as [|a t IH]; cbn [remove_own map]; intros ND; [constructor|].
  inversion ND as [|? ? Hn ND']; subst. destruct (o_inst a =? h); [exact ND'|].
  cbn [map]. constructor; [|apply IH, ND']. intros H. apply Hn. eapply remove_own_incl, H.
Qed.

Lemma filter_incl_inst (p : own -> bool) l x : In x (map o_inst (filter p l)) -> In x (map o_inst l).
Proof.
  rewrite !in_map_iff. intros (o & E & Ho). apply filter_In in Ho. exists o. split; [exact E|apply Ho].
Qed.

Lemma filter_nodup (p : own -> bool) l : NoDup (map o_inst l) -> NoDup (map o_inst (filter p l)).
Proof.
  induction l as [|a t IH]; cbn [filter map]; intros ND; [constructor|].
  inversion ND as [|? ? Hn ND']; subst. destruct (p a); [|apply IH, ND'].
  cbn [map]. constructor; [|apply IH, ND']. intros H. apply Hn. eapply filter_incl_inst, H.
Qed.

Lemma find_own_filter (p : own -> bool) h l :
  NoDup (map o_inst l) ->
  find_own h (filter p l) =
  match find_own h l with Some o => if p o then Some o else None | None => None end.
Proof.
  induction l as [|a t IH]; cbn [filter map find_own]; intros ND; [reflexivity|].
  inversion ND as [|? ? Hn ND']; subst. destruct (o_inst a =? h) eqn:E.
  - destruct (p a); cbn [find_own]; [now rewrite E|].
    apply Z.eqb_eq in E. apply find_own_none. intros H. apply Hn. rewrite E. eapply filter_incl_inst, H.
  - destruct (p a); cbn [find_own]; [rewrite E|]; apply IH, ND'.
Qed.

Lemma nodup_snoc {A} (l : list A) x : NoDup l -> ~ In x l -> NoDup (l ++ [x]).
Proof.
  induction l as [|a t IH]; cbn [app]; intros ND Hn; [constructor; [intros []|constructor]|].
  inversion ND as [|? ? Ha ND']; subst. constructor.
  - intros H. apply in_app_or in H. destruct H as [H|[H|[]]]; [auto|]. subst. apply Hn. now left.
  - apply IH; [exact ND'|]. intros H. apply Hn. now right.
Qed.

(* ------------------------------------------------------------------ the gate *)
Lemma gate_spec r w h rts :
  q_excl (r_qos r) = true ->
  match ownership_gate r w h rts with
  | None => entitled r w h = false
  | Some owns2 =>
      entitled r w h = true /\
      (forall h', option_map o_owner (find_own h' owns2) = if h' =? h then Some w else owner_of r h') /\
      (one_owner r -> NoDup (map o_inst owns2))
  end.
Proof.
  intros He. unfold ownership_gate, entitled, owner_of, strength_of. rewrite He.
  destruct (find_own h (r_owns r)) as [o|] eqn:F; cbn [option_map].
  - destruct (find_pub (o_owner o) (r_matched r)) as [so|]; [|reflexivity].
    destruct (find_pub w (r_matched r)) as [sw|]; [|reflexivity].
    rewrite (Z.leb_antisym so sw). destruct (o_owner o =? w); cbn [negb andb orb].
    + split; [reflexivity|]. split.
      * intros h'. rewrite find_own_upd by reflexivity. destruct (h' =? h); [rewrite F|]; reflexivity.
      * unfold one_owner. now rewrite map_inst_upd by reflexivity.
    + destruct (so <? sw); cbn [negb]; [|reflexivity]. split; [reflexivity|]. split.
      * intros h'. rewrite find_own_upd by reflexivity. destruct (h' =? h); [rewrite F|]; reflexivity.
      * unfold one_owner. now rewrite map_inst_upd by reflexivity.
  - split; [reflexivity|]. split.
    + intros h'. rewrite find_own_app. cbn [o_inst]. rewrite (Z.eqb_sym h h').
      destruct (h' =? h) eqn:E.
      * apply Z.eqb_eq in E. subst h'. rewrite F. reflexivity.
      * destruct (find_own h' (r_owns r)); reflexivity.
    + unfold one_owner. intros ND. rewrite map_app. cbn [map o_inst].
      apply nodup_snoc; [exact ND|]. intros H.
      apply in_map_iff in H. destruct H as (o & E & Ho).
      assert (find_own h (r_owns r) <> None); [|contradiction].
      clear - E Ho. induction (r_owns r) as [|a t IH]; [destruct Ho|]. cbn [find_own].
      destruct (o_inst a =? h) eqn:E2; [discriminate|]. destruct Ho as [->|Ho]; [|auto].
      apply Z.eqb_neq in E2. contradiction.
Qed.

(* ------------------------------------------------------------------ add_change *)
(* the ownership table written back by a stored change: last_received_time refreshed *)
Definition owns_after_store (owns3 : list own) (w h : Z) (k : kind) (rts : Z) : list own :=
  match find_own h owns3 with
  | Some _ => upd_own h (fun x => if o_last x <? rts then mkO (o_inst x) (o_owner x) rts else x) owns3
  | None => if is_alive_kind k then owns3 ++ [mkO h w rts] else owns3
  end.

(* shape of add_change once the instance is known: refused by the ownership gate; or
   refused by the filter / the limits with the ownership table UNTOUCHED (fix 9c92a58);
   or stored, and only then the gate's table (minus the entry when the change is not
   alive) is written back.  (AddPanic: KEEP_LAST depth 0, excluded everywhere.) *)
Definition is_refusal (a : add_result) : Prop :=
  a = NotAdded \/ exists h reason, a = Rejected h reason.

Lemma add_change_shape r w data k h t rts l1 :
  touch_instance (r_insts r) h k = Some l1 ->
  match ownership_gate (set_insts r l1) w h rts with
  | None => add_change r w data k h t rts = (set_insts r l1, NotAdded)
  | Some owns2 =>
      let owns3 := if is_alive_kind k then owns2 else remove_own h owns2 in
      (fst (add_change r w data k h t rts) = set_insts r l1 /\
       is_refusal (snd (add_change r w data k h t rts))) \/
      (fst (add_change r w data k h t rts) = set_owns (set_insts r l1) owns3 /\
       snd (add_change r w data k h t rts) = AddPanic /\ q_depth (r_qos r) = Some 0) \/
      (exists samples6 insts5,
         fst (add_change r w data k h t rts) =
           mkR samples6 insts5 (owns_after_store owns3 w h k rts) (r_matched r) (r_qos r) /\
         snd (add_change r w data k h t rts) = Added)
  end.
Proof.
  intros T. destruct (touch_again _ _ _ _ T) as (l2 & T2 & _).
  unfold add_change. rewrite T, (touch_find _ _ _ _ h T), Z.eqb_refl.
  destruct (ownership_gate (set_insts r l1) w h rts) as [owns2|]; [|reflexivity].
  cbv zeta. cbn [r_insts set_insts set_owns]. rewrite T2. unfold owns_after_store, is_refusal.
  repeat (break_match; cbn [fst snd]);
    try (left; split; [reflexivity|]; first [left; reflexivity | right; eexists; eexists; reflexivity]);
    try (right; right; eexists; eexists; split; reflexivity).
  all: right; left; split; [reflexivity|split; [reflexivity|]].
  all: match goal with H : andb _ (Z.eqb _ 0) = true |- _ =>
         apply andb_true_iff in H; destruct H as [H1 H2]; destruct (q_depth (r_qos r)) as [d|];
         [apply Z.eqb_eq in H1, H2; congruence|discriminate] end.
Qed.

Lemma owns_after_store_spec owns3 w h k rts :
  (find_own h owns3 = None -> is_alive_kind k = false) ->
  map o_inst (owns_after_store owns3 w h k rts) = map o_inst owns3 /\
  forall h', option_map o_owner (find_own h' (owns_after_store owns3 w h k rts)) =
             option_map o_owner (find_own h' owns3).
Proof.
  intros Hn. unfold owns_after_store. destruct (find_own h owns3) as [o|] eqn:F.
  - assert (Hf : forall x : own, o_inst (if o_last x <? rts then mkO (o_inst x) (o_owner x) rts else x) = o_inst x)
      by (intros x; destruct (o_last x <? rts); reflexivity).
    split; [now apply map_inst_upd|]. intros h'. rewrite find_own_upd by exact Hf.
    destruct (h' =? h) eqn:E; [|reflexivity]. apply Z.eqb_eq in E. subst h'. rewrite F. cbn [option_map].
    destruct (o_last o <? rts); reflexivity.
  - rewrite (Hn eq_refl). split; reflexivity.
Qed.

(* the effect of add_change on ownership, EXCLUSIVE readers *)
Definition commits (a : add_result) : bool := match a with Added | AddPanic => true | _ => false end.

Lemma add_change_excl r w data k h t rts l1 :
  q_excl (r_qos r) = true -> one_owner r ->
  touch_instance (r_insts r) h k = Some l1 ->
  let r' := fst (add_change r w data k h t rts) in
  let a := snd (add_change r w data k h t rts) in
  if entitled r w h then
    a <> AddError /\ one_owner r' /\ (a = AddPanic -> q_depth (r_qos r) = Some 0) /\
    (if commits a
     then forall h', owner_of r' h' = if h' =? h then (if is_alive_kind k then Some w else None) else owner_of r h'
     else r_owns r' = r_owns r)
  else a = NotAdded /\ r_owns r' = r_owns r /\ r_samples r' = r_samples r.
Proof.
  intros He ND T. cbv zeta.
  pose proof (add_change_shape r w data k h t rts l1 T) as Sh.
  pose proof (gate_spec (set_insts r l1) w h rts He) as G.
  change (entitled (set_insts r l1) w h) with (entitled r w h) in G.
  destruct (ownership_gate (set_insts r l1) w h rts) as [owns2|].
  - destruct G as (G1 & G2 & G3). rewrite G1. specialize (G3 ND). cbv zeta in Sh.
    change (forall h', option_map o_owner (find_own h' owns2) = if h' =? h then Some w else owner_of r h') in G2.
    set (owns3 := if is_alive_kind k then owns2 else remove_own h owns2) in *.
    assert (N3 : NoDup (map o_inst owns3))
      by (unfold owns3; destruct (is_alive_kind k); [exact G3|now apply remove_own_nodup]).
    assert (O3 : forall h', option_map o_owner (find_own h' owns3) =
                            if h' =? h then (if is_alive_kind k then Some w else None) else owner_of r h').
    { intros h'. unfold owns3. destruct (is_alive_kind k); [apply G2|].
      rewrite find_own_remove by exact G3. destruct (h' =? h) eqn:E; [reflexivity|].
      rewrite G2, E. reflexivity. }
    destruct Sh as [(Sf & Sa) | [(Sf & Sa & Sd) | (s6 & i5 & Sf & Sa)]].
    + rewrite Sf. unfold one_owner. cbn [r_owns set_insts].
      destruct Sa as [Sa | (h0 & rs & Sa)]; rewrite Sa; cbn [commits];
        (split; [discriminate|split; [exact ND|split; [discriminate|reflexivity]]]).
    + rewrite Sf, Sa. cbn [commits]. unfold one_owner, owner_of. cbn [r_owns set_owns].
      split; [discriminate|]. split; [exact N3|]. split; [intros _; exact Sd|exact O3].
    + rewrite Sf, Sa. cbn [commits]. unfold one_owner, owner_of. cbn [r_owns].
      assert (Hn : find_own h owns3 = None -> is_alive_kind k = false).
      { intros F. specialize (O3 h). rewrite F, Z.eqb_refl in O3. cbn [option_map] in O3.
        destruct (is_alive_kind k); [discriminate|reflexivity]. }
      destruct (owns_after_store_spec owns3 w h k rts Hn) as [M1 M2].
      split; [discriminate|]. split; [now rewrite M1|]. split; [discriminate|].
      intros h'. rewrite M2. apply O3.
  - rewrite G, Sh. cbn [fst snd r_owns r_samples set_insts]. auto.
Qed.

(* the point of fix 9c92a58, for ALL qos and ALL reader states: a change that is not
   stored leaves the ownership table as it was *)
Theorem not_stored_owns_unchanged r w data k h t rts :
  q_depth (r_qos r) <> Some 0 ->
  snd (add_change r w data k h t rts) <> Added ->
  r_owns (fst (add_change r w data k h t rts)) = r_owns r.
Proof.
  intros Hd Ha. destruct (touch_instance (r_insts r) h k) as [l1|] eqn:T.
  - pose proof (add_change_shape r w data k h t rts l1 T) as Sh.
    destruct (ownership_gate (set_insts r l1) w h rts) as [owns2|].
    + cbv zeta in Sh. destruct Sh as [(Sf & _) | [(_ & _ & Sd) | (s6 & i5 & _ & Sa)]].
      * rewrite Sf. reflexivity.
      * contradiction.
      * contradiction.
    + rewrite Sh. reflexivity.
  - unfold add_change. rewrite T. reflexivity.
Qed.

Lemma add_change_unknown r w data k h t rts :
  touch_instance (r_insts r) h k = None -> add_change r w data k h t rts = (r, AddError).
Proof. intros T. unfold add_change. now rewrite T. Qed.

(* with no resource limit, minimum_separation 0 and depth <> 0 nothing but the
   ownership gate refuses a change *)
Definition no_other_gate (q : qos) : Prop :=
  q_ms q = None /\ q_mi q = None /\ q_mspi q = None /\ q_sep q = Some 0 /\ q_depth q <> Some 0.

Lemma of_interest_zero r h t : q_sep (r_qos r) = Some 0 -> of_interest r h t = true.
Proof.
  intros Hs. unfold of_interest. rewrite Hs.
  pose proof (closest_spec (r_samples r) h t) as C.
  destruct (closest_ts_before (r_samples r) h t) as [[prev|]|]; try reflexivity.
  destruct t as [st|]; [|reflexivity]. destruct C as (C1 & _). cbn in C1. apply Z.leb_le in C1.
  apply Z.leb_le. lia.
Qed.

Lemma add_change_free r w data k h t rts l1 owns2 :
  no_other_gate (r_qos r) ->
  touch_instance (r_insts r) h k = Some l1 ->
  ownership_gate (set_insts r l1) w h rts = Some owns2 ->
  snd (add_change r w data k h t rts) = Added.
Proof.
  intros (Hms & Hmi & Hmspi & Hsep & Hd) T G.
  destruct (touch_again _ _ _ _ T) as (l2 & T2 & _).
  unfold add_change. rewrite T, (touch_find _ _ _ _ h T), Z.eqb_refl, G. cbv zeta.
  rewrite of_interest_zero by exact Hsep. cbn [negb].
  cbn [r_samples r_insts set_owns set_insts]. rewrite Hms, Hmi, Hmspi, T2. cbn [len_eq].
  rewrite !andb_false_r.
  destruct (existsb (Z.eqb h) (distinct_insts (r_samples r) [])).
  all: destruct (q_depth (r_qos r)) as [d|] eqn:Ed; cbn [andb].
  all: try (destruct (d =? count (alive_of_inst h) (r_samples r)) eqn:E1; cbn [andb];
            [destruct (count (alive_of_inst h) (r_samples r) =? 0) eqn:E2;
             [exfalso; apply Hd; apply Z.eqb_eq in E1, E2; congruence|]|]).
  all: reflexivity.
Qed.

(* ------------------------------------------------------------------ other operations *)
Lemma collect_owns r max m hsel take :
  r_owns (fst (collect r max m hsel take)) = r_owns r /\
  r_matched (fst (collect r max m hsel take)) = r_matched r.
Proof. unfold collect. repeat (break_match; cbn [fst r_owns r_matched]); auto. Qed.

Lemma next_loop_owns fuel : forall r max m prev take,
  r_owns (fst (next_loop fuel r max m prev take)) = r_owns r /\
  r_matched (fst (next_loop fuel r max m prev take)) = r_matched r.
Proof.
  induction fuel as [|f IH]; intros; cbn [next_loop]; [auto|].
  destruct (next_instance r prev) as [h|]; [|auto].
  pose proof (collect_owns r max m (Some h) take) as C.
  destruct (collect r max m (Some h) take) as [r' c]. cbn [fst] in C.
  destruct c; try exact C. apply IH.
Qed.

Lemma remove_matched_owner r w h :
  one_owner r -> strength_of r w <> None ->
  owner_of (remove_matched r w) h =
  match owner_of r h with Some o => if o =? w then None else Some o | None => None end.
Proof.
  intros ND Hm. unfold strength_of in Hm. unfold remove_matched, owner_of.
  destruct (find_pub w (r_matched r)); [|contradiction]. cbn [r_owns].
  rewrite find_own_filter by exact ND. destruct (find_own h (r_owns r)) as [o|]; [|reflexivity].
  cbn [option_map]. destruct (o_owner o =? w); reflexivity.
Qed.

(* ------------------------------------------------------------------ invariants over histories *)
Definition excl_inv (r : reader) : Prop := q_excl (r_qos r) = true /\ one_owner r /\ owned_known r.

Lemma step_excl_inv r o : excl_inv r -> excl_inv (fst (step r o)).
Proof.
  intros (He & ND & OK). split; [now rewrite step_qos|].
  destruct o; cbn [step].
  - pose proof (add_change_insts r w data k h t rts) as HI.
    destruct (touch_instance (r_insts r) h k) as [l1|] eqn:T.
    + pose proof (add_change_excl r w data k h t rts l1 He ND T) as H. cbv zeta in H.
      destruct HI as [HI _].
      destruct (add_change r w data k h t rts) as [r' a]. cbn [fst snd] in *.
      assert (Known : forall h', find_inst h' (r_insts r) <> None \/ h' = h -> find_inst h' (r_insts r') <> None).
      { intros h' Hk. rewrite HI, (touch_find _ _ _ _ h' T). destruct (h' =? h) eqn:E; [discriminate|].
        destruct Hk as [Hk|Hk]; [exact Hk|]. apply Z.eqb_neq in E. contradiction. }
      destruct (entitled r w h).
      * destruct H as (_ & H1 & _ & H2). split; [exact H1|]. intros h' Ho. apply Known.
        destruct (commits a).
        -- rewrite H2 in Ho. destruct (h' =? h) eqn:E; [right; now apply Z.eqb_eq|left; now apply OK].
        -- left. apply OK. unfold owner_of in *. now rewrite <- H2.
      * destruct H as (_ & H1 & _). unfold one_owner, owned_known, owner_of. rewrite H1.
        split; [exact ND|]. intros h' Ho. apply Known. left. now apply OK.
    + rewrite HI. cbn [fst]. split; assumption.
  - pose proof (collect_owns r max m hsel false) as [C _].
    pose proof (collect_find_inst r max m hsel false) as F.
    destruct (collect r max m hsel false) as [r' c]. cbn [fst snd] in *.
    unfold one_owner, owned_known, owner_of. rewrite C. split; [exact ND|]. intros h Ho. rewrite F.
    specialize (OK h Ho). destruct (find_inst h (r_insts r)); [discriminate|contradiction].
  - pose proof (collect_owns r max m hsel true) as [C _].
    pose proof (collect_find_inst r max m hsel true) as F.
    destruct (collect r max m hsel true) as [r' c]. cbn [fst snd] in *.
    unfold one_owner, owned_known, owner_of. rewrite C. split; [exact ND|]. intros h Ho. rewrite F.
    specialize (OK h Ho). destruct (find_inst h (r_insts r)); [discriminate|contradiction].
  - unfold next_instance_op.
    pose proof (next_loop_owns (S (length (r_insts r))) r max m prev false) as [C _].
    pose proof (next_loop_find_inst (S (length (r_insts r))) r max m prev false) as F.
    destruct (next_loop _ r max m prev false) as [r' c]. cbn [fst snd] in *.
    unfold one_owner, owned_known, owner_of. rewrite C. split; [exact ND|]. intros h Ho. rewrite F.
    specialize (OK h Ho). destruct (find_inst h (r_insts r)); [discriminate|contradiction].
  - unfold next_instance_op.
    pose proof (next_loop_owns (S (length (r_insts r))) r max m prev true) as [C _].
    pose proof (next_loop_find_inst (S (length (r_insts r))) r max m prev true) as F.
    destruct (next_loop _ r max m prev true) as [r' c]. cbn [fst snd] in *.
    unfold one_owner, owned_known, owner_of. rewrite C. split; [exact ND|]. intros h Ho. rewrite F.
    specialize (OK h Ho). destruct (find_inst h (r_insts r)); [discriminate|contradiction].
  - cbn [fst]. unfold add_matched. destruct (upd_pub w s (r_matched r)); split; assumption.
  - cbn [fst]. unfold remove_matched. destruct (find_pub w (r_matched r)) eqn:Fp; [|split; assumption].
    unfold one_owner, owned_known, owner_of. cbn [r_owns r_insts]. split; [now apply filter_nodup|].
    intros h Ho. apply OK. unfold owner_of. rewrite find_own_filter in Ho by exact ND.
    destruct (find_own h (r_owns r)); [discriminate|exact Ho].
Qed.

Theorem excl_inv_run q ops : q_excl q = true -> excl_inv (run q ops).
Proof.
  intros He. unfold run. change (fst (run_obs (init_reader q) ops)) with (run_from (init_reader q) ops).
  apply run_from_inv; [exact step_excl_inv|]. split; [exact He|]. split; [constructor|].
  intros h Ho. exfalso. apply Ho. reflexivity.
Qed.

Theorem not_stored_owns_unchanged_run q ops w data k h t rts :
  q_depth q <> Some 0 ->
  snd (add_change (run q ops) w data k h t rts) <> Added ->
  r_owns (fst (add_change (run q ops) w data k h t rts)) = r_owns (run q ops).
Proof. intros Hd. apply not_stored_owns_unchanged. now rewrite run_qos. Qed.

(* ------------------------------------------------------------------ the theorems *)
Section History.
  Variable q : qos.
  Variable ops : list op.
  Hypothesis Hexcl : q_excl q = true.
  Let r := run q ops.

  (* at most one owner per instance *)
  Theorem one_owner_run : NoDup (map o_inst (r_owns r)).
  Proof. apply (excl_inv_run q ops Hexcl). Qed.

  Lemma touch_known h k : find_inst h (r_insts r) <> None -> exists l1, touch_instance (r_insts r) h k = Some l1.
  Proof. unfold touch_instance. destruct (find_inst h (r_insts r)); [eexists; reflexivity|contradiction]. Qed.

  (* a change from a writer that is not entitled is NotAdded; cache and ownership unchanged *)
  Theorem not_entitled_not_stored w data k h t rts :
    entitled r w h = false ->
    snd (add_change r w data k h t rts) = NotAdded /\
    r_samples (fst (add_change r w data k h t rts)) = r_samples r /\
    r_owns (fst (add_change r w data k h t rts)) = r_owns r.
  Proof.
    intros E. destruct (excl_inv_run q ops Hexcl) as (He & ND & OK). fold r in He, ND, OK.
    assert (Ho : owner_of r h <> None) by (unfold entitled in E; destruct (owner_of r h); [discriminate|discriminate]).
    destruct (touch_known h k (OK h Ho)) as [l1 T].
    pose proof (add_change_excl r w data k h t rts l1 He ND T) as H. cbv zeta in H. rewrite E in H.
    destruct H as (H1 & H2 & H3). auto.
  Qed.

  Theorem only_owner_stores w data k h t rts o so sw :
    owner_of r h = Some o -> o <> w ->
    strength_of r o = Some so -> strength_of r w = Some sw -> sw <= so ->
    snd (add_change r w data k h t rts) = NotAdded /\
    r_samples (fst (add_change r w data k h t rts)) = r_samples r /\
    r_owns (fst (add_change r w data k h t rts)) = r_owns r.
  Proof.
    intros Ho Hne Hso Hsw Hle. apply not_entitled_not_stored. unfold entitled. rewrite Ho, Hso, Hsw.
    apply orb_false_iff. split; [now apply Z.eqb_neq|apply Z.ltb_ge; exact Hle].
  Qed.

  (* ownership changes only through STORED changes: for every writer, every change *)
  Theorem not_stored_owner_unchanged w data k h t rts :
    q_depth q <> Some 0 ->
    snd (add_change r w data k h t rts) <> Added ->
    r_owns (fst (add_change r w data k h t rts)) = r_owns r /\
    forall h', owner_of (fst (add_change r w data k h t rts)) h' = owner_of r h'.
  Proof.
    intros Hd Ha. assert (Hd' : q_depth (r_qos r) <> Some 0) by (unfold r; now rewrite run_qos).
    pose proof (not_stored_owns_unchanged r w data k h t rts Hd' Ha) as H.
    split; [exact H|]. intros h'. unfold owner_of. now rewrite H.
  Qed.

  (* a change from an entitled writer alters ownership exactly when it is stored: then the
     writer becomes the owner (alive change) or the ownership is released (dispose /
     unregister), and no other instance is affected *)
  Theorem entitled_effect w data k h t rts :
    entitled r w h = true -> (is_alive_kind k = true \/ find_inst h (r_insts r) <> None) ->
    let r' := fst (add_change r w data k h t rts) in
    let a := snd (add_change r w data k h t rts) in
    a <> AddError /\
    (a = Added ->
     forall h', owner_of r' h' = if h' =? h then (if is_alive_kind k then Some w else None) else owner_of r h') /\
    (a <> Added -> q_depth q <> Some 0 -> forall h', owner_of r' h' = owner_of r h') /\
    (no_other_gate q -> a = Added).
  Proof.
    intros E Hk. cbv zeta. destruct (excl_inv_run q ops Hexcl) as (He & ND & OK). fold r in He, ND, OK.
    assert (HT : exists l1, touch_instance (r_insts r) h k = Some l1).
    { destruct Hk as [Hk|Hk]; [|now apply touch_known]. unfold touch_instance.
      destruct (find_inst h (r_insts r)); [eexists; reflexivity|]. rewrite Hk. eexists; reflexivity. }
    destruct HT as [l1 T].
    pose proof (add_change_excl r w data k h t rts l1 He ND T) as H. cbv zeta in H. rewrite E in H.
    destruct H as (H1 & _ & _ & H3). split; [exact H1|]. split; [|split].
    - intros Ha. rewrite Ha in H3. exact H3.
    - intros Ha Hd. apply not_stored_owner_unchanged; assumption.
    - intros NG. pose proof (gate_spec (set_insts r l1) w h rts He) as G.
      change (entitled (set_insts r l1) w h) with (entitled r w h) in G.
      destruct (ownership_gate (set_insts r l1) w h rts) as [owns2|] eqn:Eg; [|congruence].
      eapply add_change_free; [|exact T|exact Eg]. unfold r. now rewrite run_qos.
  Qed.

  Theorem strongest_wins w data k h t rts o so sw :
    owner_of r h = Some o -> strength_of r o = Some so -> strength_of r w = Some sw -> so < sw ->
    is_alive_kind k = true ->
    let r' := fst (add_change r w data k h t rts) in
    let a := snd (add_change r w data k h t rts) in
    (a = Added -> owner_of r' h = Some w /\ forall h', h' <> h -> owner_of r' h' = owner_of r h') /\
    (a <> Added -> q_depth q <> Some 0 -> forall h', owner_of r' h' = owner_of r h') /\
    (no_other_gate q -> a = Added).
  Proof.
    intros Ho Hso Hsw Hlt Hk. cbv zeta.
    assert (E : entitled r w h = true).
    { unfold entitled. rewrite Ho, Hso, Hsw. apply orb_true_iff. right. now apply Z.ltb_lt. }
    destruct (entitled_effect w data k h t rts E (or_introl Hk)) as (_ & H2 & H3 & H4).
    split; [|split; [exact H3|exact H4]]. intros Ha. specialize (H2 Ha). split.
    - rewrite H2, Z.eqb_refl, Hk. reflexivity.
    - intros h' Hne. rewrite H2. apply Z.eqb_neq in Hne. now rewrite Hne.
  Qed.

  (* equal strengths: the current owner keeps the instance *)
  Theorem tie_is_stable w data k h t rts o s :
    owner_of r h = Some o -> o <> w -> strength_of r o = Some s -> strength_of r w = Some s ->
    snd (add_change r w data k h t rts) = NotAdded /\
    owner_of (fst (add_change r w data k h t rts)) h = Some o /\
    entitled r o h = true.
  Proof.
    intros Ho Hne Hso Hsw.
    destruct (only_owner_stores w data k h t rts o s s Ho Hne Hso Hsw (Z.le_refl s)) as (H1 & _ & H3).
    split; [exact H1|]. split; [unfold owner_of in *; now rewrite H3|].
    unfold entitled. rewrite Ho, Hso, Z.eqb_refl. reflexivity.
  Qed.

  (* every stored change was written by a writer entitled to the instance; afterwards it is
     the owner (alive change) or the instance has no owner (dispose / unregister), so any
     writer is entitled next *)
  Theorem stored_by_owner w data k h t rts :
    snd (add_change r w data k h t rts) = Added ->
    let r' := fst (add_change r w data k h t rts) in
    entitled r w h = true /\
    owner_of r' h = (if is_alive_kind k then Some w else None) /\
    (is_alive_kind k = false -> forall w', entitled r' w' h = true).
  Proof.
    intros Ha. cbv zeta. destruct (excl_inv_run q ops Hexcl) as (He & ND & OK). fold r in He, ND, OK.
    destruct (touch_instance (r_insts r) h k) as [l1|] eqn:T;
      [|rewrite (add_change_unknown _ _ _ _ _ _ _ T) in Ha; discriminate].
    pose proof (add_change_excl r w data k h t rts l1 He ND T) as H. cbv zeta in H.
    destruct (entitled r w h); [|destruct H as (H & _); congruence].
    destruct H as (_ & _ & _ & H3). rewrite Ha in H3. cbn [commits] in H3. split; [reflexivity|].
    assert (Ho : owner_of (fst (add_change r w data k h t rts)) h = if is_alive_kind k then Some w else None)
      by (rewrite H3, Z.eqb_refl; reflexivity).
    split; [exact Ho|]. intros Hk w'. unfold entitled. rewrite Ho, Hk. reflexivity.
  Qed.

  (* unmatching the owner releases its instances and nobody else's *)
  Theorem unmatch_releases w h :
    strength_of r w <> None ->
    owner_of (remove_matched r w) h =
      match owner_of r h with Some o => if o =? w then None else Some o | None => None end /\
    (owner_of r h = Some w -> forall w', entitled (remove_matched r w) w' h = true).
  Proof.
    intros Hm. destruct (excl_inv_run q ops Hexcl) as (_ & ND & _). fold r in ND.
    pose proof (remove_matched_owner r w h ND Hm) as H. split; [exact H|].
    intros Ho w'. unfold entitled. rewrite H, Ho, Z.eqb_refl. reflexivity.
  Qed.
End History.

(* ------------------------------------------------------------------ witness, class 1 *)
Definition wq : qos := mkQ false None None None None true (Some 0).
Definition w_ops : list op := [OpMatch 1 5; OpMatch 2 0; OpAdd 1 1 KAlive (Some 12) 101 20].

(* writer 2 (strength 0) unregisters the instance owned by writer 1 (strength 5): the
   change is NotAdded, the cache and the owner are unchanged, but the instance state
   becomes NOT_ALIVE_NO_WRITERS *)
Lemma class1_witness :
  let r := run wq w_ops in
  let r' := fst (add_change r 2 103 KUnregistered 1 (Some 28) 27) in
  owner_of r 1 = Some 1 /\ entitled r 2 1 = false /\
  snd (add_change r 2 103 KUnregistered 1 (Some 28) 27) = NotAdded /\
  r_samples r' = r_samples r /\ owner_of r' 1 = Some 1 /\
  i_state (inst_or_new (r_insts r) 1) = IAlive /\
  i_state (inst_or_new (r_insts r') 1) = INoWriters.
Proof. vm_compute. repeat split; reflexivity. Qed.

(* non-vacuity: stronger writer takes over, weaker one is refused, owner's dispose
   releases, then the weak writer is accepted *)
Definition nv_ops : list op :=
  [OpMatch 1 5; OpMatch 2 7; OpMatch 3 5; OpAdd 1 1 KAlive (Some 10) 100 10; OpAdd 3 1 KAlive (Some 11) 101 11;
   OpAdd 2 1 KAlive (Some 12) 102 12; OpAdd 1 1 KAlive (Some 13) 103 13; OpAdd 2 1 KDisposed (Some 14) 104 14;
   OpAdd 3 1 KAlive (Some 15) 105 15; OpUnmatch 3; OpAdd 1 1 KAlive (Some 16) 106 16].
Lemma nonvacuous :
  no_other_gate wq /\
  snd (run_obs (init_reader wq) nv_ops) =
    [ObsUnit; ObsUnit; ObsUnit; ObsAdd Added; ObsAdd NotAdded; ObsAdd Added; ObsAdd NotAdded; ObsAdd Added;
     ObsAdd Added; ObsUnit; ObsAdd Added] /\
  map s_writer (r_samples (run wq nv_ops)) = [1; 2; 2; 3; 1] /\
  owner_of (run wq nv_ops) 1 = Some 1.
Proof.
  split; [unfold no_other_gate, wq; cbn; repeat split; discriminate|].
  vm_compute. repeat split; reflexivity.
Qed.

(* replay of the case that exposed the defect repaired by 9c92a58 (replays/C24-a01b301e15):
   max_samples_per_instance 1; the owner's (writer 3, strength 5) dispose is Rejected, so
   it stays the owner and the samples of writer 2 (strength 1) are NotAdded, also after
   the owner's sample was taken *)
Definition fx_q : qos := mkQ true None (Some 2) (Some 2) (Some 1) true (Some 0).
Definition fx_ops : list op :=
  [OpMatch 1 2; OpMatch 2 1; OpMatch 3 5; OpAdd 3 1 KAlive (Some 11) 101 13;
   OpAdd 3 1 KDisposed (Some 23) 102 16; OpAdd 2 1 KAlive (Some 30) 103 18;
   OpTake 2147483647 (mkM true true true true true true true) (Some 1);
   OpAdd 2 1 KAlive (Some 5) 104 18].
Lemma fix_replay :
  map (fun x => match x with ObsAdd a => Some a | _ => None end) (snd (run_obs (init_reader fx_q) fx_ops)) =
    [None; None; None; Some Added; Some (Rejected 1 3); Some NotAdded; None; Some NotAdded] /\
  owner_of (run fx_q fx_ops) 1 = Some 3 /\ r_samples (run fx_q fx_ops) = [].
Proof. vm_compute. repeat split; reflexivity. Qed.
