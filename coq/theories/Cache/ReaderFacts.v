(* Structural facts about the reader model shared by the C18..C25 proofs:
   which parts of the state each operation can change. *)
From Coq Require Import Sorting.Sorted.
From DustDDS Require Import Base.Machine Cache.ReaderModel.
Open Scope Z_scope.

Ltac break_match :=
  match goal with
  | |- context [match ?x with _ => _ end] =>
      match type of x with
      | sumbool _ _ => destruct x
      | _ => let E := fresh "E" in destruct x eqn:E
      end
  end.

(* the sample that add_change stores *)
Definition stored_sample (r : reader) (w data : Z) (k : kind) (h : Z) (t : ts) : list inst -> option sample :=
  fun insts1 => match find_inst h insts1 with
                | Some i => Some (mkS k w h t data SNotRead (i_dgc i) (i_nwgc i))
                | None => None end.

(* Shape of the sample list after add_change: unchanged, or the new sample put
   into (the list, possibly minus the first alive sample of the instance). *)
Lemma add_change_samples r w data k h t rts :
  let r' := fst (add_change r w data k h t rts) in
  r_samples r' = r_samples r \/
  exists smp base,
    s_ts smp = t /\ s_inst smp = h /\ s_kind smp = k /\ s_data smp = data /\ s_writer smp = w /\
    s_ss smp = SNotRead /\
    (base = r_samples r \/ base = remove_first (alive_of_inst h) (r_samples r)) /\
    r_samples r' = (if q_bysrc (r_qos r) then insert_before (fun x => ts_ltb t (s_ts x)) smp base
                    else base ++ [smp]) /\
    snd (add_change r w data k h t rts) = Added.
Proof.
  cbv zeta. unfold add_change.
  repeat (break_match; cbn [fst snd r_samples r_qos set_insts set_owns set_samples];
          try (left; reflexivity)).
  all: right; eexists; eexists; repeat split; try reflexivity; cbn [s_ts s_inst s_kind s_data s_writer s_ss];
       try reflexivity; auto.
Qed.

Lemma add_change_added_iff r w data k h t rts :
  snd (add_change r w data k h t rts) <> Added ->
  r_samples (fst (add_change r w data k h t rts)) = r_samples r.
Proof.
  unfold add_change.
  repeat (break_match; cbn [fst snd r_samples r_qos set_insts set_owns set_samples]; try reflexivity).
  all: intros H; exfalso; apply H; reflexivity.
Qed.

Lemma add_change_qos r w data k h t rts : r_qos (fst (add_change r w data k h t rts)) = r_qos r.
Proof.
  unfold add_change.
  repeat (break_match; cbn [fst r_qos set_insts set_owns set_samples]; try reflexivity).
Qed.

Lemma add_change_matched r w data k h t rts : r_matched (fst (add_change r w data k h t rts)) = r_matched r.
Proof.
  unfold add_change.
  repeat (break_match; cbn [fst r_matched set_insts set_owns set_samples]; try reflexivity).
Qed.

Lemma collect_qos r max m hsel take : r_qos (fst (collect r max m hsel take)) = r_qos r.
Proof.
  unfold collect. repeat (break_match; cbn [fst r_qos]; try reflexivity).
Qed.

Lemma next_loop_qos fuel : forall r max m prev take, r_qos (fst (next_loop fuel r max m prev take)) = r_qos r.
Proof.
  induction fuel as [|f IH]; intros; cbn [next_loop]; [reflexivity|].
  destruct (next_instance r prev) as [h|]; [|reflexivity].
  destruct (collect r max m (Some h) take) as [r' c] eqn:E.
  destruct c; try (rewrite IH; reflexivity);
    try (change r' with (fst (r', CollOk l)); rewrite <- E; apply collect_qos);
    try (replace r' with (fst (collect r max m (Some h) take)) by (rewrite E; reflexivity); apply collect_qos).
Qed.

Lemma step_qos r o : r_qos (fst (step r o)) = r_qos r.
Proof.
  destruct o; cbn [step].
  - destruct (add_change r w data k h t rts) as [r' a] eqn:E. cbn [fst].
    replace r' with (fst (add_change r w data k h t rts)) by (rewrite E; reflexivity). apply add_change_qos.
  - destruct (collect r max m hsel false) as [r' c] eqn:E. cbn [fst].
    replace r' with (fst (collect r max m hsel false)) by (rewrite E; reflexivity). apply collect_qos.
  - destruct (collect r max m hsel true) as [r' c] eqn:E. cbn [fst].
    replace r' with (fst (collect r max m hsel true)) by (rewrite E; reflexivity). apply collect_qos.
  - unfold next_instance_op. destruct (next_loop _ r max m prev false) as [r' c] eqn:E. cbn [fst].
    replace r' with (fst (next_loop (S (length (r_insts r))) r max m prev false)) by (rewrite E; reflexivity).
    apply next_loop_qos.
  - unfold next_instance_op. destruct (next_loop _ r max m prev true) as [r' c] eqn:E. cbn [fst].
    replace r' with (fst (next_loop (S (length (r_insts r))) r max m prev true)) by (rewrite E; reflexivity).
    apply next_loop_qos.
  - unfold add_matched. destruct (upd_pub w s (r_matched r)); reflexivity.
  - unfold remove_matched. destruct (find_pub w (r_matched r)); reflexivity.
Qed.

(* run_obs as a fold: the state after ops *)
Lemma run_from_cons r o ops : run_from r (o :: ops) = run_from (fst (step r o)) ops.
Proof.
  unfold run_from. cbn [run_obs]. destruct (step r o) as [r1 x]. cbn [fst].
  destruct (run_obs r1 ops) as [r2 xs]. reflexivity.
Qed.

Lemma run_from_inv (P : reader -> Prop) :
  (forall r o, P r -> P (fst (step r o))) -> forall ops r, P r -> P (run_from r ops).
Proof.
  intros Hstep ops. induction ops as [|o ops IH]; intros r Hr.
  - exact Hr.
  - rewrite run_from_cons. apply IH, Hstep, Hr.
Qed.

Lemma run_qos q ops : r_qos (run q ops) = q.
Proof.
  unfold run. change (fst (run_obs (init_reader q) ops)) with (run_from (init_reader q) ops).
  apply (run_from_inv (fun r => r_qos r = q)); [|reflexivity].
  intros r o H. now rewrite step_qos.
Qed.

(* samples kept by the read/take loop: a thinned copy of the input where each
   element is the original or its mark_read image *)
Inductive thinned : list sample -> list sample -> Prop :=
| th_nil : thinned [] []
| th_keep s k l : thinned k l -> thinned (s :: k) (s :: l)
| th_mark s k l : thinned k l -> thinned (mark_read s :: k) (s :: l)
| th_drop s k l : thinned k l -> thinned k (s :: l).

Lemma thinned_refl l : thinned l l.
Proof. induction l; constructor; assumption. Qed.

Lemma collect_loop_thinned r m hsel max take : forall l n,
  thinned (fst (collect_loop r m hsel max take l n)) l.
Proof.
  induction l as [|s t IH]; intros n; cbn [collect_loop]; [constructor|].
  destruct (n =? max); [apply thinned_refl|].
  destruct (selected r m hsel s) as [i|].
  - specialize (IH (n + 1)). destruct (collect_loop r m hsel max take t (n + 1)) as [k c]. cbn [fst] in *.
    destruct take; [apply th_drop | apply th_mark]; exact IH.
  - specialize (IH n). destruct (collect_loop r m hsel max take t n) as [k c]. cbn [fst] in *.
    apply th_keep; exact IH.
Qed.

Lemma collect_samples_thinned r max m hsel take :
  thinned (r_samples (fst (collect r max m hsel take))) (r_samples r).
Proof.
  unfold collect. break_match; [apply thinned_refl|].
  pose proof (collect_loop_thinned r m hsel max take (r_samples r) 0) as H.
  destruct (collect_loop r m hsel max take (r_samples r) 0) as [kept c]. cbn [fst] in H.
  destruct c; cbn [fst r_samples]; exact H.
Qed.

Lemma next_loop_samples_thinned fuel : forall r max m prev take,
  thinned (r_samples (fst (next_loop fuel r max m prev take))) (r_samples r).
Proof.
  induction fuel as [|f IH]; intros; cbn [next_loop]; [apply thinned_refl|].
  destruct (next_instance r prev) as [h|]; [|apply thinned_refl].
  pose proof (collect_samples_thinned r max m (Some h) take) as H.
  destruct (collect r max m (Some h) take) as [r' c]. cbn [fst] in H.
  destruct c; try exact H. apply IH.
Qed.
