(* C18: KEEP_LAST keeps the newest samples and never rejects for depth; KEEP_ALL keeps
   everything until taken.  Also the exact case analysis of add_change shared with C19. *)
From DustDDS Require Import Base.Machine Cache.ReaderModel Cache.ReaderFacts Cache.ReaderCorr Cache.LimitsDefs.
Open Scope Z_scope.

Lemma find_upd_inst h f : forall l i, (forall x, i_handle (f x) = i_handle x) ->
  find_inst h l = Some i -> exists j, find_inst h (upd_inst h f l) = Some j.
Proof.
  induction l as [|x l IH]; intros i Hf H; cbn [find_inst upd_inst] in *; [discriminate|].
  destruct (i_handle x =? h) eqn:E.
  - cbn [find_inst]. rewrite Hf, E. eauto.
  - cbn [find_inst]. rewrite E. eapply IH; eauto.
Qed.
Lemma find_inst_app_new h l x : find_inst h l = None -> i_handle x = h -> find_inst h (l ++ [x]) = Some x.
Proof.
  induction l as [|y l IH]; intros H Hx; cbn [find_inst app] in *.
  - rewrite Hx, Z.eqb_refl. reflexivity.
  - destruct (i_handle y =? h); [discriminate|auto].
Qed.
Lemma update_state_handle i k : i_handle (update_state i k) = i_handle i.
Proof. unfold update_state. destruct (i_state i), k; reflexivity. Qed.

Lemma touch_instance_found l h k l' : touch_instance l h k = Some l' -> exists i, find_inst h l' = Some i.
Proof.
  unfold touch_instance. destruct (find_inst h l) as [i|] eqn:E.
  - intros H. injection H as <-. eapply find_upd_inst; [|exact E]. intros x. apply update_state_handle.
  - destruct (is_alive_kind k); [|discriminate]. intros H. injection H as <-.
    eexists. apply find_inst_app_new; [exact E|]. rewrite update_state_handle. reflexivity.
Qed.
Lemma touch_instance_again l h k i : find_inst h l = Some i -> exists l', touch_instance l h k = Some l'.
Proof. intros H. unfold touch_instance. rewrite H. eauto. Qed.

Lemma of_interest_samples r r' h t :
  r_samples r' = r_samples r -> r_qos r' = r_qos r -> of_interest r' h t = of_interest r h t.
Proof. intros Hs Hq. unfold of_interest. now rewrite Hs, Hq. Qed.

(* The complete case analysis of add_change: which result, and what happens to the
   stored samples.  (The two `expect`/second-update failure branches of the code are
   shown unreachable; the "Samples must exist" panic needs depth = 0.) *)
Inductive add_outcome (r : reader) (w data : Z) (k : kind) (h : Z) (t : ts) (rts : Z)
  : reader * add_result -> Prop :=
| AO_gate r' a :
    passes_gates r w k h t rts = false -> (a = AddError \/ a = NotAdded) ->
    r_samples r' = r_samples r -> add_outcome r w data k h t rts (r', a)
| AO_ms r' :
    passes_gates r w k h t rts = true -> ms_hit r h = true ->
    r_samples r' = r_samples r -> add_outcome r w data k h t rts (r', Rejected h 2)
| AO_mi r' :
    passes_gates r w k h t rts = true -> ms_hit r h = false -> mi_hit r h = true ->
    r_samples r' = r_samples r -> add_outcome r w data k h t rts (r', Rejected h 1)
| AO_mspi r' :
    passes_gates r w k h t rts = true -> ms_hit r h = false -> mi_hit r h = false -> mspi_hit r h = true ->
    r_samples r' = r_samples r -> add_outcome r w data k h t rts (r', Rejected h 3)
| AO_panic r' :
    passes_gates r w k h t rts = true -> ms_hit r h = false -> mi_hit r h = false -> mspi_hit r h = false ->
    q_depth (r_qos r) = Some 0 -> count (alive_of_inst h) (r_samples r) = 0 ->
    r_samples r' = r_samples r -> add_outcome r w data k h t rts (r', AddPanic)
| AO_added r' smp :
    passes_gates r w k h t rts = true -> ms_hit r h = false -> mi_hit r h = false -> mspi_hit r h = false ->
    s_kind smp = k -> s_inst smp = h -> s_data smp = data -> s_ts smp = t -> s_writer smp = w -> s_ss smp = SNotRead ->
    (replaces_b r h = true -> 0 < count (alive_of_inst h) (r_samples r)) ->
    r_samples r' = place (r_qos r) t smp
                     (if replaces_b r h then remove_first (alive_of_inst h) (r_samples r) else r_samples r) ->
    add_outcome r w data k h t rts (r', Added).

Lemma add_change_outcome r w data k h t rts :
  add_outcome r w data k h t rts (add_change r w data k h t rts).
Proof.
  unfold add_change.
  destruct (touch_instance (r_insts r) h k) as [insts1|] eqn:Et.
  2:{ apply AO_gate; [unfold passes_gates; now rewrite Et|auto|reflexivity]. }
  destruct (touch_instance_found _ _ _ _ Et) as [i Ei]. rewrite Ei.
  destruct (ownership_gate (set_insts r insts1) w h rts) as [owns2|] eqn:Eo.
  2:{ apply AO_gate; [unfold passes_gates; now rewrite Et, Eo|auto|reflexivity]. }
  set (owns3 := if is_alive_kind k then owns2 else remove_own h owns2).
  set (r3 := set_owns (set_insts r insts1) owns3).
  assert (Hs3 : r_samples r3 = r_samples r) by reflexivity.
  assert (Hq3 : r_qos r3 = r_qos r) by reflexivity.
  assert (Hi3 : r_insts r3 = insts1) by reflexivity.
  rewrite (of_interest_samples r r3 h t Hs3 Hq3).
  destruct (of_interest r h t) eqn:Eoi; cbn [negb].
  2:{ apply AO_gate; [unfold passes_gates; now rewrite Et, Eo|auto|reflexivity]. }
  assert (Hg : passes_gates r w k h t rts = true) by (unfold passes_gates; now rewrite Et, Eo).
  rewrite Hs3, Hi3.
  change (match q_depth (r_qos r) with
          | Some d => d =? count (alive_of_inst h) (r_samples r)
          | None => false end) with (replaces_b r h).
  change (negb (replaces_b r h) && len_eq (q_ms (r_qos r)) (Z.of_nat (length (r_samples r)))) with (ms_hit r h).
  change (if existsb (Z.eqb h) (distinct_insts (r_samples r) []) then false
          else len_eq (q_mi (r_qos r)) (Z.of_nat (length (distinct_insts (r_samples r) [])))) with (mi_hit r h).
  change (negb (replaces_b r h) && len_eq (q_mspi (r_qos r)) (count (of_inst h) (r_samples r))) with (mspi_hit r h).
  destruct (ms_hit r h) eqn:E1; [now apply AO_ms|].
  destruct (mi_hit r h) eqn:E2; [now apply AO_mi|].
  destruct (mspi_hit r h) eqn:E3; [now apply AO_mspi|].
  destruct (replaces_b r h && (count (alive_of_inst h) (r_samples r) =? 0)) eqn:E4.
  { apply andb_true_iff in E4 as [E4 E5]. apply Z.eqb_eq in E5.
    apply AO_panic; auto. unfold replaces_b in E4. destruct (q_depth (r_qos r)) as [d|]; [|discriminate].
    apply Z.eqb_eq in E4. congruence. }
  destruct (touch_instance_again insts1 h k i Ei) as [insts5 E5]. rewrite E5.
  eapply AO_added with (smp := mkS k w h t data SNotRead (i_dgc i) (i_nwgc i)); auto.
  intros Hr. rewrite Hr in E4. cbn [andb] in E4. apply Z.eqb_neq in E4.
  unfold count in *. lia.
Qed.

(* ------------------------------------------------------------------------- *)
(* list facts                                                                  *)
(* ------------------------------------------------------------------------- *)
Lemma count_nil {A} (p : A -> bool) : count p [] = 0.
Proof. reflexivity. Qed.
Lemma count_cons {A} (p : A -> bool) x l : count p (x :: l) = (if p x then 1 else 0) + count p l.
Proof. unfold count. cbn [filter]. destruct (p x); cbn [length]; lia. Qed.
Lemma count_app {A} (p : A -> bool) l1 l2 : count p (l1 ++ l2) = count p l1 + count p l2.
Proof. unfold count. rewrite filter_app, app_length. lia. Qed.
Lemma count_nonneg {A} (p : A -> bool) l : 0 <= count p l.
Proof. unfold count. lia. Qed.
Lemma count_le_length {A} (p : A -> bool) l : count p l <= Z.of_nat (length l).
Proof.
  induction l as [|x l IH]; [reflexivity|]. rewrite count_cons. cbn [length]. destruct (p x); lia.
Qed.

Lemma count_insert_before {A} (p c : A -> bool) x l :
  count p (insert_before c x l) = (if p x then 1 else 0) + count p l.
Proof.
  induction l as [|y l IH]; cbn [insert_before].
  - rewrite !count_cons, count_nil. lia.
  - destruct (c y); rewrite !count_cons; [|rewrite IH]; lia.
Qed.
Lemma length_insert_before {A} (c : A -> bool) x l : length (insert_before c x l) = Datatypes.S (length l).
Proof.
  induction l as [|y l IH]; cbn [insert_before]; [reflexivity|].
  destruct (c y); cbn [length]; [reflexivity|now rewrite IH].
Qed.
Lemma count_place p q t smp base : count p (place q t smp base) = (if p smp then 1 else 0) + count p base.
Proof.
  unfold place. destruct (q_bysrc q); [apply count_insert_before|].
  rewrite count_app, count_cons, count_nil. lia.
Qed.
Lemma length_place q t smp base : length (place q t smp base) = Datatypes.S (length base).
Proof.
  unfold place. destruct (q_bysrc q); [apply length_insert_before|].
  rewrite app_length. cbn [length]. lia.
Qed.
Lemma in_insert_before {A} (c : A -> bool) x l y : In y (insert_before c x l) <-> y = x \/ In y l.
Proof.
  induction l as [|z l IH]; cbn [insert_before In].
  - intuition.
  - destruct (c z); cbn [In]; [intuition|]. rewrite IH. intuition.
Qed.
Lemma in_place q t smp base y : In y (place q t smp base) <-> y = smp \/ In y base.
Proof.
  unfold place. destruct (q_bysrc q); [apply in_insert_before|].
  rewrite in_app_iff. cbn [In]. intuition.
Qed.

(* remove_first p removes exactly the first element satisfying p *)
Lemma remove_first_split {A} (p : A -> bool) l :
  0 < count p l ->
  exists l1 x l2, l = l1 ++ x :: l2 /\ p x = true /\ forallb (fun y => negb (p y)) l1 = true /\
                  remove_first p l = l1 ++ l2.
Proof.
  induction l as [|y l IH]; intros H.
  - rewrite count_nil in H. lia.
  - cbn [remove_first]. destruct (p y) eqn:E.
    + exists [], y, l. repeat split; auto.
    + rewrite count_cons, E in H. destruct (IH ltac:(lia)) as (l1 & x & l2 & -> & Hx & Hl1 & Hr).
      exists (y :: l1), x, l2. cbn [app forallb]. rewrite E, Hl1, Hr. auto.
Qed.
Lemma count_remove_first {A} (p c : A -> bool) l :
  (forall x, c x = true -> p x = true) -> 0 < count c l ->
  count p (remove_first c l) = count p l - 1.
Proof.
  intros Hcp H. destruct (remove_first_split c l H) as (l1 & x & l2 & -> & Hx & _ & ->).
  rewrite !count_app, count_cons, (Hcp x Hx). lia.
Qed.
Lemma count_remove_first_other {A} (p c : A -> bool) l :
  (forall x, c x = true -> p x = false) -> count p (remove_first c l) = count p l.
Proof.
  intros Hcp. induction l as [|y l IH]; cbn [remove_first]; [reflexivity|].
  destruct (c y) eqn:E; rewrite ?count_cons; [rewrite (Hcp y E); lia|rewrite IH; lia].
Qed.
Lemma length_remove_first {A} (c : A -> bool) l :
  0 < count c l -> Z.of_nat (length (remove_first c l)) = Z.of_nat (length l) - 1.
Proof.
  intros H. destruct (remove_first_split c l H) as (l1 & x & l2 & -> & _ & _ & ->).
  rewrite !app_length. cbn [length]. lia.
Qed.
Lemma in_remove_first {A} (c : A -> bool) l y : In y (remove_first c l) -> In y l.
Proof.
  induction l as [|z l IH]; cbn [remove_first]; [auto|].
  destruct (c z); cbn [In]; intuition.
Qed.

(* thinned lists (read/take) *)
Lemma thinned_count (p : sample -> bool) k l :
  (forall s, p (mark_read s) = p s) -> thinned k l -> count p k <= count p l.
Proof.
  intros Hp H. induction H; rewrite ?count_cons, ?Hp; try lia. destruct (p s); lia.
Qed.
Lemma thinned_length k l : thinned k l -> (length k <= length l)%nat.
Proof. intros H. induction H; cbn [length]; lia. Qed.
Lemma thinned_inst_in k l : thinned k l -> forall x, In x (map s_inst k) -> In x (map s_inst l).
Proof.
  intros H. induction H; cbn [map In]; intros x Hx; intuition.
Qed.

Lemma of_inst_mark h s : of_inst h (mark_read s) = of_inst h s.
Proof. reflexivity. Qed.
Lemma alive_of_inst_mark h s : alive_of_inst h (mark_read s) = alive_of_inst h s.
Proof. reflexivity. Qed.
Lemma alive_of_inst_of h s : alive_of_inst h s = true -> of_inst h s = true.
Proof. unfold alive_of_inst, of_inst. now intros [H _]%andb_true_iff. Qed.

(* every operation except add leaves a thinned sample list *)
Lemma step_samples_thinned r o :
  (forall w h k t data rts, o <> OpAdd w h k t data rts) ->
  thinned (r_samples (fst (step r o))) (r_samples r).
Proof.
  intros Hno. destruct o; cbn [step].
  - exfalso. eapply Hno. reflexivity.
  - pose proof (collect_samples_thinned r max m hsel false) as H.
    destruct (collect r max m hsel false). exact H.
  - pose proof (collect_samples_thinned r max m hsel true) as H.
    destruct (collect r max m hsel true). exact H.
  - unfold next_instance_op.
    pose proof (next_loop_samples_thinned (Datatypes.S (length (r_insts r))) r max m prev false) as H.
    destruct (next_loop _ r max m prev false). exact H.
  - unfold next_instance_op.
    pose proof (next_loop_samples_thinned (Datatypes.S (length (r_insts r))) r max m prev true) as H.
    destruct (next_loop _ r max m prev true). exact H.
  - unfold add_matched. destruct (upd_pub w s (r_matched r)); apply thinned_refl.
  - unfold remove_matched. destruct (find_pub w (r_matched r)); apply thinned_refl.
Qed.

(* ------------------------------------------------------------------------- *)
(* (a) KEEP_LAST bound                                                         *)
(* ------------------------------------------------------------------------- *)
Lemma alive_other h h0 x : h0 <> h -> alive_of_inst h x = true -> alive_of_inst h0 x = false.
Proof.
  unfold alive_of_inst. intros Hne [H _]%andb_true_iff. apply Z.eqb_eq in H.
  destruct (s_inst x =? h0) eqn:E; [apply Z.eqb_eq in E; congruence|reflexivity].
Qed.

Lemma add_kl_bound r w data k h t rts d :
  q_depth (r_qos r) = Some d -> 0 <= d -> kl_bound d r ->
  kl_bound d (fst (add_change r w data k h t rts)).
Proof.
  intros Hd Hd0 Hb. pose proof (add_change_outcome r w data k h t rts) as O.
  destruct (add_change r w data k h t rts) as [r' a]. cbn [fst].
  inversion O as [? ? _ _ Hs|? _ _ Hs|? _ _ _ Hs|? _ _ _ _ Hs|? _ _ _ _ _ _ Hs
                 |? smp _ _ _ _ Hk Hi _ _ _ _ Hpos Hs]; subst;
    try (intros h0; rewrite Hs; apply Hb).
  intros h0. rewrite Hs, count_place. unfold replaces_b in *. rewrite Hd in *.
  pose proof (Hb h0) as B0. pose proof (Hb (s_inst smp)) as Bh.
  destruct (Z.eq_dec h0 (s_inst smp)) as [->|Hne].
  - destruct (d =? count (alive_of_inst (s_inst smp)) (r_samples r)) eqn:E.
    + rewrite (count_remove_first _ _ _ (fun x Hx => Hx) (Hpos eq_refl)).
      destruct (alive_of_inst (s_inst smp) smp); lia.
    + apply Z.eqb_neq in E. destruct (alive_of_inst (s_inst smp) smp); lia.
  - assert (Hf : alive_of_inst h0 smp = false).
    { unfold alive_of_inst. destruct (s_inst smp =? h0) eqn:E; [apply Z.eqb_eq in E; congruence|reflexivity]. }
    rewrite Hf. destruct (d =? count (alive_of_inst (s_inst smp)) (r_samples r)).
    + rewrite count_remove_first_other; [lia|]. intros x. now apply alive_other.
    + lia.
Qed.

Lemma step_kl_bound r o d :
  q_depth (r_qos r) = Some d -> 0 <= d -> kl_bound d r -> kl_bound d (fst (step r o)).
Proof.
  intros Hd Hd0 Hb. destruct o as [w h k t data rts| | | | | |].
  1:{ cbn [step]. pose proof (add_kl_bound r w data k h t rts d Hd Hd0 Hb) as H.
      destruct (add_change r w data k h t rts). exact H. }
  all: intros h0; eapply Z.le_trans; [|apply (Hb h0)];
    apply thinned_count; [intros; apply alive_of_inst_mark|];
    apply step_samples_thinned; intros; discriminate.
Qed.

Theorem keep_last_bound q ops d h :
  q_depth q = Some d -> 0 <= d -> count (alive_of_inst h) (r_samples (run q ops)) <= d.
Proof.
  intros Hd Hd0. unfold run. change (fst (run_obs (init_reader q) ops)) with (run_from (init_reader q) ops).
  revert h. change (kl_bound d (run_from (init_reader q) ops)).
  apply (run_from_inv (fun r => r_qos r = q /\ kl_bound d r)).
  - intros r o [Hq Hb]. split; [now rewrite step_qos|]. apply step_kl_bound; auto. now rewrite Hq.
  - split; [reflexivity|]. intros h. cbn. lia.
Qed.

(* ------------------------------------------------------------------------- *)
(* (b) what a stored sample displaces                                          *)
(* ------------------------------------------------------------------------- *)
(* An accepted sample is put at its place; with KEEP_LAST and `depth` KAlive samples of
   the instance stored, exactly the FIRST (oldest stored) KAlive sample of that instance
   is removed and every other sample stays, in order.  Otherwise nothing is removed. *)
Theorem replaced_is_oldest r w data k h t rts :
  snd (add_change r w data k h t rts) = Added ->
  exists smp, s_kind smp = k /\ s_inst smp = h /\ s_data smp = data /\ s_ts smp = t /\ s_writer smp = w /\
    if replaces_b r h then
      exists l1 x l2, r_samples r = l1 ++ x :: l2 /\ alive_of_inst h x = true /\
                      (forall y, In y l1 -> alive_of_inst h y = false) /\
                      r_samples (fst (add_change r w data k h t rts)) = place (r_qos r) t smp (l1 ++ l2)
    else r_samples (fst (add_change r w data k h t rts)) = place (r_qos r) t smp (r_samples r).
Proof.
  pose proof (add_change_outcome r w data k h t rts) as O.
  destruct (add_change r w data k h t rts) as [r' a]. cbn [fst snd]. intros ->.
  inversion O as [? ? _ [?|?] _| | | | |? smp _ _ _ _ Hk Hi Hda Ht Hw _ Hpos Hs]; try discriminate; subst.
  exists smp. repeat (split; [reflexivity|]).
  destruct (replaces_b r (s_inst smp)) eqn:E; [|exact Hs].
  destruct (remove_first_split _ _ (Hpos eq_refl)) as (l1 & x & l2 & El & Hx & Hl1 & Hr).
  exists l1, x, l2. repeat split; auto.
  - intros y Hy. rewrite forallb_forall in Hl1. specialize (Hl1 y Hy). now apply negb_true_iff in Hl1.
  - now rewrite Hs, Hr.
Qed.

(* a sample that is not stored changes nothing *)
Lemma not_added_same r w data k h t rts :
  snd (add_change r w data k h t rts) <> Added ->
  r_samples (fst (add_change r w data k h t rts)) = r_samples r.
Proof. apply add_change_added_iff. Qed.

(* ------------------------------------------------------------------------- *)
(* (d) never rejected for depth                                                *)
(* ------------------------------------------------------------------------- *)
Lemma count_alive_le_of h l : count (alive_of_inst h) l <= count (of_inst h) l.
Proof.
  induction l as [|x l IH]; [reflexivity|]. rewrite !count_cons.
  destruct (alive_of_inst h x) eqn:E; [rewrite (alive_of_inst_of _ _ E); lia|destruct (of_inst h x); lia].
Qed.
Lemma count_alive_eq_of h l :
  (forall s, In s l -> s_inst s = h -> s_kind s = KAlive) -> count (alive_of_inst h) l = count (of_inst h) l.
Proof.
  induction l as [|x l IH]; intros H; [reflexivity|]. rewrite !count_cons, IH by (intros; apply H; [now right|auto]).
  unfold alive_of_inst, of_inst. destruct (s_inst x =? h) eqn:E; [|reflexivity].
  apply Z.eqb_eq in E. rewrite (H x (or_introl eq_refl) E). reflexivity.
Qed.
Lemma count_lt_exists {A} (p c : A -> bool) l :
  count c l < count p l -> exists x, In x l /\ p x = true /\ c x = false.
Proof.
  induction l as [|x l IH]; [rewrite !count_nil; lia|]. rewrite !count_cons. intros H.
  destruct (p x) eqn:Ep, (c x) eqn:Ec; try (destruct IH as (y & Hy & ?); [lia|exists y; cbn [In]; tauto]).
  exists x. cbn [In]. auto.
Qed.

(* exactly when RejectedBySamplesPerInstanceLimit is returned *)
Theorem rejected3_iff r w data k h t rts h' :
  snd (add_change r w data k h t rts) = Rejected h' 3 <->
  h' = h /\ passes_gates r w k h t rts = true /\ ms_hit r h = false /\ mi_hit r h = false /\ mspi_hit r h = true.
Proof.
  pose proof (add_change_outcome r w data k h t rts) as O.
  destruct (add_change r w data k h t rts) as [r' a]. cbn [snd].
  inversion O as [? ? Hg [?|?] _|? Hg H1 _|? Hg H1 H2 _|? Hg H1 H2 H3 _|? Hg H1 H2 H3 _ _ _|? smp Hg H1 H2 H3]; subst;
    split; try discriminate; try (intros (_ & G1 & G2 & G3 & G4); congruence).
  - intros H. injection H as <-. repeat split; assumption.
  - intros (-> & _). reflexivity.
Qed.

(* with depth <= max_samples_per_instance the per-instance limit can only reject when
   the instance holds samples that are not KAlive data (dispose/unregister markers,
   filtered samples): they count against the limit but are never displaced *)
Theorem rejected3_needs_non_alive r w data k h t rts h' d :
  q_depth (r_qos r) = Some d -> lim_ok (q_mspi (r_qos r)) d = true -> kl_bound d r ->
  snd (add_change r w data k h t rts) = Rejected h' 3 ->
  exists s, In s (r_samples r) /\ s_inst s = h /\ s_kind s <> KAlive.
Proof.
  intros Hd Hl Hb [_ (_ & _ & _ & H3)]%rejected3_iff.
  unfold mspi_hit, replaces_b in H3. rewrite Hd in H3. apply andb_true_iff in H3 as [Hr Hm].
  apply negb_true_iff, Z.eqb_neq in Hr. unfold len_eq in Hm. unfold lim_ok in Hl.
  destruct (q_mspi (r_qos r)) as [m|]; [|discriminate]. apply Z.eqb_eq in Hm. apply Z.leb_le in Hl.
  pose proof (Hb h) as B.
  destruct (count_lt_exists (of_inst h) (alive_of_inst h) (r_samples r)) as (s & Hin & Ho & Ha); [lia|].
  exists s. unfold of_inst in Ho. unfold alive_of_inst in Ha. rewrite Ho in Ha. cbn [andb] in Ha.
  apply Z.eqb_eq in Ho. repeat split; auto. intros E. rewrite E in Ha. discriminate.
Qed.

Theorem never_rejected_for_depth r w data k h t rts d :
  q_depth (r_qos r) = Some d -> lim_ok (q_mspi (r_qos r)) d = true -> kl_bound d r ->
  (forall s, In s (r_samples r) -> s_inst s = h -> s_kind s = KAlive) ->
  forall h', snd (add_change r w data k h t rts) <> Rejected h' 3.
Proof.
  intros Hd Hl Hb Hal h' H.
  destruct (rejected3_needs_non_alive _ _ _ _ _ _ _ _ _ Hd Hl Hb H) as (s & Hin & Hi & Hk).
  apply Hk, Hal; auto.
Qed.

(* ------------------------------------------------------------------------- *)
(* histories with their observations                                           *)
(* ------------------------------------------------------------------------- *)
Lemma run_obs_cons r o ops :
  run_obs r (o :: ops) =
  (fst (run_obs (fst (step r o)) ops), snd (step r o) :: snd (run_obs (fst (step r o)) ops)).
Proof.
  cbn [run_obs]. destruct (step r o) as [r1 x]. cbn [fst snd]. destruct (run_obs r1 ops). reflexivity.
Qed.

(* invariants that talk about the state AND the trace so far; `good` restricts the
   operations of the history *)
Lemma run_trace_inv (good : op -> bool) (P : reader -> list (op * obs) -> Prop) :
  (forall r tr o, good o = true -> P r tr -> P (fst (step r o)) (tr ++ [(o, snd (step r o))])) ->
  forall ops r tr, forallb good ops = true -> P r tr ->
    P (fst (run_obs r ops)) (tr ++ run_trace r ops).
Proof.
  intros Hstep ops. induction ops as [|o ops IH]; intros r tr Hg HP.
  - unfold run_trace. cbn [run_obs fst snd zip]. now rewrite app_nil_r.
  - cbn [forallb] in Hg. apply andb_true_iff in Hg as [Ho Hg].
    unfold run_trace. rewrite run_obs_cons. cbn [fst snd zip].
    specialize (IH (fst (step r o)) (tr ++ [(o, snd (step r o))]) Hg (Hstep r tr o Ho HP)).
    unfold run_trace in IH. rewrite <- app_assoc in IH. exact IH.
Qed.

Lemma accepted_snoc h tr ox : accepted h (tr ++ [ox]) = accepted h tr ++ accepted_one h ox.
Proof. unfold accepted. rewrite flat_map_app. cbn [flat_map]. now rewrite app_nil_r. Qed.

(* read (take = false) keeps every sample, possibly marked READ *)
Inductive marked : list sample -> list sample -> Prop :=
| mk_nil : marked [] []
| mk_keep s k l : marked k l -> marked (s :: k) (s :: l)
| mk_mark s k l : marked k l -> marked (mark_read s :: k) (s :: l).
Lemma marked_refl l : marked l l.
Proof. induction l; constructor; assumption. Qed.

Lemma collect_loop_marked r m hsel max : forall l n,
  marked (fst (collect_loop r m hsel max false l n)) l.
Proof.
  induction l as [|s t IH]; intros n; cbn [collect_loop]; [constructor|].
  destruct (n =? max); [apply marked_refl|].
  destruct (selected r m hsel s) as [i|].
  - specialize (IH (n + 1)). destruct (collect_loop r m hsel max false t (n + 1)) as [k c]. cbn [fst] in *.
    apply mk_mark; exact IH.
  - specialize (IH n). destruct (collect_loop r m hsel max false t n) as [k c]. cbn [fst] in *.
    apply mk_keep; exact IH.
Qed.
Lemma collect_marked r max m hsel : marked (r_samples (fst (collect r max m hsel false))) (r_samples r).
Proof.
  unfold collect. break_match; [apply marked_refl|].
  pose proof (collect_loop_marked r m hsel max (r_samples r) 0) as H.
  destruct (collect_loop r m hsel max false (r_samples r) 0) as [kept c]. cbn [fst] in H.
  destruct c; cbn [fst r_samples]; exact H.
Qed.
Lemma next_loop_marked fuel : forall r max m prev,
  marked (r_samples (fst (next_loop fuel r max m prev false))) (r_samples r).
Proof.
  induction fuel as [|f IH]; intros; cbn [next_loop]; [apply marked_refl|].
  destruct (next_instance r prev) as [h|]; [|apply marked_refl].
  pose proof (collect_marked r max m (Some h)) as H.
  destruct (collect r max m (Some h) false) as [r' c]. cbn [fst] in H.
  destruct c; try exact H. apply IH.
Qed.
Lemma step_marked r o :
  not_take o = true -> (forall w h k t data rts, o <> OpAdd w h k t data rts) ->
  marked (r_samples (fst (step r o))) (r_samples r).
Proof.
  intros Hnt Hno. destruct o; cbn [step]; try discriminate.
  - exfalso. eapply Hno. reflexivity.
  - pose proof (collect_marked r max m hsel) as H. destruct (collect r max m hsel false). exact H.
  - unfold next_instance_op.
    pose proof (next_loop_marked (Datatypes.S (length (r_insts r))) r max m prev) as H.
    destruct (next_loop _ r max m prev false). exact H.
  - unfold add_matched. destruct (upd_pub w s (r_matched r)); apply marked_refl.
  - unfold remove_matched. destruct (find_pub w (r_matched r)); apply marked_refl.
Qed.

Lemma marked_data_of k l : marked k l -> forall h,
  map s_data (filter (of_inst h) k) = map s_data (filter (of_inst h) l).
Proof.
  intros H. induction H; intros h; cbn [filter]; [reflexivity| |].
  - destruct (of_inst h s); cbn [map]; now rewrite IHmarked.
  - rewrite of_inst_mark. destruct (of_inst h s); cbn [map]; now rewrite IHmarked.
Qed.
Lemma marked_data k l : marked k l -> map s_data k = map s_data l.
Proof. intros H. induction H; cbn [map]; [reflexivity| |]; now rewrite IHmarked. Qed.
Lemma marked_thinned k l : marked k l -> thinned k l.
Proof. intros H. induction H; constructor; assumption. Qed.

(* lastn (ReaderCorr) *)
Lemma lastn_all {A} n (l : list A) : (length l <= n)%nat -> lastn n l = l.
Proof.
  intros H. destruct l as [|x l]; cbn [lastn]; [reflexivity|].
  apply Nat.leb_le in H. now rewrite H.
Qed.
Lemma lastn_skipn {A} n (l : list A) : lastn n l = skipn (length l - n) l.
Proof.
  induction l as [|x l IH]; [reflexivity|]. cbn [lastn].
  destruct (Nat.leb (length (x :: l)) n) eqn:E.
  - apply Nat.leb_le in E. replace (length (x :: l) - n)%nat with 0%nat by lia. reflexivity.
  - apply Nat.leb_gt in E. cbn [length] in *. replace (Datatypes.S (length l) - n)%nat with (Datatypes.S (length l - n)) by lia.
    cbn [skipn]. exact IH.
Qed.
Lemma lastn_length {A} n (l : list A) : length (lastn n l) = Nat.min n (length l).
Proof. rewrite lastn_skipn, skipn_length. lia. Qed.
Lemma tl_skipn {A} j (l : list A) : tl (skipn j l) = skipn (Datatypes.S j) l.
Proof.
  revert l. induction j as [|j IH]; intros [|x l]; cbn [skipn tl]; auto.
  rewrite IH. reflexivity.
Qed.
Lemma lastn_snoc_full {A} n (l : list A) x :
  (1 <= n)%nat -> (n <= length l)%nat -> lastn n (l ++ [x]) = tl (lastn n l) ++ [x].
Proof.
  intros Hn Hl. rewrite !lastn_skipn, tl_skipn, app_length. cbn [length].
  replace (length l + 1 - n)%nat with (Datatypes.S (length l - n)) by lia.
  rewrite skipn_app. replace (Datatypes.S (length l - n) - length l)%nat with 0%nat by lia. reflexivity.
Qed.
Lemma lastn_snoc_short {A} n (l : list A) x :
  (length l < n)%nat -> lastn n (l ++ [x]) = lastn n l ++ [x].
Proof.
  intros Hl. rewrite (lastn_all n l) by lia. apply lastn_all. rewrite app_length. cbn [length]. lia.
Qed.

Lemma filter_remove_first_same {A} (p : A -> bool) l : filter p (remove_first p l) = tl (filter p l).
Proof.
  induction l as [|x l IH]; [reflexivity|]. cbn [remove_first filter].
  destruct (p x) eqn:E; [reflexivity|]. cbn [filter]. now rewrite E.
Qed.
Lemma filter_remove_first_other {A} (p c : A -> bool) l :
  (forall x, c x = true -> p x = false) -> filter p (remove_first c l) = filter p l.
Proof.
  intros H. induction l as [|x l IH]; [reflexivity|]. cbn [remove_first filter].
  destruct (c x) eqn:E; [now rewrite (H x E)|]. cbn [filter]. now rewrite IH.
Qed.
Lemma remove_first_ext_in {A} (p c : A -> bool) l :
  (forall x, In x l -> p x = c x) -> remove_first p l = remove_first c l.
Proof.
  induction l as [|x l IH]; intros H; [reflexivity|]. cbn [remove_first].
  rewrite (H x (or_introl eq_refl)). destruct (c x); [reflexivity|]. f_equal. apply IH. intros; apply H; now right.
Qed.
Lemma map_tl {A B} (f : A -> B) l : map f (tl l) = tl (map f l).
Proof. destruct l; reflexivity. Qed.

(* ------------------------------------------------------------------------- *)
(* (c) KEEP_LAST keeps the newest                                              *)
(* ------------------------------------------------------------------------- *)
Lemma marked_all_alive k l : marked k l -> all_alive_kind l -> all_alive_kind k.
Proof.
  intros H. induction H; intros Ha s' Hin; [destruct Hin| |].
  - destruct Hin as [<-|Hin]; [apply Ha; now left|apply IHmarked; [|exact Hin]]. intros z Hz; apply Ha; now right.
  - destruct Hin as [<-|Hin]; [apply (Ha s); now left|apply IHmarked; [|exact Hin]]. intros z Hz; apply Ha; now right.
Qed.

Definition newest_inv (q : qos) (d : Z) (r : reader) (tr : list (op * obs)) : Prop :=
  r_qos r = q /\ all_alive_kind (r_samples r) /\
  forall h, map s_data (filter (of_inst h) (r_samples r)) = lastn (Z.to_nat d) (accepted h tr).

Lemma newest_step q d r tr o :
  q_bysrc q = false -> q_depth q = Some d -> 1 <= d ->
  alive_add o && not_take o = true ->
  newest_inv q d r tr -> newest_inv q d (fst (step r o)) (tr ++ [(o, snd (step r o))]).
Proof.
  intros Hby Hd Hd1 Hgood (Hq & Hal & Hn). apply andb_true_iff in Hgood as [Hga Hgt].
  destruct o as [w h k t data rts| | | | | |].
  2-7: (split; [now rewrite step_qos|]);
    (assert (Hm : marked (r_samples (fst (step r _))) (r_samples r))
       by (apply step_marked; [exact Hgt|intros; discriminate]));
    (split; [eapply marked_all_alive; eauto|]); intros h0;
    rewrite (marked_data_of _ _ Hm), accepted_snoc, Hn;
    match goal with |- context [accepted_one h0 ?ox] =>
      replace (accepted_one h0 ox) with (@nil Z); [now rewrite app_nil_r|] end;
    cbn [step]; repeat break_match; reflexivity.
  cbn [alive_add] in Hga. destruct k; try discriminate. clear Hga Hgt.
  cbn [step]. pose proof (add_change_outcome r w data KAlive h t rts) as O.
  pose proof (add_change_qos r w data KAlive h t rts) as Hq'.
  destruct (add_change r w data KAlive h t rts) as [r' a]. cbn [fst snd] in *.
  split; [congruence|].
  assert (Same : r_samples r' = r_samples r -> a <> Added ->
                 all_alive_kind (r_samples r') /\
                 forall h0, map s_data (filter (of_inst h0) (r_samples r')) =
                            lastn (Z.to_nat d) (accepted h0 (tr ++ [(OpAdd w h KAlive t data rts, ObsAdd a)]))).
  { intros Hs Ha. rewrite Hs. split; [exact Hal|]. intros h0. rewrite accepted_snoc, Hn.
    replace (accepted_one h0 (OpAdd w h KAlive t data rts, ObsAdd a)) with (@nil Z); [now rewrite app_nil_r|].
    cbn [accepted_one]. destruct a; try reflexivity. now elim Ha. }
  inversion O as [? ? _ [?|?] Hs|? _ _ Hs|? _ _ _ Hs|? _ _ _ _ Hs|? _ _ _ _ _ _ Hs
                 |? smp _ _ _ _ Hk Hi Hda _ _ _ Hpos Hs]; subst;
    try (apply Same; [exact Hs|discriminate]).
  clear Same.
  assert (Hao : forall x, In x (r_samples r) -> alive_of_inst (s_inst smp) x = of_inst (s_inst smp) x).
  { intros x Hx. unfold alive_of_inst, of_inst. rewrite (Hal x Hx). cbn [kind_eqb]. now rewrite andb_true_r. }
  assert (Hcnt : count (alive_of_inst (s_inst smp)) (r_samples r) =
                 Z.of_nat (length (lastn (Z.to_nat d) (accepted (s_inst smp) tr)))).
  { rewrite <- Hn, map_length. unfold count. f_equal. f_equal. apply filter_ext_in. exact Hao. }
  unfold replaces_b in *. rewrite Hd in *. unfold place in Hs. rewrite Hby in Hs.
  split.
  - intros s. rewrite Hs, in_app_iff. intros [Hin|[<-|[]]]; [|exact Hk].
    apply Hal. destruct (d =? _); [eapply in_remove_first|]; exact Hin.
  - intros h0. rewrite accepted_snoc. cbn [accepted_one]. rewrite Hs, filter_app, map_app. cbn [filter].
    unfold of_inst at 2. destruct (s_inst smp =? h0) eqn:Eh.
    + apply Z.eqb_eq in Eh. subst h0. cbn [map].
      rewrite lastn_length in Hcnt.
      destruct (d =? count (alive_of_inst (s_inst smp)) (r_samples r)) eqn:E.
      * apply Z.eqb_eq in E.
        rewrite (remove_first_ext_in _ _ _ Hao), filter_remove_first_same, map_tl, Hn.
        rewrite lastn_snoc_full by lia. reflexivity.
      * apply Z.eqb_neq in E. rewrite Hn. rewrite lastn_snoc_short by lia. reflexivity.
    + rewrite app_nil_r. cbn [map]. rewrite app_nil_r. rewrite <- Hn.
      destruct (d =? _); [|reflexivity]. f_equal. apply filter_remove_first_other.
      intros x Hx. unfold of_inst. apply alive_of_inst_of in Hx. unfold of_inst in Hx. apply Z.eqb_eq in Hx.
      rewrite Hx. exact Eh.
Qed.

(* BY_RECEPTION_TIMESTAMP, KEEP_LAST d, only KAlive data arrives, nothing is taken:
   after ANY such history the stored payloads of every instance are exactly the last
   d accepted ones, in acceptance order (this is the third clause of C18_oracle_ok) *)
Theorem keep_last_newest q ops d h :
  q_bysrc q = false -> q_depth q = Some d -> 1 <= d ->
  forallb (fun o => alive_add o && not_take o) ops = true ->
  map s_data (filter (of_inst h) (r_samples (run q ops))) =
  lastn (Z.to_nat d) (accepted h (run_trace (init_reader q) ops)).
Proof.
  intros Hby Hd Hd1 Hg.
  pose proof (run_trace_inv (fun o => alive_add o && not_take o) (newest_inv q d)
                (fun r tr o Ho HP => newest_step q d r tr o Hby Hd Hd1 Ho HP) ops (init_reader q) [] Hg) as H.
  destruct H as (_ & _ & H).
  - split; [reflexivity|]. split; [intros s []|]. intros h0. reflexivity.
  - apply H.
Qed.

(* ------------------------------------------------------------------------- *)
(* (e) KEEP_ALL keeps everything                                               *)
(* ------------------------------------------------------------------------- *)
(* no add ever removes a stored sample *)
Theorem keep_all_add_keeps r w data k h t rts :
  q_depth (r_qos r) = None ->
  forall s, In s (r_samples r) -> In s (r_samples (fst (add_change r w data k h t rts))).
Proof.
  intros Hd s Hin. pose proof (add_change_outcome r w data k h t rts) as O.
  destruct (add_change r w data k h t rts) as [r' a]. cbn [fst].
  inversion O as [? ? _ _ Hs|? _ _ Hs|? _ _ _ Hs|? _ _ _ _ Hs|? _ _ _ _ _ _ Hs
                 |? smp _ _ _ _ _ _ _ _ _ _ _ Hs]; subst; rewrite Hs; try exact Hin.
  unfold replaces_b. rewrite Hd. apply in_place. now right.
Qed.

(* only take removes: after any history without take every accepted payload is stored,
   and with BY_RECEPTION order per instance exactly the accepted ones in order *)
Definition keepall_inv (q : qos) (r : reader) (tr : list (op * obs)) : Prop :=
  r_qos r = q /\
  (forall h d, In d (accepted h tr) -> In d (map s_data (r_samples r))) /\
  (q_bysrc q = false -> forall h, map s_data (filter (of_inst h) (r_samples r)) = accepted h tr).

Lemma keepall_step q r tr o :
  q_depth q = None -> not_take o = true ->
  keepall_inv q r tr -> keepall_inv q (fst (step r o)) (tr ++ [(o, snd (step r o))]).
Proof.
  intros Hd Hgt (Hq & Hin & Hn).
  destruct o as [w h k t data rts| | | | | |].
  2-7: (split; [now rewrite step_qos|]);
    (assert (Hm : marked (r_samples (fst (step r _))) (r_samples r))
       by (apply step_marked; [exact Hgt|intros; discriminate]));
    match goal with |- context [_ ++ [?ox]] =>
      assert (Hnil : forall h0, accepted_one h0 ox = [])
        by (intros h0; cbn [step]; repeat break_match; reflexivity) end;
    (split; [intros h0 d0; rewrite accepted_snoc, Hnil, app_nil_r, (marked_data _ _ Hm); apply Hin
            |intros Hby h0; rewrite accepted_snoc, Hnil, app_nil_r, (marked_data_of _ _ Hm); now apply Hn]).
  cbn [step]. pose proof (add_change_outcome r w data k h t rts) as O.
  pose proof (add_change_qos r w data k h t rts) as Hq'.
  destruct (add_change r w data k h t rts) as [r' a]. cbn [fst snd] in *.
  split; [congruence|].
  assert (Same : r_samples r' = r_samples r -> a <> Added ->
     (forall h0 d0, In d0 (accepted h0 (tr ++ [(OpAdd w h k t data rts, ObsAdd a)])) -> In d0 (map s_data (r_samples r'))) /\
     (q_bysrc q = false -> forall h0, map s_data (filter (of_inst h0) (r_samples r')) =
                                     accepted h0 (tr ++ [(OpAdd w h k t data rts, ObsAdd a)]))).
  { intros Hs Ha. rewrite Hs.
    assert (Hnil : forall h0, accepted_one h0 (OpAdd w h k t data rts, ObsAdd a) = []).
    { intros h0. cbn [accepted_one]. destruct a; try reflexivity. now elim Ha. }
    split; [intros h0 d0|intros Hby h0]; rewrite accepted_snoc, Hnil, app_nil_r; [apply Hin|now apply Hn]. }
  inversion O as [? ? _ [?|?] Hs|? _ _ Hs|? _ _ _ Hs|? _ _ _ _ Hs|? _ _ _ _ _ _ Hs
                 |? smp _ _ _ _ Hk Hi Hda _ _ _ Hpos Hs]; subst;
    try (apply Same; [exact Hs|discriminate]).
  clear Same. unfold replaces_b in Hs. rewrite Hd in Hs. split.
  - intros h0 d0. rewrite accepted_snoc, in_app_iff. cbn [accepted_one]. rewrite Hs.
    intros [H|H].
    + apply Hin in H. apply in_map_iff in H as (s & <- & Hs'). apply in_map, in_place. now right.
    + destruct (s_inst smp =? h0); [|destruct H]. destruct H as [<-|[]]. apply in_map, in_place. now left.
  - intros Hby h0. rewrite accepted_snoc. cbn [accepted_one]. rewrite Hs. unfold place. rewrite Hby.
    rewrite filter_app, map_app, (Hn Hby). cbn [filter]. unfold of_inst at 1.
    destruct (s_inst smp =? h0); reflexivity.
Qed.

Theorem keep_all_keeps q ops :
  q_depth q = None -> forallb not_take ops = true ->
  (forall h d, In d (accepted h (run_trace (init_reader q) ops)) -> In d (map s_data (r_samples (run q ops)))) /\
  (q_bysrc q = false -> forall h,
     map s_data (filter (of_inst h) (r_samples (run q ops))) = accepted h (run_trace (init_reader q) ops)).
Proof.
  intros Hd Hg.
  pose proof (run_trace_inv not_take (keepall_inv q)
                (fun r tr o Ho HP => keepall_step q r tr o Hd Ho HP) ops (init_reader q) [] Hg) as H.
  destruct H as (_ & H1 & H2).
  - split; [reflexivity|]. split; [intros h d []|]. intros _ h. reflexivity.
  - split; [exact H1|exact H2].
Qed.

(* ------------------------------------------------------------------------- *)
(* (d) over histories: only KAlive data arrives (reads and takes allowed)      *)
(* ------------------------------------------------------------------------- *)
Lemma thinned_all_alive k l : thinned k l -> all_alive_kind l -> all_alive_kind k.
Proof.
  intros H. induction H; intros Ha s' Hin.
  - destruct Hin.
  - destruct Hin as [<-|Hin]; [apply Ha; now left|apply IHthinned; [|exact Hin]]. intros z Hz; apply Ha; now right.
  - destruct Hin as [<-|Hin]; [apply (Ha s); now left|apply IHthinned; [|exact Hin]]. intros z Hz; apply Ha; now right.
  - apply IHthinned; [|exact Hin]. intros z Hz; apply Ha; now right.
Qed.
Lemma add_all_alive r w data h t rts :
  all_alive_kind (r_samples r) -> all_alive_kind (r_samples (fst (add_change r w data KAlive h t rts))).
Proof.
  intros Hal. pose proof (add_change_outcome r w data KAlive h t rts) as O.
  destruct (add_change r w data KAlive h t rts) as [r' a]. cbn [fst].
  inversion O as [? ? _ _ Hs|? _ _ Hs|? _ _ _ Hs|? _ _ _ _ Hs|? _ _ _ _ _ _ Hs
                 |? smp _ _ _ _ Hk _ _ _ _ _ _ Hs]; subst; rewrite Hs; try exact Hal.
  intros s [->|Hin]%in_place; [exact Hk|]. apply Hal.
  destruct (replaces_b r _); [eapply in_remove_first|]; exact Hin.
Qed.

Theorem never_rejected_for_depth_run q ops d :
  q_depth q = Some d -> 0 <= d -> lim_ok (q_mspi q) d = true -> forallb alive_add ops = true ->
  Forall no_rej3 (run_trace (init_reader q) ops).
Proof.
  intros Hd Hd0 Hl Hg.
  pose proof (run_trace_inv alive_add
     (fun r tr => r_qos r = q /\ all_alive_kind (r_samples r) /\ kl_bound d r /\ Forall no_rej3 tr)) as H.
  specialize (H) with (ops := ops) (r := init_reader q) (tr := @nil (op * obs)).
  apply H; [|exact Hg|].
  - clear H Hg ops. intros r tr o Ho (Hq & Hal & Hb & Hf).
    split; [now rewrite step_qos|].
    split; [|split; [apply step_kl_bound; auto; now rewrite Hq|]].
    + destruct o as [w h k t data rts| | | | | |].
      1:{ cbn [alive_add] in Ho. destruct k; try discriminate. cbn [step].
          pose proof (add_all_alive r w data h t rts Hal) as A.
          destruct (add_change r w data KAlive h t rts). exact A. }
      all: eapply thinned_all_alive; [|exact Hal]; apply step_samples_thinned; intros; discriminate.
    + apply Forall_app. split; [exact Hf|]. constructor; [|constructor].
      intros h0. cbn [snd]. destruct o as [w h k t data rts| | | | | |].
      1:{ cbn [step].
          pose proof (never_rejected_for_depth r w data k h t rts d) as N.
          rewrite Hq in N. specialize (N Hd Hl Hb (fun s Hs _ => Hal s Hs) h0).
          destruct (add_change r w data k h t rts) as [r' a]. cbn [snd] in *. congruence. }
      all: cbn [step]; repeat break_match; cbn [snd]; discriminate.
  - split; [reflexivity|]. split; [intros s []|]. split; [|constructor]. intros h. cbn. lia.
Qed.

(* the one-step statements at every reachable state *)
Lemma run_kl_bound q ops d : q_depth q = Some d -> 0 <= d -> kl_bound d (run q ops).
Proof. intros Hd Hd0 h. now apply keep_last_bound. Qed.

Theorem rejected3_needs_non_alive_reach q ops d w data k h t rts h' :
  q_depth q = Some d -> 0 <= d -> lim_ok (q_mspi q) d = true ->
  snd (add_change (run q ops) w data k h t rts) = Rejected h' 3 ->
  exists s, In s (r_samples (run q ops)) /\ s_inst s = h /\ s_kind s <> KAlive.
Proof.
  intros Hd Hd0 Hl. apply rejected3_needs_non_alive with (d := d); rewrite ?run_qos; auto.
  now apply run_kl_bound.
Qed.
Theorem never_rejected_for_depth_reach q ops d w data k h t rts h' :
  q_depth q = Some d -> 0 <= d -> lim_ok (q_mspi q) d = true ->
  (forall s, In s (r_samples (run q ops)) -> s_inst s = h -> s_kind s = KAlive) ->
  snd (add_change (run q ops) w data k h t rts) <> Rejected h' 3.
Proof.
  intros Hd Hd0 Hl Hal. apply never_rejected_for_depth with (d := d); rewrite ?run_qos; auto.
  now apply run_kl_bound.
Qed.

(* ------------------------------------------------------------------------- *)
(* the correspondence oracle is a consequence of the theorems: C18_oracle_ok    *)
(* accepts whatever the model produces                                         *)
(* ------------------------------------------------------------------------- *)
Definition ev_of (r : reader) (x : obs) : ev :=
  match x with ObsAdd a => EvAdd a | ObsColl c => EvColl (probe r) c | ObsUnit => EvUnit end.
Lemma model_evs_cons r o t :
  model_evs r (o :: t) =
  (fst (model_evs (fst (step r o)) t), ev_of r (snd (step r o)) :: snd (model_evs (fst (step r o)) t)).
Proof.
  cbn [model_evs]. destruct (step r o) as [r1 x]. cbn [fst snd].
  destruct (model_evs r1 t). destruct x; reflexivity.
Qed.
Lemma model_evs_state ops : forall r, fst (model_evs r ops) = fst (run_obs r ops).
Proof.
  induction ops as [|o t IH]; intros r; [reflexivity|].
  rewrite model_evs_cons, run_obs_cons. cbn [fst]. apply IH.
Qed.
Lemma run_trace_cons r o t :
  run_trace r (o :: t) = (o, snd (step r o)) :: run_trace (fst (step r o)) t.
Proof. unfold run_trace. rewrite run_obs_cons. reflexivity. Qed.

Definition added_one (h : Z) (oe : op * ev) : list Z :=
  match oe with
  | (OpAdd _ h' _ _ d _, EvAdd Added) => if h' =? h then [d] else []
  | _ => [] end.
Lemma model_added_data h ops : forall r,
  flat_map (added_one h) (zip ops (snd (model_evs r ops))) = accepted h (run_trace r ops).
Proof.
  induction ops as [|o t IH]; intros r; [reflexivity|].
  rewrite model_evs_cons, run_trace_cons. cbn [snd zip flat_map]. unfold accepted in *. cbn [flat_map].
  rewrite IH. f_equal. destruct o; cbn [step]; repeat break_match; reflexivity.
Qed.
Lemma model_no_rej3 ops : forall r,
  Forall no_rej3 (run_trace r ops) ->
  forallb (fun e => match e with EvAdd (Rejected _ 3) => false | _ => true end) (snd (model_evs r ops)) = true.
Proof.
  induction ops as [|o t IH]; intros r H; [reflexivity|].
  rewrite model_evs_cons. rewrite run_trace_cons in H. inversion H as [|? ? H1 H2]; subst.
  cbn [snd forallb]. rewrite (IH _ H2), andb_true_r.
  unfold no_rej3 in H1. cbn [snd] in H1. destruct (snd (step r o)) as [a| |]; cbn [ev_of]; try reflexivity.
  destruct a as [| |h0 c| |]; try reflexivity.
  destruct (Z.eq_dec c 3) as [->|Hne]; [elim (H1 h0); reflexivity|].
  destruct c as [|[[p|p|]|p|]|p]; try reflexivity. now elim Hne.
Qed.
Lemma list_eqb_Z_refl l : list_eqb Z.eqb l l = true.
Proof. induction l as [|x l IH]; [reflexivity|]. cbn [list_eqb]. now rewrite Z.eqb_refl, IH. Qed.
Lemma forallb_andb {A} (f g : A -> bool) l :
  forallb (fun x => f x && g x) l = forallb f l && forallb g l.
Proof.
  induction l as [|x l IH]; [reflexivity|]. cbn [forallb]. rewrite IH.
  destruct (f x), (g x), (forallb f l), (forallb g l); reflexivity.
Qed.

Theorem oracle_holds_on_model q ops :
  match q_depth q with Some d => 1 <= d | None => True end ->
  C18_oracle_ok (model_case q ops) = true.
Proof.
  intros Hd. unfold C18_oracle_ok, model_case, all_adds_alive, no_takes, added_data_of, trace, final_insts.
  cbn [rc_q rc_ops rc_evs rc_fs]. rewrite model_evs_state.
  change (fst (run_obs (init_reader q) ops)) with (run q ops).
  change (forallb (fun o : op => match o with OpAdd _ _ k _ _ _ => kind_eqb k KAlive | _ => true end) ops)
    with (forallb alive_add ops).
  change (forallb (fun o : op => match o with OpTake _ _ _ | OpTakeNext _ _ _ => false | _ => true end) ops)
    with (forallb not_take ops).
  destruct (q_depth q) as [d|] eqn:Ed.
  - apply andb_true_iff; split; [apply andb_true_iff; split|].
    + apply forallb_forall. intros h _. apply Z.leb_le. apply keep_last_bound with (d := d); [exact Ed|lia].
    + destruct (forallb alive_add ops && lim_ok (q_mspi q) d) eqn:E; [|reflexivity].
      apply andb_true_iff in E as [E1 E2]. apply model_no_rej3.
      apply never_rejected_for_depth_run with (d := d); auto. lia.
    + destruct (forallb alive_add ops && forallb not_take ops && negb (q_bysrc q)) eqn:E; [|reflexivity].
      apply andb_true_iff in E as [E1 E3]. apply negb_true_iff in E3.
      apply forallb_forall. intros h _.
      replace (flat_map (fun oe : op * ev =>
                 match oe with
                 | (OpAdd _ h' _ _ d0 _, EvAdd Added) => if h' =? h then [d0] else []
                 | _ => [] end) (zip ops (snd (model_evs (init_reader q) ops))))
        with (accepted h (run_trace (init_reader q) ops)) by (symmetry; apply (model_added_data h ops)).
      rewrite <- (keep_last_newest q ops d h E3 Ed Hd); [apply list_eqb_Z_refl|].
      now rewrite forallb_andb.
  - destruct (forallb not_take ops) eqn:E; [|reflexivity].
    apply forallb_forall. intros h _.
    destruct (q_bysrc q) eqn:Eb; [apply orb_true_r|]. apply orb_true_iff. left.
    replace (flat_map (fun oe : op * ev =>
               match oe with
               | (OpAdd _ h' _ _ d0 _, EvAdd Added) => if h' =? h then [d0] else []
               | _ => [] end) (zip ops (snd (model_evs (init_reader q) ops))))
      with (accepted h (run_trace (init_reader q) ops)) by (symmetry; apply (model_added_data h ops)).
    destruct (keep_all_keeps q ops Ed E) as [_ K]. rewrite (K Eb h). apply list_eqb_Z_refl.
Qed.
