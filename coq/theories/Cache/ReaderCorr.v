(* Correspondence vocabulary and property oracles for the reader cache (C18..C25).
   A case = QoS + operation sequence + what the REAL reader returned for each op
   (for read/take ops also the state before the op, observed on a replayed copy),
   the final cache state and a final probe.  `Rdr_model_ok` compares all of it
   with the model; the `Cxx_oracle_ok` functions judge the implementation's own
   outputs against the property text (they do not call the model's add/collect). *)
From DustDDS Require Export Base.Machine Cache.ReaderModel.
Open Scope Z_scope.

Inductive ev := EvAdd (a : add_result) | EvColl (pre : coll_result) (c : coll_result) | EvUnit.
Record Rdr_case := mkRdr {
  rc_q : qos; rc_ops : list op; rc_evs : list ev;
  rc_fs : list sample; rc_fi : list Z; rc_fo : list own; rc_probe : coll_result }.

(* ---------- equality ---------- *)
Definition opt_eqb (a b : option Z) := ts_eqb a b.
Definition sample_eqb (a b : sample) : bool :=
  kind_eqb (s_kind a) (s_kind b) && (s_writer a =? s_writer b) && (s_inst a =? s_inst b) &&
  ts_eqb (s_ts a) (s_ts b) && (s_data a =? s_data b) && sstate_eqb (s_ss a) (s_ss b) &&
  (s_dgc a =? s_dgc b) && (s_nwgc a =? s_nwgc b).
Definition info_eqb (a b : info) : bool :=
  (f_data a =? f_data b) && (f_inst a =? f_inst b) && Bool.eqb (f_valid a) (f_valid b) &&
  sstate_eqb (f_ss a) (f_ss b) && vstate_eqb (f_vs a) (f_vs b) && istate_eqb (f_is a) (f_is b) &&
  (f_dgc a =? f_dgc b) && (f_nwgc a =? f_nwgc b) && (f_srank a =? f_srank b) &&
  (f_grank a =? f_grank b) && (f_agrank a =? f_agrank b) && ts_eqb (f_ts a) (f_ts b) &&
  (f_pub a =? f_pub b).
Definition own_eqb (a b : own) : bool :=
  (o_inst a =? o_inst b) && (o_owner a =? o_owner b) && (o_last a =? o_last b).
Fixpoint list_eqb {A} (e : A -> A -> bool) (x y : list A) : bool :=
  match x, y with
  | [], [] => true
  | a :: x', b :: y' => e a b && list_eqb e x' y'
  | _, _ => false
  end.
Definition add_eqb (a b : add_result) : bool :=
  match a, b with
  | Added, Added | NotAdded, NotAdded | AddError, AddError | AddPanic, AddPanic => true
  | Rejected h r, Rejected h' r' => (h =? h') && (r =? r')
  | _, _ => false
  end.
Definition coll_eqb (a b : coll_result) : bool :=
  match a, b with
  | CollOk x, CollOk y => list_eqb info_eqb x y
  | NoData, NoData | BadParameter, BadParameter | NotEnabled, NotEnabled => true
  | _, _ => false
  end.
Definition ev_eqb (a b : ev) : bool :=
  match a, b with
  | EvAdd x, EvAdd y => add_eqb x y
  | EvColl p c, EvColl p' c' => coll_eqb p p' && coll_eqb c c'
  | EvUnit, EvUnit => true
  | _, _ => false
  end.

(* ---------- running the model on a case ---------- *)
Definition all_masks : masks := mkM true true true true true true true.
Definition probe (r : reader) : coll_result := snd (collect r 2147483647 all_masks None false).
Definition is_coll_op (o : op) : bool :=
  match o with OpRead _ _ _ | OpTake _ _ _ | OpReadNext _ _ _ | OpTakeNext _ _ _ => true | _ => false end.

Fixpoint model_evs (r : reader) (ops : list op) : reader * list ev :=
  match ops with
  | [] => (r, [])
  | o :: t =>
      let '(r1, x) := step r o in
      let e := match x with
               | ObsAdd a => EvAdd a
               | ObsColl c => EvColl (probe r) c
               | ObsUnit => EvUnit
               end in
      let '(r2, es) := model_evs r1 t in (r2, e :: es)
  end.

Definition Rdr_model_ok (c : Rdr_case) : bool :=
  let '(r, es) := model_evs (init_reader (rc_q c)) (rc_ops c) in
  list_eqb ev_eqb es (rc_evs c) &&
  list_eqb sample_eqb (r_samples r) (rc_fs c) &&
  list_eqb Z.eqb (map i_handle (r_insts r)) (rc_fi c) &&
  list_eqb own_eqb (r_owns r) (rc_fo c) &&
  coll_eqb (probe r) (rc_probe c).

(* ---------- helpers over the implementation's trace ---------- *)
Definition infos (c : coll_result) : list info := match c with CollOk l => l | _ => [] end.
Fixpoint zip {A B} (a : list A) (b : list B) : list (A * B) :=
  match a, b with x :: a', y :: b' => (x, y) :: zip a' b' | _, _ => [] end.
Definition trace (c : Rdr_case) : list (op * ev) := zip (rc_ops c) (rc_evs c).
(* every collection the implementation presented (ops and final probe) *)
Definition presented (c : Rdr_case) : list (list info) :=
  flat_map (fun oe => match snd oe with EvColl _ x => [infos x] | _ => [] end) (trace c)
  ++ [infos (rc_probe c)].
Definition memZ (x : Z) (l : list Z) : bool := existsb (Z.eqb x) l.
Fixpoint forall_pairs {A} (p : A -> A -> bool) (l : list A) : bool :=
  match l with [] => true | x :: t => forallb (p x) t && forall_pairs p t end.
Definition lim_ok (lim : option Z) (n : Z) : bool := match lim with None => true | Some v => n <=? v end.
Fixpoint lastn {A} (n : nat) (l : list A) : list A :=
  if Nat.leb (length l) n then l else match l with [] => [] | _ :: t => lastn n t end.
Definition all_adds_alive (c : Rdr_case) : bool :=
  forallb (fun o => match o with OpAdd _ _ k _ _ _ => kind_eqb k KAlive | _ => true end) (rc_ops c).
Definition no_takes (c : Rdr_case) : bool :=
  forallb (fun o => match o with OpTake _ _ _ | OpTakeNext _ _ _ => false | _ => true end) (rc_ops c).
Definition added_data_of (c : Rdr_case) (h : Z) : list Z :=
  flat_map (fun oe => match oe with
                      | (OpAdd _ h' _ _ d _, EvAdd Added) => if h' =? h then [d] else []
                      | _ => [] end) (trace c).
Definition final_insts (c : Rdr_case) : list Z := distinct_insts (rc_fs c) [].

(* ---------- C21: BY_SOURCE_TIMESTAMP order ---------- *)
Definition sorted_per_inst (l : list info) : bool :=
  forall_pairs (fun x y => if f_inst x =? f_inst y then ts_leb (f_ts x) (f_ts y) else true) l.
Definition C21_oracle_ok (c : Rdr_case) : bool :=
  if q_bysrc (rc_q c) then
    forallb sorted_per_inst (presented c) &&
    forall_pairs (fun x y => if s_inst x =? s_inst y then ts_leb (s_ts x) (s_ts y) else true) (rc_fs c)
  else true.
Definition C21_known (c : Rdr_case) : N := 0%N.
Definition C21_model_ok := Rdr_model_ok.

(* ---------- C18: KEEP_LAST / KEEP_ALL ---------- *)
Definition C18_oracle_ok (c : Rdr_case) : bool :=
  let q := rc_q c in
  match q_depth q with
  | Some d =>
      (* at most depth alive samples per instance *)
      forallb (fun h => count (alive_of_inst h) (rc_fs c) <=? d) (final_insts c) &&
      (* never rejected for samples-per-instance when only alive samples arrive and depth <= mspi *)
      (if all_adds_alive c && lim_ok (q_mspi q) d
       then forallb (fun e => match e with EvAdd (Rejected _ 3) => false | _ => true end) (rc_evs c)
       else true) &&
      (* the stored samples are the newest accepted ones *)
      (if all_adds_alive c && no_takes c && negb (q_bysrc q)
       then forallb (fun h =>
              list_eqb Z.eqb (map s_data (filter (of_inst h) (rc_fs c)))
                             (lastn (Z.to_nat d) (added_data_of c h)))
            (flat_map (fun o => match o with OpAdd _ h _ _ _ _ => [h] | _ => [] end) (rc_ops c))
       else true)
  | None =>
      (* KEEP_ALL: nothing accepted disappears unless taken *)
      if no_takes c
      then forallb (fun h =>
              list_eqb Z.eqb (map s_data (filter (of_inst h) (rc_fs c))) (added_data_of c h) || q_bysrc q)
            (flat_map (fun o => match o with OpAdd _ h _ _ _ _ => [h] | _ => [] end) (rc_ops c))
      else true
  end.
Definition C18_known (c : Rdr_case) : N := 0%N.
Definition C18_model_ok := Rdr_model_ok.

(* The oracle the C18 check applies (prefix C18s): C18_oracle_ok above (whose validity on
   the model is a theorem, C18_oracle_holds_on_model) PLUS the bound of the property text
   counted over ALL samples of an instance.  The code bounds only samples of kind Alive
   (KEEP_LAST counts and evicts Alive samples only), so not-alive samples accumulate:
   class 1 = recorded finding C18-notalive-not-bounded. *)
Definition total_bound (c : Rdr_case) : bool :=
  match q_depth (rc_q c) with
  | Some d => forallb (fun h => count (of_inst h) (rc_fs c) <=? d) (final_insts c)
  | None => true
  end.
Definition C18s_oracle_ok (c : Rdr_case) : bool := C18_oracle_ok c && total_bound c.
Definition C18s_known (c : Rdr_case) : N :=
  if C18_oracle_ok c && negb (total_bound c) && negb (all_adds_alive c) then 1%N else 0%N.
Definition C18s_model_ok := Rdr_model_ok.

(* ---------- C19: resource limits ---------- *)
Definition rejected_data (c : Rdr_case) : list Z :=
  flat_map (fun oe => match oe with
                      | (OpAdd _ _ _ _ d _, EvAdd (Rejected _ _)) => [d]
                      | _ => [] end) (trace c).
Definition pre_states (c : Rdr_case) : list (list info) :=
  flat_map (fun oe => match snd oe with EvColl p _ => [infos p] | _ => [] end) (trace c)
  ++ [infos (rc_probe c)].
Definition distinct_info_insts (l : list info) : list Z :=
  fold_left (fun acc x => if memZ (f_inst x) acc then acc else acc ++ [f_inst x]) l [].
Definition within_limits (q : qos) (l : list info) : bool :=
  lim_ok (q_ms q) (Z.of_nat (length l)) &&
  lim_ok (q_mi q) (Z.of_nat (length (distinct_info_insts l))) &&
  forallb (fun h => lim_ok (q_mspi q) (count (fun x => f_inst x =? h) l)) (distinct_info_insts l).
Definition C19_oracle_ok (c : Rdr_case) : bool :=
  let q := rc_q c in
  (* every observed cache state (before each read/take, and at the end) is within the limits *)
  forallb (within_limits q) (pre_states c) &&
  lim_ok (q_ms q) (Z.of_nat (length (rc_fs c))) &&
  (* a rejected sample is never stored or presented *)
  forallb (fun d => negb (memZ d (map s_data (rc_fs c))) &&
                    forallb (fun l => negb (memZ d (map f_data l))) (presented c ++ pre_states c))
          (rejected_data c) &&
  (* the reported reason names a limit that is actually configured *)
  forallb (fun e => match e with
                    | EvAdd (Rejected _ 1) => match q_mi q with Some _ => true | None => false end
                    | EvAdd (Rejected _ 2) => match q_ms q with Some _ => true | None => false end
                    | EvAdd (Rejected _ 3) => match q_mspi q with Some _ => true | None => false end
                    | EvAdd (Rejected _ _) => false
                    | _ => true end) (rc_evs c).
Definition C19_known (c : Rdr_case) : N := 0%N.
Definition C19_model_ok := Rdr_model_ok.

(* ---------- C20: read/take return exactly the matching samples ---------- *)
Definition info_matches (m : masks) (hsel : option Z) (x : info) : bool :=
  ss_in m (f_ss x) && vs_in m (f_vs x) && is_in m (f_is x) &&
  match hsel with Some h => f_inst x =? h | None => true end.
Fixpoint take_z {A} (n : Z) (l : list A) : list A :=
  match l with [] => [] | x :: t => if n <=? 0 then [] else x :: take_z (n - 1) t end.
Definition firstn_z (n : Z) {A} (l : list A) : list A :=
  if n <? 0 then l else take_z n l.
Definition gen_of (x : info) : Z := f_dgc x + f_nwgc x.
Definition ranks_ok (byrecv : bool) (l : list info) : bool :=
  (fix go (t : list info) : bool :=
     match t with
     | [] => true
     | x :: t' =>
         (f_srank x =? later_same (f_inst x) t') &&
         (f_grank x =? (fold_left (fun acc y => if f_inst y =? f_inst x then gen_of y else acc) l 0) - gen_of x) &&
         (if byrecv then (0 <=? f_grank x) && (f_grank x <=? f_agrank x) else true) && go t'
     end) l &&
  forall_pairs (fun x y => if f_inst x =? f_inst y then (f_agrank x + gen_of x =? f_agrank y + gen_of y) else true) l.
(* the collection expected from the state observed just before the op *)
Definition expected_coll (pre : list info) (max : Z) (m : masks) (hsel : option Z) : list info :=
  firstn_z max (filter (info_matches m hsel) pre).
Definition same_samples (a b : list info) : bool :=
  list_eqb (fun x y => (f_data x =? f_data y) && (f_inst x =? f_inst y) && sstate_eqb (f_ss x) (f_ss y) &&
                       vstate_eqb (f_vs x) (f_vs y) && istate_eqb (f_is x) (f_is y) &&
                       (f_dgc x =? f_dgc y) && (f_nwgc x =? f_nwgc y) && ts_eqb (f_ts x) (f_ts y) &&
                       (f_pub x =? f_pub y) && Bool.eqb (f_valid x) (f_valid y) && (f_agrank x =? f_agrank y)) a b.
Definition coll_op_ok (byrecv : bool) (o : op) (e : ev) : bool :=
  match o, e with
  | OpRead max m hsel, EvColl pre c | OpTake max m hsel, EvColl pre c =>
      match c with
      | CollOk l => same_samples l (expected_coll (infos pre) max m hsel) && ranks_ok byrecv l &&
                    negb (Nat.eqb (length l) 0)
      | NoData => Nat.eqb (length (expected_coll (infos pre) max m hsel)) 0
      | BadParameter => match hsel with Some h => true | None => false end
      | NotEnabled => false
      end
  | _, _ => true
  end.
(* effect on later observations: read marks READ and keeps, take removes *)
Fixpoint effects_ok (tr : list (op * ev)) (final : list info) : bool :=
  match tr with
  | [] => true
  | (o, EvColl _ (CollOk l)) :: t =>
      let next_state := match t with
                        | [] => final
                        | _ => match flat_map (fun oe => match snd oe with EvColl p _ => [infos p] | _ => [] end) t with
                               | p :: _ => p | [] => final end
                        end in
      (match o with
       | OpTake _ _ _ | OpTakeNext _ _ _ =>
           forallb (fun x => negb (memZ (f_data x) (map f_data next_state))) l
       | _ => forallb (fun x => forallb (fun y => if f_data y =? f_data x then sstate_eqb (f_ss y) SRead else true) next_state) l
       end) && effects_ok t final
  | _ :: t => effects_ok t final
  end.
(* "grouped by instance": the samples of one instance are consecutive in a collection *)
Fixpoint grouped_from (seen : list Z) (cur : Z) (l : list info) : bool :=
  match l with
  | [] => true
  | x :: t => if f_inst x =? cur then grouped_from seen cur t
              else negb (memZ (f_inst x) seen) && grouped_from (cur :: seen) (f_inst x) t
  end.
Definition grouped (l : list info) : bool :=
  match l with [] => true | x :: t => grouped_from [] (f_inst x) t end.
Definition C20_core_ok (c : Rdr_case) : bool :=
  forallb (fun oe => coll_op_ok (negb (q_bysrc (rc_q c))) (fst oe) (snd oe)) (trace c) &&
  effects_ok (trace c) (infos (rc_probe c)).
Definition all_grouped (c : Rdr_case) : bool :=
  forallb (fun oe => match snd oe with EvColl _ (CollOk l) => grouped l | _ => true end) (trace c).
Definition C20_oracle_ok (c : Rdr_case) : bool := C20_core_ok c && all_grouped c.
(* class 1: everything else holds, but a returned collection interleaves instances
   (storage order is returned as is; recorded finding C20-not-grouped-by-instance) *)
Definition C20_known (c : Rdr_case) : N :=
  if C20_core_ok c && negb (all_grouped c) then 1%N else 0%N.
Definition C20_model_ok := Rdr_model_ok.

(* ---------- C23: read/take_next_instance ---------- *)
Definition next_expected (pre : list info) (prev : option Z) (m : masks) : option Z :=
  fold_left (fun acc x =>
      if info_matches m None x && match prev with Some p => p <? f_inst x | None => true end
      then match acc with None => Some (f_inst x) | Some a => Some (Z.min a (f_inst x)) end
      else acc) pre None.
Definition next_op_ok (o : op) (e : ev) : bool :=
  match o, e with
  | OpReadNext max prev m, EvColl pre c | OpTakeNext max prev m, EvColl pre c =>
      match next_expected (infos pre) prev m, c with
      | None, NoData => true
      | Some h, CollOk l => same_samples l (expected_coll (infos pre) max m (Some h)) || (max =? 0)
      | Some h, NoData => max =? 0
      | _, _ => false
      end
  | _, _ => true
  end.
Definition C23_oracle_ok (c : Rdr_case) : bool :=
  forallb (fun oe => next_op_ok (fst oe) (snd oe)) (trace c).
Definition C23_known (c : Rdr_case) : N := 0%N.
Definition C23_model_ok := Rdr_model_ok.

(* ---------- C22: instance life cycle against the DDS automaton ---------- *)
Record sinst := mkSI { si_h : Z; si_state : istate; si_view : vstate; si_dgc : Z; si_nwgc : Z; si_writers : list Z }.
Record spec_st := mkSP { sp_insts : list sinst; sp_gens : list (Z * (Z * Z)) }.
Fixpoint sp_find (h : Z) (l : list sinst) : option sinst :=
  match l with [] => None | x :: t => if si_h x =? h then Some x else sp_find h t end.
Fixpoint sp_set (x : sinst) (l : list sinst) : list sinst :=
  match l with [] => [x] | y :: t => if si_h y =? si_h x then x :: t else y :: sp_set x t end.
Definition add_w (w : Z) (l : list Z) : list Z := if memZ w l then l else w :: l.
Definition del_w (w : Z) (l : list Z) : list Z := filter (fun x => negb (x =? w)) l.
(* one stored change *)
Definition spec_change (i : sinst) (w : Z) (k : kind) : sinst :=
  match k with
  | KAlive =>
      match si_state i with
      | IAlive => mkSI (si_h i) IAlive (si_view i) (si_dgc i) (si_nwgc i) (add_w w (si_writers i))
      | IDisposed => mkSI (si_h i) IAlive VNew (si_dgc i + 1) (si_nwgc i) (add_w w (si_writers i))
      | INoWriters => mkSI (si_h i) IAlive VNew (si_dgc i) (si_nwgc i + 1) (add_w w (si_writers i))
      end
  | KAliveFiltered => i
  | KDisposed =>
      mkSI (si_h i) (match si_state i with IAlive => IDisposed | x => x end) (si_view i) (si_dgc i) (si_nwgc i) (si_writers i)
  | KUnregistered =>
      let ws := del_w w (si_writers i) in
      mkSI (si_h i) (match si_state i, ws with IAlive, [] => INoWriters | x, _ => x end)
           (si_view i) (si_dgc i) (si_nwgc i) ws
  | KDisposedUnregistered =>
      mkSI (si_h i) (match si_state i with IAlive => IDisposed | x => x end) (si_view i) (si_dgc i) (si_nwgc i)
           (del_w w (si_writers i))
  end.
Definition spec_info_ok (sp : spec_st) (x : info) : bool :=
  match sp_find (f_inst x) (sp_insts sp) with
  | None => false
  | Some i =>
      istate_eqb (f_is x) (si_state i) && vstate_eqb (f_vs x) (si_view i) &&
      match find (fun g => fst g =? f_data x) (sp_gens sp) with
      | Some (_, (d, n)) => (f_dgc x =? d) && (f_nwgc x =? n)
      | None => false
      end
  end.
Definition spec_viewed (sp : spec_st) (l : list info) : spec_st :=
  mkSP (map (fun i => if memZ (si_h i) (map f_inst l)
                      then mkSI (si_h i) (si_state i) VNotNew (si_dgc i) (si_nwgc i) (si_writers i) else i)
            (sp_insts sp)) (sp_gens sp).
(* walks the trace; returns false at the first SampleInfo that deviates *)
Fixpoint spec_walk (sp : spec_st) (tr : list (op * ev)) (final : list info) : bool :=
  match tr with
  | [] => forallb (spec_info_ok sp) final
  | (OpAdd w h k _ d _, EvAdd Added) :: t =>
      let i0 := match sp_find h (sp_insts sp) with
                | Some i => i
                | None => mkSI h IAlive VNew 0 0 [] end in
      let i1 := spec_change i0 w k in
      spec_walk (mkSP (sp_set i1 (sp_insts sp)) ((d, (si_dgc i1, si_nwgc i1)) :: sp_gens sp)) t final
  | (_, EvColl _ (CollOk l)) :: t =>
      forallb (spec_info_ok sp) l && spec_walk (spec_viewed sp l) t final
  | _ :: t => spec_walk sp t final
  end.
Definition has_filtered (c : Rdr_case) : bool :=
  existsb (fun o => match o with OpAdd _ _ KAliveFiltered _ _ _ => true | _ => false end) (rc_ops c).
Definition C22_oracle_ok (c : Rdr_case) : bool :=
  has_filtered c || spec_walk (mkSP [] []) (trace c) (infos (rc_probe c)).
(* known classes: 2 = a change that was not stored (NotAdded / Rejected) is in the trace
   (the code updates the instance state before it decides to store);
   1 = an unregister arrives while another writer of the instance is still registered *)
Fixpoint multi_writer_unreg (sp : list (Z * list Z)) (tr : list (op * ev)) : bool :=
  match tr with
  | [] => false
  | (OpAdd w h k _ _ _, EvAdd Added) :: t =>
      let ws := match find (fun x => fst x =? h) sp with Some (_, l) => l | None => [] end in
      let others := del_w w ws in
      match k with
      | KUnregistered => negb (Nat.eqb (length others) 0) || multi_writer_unreg ((h, others) :: sp) t
      | KDisposedUnregistered => multi_writer_unreg ((h, others) :: sp) t
      | KAlive => multi_writer_unreg ((h, add_w w ws) :: sp) t
      | _ => multi_writer_unreg sp t
      end
  | _ :: t => multi_writer_unreg sp t
  end.
(* a change that was NOT stored (NotAdded / Rejected) would, had it been stored, have
   changed the instance state of the DDS automaton (or created the instance) *)
Fixpoint nonstored_state_change (sp : list sinst) (tr : list (op * ev)) : bool :=
  match tr with
  | [] => false
  | (OpAdd w h k _ _ _, EvAdd a) :: t =>
      let i0 := match sp_find h sp with Some i => i | None => mkSI h IAlive VNew 0 0 [] end in
      let i1 := spec_change i0 w k in
      match a with
      | Added => nonstored_state_change (sp_set i1 sp) t
      | NotAdded | Rejected _ _ =>
          negb (istate_eqb (si_state i1) (si_state i0)) ||
          (match k with
           | KDisposed | KUnregistered | KDisposedUnregistered => istate_eqb (si_state i0) IAlive
           | KAlive => negb (istate_eqb (si_state i0) IAlive)
           | KAliveFiltered => false end) ||
          match sp_find h sp with None => true | Some _ => false end ||
          nonstored_state_change sp t
      | _ => nonstored_state_change sp t
      end
  | _ :: t => nonstored_state_change sp t
  end.
Definition C22_known (c : Rdr_case) : N :=
  if nonstored_state_change [] (trace c) then 2%N
  else if multi_writer_unreg [] (trace c) then 1%N else 0%N.
Definition C22_model_ok := Rdr_model_ok.

(* ---------- C24: exclusive ownership ---------- *)
Record own_st := mkOS { os_owner : list (Z * Z); os_matched : list (Z * Z) }.
Definition assoc (k : Z) (l : list (Z * Z)) : option Z :=
  match find (fun x => fst x =? k) l with Some (_, v) => Some v | None => None end.
Definition unassoc (k : Z) (l : list (Z * Z)) : list (Z * Z) := filter (fun x => negb (fst x =? k)) l.
Definition no_gates (q : qos) : bool :=
  match q_ms q, q_mi q, q_mspi q, q_sep q with None, None, None, Some 0 => true | _, _, _, _ => false end.
Fixpoint own_walk (q : qos) (st : own_st) (tr : list (op * ev)) : bool :=
  match tr with
  | [] => true
  | (OpMatch w s, _) :: t => own_walk q (mkOS (os_owner st) ((w, s) :: unassoc w (os_matched st))) t
  | (OpUnmatch w, _) :: t =>
      own_walk q (mkOS (filter (fun x => negb (snd x =? w)) (os_owner st)) (unassoc w (os_matched st))) t
  | (OpAdd w h k _ _ _, EvAdd a) :: t =>
      match assoc w (os_matched st) with
      | None => (* data from an unmatched writer: outside the property; stop judging *) true
      | Some sw =>
          let expect :=
            match assoc h (os_owner st) with
            | None => true
            | Some o => (o =? w) || match assoc o (os_matched st) with Some so => so <? sw | None => true end
            end in
          let stored := match a with Added => true | _ => false end in
          (if stored then expect else true) &&
          (if expect && no_gates q then stored || match a with AddError => true | _ => false end else true) &&
          own_walk q (if stored then
                        mkOS (if is_alive_kind k then (h, w) :: unassoc h (os_owner st) else unassoc h (os_owner st))
                             (os_matched st)
                      else st) t
      end
  | _ :: t => own_walk q st t
  end.
Definition C24_oracle_ok (c : Rdr_case) : bool :=
  if q_excl (rc_q c) then
    own_walk (rc_q c) (mkOS [] []) (trace c) &&
    (* instance-state changes only through stored (owner) changes *)
    (has_filtered c || spec_walk (mkSP [] []) (trace c) (infos (rc_probe c)))
  else true.
(* the accept/reject decisions are never excused; only the instance-state clause has
   recorded deviations *)
Definition C24_known (c : Rdr_case) : N :=
  if negb (own_walk (rc_q c) (mkOS [] []) (trace c)) then 0%N
  else if nonstored_state_change [] (trace c) then 1%N
  else if multi_writer_unreg [] (trace c) then 2%N else 0%N.
Definition C24_model_ok := Rdr_model_ok.

(* ---------- C25: time-based filter ---------- *)
Definition all_seen (c : Rdr_case) : list info := concat (presented c ++ pre_states c).
Definition sep_ok (s : Z) (x y : info) : bool :=
  if (f_inst x =? f_inst y) && negb (f_data x =? f_data y) then
    match f_ts x, f_ts y with
    | Some a, Some b => s <=? Z.abs (a - b)
    | _, _ => true
    end
  else true.
(* adds that are far enough from every sample of the instance accepted before must be accepted *)
Fixpoint overfilter_walk (s : Z) (acc : list (Z * Z)) (tr : list (op * ev)) : bool :=
  match tr with
  | [] => true
  | (OpAdd _ h _ (Some t0) _ _, EvAdd a) :: t =>
      let far := forallb (fun x => if fst x =? h then s <=? Z.abs (snd x - t0) else true) acc in
      match a with
      | Added => overfilter_walk s ((h, t0) :: acc) t
      | NotAdded => negb far && overfilter_walk s acc t
      | _ => overfilter_walk s acc t
      end
  | _ :: t => overfilter_walk s acc t
  end.
Definition C25_oracle_ok (c : Rdr_case) : bool :=
  match q_sep (rc_q c) with
  | Some s =>
      if 0 <? s then
        forall_pairs (sep_ok s) (all_seen c) &&
        (if q_excl (rc_q c) then true else overfilter_walk s [] (trace c))
      else true
  | None => true
  end.
(* known classes: 1 = a sample arrives with a source timestamp earlier than an already
   accepted sample of its instance (only the closest EARLIER stored sample is consulted);
   2 = a take precedes an add (taken samples are forgotten by the filter) *)
Fixpoint out_of_order (acc : list (Z * Z)) (tr : list (op * ev)) : bool :=
  match tr with
  | [] => false
  | (OpAdd _ h _ (Some t0) _ _, EvAdd a) :: t =>
      existsb (fun x => (fst x =? h) && (t0 <? snd x)) acc ||
      out_of_order (match a with Added => (h, t0) :: acc | _ => acc end) t
  | _ :: t => out_of_order acc t
  end.
Fixpoint take_before_add (seen_take : bool) (ops : list op) : bool :=
  match ops with
  | [] => false
  | OpTake _ _ _ :: t | OpTakeNext _ _ _ :: t => take_before_add true t
  | OpAdd _ _ _ _ _ _ :: t => seen_take || take_before_add seen_take t
  | _ :: t => take_before_add seen_take t
  end.
Definition keep_last_evicts (c : Rdr_case) : bool :=
  match q_depth (rc_q c) with Some _ => true | None => false end.
Definition C25_known (c : Rdr_case) : N :=
  if out_of_order [] (trace c) then 1%N
  else if take_before_add false (rc_ops c) || keep_last_evicts c then 2%N else 0%N.
Definition C25_model_ok := Rdr_model_ok.
