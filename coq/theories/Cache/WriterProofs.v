(* C19, writer clause: DataWriterEntity::write_w_timestamp refuses exactly the writes that
   would exceed a limit, stores nothing for them (except for a recorded deviation: the
   instance stays registered), and never exceeds the limits when driven by DataWriter::write. *)
From DustDDS Require Import Base.Machine Cache.WriterModel.
Open Scope Z_scope.

(* ---- sums and first-match updates ---- *)
Lemma fold_total l : forall a, fold_left (fun acc x => acc + slen x) l a = a + total l.
Proof.
  unfold total. induction l as [|x l IH]; intros a; cbn [fold_left]; [lia|].
  rewrite (IH (a + slen x)), (IH (0 + slen x)). lia.
Qed.
Lemma total_nil : total [] = 0.
Proof. reflexivity. Qed.
Lemma total_cons x l : total (x :: l) = slen x + total l.
Proof. unfold total at 1. cbn [fold_left]. rewrite fold_total. lia. Qed.
Lemma total_app l1 l2 : total (l1 ++ l2) = total l1 + total l2.
Proof. induction l1 as [|x l1 IH]; cbn [app]; rewrite ?total_nil, ?total_cons; lia. Qed.
Lemma slen_nonneg x : 0 <= slen x.
Proof. unfold slen. lia. Qed.
Lemma total_nonneg l : 0 <= total l.
Proof. induction l as [|x l IH]; rewrite ?total_nil, ?total_cons; [lia|]. pose proof (slen_nonneg x). lia. Qed.

Lemma find_wi_in h l s : find_wi h l = Some s -> In s l /\ wi_h s = h.
Proof.
  induction l as [|x l IH]; cbn [find_wi]; [discriminate|].
  destruct (wi_h x =? h) eqn:E.
  - intros H. injection H as <-. apply Z.eqb_eq in E. split; [now left|exact E].
  - intros H. destruct (IH H). split; [now right|assumption].
Qed.
Lemma find_wi_existsb h l : existsb (fun x => wi_h x =? h) l = true <-> exists s, find_wi h l = Some s.
Proof.
  induction l as [|x l IH]; cbn [existsb find_wi].
  - split; [discriminate|intros [s H]; discriminate].
  - destruct (wi_h x =? h); cbn [orb]; [split; eauto|exact IH].
Qed.
Lemma find_wi_none_app h l x : find_wi h l = None -> find_wi h (l ++ [x]) = find_wi h [x].
Proof.
  induction l as [|y l IH]; cbn [app find_wi]; [auto|]. destruct (wi_h y =? h); [discriminate|exact IH].
Qed.
Lemma find_wi_some_app h l x s : find_wi h l = Some s -> find_wi h (l ++ [x]) = Some s.
Proof.
  induction l as [|y l IH]; cbn [app find_wi]; [discriminate|]. destruct (wi_h y =? h); auto.
Qed.

(* upd_wi changes exactly the instance find_wi finds *)
Lemma upd_wi_spec h f l s :
  find_wi h l = Some s -> (forall x, wi_h (f x) = wi_h x) ->
  exists l1 l2, l = l1 ++ s :: l2 /\ upd_wi h f l = l1 ++ f s :: l2 /\ find_wi h (upd_wi h f l) = Some (f s).
Proof.
  intros H Hf. induction l as [|x l IH]; cbn [find_wi upd_wi] in *; [discriminate|].
  destruct (wi_h x =? h) eqn:E.
  - injection H as <-. exists [], l. cbn [app find_wi]. rewrite Hf, E. auto.
  - destruct (IH H) as (l1 & l2 & -> & -> & Hfind). exists (x :: l1), l2. cbn [app find_wi]. rewrite E. auto.
Qed.
Lemma upd_wi_none h f l : find_wi h l = None -> upd_wi h f l = l.
Proof.
  induction l as [|x l IH]; cbn [find_wi upd_wi]; [auto|]. destruct (wi_h x =? h); [discriminate|].
  intros H. now rewrite IH.
Qed.

(* ---- the exact case analysis of write_w_timestamp ---- *)
Definition w_touch (ts : Z) (seq : Z) (x : winst) : winst :=
  mkWI (wi_h x) (match wi_lwt x with Some l => if l <? ts then Some ts else Some l | None => Some ts end)
       (wi_samples x ++ [seq]).

Inductive write_outcome (w : writer) (h data ts now : Z) : writer * wres -> Prop :=
| WO_instances :
    w_register w h = None -> write_outcome w h data ts now (w, WOutOfResources)
| WO_mspi insts1 :
    w_register w h = Some insts1 -> w_mspi_hit (w_qos w) insts1 h = true ->
    write_outcome w h data ts now (w, WOutOfResources)
| WO_ms insts1 :
    w_register w h = Some insts1 -> w_mspi_hit (w_qos w) insts1 h = false -> w_ms_hit (w_qos w) insts1 = true ->
    write_outcome w h data ts now (w, WOutOfResources)
| WO_ok insts1 s chs :
    w_register w h = Some insts1 -> w_mspi_hit (w_qos w) insts1 h = false -> w_ms_hit (w_qos w) insts1 = false ->
    find_wi h insts1 = Some s ->
    (chs = w_changes w \/ chs = w_changes w ++ [mkCh (w_seq w + 1) h data ts]) ->
    write_outcome w h data ts now
      (mkW (upd_wi h (w_touch ts (w_seq w + 1)) insts1) (w_seq w + 1) chs (w_qos w), WOk).

Lemma w_register_found w h insts1 : w_register w h = Some insts1 -> exists s, find_wi h insts1 = Some s.
Proof.
  unfold w_register. destruct (existsb (fun x => wi_h x =? h) (w_insts w)) eqn:E.
  - intros H. injection H as <-. now apply find_wi_existsb.
  - destruct (len_lt _ _); [|discriminate]. intros H. injection H as <-.
    assert (Hn : find_wi h (w_insts w) = None).
    { destruct (find_wi h (w_insts w)) eqn:F; [|reflexivity].
      assert (X : existsb (fun x => wi_h x =? h) (w_insts w) = true) by (apply find_wi_existsb; eauto). congruence. }
    rewrite (find_wi_none_app _ _ _ Hn). cbn [find_wi wi_h]. rewrite Z.eqb_refl. eauto.
Qed.

Lemma w_write_outcome w h data ts now : write_outcome w h data ts now (w_write w h data ts now).
Proof.
  unfold w_write. destruct (w_register w h) as [insts1|] eqn:Er; [|now apply WO_instances].
  destruct (w_mspi_hit (w_qos w) insts1 h) eqn:E1; [now apply (WO_mspi w h data ts now insts1)|].
  destruct (w_ms_hit (w_qos w) insts1) eqn:E2; [now apply (WO_ms w h data ts now insts1)|].
  destruct (w_register_found _ _ _ Er) as [s Hs]. rewrite Hs.
  eapply WO_ok; eauto. destruct (match wq_life (w_qos w) with Some d => _ | None => false end); auto.
Qed.

(* the expect() of write_w_timestamp never fires *)
Theorem w_write_no_panic w h data ts now : snd (w_write w h data ts now) <> WPanic.
Proof.
  pose proof (w_write_outcome w h data ts now) as O. destruct (w_write w h data ts now) as [w' r]. cbn [snd].
  inversion O; subst; discriminate.
Qed.

(* ---- refused: exactly when a limit is in the way ---- *)
Theorem w_refused_iff w h data ts now :
  snd (w_write w h data ts now) = WOutOfResources <->
  w_register w h = None \/
  exists insts1, w_register w h = Some insts1 /\
                 (w_mspi_hit (w_qos w) insts1 h = true \/ w_ms_hit (w_qos w) insts1 = true).
Proof.
  pose proof (w_write_outcome w h data ts now) as O. destruct (w_write w h data ts now) as [w' r]. cbn [snd].
  inversion O as [Hr|insts1 Hr H1|insts1 Hr H1 H2|insts1 s chs Hr H1 H2 Hf Hc]; subst; split; eauto; try discriminate.
  intros [Hn|(i & Hi & [A|B])]; congruence.
Qed.

(* what the three tests mean *)
Lemma w_register_none_iff w h :
  w_register w h = None <->
  find_wi h (w_insts w) = None /\ exists v, wq_mi (w_qos w) = Some v /\ v <= Z.of_nat (length (w_insts w)).
Proof.
  unfold w_register, len_lt. destruct (existsb (fun x => wi_h x =? h) (w_insts w)) eqn:E.
  - apply find_wi_existsb in E as [s Hs]. rewrite Hs. split; [discriminate|intros [X _]; discriminate].
  - assert (Hn : find_wi h (w_insts w) = None).
    { destruct (find_wi h (w_insts w)) eqn:F; [|reflexivity].
      assert (X : existsb (fun x => wi_h x =? h) (w_insts w) = true) by (apply find_wi_existsb; eauto). congruence. }
    destruct (wq_mi (w_qos w)) as [v|].
    + destruct (Z.of_nat (length (w_insts w)) <? v) eqn:L.
      * apply Z.ltb_lt in L. split; [discriminate|]. intros (_ & v' & Hv & Hle). injection Hv as <-. lia.
      * apply Z.ltb_ge in L. split; [|reflexivity]. intros _. split; [exact Hn|]. eauto.
    + split; [discriminate|]. intros (_ & v & Hv & _). discriminate.
Qed.
Lemma w_mspi_hit_iff q insts h :
  w_mspi_hit q insts h = true <->
  exists m s, wq_mspi q = Some m /\ find_wi h insts = Some s /\ m <= slen s /\
              (forall d, wq_depth q = Some d -> m < d).
Proof.
  unfold w_mspi_hit. destruct (wq_mspi q) as [m|]; [|split; [discriminate|intros (m & s & X & _); discriminate]].
  destruct (find_wi h insts) as [s|] eqn:F.
  - destruct (wq_depth q) as [d|].
    + destruct (d <=? m) eqn:D.
      * apply Z.leb_le in D. split; [discriminate|]. intros (m' & s' & Hm & _ & _ & Hd). injection Hm as <-.
        specialize (Hd d eq_refl). lia.
      * apply Z.leb_gt in D. rewrite Z.leb_le. split.
        -- intros L. exists m, s. repeat split; auto. intros d' Hd'. injection Hd' as <-. exact D.
        -- intros (m' & s' & Hm & Hs & L & _). injection Hm as <-. injection Hs as <-. exact L.
    + rewrite Z.leb_le. split.
      * intros L. exists m, s. repeat split; auto. intros d' Hd'. discriminate.
      * intros (m' & s' & Hm & Hs & L & _). injection Hm as <-. injection Hs as <-. exact L.
  - assert (X : (match wq_depth q with Some d => if d <=? m then false else false | None => false end) = false)
      by (destruct (wq_depth q) as [d|]; [destruct (d <=? m)|]; reflexivity).
    rewrite X. split; [discriminate|]. intros (m' & s' & _ & Hs & _). discriminate.
Qed.
Lemma w_ms_hit_iff q insts : w_ms_hit q insts = true <-> exists m, wq_ms q = Some m /\ m <= total insts.
Proof.
  unfold w_ms_hit. destruct (wq_ms q) as [m|].
  - rewrite Z.leb_le. split; [eauto|]. intros (m' & Hm & L). injection Hm as <-. exact L.
  - split; [discriminate|]. intros (m & Hm & _). discriminate.
Qed.

(* ---- refused: nothing stored ---- *)
(* a refused write changes nothing at all: no sample, no sequence number, no change handed to
   the transport writer, and the list of registered instances is unchanged *)
Theorem w_refused_unchanged w h data ts now :
  snd (w_write w h data ts now) = WOutOfResources -> fst (w_write w h data ts now) = w.
Proof.
  pose proof (w_write_outcome w h data ts now) as O. destruct (w_write w h data ts now) as [w' r]. cbn [fst snd].
  inversion O as [Hr|insts1 Hr H1|insts1 Hr H1 H2|insts1 s chs Hr H1 H2 Hf Hc]; subst; try discriminate; reflexivity.
Qed.
Theorem w_refused_stores_no_sample w h data ts now :
  snd (w_write w h data ts now) = WOutOfResources ->
  let w' := fst (w_write w h data ts now) in
  w_seq w' = w_seq w /\ w_changes w' = w_changes w /\ w_qos w' = w_qos w /\ w_insts w' = w_insts w.
Proof. intros H. cbn zeta. rewrite (w_refused_unchanged _ _ _ _ _ H). auto. Qed.

Theorem w_refused_registered_unchanged w h data ts now s :
  find_wi h (w_insts w) = Some s ->
  snd (w_write w h data ts now) = WOutOfResources -> fst (w_write w h data ts now) = w.
Proof. intros _. apply w_refused_unchanged. Qed.

(* the tests on the list after the deferred push are the code's tests on the list before it *)
Lemma w_tests_before_push w h insts1 :
  w_register w h = Some insts1 ->
  total insts1 = total (w_insts w) /\
  match find_wi h insts1 with Some s => slen s | None => 0 end =
  match find_wi h (w_insts w) with Some s => slen s | None => 0 end.
Proof.
  unfold w_register. destruct (existsb (fun x => wi_h x =? h) (w_insts w)) eqn:E.
  - intros H. injection H as <-. auto.
  - destruct (len_lt _ _); [|discriminate]. intros H. injection H as <-.
    assert (Hn : find_wi h (w_insts w) = None).
    { destruct (find_wi h (w_insts w)) eqn:F; [|reflexivity].
      assert (X : existsb (fun x => wi_h x =? h) (w_insts w) = true) by (apply find_wi_existsb; eauto). congruence. }
    split.
    + rewrite total_app, total_cons, total_nil. cbn. lia.
    + rewrite (find_wi_none_app _ _ _ Hn), Hn. cbn [find_wi wi_h]. rewrite Z.eqb_refl. reflexivity.
Qed.

(* ---- accepted: exactly one sample recorded ---- *)
Theorem w_accepted_records_one w h data ts now :
  snd (w_write w h data ts now) = WOk ->
  let w' := fst (w_write w h data ts now) in
  w_seq w' = w_seq w + 1 /\
  (exists s', find_wi h (w_insts w') = Some s' /\
     wi_samples s' = match find_wi h (w_insts w) with Some s => wi_samples s | None => [] end ++ [w_seq w + 1]) /\
  total (w_insts w') = total (w_insts w) + 1 /\
  (w_changes w' = w_changes w \/ w_changes w' = w_changes w ++ [mkCh (w_seq w + 1) h data ts]).
Proof.
  pose proof (w_write_outcome w h data ts now) as O. destruct (w_write w h data ts now) as [w' r]. cbn [fst snd].
  inversion O as [Hr|insts1 Hr H1|insts1 Hr H1 H2|insts1 s chs Hr H1 H2 Hf Hc]; subst; try discriminate; intros _.
  cbn [w_seq w_changes w_insts].
  destruct (upd_wi_spec h (w_touch ts (w_seq w + 1)) insts1 s Hf (fun x => eq_refl)) as (l1 & l2 & El & Eu & Efind).
  assert (Hreg : (insts1 = w_insts w /\ find_wi h (w_insts w) = Some s) \/
                 (find_wi h (w_insts w) = None /\ insts1 = w_insts w ++ [mkWI h None []] /\ s = mkWI h None [])).
  { revert Hr. unfold w_register. destruct (existsb (fun x => wi_h x =? h) (w_insts w)) eqn:E.
    - intros H. injection H as <-. left. auto.
    - destruct (len_lt _ _); [|discriminate]. intros H. injection H as <-. right.
      assert (Hn : find_wi h (w_insts w) = None).
      { destruct (find_wi h (w_insts w)) eqn:F; [|reflexivity].
        assert (X : existsb (fun x => wi_h x =? h) (w_insts w) = true) by (apply find_wi_existsb; eauto). congruence. }
      repeat split; auto. rewrite (find_wi_none_app _ _ _ Hn) in Hf. cbn [find_wi wi_h] in Hf.
      rewrite Z.eqb_refl in Hf. now injection Hf as <-. }
  repeat split; auto.
  - exists (w_touch ts (w_seq w + 1) s). split; [exact Efind|]. cbn [w_touch wi_samples].
    destruct Hreg as [[_ ->]|(-> & _ & ->)]; reflexivity.
  - rewrite Eu. assert (T : total insts1 = total (w_insts w)).
    { destruct Hreg as [[-> _]|(_ & -> & _)]; [reflexivity|]. rewrite total_app, total_cons, total_nil. cbn. lia. }
    rewrite <- T, El, !total_app, !total_cons. unfold slen, w_touch. cbn [wi_samples]. rewrite app_length. cbn [length]. lia.
Qed.

(* ---- the limits are never exceeded when the writer is driven by DataWriter::write ---- *)
Definition depth_bound (q : wqos) (l : list winst) : Prop :=
  forall d, wq_depth q = Some d -> forall x, In x l -> slen x <= d.
Definition w_inv (q : wqos) (w : writer) : Prop :=
  w_qos w = q /\ w_within q (w_insts w) /\ depth_bound q (w_insts w).

Lemma wlim_ok_le lim a b : a <= b -> wlim_ok lim b = true -> wlim_ok lim a = true.
Proof. unfold wlim_ok. destruct lim; [|auto]. rewrite !Z.leb_le. lia. Qed.

(* the caller's KEEP_LAST step: pops one sample of h when it holds exactly depth (>= 1) *)
Lemma w_pre_cases w h :
  w_pre w h = w \/
  exists d s sq rest l1 l2,
    wq_depth (w_qos w) = Some d /\ find_wi h (w_insts w) = Some s /\ slen s = d /\ wi_samples s = sq :: rest /\
    w_insts w = l1 ++ s :: l2 /\
    w_insts (w_pre w h) = l1 ++ mkWI (wi_h s) (wi_lwt s) rest :: l2 /\
    find_wi h (w_insts (w_pre w h)) = Some (mkWI (wi_h s) (wi_lwt s) rest) /\
    w_seq (w_pre w h) = w_seq w /\ w_qos (w_pre w h) = w_qos w /\
    w_changes (w_pre w h) = filter (fun c => negb (c_seq c =? sq)) (w_changes w).
Proof.
  unfold w_pre. destruct (wq_depth (w_qos w)) as [d|] eqn:Ed; [|now left].
  destruct (find_wi h (w_insts w)) as [s|] eqn:F; [|now left].
  destruct (slen s =? d) eqn:E; [|now left]. apply Z.eqb_eq in E.
  destruct (wi_samples s) as [|sq rest] eqn:Es; [now left|]. right.
  destruct (upd_wi_spec h (fun x => mkWI (wi_h x) (wi_lwt x) (tl (wi_samples x))) (w_insts w) s F (fun x => eq_refl))
    as (l1 & l2 & El & Eu & Efind).
  exists d, s, sq, rest, l1, l2. cbn [w_insts w_seq w_qos w_changes]. rewrite Efind, Eu, Es. cbn [tl].
  repeat split; auto.
Qed.

Lemma w_pre_pops w h d s :
  wq_depth (w_qos w) = Some d -> 1 <= d -> find_wi h (w_insts w) = Some s -> slen s = d ->
  exists s', find_wi h (w_insts (w_pre w h)) = Some s' /\ slen s' = d - 1.
Proof.
  intros Ed Hd1 F Hl. unfold w_pre. rewrite Ed, F. apply Z.eqb_eq in Hl. rewrite Hl. apply Z.eqb_eq in Hl.
  destruct (wi_samples s) as [|sq rest] eqn:Es; [unfold slen in Hl; rewrite Es in Hl; cbn [length] in Hl; lia|].
  destruct (upd_wi_spec h (fun x => mkWI (wi_h x) (wi_lwt x) (tl (wi_samples x))) (w_insts w) s F (fun x => eq_refl))
    as (l1 & l2 & El & Eu & Efind).
  cbn [w_insts]. rewrite Efind. eexists. split; [reflexivity|]. unfold slen in *. cbn [wi_samples]. rewrite Es in *.
  cbn [tl length] in *. lia.
Qed.

Lemma w_pre_inv q w h : w_inv q w -> w_inv q (w_pre w h).
Proof.
  intros (Hq & (Hms & Hmi & Hmspi) & Hd).
  destruct (w_pre_cases w h) as [->|(d & s & sq & rest & l1 & l2 & Ed & F & Hl & Es & El & Eu & _ & _ & Eq & _)];
    [repeat split; auto|].
  assert (Hs : slen (mkWI (wi_h s) (wi_lwt s) rest) <= slen s).
  { unfold slen. cbn [wi_samples]. rewrite Es. cbn [length]. lia. }
  split; [congruence|]. rewrite Eu. rewrite El in *. split; [repeat split|].
  - eapply wlim_ok_le; [|exact Hms]. rewrite !total_app, !total_cons. lia.
  - rewrite app_length in *. cbn [length] in *. exact Hmi.
  - intros x [Hx|[<-|Hx]]%in_app_iff.
    + apply Hmspi. apply in_app_iff. now left.
    + eapply wlim_ok_le; [exact Hs|]. apply Hmspi. apply in_app_iff. right. now left.
    + apply Hmspi. apply in_app_iff. right. now right.
  - intros d' Hd' x [Hx|[<-|Hx]]%in_app_iff.
    + apply (Hd d' Hd'). apply in_app_iff. now left.
    + eapply Z.le_trans; [exact Hs|]. apply (Hd d' Hd'). apply in_app_iff. right. now left.
    + apply (Hd d' Hd'). apply in_app_iff. right. now right.
Qed.

(* after the KEEP_LAST step the instance has room for one more within depth *)
Lemma w_pre_room q w h d s :
  w_inv q w -> wq_depth q = Some d -> 1 <= d ->
  find_wi h (w_insts (w_pre w h)) = Some s -> slen s < d.
Proof.
  intros (Hq & _ & Hd) Ed Hd1 F.
  destruct (w_pre_cases w h) as [E|(d' & s0 & sq & rest & l1 & l2 & Ed' & F0 & Hl & Es & El & Eu & Ef & _)].
  - rewrite E in F. destruct (find_wi_in _ _ _ F) as [Hin _]. pose proof (Hd d Ed s Hin) as B.
    assert (slen s <> d); [|lia]. intros Heq.
    destruct (w_pre_pops w h d s) as (s' & F' & L'); auto; [congruence|].
    rewrite E, F in F'. injection F' as <-. lia.
  - rewrite Ef in F. injection F as <-. rewrite Hq in Ed'. assert (Hdd : d' = d) by congruence. rewrite Hdd in *.
    unfold slen in *. cbn [wi_samples]. rewrite Es in Hl. cbn [length] in Hl. lia.
Qed.

Lemma w_register_inv q w h insts1 :
  w_inv q w -> wlim_nonneg (wq_mspi q) -> (forall d, wq_depth q = Some d -> 1 <= d) ->
  (forall d s, wq_depth q = Some d -> find_wi h (w_insts w) = Some s -> slen s < d) ->
  w_register w h = Some insts1 ->
  w_within q insts1 /\ depth_bound q insts1 /\
  (forall d s, wq_depth q = Some d -> find_wi h insts1 = Some s -> slen s < d).
Proof.
  intros (Hq & (Hms & Hmi & Hmspi) & Hd) Hnn Hd1 Hroom.
  unfold w_register. destruct (existsb (fun x => wi_h x =? h) (w_insts w)) eqn:E.
  - intros H. injection H as <-. repeat split; auto.
  - destruct (len_lt (Z.of_nat (length (w_insts w))) (wq_mi (w_qos w))) eqn:L; [|discriminate].
    intros H. injection H as <-.
    assert (Hn : find_wi h (w_insts w) = None).
    { destruct (find_wi h (w_insts w)) eqn:F; [|reflexivity].
      assert (X : existsb (fun x => wi_h x =? h) (w_insts w) = true) by (apply find_wi_existsb; eauto). congruence. }
    repeat split.
    + rewrite total_app, total_cons, total_nil. cbn. now rewrite Z.add_0_r.
    + rewrite app_length. cbn [length]. rewrite Hq in L. unfold len_lt in L. unfold wlim_ok.
      destruct (wq_mi q); [|reflexivity]. apply Z.ltb_lt in L. apply Z.leb_le. lia.
    + intros x [Hx|[<-|[]]]%in_app_iff; [now apply Hmspi|]. unfold wlim_ok, slen. cbn.
      unfold wlim_nonneg in Hnn. destruct (wq_mspi q) as [m|]; [|reflexivity]. now apply Z.leb_le.
    + intros d' Hd' x [Hx|[<-|[]]]%in_app_iff; [now apply (Hd d' Hd')|]. unfold slen. cbn. specialize (Hd1 d' Hd'). lia.
    + intros d' s Hd' F. rewrite (find_wi_none_app _ _ _ Hn) in F. cbn [find_wi wi_h] in F. rewrite Z.eqb_refl in F.
      injection F as <-. unfold slen. cbn. specialize (Hd1 d' Hd'). lia.
Qed.

Lemma w_write_inv q w h data ts now :
  w_inv q w -> wlim_nonneg (wq_mspi q) -> (forall d, wq_depth q = Some d -> 1 <= d) ->
  (forall d s, wq_depth q = Some d -> find_wi h (w_insts w) = Some s -> slen s < d) ->
  w_inv q (fst (w_write w h data ts now)).
Proof.
  intros Hinv Hnn Hd1 Hroom. pose proof Hinv as (Hq & _ & _).
  pose proof (w_write_outcome w h data ts now) as O. destruct (w_write w h data ts now) as [w' r]. cbn [fst].
  pose proof (fun i => w_register_inv q w h i Hinv Hnn Hd1 Hroom) as Hreg.
  inversion O as [Hr|insts1 Hr H1|insts1 Hr H1 H2|insts1 s chs Hr H1 H2 Hf Hc];
    [subst; exact Hinv|subst; exact Hinv|subst; exact Hinv|]; subst;
    destruct (Hreg insts1 Hr) as ((Hms & Hmi & Hmspi) & Hd & Hroom1).
  destruct (upd_wi_spec h (w_touch ts (w_seq w + 1)) insts1 s Hf (fun x => eq_refl)) as (l1 & l2 & El & Eu & _).
  assert (Hs : slen (w_touch ts (w_seq w + 1) s) = slen s + 1).
  { unfold slen, w_touch. cbn [wi_samples]. rewrite app_length. cbn [length]. lia. }
  split; [reflexivity|]. cbn [w_insts]. rewrite Eu. rewrite El in *. split; [repeat split|].
  - (* max_samples: the test total >= max_samples failed *)
    rewrite !total_app, !total_cons, Hs. rewrite !total_app, !total_cons in Hms.
    unfold w_ms_hit in H2. unfold wlim_ok in *. destruct (wq_ms (w_qos w)) as [m|]; [|reflexivity].
    rewrite total_app, total_cons in H2. apply Z.leb_gt in H2. apply Z.leb_le. lia.
  - rewrite app_length in *. cbn [length] in *. exact Hmi.
  - intros x [Hx|[<-|Hx]]%in_app_iff.
    + apply Hmspi. apply in_app_iff. now left.
    + (* max_samples_per_instance: either the test failed, or KEEP_LAST depth <= limit *)
      rewrite Hs. unfold w_mspi_hit in H1. rewrite Hf in H1. unfold wlim_ok.
      destruct (wq_mspi (w_qos w)) as [m|]; [|reflexivity]. apply Z.leb_le.
      destruct (wq_depth (w_qos w)) as [d|] eqn:Ed.
      * pose proof (Hroom1 d s eq_refl Hf) as R. destruct (d <=? m) eqn:D; [apply Z.leb_le in D; lia|].
        apply Z.leb_gt in H1. lia.
      * apply Z.leb_gt in H1. lia.
    + apply Hmspi. apply in_app_iff. right. now right.
  - intros d Ed x [Hx|[<-|Hx]]%in_app_iff.
    + apply (Hd d Ed). apply in_app_iff. now left.
    + rewrite Hs. pose proof (Hroom1 d s Ed Hf). lia.
    + apply (Hd d Ed). apply in_app_iff. right. now right.
Qed.

Lemma w_step_inv q w o :
  wlim_nonneg (wq_mspi q) -> (forall d, wq_depth q = Some d -> 1 <= d) -> app_op o = true ->
  w_inv q w -> w_inv q (fst (w_step w o)).
Proof.
  intros Hnn Hd1 Ho Hinv. destruct o as [| |h data ts now]; try discriminate. cbn [w_step].
  apply w_write_inv; auto; [now apply w_pre_inv|].
  intros d s Ed F. eapply w_pre_room; eauto.
Qed.

Lemma w_run_from_cons w o ops : w_run_from w (o :: ops) = w_run_from (fst (w_step w o)) ops.
Proof.
  unfold w_run_from. cbn [w_run_obs]. destruct (w_step w o) as [w1 x]. cbn [fst].
  destruct (w_run_obs w1 ops). reflexivity.
Qed.

Lemma w_run_inv q ops :
  wlim_nonneg (wq_ms q) -> wlim_nonneg (wq_mi q) -> wlim_nonneg (wq_mspi q) ->
  (forall d, wq_depth q = Some d -> 1 <= d) -> forallb app_op ops = true ->
  w_inv q (w_run q ops).
Proof.
  intros N1 N2 N3 Hd1 Hg. unfold w_run.
  assert (H0 : w_inv q (init_writer q)).
  { split; [reflexivity|]. split; [|intros d _ x []]. unfold w_within, wlim_ok, wlim_nonneg in *.
    cbn [init_writer w_insts length]. rewrite total_nil.
    repeat split; [destruct (wq_ms q)|destruct (wq_mi q)|intros x []]; auto; apply Z.leb_le; cbn; lia. }
  revert H0. generalize (init_writer q). induction ops as [|o ops IH]; intros w Hw; [exact Hw|].
  cbn [forallb] in Hg. apply andb_true_iff in Hg as [Ho Hg]. rewrite w_run_from_cons.
  apply IH; [exact Hg|]. now apply w_step_inv.
Qed.

(* for every QoS (set limits >= 0, KEEP_LAST depth >= 1; depth <= max_samples_per_instance is
   NOT needed) and every history of DataWriter::write calls: total samples <= max_samples,
   registered instances <= max_instances, samples of any instance <= max_samples_per_instance *)
Theorem w_limits_invariant q ops :
  wlim_nonneg (wq_ms q) -> wlim_nonneg (wq_mi q) -> wlim_nonneg (wq_mspi q) ->
  (forall d, wq_depth q = Some d -> 1 <= d) -> forallb app_op ops = true ->
  w_within q (w_insts (w_run q ops)).
Proof. intros. now apply w_run_inv. Qed.

(* ... and KEEP_LAST keeps at most depth samples per instance *)
Theorem w_keep_last_bound q ops d x :
  wlim_nonneg (wq_ms q) -> wlim_nonneg (wq_mi q) -> wlim_nonneg (wq_mspi q) ->
  wq_depth q = Some d -> 1 <= d -> forallb app_op ops = true ->
  In x (w_insts (w_run q ops)) -> slen x <= d.
Proof.
  intros N1 N2 N3 Ed Hd1 Hg Hin.
  assert (Hd1' : forall d', wq_depth q = Some d' -> 1 <= d') by (intros d' Ed'; congruence).
  destruct (w_run_inv q ops N1 N2 N3 Hd1' Hg) as (_ & _ & Hd). eapply Hd; eauto.
Qed.

(* the entity alone does not keep the limit: it relies on the caller's KEEP_LAST step *)
Theorem w_entity_alone_exceeds_refuted :
  exists q ops, wq_mspi q = Some 2 /\ wq_depth q = Some 2 /\
    map slen (w_insts (w_run q ops)) = [3].
Proof.
  exists (mkWQ (Some 2) None None (Some 2) None), [WWrite 1 101 10 10; WWrite 1 102 20 20; WWrite 1 103 30 30].
  vm_compute. auto.
Qed.

(* a KEEP_LAST replacement never loses the old sample to a refused write: in every reachable
   state, when the caller's step removes the oldest sample the write that follows succeeds *)
Theorem w_replacement_not_refused q ops h data ts now d s :
  wlim_nonneg (wq_ms q) -> wlim_nonneg (wq_mi q) -> wlim_nonneg (wq_mspi q) ->
  wq_depth q = Some d -> 1 <= d -> forallb app_op ops = true ->
  find_wi h (w_insts (w_run q ops)) = Some s -> slen s = d ->
  snd (w_step (w_run q ops) (WApp h data ts now)) = WOk.
Proof.
  intros N1 N2 N3 Ed Hd1 Hg F Hl.
  assert (Hinv : w_inv q (w_run q ops)) by (apply w_run_inv; auto; intros d' Ed'; congruence).
  remember (w_run q ops) as w eqn:Ew. clear Ew. destruct Hinv as (Hq & (Hms & Hmi & Hmspi) & Hd).
  cbn [w_step].
  destruct (w_pre_cases w h) as [E|(d' & s0 & sq & rest & l1 & l2 & Ed' & F0 & Hl0 & Es & El & Eu & Ef & Eseq & Eq & _)].
  { exfalso. destruct (w_pre_pops w h d s) as (s' & F' & L'); auto; [congruence|].
    rewrite E, F in F'. injection F' as <-. lia. }
  rewrite F in F0. injection F0 as <-. rewrite Hq in Ed'. assert (Hdd : d' = d) by congruence. rewrite Hdd in *.
  remember (w_pre w h) as w1 eqn:Ew1. clear Ew1.
  pose proof (w_write_outcome w1 h data ts now) as O. destruct (w_write w1 h data ts now) as [w' r]. cbn [snd].
  assert (Hreg : w_register w1 h = Some (w_insts w1)).
  { unfold w_register. replace (existsb (fun x => wi_h x =? h) (w_insts w1)) with true; [reflexivity|].
    symmetry. apply find_wi_existsb. eauto. }
  assert (Hslen : slen (mkWI (wi_h s) (wi_lwt s) rest) = d - 1).
  { unfold slen in *. cbn [wi_samples]. rewrite Es in Hl. cbn [length] in Hl. lia. }
  change r with (snd (w', r)). generalize dependent (w', r). intros res O.
  inversion O as [Hr|insts1 Hr H1|insts1 Hr H1 H2|insts1 s1 chs Hr H1 H2 Hf Hc]; cbn [snd]; try reflexivity; exfalso.
  - congruence.
  - rewrite Hreg in Hr. injection Hr as <-. apply w_mspi_hit_iff in H1 as (m & s1 & Em & F1 & L & Hdm).
    rewrite Ef in F1. injection F1 as <-. rewrite Eq, Hq in Em, Hdm. specialize (Hdm d Ed).
    assert (Hin : In s (w_insts w)) by (rewrite El; apply in_app_iff; right; now left).
    specialize (Hmspi s Hin). unfold wlim_ok in Hmspi. rewrite Em in Hmspi. apply Z.leb_le in Hmspi. lia.
  - rewrite Hreg in Hr. injection Hr as <-. apply w_ms_hit_iff in H2 as (m & Em & L).
    rewrite Eq, Hq in Em. unfold wlim_ok in Hms. rewrite Em in Hms. apply Z.leb_le in Hms.
    rewrite Eu in L. rewrite El in Hms. rewrite !total_app, !total_cons in *. lia.
Qed.
