(* C25: TIME_BASED_FILTER of the reader cache.

   The filter (is_sample_of_interest_based_on_time) compares a new sample with the
   stored sample of its instance that has the greatest source timestamp <= the new one.
   - when every change carries a timestamp not earlier than the samples of its instance
     in the cache (complement of class 1), the cache never holds two samples of one
     instance closer than minimum_separation                       (stored_separated)
   - hence every single collection returned by read/take is separated (presented_separated)
   - with KEEP_ALL and no take (complement of class 2) everything ever presented is still
     in the cache, so the separation holds between ANY two samples ever presented
                                                                    (presented_are_stored)
   - a sample at least minimum_separation after every stored sample of its instance is
     never dropped by the filter                                    (no_over_filtering)
   - witnesses of the two recorded classes. *)
From DustDDS Require Import Base.Machine Cache.ReaderModel Cache.ReaderFacts Cache.C21Proofs Cache.C22Proofs.
Open Scope Z_scope.

(* ------------------------------------------------------------------ separation *)
Definition sep_rel (s : Z) (a b : sample) : Prop :=
  s_inst a = s_inst b -> forall x y, s_ts a = Some x -> s_ts b = Some y -> s <= Z.abs (x - y).
Definition separated (s : Z) (l : list sample) : Prop := ForallOrdPairs (sep_rel s) l.

Lemma sep_rel_sym s a b : sep_rel s a b -> sep_rel s b a.
Proof.
  unfold sep_rel. intros H E x y Hx Hy. specialize (H (eq_sym E) y x Hy Hx).
  replace (x - y) with (- (y - x)) by lia. now rewrite Z.abs_opp.
Qed.

Lemma sep_rel_mark_l s a b : sep_rel s a b -> sep_rel s (mark_read a) b.
Proof. exact (fun H => H). Qed.
Lemma sep_rel_mark_r s a b : sep_rel s a b -> sep_rel s a (mark_read b).
Proof. exact (fun H => H). Qed.

Lemma thinned_separated s k l : thinned k l -> separated s l -> separated s k.
Proof.
  intros H. induction H as [|x k l H IH|x k l H IH|x k l H IH]; intros S'.
  - constructor.
  - inversion S' as [|? ? F S'']; subst. constructor; [|apply IH; exact S''].
    eapply thinned_forall; [|exact H|exact F]. intros y Hy. now apply sep_rel_mark_r.
  - inversion S' as [|? ? F S'']; subst. constructor; [|apply IH; exact S''].
    eapply thinned_forall; [|exact H|]. { intros y Hy. now apply sep_rel_mark_r. }
    eapply Forall_impl; [|exact F]. intros y Hy. now apply sep_rel_mark_l.
  - inversion S' as [|? ? F S'']; subst. apply IH; exact S''.
Qed.

Lemma Forall_insert_before {A} (P : A -> Prop) p x l :
  Forall P l -> P x -> Forall P (insert_before p x l).
Proof.
  intros F Hx. induction l as [|y l IH]; cbn [insert_before]; [constructor; auto|].
  inversion F; subst. destruct (p y); constructor; auto.
Qed.

Lemma insert_separated s p smp l :
  separated s l -> Forall (sep_rel s smp) l -> separated s (insert_before p smp l).
Proof.
  induction l as [|y l IH]; intros S' F; cbn [insert_before].
  - constructor; constructor.
  - inversion S' as [|? ? Fy S'']; subst. inversion F as [|? ? Hy F']; subst.
    destruct (p y).
    + constructor; [exact F|exact S'].
    + constructor; [|apply IH; assumption].
      apply Forall_insert_before; [exact Fy|now apply sep_rel_sym].
Qed.

Lemma app_separated s smp l :
  separated s l -> Forall (sep_rel s smp) l -> separated s (l ++ [smp]).
Proof.
  induction l as [|y l IH]; intros S' F; cbn [app].
  - constructor; constructor.
  - inversion S' as [|? ? Fy S'']; subst. inversion F as [|? ? Hy F']; subst.
    constructor; [|apply IH; assumption].
    apply Forall_app. split; [exact Fy|]. constructor; [now apply sep_rel_sym|constructor].
Qed.

(* ------------------------------------------------------------------ the filter *)
Definition qualifies (h : Z) (t : ts) (x : sample) : bool := of_inst h x && ts_leb (s_ts x) t.

Lemma ts_max_cases a b : (ts_max a b = a /\ ts_leb b a = true) \/ (ts_max a b = b /\ ts_leb a b = true).
Proof.
  unfold ts_max. destruct (ts_leb a b) eqn:E; [right; auto|left]. split; [reflexivity|].
  destruct (ts_leb_total a b) as [L|L]; congruence.
Qed.

(* closest_ts_before = the greatest timestamp among the qualifying samples *)
Lemma closest_fold h t l : forall acc,
  (match acc with Some a => ts_leb a t = true | None => True end) ->
  match fold_left (fun acc s =>
          if of_inst h s && ts_leb (s_ts s) t
          then match acc with None => Some (s_ts s) | Some m => Some (ts_max m (s_ts s)) end
          else acc) l acc with
  | None => acc = None /\ forall x, In x l -> qualifies h t x = false
  | Some m =>
      ts_leb m t = true /\
      (acc = Some m \/ exists x, In x l /\ qualifies h t x = true /\ s_ts x = m) /\
      (match acc with Some a => ts_leb a m = true | None => True end) /\
      forall x, In x l -> qualifies h t x = true -> ts_leb (s_ts x) m = true
  end.
Proof.
  induction l as [|y l IH]; intros acc Hacc; cbn [fold_left].
  - destruct acc as [a|].
    + split; [exact Hacc|]. split; [now left|]. split; [apply ts_leb_refl|]. intros x [].
    + split; [reflexivity|]. intros x [].
  - fold (qualifies h t y). destruct (qualifies h t y) eqn:Q.
    + assert (Qy : ts_leb (s_ts y) t = true) by (unfold qualifies in Q; apply andb_true_iff in Q; apply Q).
      set (acc' := match acc with None => Some (s_ts y) | Some m => Some (ts_max m (s_ts y)) end).
      assert (Hacc' : match acc' with Some a => ts_leb a t = true | None => True end).
      { unfold acc'. destruct acc as [a|]; [|exact Qy].
        destruct (ts_max_cases a (s_ts y)) as [[-> _]|[-> _]]; assumption. }
      specialize (IH acc' Hacc').
      destruct (fold_left _ l acc') as [m|].
      * destruct IH as (I1 & I2 & I3 & I4). split; [exact I1|].
        assert (Ym : ts_leb (s_ts y) m = true).
        { unfold acc' in I3. destruct acc as [a|]; [|exact I3].
          destruct (ts_max_cases a (s_ts y)) as [[E L]|[E L]]; rewrite E in I3.
          - eapply ts_leb_trans; eassumption.
          - exact I3. }
        split; [|split].
        -- destruct I2 as [I2|(x & Hx & Qx & Ex)]; [|right; exists x; split; [now right|auto]].
           unfold acc' in I2. destruct acc as [a|].
           ++ injection I2 as I2. destruct (ts_max_cases a (s_ts y)) as [[E _]|[E _]]; rewrite E in I2.
              ** left. now rewrite I2.
              ** right. exists y. split; [now left|]. split; [exact Q|exact I2].
           ++ injection I2 as I2. right. exists y. split; [now left|]. split; [exact Q|exact I2].
        -- unfold acc' in I3. destruct acc as [a|]; [|exact I].
           destruct (ts_max_cases a (s_ts y)) as [[E L]|[E L]]; rewrite E in I3.
           ++ exact I3.
           ++ eapply ts_leb_trans; eassumption.
        -- intros x [<-|Hx] Qx; [exact Ym|now apply I4].
      * destruct IH as [IH _]. unfold acc' in IH. destruct acc; discriminate.
    + specialize (IH acc Hacc). destruct (fold_left _ l acc) as [m|].
      * destruct IH as (I1 & I2 & I3 & I4). split; [exact I1|]. split; [|split; [exact I3|]].
        -- destruct I2 as [I2|(x & Hx & Qx & Ex)]; [now left|right; exists x; split; [now right|auto]].
        -- intros x [<-|Hx] Qx; [congruence|now apply I4].
      * destruct IH as [I1 I2]. split; [exact I1|]. intros x [<-|Hx]; [exact Q|now apply I2].
Qed.

Lemma closest_spec l h t :
  match closest_ts_before l h t with
  | None => forall x, In x l -> qualifies h t x = false
  | Some m =>
      ts_leb m t = true /\
      (exists x, In x l /\ qualifies h t x = true /\ s_ts x = m) /\
      forall x, In x l -> qualifies h t x = true -> ts_leb (s_ts x) m = true
  end.
Proof.
  unfold closest_ts_before. pose proof (closest_fold h t l None I) as H.
  destruct (fold_left _ l None) as [m|].
  - destruct H as (H1 & H2 & _ & H4). split; [exact H1|]. split; [|exact H4].
    destruct H2 as [H2|H2]; [discriminate|exact H2].
  - apply H.
Qed.

Lemma of_interest_ext r1 r2 h t :
  r_samples r1 = r_samples r2 -> r_qos r1 = r_qos r2 -> of_interest r1 h t = of_interest r2 h t.
Proof. unfold of_interest. intros -> ->. reflexivity. Qed.

(* accepted by the filter: at least minimum_separation after every stored sample of the
   instance that is not later than the new one *)
Lemma of_interest_true_sep r h st s x a :
  q_sep (r_qos r) = Some s -> of_interest r h (Some st) = true ->
  In x (r_samples r) -> s_inst x = h -> s_ts x = Some a -> a <= st -> s <= st - a.
Proof.
  intros Hs Hi Hx Hh Ha Hle. unfold of_interest in Hi. rewrite Hs in Hi.
  pose proof (closest_spec (r_samples r) h (Some st)) as C.
  assert (Q : qualifies h (Some st) x = true).
  { unfold qualifies, of_inst. rewrite Hh, Z.eqb_refl, Ha. cbn. now apply Z.leb_le. }
  destruct (closest_ts_before (r_samples r) h (Some st)) as [m|].
  - destruct C as (C1 & _ & C3). specialize (C3 x Hx Q). rewrite Ha in C3.
    destruct m as [prev|]; [|discriminate]. cbn in C3. apply Z.leb_le in C3, Hi. lia.
  - rewrite (C x Hx) in Q. discriminate.
Qed.

(* 4. no over-filtering *)
Theorem of_interest_far r h t0 s :
  q_sep (r_qos r) = Some s ->
  (forall x a, In x (r_samples r) -> s_inst x = h -> s_ts x = Some a -> a + s <= t0) ->
  of_interest r h (Some t0) = true.
Proof.
  intros Hs Far. unfold of_interest. rewrite Hs.
  pose proof (closest_spec (r_samples r) h (Some t0)) as C.
  destruct (closest_ts_before (r_samples r) h (Some t0)) as [[prev|]|]; try reflexivity.
  destruct C as (_ & (x & Hx & Q & Ex) & _). unfold qualifies, of_inst in Q.
  apply andb_true_iff in Q. destruct Q as [Q _]. apply Z.eqb_eq in Q.
  specialize (Far x prev Hx Q Ex). apply Z.leb_le. lia.
Qed.

(* the filter drops a sample that is closer than minimum_separation to a stored sample of
   its instance with an earlier-or-equal timestamp *)
Theorem of_interest_close r h t0 s x a :
  q_sep (r_qos r) = Some s ->
  In x (r_samples r) -> s_inst x = h -> s_ts x = Some a -> a <= t0 < a + s ->
  of_interest r h (Some t0) = false.
Proof.
  intros Hs Hx Hh Ha Hc. unfold of_interest. rewrite Hs.
  pose proof (closest_spec (r_samples r) h (Some t0)) as C.
  assert (Q : qualifies h (Some t0) x = true).
  { unfold qualifies, of_inst. rewrite Hh, Z.eqb_refl, Ha. cbn. apply Z.leb_le. lia. }
  destruct (closest_ts_before (r_samples r) h (Some t0)) as [m|].
  - destruct C as (C1 & _ & C3). specialize (C3 x Hx Q). rewrite Ha in C3.
    destruct m as [prev|]; [|discriminate]. cbn in C1, C3. apply Z.leb_le in C1, C3.
    apply Z.leb_gt. lia.
  - rewrite (C x Hx) in Q. discriminate.
Qed.

(* ------------------------------------------------------------------ add_change and the filter *)
Lemma add_change_added_interest r w data k h t rts :
  snd (add_change r w data k h t rts) = Added -> of_interest r h t = true.
Proof.
  unfold add_change.
  repeat (break_match; cbn [fst snd]); try discriminate.
  all: intros _;
    match goal with
    | H : negb (of_interest ?r' _ _) = false |- _ =>
        apply negb_false_iff in H; rewrite <- H; apply of_interest_ext; reflexivity
    end.
Qed.

Lemma add_change_filtered r w data k h t rts :
  of_interest r h t = false ->
  snd (add_change r w data k h t rts) = NotAdded \/ snd (add_change r w data k h t rts) = AddError.
Proof.
  intros Hi. unfold add_change.
  destruct (touch_instance (r_insts r) h k) as [l1|] eqn:T; [|right; reflexivity].
  rewrite (touch_find _ _ _ _ h T), Z.eqb_refl.
  destruct (ownership_gate (set_insts r l1) w h rts) as [owns2|]; [|left; reflexivity].
  match goal with |- context [of_interest ?r' h t] =>
    replace (of_interest r' h t) with (of_interest r h t) by (apply of_interest_ext; reflexivity) end.
  rewrite Hi. left. reflexivity.
Qed.

Theorem no_over_filtering r w data k h t0 rts s :
  q_sep (r_qos r) = Some s -> q_excl (r_qos r) = false ->
  (forall x a, In x (r_samples r) -> s_inst x = h -> s_ts x = Some a -> a + s <= t0) ->
  snd (add_change r w data k h (Some t0) rts) <> NotAdded.
Proof.
  intros Hs He Far. pose proof (of_interest_far r h t0 s Hs Far) as Hi.
  unfold add_change.
  destruct (touch_instance (r_insts r) h k) as [l1|] eqn:T; [|discriminate].
  destruct (find_inst h l1); [|discriminate].
  unfold ownership_gate. cbn [r_qos set_insts]. rewrite He.
  match goal with |- context [of_interest ?r' h (Some t0)] =>
    replace (of_interest r' h (Some t0)) with (of_interest r h (Some t0)) by (apply of_interest_ext; reflexivity) end.
  rewrite Hi. cbn [negb].
  repeat (break_match; cbn [fst snd]); discriminate.
Qed.

Theorem filter_drops r w data k h t0 rts s x a :
  q_sep (r_qos r) = Some s ->
  In x (r_samples r) -> s_inst x = h -> s_ts x = Some a -> a <= t0 < a + s ->
  (snd (add_change r w data k h (Some t0) rts) = NotAdded \/
   snd (add_change r w data k h (Some t0) rts) = AddError) /\
  r_samples (fst (add_change r w data k h (Some t0) rts)) = r_samples r.
Proof.
  intros Hs Hx Hh Ha Hc.
  pose proof (add_change_filtered r w data k h (Some t0) rts (of_interest_close r h t0 s x a Hs Hx Hh Ha Hc)) as H.
  split; [exact H|]. apply add_change_added_iff. destruct H as [-> | ->]; discriminate.
Qed.

(* ------------------------------------------------------------------ the invariant *)
(* complement of class 1, relative to the cache: each change carries a source timestamp
   not earlier than any sample of its instance in the cache *)
Definition arrives_in_order (r : reader) (o : op) : Prop :=
  match o with
  | OpAdd _ h _ t _ _ => forall x, In x (r_samples r) -> s_inst x = h -> ts_leb (s_ts x) t = true
  | _ => True
  end.
Fixpoint in_order (r : reader) (ops : list op) : Prop :=
  match ops with
  | [] => True
  | o :: rest => arrives_in_order r o /\ in_order (fst (step r o)) rest
  end.

Lemma remove_first_in {A} (p : A -> bool) l x : In x (remove_first p l) -> In x l.
Proof.
  induction l as [|y l IH]; cbn [remove_first]; [auto|].
  destruct (p y); [now right|]. intros [<-|H]; [now left|right; auto].
Qed.

Lemma add_separated r w data k h t rts s :
  q_sep (r_qos r) = Some s ->
  (forall x, In x (r_samples r) -> s_inst x = h -> ts_leb (s_ts x) t = true) ->
  separated s (r_samples r) ->
  separated s (r_samples (fst (add_change r w data k h t rts))).
Proof.
  intros Hs Ord S'.
  pose proof (add_change_samples r w data k h t rts) as H. cbv zeta in H.
  pose proof (add_change_added_interest r w data k h t rts) as Hi.
  destruct (add_change r w data k h t rts) as [r' a]. cbn [fst snd] in *.
  destruct H as [H | (smp & base & Hts & Hh & _ & _ & _ & _ & Hbase & Hshape & Ha)]; [now rewrite H|].
  specialize (Hi Ha).
  assert (Sb : separated s base).
  { destruct Hbase as [-> | ->]; [exact S'|]. eapply thinned_separated; [apply remove_first_thinned|exact S']. }
  assert (Fb : Forall (sep_rel s smp) base).
  { rewrite Forall_forall. intros x Hx.
    assert (Hx' : In x (r_samples r)) by (destruct Hbase as [-> | ->]; [exact Hx|eapply remove_first_in; exact Hx]).
    apply sep_rel_sym. intros E ta tb Ea Eb. rewrite Hh in E.
    assert (Et : t = Some tb) by congruence.
    pose proof (Ord x Hx' E) as L. rewrite Ea, Et in L. cbn in L. apply Z.leb_le in L.
    rewrite Et in Hi.
    pose proof (of_interest_true_sep r h tb s x ta Hs Hi Hx' E Ea L). lia. }
  rewrite Hshape. destruct (q_bysrc (r_qos r)); [now apply insert_separated|now apply app_separated].
Qed.

Lemma step_separated r o s :
  q_sep (r_qos r) = Some s -> arrives_in_order r o ->
  separated s (r_samples r) -> separated s (r_samples (fst (step r o))).
Proof.
  intros Hs Ord S'. destruct o; cbn [step arrives_in_order] in *.
  - pose proof (add_separated r w data k h t rts s Hs Ord S') as H.
    destruct (add_change r w data k h t rts) as [r' a]. exact H.
  - pose proof (collect_samples_thinned r max m hsel false) as H.
    destruct (collect r max m hsel false) as [r' c]. cbn [fst] in *. eapply thinned_separated; eassumption.
  - pose proof (collect_samples_thinned r max m hsel true) as H.
    destruct (collect r max m hsel true) as [r' c]. cbn [fst] in *. eapply thinned_separated; eassumption.
  - unfold next_instance_op.
    pose proof (next_loop_samples_thinned (S (length (r_insts r))) r max m prev false) as H.
    destruct (next_loop _ r max m prev false) as [r' c]. cbn [fst] in *. eapply thinned_separated; eassumption.
  - unfold next_instance_op.
    pose proof (next_loop_samples_thinned (S (length (r_insts r))) r max m prev true) as H.
    destruct (next_loop _ r max m prev true) as [r' c]. cbn [fst] in *. eapply thinned_separated; eassumption.
  - unfold add_matched. destruct (upd_pub w s0 (r_matched r)); exact S'.
  - unfold remove_matched. destruct (find_pub w (r_matched r)); exact S'.
Qed.

Lemma separated_from ops : forall r s,
  q_sep (r_qos r) = Some s -> in_order r ops -> separated s (r_samples r) ->
  separated s (r_samples (run_from r ops)).
Proof.
  induction ops as [|o ops IH]; intros r s Hs Ord S'; [exact S'|].
  rewrite run_from_cons. destruct Ord as [O1 O2]. apply IH; [now rewrite step_qos|exact O2|].
  now apply step_separated.
Qed.

(* 1. the cache never holds two samples of one instance closer than minimum_separation *)
Theorem stored_separated q ops s :
  q_sep q = Some s -> in_order (init_reader q) ops -> separated s (r_samples (run q ops)).
Proof.
  intros Hs Ord. unfold run. change (fst (run_obs (init_reader q) ops)) with (run_from (init_reader q) ops).
  apply separated_from; [exact Hs|exact Ord|constructor].
Qed.

(* the same hypothesis on the input alone: per instance the source timestamps of the
   history are non-decreasing *)
Fixpoint ts_monotone (ops : list op) : Prop :=
  match ops with
  | [] => True
  | OpAdd _ h _ t _ _ :: rest =>
      (forall w' k' t' d' rts', In (OpAdd w' h k' t' d' rts') rest -> ts_leb t t' = true) /\ ts_monotone rest
  | _ :: rest => ts_monotone rest
  end.

Definition older_than_rest (r : reader) (ops : list op) : Prop :=
  forall x w k t d rts, In x (r_samples r) -> In (OpAdd w (s_inst x) k t d rts) ops -> ts_leb (s_ts x) t = true.

Lemma thinned_in k l x : thinned k l -> In x k -> exists y, In y l /\ s_ts x = s_ts y /\ s_inst x = s_inst y.
Proof.
  intros H. induction H as [|y k l H IH|y k l H IH|y k l H IH]; intros Hx.
  - destruct Hx.
  - destruct Hx as [<-|Hx]; [exists y; split; [now left|auto]|].
    destruct (IH Hx) as (z & Hz & E). exists z. split; [now right|exact E].
  - destruct Hx as [<-|Hx]; [exists y; split; [now left|auto]|].
    destruct (IH Hx) as (z & Hz & E). exists z. split; [now right|exact E].
  - destruct (IH Hx) as (z & Hz & E). exists z. split; [now right|exact E].
Qed.

Lemma in_insert_before {A} (p : A -> bool) x l y : In y (insert_before p x l) -> y = x \/ In y l.
Proof.
  induction l as [|z l IH]; cbn [insert_before].
  - intros [<-|[]]. now left.
  - destruct (p z).
    + intros [<-|H]; [now left|now right].
    + intros [<-|H]; [right; now left|]. destruct (IH H) as [->|H']; [now left|right; now right].
Qed.

Lemma step_older r o ops :
  older_than_rest r (o :: ops) -> ts_monotone (o :: ops) -> older_than_rest (fst (step r o)) ops.
Proof.
  intros Old Mono.
  assert (Thin : thinned (r_samples (fst (step r o))) (r_samples r) -> older_than_rest (fst (step r o)) ops).
  { intros Th x w k t d rts Hx Hop. destruct (thinned_in _ _ _ Th Hx) as (y & Hy & Et & Ei).
    rewrite Et. rewrite Ei in Hop. eapply Old; [exact Hy|right; exact Hop]. }
  destruct o; cbn [step] in *.
  - clear Thin. pose proof (add_change_samples r w data k h t rts) as H. cbv zeta in H.
    destruct (add_change r w data k h t rts) as [r' a]. cbn [fst snd] in *.
    cbn [ts_monotone] in Mono. destruct Mono as [M1 _].
    intros x w' k' t' d' rts' Hx Hop.
    assert (Hcase : In x (r_samples r) \/ (s_ts x = t /\ s_inst x = h)).
    { destruct H as [H | (smp & base & Hts & Hh & _ & _ & _ & _ & Hbase & Hshape & _)]; [left; now rewrite <- H|].
      rewrite Hshape in Hx.
      assert (Hb : forall y, In y base -> In y (r_samples r))
        by (intros y Hy; destruct Hbase as [-> | ->]; [exact Hy|eapply remove_first_in; exact Hy]).
      destruct (q_bysrc (r_qos r)).
      - destruct (in_insert_before _ _ _ _ Hx) as [->|Hx']; [right; auto|left; auto].
      - apply in_app_or in Hx. destruct Hx as [Hx|[<-|[]]]; [left; auto|right; auto]. }
    destruct Hcase as [Hx'|[Et Ei]].
    + eapply Old; [exact Hx'|right; exact Hop].
    + rewrite Et. rewrite Ei in Hop. eapply M1. exact Hop.
  - apply Thin. pose proof (collect_samples_thinned r max m hsel false) as H.
    destruct (collect r max m hsel false) as [r' c]. exact H.
  - apply Thin. pose proof (collect_samples_thinned r max m hsel true) as H.
    destruct (collect r max m hsel true) as [r' c]. exact H.
  - apply Thin. unfold next_instance_op.
    pose proof (next_loop_samples_thinned (S (length (r_insts r))) r max m prev false) as H.
    destruct (next_loop _ r max m prev false) as [r' c]. exact H.
  - apply Thin. unfold next_instance_op.
    pose proof (next_loop_samples_thinned (S (length (r_insts r))) r max m prev true) as H.
    destruct (next_loop _ r max m prev true) as [r' c]. exact H.
  - apply Thin. unfold add_matched. destruct (upd_pub w s (r_matched r)); apply thinned_refl.
  - apply Thin. unfold remove_matched. destruct (find_pub w (r_matched r)); apply thinned_refl.
Qed.

Lemma ts_monotone_tail o ops : ts_monotone (o :: ops) -> ts_monotone ops.
Proof. destruct o; cbn [ts_monotone]; try (intros H; exact H). intros [_ H]; exact H. Qed.

Lemma monotone_in_order ops : forall r,
  older_than_rest r ops -> ts_monotone ops -> in_order r ops.
Proof.
  induction ops as [|o ops IH]; intros r Old Mono; [exact I|]. split.
  - destruct o; cbn [arrives_in_order]; try exact I. intros x Hx Eh. subst h.
    eapply Old; [exact Hx|left; reflexivity].
  - apply IH; [now apply step_older|eapply ts_monotone_tail; exact Mono].
Qed.

Theorem stored_separated_monotone q ops s :
  q_sep q = Some s -> ts_monotone ops -> separated s (r_samples (run q ops)).
Proof.
  intros Hs Mono. apply stored_separated; [exact Hs|]. apply monotone_in_order; [|exact Mono].
  intros x w k t d rts [].
Qed.

(* ------------------------------------------------------------------ what read/take present *)
Definition info_sep (s : Z) (a b : info) : Prop :=
  f_inst a = f_inst b -> forall x y, f_ts a = Some x -> f_ts b = Some y -> s <= Z.abs (x - y).

Lemma collect_loop_infos_separated s r m hsel max take : forall l n,
  separated s l ->
  ForallOrdPairs (info_sep s) (snd (collect_loop r m hsel max take l n)) /\
  Forall (fun x => exists y, In y l /\ f_ts x = s_ts y /\ f_inst x = s_inst y)
         (snd (collect_loop r m hsel max take l n)).
Proof.
  induction l as [|y t IH]; intros n S'; cbn [collect_loop].
  - split; constructor.
  - destruct (n =? max); [split; constructor|]. inversion S' as [|? ? F S'']; subst.
    destruct (selected r m hsel y) as [i|].
    + destruct (IH (n + 1) S'') as [I1 I2].
      destruct (collect_loop r m hsel max take t (n + 1)) as [k c]. cbn [snd] in *. split.
      * constructor; [|exact I1]. rewrite Forall_forall in *. intros x Hx.
        destruct (I2 x Hx) as (z & Hz & Et & Ei). specialize (F z Hz).
        unfold info_sep, info_of; cbn [f_ts f_inst]. rewrite Et, Ei. exact F.
      * constructor; [exists y; split; [now left|split; reflexivity]|].
        eapply Forall_impl; [|exact I2]. intros x (z & Hz & E). exists z; split; [now right|exact E].
    + destruct (IH n S'') as [I1 I2].
      destruct (collect_loop r m hsel max take t n) as [k c]. cbn [snd] in *. split; [exact I1|].
      eapply Forall_impl; [|exact I2]. intros x (z & Hz & E). exists z; split; [now right|exact E].
Qed.

Lemma fop_map_eq {A B} (R : A -> A -> Prop) (R' : B -> B -> Prop) (f : A -> B) :
  (forall a b, R' (f a) (f b) -> R a b) ->
  forall l, ForallOrdPairs R' (map f l) -> ForallOrdPairs R l.
Proof.
  intros H l. induction l as [|a l IH]; cbn [map]; intros F; [constructor|].
  inversion F as [|? ? Fa F']; subst. constructor; [|apply IH; exact F'].
  rewrite Forall_forall in *. intros b Hb. apply H, Fa, in_map, Hb.
Qed.

Definition it (x : info) : Z * ts := (f_inst x, f_ts x).
Definition it_sep (s : Z) (a b : Z * ts) : Prop :=
  fst a = fst b -> forall x y, snd a = Some x -> snd b = Some y -> s <= Z.abs (x - y).

Lemma fop_map_it s l : ForallOrdPairs (info_sep s) l <-> ForallOrdPairs (it_sep s) (map it l).
Proof.
  split.
  - induction 1 as [|a l F _ IH]; cbn [map]; constructor; [|exact IH].
    rewrite Forall_forall in *. intros b Hb. apply in_map_iff in Hb. destruct Hb as (x & <- & Hx).
    exact (F x Hx).
  - apply fop_map_eq. intros a b H. exact H.
Qed.

Lemma fill_ranks_it all l : map it (fill_ranks all l) = map it l.
Proof. induction l as [|x t IH]; cbn [fill_ranks map]; [reflexivity|]. rewrite IH. reflexivity. Qed.

Lemma collect_presented_separated s r max m hsel take l :
  separated s (r_samples r) ->
  snd (collect r max m hsel take) = CollOk l -> ForallOrdPairs (info_sep s) l.
Proof.
  intros S'. unfold collect. break_match; [discriminate|].
  destruct (collect_loop_infos_separated s r m hsel max take (r_samples r) 0 S') as [I1 _].
  destruct (collect_loop r m hsel max take (r_samples r) 0) as [kept c]. cbn [snd] in *.
  remember (fill_ranks c c) as fr eqn:Efr.
  destruct c as [|x c']; [discriminate|]. intros H.
  assert (El : l = fr) by (injection H as H; symmetry; exact H). rewrite El, Efr.
  apply fop_map_it. rewrite fill_ranks_it. apply fop_map_it. exact I1.
Qed.

Lemma next_loop_presented_separated s fuel : forall r max m prev take l,
  separated s (r_samples r) ->
  snd (next_loop fuel r max m prev take) = CollOk l -> ForallOrdPairs (info_sep s) l.
Proof.
  induction fuel as [|f IH]; intros r max m prev take l S'; cbn [next_loop]; [discriminate|].
  destruct (next_instance r prev) as [h0|]; [|discriminate].
  pose proof (collect_presented_separated s r max m (Some h0) take) as C.
  destruct (collect r max m (Some h0) take) as [r' c]. cbn [snd] in C.
  destruct c; cbn [snd]; try discriminate.
  - intros H. injection H as <-. apply C; [exact S'|reflexivity].
  - apply IH. exact S'.
Qed.

Lemma step_presented_separated s r o l :
  separated s (r_samples r) ->
  coll_of (snd (step r o)) = CollOk l -> ForallOrdPairs (info_sep s) l.
Proof.
  intros S'. destruct o; cbn [step].
  - destruct (add_change r w data k h t rts); cbn; discriminate.
  - pose proof (collect_presented_separated s r max m hsel false l S') as C.
    destruct (collect r max m hsel false) as [r' c]. exact C.
  - pose proof (collect_presented_separated s r max m hsel true l S') as C.
    destruct (collect r max m hsel true) as [r' c]. exact C.
  - unfold next_instance_op.
    pose proof (next_loop_presented_separated s (S (length (r_insts r))) r max m prev false l S') as C.
    destruct (next_loop _ r max m prev false) as [r' c]. exact C.
  - unfold next_instance_op.
    pose proof (next_loop_presented_separated s (S (length (r_insts r))) r max m prev true l S') as C.
    destruct (next_loop _ r max m prev true) as [r' c]. exact C.
  - cbn; discriminate.
  - cbn; discriminate.
Qed.

(* 2. every collection returned after an in-order history is separated *)
Theorem presented_separated q ops o s l :
  q_sep q = Some s -> in_order (init_reader q) ops ->
  coll_of (snd (step (run q ops) o)) = CollOk l -> ForallOrdPairs (info_sep s) l.
Proof.
  intros Hs Ord. apply step_presented_separated. now apply stored_separated.
Qed.

(* ------------------------------------------------------------------ nothing is forgotten *)
(* complement of class 2: KEEP_ALL and no take *)
Definition is_take (o : op) : bool :=
  match o with OpTake _ _ _ | OpTakeNext _ _ _ => true | _ => false end.
Definition same_core (a b : sample) : Prop :=
  s_inst a = s_inst b /\ s_ts a = s_ts b /\ s_data a = s_data b /\ s_writer a = s_writer b.
Definition kept_in (l l' : list sample) : Prop :=
  forall x, In x l -> exists x', In x' l' /\ same_core x' x.

Lemma same_core_refl a : same_core a a.
Proof. repeat split. Qed.

Lemma kept_in_refl l : kept_in l l.
Proof. intros x Hx. exists x. split; [exact Hx|apply same_core_refl]. Qed.

Lemma kept_in_trans a b c : kept_in a b -> kept_in b c -> kept_in a c.
Proof.
  intros H1 H2 x Hx. destruct (H1 x Hx) as (y & Hy & E1). destruct (H2 y Hy) as (z & Hz & E2).
  exists z. split; [exact Hz|]. destruct E1 as (?&?&?&?), E2 as (?&?&?&?). repeat split; congruence.
Qed.

Lemma collect_loop_read_keeps r m hsel max : forall l n,
  kept_in l (fst (collect_loop r m hsel max false l n)).
Proof.
  induction l as [|y t IH]; intros n; cbn [collect_loop]; [apply kept_in_refl|].
  destruct (n =? max); [apply kept_in_refl|].
  destruct (selected r m hsel y) as [i|].
  - specialize (IH (n + 1)). destruct (collect_loop r m hsel max false t (n + 1)) as [k c]. cbn [fst] in *.
    intros x [<-|Hx].
    + exists (mark_read y). split; [now left|repeat split].
    + destruct (IH x Hx) as (x' & Hx' & E). exists x'. split; [now right|exact E].
  - specialize (IH n). destruct (collect_loop r m hsel max false t n) as [k c]. cbn [fst] in *.
    intros x [<-|Hx].
    + exists y. split; [now left|apply same_core_refl].
    + destruct (IH x Hx) as (x' & Hx' & E). exists x'. split; [now right|exact E].
Qed.

Lemma collect_read_keeps r max m hsel :
  kept_in (r_samples r) (r_samples (fst (collect r max m hsel false))).
Proof.
  unfold collect. break_match; [apply kept_in_refl|].
  pose proof (collect_loop_read_keeps r m hsel max (r_samples r) 0) as H.
  destruct (collect_loop r m hsel max false (r_samples r) 0) as [kept c]. cbn [fst] in H.
  destruct c; cbn [fst r_samples]; exact H.
Qed.

Lemma next_loop_read_keeps fuel : forall r max m prev,
  kept_in (r_samples r) (r_samples (fst (next_loop fuel r max m prev false))).
Proof.
  induction fuel as [|f IH]; intros; cbn [next_loop]; [apply kept_in_refl|].
  destruct (next_instance r prev) as [h|]; [|apply kept_in_refl].
  pose proof (collect_read_keeps r max m (Some h)) as H.
  destruct (collect r max m (Some h) false) as [r' c]. cbn [fst] in H.
  destruct c; try exact H. apply IH.
Qed.

Lemma add_change_keep_all r w data k h t rts :
  q_depth (r_qos r) = None ->
  kept_in (r_samples r) (r_samples (fst (add_change r w data k h t rts))).
Proof.
  intros Hd. unfold add_change. cbv zeta. rewrite Hd.
  repeat (break_match; cbn [fst r_samples set_insts set_owns]); try apply kept_in_refl.
  all: intros x Hx; exists x; (split; [|apply same_core_refl]).
  all: try (apply in_or_app; left; exact Hx).
  all: match goal with
       | |- In _ (insert_before ?p ?smp ?l) =>
           clear - Hx; induction l as [|y l' IHl]; cbn [insert_before];
           [destruct Hx | destruct (p y); [right; exact Hx | destruct Hx as [<-|Hx]; [now left|right; auto]]]
       end.
Qed.

Lemma step_keeps r o :
  q_depth (r_qos r) = None -> is_take o = false ->
  kept_in (r_samples r) (r_samples (fst (step r o))).
Proof.
  intros Hd Ht. destruct o; cbn [step is_take] in *; try discriminate.
  - pose proof (add_change_keep_all r w data k h t rts Hd) as H.
    destruct (add_change r w data k h t rts) as [r' a]. exact H.
  - pose proof (collect_read_keeps r max m hsel) as H.
    destruct (collect r max m hsel false) as [r' c]. exact H.
  - unfold next_instance_op.
    pose proof (next_loop_read_keeps (S (length (r_insts r))) r max m prev) as H.
    destruct (next_loop _ r max m prev false) as [r' c]. exact H.
  - unfold add_matched. destruct (upd_pub w s (r_matched r)); apply kept_in_refl.
  - unfold remove_matched. destruct (find_pub w (r_matched r)); apply kept_in_refl.
Qed.

Lemma run_from_keeps ops : forall r,
  q_depth (r_qos r) = None -> forallb (fun o => negb (is_take o)) ops = true ->
  kept_in (r_samples r) (r_samples (run_from r ops)).
Proof.
  induction ops as [|o ops IH]; intros r Hd Ht; [apply kept_in_refl|].
  cbn [forallb] in Ht. apply andb_true_iff in Ht. destruct Ht as [Ho Ht]. apply negb_true_iff in Ho.
  rewrite run_from_cons. apply (kept_in_trans _ (r_samples (fst (step r o)))); [apply step_keeps; assumption|].
  apply IH; [now rewrite step_qos|exact Ht].
Qed.

(* 3. with KEEP_ALL and no take, whatever any read of the history returned is (the
   instance, timestamp and payload of) a sample of the final cache; with
   stored_separated: any two different samples ever presented are separated *)
Theorem presented_are_stored q ops1 o ops2 l x :
  q_depth q = None -> forallb (fun o => negb (is_take o)) (ops1 ++ o :: ops2) = true ->
  coll_of (snd (step (run q ops1) o)) = CollOk l -> In x l ->
  exists y, In y (r_samples (run q (ops1 ++ o :: ops2))) /\
            s_inst y = f_inst x /\ s_ts y = f_ts x /\ s_data y = f_data x.
Proof.
  intros Hd Ht Hc Hx.
  destruct (step_presents _ _ _ _ Hc Hx) as (y & i & Hy & _ & Ei & Ed & Et & _).
  rewrite forallb_app in Ht. apply andb_true_iff in Ht. destruct Ht as [_ Ht].
  unfold run in *. change (fst (run_obs (init_reader q) (ops1 ++ o :: ops2)))
    with (run_from (init_reader q) (ops1 ++ o :: ops2)).
  change (fst (run_obs (init_reader q) ops1)) with (run_from (init_reader q) ops1) in Hy.
  rewrite run_from_app.
  assert (Hq : q_depth (r_qos (run_from (init_reader q) ops1)) = None).
  { change (run_from (init_reader q) ops1) with (run q ops1). now rewrite run_qos. }
  destruct (run_from_keeps (o :: ops2) _ Hq Ht y Hy) as (y' & Hy' & E1 & E2 & E3 & _).
  exists y'. split; [exact Hy'|]. repeat split; congruence.
Qed.

(* ------------------------------------------------------------------ witnesses *)
Definition infos_of (c : coll_result) : list info := match c with CollOk l => l | _ => [] end.
Definition wq : qos := mkQ false None None None None false (Some 8).
Definition mAll : masks := mkM true true true true true true true.

(* class 1: timestamps 10 then 5 with minimum_separation 8: both accepted and presented *)
Lemma class1_witness :
  let ops := [OpAdd 1 1 KAlive (Some 10) 100 10; OpAdd 1 1 KAlive (Some 5) 101 20] in
  snd (run_obs (init_reader wq) ops) = [ObsAdd Added; ObsAdd Added] /\
  map (fun x => (f_inst x, f_ts x)) (infos_of (snd (collect (run wq ops) 10 mAll None false)))
    = [(1, Some 10); (1, Some 5)] /\
  ~ in_order (init_reader wq) ops.
Proof.
  cbv zeta. split; [vm_compute; reflexivity|]. split; [vm_compute; reflexivity|].
  intros (_ & H & _). cbn [arrives_in_order] in H.
  specialize (H (mkS KAlive 1 1 (Some 10) 100 SNotRead 0 0)).
  assert (E : ts_leb (Some 10) (Some 5) = true) by (apply H; [vm_compute; now left|reflexivity]).
  discriminate.
Qed.

(* class 2: 10 is taken, then 12 is accepted: both were presented *)
Lemma class2_witness :
  let ops1 := [OpAdd 1 1 KAlive (Some 10) 100 10] in
  let ops2 := [OpTake 10 mAll None; OpAdd 1 1 KAlive (Some 12) 101 20] in
  map (fun x => (f_inst x, f_ts x)) (infos_of (snd (collect (run wq ops1) 10 mAll None true)))
    = [(1, Some 10)] /\
  snd (run_obs (init_reader wq) (ops1 ++ ops2)) =
    [ObsAdd Added; ObsColl (snd (collect (run wq ops1) 10 mAll None true)); ObsAdd Added] /\
  map (fun x => (f_inst x, f_ts x)) (infos_of (snd (collect (run wq (ops1 ++ ops2)) 10 mAll None false)))
    = [(1, Some 12)] /\
  in_order (init_reader wq) (ops1 ++ ops2).
Proof.
  cbv zeta. repeat split; try (vm_compute; reflexivity).
  - intros x [].
  - cbn [arrives_in_order]. intros x Hx _. vm_compute in Hx. destruct Hx.
Qed.

Theorem no_over_filtering_both r w data k h t0 rts s :
  q_sep (r_qos r) = Some s -> q_excl (r_qos r) = false ->
  (forall x a, In x (r_samples r) -> s_inst x = h -> s_ts x = Some a -> a + s <= t0) ->
  of_interest r h (Some t0) = true /\
  snd (add_change r w data k h (Some t0) rts) <> NotAdded.
Proof.
  intros Hs He Far. split; [now apply (of_interest_far r h t0 s)|now apply (no_over_filtering r w data k h t0 rts s)].
Qed.

Definition nv_ops : list op :=
  [OpAdd 1 1 KAlive (Some 10) 100 10; OpAdd 1 1 KAlive (Some 17) 101 20;
   OpAdd 1 2 KAlive (Some 17) 102 25; OpAdd 1 1 KAlive (Some 18) 103 30].
Lemma nonvacuous :
  ts_monotone nv_ops /\ forallb (fun o => negb (is_take o)) nv_ops = true /\
  snd (run_obs (init_reader wq) nv_ops) = [ObsAdd Added; ObsAdd NotAdded; ObsAdd Added; ObsAdd Added] /\
  map s_data (r_samples (run wq nv_ops)) = [100; 102; 103].
Proof.
  split; [|repeat split; vm_compute; reflexivity].
  cbn [ts_monotone nv_ops]. repeat split; intros w' k' t' d' rts' H; cbn [In] in H;
    repeat (destruct H as [H|H]; [inversion H; subst; reflexivity || (exfalso; congruence)|]); try destruct H.
Qed.
