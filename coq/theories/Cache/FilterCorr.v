(* Correspondence vocabulary for C26: one case = one simulated scenario (harness bin `cft`):
   a writer on the related topic, the readers of ONE subscriber in creation order (each on a
   content-filtered topic or on the plain topic), the written/disposed changes in the arrival
   groups in which they reached the worker, and what every reader presented afterwards. *)
From DustDDS Require Export Base.Machine Cache.FilterModel.
Open Scope Z_scope.

(* the harness type: struct FData { #[key] id: u8, num: i32, name: String, aux: i32, tag: String, small: i16 } *)
Definition n_id : str := [105; 100].
Definition n_num : str := [110; 117; 109].
Definition n_name : str := [110; 97; 109; 101].
Definition n_aux : str := [97; 117; 120].
Definition n_tag : str := [116; 97; 103].
Definition n_small : str := [115; 109; 97; 108; 108].
Definition k_uint8 : Z := 9.
Definition k_int16 : Z := 3.
Definition fdata (id num : Z) (name : str) (aux : Z) (tag : str) (small : Z) : sample :=
  [(n_id, VUnsupported k_uint8 id); (n_num, VInt32 num); (n_name, VString name);
   (n_aux, VInt32 aux); (n_tag, VString tag); (n_small, VUnsupported k_int16 small)].
Definition mkw (id num : Z) (name : str) (aux : Z) (tag : str) (small : Z) : change :=
  mkCh true id (fdata id num name aux tag small).
Definition mkd (id : Z) : change := mkCh false id [].

Record C26_case : Type := mkC26 {
  c_readers : list (option cft);
  c_groups : list (list change);
  c_out : res (list (list item))        (* per reader: read() result; Panic = the worker panicked *)
}.

Definition C26_run (c : C26_case) : res (list (list item)) :=
  rs <- run_groups (c_groups c) (map (fun f => (f, reader_init)) (c_readers c)) ;;
  Ok (map (fun r => r_samples (snd r)) rs).

(* an item without data carries no key in the observation *)
Definition item_eqb (a b : item) : bool :=
  match a, b with
  | IData x, IData y => sample_eqb x y
  | INoData _, INoData _ => true
  | _, _ => false
  end.
Fixpoint items_eqb (a b : list item) : bool :=
  match a, b with
  | [], [] => true
  | x :: a', y :: b' => item_eqb x y && items_eqb a' b'
  | _, _ => false
  end.
Fixpoint itemss_eqb (a b : list (list item)) : bool :=
  match a, b with
  | [], [] => true
  | x :: a', y :: b' => items_eqb x y && itemss_eqb a' b'
  | _, _ => false
  end.

Definition C26_model_ok (c : C26_case) : bool :=
  match C26_run c, c_out c with
  | Ok a, Ok b => itemss_eqb a b
  | Panic _, Panic _ => true
  | Err x, Err y => x =? y
  | _, _ => false
  end.

(* ---- the property on the implementation's output ----
   For a reader on a content-filtered topic whose expression is one of the supported forms and
   decides every written sample: the presented samples are exactly the written samples that satisfy
   the expression WITH THE PARAMETER IT NAMES, in order.  A reader on the plain topic presents all.
   Readers whose filter is outside the supported forms are outside the property's domain. *)
Definition alive_changes (groups : list (list change)) : list change :=
  filter ch_alive (concat groups).

Definition reader_ok (groups : list (list change)) (flt : option cft) (obs : list item) : bool :=
  match flt with
  | None => samples_eqb (presented obs) (map ch_data (alive_changes groups))
  | Some f =>
      if forallb (spec_defined f) (alive_changes groups)
      then samples_eqb (presented obs) (map ch_data (filter (spec_true f) (alive_changes groups)))
      else true
  end.

Fixpoint readers_ok (groups : list (list change)) (fs : list (option cft)) (obs : list (list item)) : bool :=
  match fs, obs with
  | [], [] => true
  | f :: fs', o :: obs' => reader_ok groups f o && readers_ok groups fs' obs'
  | _, _ => false
  end.

Definition in_domain_reader (groups : list (list change)) (flt : option cft) : bool :=
  match flt with
  | None => true
  | Some f => forallb (spec_defined f) (alive_changes groups)
  end.

Definition C26_oracle_ok (c : C26_case) : bool :=
  match c_out c with
  | Ok obs => readers_ok (c_groups c) (c_readers c) obs
  | _ => negb (forallb (in_domain_reader (c_groups c)) (c_readers c))
         (* a panic is only tolerated when some filter is outside the supported forms *)
  end.

(* no known classes: the two defects once recorded here (batch dropped after a rejected sample,
   parameter index ignored) are repaired in /repo (c4677f2, 88b96b4) *)
Definition C26_known (c : C26_case) : N := 0%N.
