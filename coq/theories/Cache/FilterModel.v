(* C26 — content-filtered readers.  Model (definitions only) of
     dds/src/dcps/dcps_domain_participant/communication_methods.rs
       process_user_defined_received_cache_changes (as of commits c4677f2 and 88b96b4):
       the per-reader loop over the batch of cache changes taken with mem::take (l.55-59),
       the filter evaluation of lines 87-206 (operator search l.122-134, parameter selection
       l.137-145, member lookup l.146-153, type-kind dispatch l.154-202) and the hand-over to
       add_reader_change;
     dds/src/dcps/dcps_domain_participant/topic_entity.rs ContentFilteredTopicEntity
       (filter_expression : String, expression_parameters : Vec<String>).
   Strings are lists of UTF-8 bytes (Z); `String` comparison in Rust is byte-wise
   lexicographic, `split_once`/`trim` are modelled on bytes (exact for ASCII expressions). *)
From DustDDS Require Import Base.Machine.
Open Scope Z_scope.

Definition str := list Z.

(* ------------------------------------------------------------------ std string functions *)
Fixpoint str_eqb (a b : str) : bool :=
  match a, b with
  | [], [] => true
  | x :: a', y :: b' => (x =? y) && str_eqb a' b'
  | _, _ => false
  end.

(* `String <= String`: lexicographic on bytes, a proper prefix is smaller *)
Fixpoint str_leb (a b : str) : bool :=
  match a, b with
  | [], _ => true
  | _ :: _, [] => false
  | x :: a', y :: b' => if x <? y then true else if y <? x then false else str_leb a' b'
  end.

Fixpoint is_prefix (p s : str) : bool :=
  match p, s with
  | [], _ => true
  | _ :: _, [] => false
  | x :: p', y :: s' => (x =? y) && is_prefix p' s'
  end.

(* str::split_once(pat): split at the FIRST occurrence of pat *)
Fixpoint split_once (pat s : str) : option (str * str) :=
  if is_prefix pat s then Some ([], skipn (length pat) s)
  else match s with
       | [] => None
       | c :: t => match split_once pat t with
                   | Some (l, r) => Some (c :: l, r)
                   | None => None
                   end
       end.

(* char::is_whitespace restricted to one-byte characters: U+0009..U+000D and U+0020 *)
Definition is_ws (c : Z) : bool := ((9 <=? c) && (c <=? 13)) || (c =? 32).
Fixpoint trim_start (s : str) : str :=
  match s with
  | c :: t => if is_ws c then trim_start t else s
  | [] => []
  end.
Definition trim (s : str) : str := rev (trim_start (rev (trim_start s))).

(* <i32 as FromStr>::from_str: optional single '+'/'-', at least one digit, only ASCII digits,
   overflow is an error *)
Definition digit (c : Z) : option Z := if (48 <=? c) && (c <=? 57) then Some (c - 48) else None.
Fixpoint digits_val (acc : Z) (s : str) : option Z :=
  match s with
  | [] => Some acc
  | c :: t => match digit c with Some d => digits_val (acc * 10 + d) t | None => None end
  end.
Definition parse_i32 (s : str) : option Z :=
  match s with
  | [] => None
  | c :: t =>
      let neg := c =? 45 in
      let ds := if (c =? 43) || (c =? 45) then t else s in
      match ds with
      | [] => None
      | _ => match digits_val 0 ds with
             | None => None
             | Some v => let v' := if neg then - v else v in
                         if in_i32b v' then Some v' else None
             end
      end
  end.

(* ------------------------------------------------------------------ samples *)
(* a member value as the filter sees it through DynamicData: the two kinds with code, and the
   kinds whose match arm is todo!() (l.146-149, 161-171, 183-194) *)
Inductive value : Type :=
| VInt32 (z : Z)
| VString (s : str)
| VUnsupported (kind : Z) (v : Z).   (* kind = TypeKind tag, v = the value (not looked at) *)

(* a deserialized sample: its members in declaration order (name, value) *)
Definition sample := list (str * value).

(* data.get_member_id_by_name(name) followed by get_descriptor / get_*_value of that member *)
Fixpoint lookup (name : str) (s : sample) : option value :=
  match s with
  | [] => None
  | (n, v) :: t => if str_eqb n name then Some v else lookup name t
  end.

(* ------------------------------------------------------------------ the filter (l.95-199) *)
Inductive cmp_op : Type := OpLe | OpEq.     (* enum Operator { LessThan, Equal } *)
Definition op_text (o : cmp_op) : str := match o with OpLe => [60; 61] | OpEq => [61] end.  (* "<=", "=" *)
Definition compare_int32 (o : cmp_op) (l r : Z) : bool :=
  match o with OpEq => l =? r | OpLe => l <=? r end.
Definition compare_string (o : cmp_op) (l r : str) : bool :=
  match o with OpEq => str_eqb l r | OpLe => str_leb l r end.

(* l.122-134: first operator of [LessThan, Equal] whose text occurs: (text left of it, text right of it) *)
Definition find_filter (expr : str) : option (str * str * cmp_op) :=
  match split_once (op_text OpLe) expr with
  | Some (l, r) => Some (l, r, OpLe)
  | None => match split_once (op_text OpEq) expr with
            | Some (l, r) => Some (l, r, OpEq)
            | None => None
            end
  end.

(* <usize as FromStr>::from_str (64-bit): optional single '+', at least one digit, only ASCII digits,
   overflow is an error *)
Definition parse_usize (s : str) : option Z :=
  match s with
  | [] => None
  | c :: t =>
      let ds := if c =? 43 then t else s in
      match ds with
      | [] => None
      | _ => match digits_val 0 ds with
             | Some v => if v <=? u64_max then Some v else None
             | None => None
             end
      end
  end.

(* l.137-145: parameter.trim().strip_prefix('%').and_then(|n| n.parse::<usize>().ok())
              .and_then(|n| expression_parameters.get(n)) *)
Definition param_of (params : list str) (rhs : str) : option str :=
  match trim rhs with
  | c :: ds => if c =? 37 then
                 match parse_usize ds with
                 | Some n => nth_error params (Z.to_nat n)
                 | None => None
                 end
               else None
  | [] => None
  end.

Record cft : Type := mkCft { f_expr : str; f_params : list str }.

Inductive outcome : Type := Pass | Fail | Error.
Definition of_bool (b : bool) : outcome := if b then Pass else Fail.

Definition site_todo : Z := 1.      (* todo!() arm of the kind match *)
Definition site_expect : Z := 3.    (* .parse().expect("valid number") *)

(* outcome for one ALIVE change of a reader on a content-filtered topic:
   Pass  = falls through to add_reader_change,
   Fail  = comparison false -> `continue` (next change of the batch)
   Error = no operator / right side not a usable %n / unknown member -> `continue` *)
Definition eval_code (f : cft) (s : sample) : res outcome :=
  match find_filter (f_expr f) with
  | None => Ok Error
  | Some (var, rhs, o) =>
      match param_of (f_params f) rhs with
      | None => Ok Error
      | Some pv =>
          match lookup (trim var) s with
          | None => Ok Error
          | Some (VInt32 z) =>
              match parse_i32 pv with
              | None => Panic site_expect
              | Some n => Ok (of_bool (compare_int32 o z n))
              end
          | Some (VString x) => Ok (of_bool (compare_string o x pv))
          | Some (VUnsupported _ _) => Panic site_todo
          end
      end
  end.

(* ------------------------------------------------------------------ the property's evaluator *)
(* DDS semantics of the two supported forms  `member <= %n`  and  `member = %n`:
   the member is compared with expression parameter number n.  None = outside the supported forms
   (other operator, right side not %n, n beyond the parameters, member missing or of another kind,
   integer parameter not an i32 literal). *)
Definition parse_index (s : str) : option nat :=
  match s with
  | c :: ds => if c =? 37 then
                 match ds with
                 | [] => None
                 | _ => match digits_val 0 ds with
                        | Some v => if v <=? u64_max then Some (Z.to_nat v) else None
                        | None => None
                        end
                 end
               else None
  | [] => None
  end.

Definition spec_parts (expr : str) : option (str * cmp_op * nat) :=
  let go (o : cmp_op) :=
    match split_once (op_text o) expr with
    | Some (l, r) => match parse_index (trim r) with
                     | Some n => Some (trim l, o, n)
                     | None => None
                     end
    | None => None
    end in
  match split_once (op_text OpLe) expr with
  | Some _ => go OpLe
  | None => go OpEq
  end.

Definition spec_eval (f : cft) (s : sample) : option bool :=
  match spec_parts (f_expr f) with
  | None => None
  | Some (name, o, n) =>
      match lookup name s, nth_error (f_params f) n with
      | Some (VInt32 z), Some p => match parse_i32 p with
                                   | Some k => Some (compare_int32 o z k)
                                   | None => None
                                   end
      | Some (VString x), Some p => Some (compare_string o x p)
      | _, _ => None
      end
  end.

Definition spec_index (f : cft) : option nat :=
  match spec_parts (f_expr f) with Some (_, _, n) => Some n | None => None end.

(* ------------------------------------------------------------------ reader and batch loop *)
(* a received cache change: ALIVE with data, or dispose/unregister (key only) *)
Record change : Type := mkCh { ch_alive : bool; ch_key : Z; ch_data : sample }.

Inductive item : Type := IData (s : sample) | INoData (key : Z).
Record reader_st : Type := mkRd { r_instances : list Z; r_samples : list item }.
Definition reader_init : reader_st := mkRd [] [].

Definition knows (st : reader_st) (k : Z) : bool := existsb (Z.eqb k) (r_instances st).

(* DataReaderEntity::add_reader_change for the QoS used here (KEEP_ALL, unlimited resource limits,
   shared ownership, no time-based filter, BY_RECEPTION_TIMESTAMP): an alive change is appended
   (creating the instance), a not-alive change of a known instance is appended, of an unknown
   instance it is an Err that the caller ignores (l.362) *)
Definition add_reader_change (c : change) (st : reader_st) : reader_st :=
  if ch_alive c then
    mkRd (if knows st (ch_key c) then r_instances st else r_instances st ++ [ch_key c])
         (r_samples st ++ [IData (ch_data c)])
  else if knows st (ch_key c) then mkRd (r_instances st) (r_samples st ++ [INoData (ch_key c)])
  else st.

(* l.75-216: what happens to one change before add_reader_change; a reader on a plain topic
   (None) and a not-alive change (l.87) bypass the filter *)
Definition classify (flt : option cft) (c : change) : res outcome :=
  match flt with
  | None => Ok Pass
  | Some f => if ch_alive c then eval_code f (ch_data c) else Ok Pass
  end.

(* `for cache_change in changes` (l.59) for ONE reader: a change the filter rejects executes
   `continue` — the next change of the batch is processed *)
Fixpoint reader_loop (flt : option cft) (batch : list change) (st : reader_st) : res reader_st :=
  match batch with
  | [] => Ok st
  | c :: rest =>
      match classify flt c with
      | Ok Pass => reader_loop flt rest (add_reader_change c st)
      | Ok _ => reader_loop flt rest st
      | Err e => Err e
      | Panic p => Panic p
      end
  end.

(* the readers of the subscriber, in data_reader_list order; every reader matched with the writer
   has received the same batch; a panic kills the worker *)
Fixpoint readers_step (batch : list change) (rs : list (option cft * reader_st))
  : res (list (option cft * reader_st)) :=
  match rs with
  | [] => Ok []
  | (flt, st) :: t =>
      st' <- reader_loop flt batch st ;;
      t' <- readers_step batch t ;;
      Ok ((flt, st') :: t')
  end.

(* one worker step per arrival group (datagram) *)
Fixpoint run_groups (groups : list (list change)) (rs : list (option cft * reader_st))
  : res (list (option cft * reader_st)) :=
  match groups with
  | [] => Ok rs
  | g :: t => rs' <- readers_step g rs ;; run_groups t rs'
  end.

(* single reader, for the theorems *)
Fixpoint run_reader (flt : option cft) (groups : list (list change)) (st : reader_st) : res reader_st :=
  match groups with
  | [] => Ok st
  | g :: t => st' <- reader_loop flt g st ;; run_reader flt t st'
  end.

(* ------------------------------------------------------------------ oracles (bool) *)
Definition passes (flt : option cft) (c : change) : bool :=
  match classify flt c with Ok Pass => true | _ => false end.
Definition decided (flt : option cft) (c : change) : bool :=
  match classify flt c with Ok Pass | Ok Fail => true | _ => false end.

(* the samples a reader presents (valid data only), in presentation order *)
Fixpoint presented (l : list item) : list sample :=
  match l with
  | [] => []
  | IData s :: t => s :: presented t
  | INoData _ :: t => presented t
  end.

Fixpoint sample_eqb (a b : sample) : bool :=
  match a, b with
  | [], [] => true
  | (n, v) :: a', (m, w) :: b' =>
      str_eqb n m &&
      match v, w with
      | VInt32 x, VInt32 y => x =? y
      | VString x, VString y => str_eqb x y
      | VUnsupported k x, VUnsupported j y => (k =? j) && (x =? y)
      | _, _ => false
      end && sample_eqb a' b'
  | _, _ => false
  end.
Fixpoint samples_eqb (a b : list sample) : bool :=
  match a, b with
  | [], [] => true
  | x :: a', y :: b' => sample_eqb x y && samples_eqb a' b'
  | _, _ => false
  end.

(* the samples that satisfy the filter under the property's (DDS) reading of the expression *)
Definition spec_true (f : cft) (c : change) : bool :=
  match spec_eval f (ch_data c) with Some true => true | _ => false end.
Definition spec_defined (f : cft) (c : change) : bool :=
  match spec_eval f (ch_data c) with Some _ => true | None => false end.
